"""C06 — bitstruct packing is a lossless, order-preserving bijection.

proof  : Props/C06.v over Struct/Shape.v + Layout.v + LayoutProofs.v (all unbounded in the shape and the value):
  "total width equal to the sum of the leaf widths"            C06_width_is_sum_of_leaf_widths, C06_pack_in_range
  "first-field-most-significant (list element 0 least ...)"    C06_first_field_most_significant, C06_element0_least_significant,
                                                               C06_ranges_chain/_within/_cover/_disjoint/_order, C06_pack_places_leaf (testbit),
                                                               C06_pack_high_zero
  "from_bits(to_bits(v)) == v and to_bits(from_bits(b)) == b"  C06_from_bits_to_bits, C06_to_bits_from_bits, C06_from_bits_well_typed
  "Equality, hashing ... agree with the packed value"          C06_eq_iff_pack, C06_fieldwise_eq_is_packed_eq, C06_hash_respects_eq,
                                                               C06_hash_is_function_of_packed
  "clone and deepcopy agree ..." / "without aliasing"          C06_clone_eq_fresh, C06_clone_independent  (cell-store model)
  "@= / <<= copy values field by field (visible immediately /  C06_imatmul_copies, C06_ilshift_defers, C06_ilshift_flip, C06_ilshift_snapshot,
   only after the flip) without aliasing the source"           C06_built_objects_are_separate
tie    : (a) T-gen per class: bitstructs._create_fn is wrapped FROM HERE and the source text it compiles for to_bits / from_bits /
         clone / __deepcopy__ / __imatmul__ / __ilshift__ / _flip / __eq__ / __hash__ is captured, parsed fail-closed
         (translators/bitstruct_src2coq.py) and checked inside Coq by `check_text T g` (parsed layout = leaf_ranges T, parsed slice
         tree = range_tree T, slots / clone tree / field tuple complete and in order).  C06_to_bits_text / C06_from_bits_text turn a
         passing check into "for all values of this shape".
         (b) T-diff on values: to_bits, from_bits, ==, hash, clone, deepcopy, @=, <<= + _flip of the real classes against
         pack / unpack / veqb / run_scenario evaluated by coqc.
         (c) construction: the generated __init__ text is captured and checked too (every default element a separate constructor call,
         constructor names bound to the declared types); instances are built in every way (T(), explicit args, partly defaulted args,
         from_bits) and used as source AND destination of @= / <<= / in-place leaf writes; every instance is scanned for one object
         sitting at two positions; "families" of declarations sharing one class name (permuted order, re-paired names/types, one type
         changed, nesting changed, identical re-declaration) are each checked against their OWN declaration (__bitstruct_fields__ order,
         generated texts, values).
         (d) operation sequences: random interleavings on a pool of LIVE objects (instances of the type, BitsW objects, instances of other
         struct types of the same width) of constructions, clone/deepcopy, from_bits(x.to_bits()), writes of fresh values and assignments
         `x_i.p @= / <<= x_j.q` whose right-hand side is any node of any live object, _flip at any node, observations; after each observed step
         every object's fields (with class identity), to_bits, pairwise == and hash equality are checked by coqc against `seq_run`
         (value semantics: the value at the time of the assignment, never a link), plus "from_bits(x.to_bits()) == x and hashes equal"
         and a no-shared-object scan over all live objects.
partial: the sequence model (seq_step) reuses the proven store operations but has no theorem of its own; the store model abstracts Python objects to trees of cells (a struct instance / list is immutable apart from its leaf cells);
         the link "per-class slot recursion = leaf-wise fold" is by construction of the model, checked by (b) only.
"""
from common import *
import copy, operator
sys.path.insert(0, str(VERIF / 'translators'))
import bitstruct_src2coq as TR

FIELD_NAMES = ['a', 'b', 'c', 'x', 'y', 'z', 's', 'self', 'other', 'cls', 'memo', 'v', '_q', 'f0', 'data', 'en', 'opaque',
               'concat', 'i', 'k', 'hash', 'val', 'rdy', 'msg', 'Bits8', '_type0', 'nbits_', 'other_', 'S', 'l']
LEAF_W = [1, 1, 1, 2, 3, 4, 4, 5, 7, 8, 8, 9, 16, 17, 31, 32, 33, 64]
METHODS = ['__init__', 'to_bits', 'from_bits', 'clone', '__deepcopy__', '__imatmul__', '__ilshift__', '_flip', '__eq__', '__hash__']

class Cls:
  """one generated bitstruct class"""
  def __init__(self, idx, name, fields, depth):
    self.idx, self.name, self.fields, self.depth = idx, name, fields, depth
    self.width = sum(sh_width(s) for _, s in fields)
    self.pycls = None; self.src = {}; self.fn_globals = {}
    self.evals = []      # the class objects obtained by evaluating this SAME definition again at later points of the run
    self.has_list = any(sh_has_list(s) for _, s in fields)
  def spec(self):
    return {'name': self.name, 'fields': [[n, sh_spec(s)] for n, s in self.fields]}

def sh_width(s):
  return s[1] if s[0] == 'b' else s[1].width if s[0] == 's' else s[1] * sh_width(s[2])
def sh_has_list(s):
  return s[0] == 'l' or (s[0] == 's' and s[1].has_list)
def sh_depth(s):
  return 0 if s[0] == 'b' else s[1].depth if s[0] == 's' else sh_depth(s[2])
def sh_spec(s):
  return f'Bits{s[1]}' if s[0] == 'b' else s[1].spec() if s[0] == 's' else [sh_spec(s[2])] * s[1]
def sh_term(s):
  return f'(SBits {s[1]})' if s[0] == 'b' else f'T{s[1].idx}' if s[0] == 's' else f'(SList {s[1]} {sh_term(s[2])})'
def cls_term(c):
  return 'SStruct [' + '; '.join(sh_term(s) for _, s in c.fields) + ']'
def sh_leaves(s, prefix=()):
  """leaf paths (model steps) with widths, declaration order"""
  if s[0] == 'b': return [(prefix, s[1])]
  if s[0] == 's':
    out = []
    for i, (_, f) in enumerate(s[1].fields): out += sh_leaves(f, prefix + (('F', i),))
    return out
  out = []
  for i in range(s[1]): out += sh_leaves(s[2], prefix + (('I', i),))
  return out

# ------------------------------------------------------------------ values as nested python data
def v_unpack(s, b):
  """input generation only: a value tree from a packed integer (expected results always come from Coq)"""
  if s[0] == 'b': return b & ((1 << s[1]) - 1)
  if s[0] == 's':
    out = []; rem = s[1].width
    for _, f in s[1].fields:
      rem -= sh_width(f); out.append(v_unpack(f, b >> rem))
    return out
  w = sh_width(s[2])
  return [v_unpack(s[2], b >> (i * w)) for i in range(s[1])]
def v_pack(s, v):
  """input generation only (replay): the packed integer of a value tree"""
  if s[0] == 'b': return v
  if s[0] == 's':
    r = 0
    for (_, f), x in zip(s[1].fields, v): r = (r << sh_width(f)) | v_pack(f, x)
    return r
  w = sh_width(s[2]); r = 0
  for i, x in enumerate(v): r |= v_pack(s[2], x) << (i * w)
  return r
def v_term(s, v):
  if s[0] == 'b': return f'VBits {zlit(v)}'
  items = [v_term(f, x) for f, x in (zip([f for _, f in s[1].fields], v) if s[0] == 's' else ((s[2], x) for x in v))]
  return ('VStruct [' if s[0] == 's' else 'VList [') + '; '.join(items) + ']'

class NotWellTyped(Exception): pass
class CreateFailed(Exception): pass

def run(ctx):
  setup_impl_path()
  import pymtl3.datatypes.bitstructs as BS
  from pymtl3.datatypes import Bits, mk_bits, mk_bitstruct
  rng = ctx.rng
  quick = ctx.tier == 'quick'

  # ---------------- capture of the generated source text ----------------
  captured = []          # (fn_name, exact source text handed to the compiler, function object)
  real_create, real_py = BS._create_fn, BS.py
  class _Src:
    last = None
  class _PyProxy:
    class code:
      @staticmethod
      def Source(src, *a, **k):
        _Src.last = src
        return real_py.code.Source(src, *a, **k)
  def wrapped_create(fn_name, args_lst, body_lst, _globals=None):
    _Src.last = None
    fn = real_create(fn_name, args_lst, body_lst, _globals)
    captured.append((fn_name, _Src.last, fn))
    return fn
  BS._create_fn = wrapped_create
  BS.py = _PyProxy

  def observe(s, o):
    if s[0] == 'b':
      if not isinstance(o, Bits) or o.nbits != s[1]: raise NotWellTyped(f'leaf {o!r} is not Bits{s[1]}')
      u = int(o.uint())
      if not (0 <= u < (1 << s[1])): raise NotWellTyped(f'leaf value {u} out of range of Bits{s[1]}')
      return u
    if s[0] == 's':
      if type(o) is not s[1].pycls and not any(type(o) is e for e in s[1].evals): raise NotWellTyped(f'{o!r} (class with fields {list(getattr(type(o), "__bitstruct_fields__", {}))}) is not an instance of the declared class {s[1].name} with fields {[n for n, _ in s[1].fields]}')
      return [observe(f, getattr(o, n)) for n, f in s[1].fields]
    if not isinstance(o, list) or len(o) != s[1]: raise NotWellTyped(f'{o!r} is not a list of {s[1]}')
    return [observe(s[2], x) for x in o]
  def ids(s, o, acc):
    acc.append(id(o))
    if s[0] == 's':
      for n, f in s[1].fields: ids(f, getattr(o, n), acc)
    elif s[0] == 'l':
      for x in o: ids(s[2], x, acc)
    return acc
  def leaf_obj(s, o, p):
    for k, i in p:
      if k == 'F': o = getattr(o, s[1].fields[i][0]); s = s[1].fields[i][1]
      else: o = o[i]; s = s[2]
    return o
  def packed(o):
    b = o.to_bits()
    return int(b.uint())

  # ---------------- random struct classes ----------------
  classes = []
  uniq = f'{ctx.seed & 0xffff:x}'
  def gen_field_shape(depth_left, budget):
    """a field shape of width <= budget (budget >= 1)"""
    kind = rng.choice(['b', 'b', 'b', 'l', 'l', 's', 's'])
    if kind == 's' and depth_left > 0:
      cands = [c for c in classes if c.width <= budget and c.depth <= depth_left]
      if cands:
        if rng.random() < 0.4:
          dmax = max(c.depth for c in cands)
          return ('s', rng.choice([c for c in cands if c.depth == dmax]))
        return ('s', rng.choice(cands[-12:] + cands[:3]))
      kind = 'b'
    if kind == 'l':
      dims = [rng.choice([1, 2, 2, 3]), rng.choice([1, 2, 3]), rng.choice([1, 2])][:rng.choice([1, 1, 2, 2, 3])]
      n = 1
      for d in dims: n *= d
      if n <= budget:
        cands = [c for c in classes if c.width * n <= budget and c.depth <= depth_left] if depth_left > 0 else []
        if cands and rng.random() < 0.45: elt = ('s', rng.choice(cands))
        else:
          ws = [w for w in LEAF_W if w * n <= budget]
          elt = ('b', rng.choice(ws))
        s = elt
        for d in reversed(dims): s = ('l', d, s)
        return s
      kind = 'b'
    if budget >= 256 and rng.random() < 0.2: return ('b', rng.randrange(256, budget + 1))     # wide leaf, outside the pregenerated BitsN
    ws = [w for w in LEAF_W if w <= budget]
    return ('b', rng.choice(ws))
  def rand_fields(max_depth, budget=None):
    nf = rng.choice([1, 2, 2, 3, 3, 4, 5, 6])
    names = rng.sample(FIELD_NAMES, nf)
    if rng.random() < 0.3: names[rng.randrange(nf)] = rng.choice(['s', 'self']) if not {'s', 'self'} & set(names) else names[0]
    names = list(dict.fromkeys(names))
    budget = budget or rng.choice([1023, 1023, 200, 64, 40])
    fields = []
    for k, n in enumerate(names):
      rest = len(names) - k - 1
      if budget - rest < 1: break
      s = gen_field_shape(max_depth - 1, budget - rest)
      if fields and rng.random() < 0.15: s = fields[-1][1] if sh_width(fields[-1][1]) <= budget - rest else s   # two equal fields in a row
      fields.append((n, s)); budget -= sh_width(s)
    return fields
  first_bits = {}        # the BitsN class object each width had when it was first used in a declaration
  def ty(s):
    if s[0] == 'b': return first_bits.setdefault(s[1], mk_bits(s[1]))
    return s[1].pycls if s[0] == 's' else [ty(s[2])] * s[1]
  def gen_class(max_depth, forced=None, name=None):
    """declare one bitstruct type; whatever pymtl3 hands back is afterwards checked against THIS declaration"""
    idx = len(classes)
    fields = forced if forced is not None else rand_fields(max_depth)
    depth = 1 + max([sh_depth(s) for _, s in fields] + [0])
    c = Cls(idx, name or f'BS{uniq}_{idx}', fields, depth)
    assert 1 <= c.width <= 1023 and depth <= 4, (c.width, depth)
    n0 = len(captured)
    declared = {n: ty(s) for n, s in fields}
    try:
      c.pycls = mk_bitstruct(c.name, dict(declared))
    except Exception as e:
      ctx.violation('C06:create:' + hashlib.sha1(json.dumps(c.spec()).encode()).hexdigest()[:10],
                    f'creating a legal bitstruct type (width {c.width}) raised {e!r}', {'shape': c.spec(), 'traceback': traceback.format_exc()[-1200:]})
      if forced is not None and name is None: raise CreateFailed()
      return None
    for fn_name, src, fn in captured[n0:]:
      c.src[fn_name] = src; c.fn_globals[fn_name] = fn.__globals__
    prior = next((k for k in classes if k.pycls is c.pycls), None)
    if prior is not None:            # pymtl3 returned an already existing class object (its type cache)
      c.src, c.fn_globals = dict(prior.src), dict(prior.fn_globals)
    actual = getattr(c.pycls, '__bitstruct_fields__', None)
    if actual is None or list(actual.items()) != list(declared.items()) or getattr(c.pycls, '__name__', None) != c.name:
      ctx.violation('C06:declared-fields:' + hashlib.sha1(json.dumps([c.spec(), prior.spec() if prior else None]).encode()).hexdigest()[:10],
                    f'declaring bitstruct {c.name} with fields {[n for n, _ in fields]} returned a type whose fields are '
                    f'{list(actual) if actual is not None else None}' + (f' (the class object of an earlier, different declaration of the same name)' if prior else '')
                    + ': its layout cannot be first-DECLARED-field-most-significant',
                    {'shape': c.spec(), 'earlier_shape': prior.spec() if prior else None, 'actual_fields': [str(x) for x in (actual or {}).items()]})
    classes.append(c)
    return c

  def nest_family(made, tag):
    """parents that contain SEVERAL distinct classes of one __name__ and one width (other splits / names / nesting): directly,
    inside list fields, and one level deeper.  from_bits / __init__ must bind every nested position to ITS declared class object."""
    if not made: return
    by_w = {}
    for x in made: by_w.setdefault(x.width, []).append(x)
    same = max(by_w.values(), key=len)
    same = list({id(x.pycls): x for x in same}.values())
    if len(same) < 2: same = same * 2
    A, B, C = same[0], same[1], same[-1]
    W, d = A.width, max(x.depth for x in same)
    S = lambda x: ('s', x)
    if d <= 3 and 2 * W + 3 <= 1023:
      gen_class(4, [('h0', S(A)), ('h1', S(B)), ('t', ('b', 3))], name=f'Par{uniq}_{tag}a')
      gen_class(4, [('h1', S(B)), ('h0', S(A)), ('h2', S(C))] if 3 * W <= 1023 else [('h1', S(B)), ('h0', S(A))], name=f'Par{uniq}_{tag}b')
    if d <= 3 and 5 * W <= 1023:
      gen_class(4, [('l', ('l', 2, S(B))), ('h', S(A)), ('m', ('l', 1, ('l', 2, S(C))))], name=f'Par{uniq}_{tag}c')
    if d <= 2 and 2 * W + 1 <= 1023:
      mid = gen_class(4, [('x', S(A)), ('e', ('b', 1))], name=f'Mid{uniq}_{tag}')
      if mid is not None:
        gen_class(4, [('m', S(mid)), ('h', S(B))], name=f'Par{uniq}_{tag}d')
        gen_class(4, [('h', S(C)), ('ml', ('l', 2, S(mid)))], name=f'Par{uniq}_{tag}e') if 3 * W + 2 <= 1023 else None
  def from_spec(spec, cache):
    """rebuild a class (and the classes nested in it) from the JSON description stored in a replay file, names included"""
    def sh(x):
      if isinstance(x, str): return ('b', int(x[4:]))
      if isinstance(x, dict):
        k = json.dumps(x)
        if k not in cache: cache[k] = gen_class(4, [(n, sh(t)) for n, t in x['fields']], name=x['name'])
        if cache[k] is None: raise CreateFailed()
        return ('s', cache[k])
      return ('l', len(x), sh(x[0]))
    return sh(spec)[1]
  rp = getattr(ctx, 'replay_data', None)
  # directed shapes first: the ones the property text singles out
  try:
    if rp is not None:
      cache = {}
      if rp.get('earlier_shape'): from_spec(rp['earlier_shape'], cache)
      from_spec(rp['shape'], cache)
      raise StopIteration
    b = lambda n: ('b', n)
    c_in = gen_class(4, [('x', b(4)), ('y', b(4))])
    gen_class(4, [('q', b(3))])                                                   # single leaf
    gen_class(4, [('a', b(8)), ('b', b(8))])                                      # two fields of equal width
    gen_class(4, [('l', ('l', 1, b(5)))])                                         # 1-element list
    gen_class(4, [('a', b(8)), ('l', ('l', 3, ('l', 2, b(4)))), ('s', ('s', c_in)), ('m', ('l', 2, ('s', c_in))), ('self', b(1))])
    gen_class(4, [('s', b(2)), ('self', ('s', c_in)), ('other', ('l', 2, b(3))), ('cls', b(1)), ('memo', b(1))])
    gen_class(4, [('m', ('l', 3, ('l', 3, ('l', 2, ('s', c_in)))))])              # 3x3x2 list of structs
    c_mid = gen_class(4, [('p', ('s', c_in)), ('q', ('l', 2, ('s', c_in)))])
    c_top = gen_class(4, [('u', ('s', c_mid)), ('v', ('l', 2, ('s', c_mid))), ('w', b(1))])
    gen_class(4, [('t', ('s', c_top)), ('t2', ('l', 1, ('s', c_top)))])           # depth 4
    gen_class(4, [('big', b(1000)), ('l', ('l', 23, b(1)))])                      # total width 1023
    gen_class(4, [('l', ('l', 3, ('l', 3, ('l', 2, b(56))))), ('e', b(15))])      # 1008 + 15 = 1023
    hdr = [gen_class(4, f, name=f'Hdr{uniq}') for f in ([('opq', b(4)), ('len', b(12))], [('src', b(4)), ('dst', b(12))], [('kind', b(12)), ('id', b(4))],
                                                      [('len', b(12)), ('opq', b(4))], [('w', ('l', 2, b(8)))])]   # one __name__, one width, five classes
    nest_family(hdr, 'hdr')
  except StopIteration:
    pass
  except CreateFailed:
    BS._create_fn, BS.py = real_create, real_py
    return
  ndir = len(classes)
  nrand = (50 if quick else 170) if rp is None else 0
  tries = 0
  while len(classes) < ndir + nrand and tries < 3 * nrand:
    tries += 1
    gen_class(rng.choice([1, 2, 2, 3, 3, 4]))
  # families: several declarations that share ONE class name and (mostly) one field set, but differ in field order, in the
  # pairing of names and types, in one type, or in nesting; plus an identical re-declaration.  Each is checked against its own declaration.
  nfam = 0 if rp is not None else (5 if quick else 18)
  for k in range(nfam):
    for _ in range(50):
      base = rand_fields(rng.choice([1, 2, 2, 3]), rng.choice([150, 64, 40, 16]))
      if len(base) >= 2 and len({json.dumps(sh_spec(x)) for _, x in base}) >= 2: break
    else: continue
    fam = f'Fam{uniq}_{k}'
    variants = [base, base[::-1], base[1:] + base[:1], list(base)]
    i, j = rng.sample(range(len(base)), 2)
    sw = list(base); sw[i], sw[j] = (base[i][0], base[j][1]), (base[j][0], base[i][1]); variants.append(sw)       # same names, same types, other pairing
    tot = sum(sh_width(x) for _, x in base)
    bi_ = [q for q, (_, x) in enumerate(base) if x[0] == 'b']
    if bi_ and tot < 1023:
      q = rng.choice(bi_); w1 = list(base); w1[q] = (base[q][0], ('b', base[q][1][1] + 1)); variants.append(w1)      # one type differs
    q = rng.randrange(len(base))
    if not (base[q][1][0] == 'l' and base[q][1][2][0] == 'l' and base[q][1][2][2][0] == 'l'):
      n1 = list(base); n1[q] = (base[q][0], ('l', 1, base[q][1])); variants.append(n1)                             # nesting differs
    if tot >= 2:
      w0 = rng.randrange(1, tot); variants.append([('p0', ('b', w0)), ('p1', ('b', tot - w0))])                   # other names, other split, same width
    rng.shuffle(variants)
    made = [x for x in (gen_class(4, v, name=fam) for v in variants) if x is not None]
    nest_family(made, f'{k}')
  # ---- the same definitions evaluated again, after MANY other types and Bits widths came into existence ----
  def sweep(n):
    """a parameter sweep: n message types with n distinct wide payload widths (none of them pregenerated)"""
    made = 0
    for w in rng.sample(range(256, 1016), n):
      if w in (384, 512): continue
      try: mk_bitstruct(f'Sweep{uniq}_{w}', {'opq': mk_bits(8), 'data': mk_bits(w)})(1, 2).to_bits(); made += 1
      except Exception as e:
        ctx.violation(f'C06:create:sweep', f'creating bitstruct Sweep_{w} {{opq:Bits8, data:Bits{w}}} raised {e!r}', {'width': w, 'traceback': traceback.format_exc()[-800:]})
    return made
  def reevaluate(how):
    """every definition once more (bottom-up, nested definitions first): through the factory call or through @bitstruct source text"""
    for c in classes:
      def ty2(s): return mk_bits(s[1]) if s[0] == 'b' else s[1].evals[-1] if s[0] == 's' else [ty2(s[2])] * s[1]
      try:
        if how == 'factory' or not c.name.isidentifier():
          E = mk_bitstruct(c.name, {n: ty2(s) for n, s in c.fields})
        else:
          def ex(s): return f'mk_bits({s[1]})' if s[0] == 'b' else f'_N{s[1].idx}' if s[0] == 's' else f'[{ex(s[2])}]*{s[1]}'
          ns = {'bitstruct': BS.bitstruct, 'mk_bits': mk_bits}
          for k in classes[:c.idx]: ns[f'_N{k.idx}'] = k.evals[-1]
          exec(f'@bitstruct\nclass {c.name}:\n' + ''.join(f'  {n}: {ex(s_)}\n' for n, s_ in c.fields), ns)
          E = ns[c.name]
        if list(getattr(E, '__bitstruct_fields__', {})) != [n for n, _ in c.fields] or E.nbits != c.width: raise ValueError('the re-evaluated definition has other fields / another width')
      except Exception as e:
        ctx.violation('C06:create-again:' + hashlib.sha1(json.dumps(c.spec()).encode()).hexdigest()[:10],
                      f'evaluating the definition of {c.name} again ({how}) failed: {e!r}', {'shape': c.spec(), 'how': how, 'traceback': traceback.format_exc()[-800:]})
        E = c.evals[-1]
      c.evals.append(E)
  for c in classes: c.evals = [c.pycls]
  reevaluate('factory')                              # right away
  ctx.extra['sweep_types'] = sweep(45 if quick else 70)
  reevaluate('factory'); reevaluate('decorator')     # ... and after the sweep
  ctx.extra['bits_widths_whose_class_object_changed'] = sorted(n for n, k in first_bits.items() if mk_bits(n) is not k)
  ctx.extra['on_demand_bits_widths_used'] = len([n for n in first_bits if n > 255 and n not in (384, 512)])
  ctx.extra['definitions_with_several_class_objects'] = sum(1 for c in classes if len({id(e) for e in c.evals}) > 1)
  shape_defs = '\n'.join(f'Definition T{c.idx} : shape := {cls_term(c)}.' for c in classes)
  imports = 'Base.Prelude Struct.Shape Struct.Layout'

  # ---------------- (a) T-gen: the generated text of every class, checked in Coq for all values ----------------
  g_cases, g_meta = [], []
  for c in classes:
    missing = [m for m in METHODS if not c.src.get(m)]
    if missing:
      ctx.violation(f'C06:tgen:capture:{",".join(missing)}', f'could not capture the generated source of {missing} for {c.name} (generation path changed)',
                    {'shape': c.spec(), 'captured': sorted(c.src)}, found_input=False)
      continue
    def pytype(sh): return first_bits.get(sh[1], None) if sh[0] == 'b' else sh[1].pycls
    parsers = [
      ('__init__',     lambda: 'GClone [' + '; '.join(TR.t_ctree(t) for t in TR.parse_init(c, c.src["__init__"], c.fn_globals["__init__"], pytype)) + ']'),
      ('to_bits',      lambda: f'GToBits {zlit(int(c.pycls.nbits))} {TR.t_paths(TR.parse_to_bits(c, c.src["to_bits"]))}'),
      ('from_bits',    lambda: f'GFromBits ({TR.t_rtree(TR.parse_from_bits(c, c.src["from_bits"], c.fn_globals["from_bits"]))})'),
      ('clone',        lambda: 'GClone [' + '; '.join(TR.t_ctree(t) for t in TR.parse_clone(c, c.src["clone"], "clone")) + ']'),
      ('__deepcopy__', lambda: 'GClone [' + '; '.join(TR.t_ctree(t) for t in TR.parse_clone(c, c.src["__deepcopy__"], "__deepcopy__")) + ']'),
      ('__imatmul__',  lambda: f'GSlots {TR.t_paths(TR.parse_augassign(c, c.src["__imatmul__"], "__imatmul__", TR.ast.MatMult))}'),
      ('__ilshift__',  lambda: f'GSlots {TR.t_paths(TR.parse_augassign(c, c.src["__ilshift__"], "__ilshift__", TR.ast.LShift))}'),
      ('_flip',        lambda: f'GSlots {TR.t_paths(TR.parse_flip(c, c.src["_flip"]))}'),
      ('__eq__',       lambda: f'GFields {TR.t_paths(TR.parse_eq(c, c.src["__eq__"]))}'),
      ('__hash__',     lambda: (lambda kp: ('GFields ' if kp[0] == 'fields' else 'GSlots ') + TR.t_paths(kp[1]))(TR.parse_hash(c, c.src["__hash__"]))),
    ]
    for m, p in parsers:
      try:
        term = p()
      except TR.Refuse as e:
        ctx.violation(f'C06:tgen:{m}:refused', f'generated {m} of {c.name} is not of the form the layout theorems cover: {e}',
                      {'shape': c.spec(), 'method': m, 'source': c.src[m], 'reason': str(e)}, found_input=False)
        continue
      g_cases.append(f'(T{c.idx}, {term})'); g_meta.append((c, m))
      ctx.count(('tgen', c.spec(), m), True, cls='tgen:' + m)
  bad = ctx.coq_bad_indices('gen', imports, shape_defs, 'shape * gen_text', g_cases, 'wf (fst c) && check_text (fst c) (snd c)', shard=300)
  tgen_bad = {}
  for i in bad:
    c, m = g_meta[i]
    tgen_bad.setdefault(c.idx, []).append(m)
    if len(tgen_bad) <= 5:
      exp = ctx.coq_eval('gexp', imports, shape_defs, [f'leaf_ranges T{c.idx}', f'range_tree T{c.idx} 0'])
      ctx.violation(f'C06:tgen:{m}:layout:' + hashlib.sha1(json.dumps(c.spec()).encode()).hexdigest()[:10], f'generated {m} of a struct does not have the layout/coverage the property demands (shape in replay)',
                    {'shape': c.spec(), 'method': m, 'source': c.src[m], 'parsed': g_cases[i][:3000], 'expected_leaf_ranges': exp[0][:3000],
                     'expected_slice_tree': exp[1][:3000]}, found_input=False)
  k4 = min(4, len(classes) - 1)
  ctx.sample({'kind': 'tgen', 'shape': classes[k4].spec(), 'to_bits': classes[k4].src.get('to_bits'), 'from_bits': (classes[k4].src.get('from_bits') or '')[-400:]})
  if g_cases: ctx.sample({'kind': 'tgen-coq', 'case': g_cases[min(k4 * 10 + 1, len(g_cases) - 1)][:600]})

  # ---------------- (b) T-diff on values ----------------
  p_cases, p_meta = [], []      # to_bits:  (T, v, nbits, uint)
  u_cases, u_meta = [], []      # from_bits: (T, b, observed value)
  e_cases, e_meta = [], []      # ==        (T, v, w, observed)
  s_cases, s_meta = [], []      # scenarios
  hash_raised = []
  nvals = 4 if quick else 10
  def viol_value(kind, c, what, extra):
    h = hashlib.sha1(json.dumps([kind, c.spec(), extra.get('value'), extra.get('bits')], default=str).encode()).hexdigest()[:10]
    ctx.violation(f'C06:{kind}:{h}', what, dict({'shape': c.spec()}, **extra))

  # ---------------- instances: every way of building one ----------------
  def is_zero(v): return v == 0 if isinstance(v, int) else all(is_zero(x) for x in v)
  def ev_cls(c, ev): return c.evals[ev % len(c.evals)] if c.evals else c.pycls
  def build(s, v, dflt=0.0, in_list=False, ev=0):
    """explicit constructor arguments; an all-zero struct / list FIELD is left to its default (None) with probability dflt"""
    if s[0] == 'b': return mk_bits(s[1])(v) if (in_list or rng.random() < 0.7) else v
    if s[0] == 's':
      args = [None if (f[0] != 'b' and is_zero(x) and rng.random() < dflt) else build(f, x, dflt, False, ev) for (_, f), x in zip(s[1].fields, v)]
      return ev_cls(s[1], ev)(*args)
    return [build(s[2], x, dflt, True, ev) for x in v]
  def mk_inst(c, v, how, ev=0):
    s = ('s', c); K = ev_cls(c, ev)
    if how == 'auto':
      how = 'default' if (is_zero(v) and rng.random() < 0.5) else rng.choice(['args', 'args', 'partial', 'from_bits'])
    if how == 'default':
      assert is_zero(v); o = K()
    elif how == 'from_bits': o = K.from_bits(mk_bits(c.width)(v_pack(s, v)))
    else: o = build(s, v, 1.0 if how == 'partial' else 0.0, False, ev)
    l = ids(s, o, [])
    if len(set(l)) != len(l):
      viol_value('alias-within', c, f'an instance built by {how} contains the SAME object at {len(l) - len(set(l))} different positions '
                 '(rows / elements / fields must be distinct objects, else a write to one shows in the other)', {'value': v, 'built_by': how})
    return o, how
  def scan_one(c, o, what, va, vb):
    l = ids(('s', c), o, [])
    if len(set(l)) != len(l):
      viol_value(what + '-alias-within', c, f'after {what} the object contains the same sub-object at several positions', {'value': va, 'other': vb})

  def scenario(c, op, va, vb, how_a, how_b):
    s = ('s', c); leaves = sh_leaves(s)
    p, w = rng.choice(leaves)
    who = rng.random() < 0.5
    hows = (how_a, how_b)
    try:
      a, ha = mk_inst(c, va, how_a, rng.randrange(4)); bobj, hb = mk_inst(c, vb, how_b, rng.randrange(4))     # possibly through different evaluations of the definition
      hows = (ha, hb)
      def write(tgt):
        ub = int(leaf_obj(s, tgt, p).uint()); u = (ub + 1 + (rng.randrange((1 << w) - 1) if w > 1 else 0)) % (1 << w)
        operator.imatmul(leaf_obj(s, tgt, p), mk_bits(w)(u))
        return u
      if op == 'poke':
        u = write(a); oa = observe(s, a)
        obs = (oa, oa); scop = 'ScPoke'
      elif op in ('clone', 'deepcopy'):
        cpy = a.clone() if op == 'clone' else copy.deepcopy(a)
        if type(cpy) is not type(a) or not (cpy == a):
          viol_value(op + '-neq', c, f'{op}() is not equal to the original', {'value': va, 'built_by': hows})
        shared = set(ids(s, a, [])) & set(ids(s, cpy, []))
        if shared:
          viol_value(op + '-shared', c, f'{op}() shares {len(shared)} sub-object(s) with the original', {'value': va, 'built_by': hows})
        scan_one(c, cpy, op, va, vb)
        u = write(cpy if who else a)
        obs = (observe(s, a), observe(s, cpy)); scop = 'ScClone'
      elif op in ('imatmul_other', 'ilshift_other'):
        oth = [x for x in classes if x.width == c.width and x.pycls is not c.pycls]
        if not oth: return
        oc = rng.choice(oth); ov = v_unpack(('s', oc), rng.getrandbits(c.width)); src, _ = mk_inst(oc, ov, 'auto', rng.randrange(4))
        if op == 'imatmul_other': a @= src
        else:
          a <<= src; a._flip()
        if packed(a) != packed(src) or observe(s, a) != v_unpack(s, packed(src)) or observe(('s', oc), src) != ov:
          viol_value(op, c, f'x {"@=" if op == "imatmul_other" else "<<="} y with y of ANOTHER bitstruct class of the same width did not copy the packed value '
                     f'(x.to_bits() = {hex(packed(a))}, y.to_bits() = {hex(packed(src))})', {'value': va, 'other_shape': oc.spec(), 'other': ov, 'built_by': hows})
        ctx.count((op, c.spec(), oc.spec(), repr(va), repr(ov)), True, cls='copy:' + op)
        return
      elif op in ('imatmul_bits', 'ilshift_bits'):
        if op == 'imatmul_bits': a @= bobj.to_bits()
        else:
          a <<= bobj.to_bits(); a._flip()
        if packed(a) != packed(bobj) or observe(s, a) != observe(s, bobj):
          viol_value(op, c, 'x @= Bits(...) / x <<= Bits(...); _flip() did not store the value', {'value': va, 'bits': hex(packed(bobj)), 'built_by': hows})
        ctx.count((op, c.spec(), repr(va), repr(vb), hows), True, cls='copy:' + op)
        return
      elif op == 'imatmul':
        a @= bobj
        if set(ids(s, a, [])) & set(ids(s, bobj, [])):
          viol_value(op + '-shared', c, '@= left the destination sharing sub-objects with the source', {'value': va, 'other': vb, 'built_by': hows})
        scan_one(c, a, '@=', va, vb)
        u = write(a if who else bobj)
        obs = (observe(s, bobj), observe(s, a)); scop = 'ScImatmul'
      elif op == 'ilshift_noflip':
        a <<= bobj
        u = 0
        obs = (observe(s, bobj), observe(s, a)); scop = 'ScIlshiftNoFlip'
      elif op == 'ilshift_flip':
        a <<= bobj
        a._flip()
        if set(ids(s, a, [])) & set(ids(s, bobj, [])):
          viol_value(op + '-shared', c, '<<= / _flip left the destination sharing sub-objects with the source', {'value': va, 'other': vb, 'built_by': hows})
        scan_one(c, a, '<<= and _flip', va, vb)
        u = write(a if who else bobj)
        obs = (observe(s, bobj), observe(s, a)); scop = 'ScIlshiftFlip'
      else:
        a <<= bobj
        u = write(bobj)
        a._flip()
        obs = (observe(s, bobj), observe(s, a)); scop = 'ScIlshiftPokeFlip'
      s_cases.append(f'({scop}, {v_term(s, va)}, {v_term(s, vb)}, {"true" if who else "false"}, {TR.t_path(p)}, {zlit(u)}, '
                     f'({v_term(s, obs[0])}, {v_term(s, obs[1])}))')
      s_meta.append((c, op, va, vb, who, p, u, obs, hows))
      ctx.count((op, c.spec(), repr(va), repr(vb), who, p, u, hows), True, cls=f'copy:{op}:{hows[0]}' + (f'<-{hows[1]}' if op not in ('poke', 'clone', 'deepcopy') else ''))
    except NotWellTyped as e:
      viol_value(op + '-illtyped', c, f'{op}: an object holds an ill-typed field afterwards: {e}', {'value': va, 'other': vb, 'built_by': hows})
    except Exception as e:
      viol_value(op, c, f'{op} raised {e!r}', {'value': va, 'other': vb, 'built_by': hows, 'traceback': traceback.format_exc()[-800:]})

  for c in classes:
    s = ('s', c); W = c.width; full = (1 << W) - 1
    leaves = sh_leaves(s)
    walk = sorted({0, W - 1, rng.randrange(W), rng.randrange(W)})
    bvals = [0, full] + [1 << i for i in walk] + [full ^ (1 << walk[-1])] + [rng.getrandbits(W) for _ in range(nvals)]
    if not quick or c.idx < ndir:
      bvals += [1 << i for i in range(0, W, max(1, W // 32))]
    if rp is not None and c is classes[-1]:
      if 'bits' in rp: bvals.insert(0, int(rp['bits'], 16) & full)
      if 'value' in rp: bvals.insert(0, v_pack(s, rp['value']))
    bvals = list(dict.fromkeys(bvals))
    for bi, bv in enumerate(bvals):
      v = v_unpack(s, bv)
      kindtag = 'zero' if bv == 0 else 'ones' if bv == full else 'onebit' if bv & (bv - 1) == 0 else 'random'
      # ---- to_bits
      try:
        x = build(s, v)
        tb = x.to_bits()
        p_cases.append(f'(T{c.idx}, {v_term(s, v)}, {int(tb.nbits)}, {zlit(int(tb.uint()))})'); p_meta.append((c, v, int(tb.uint())))
        ctx.count(('to_bits', c.spec(), bv), True, cls='to_bits:' + kindtag)
        if not isinstance(tb, Bits): viol_value('to_bits', c, 'to_bits() did not return a Bits', {'value': v})
      except Exception as e:
        viol_value('to_bits', c, f'to_bits() raised {e!r} on a well-typed value', {'value': v, 'traceback': traceback.format_exc()[-800:]}); continue
      # ---- from_bits and the two round trips, with the implementation's own ==
      try:
        y = c.pycls.from_bits(mk_bits(W)(bv))
        ov = observe(s, y)
        u_cases.append(f'(T{c.idx}, {zlit(bv)}, {v_term(s, ov)})'); u_meta.append((c, bv, ov))
        ctx.count(('from_bits', c.spec(), bv), True, cls='from_bits:' + kindtag)
        if not (c.pycls.from_bits(x.to_bits()) == x):
          viol_value('roundtrip', c, 'from_bits(to_bits(v)) != v', {'value': v, 'to_bits': hex(int(tb.uint()))})
        back = y.to_bits()
        if back.nbits != W or int(back.uint()) != bv:
          viol_value('roundtrip', c, 'to_bits(from_bits(b)) != b', {'bits': hex(bv), 'observed': hex(int(back.uint())), 'nbits': int(back.nbits)})
      except NotWellTyped as e:
        viol_value('from_bits', c, f'from_bits built an ill-typed value: {e}', {'bits': hex(bv)}); continue
      except Exception as e:
        viol_value('from_bits', c, f'from_bits raised {e!r}', {'bits': hex(bv), 'traceback': traceback.format_exc()[-800:]}); continue
      if bi >= (5 if quick else 9) and bi % 3: continue
      # ---- equality / hash against an equal twin and a one-bit neighbour
      bw = bv ^ (1 << rng.randrange(W))
      for other_b in (bv, bw):
        w_ = v_unpack(s, other_b)
        try:
          z = build(s, w_, 0.0, False, rng.randrange(1, 4))      # through another evaluation of the same definition
          r1, r2, r3 = (x == z), (z == x), (x != z)
          if type(r1) is not bool or r1 != r2 or r3 == r1:
            viol_value('eq', c, f'== / != are inconsistent: x==z {r1!r}, z==x {r2!r}, x!=z {r3!r}', {'value': v, 'other': w_})
          e_cases.append(f'(T{c.idx}, {v_term(s, v)}, {v_term(s, w_)}, {"true" if r1 else "false"})'); e_meta.append((c, v, w_, r1))
          ctx.count(('eq', c.spec(), bv, other_b), True, cls='eq:' + ('same' if other_b == bv else 'onebit'))
        except Exception as e:
          viol_value('eq', c, f'== raised {e!r}', {'value': v, 'other': w_}); continue
        try:
          hx, hz = hash(x), hash(z)
          ctx.count(('hash', c.spec(), bv, other_b), True, cls='hash')
          if other_b == bv and hx != hz:
            viol_value('hash', c, 'equal bitstructs have different hashes', {'value': v, 'hashes': [hx, hz]})
          if other_b == bv and (hash(x.clone()) != hx or hash(c.pycls.from_bits(x.to_bits())) != hx):
            viol_value('hash', c, 'hash differs between a value and its clone / its from_bits(to_bits()) image', {'value': v})
        except TypeError as e:
          hash_raised.append((c, v, repr(e)))
        except Exception as e:
          viol_value('hash', c, f'hash raised {e!r}', {'value': v})
      # ---- copies: clone / deepcopy / @= / <<= , then an in-place write to one leaf of one side
      va = v; vb = v_unpack(s, rng.getrandbits(W) if bi % 2 else full ^ bv)
      all_ops = ['poke', 'clone', 'deepcopy', 'imatmul', 'imatmul_bits', 'ilshift_bits', 'imatmul_other', 'ilshift_other', 'ilshift_noflip', 'ilshift_flip', 'ilshift_poke_flip']
      for op in (all_ops if (not quick or (c.idx < ndir and bi < 3)) else rng.sample(all_ops, 2)):
        scenario(c, op, va, vb, 'auto', 'auto')
    # ---- default-constructed and partly default-constructed instances, as destination, as source, and written in place
    zero = v_unpack(s, 0)
    for rep in range(1 if quick else 3):
      vr = v_unpack(s, rng.getrandbits(W))
      vp = [x if (f[0] == 'b' or rng.random() < 0.5) else v_unpack(f, 0) for (_, f), x in zip(c.fields, vr)]   # some struct/list fields left to their default
      for op, va_, vb_, ha, hb in (('poke', zero, zero, 'default', 'default'), ('poke', vp, vp, 'partial', 'partial'),
                                   ('imatmul', zero, vr, 'default', 'auto'), ('imatmul', vr, zero, 'auto', 'default'), ('imatmul', vp, vr, 'partial', 'auto'),
                                   ('ilshift_flip', zero, vr, 'default', 'auto'), ('ilshift_flip', vr, zero, 'auto', 'default'),
                                   ('ilshift_poke_flip', vp, vr, 'partial', 'args'), ('clone', zero, zero, 'default', 'default'), ('deepcopy', vp, vp, 'partial', 'partial')):
        if quick and c.idx >= ndir and rp is None and rng.random() < 0.6: continue
        scenario(c, op, va_, vb_, ha, hb)

  # ---------------- operation sequences on a pool of instances of one type ----------------
  q_cases, q_meta = [], []
  def sh_nodes(s, prefix=()):
    """paths to every Bits / struct node below the root (list nodes are passed through: their elements are the nodes)"""
    out = []
    if s[0] == 's':
      for i, (_, f) in enumerate(s[1].fields):
        q = prefix + (('F', i),)
        if f[0] != 'l': out.append((q, f))
        out += sh_nodes(f, q)
    elif s[0] == 'l':
      for i in range(s[1]):
        q = prefix + (('I', i),)
        if s[2][0] != 'l': out.append((q, s[2]))
        out += sh_nodes(s[2], q)
    return out
  by_width = {}
  for cc in classes: by_width.setdefault(cc.width, []).append(cc)
  def slot_shape(c, kind):
    """kind: 'T' the type under test, 'bits' a BitsW object, ('other', idx) another struct type of the same width"""
    if kind == 'T': return ('s', c)
    if kind == 'bits': return ('b', c.width)
    if kind[0] == 'bitsw': return ('b', kind[1])            # a live BitsN object of the width of one of the leaves
    return ('s', classes[kind[1]])
  def slot_nodes(sh):
    return [((), sh)] + sh_nodes(sh)
  def gen_sequence(c, nsteps):
    """a random interleaving, on a pool of LIVE objects (instances of c, BitsW objects, instances of other struct types of the same
    width), of constructions, copies, writes of fresh values, assignments whose right-hand side is any node of any live object,
    <<= / _flip at any node, and plain observations.  Pure data (replayable)."""
    W = c.width
    others = [x for x in by_width.get(W, []) if x.pycls is not c.pycls]
    pool = {}
    def val(sh):
      k = json.dumps(sh_spec(sh), default=str)
      if k not in pool: pool[k] = [v_unpack(sh, 0), v_unpack(sh, rng.getrandbits(sh_width(sh))), v_unpack(sh, rng.getrandbits(sh_width(sh)))]
      return rng.choice(pool[k])          # few values per type: the same one is built / unpacked repeatedly
    seq = []; kinds = []; nxt_defined = []; pend = []
    def new(kind):
      sh = slot_shape(c, kind); v = val(sh)
      how = 'bits' if kind == 'bits' else ('default' if (is_zero(v) and rng.random() < 0.5) else rng.choice(['args', 'partial', 'from_bits', 'from_bits']))
      d = {'op': 'new', 'kind': list(kind) if isinstance(kind, tuple) else kind, 'value': v, 'how': how, 'ev': rng.randrange(4)}
      if sh[0] == 's' and kinds and rng.random() < 0.5:
        # constructor arguments that are LIVE objects: a Bits leaf argument may be any live BitsN object of that width (a Bits object of the
        # pool, a leaf / list element of another live instance); the same object may go to several fields and to several constructors.
        # (Only Bits leaves that are direct constructor arguments: nested-struct and list ARGUMENTS are stored by reference by design.)
        live = []; last = {}
        srcs = [(a, q, shq[1]) for a in range(len(kinds)) for q, shq in slot_nodes(slot_shape(c, kinds[a])) if shq[0] == 'b']
        for lp, w in sh_leaves(sh):
          if any(k_ == 'I' for k_, _ in lp) or rng.random() < 0.4: continue
          cand = [(a, q) for a, q, w_ in srcs if w_ == w]
          if not cand: continue
          a, q = last[w] if (w in last and rng.random() < 0.6) else rng.choice(cand)
          last[w] = (a, q); live.append({'path': [list(x) for x in lp], 'j': a, 'src_path': [list(x) for x in q]})
        if live: d['live'] = live; d['how'] = 'args'
      kinds.append(kind); nxt_defined.append(set())
      return d
    def pick_kind():
      r = rng.random()
      if r < 0.45: return 'T'
      if r < 0.65: return 'bits'
      if r < 0.85 or not others: return ('bitsw', rng.choice(sh_leaves(('s', c)))[1])
      return ('other', rng.choice(others).idx)
    seq.append(new('T'))
    if rng.random() < 0.6: seq.append(new('T'))
    if rng.random() < 0.7: seq.append(new('bits'))
    if others and rng.random() < 0.7: seq.append(new(('other', rng.choice(others).idx)))
    def leaves_under(sh, pth): return {tuple(pth) + lp for lp, _ in sh_leaves(sh)}
    while len(seq) < nsteps:
      n = len(kinds); r = rng.random(); i = rng.randrange(n)
      shi = slot_shape(c, kinds[i]); pth, sh = ((), shi) if rng.random() < 0.3 else rng.choice(slot_nodes(shi))
      flippable = [(a, q) for a in range(n) for q, shq in slot_nodes(slot_shape(c, kinds[a])) if leaves_under(shq, q) <= nxt_defined[a]]
      if pend and r < 0.25:
        a, q = pend.pop(rng.randrange(len(pend))); seq.append({'op': 'flip', 'i': a, 'path': [list(x) for x in q]})
      elif flippable and r < 0.30:
        a, q = rng.choice(flippable); seq.append({'op': 'flip', 'i': a, 'path': [list(x) for x in q]})
      elif r < 0.45:
        nb = rng.random() < 0.35
        seq.append({'op': 'write', 'nb': nb, 'i': i, 'path': [list(x) for x in pth], 'value': val(sh), 'how': rng.choice(['inplace', 'attr'])})
        if nb: nxt_defined[i] |= leaves_under(sh, pth); pend.append((i, pth))
      elif r < 0.70:
        w = sh_width(sh)
        cand = [(a, q, shq) for a in range(n) for q, shq in slot_nodes(slot_shape(c, kinds[a])) if sh_width(shq) == w]
        srcs = [(a, q) for a, q, _ in cand]
        far = [x for x in srcs if x[0] != i]
        cross = [(a, q) for a, q, shq in cand if sh[0] == 's' and shq[0] == 's' and shq[1] is not sh[1]]      # a struct of ANOTHER class, same width
        a, q = rng.choice(cross if (cross and rng.random() < 0.4) else far if (far and rng.random() < 0.85) else srcs)
        nb = rng.random() < 0.5
        seq.append({'op': 'assign', 'nb': nb, 'i': i, 'path': [list(x) for x in pth], 'j': a, 'src_path': [list(x) for x in q],
                    'how': rng.choice(['inplace', 'attr']), 'rhs': rng.choice(['live', 'live', 'to_bits'])})
        if nb: nxt_defined[i] |= leaves_under(sh, pth); pend.append((i, pth))
      elif r < 0.78 and n < 5: seq.append(new(pick_kind()))
      elif r < 0.85 and n < 5:
        seq.append({'op': 'clone', 'i': i, 'how': rng.choice(['clone', 'deepcopy'])}); kinds.append(kinds[i]); nxt_defined.append(set())
      elif r < 0.92 and n < 5:
        jj = rng.choice([a for a in range(n) if sh_width(slot_shape(c, kinds[a])) == W])
        seq.append({'op': 'reunpack', 'j': jj, 'ev': rng.randrange(4)}); kinds.append('T'); nxt_defined.append(set())      # c.from_bits(x_j.to_bits()) for ANY live x_j
      else: seq.append({'op': 'nop'})
    for d in seq: d['observe'] = rng.random() < 0.75
    seq[-1]['observe'] = True
    return seq
  def run_sequence(c, seq):
    objs = []; shapes = []; tags = []; ops = []; obs = []; pyobs = []
    def fail(kind, k, what, extra=None):
      h = hashlib.sha1(json.dumps([kind, c.spec(), seq], default=str).encode()).hexdigest()[:10]
      ctx.violation(f'C06:sequence-{kind}:{h}', f'operation sequence, step {k} ({seq[k]["op"] if k < len(seq) else "?"}): {what}',
                    dict({'shape': c.spec(), 'sequence': seq, 'failing_step': k}, **(extra or {})))
    def sub_shape(sh, pth):
      for kk, ii in pth: sh = sh[1].fields[ii][1] if kk == 'F' else sh[2]
      return sh
    def assign(i, pth, rhs, nb, how):
      """x_i.pth @= rhs  /  x_i.pth <<= rhs, written the way user code writes it"""
      f = operator.ilshift if nb else operator.imatmul
      if not pth: objs[i] = f(objs[i], rhs); return
      if how == 'inplace': f(leaf_obj(shapes[i], objs[i], pth), rhs); return
      par = leaf_obj(shapes[i], objs[i], pth[:-1]); psh = sub_shape(shapes[i], pth[:-1]); kk, ii = pth[-1]
      if kk == 'F':
        nm = psh[1].fields[ii][0]; setattr(par, nm, f(getattr(par, nm), rhs))
      else: par[ii] = f(par[ii], rhs)
    def add(op, ob): ops.append(op); obs.append(ob); pyobs.append(None)
    for k, d in enumerate(seq):
      op = d['op']
      try:
        if op == 'new':
          kind = tuple(d['kind']) if isinstance(d['kind'], list) else d['kind']
          sh = slot_shape(c, kind)
          live = {tuple(tuple(x) for x in e['path']): (e['j'], [tuple(x) for x in e['src_path']]) for e in d.get('live', [])}
          if live:
            def bl(s_, v_, pth):        # explicit arguments; the live positions receive the live object itself
              if s_[0] == 'b': return leaf_obj(shapes[live[pth][0]], objs[live[pth][0]], live[pth][1]) if pth in live else mk_bits(s_[1])(v_)
              if s_[0] == 's': return ev_cls(s_[1], d.get('ev', 0))(*[bl(f, x, pth + (('F', i_),)) for i_, ((_, f), x) in enumerate(zip(s_[1].fields, v_))])
              return [bl(s_[2], x, pth + (('I', i_),)) for i_, x in enumerate(v_)]
            o = bl(sh, d['value'], ())
          else:
            o = mk_bits(sh[1])(d['value']) if sh[0] == 'b' else mk_inst(sh[1], d['value'], d['how'], d.get('ev', 0))[0]
          objs.append(o); shapes.append(sh); tags.append(100000 + sh[1] if sh[0] == 'b' else 1 + sh[1].idx)
          ops.append(f'QNew {tags[-1]} {sh_term(sh)} ({v_term(sh, d["value"])})')
          for pth, (j_, q_) in live.items():        # value semantics: the constructor COPIES the argument's value at that moment
            obs.append('None'); pyobs.append(None)
            ops.append(f'QAssign false {len(objs) - 1} {TR.t_path(list(pth))} {j_} {TR.t_path(q_)}')
        elif op == 'clone':
          objs.append(objs[d['i']].clone() if d['how'] == 'clone' else copy.deepcopy(objs[d['i']]))
          shapes.append(shapes[d['i']]); tags.append(tags[d['i']]); ops.append(f'QClone {d["i"]}')
        elif op == 'reunpack':
          sh = ('s', c)
          objs.append(ev_cls(c, d.get('ev', 0)).from_bits(objs[d['j']].to_bits())); shapes.append(sh); tags.append(1 + c.idx)
          add(f'QNew {tags[-1]} {sh_term(sh)} ({v_term(sh, v_unpack(sh, 0))})', 'None')
          ops.append(f'QAssign false {len(objs) - 1} [] {d["j"]} []')
        elif op == 'write':
          pth = [tuple(x) for x in d['path']]; sh = sub_shape(shapes[d['i']], pth)
          assign(d['i'], pth, build(sh, d['value'], 0.0, True), d['nb'], d['how'])
          ops.append(f'QWrite {"true" if d["nb"] else "false"} {d["i"]} {TR.t_path(pth)} ({v_term(sh, d["value"])})')
        elif op == 'assign':
          pth = [tuple(x) for x in d['path']]; q = [tuple(x) for x in d['src_path']]
          src = leaf_obj(shapes[d['j']], objs[d['j']], q)
          assign(d['i'], pth, src if d['rhs'] == 'live' else src.to_bits(), d['nb'], d['how'])
          ops.append(f'QAssign {"true" if d["nb"] else "false"} {d["i"]} {TR.t_path(pth)} {d["j"]} {TR.t_path(q)}')
        elif op == 'flip':
          pth = [tuple(x) for x in d['path']]
          leaf_obj(shapes[d['i']], objs[d['i']], pth)._flip(); ops.append(f'QFlip {d["i"]} {TR.t_path(pth)}')
        else: ops.append('QNop')
        if not d.get('observe'):
          obs.append('None'); pyobs.append(None); continue
        vals = [(observe(sh, o), packed(o)) for sh, o in zip(shapes, objs)]
        hv = [hash(o) for o in objs]
        eqs, hs = [], []
        for a in range(len(objs)):
          for b in range(a + 1, len(objs)):
            if tags[a] != tags[b]: continue
            e = objs[a] == objs[b]
            if shapes[a][0] == 's' and (type(e) is not bool or e != (objs[b] == objs[a]) or e == (objs[a] != objs[b])):
              fail('eq', k, f'== / != inconsistent between objects {a} and {b}')
            eqs.append(bool(e)); hs.append(hv[a] == hv[b])
        for a, o in enumerate(objs):      # an equal instance obtained independently must compare and hash equal, whatever was done to o before
          if shapes[a][0] != 's': continue
          f = ev_cls(shapes[a][1], k + a).from_bits(o.to_bits())       # round trip through some evaluation of the same definition
          if not (f == o) or not (o == f): fail('roundtrip', k, f'from_bits(x.to_bits()) != x for object {a}', {'value': vals[a][0]})
          elif hash(f) != hv[a]: fail('hash', k, f'object {a} and an equal instance built by from_bits(x.to_bits()) have different hashes', {'value': vals[a][0]})
        allid = [x for sh, o in zip(shapes, objs) for x in ids(sh, o, [])]
        if len(set(allid)) != len(allid):
          fail('alias', k, 'two positions (within one object or across live objects) hold the SAME sub-object', {'values': [v for v, _ in vals]})
        obs.append('Some (' + coq_list([f'({v_term(sh, v)}, {zlit(u)})' for sh, (v, u) in zip(shapes, vals)]) + ', ' + coq_list(['true' if e else 'false' for e in eqs])
                   + ', ' + coq_list(['true' if h else 'false' for h in hs]) + ')')
        pyobs.append({'values': [v for v, _ in vals], 'to_bits': [hex(u) for _, u in vals], 'eq_pairs_same_type': eqs, 'hash_equal_pairs_same_type': hs})
      except Exception as e:
        fail('raise', k, f'raised {e!r}', {'traceback': traceback.format_exc()[-800:]})
        return
    steps_of = []          # coq step index -> sequence step index (reunpack is two model steps)
    for k, d in enumerate(seq): steps_of += [k, k] if d['op'] == 'reunpack' else [k] * (1 + len(d.get('live', [])))
    q_cases.append(f'({coq_list(ops)}, {coq_list(obs)})'); q_meta.append((c, seq, ops, pyobs, steps_of))
    for kq, d in enumerate(seq): ctx.count(('seq', c.spec(), json.dumps(seq[:kq + 1], default=str)), True,
                                           cls='seq:' + d['op'] + (':nb' if d.get('nb') else '') + (':' + str(d['rhs']) if 'rhs' in d else ''))
  for c in classes:
    if rp is not None:
      if c is classes[-1] and 'sequence' in rp: run_sequence(c, rp['sequence'])
      if c is not classes[-1]: continue
    for _ in range((3 if c.idx < ndir else 1) if quick else 3):
      run_sequence(c, gen_sequence(c, rng.choice([8, 10, 12]) if quick else rng.choice([10, 14, 18])))
  bad = ctx.coq_bad_indices('seq', imports, shape_defs, 'list seq_op * list step_obs', q_cases,
                            "seq_ok (fst c) (snd c)", shard=25)
  for i in bad[:6]:
    c, seq, ops, pyobs, steps_of = q_meta[i]
    r = ctx.coq_eval('qexp', imports, shape_defs, [f"let c := {q_cases[i]} in seq_run ([], empty_store) (fst c) (snd c) 0"])
    m = re.search(r'Some (\d+)', r[0]); km = int(m.group(1)) if m else 0
    k = steps_of[min(km, len(steps_of) - 1)]
    mv = ctx.coq_eval('qmod', imports, shape_defs, ['seq_model ' + coq_list(ops[:km + 1])])
    h = hashlib.sha1(json.dumps(['seq', c.spec(), seq], default=str).encode()).hexdigest()[:10]
    ctx.violation(f'C06:sequence:{h}', f'operation sequence diverges from the property at step {k} ({seq[k]}): observed {json.dumps(pyobs[km])[:300]}; '
                  f'the model (value semantics) holds {mv[0][:300]} (an assignment transfers the value the source has at that moment and never links '
                  'the two; == must agree with the packed values; equal instances must hash equal)',
                  {'shape': c.spec(), 'sequence': seq, 'failing_step': k, 'observed_at_step': pyobs[km], 'model_values_at_step': mv[0], 'steps_before': seq[:k + 1]})
  if q_cases: ctx.sample({'kind': 'sequence', 'steps': q_meta[0][1][:6], 'coq': q_cases[0][:600]})
  ctx.extra['cases_sequences'] = len(q_cases); ctx.extra['sequence_steps'] = sum(len(m[1]) for m in q_meta)

  def hexs(t):
    t = re.sub(r'\b\d{6,}\b', lambda m: hex(int(m.group(0))), t)
    return t if len(t) < 400 else t[:400] + '...'
  bad = ctx.coq_bad_indices('pack', imports, shape_defs, 'shape * value * Z * Z', p_cases,
                            "let '(T, v, n, u) := c in typed T v && (width T =? n) && (pack T v =? u)", shard=280)
  for i in bad[:5]:
    c, v, ob = p_meta[i]
    exp = ctx.coq_eval('pexp', imports, shape_defs, [f"let '(T, v, n, u) := {p_cases[i]} in (width T, pack T v)"])
    viol_value('to_bits', c, f'to_bits() = {hex(ob)} but the property\'s layout gives (width, value) = {hexs(exp[0])}', {'value': v, 'observed': hex(ob), 'expected': exp[0]})
  bad = ctx.coq_bad_indices('unpack', imports, shape_defs, 'shape * Z * value', u_cases,
                            "let '(T, b, v) := c in veqb (unpack T b) v", shard=280)
  for i in bad[:5]:
    c, bv, ov = u_meta[i]
    exp = ctx.coq_eval('uexp', imports, shape_defs, [f'unpack T{c.idx} {zlit(bv)}'])
    viol_value('from_bits', c, f'from_bits({hex(bv)}) builds {ov} but the layout gives {hexs(exp[0])}', {'bits': hex(bv), 'observed': ov, 'expected': exp[0]})
  bad = ctx.coq_bad_indices('eq', imports, shape_defs, 'shape * value * value * bool', e_cases,
                            "let '(T, v, w, r) := c in Bool.eqb r (veqb v w) && Bool.eqb r (pack T v =? pack T w)", shard=300)
  for i in bad[:5]:
    c, v, w_, r = e_meta[i]
    viol_value('eq', c, f'== returned {r} but the packed values are {"different" if r else "equal"}', {'value': v, 'other': w_, 'observed': r})
  bad = ctx.coq_bad_indices('store', imports, '', 'sc_op * value * value * bool * path * Z * (value * value)', s_cases,
                            "let '(op, va, vb, who, p, u, obs) := c in let r := run_scenario op va vb who p u in veqb (fst r) (fst obs) && veqb (snd r) (snd obs)", shard=170)
  for i in bad[:6]:
    c, op, va, vb, who, p, u, obs, hows = s_meta[i]
    exp = ctx.coq_eval('sexp', imports, '', [f"let '(op, va, vb, who, p, u, obs) := {s_cases[i]} in run_scenario op va vb who p u"])
    viol_value(op, c, f'{op} (objects built by {hows}): after the copy and an in-place write of {u} to leaf {TR.t_path(p)} of the {"copy/destination" if who else "original/source"} '
               f'the two objects hold {obs}, the model (independent copies) gives {hexs(exp[0])}',
               {'value': va, 'other': vb, 'built_by': hows, 'write_to_copy': who, 'leaf_path': TR.t_path(p), 'written': u, 'observed': obs, 'expected': exp[0]})
  # ---- hash() raising: the property demands hashing to agree with the packed value for every bitstruct type
  if hash_raised:
    only_lists = all(c.has_list for c, _, _ in hash_raised)
    c, v, err = hash_raised[0]
    key = 'C06:hash:unhashable-list-field' if only_lists else 'C06:hash:unhashable'
    ctx.violation(key, f'hash(x) raises {err} for bitstructs with a list field ({len(set(cc.idx for cc, _, _ in hash_raised))} of {len(classes)} types this run): '
                       'the generated __hash__ hashes the tuple of fields, and a list field is a Python list; the property demands hashing '
                       'to agree with the packed value for every bitstruct type, list fields included',
                  {'shape': c.spec(), 'value': v, 'error': err, 'generated___hash__': c.src.get('__hash__'),
                   'python': f'hash({c.name}.from_bits(Bits{c.width}({hex(int(packed(build(("s", c), v))))})))'})
  if p_cases: ctx.sample({'kind': 'to_bits', 'shape': p_meta[len(p_cases) // 20][0].spec(), 'coq': p_cases[len(p_cases) // 20][:500]})
  if s_cases: ctx.sample({'kind': 'scenario', 'coq': s_cases[len(s_cases) // 2][:700]})
  if u_cases: ctx.sample({'kind': 'from_bits', 'coq': u_cases[len(u_cases) // 3][:500]})
  ctx.extra.update({'classes': len(classes), 'classes_with_list_field': sum(c.has_list for c in classes),
                    'classes_depth_hist': {str(d): sum(1 for c in classes if c.depth == d) for d in range(1, 5)},
                    'cases_tgen': len(g_cases), 'cases_to_bits': len(p_cases), 'cases_from_bits': len(u_cases), 'cases_eq': len(e_cases),
                    'cases_copy_scenarios': len(s_cases), 'hash_raised_on': len(hash_raised), 'max_width': max(c.width for c in classes)})
  BS._create_fn, BS.py = real_create, real_py

def main(ctx):
  ctx.trusted += ['translators/bitstruct_src2coq.py: parser of the generated method texts into Coq terms (fail-closed; names mapped to field indices against the declared shape)',
                  'harness-side wrapping of bitstructs._create_fn and of the `py` module object inside bitstructs to capture the exact source text handed to the compiler',
                  'Python int <-> Coq Z identities for << | // % (helpers.concat and Bits slicing are modelled by concat_model / slice; Bits slicing itself is property C05)']
  ctx.assumptions += ['objects are modelled as trees of cells: only Bits leaves are mutable; struct instances and lists are interior objects with identities; '
                      'attribute rebinding by user code is outside the model',
                      'the generated per-class methods recurse into nested struct fields at run time; the model copies leaf-wise in declaration order '
                      '(the same order); the per-class slot enumeration is checked textually, the equivalence is exercised by the value-level differential run',
                      'hash: the model covers any hash computed field-by-field from leaf hashes; CPython tuple hashing itself is not modelled',
                      'user-overridden __eq__/__hash__/__init__ are out of scope; field names that collide with generated identifiers other than s/self are not generated']
  ctx.build_props(extra_models=['theories/Struct/Layout.vo'])
  try:
    run(ctx)
  except Exception as e:
    ctx.note('correspondence crashed: ' + traceback.format_exc()[-1500:])
    ctx.violation('C06:harness-crash', f'correspondence could not run: {e!r}', {'traceback': traceback.format_exc()}, found_input=False)
  return ctx.finish(rule='random bitstruct classes (depth<=4, <=6 fields, list dims <=3x3x2, nested struct types reused, field names incl. s/self/other/cls/memo) plus 12 '
                         'directed shapes (single leaf, equal-width neighbours, 1-element list, 3x3x2 list of structs, depth 4, total width 1023); per class: every '
                         'generated method text checked in Coq against the layout (covers all values); per class values 0, all-ones, single-bit walks, random: '
                         'to_bits, from_bits, round trips, ==, hash, clone/deepcopy/@=/<<=+_flip followed by an in-place leaf write on either side; '
                         'distinct = distinct (shape, input) tuples, all non-trivial')

def replay(ctx, r):
  """re-run every check of this property on the shape (and value) stored in a replay file"""
  data = r.get('replay', {})
  if 'shape' not in data:
    print('this replay names a proof obligation / tie, not an input; re-run ./check C06'); return main(ctx)
  ctx.replay_data = data
  ctx.build_props(extra_models=['theories/Struct/Layout.vo'])
  ev = VERIF / 'evidence' / 'C06.json'
  keep = ev.read_text() if ev.exists() else None
  try:
    run(ctx)
  except Exception as e:
    ctx.violation('C06:harness-crash', f'replay could not run: {e!r}', {'traceback': traceback.format_exc()}, found_input=False)
  rc = ctx.finish(rule='replay of one stored shape/value')
  if keep is not None: ev.write_text(keep)     # a replay does not replace the evidence of the last full run
  return rc
