"""C01 — simulation results do not depend on the schedule chosen; the state is the unique fixed point.

theorems (Props/C01.v):
  topo_confluent            any two linear extensions of the constraint relation compute the same state
  topo_fixed_point          after a legal pass re-running any block changes nothing
  fixed_point_unique        any two fixed points agreeing on unwritten variables are equal (the dataflow solution)
  ff_perm_indep             every order of the update_ff blocks gives the same state
  accepted_schedules_agree / accepted_schedule_fixed_point
                            end-to-end: for ANY block semantics respecting the observed bit-level footprints,
                            two schedules accepted by the Coq acceptor `sched_ok` agree, and end in a fixed point
tie: T-acc — the observed execution order of every scheduler (traced while the real simulator evaluates) and the
     blocks' bit-level footprints (from pymtl3's read/write metadata, mapped to bit intervals by the harness) are fed
     to the Coq acceptors sched_ok / sw_ok / nsl_ok / noinv_ok (vm_compute);
     T-diff — all signals after every sim_eval_combinational and sim_tick are compared across all schedulers,
     linear extensions and ff orders; every block is re-invoked to check the fixed point; the frame/dep hypotheses of
     the theorems are validated dynamically per block (changed bits ⊆ declared writes; flipping an unread bit does not
     change what a block writes).
"""
import itertools
from common import *
import functools
import sched_common as sc
import rtlfoot

def ff_perms(n, rng, limit):
  if n <= 1: return [None]
  if n > 6:
    # never materialise n! permutations: identity, reverse and random shuffles
    out = [tuple(range(n)), tuple(range(n))[::-1]]
    while len(out) < limit:
      p = list(range(n)); rng.shuffle(p)
      if tuple(p) not in out: out.append(tuple(p))
    return out
  ps = list(itertools.permutations(range(n)))
  if len(ps) > limit: ps = [ps[0], ps[-1]] + rng.sample(ps[1:-1], limit - 2)
  return ps

def check_design(ctx, g, cls, k, cycles, nsimple, nforced, ffl, coq_cases, coq_meta):
  rng = ctx.rng
  src = g.source()
  variants = [('simple', i, None) for i in range(nsimple)] + [('forced', i, None) for i in range(nforced)] + \
             [('dynamic', 0, None), ('unroll', 0, None), ('heuristic', 0, None), ('mamba', 0, None)]
  base = None; base_name = None
  orders = []
  fp = None
  seed = rng.randrange(1 << 30)
  nff = None
  for (sch, i, perm) in variants:
    top = sc.build(cls, sch, rng=random.Random(rng.randrange(1 << 30)), seed=i)
    if fp is None:
      fp = sc.Footprints(top)
      nff = len(fp.ff)
    fpl = sc.Footprints(top)
    tracer = sc.OrderTracer(top, fpl.comb)
    state = {}
    def on_eval(c, top=top, fpl=fpl, tracer=tracer):
      # fixed point: re-invoke every combinational block, nothing may change
      if c in (0, cycles - 1):
        before = sc.snapshot(top)
        for b in fpl.comb: b()
        after = sc.snapshot(top)
        if before != after:
          ks = [x for x in before if before[x] != after[x]]
          ctx.violation(f'C01:not-fixed-point:{g.name}:{sch}', f'design {g.name} under {sch}: re-running the update blocks after sim_eval_combinational changes {ks[:4]}',
                        {'design_source': src, 'scheduler': sch, 'input_seed': seed, 'cycle': c, 'changed': ks})
    tr = sc.simulate(top, g, seed, cycles, on_eval=on_eval)
    # observed execution order of one more evaluation pass
    o = tracer.run(top.sim_eval_combinational)
    orders.append((f'{sch}#{i}', o))
    ctx.count((g.name, sch, i), True, cls='sched:' + sch)
    if base is None: base, base_name = tr, f'{sch}#{i}'
    else:
      d = sc.first_diff(base, tr)
      if d:
        ctx.violation(f'C01:schedule-dependent:{g.name}:{sch}', f'design {g.name}: signals differ between {base_name} and {sch}#{i} at step {d[0]} ({"eval" if d[0]%2==0 else "tick"} of cycle {d[0]//2}): {d[2]}',
                      {'design_source': src, 'schedulers': [base_name, f'{sch}#{i}'], 'input_seed': seed, 'step': d[0], 'signals': d[2]})
  # the other driving protocol (inputs written, sim_tick only) with line tracing switched on: the pass groups must still
  # agree with each other and with the untraced simple schedule
  tbase = sc.simulate_ticks(sc.build(cls, 'simple', seed=0), g, seed, cycles)
  for sch in (('simple', 'dynamic', 'unroll', 'heuristic', 'mamba') if ctx.tier != 'quick' else rng.sample(['simple', 'dynamic', 'unroll', 'heuristic', 'mamba'], 2)):
    tr = sc.simulate_ticks(sc.build(cls, sch, seed=0, trace=True), g, seed, cycles)
    ctx.count((g.name, sch, 'tick-only-linetrace'), True, cls='tick-only:' + sch)
    d = sc.first_diff(tbase, tr)
    if d:
      ctx.violation(f'C01:schedule-dependent:{g.name}:{sch}:tick-only-linetrace', f'design {g.name}: driven by sim_tick alone with line tracing on, {sch} differs from simple (no tracing) after tick {d[0]}: {d[2]}',
                    {'design_source': src, 'scheduler': sch, 'protocol': 'inputs written, sim_tick() only, print_line_trace=True', 'input_seed': seed, 'tick': d[0], 'signals': d[2]})
  # active-low reset: every pass group given reset_active_high=False must hold reset at 0 during sim_reset and release it to 1;
  # the designs' `if s.reset:` registers make the polarity visible
  if 'ff-reset-idiom' in g.features:
    lbase = sc.simulate(sc.build(cls, 'simple', seed=0, reset_high=False), g, seed, cycles)
    for sch in (('dynamic', 'unroll', 'heuristic', 'mamba') if ctx.tier != 'quick' else rng.sample(['dynamic', 'unroll', 'heuristic', 'mamba'], 2)):
      tr = sc.simulate(sc.build(cls, sch, seed=0, reset_high=False), g, seed, cycles)
      ctx.count((g.name, sch, 'active-low-reset'), True, cls='active-low:' + sch)
      d = sc.first_diff(lbase, tr)
      if d:
        ctx.violation(f'C01:schedule-dependent:{g.name}:{sch}:active-low-reset', f'design {g.name} with reset_active_high=False: {sch} differs from simple at step {d[0]}: {d[2]}',
                      {'design_source': src, 'scheduler': sch, 'reset_active_high': False, 'input_seed': seed, 'step': d[0], 'signals': d[2]})
  # EVERY linear extension of pymtl3's constraint graph is a legal schedule (SimpleSchedulePass picks one at random), so a
  # writer/reader pair that shares a bit (declared footprints mapped to bit intervals here, plus reads/writes discovered
  # by running the blocks) but that the graph leaves unordered gets its own witness: the linear extension that runs
  # the reader first is simulated and compared with the first variant
  topx = sc.build(cls, 'forced', rng=random.Random(1), seed=0); fpx = sc.Footprints(topx)
  reach = {a: set() for a in range(len(fpx.comb))}
  for (a, b) in fpx.edges: reach[a].add(b)
  ch = True
  while ch:
    ch = False
    for a in reach:
      new = (set().union(*[reach[x] for x in reach[a]]) - reach[a]) if reach[a] else set()
      if new: reach[a] |= new; ch = True
  dynr, dynw = {}, {}
  special = any(f.startswith(('func-', 'param-', 'signal-index')) for f in g.features)
  if (len(fpx.comb) <= 8 or (special and len(fpx.comb) <= 25)) if ctx.tier == 'quick' else (len(fpx.comb) <= 14 or special):
    topx.sim_reset()
    ntr = 1 if ctx.tier == 'quick' else 2
    dynr = {fpx.cid[b]: v for b, v in sc.dynamic_reads(topx, fpx, random.Random(seed), trials=ntr).items()}
    dynw = {fpx.cid[b]: v for b, v in sc.dynamic_writes(topx, fpx, random.Random(seed), trials=ntr).items()}
    ctx.hist['dynamic-footprint-discovery'] = ctx.hist.get('dynamic-footprint-discovery', 0) + 1
  pairs = []
  for a, ba in enumerate(fpx.comb):
    Wr = list(fpx.writes[ba]) + [(r_, k_, k_ + 1) for (r_, k_) in dynw.get(a, ())]
    for b, bb in enumerate(fpx.comb):
      if a == b or b in reach[a] or a in reach[b]: continue
      Rd = list(fpx.reads[bb]) + [(r_, 0, 1 << 20) for r_ in dynr.get(b, ())]
      if any(r1 == r2 and l1 < h2 and l2 < h1 for (r1, l1, h1) in Wr for (r2, l2, h2) in Rd): pairs.append((a, b))
  for (a, b) in pairs[:3]:
    ctx.count((g.name, 'unordered-pair', a, b), True, cls='unordered-overlapping-pair')
    top = sc.build(cls, 'forced', rng=random.Random(seed), seed=0, prefer=(b, a))
    if top is None: continue
    tr = sc.simulate(top, g, seed, cycles)
    d = sc.first_diff(base, tr)
    if d:
      ctx.violation(f'C01:schedule-dependent:{g.name}:unordered-pair', f'design {g.name}: block {fpx.comb[a].__name__} writes bits that {fpx.comb[b].__name__} reads but pymtl3\'s constraint graph does not order them; the legal schedule that runs the reader first differs from {base_name} at step {d[0]}: {d[2]}',
                    {'design_source': src, 'writer': fpx.comb[a].__name__, 'reader': fpx.comb[b].__name__, 'schedule': [x.__name__ for x in top._sched.update_schedule if hasattr(x, '__name__')], 'input_seed': seed, 'step': d[0], 'signals': d[2]})
    else:
      ctx.hist['unordered-pair-without-visible-effect'] = ctx.hist.get('unordered-pair-without-visible-effect', 0) + 1
  # reference trajectory ref(D,I,t): the dataflow equations evaluated by the oracle (each update_ff block alone on the
  # pre-edge state, every double-buffered leaf flipped by the oracle itself, comb blocks to their fixed point)
  from c07 import oracle_tick
  O = sc.build(cls, 'simple', seed=0); fpo = sc.Footprints(O)
  O.sim_reset(); ro = random.Random(seed)
  A = sc.build(cls, 'simple', seed=1); A.sim_reset(); ra = random.Random(seed)
  for c in range(cycles):
    sc.drive_inputs(O, g, ro); sc.drive_inputs(A, g, ra)
    se, st = oracle_tick(ctx, O, g, fpo, src, c, both=True)
    A.sim_eval_combinational(); ae = sc.snapshot(A); A.sim_tick(); at = sc.snapshot(A)
    ctx.count((g.name, 'ref', c), True, cls='reference-trajectory')
    if ae != se or at != st:
      which, a_, b_ = ('eval', ae, se) if ae != se else ('tick', at, st)
      ks = [x for x in b_ if a_.get(x) != b_[x]]
      ctx.violation(f'C01:differs-from-reference:{g.name}', f'design {g.name}: after {which} of cycle {c} the simulator differs from the dataflow reference on {ks[:4]} (observed/reference {[(a_.get(x), b_[x]) for x in ks[:4]]})',
                    {'design_source': src, 'cycle': c, 'phase': which, 'input_seed': seed, 'signals': {x: (a_.get(x), b_[x]) for x in ks[:8]}})
      break
  # flip-flop block orders
  for perm in ff_perms(nff, rng, ffl):
    if perm is None: continue
    for sch in ('simple', 'dynamic'):
      top = sc.build(cls, sch, rng=None, ff_perm=list(perm), seed=0)
      tr = sc.simulate(top, g, seed, cycles)
      ctx.count((g.name, sch, 'ff', perm), True, cls='ffperm')
      d = sc.first_diff(base, tr)
      if d:
        ctx.violation(f'C01:ff-order-dependent:{g.name}:{sch}:{perm}', f'design {g.name}: update_ff order {perm} under {sch} changes {d[2]} at step {d[0]}',
                      {'design_source': src, 'scheduler': sch, 'ff_order': list(perm), 'input_seed': seed, 'step': d[0], 'signals': d[2]})
  # hypothesis validation (frame / dep) on one instance, block by block
  top = sc.build(cls, 'forced', rng=random.Random(1), seed=0)
  fpl = sc.Footprints(top)
  # blocks inside the RTL language: PROVED footprints (RTL/FootprintSound.v) must be covered by pymtl3's declared ones,
  # and the translated block must evaluate like the real one (validates translators/rtlblk2coq.py)
  rtlfoot.check_blocks(ctx, top, fpl, src, g.name)
  roots_inv = {v: kx for kx, v in fpl.roots.items()}
  # top-level signals of one net share one storage object after lock_in_simulation: alias classes
  alias = {}
  for q in fpl.roots: alias.setdefault(id(sc_live(top, q)), set()).add(fpl.roots[q])
  alias_of = {rid: cl for cl in alias.values() for rid in cl}
  r = random.Random(seed); top.sim_reset()
  for c in range(min(cycles, 4)):
    sc.drive_inputs(top, g, r)
    for b in top._sched.update_schedule:
      if b not in fpl.cid: b(); continue
      before = sc.snapshot(top); b(); after = sc.snapshot(top)
      for sname in before:
        diff = before[sname] ^ after[sname]
        if diff:
          root = [q for q in fpl.roots if repr(q) == sname][0]
          rid = fpl.roots[root]
          allowed = 0
          for (rr, lo, hi) in fpl.writes[b]:
            if rr in alias_of[rid]: allowed |= ((1 << hi) - (1 << lo))
          if diff & ~allowed:
            ctx.note(f'frame hypothesis fails: {g.name} block {b.__name__} changed undeclared bits of {sname}')
            ctx.violation(f'C01:frame:{g.name}:{b.__name__}', f'block {b.__name__} of {g.name} changed bits of {sname} outside its declared write set (footprint analysis unsound)',
                          {'design_source': src, 'block': b.__name__, 'signal': sname, 'changed_mask': hex(diff), 'declared_mask': hex(allowed)})
    # dep: flip a bit that one block neither reads nor writes; what it writes must not change
    b = rng.choice(fpl.comb) if fpl.comb else None
    cand = [q for q in fpl.roots if hasattr(sc_live(top, q), '_uint')]
    if cand and b is not None:
      q = rng.choice(cand); rid = fpl.roots[q]; W = sc.width_of(q); bit = rng.randrange(W)
      touched = any(rr in alias_of[rid] and lo <= bit < hi for (rr, lo, hi) in fpl.reads[b] + fpl.writes[b])
      if not touched:
        st = sc.save_state(top)
        b(); out1 = {w: sc.snapshot(top) for w in [0]}[0]
        sc.restore_state(st)
        live = sc_live(top, q); live._uint ^= (1 << bit)
        b(); out2 = sc.snapshot(top)
        sc.restore_state(st)
        for (rr, lo, hi) in fpl.writes[b]:
          sname = repr(roots_inv[rr]); m = (1 << hi) - (1 << lo)
          if (out1[sname] & m) != (out2[sname] & m):
            ctx.violation(f'C01:dep:{g.name}:{b.__name__}', f'block {b.__name__} of {g.name}: value written to {sname} depends on bit {bit} of {q!r}, which is not in its declared read set',
                          {'design_source': src, 'block': b.__name__, 'flipped': [repr(q), bit]})
    top.sim_eval_combinational(); top.sim_tick()
  # the constraint graph itself, for the graph acceptor (all linear extensions at once)
  dterm_g, missing = sc.dag_case(fp)
  coq_meta_dag = getattr(ctx, '_dag_meta', None)
  if coq_meta_dag is None: ctx._dag_cases, ctx._dag_meta = [], []
  ctx._dag_cases.append(dterm_g); ctx._dag_meta.append((g.name, src, [(fp.comb[a].__name__, fp.comb[b].__name__) for a, b in missing], [b.__name__ for b in fp.comb]))
  # acceptor case for Coq
  dterm = fp.design_term()
  oterm = coq_list([coq_list([f'{x}%nat' for x in o]) for _, o in orders])
  coq_cases.append(f'({dterm}, {oterm})')
  coq_meta.append((g.name, src, [n for n, _ in orders], [o for _, o in orders], len(fp.comb)))
  ctx.hist['blocks:%d' % min(30, 5 * (len(fp.comb) // 5))] = ctx.hist.get('blocks:%d' % min(30, 5 * (len(fp.comb) // 5)), 0) + 1
  for f in g.features: ctx.hist['feature:' + f] = ctx.hist.get('feature:' + f, 0) + 1
  return len({tuple(o) for _, o in orders})

def sc_live(top, sig):
  obj, i, is_list, _ = top._sim.signal_object_mapping[sig]
  return obj[i] if is_list else getattr(obj, i)

def run(ctx):
  setup_impl_path()
  quick = ctx.tier == 'quick'
  ndes = 95 if quick else 700
  coq_cases, coq_meta = [], []
  distinct_orders = 0
  for k in range(ndes):
    size = ctx.rng.choice(['small', 'medium', 'medium', 'large'])
    g = sc.Gen(random.Random(ctx.rng.randrange(1 << 30)), f'D{k}', size=size).build()
    try:
      cls, mod = sc.load_source(ctx, g.source(), g.name)
      distinct_orders += check_design(ctx, g, cls, k, cycles=6 if quick else 12, nsimple=2 if quick else 4,
                                      nforced=3 if quick else 8, ffl=4 if quick else 24, coq_cases=coq_cases, coq_meta=coq_meta)
      if g.param:
        # the same class elaborated again in this process with another construct-time parameter (other block bodies)
        g.name = f'D{k}_p1'
        cls1 = functools.partial(cls, 1); cls1.__name__ = cls.__name__
        src0 = g.source(); g.source = lambda src0=src0: src0 + '\n# elaborated as ' + cls.__name__ + '( 1 ) after ' + cls.__name__ + '( 0 ) in the same process\n'
        distinct_orders += check_design(ctx, g, cls1, k, cycles=6 if quick else 12, nsimple=1 if quick else 2,
                                        nforced=2 if quick else 6, ffl=2 if quick else 8, coq_cases=coq_cases, coq_meta=coq_meta)
    except Exception as e:
      ctx.violation(f'C01:design-crash:{g.name}:{type(e).__name__}', f'generated acyclic design {g.name} could not be simulated: {type(e).__name__}: {str(e)[:200]}',
                    {'design_source': g.source(), 'traceback': traceback.format_exc()[-2000:]})
  # size sweep: regular designs of every schedule length in windows around multiples of 32 (code generators that unroll or
  # pack the schedule work in chunks): all pass groups must agree with the simple schedule
  t_sw = time.time()
  lens = set()
  for K in (range(28, 100) if quick else range(1, 170)):
    for extra in (0, 1):
      L_ = 2 * K + 3 + extra
      if quick and min(abs(L_ - m) for m in (64, 96, 128, 192)) > 4 and min(abs(L_ + 1 - m) for m in (64, 96, 128, 192)) > 4: continue
      name = f'W{K}_{extra}'
      lines = ['s.in_ = InPort( 8 )', 's.out = OutPort( 8 )', f's.c = [ Inc( 8 ) for _ in range({K}) ]', 'connect( s.c[0].in_, s.in_ )',
               f'for k in range({K - 1}):', '  connect( s.c[k+1].in_, s.c[k].out )',
               # the end of the chain is a real block (a net onto a top-level signal compiles to an empty function)
               '@update', 'def up_out():', f'  s.out @= s.c[{K - 1}].out + 1']
      if extra: lines += ['s.x = OutPort( 8 )', '@update', 'def up_x():', '  s.x @= s.in_ ^ 85']
      srcw = sc.STRUCT_SRC + f'\nclass {name}( Component ):\n  def construct( s ):\n' + '\n'.join('    ' + l for l in lines) + '\n  def line_trace( s ):\n    return ""\n'
      class GW: pass
      gw = GW(); gw.name = name; gw.inputs = [('in_', ('bits', 8))]
      try:
        clsw, _ = sc.load_source(ctx, srcw, name)
        ref = None
        for sch, sd_ in [('simple', 0), ('dynamic', 0), ('unroll', 0), ('unroll', 1), ('unroll', 2), ('heuristic', 0), ('mamba', 0), ('mamba', 1)]:
          tw = sc.build(clsw, sch, seed=sd_)
          if sch == 'simple': lens.add(len(tw._sched.update_schedule))
          trw = sc.simulate(tw, gw, 11, 3)
          ctx.count((name, sch, 'sweep'), True, cls='size-sweep:' + sch)
          if ref is None: ref = trw
          else:
            dw = sc.first_diff(ref, trw)
            if dw:
              ctx.violation(f'C01:schedule-dependent:size-sweep:{sch}:len{len(tw._sched.update_schedule) if hasattr(tw, "_sched") and hasattr(tw._sched, "update_schedule") else L_}', f'chain of {K} incrementers (+{extra} block): {sch} differs from simple at step {dw[0]}: {dw[2]}',
                            {'design_source': srcw, 'scheduler': sch, 'step': dw[0], 'signals': dw[2]})
      except Exception as e:
        ctx.violation(f'C01:design-crash:size-sweep:{type(e).__name__}', f'size-sweep design {name} could not be simulated: {type(e).__name__}: {str(e)[:200]}', {'design_source': srcw, 'traceback': traceback.format_exc()[-1500:]})
  ctx.extra['size_sweep'] = {'schedule_lengths_covered': sorted(lens), 'wall_s': round(time.time() - t_sw, 1)}
  defs = '''
Definition case_ok (c : design * list (list nat)) : bool :=
  let '(d, os) := c in wf_design d && sw_ok d && nsl_ok d && noinv_ok d && forallb (sched_ok d) os.
'''
  bad = ctx.coq_bad_indices('acc', 'Base.Prelude Sched.Accept', defs,
                            'design * list (list nat)', coq_cases, 'case_ok c', shard=10)
  for i in bad[:6]:
    name, src, onames, orders, nb = coq_meta[i]
    parts = ctx.coq_eval('why', 'Base.Prelude Sched.Accept', defs,
                         [f"let '(d, os) := {coq_cases[i]} in (wf_design d, sw_ok d, nsl_ok d, noinv_ok d, map (sched_ok d) os)"])
    ctx.violation(f'C01:acceptor:{name}', f'design {name}: Coq acceptor rejects (wf, single-writer, no-self-loop, no-inversion, per-schedule ok) = {parts[0][:300]}',
                  {'design_source': src, 'schedules': dict(zip(onames, orders)), 'acceptor_result': parts[0]})
  # graph acceptor: pymtl3's constraint graph orders every pair the footprints require, so EVERY schedule it allows is accepted
  badg = ctx.coq_bad_indices('dag', 'Base.Prelude Sched.Accept Sched.DagAccept', '', 'design * list (nat * nat) * list (list nat)',
                             ctx._dag_cases, "let '(d, G, P) := c in dag_ok d G P && sw_ok d", shard=10)
  for i in badg[:6]:
    name, src, missing, bn = ctx._dag_meta[i]
    ctx.violation(f'C01:graph-acceptor:{name}', f'design {name}: pymtl3\'s constraint graph is rejected by dag_ok: pairs (writer, reader) that share a bit but are not ordered by any path: {missing[:4]} - some schedule the graph allows runs a reader before its writer',
                  {'design_source': src, 'unordered_pairs': missing, 'blocks': bn})
  ctx.extra['designs_with_graph_acceptor_case'] = len(ctx._dag_cases)
  rtlfoot.run_corpus(ctx); rtlfoot.finish(ctx)
  ctx.sample({'design': coq_meta[0][0], 'source_tail': coq_meta[0][1][-600:], 'observed_orders': dict(zip(coq_meta[0][2], coq_meta[0][3]))})
  ctx.extra.update({'designs': len(coq_cases), 'distinct_observed_linear_extensions': distinct_orders})

def main(ctx):
  ctx.trusted += ['translators/rtlblk2coq.py (update block AST -> RTL/Syntax term; validated on every run by evaluating the translated block in Coq against the real block on sampled states)', 'harness/sched_common.py: design generator, mapping of pymtl3 signal objects to bit intervals, execution-order tracer (sys.setprofile)']
  ctx.assumptions += ['for update blocks inside the RTL language of RTL/Syntax.v (about 95% of generated blocks) frame/dep are PROVED for the syntactic footprints (C01_rtl_frame/dep) and pymtl3\'s declared footprints are checked in Coq to cover them; for the remaining blocks the footprints are pymtl3\'s own analysis and frame/dep are validated dynamically per executed block',
                      'designs are drawn from the RTL generator in sched_common.Gen (Bits/struct/list signals, slices, fields, nets, child components, explicit U<U constraints)']
  ctx.build_props(extra_models=['theories/Sched/Accept.vo', 'theories/Sched/DagAccept.vo', 'theories/RTL/Footprint.vo'])
  try:
    run(ctx)
  except Exception as e:
    ctx.violation('C01:harness-crash', f'correspondence could not run: {e!r}', {'traceback': traceback.format_exc()}, found_input=False)
  return ctx.finish(rule='random acyclic RTL designs x {simple (seeds), forced random linear extensions, dynamic, unroll, heuristic, mamba} x update_ff permutations; '
                         'distinct = distinct (design, scheduler variant); non-trivial = the design has >=2 comb blocks')
