"""sv_common.py — shared by C03 and C12: run a pymtl3 design (simulate with random inputs, translate with the
SystemVerilog / Yosys pass, parse the emitted text with svparse) and print the Coq terms that let SV/SvEval.v
replay the trace on the emitted module.  Nothing here decides a property: the comparison happens inside Coq."""
import sys, os, random, importlib, inspect, traceback, hashlib, re
from common import *
import svparse

# ---------------------------------------------------------------------- port enumeration and emitted names
def top_ports(top):
  """every InPort/OutPort that belongs to `top` itself (directly, in a list, or through interfaces), sorted by repr"""
  from pymtl3.dsl import InPort, OutPort
  ps = [x for x in top.get_all_object_filter(lambda x: isinstance(x, (InPort, OutPort))) if x.get_host_component() is top and x.is_top_level_signal()]
  return sorted(ps, key=repr)

def port_chain(top, p):
  chain = []; o = p
  while o is not top:
    chain.append((o._dsl._my_name, tuple(o._dsl._my_indices or ()))); o = o._dsl.parent_obj
  return chain[::-1]

def is_input(top, p):
  """direction as seen from outside `top` (ports of interfaces are already flipped by pymtl3)"""
  from pymtl3.dsl import InPort
  return isinstance(p, InPort)

def sv_name(chain):
  """SystemVerilog backend: names joined by __, all list indices become unpacked dimensions"""
  return '__'.join(n for n, _ in chain), tuple(i for _, ix in chain for i in ix)

def ys_name(chain):
  """Yosys backend: indices are mangled into the name"""
  return '__'.join(n + ''.join(f'__{i}' for i in ix) for n, ix in chain)

# ---------------------------------------------------------------------- type shapes and the packing layout (python mirror)
def shape_of(T):
  if isinstance(T, list): return ('list', len(T), shape_of(T[0]))
  if hasattr(T, '__bitstruct_fields__'):
    return ('struct', [(n, shape_of(ft)) for n, ft in T.__bitstruct_fields__.items()])
  return ('bits', T.nbits)

def sh_width(sh):
  if sh[0] == 'bits': return sh[1]
  if sh[0] == 'struct': return sum(sh_width(f) for _, f in sh[1])
  return sh[1] * sh_width(sh[2])

def leaf_ranges(sh, lo=0):
  """[(path, lo, hi)] most significant leaf first; first field most significant, list element 0 least significant.
  (cross-checked inside Coq against Struct.Layout.leaf_ranges on every run)"""
  if sh[0] == 'bits': return [((), lo, lo + sh[1])]
  out = []
  if sh[0] == 'struct':
    below = sh_width(sh)
    for i, (n, f) in enumerate(sh[1]):
      below -= sh_width(f)
      out += [((('f', i, n),) + p, a, b) for p, a, b in leaf_ranges(f, lo + below)]
    return out
  we = sh_width(sh[2])
  for k in reversed(range(sh[1])):
    out += [((('i', k),) + p, a, b) for p, a, b in leaf_ranges(sh[2], lo + k * we)]
  return out

def shape_coq(sh):
  if sh[0] == 'bits': return f'(SBits {sh[1]})'
  if sh[0] == 'struct': return '(SStruct ' + coq_list([shape_coq(f) for _, f in sh[1]]) + ')'
  return f'(SList {sh[1]}%nat {shape_coq(sh[2])})'

def ranges_coq(rs):
  def step(s): return f'Fld {s[1]}%nat' if s[0] == 'f' else f'Idx {s[1]}%nat'
  return coq_list([f'({coq_list([step(s) for s in p])}, {lo}, {hi})' for p, lo, hi in rs])

def leaf_suffix(path):
  return ''.join('__' + (s[2] if s[0] == 'f' else str(s[1])) for s in path)

# ---------------------------------------------------------------------- designs
class Design:
  def __init__(s, name, factory, source=None, kind='gen', features=(), limits=()):
    s.name, s.factory, s.source, s.kind, s.features = name, factory, source, kind, tuple(features)
    s.limits = tuple(limits)      # [(regex on the port's repr, exclusive upper bound)] : inputs pymtl3 itself would reject

def stdlib_designs(tier):
  from pymtl3 import Bits1, Bits2, Bits3, Bits4, Bits8, Bits16, Bits32, Bits64, Bits128, mk_bits, bitstruct
  from pymtl3.stdlib import basic_rtl as B
  from pymtl3.stdlib import queues as Q
  VQ = EQ = None
  try: from pymtl3.stdlib.queues import enrdy_queues as EQ
  except Exception: pass
  try: from pymtl3.stdlib.queues import valrdy_queues as VQ
  except Exception: pass
  import pymtl3.stdlib.stream.queues as SQ
  sys.path.insert(0, str(REPO / 'examples'))
  for m in list(sys.modules):
    if m.startswith('ex02_cksum'): del sys.modules[m]
  from ex02_cksum.ChecksumRTL import ChecksumRTL, StepUnit
  ds = []
  def add(cls, *a, limits=(), **k):
    nm = ('stream.' if cls.__module__.startswith('pymtl3.stdlib.stream') else '') + cls.__name__ + '(' + ','.join([getattr(x, '__name__', repr(x)) for x in a] + [f'{n}={getattr(v, "__name__", v)!r}' for n, v in k.items()]) + ')'
    ds.append(Design(nm, lambda cls=cls, a=a, k=k: cls(*a, **k), source=f'{cls.__module__}.{nm}', kind='stdlib', limits=limits))
  quick = tier == 'quick'
  for T in ([Bits8] if quick else [Bits1, Bits8, Bits32, mk_bits(65)]):
    add(B.Reg, T); add(B.RegEn, T); add(B.RegRst, T, reset_value=1); add(B.RegEnRst, T, reset_value=1)
  add(B.RegRst, Bits4, reset_value=9); add(B.RegEnRst, Bits16, reset_value=0xbeef)
  for T, n in ([(Bits8, 2), (Bits16, 3), (Bits4, 4)] if quick else [(Bits8, 2), (Bits16, 3), (Bits4, 4), (Bits32, 5), (Bits1, 8), (mk_bits(65), 2)]):
    add(B.Mux, T, n, limits=[(r'sel', n)]); add(B.Demux, T, n, limits=[(r'sel', n)])
  for T in ([Bits8, Bits32] if quick else [Bits1, Bits8, Bits32, mk_bits(65)]):
    add(B.Adder, T); add(B.Subtractor, T); add(B.And, T); add(B.Incrementer, T, 3 if T.nbits > 1 else 1); add(B.ZeroComparator, T)
    add(B.EqComparator, T); add(B.LTComparator, T); add(B.LEComparator, T)
  add(B.LeftLogicalShifter, Bits8); add(B.RightLogicalShifter, Bits8); add(B.LeftLogicalShifter, Bits32); add(B.RightLogicalShifter, Bits32)
  for a in ([(Bits8, 4, 1, 1, False), (Bits16, 8, 2, 1, True), (Bits8, 2, 1, 2, False)] if quick else
            [(Bits8, 4, 1, 1, False), (Bits16, 8, 2, 1, True), (Bits8, 2, 1, 2, False), (Bits32, 32, 2, 1, True), (Bits4, 16, 3, 2, False), (Bits1, 2, 1, 1, False)]):
    add(B.RegisterFile, *a)
  add(B.RegisterFileRst, Bits8, 4, 1, 1, False, 5)
  for n in ([2, 4] if quick else [2, 3, 4, 5, 8, 16]):
    add(B.RoundRobinArbiter, n); add(B.RoundRobinArbiterEn, n)
  for a in ([(5, 3), (4, 2)] if quick else [(5, 3), (4, 2), (8, 3), (2, 1), (16, 4), (3, 2)]): add(B.Encoder, *a)
  for a in ([(3, Bits16), (2, Bits8)] if quick else [(3, Bits16), (2, Bits8), (4, Bits32), (5, Bits1)]): add(B.Crossbar, *a, limits=[(r'sel', a[0])])
  for QC in (Q.NormalQueueRTL, Q.PipeQueueRTL, Q.BypassQueueRTL):
    for a in ([(Bits16, 1), (Bits16, 2), (Bits8, 3)] if quick else [(Bits16, 1), (Bits16, 2), (Bits8, 3), (Bits32, 4), (Bits1, 5), (Bits128, 2), (Bits4, 8)]):
      add(QC, *a)
  for QC in (SQ.NormalQueueRTL, SQ.PipeQueueRTL, SQ.BypassQueueRTL):
    for a in ([(Bits16, 1), (Bits8, 2)] if quick else [(Bits16, 1), (Bits8, 2), (Bits32, 3), (Bits4, 4)]):
      add(QC, *a)
  for name in ('PipeQueue1RTL', 'BypassQueue1RTL', 'NormalQueue1RTL'):
    if hasattr(EQ, name): add(getattr(EQ, name), Bits8)
  for name in ('PipeQueue1RTL', 'BypassQueue1RTL', 'NormalQueue1RTL'):
    if hasattr(VQ, name): add(getattr(VQ, name), Bits8)
  if hasattr(VQ, 'NormalQueueRTL'): add(VQ.NormalQueueRTL, 2, Bits8)
  add(StepUnit); add(ChecksumRTL)
  return ds

def testcase_designs():
  """the DUTs of pymtl3's own translation test-case catalogue (most take no argument)"""
  for m in list(sys.modules):
    if m.startswith('pymtl3.passes.testcases') or m.startswith('pymtl3.passes.backends.verilog.testcases') or m.startswith('pymtl3.passes.backends.yosys.testcases'): del sys.modules[m]
  ds = []
  for modname in ('pymtl3.passes.testcases.test_cases', 'pymtl3.passes.backends.verilog.testcases.test_cases'):
    try: mod = importlib.import_module(modname)
    except Exception: continue
    for n in sorted(dir(mod)):
      c = getattr(mod, n)
      if n.startswith('Case') and inspect.isclass(c) and hasattr(c, 'DUT') and getattr(c, '__module__', '') == modname:
        try:
          sig = inspect.signature(c.DUT.construct)
          if any(p.default is inspect._empty and p.kind in (p.POSITIONAL_ONLY, p.POSITIONAL_OR_KEYWORD) for k, p in list(sig.parameters.items())[1:]): continue
        except Exception: continue
        ds.append(Design(n, c.DUT, source=f'{modname}.{n}.DUT', kind='case'))
  return ds

# ---------------------------------------------------------------------- simulate / translate
def apply_limit(v, bound):
  """bound: an int (value taken modulo it) or a list of (lo, width, modulus): the bit field [lo, lo+width) is taken modulo"""
  if isinstance(bound, int): return v % bound
  for lo, w, mod in bound:
    f = (v >> lo) & ((1 << w) - 1)
    v = (v & ~(((1 << w) - 1) << lo)) | ((f % mod) << lo)
  return v

class Rejected(Exception):
  def __init__(s, stage, exc): s.stage, s.exc = stage, exc

def rand_value(r, w):
  x = r.random()
  if x < 0.6: return r.getrandbits(w)
  if x < 0.7: return 0
  if x < 0.8: return (1 << w) - 1
  if x < 0.9: return r.randrange(0, min(1 << w, 4))
  return ((1 << w) - 1) - r.randrange(0, min(1 << w, 4))

def simulate(d, seed, ncycles):
  """returns (ports, trace): ports = [(repr, is_input, chain, Type)], trace = [({repr: int}, {repr: int})] per cycle"""
  from pymtl3 import DefaultPassGroup, Bits
  try:
    top = d.factory(); top.elaborate()
  except Exception as e: raise Rejected('elaborate', e)
  try:
    top.apply(DefaultPassGroup())
  except Exception as e: raise Rejected('simpass', e)
  ports = [(repr(p), is_input(top, p), port_chain(top, p), p._dsl.Type) for p in top_ports(top)]
  r = random.Random(seed)
  env = {'s': top}
  setters = {}
  for rp, isin, ch, T in ports:
    if isin and rp != 's.clk': setters[rp] = compile(f'{rp} @= __v', '<drive>', 'exec')
  getters = {rp: compile(f'{rp}', '<read>', 'eval') for rp, isin, ch, T in ports if not isin}
  trace = []
  for c in range(ncycles):
    ins = {}
    for rp, isin, ch, T in ports:
      if not isin or rp == 's.clk': continue
      if rp == 's.reset': v = 1 if c < 2 else (1 if r.random() < 0.04 else 0)
      else: v = rand_value(r, T.nbits)
      for pat, bound in d.limits:
        if re.search(pat, rp): v = apply_limit(v, bound)
      ins[rp] = v
      env['__v'] = T.from_bits(Bits(T.nbits, v)) if hasattr(T, '__bitstruct_fields__') else Bits(T.nbits, v)
      exec(setters[rp], env)
    try:
      top.sim_eval_combinational()
      outs = {rp: int(eval(g, env).to_bits()) for rp, g in getters.items()}
      top.sim_tick()
    except Exception as e: raise Rejected('simulate', e)
    trace.append((ins, outs))
  return ports, trace

def translate(d, backend):
  """returns (text, top module name); backend in {'sv', 'yosys'}"""
  if backend == 'sv':
    from pymtl3.passes.backends.verilog import VerilogTranslationPass as P
  else:
    from pymtl3.passes.backends.yosys import YosysTranslationPass as P
  try:
    top = d.factory(); top.elaborate()
  except Exception as e: raise Rejected('elaborate', e)
  try:
    top.set_metadata(P.enable, True)
    top.apply(P())
    fn = top.get_metadata(P.translated_filename)
    text = open(fn).read()
    name = top.get_metadata(P.translated_top_module)
    os.remove(fn)
  except Exception as e: raise Rejected('translate', e)
  return text, name

# ---------------------------------------------------------------------- Coq terms
def value_coq(dims, entries, width_mask=None):
  """nested VA/VZ value from {index tuple: int}"""
  def go(prefix, ds):
    if not ds: return f'(VZ {zlit(entries.get(prefix, 0))})'
    return '(VA ' + coq_list([go(prefix + (i,), ds[1:]) for i in range(ds[0])]) + ')'
  return go((), list(dims))

class PortMapError(Exception): pass

def sv_port_values(f, mod, ports, vals, want_input):
  """group the per-port integers of one cycle by emitted variable (SystemVerilog backend naming)"""
  decl = {pn: (t, dims) for _, (pn, t, dims) in mod['ports']}
  groups = {}
  for rp, isin, ch, T in ports:
    if isin != want_input or rp == 's.clk': continue
    name, idx = sv_name(ch)
    if name not in decl: raise PortMapError(f'port {rp}: emitted module has no port {name}')
    t, dims = decl[name]
    if len(dims) != len(idx) or any(i >= d for i, d in zip(idx, dims)): raise PortMapError(f'port {rp}: emitted {name} has unpacked dims {dims}, index {idx}')
    if svparse.pwidth(t) != T.nbits: raise PortMapError(f'port {rp}: emitted {name} is {svparse.pwidth(t)} bits wide, the port has {T.nbits}')
    groups.setdefault(name, {})[idx] = vals[rp]
  return [(name, value_coq(decl[name][1], e)) for name, e in sorted(groups.items())]

def ys_port_values(f, mod, ports, vals, want_input):
  """Yosys backend: one emitted port per leaf; each carries the slice of the packed value given by leaf_ranges"""
  decl = {pn: (t, dims) for _, (pn, t, dims) in mod['ports']}
  out = []
  for rp, isin, ch, T in ports:
    if isin != want_input or rp == 's.clk': continue
    base = ys_name(ch)
    for path, lo, hi in leaf_ranges(shape_of(T)):
      name = base + leaf_suffix(path)
      if name not in decl: raise PortMapError(f'port {rp}: emitted module has no flattened port {name}')
      t, dims = decl[name]
      if dims or svparse.pwidth(t) != hi - lo: raise PortMapError(f'port {rp}: flattened port {name} is {svparse.pwidth(t)} bits {dims}, leaf has {hi - lo}')
      out.append((name, f'(VZ {zlit((vals[rp] >> lo) & ((1 << (hi - lo)) - 1))})'))
  return sorted(out)

def trace_coq(f, mod, ports, trace, backend):
  pv = sv_port_values if backend == 'sv' else ys_port_values
  cyc = []
  for ins, outs in trace:
    i = coq_list([f'({f.intern.id(n)}%positive, {v})' for n, v in pv(f, mod, ports, ins, True)])
    o = coq_list([f'({f.intern.id(n)}%positive, {v})' for n, v in pv(f, mod, ports, outs, False)])
    cyc.append(f'({i}, {o})')
  return coq_list(cyc)

def expected_port_names(f, mod, ports, backend):
  """names the emitted top module must declare as ports (besides clk), from the pymtl3 hierarchy alone"""
  names = set()
  for rp, isin, ch, T in ports:
    if backend == 'sv': names.add(sv_name(ch)[0])
    else:
      for path, lo, hi in leaf_ranges(shape_of(T)): names.add(ys_name(ch) + leaf_suffix(path))
  return names

SV_IMPORTS = 'Base.Prelude Struct.Shape Struct.Layout SV.SvSyntax SV.SvSizing SV.SvEval SV.SvDrivers'
SV_DEFS = '''
Definition all_mods_ok (chk : file -> module -> bool) (F : file) : bool := forallb (chk F) (f_modules F).
Definition case_ok (c : file * ident * list cyc) : bool :=
  let '(F, top, tr) := c in
  sv_wellformed F && agrees (simulate F top tr) && all_mods_ok sv_no_multi_driver F && all_mods_ok sv_all_driven F.
Definition why_wf (c : file * ident * list cyc) := let '(F, top, tr) := c in sv_wellformed F.
Definition why_sim (c : file * ident * list cyc) := let '(F, top, tr) := c in simulate F top tr.
Definition why_col (c : file * ident * list cyc) := let '(F, top, tr) := c in
   map (fun m => (m_name m, collisions (drivers F m))) (filter (fun m => negb (sv_no_multi_driver F m)) (f_modules F)).
Definition why_und (c : file * ident * list cyc) := let '(F, top, tr) := c in
   map (fun m => (m_name m, undriven F m)) (filter (fun m => negb (sv_all_driven F m)) (f_modules F)).
'''

def text_key(text):
  body = '\n'.join(l for l in text.splitlines() if not l.strip().startswith('//'))
  return hashlib.sha1(body.encode()).hexdigest()[:12]

def short_exc(e):
  return f'{type(e).__name__}: {str(e).strip()[:240]}'

# ---------------------------------------------------------------------- candidate defect F4: repair experiment
# A constant sub-expression is emitted unfolded with every operand narrowed to the width of the FOLDED value
# (2'( __const__n ) >> 2'd1 with n = 6).  To decide whether a disagreement is explained by that alone, the harness
# rebuilds the module with every such sub-expression replaced by the value pymtl3 itself computes (python ints),
# and lets Coq simulate the repaired text: agreement after the repair = the disagreement is of this class.
PYOPS = {'BAdd': lambda a, b: a + b, 'BSub': lambda a, b: a - b, 'BMul': lambda a, b: a * b, 'BShl': lambda a, b: a << b,
         'BShr': lambda a, b: a >> b, 'BAnd': lambda a, b: a & b, 'BOr': lambda a, b: a | b, 'BXor': lambda a, b: a ^ b,
         'BMod': lambda a, b: a % b}
OPSYM = {'BAdd': '+', 'BSub': '-', 'BMul': '*', 'BShl': '<<', 'BShr': '>>', 'BAnd': '&', 'BOr': '|', 'BXor': '^', 'BMod': '%', 'BDiv': '/'}

def param_values(mod):
  pv = {}
  for (n, t, dims), i in mod['params']:
    if not dims and t[0] == 'bits' and i[0] == 'expr' and i[1][0] in ('lit', 'num'):
      pv[n] = i[1][2] if i[1][0] == 'lit' else i[1][1]
  return pv

def const_tree(e, pv):
  """None, or (true value as python computes it, self-determined width, narrowed leaf?, ops, value SystemVerilog
  computes self-determined) for a constant sub-expression"""
  k = e[0]
  if k == 'lit': return (e[2], e[1], e[2] >= (1 << e[1]), [], e[2] % (1 << e[1]))
  if k == 'cast' and e[2][0] == 'id' and e[2][1] in pv: v = pv[e[2][1]]; return (v, e[1], v >= (1 << e[1]), [], v % (1 << e[1]))
  if k == 'cast' and e[2][0] == 'lit': v = e[2][2]; return (v, e[1], v >= (1 << e[1]), [], v % (1 << e[1]))
  if k == 'bin' and e[1] in PYOPS:
    a, b = const_tree(e[2], pv), const_tree(e[3], pv)
    if a is None or b is None: return None
    if e[1] in ('BShl', 'BShr') and not (0 <= b[0] < 4096 and 0 <= b[4] < 4096): return None
    if e[1] == 'BMod' and b[0] == 0: return None
    try: v = PYOPS[e[1]](a[0], b[0])
    except Exception: return None
    w = a[1] if e[1] in ('BShl', 'BShr') else max(a[1], b[1])
    svv = 0 if (e[1] == 'BMod' and b[4] == 0) else PYOPS[e[1]](a[4], b[4]) % (1 << w)
    return (v, w, a[2] or b[2], a[3] + b[3] + [OPSYM[e[1]]], svv)
  return None

def repair_expr(e, pv, hits):
  """replace every maximal constant operator tree whose self-determined SystemVerilog value differs from the python
  value by a literal holding the python value"""
  c = const_tree(e, pv)
  if c is not None and c[3]:
    if c[0] >= 0 and c[4] != c[0]:
      hits.append((c[3], e, c[0], 'narrowed' if c[2] else 'overflow'))
      return ('lit', max(c[1], c[0].bit_length(), 1), c[0])
    # a maximal constant tree whose SystemVerilog value already equals the python value is left alone as a whole:
    # folding one of its sub-trees only (e.g. the `1'(k) - 1'd1` inside `( 1'(k) - 1'd1 ) >> 1'd2`) would change it
    return e
  k = e[0]; R = lambda x: repair_expr(x, pv, hits)
  if k in ('member',): return (k, R(e[1]), e[2])
  if k == 'range': return (k, R(e[1]), e[2], e[3])
  if k == 'index': return (k, R(e[1]), R(e[2]))
  if k == 'plus': return (k, R(e[1]), R(e[2]), e[3])
  if k == 'concat': return (k, [R(x) for x in e[1]])
  if k in ('repl', 'un', 'cast'): return (k, e[1], R(e[2]))
  if k == 'bin': return (k, e[1], R(e[2]), R(e[3]))
  if k == 'cond': return (k, R(e[1]), R(e[2]), R(e[3]))
  return e

def repair_stmt(st, pv, hits):
  R = lambda x: repair_expr(x, pv, hits)
  if st[0] in ('blk', 'nb'): return (st[0], R(st[1]), R(st[2]))
  if st[0] == 'if': return ('if', R(st[1]), [repair_stmt(x, pv, hits) for x in st[2]], [repair_stmt(x, pv, hits) for x in st[3]])
  _, v, init, cmp, bound, inc, step, body = st
  return ('for', v, R(init), cmp, R(bound), inc, R(step), [repair_stmt(x, pv, hits) for x in body])

def repair_file(f):
  """returns (hits, restore): modules of f are replaced IN PLACE by their repaired version; restore() undoes it"""
  saved = [dict(m) for m in f.modules]
  hits = []
  for m in f.modules:
    pv = param_values(m)
    items = []
    for it in m['items']:
      if it[0] == 'assign': items.append(('assign', repair_expr(it[1], pv, hits), repair_expr(it[2], pv, hits)))
      elif it[0] in ('comb', 'ff'): items.append((it[0], it[1], [repair_stmt(x, pv, hits) for x in it[2]]))
      else: items.append((it[0], it[1], it[2], [(p, repair_expr(e, pv, hits)) for p, e in it[3]]))
    m['items'] = items
  def restore():
    for m, sv_ in zip(f.modules, saved): m['items'] = sv_['items']
  return hits, restore

def expr_text(e):
  k = e[0]; T = expr_text
  if k == 'lit': return f"{e[1]}'d{e[2]}"
  if k == 'num': return str(e[1])
  if k == 'id': return e[1]
  if k == 'member': return f'{T(e[1])}.{e[2]}'
  if k == 'index': return f'{T(e[1])}[{T(e[2])}]'
  if k == 'range': return f'{T(e[1])}[{e[2]}:{e[3]}]'
  if k == 'plus': return f'{T(e[1])}[{T(e[2])} +: {e[3]}]'
  if k == 'concat': return '{ ' + ', '.join(T(x) for x in e[1]) + ' }'
  if k == 'repl': return f'{{ {e[1]} {{ {T(e[2])} }} }}'
  if k == 'un': return {'UNot': '~', 'UNeg': '-', 'UPlus': '+', 'URedAnd': '&', 'URedOr': '|', 'URedXor': '^', 'ULogNot': '!'}[e[1]] + '( ' + T(e[2]) + ' )'
  if k == 'bin': return f'( {T(e[2])} {OPSYM.get(e[1], e[1])} {T(e[3])} )'
  if k == 'cond': return f'( {T(e[1])} ? {T(e[2])} : {T(e[3])} )'
  if k == 'cast': return f"{e[1]}'( {T(e[2])} )"
  return '?'

# ---------------------------------------------------------------------- repair: sext of an indexed multi-bit element
# visit_SignExt treats EVERY Index node as a one-bit select: sext( s.in_[1], 8 ) with 4-bit elements is emitted as
# { { 4 { in_[1] } }, in_[1] } (the whole element replicated) instead of { { 4 { in_[1][3] } }, in_[1] }.
def py_type_of(mod, e):
  """python mirror of SvSizing.type_of for select chains: (ptype, dims) or None"""
  k = e[0]
  if k == 'id':
    for _, (n, t, dims) in mod['ports']:
      if n == e[1]: return t, list(dims)
    for (n, t, dims) in mod['decls'] + [p for p, _ in mod['params']]:
      if n == e[1]: return t, list(dims)
    return None
  if k == 'member':
    r = py_type_of(mod, e[1])
    if r and not r[1] and r[0][0] == 'struct':
      for fn, ft in r[0][1]:
        if fn == e[2]: return ft, []
    return None
  if k == 'index':
    r = py_type_of(mod, e[1])
    if not r: return None
    if r[1]: return r[0], r[1][1:]
    if r[0][0] == 'arr': return r[0][2], []
    return ('bits', 1), []
  if k == 'range': return ('bits', e[2] - e[3] + 1), []
  if k == 'plus': return ('bits', e[3]), []
  return None

def repair_sext_element(f):
  """in place; returns the number of rewritten sign extensions"""
  count = [0]
  def fix(mod, e):
    k = e[0]; R = lambda x: fix(mod, x)
    if k == 'concat' and len(e[1]) == 2 and e[1][0][0] == 'repl' and e[1][0][2] == e[1][1] and e[1][1][0] == 'index':
      t = py_type_of(mod, e[1][1])
      if t and not t[1] and svparse.pwidth(t[0]) > 1:
        w = svparse.pwidth(t[0]); count[0] += 1
        x = e[1][1]
        return ('concat', [('repl', e[1][0][1], ('range', x, w - 1, w - 1)), x])
    if k == 'member': return (k, R(e[1]), e[2])
    if k == 'range': return (k, R(e[1]), e[2], e[3])
    if k == 'index': return (k, R(e[1]), R(e[2]))
    if k == 'plus': return (k, R(e[1]), R(e[2]), e[3])
    if k == 'concat': return (k, [R(x) for x in e[1]])
    if k in ('repl', 'un', 'cast'): return (k, e[1], R(e[2]))
    if k == 'bin': return (k, e[1], R(e[2]), R(e[3]))
    if k == 'cond': return (k, R(e[1]), R(e[2]), R(e[3]))
    return e
  def st(mod, x):
    if x[0] in ('blk', 'nb'): return (x[0], fix(mod, x[1]), fix(mod, x[2]))
    if x[0] == 'if': return ('if', fix(mod, x[1]), [st(mod, y) for y in x[2]], [st(mod, y) for y in x[3]])
    return ('for', x[1], fix(mod, x[2]), x[3], fix(mod, x[4]), x[5], fix(mod, x[6]), [st(mod, y) for y in x[7]])
  for m in f.modules:
    items = []
    for it in m['items']:
      if it[0] == 'assign': items.append(('assign', fix(m, it[1]), fix(m, it[2])))
      elif it[0] in ('comb', 'ff'): items.append((it[0], it[1], [st(m, y) for y in it[2]]))
      else: items.append((it[0], it[1], it[2], [(p, fix(m, e)) for p, e in it[3]]))
    m['items'] = items
  return count[0]

# ---------------------------------------------------------------------- signature: downward loop whose unsigned counter wraps
def wrapping_loops(f):
  """for ( int unsigned i = a; i > b; i -= s ) whose counter passes below zero before the condition fails: `int unsigned`
  wraps to 2^32 - k, the condition stays true and the loop does not stop where range(a, b, -s) stops"""
  hits = []
  P = svparse.Parser('')
  def st(x, mname):
    if x[0] == 'if':
      for y in x[2] + x[3]: st(y, mname)
    elif x[0] == 'for':
      _, v, init, cmp, bound, inc, step, body = x
      P.cur = {'params': []}
      a, b, c = P.fold(init), P.fold(bound), P.fold(step)
      if inc == 'BSub' and None not in (a, b, c) and c > 0 and cmp in ('BGt', 'BGe'):
        val, n = a, 0
        while (val > b if cmp == 'BGt' else val >= b) and n < 100000:
          val -= c; n += 1
          if val < 0: hits.append((mname, v, a, b, c)); break
      for y in body: st(y, mname)
  for m in f.modules:
    for it in m['items']:
      if it[0] in ('comb', 'ff'):
        for y in it[2]: st(y, m['name'])
  return hits

# ---------------------------------------------------------------------- signature: constant index outside the declared range
def oob_constant_indices(f):
  """python mirror of SvEval.const_idx_in_range (Coq decides well-formedness; this only names the cause for the key):
  [(module, text of the select, index, declared size)]"""
  hits = []
  for m in f.modules:
    def visit(e):
      if e[0] == 'index' and e[2][0] in ('lit', 'num'):
        v = e[2][2] % (1 << e[2][1]) if e[2][0] == 'lit' else e[2][1]
        t = py_type_of(m, e[1])
        if t is None: return
        size = t[1][0] if t[1] else (t[0][1] if t[0][0] == 'arr' else svparse.pwidth(t[0]))
        if not (0 <= v < size): hits.append((m['name'], expr_text(e), v, size))
    for e in svparse.module_exprs(m): svparse.walk_exprs(e, visit)
  return hits

# ---------------------------------------------------------------------- the flat port map the Yosys translator reports
def pname_of(chain, path=()):
  """the spelling gen_mapped_ports uses for a leaf: bank[0].lane[1].msg.f0[2].x"""
  t = '.'.join(n + ''.join(f'[{i}]' for i in ix) for n, ix in chain)
  return t + ''.join(('.' + s_[2]) if s_[0] == 'f' else f'[{s_[1]}]' for s_ in path)

def probe_range(T, path):
  """bit range of the leaf at `path` inside T.to_bits(), found by setting that leaf to all ones (independent of leaf_ranges)"""
  from pymtl3 import Bits
  inst = T()
  holder, key, cur = None, None, inst
  for st in path:
    holder, key = cur, (st[2] if st[0] == 'f' else st[1])
    cur = getattr(cur, key) if st[0] == 'f' else cur[key]
  ones = Bits(cur.nbits, (1 << cur.nbits) - 1)
  if isinstance(holder, list): holder[key] = ones
  else: setattr(holder, key, ones)
  v = int(inst.to_bits())
  lo = (v & -v).bit_length() - 1
  return lo, v.bit_length()

def check_flat_port_map(top, ports, mod):
  """compare utility.gen_mapped_ports(top) -- the flat port map handed to the import pass -- with the ports of the emitted
  module and with the to_bits() bit range of every leaf.  returns [(class, message)]"""
  from pymtl3.passes.backends.yosys.util.utility import gen_mapped_ports
  from pymtl3.passes.rtlir import RTLIRDataType as rdt
  problems = []
  entries = gen_mapped_ports(top, {})
  modports = {pn: (dr, svparse.pwidth(t), dims) for dr, (pn, t, dims) in mod['ports']}
  seen = set()
  rep = {}
  for pnames, vname, rtype, _ in entries:
    pname = pnames[0]
    dt = rtype.get_dtype()
    rep[pname] = vname
    if not isinstance(dt, rdt.Vector):
      problems.append(('entry-not-a-leaf', f'map entry {pname} -> {vname} has data type {dt}, not a vector')); continue
    if vname not in modports:
      problems.append(('entry-not-a-port', f'map entry {pname} -> {vname}: the emitted module has no port {vname}')); continue
    if vname in seen: problems.append(('duplicate-entry', f'port {vname} is mapped twice'))
    seen.add(vname)
    dr, w, dims = modports[vname]
    if dims or w != dt.get_length(): problems.append(('width', f'map entry {pname} -> {vname} is {dt.get_length()} bits, the emitted port has {w} bits {dims}'))
    if dr != rtype.get_direction(): problems.append(('direction', f'map entry {pname} -> {vname} is {rtype.get_direction()}, the emitted port is {dr}'))
  for pn in modports:
    if pn not in seen and pn not in ('clk',) and not any(v == pn for v in rep.values()):
      problems.append(('port-not-mapped', f'emitted port {pn} does not occur in the flat port map'))
  # every leaf of every port of the component, with the bit range it has in to_bits()
  for rp, isin, ch, T in ports:
    sh = shape_of(T)
    for path, lo, hi in leaf_ranges(sh):
      pname = pname_of(ch, path); want = ys_name(ch) + leaf_suffix(path)
      if path:
        plo, phi = probe_range(T, path)
        if (plo, phi) != (lo, hi): problems.append(('bit-range', f'leaf {pname}: to_bits() places it at [{plo},{phi}), the layout says [{lo},{hi})'))
      if pname not in rep: problems.append(('leaf-not-mapped', f'leaf {pname} of port {rp} has no entry in the flat port map'))
      elif rep[pname] != want: problems.append(('leaf-name', f'leaf {pname} is mapped to {rep[pname]}, expected {want}'))
  return problems
