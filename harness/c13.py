"""C13 — translation is deterministic and module names never alias different hardware.

theorems (Props/C13.v; models SV/Modules.v, proofs SV/ModulesProofs.v):
  C13_full_name_injective                 "components that differ in class [or] parameters ... never collide on a module name":
                                          the name function cls + ("__" + name + "_" + value)* / "_noparam" is injective on
                                          (class name, parameters) PROVIDED names have no "__"/trailing "_" and rendered values
                                          are non-empty and contain no "_"
  C13_same_class_different_parameters     one class (same parameter names): values without "__"/trailing "_" suffice
  C13_full_name_collision_refuted / _weak_proviso / _same_class    without the provisos the name function collides (witnesses;
                                          the proviso written in DESIGN.md §4 C13 was too weak: a="b_c" vs a_b="c")
  C13_unique_name_injective               the same after the hashing branch, for any digest oracle injective on the observed
                                          parameter strings (blake2b itself is NOT modelled: trusted oracle)
  C13_accepted_output_is_well_formed      modules_ok tbl = true -> "every module is defined exactly once, every instantiated
                                          module name is defined, identifiers are legal and unique within their scope"
  C13_shared_definition_only_if_same_body sharing_ok = true -> "two component instances share a module definition only if their
                                          translated bodies are identical"
  C13_first_wins_order_independent_iff_functional   the components[name] dictionary gives the same map in every traversal order
                                          iff name -> body is functional on the instance set
  C13_order_canonical                     name-sorted + construction-ordered layout is independent of set/dict iteration order
                                          (assumes: permutation of the same elements, distinct names, same ordered part)
tie (T-acc + T-diff), every run:
  (a) the emitted SystemVerilog of generated hierarchies is parsed (tolerant tokenizer below, fail-closed on unknown module
      items) into the module table and modules_ok / sharing_ok are evaluated INSIDE Coq on it;
  (b) every instance is also translated ALONE and its body compared (by Coq, on interned body ids) with the shared definition;
  (c) the observed module name of every instance is compared (inside Coq) with unique_name applied to the harness's own rendering
      of the parameters and the harness's own blake2b digests;
  (d) hierarchies contain component lists (also nested lists) whose elements are built with DIFFERENT arguments; (b) is applied to
      every element with the module name ACTUALLY instantiated for it in the parent's text (whatever its own name is), and a
      module that is emitted but instantiated nowhere is reported;
  (f) parameter kinds include bitstruct CLASSES that share a name but differ in fields (mk_bitstruct with equal names, factory-made
      classes, nested), lists/tuples of types, and construct() arguments supplied through set_param (single instances, list
      elements, with and without defaults).  The name model and the sharing check use the EFFECTIVE arguments: every generated
      class records what construct() really received, and "alone" = the same instance of a second, identically built hierarchy
      (same arguments, same set_param calls) translated as a translation top.  All designs import ONE library module.
  (g) VerilogPlaceholder components (external .v sources written to the scratch dir; with params / port_map) appear as children,
      in lists, below children and as translation tops, with and without explicit_module_name (also on ordinary instances whose
      definition nobody shares).  The parser evaluates the `ifndef guards of the pickled wrappers, so "defined exactly once"
      is judged on the preprocessed text.  For every design ONE VerilogTranslationPass run with several separately enabled
      sub-trees (placeholder tops before and after ordinary ones) is compared file by file with each sub-tree translated alone
      (in-process with a fresh pass object, and first-thing in fresh worker processes); every emitted file goes through
      modules_ok and the name -> body map of the whole file set through functional_b, both evaluated in Coq.
  (h) struct families that differ ONLY in the shape of a list field (scalar, [T]*1, 4, 1x4, 4x1, 1x1, 6, 2x3, 3x2) are port types
      and type parameters; a module body is compared TOGETHER with the typedefs it (transitively) refers to, and typedef names
      take part in the name -> body map of emitted file sets.  After all sub-trees of a design were translated one after the
      other as separate tops into one directory, every recorded translated_filename must still hold the text written for it.
  (i) LONG parameter renderings (lists / tuples of 100-300 ints, nested lists, 1200-character strings; always the hashing branch)
      whose instances differ at the beginning / the middle / only in the last element, and string pairs that differ only beyond
      64 / 128 / 256 / 512 / 1024 characters: judged by sharing_ok and by the name model with the harness's own blake2b digests.
  (e) IEEE 1800-2017 keywords name EVERY declaration shape of a small design (scalar / 1-D / 2-D lists of ports and wires,
      struct-typed signals and lists of them, interfaces, lists of interfaces and interface members, sub-components and lists
      of them, ports and port lists of sub-components, struct fields, struct names, block names, temporaries, free variables,
      loop variables), used only in connections or touched by an update block: the design is rejected by the translator or its
      table must pass idents_legal_b in Coq.  thorough: the complete keyword x shape product; quick: complete list for scalar
      ports and block names, every other shape x (a rotating twelfth of the list + 15 common keywords); every shape also
      with a legal control name (must translate).  Block-level kinds (loop variable, temporary, free variable, signal read)
      are placed at every nesting position: top level, under if / elif / else, inside another for, for-in-if, if-in-for, if-in-if.  The 27 keywords pymtl3's table never had are a
      fixed list in this file (not read from the implementation).
NOT proof — differential testing only: "Translating the same design any number of times, in fresh processes with different hash
  seeds, produces byte-identical text" is checked by byte-comparing the output of fresh subprocesses under 4 PYTHONHASHSEEDs
  (+ the in-process run under seed 0, + a second translation in the same process).  CPython's hashing / allocation is not modelled.
partial / unmodelled: the translator itself (which text goes into a body) is not modelled — the acceptor decides each observed
  output; placeholder/explicit_module_name configurations and the Yosys backend are not exercised.
"""
from common import *
import sched_common as sc
import hashlib, inspect, textwrap

# ====================================================================== tolerant parser of the emitted SystemVerilog
class ParseError(Exception): pass

TOK = re.compile(r"[A-Za-z_][A-Za-z0-9_$]*|@B|@E|\d+'[sS]?[bBdDhHoO][0-9a-fA-F_xXzZ?]+|\d+|'\{|<<=|>>=|<=|>=|==|!=|<<|>>|&&|\|\||\+=|-=|\S")
ID = re.compile(r'[A-Za-z_][A-Za-z0-9_$]*\Z')

def preprocess(text):
  """the conditional-compilation subset the translator and the pickled placeholder wrappers use: `ifndef/`ifdef/`else/`endif,
  `define of guard macros, `line.  Text in inactive regions is dropped (a guarded second copy of a module is NOT a second
  definition).  Anything else that starts with a backtick fails closed."""
  defined, stack, out = set(), [], []
  for line in text.split('\n'):
    t = line.strip()
    if t.startswith('`'):
      w = re.sub(r'/\*.*?\*/', '', t).split('//')[0].split()
      d = w[0]
      if d in ('`ifndef', '`ifdef'):
        if len(w) < 2: raise ParseError(f'directive without macro name: {t!r}')
        stack.append((w[1] in defined) == (d == '`ifdef'))
      elif d == '`else':
        if not stack: raise ParseError('`else without `ifdef')
        stack[-1] = not stack[-1]
      elif d == '`endif':
        if not stack: raise ParseError('`endif without `ifdef')
        stack.pop()
      elif d == '`define':
        if all(stack):
          if len(w) < 2: raise ParseError(f'directive without macro name: {t!r}')
          defined.add(w[1])
      elif d == '`line': pass
      else: raise ParseError(f'unsupported compiler directive {t[:60]!r}')
      out.append(''); continue
    out.append(line if all(stack) else '')
  if stack: raise ParseError('unterminated `ifdef')
  return '\n'.join(out)

def strip_comments(text):
  out = []
  for line in preprocess(text).split('\n'):
    m = re.match(r'\s*// Component (\S.*)$', line)
    if m and not line.startswith('// '): out.append(' @B '); continue       # markers around sub-component declarations
    m = re.match(r'\s*// End of component (\S.*)$', line)
    if m and not line.startswith('// '): out.append(' @E '); continue
    i = line.find('//')
    out.append(line if i < 0 else line[:i])
  return '\n'.join(out)

def tokens(text):
  return [(m.group(0), m.start(), m.end()) for m in TOK.finditer(text)]

def last_name(words_text):
  """name declared by `<type...> name [unpacked dims]`"""
  t = re.sub(r'(\s*\[[^\]]*\])+\s*$', '', words_text.strip())
  w = t.split()
  if not w: raise ParseError(f'no name in declaration {words_text!r}')
  return w[-1]

def parse_sv(text):
  """-> dict(types=[(name,[fields])], mods=[dict(name, body, insts=[(modname, instname)], decls=[(name, category)], loops=[...])])"""
  src = strip_comments(text)
  types, mods, tbody = [], [], {}
  pos = 0
  item = re.compile(r'typedef\s+struct\s+packed\s*\{(?P<f>.*?)\}\s*(?P<tn>[^;]*?)\s*;|^module[ \t]+(?P<mn>[^\n]*?)[ \t]*\n(?:#\((?P<par>[^\n]*)\)[ \t]*\n)?\((?P<ports>.*?)\n\);(?P<body>.*?)\nendmodule[ \t]*$', re.S | re.M)
  for m in item.finditer(src):
    gap = src[pos:m.start()].strip()
    if gap: raise ParseError(f'unrecognised text between items: {gap[:80]!r}')
    pos = m.end()
    if m.group('f') is not None:
      fields = [last_name(d) for d in m.group('f').split(';') if d.strip()]
      types.append((m.group('tn'), fields))
      tbody.setdefault(m.group('tn'), []).append(' '.join(t[0] for t in tokens(m.group('f'))))
      continue
    decls, insts, loops = [], [], []
    for pd in (m.group('par') or '').split(','):
      if pd.strip():
        pm_ = re.match(r'\s*parameter\b(.*?)=', pd)
        if not pm_: raise ParseError(f'unrecognised module parameter {pd.strip()!r}')
        decls.append((last_name(pm_.group(1)), 'param'))
    for pl in m.group('ports').split('\n'):
      pl = pl.strip().rstrip(',').strip()
      if not pl: continue
      if not re.match(r'(input|output|inout)\b', pl): raise ParseError(f'unrecognised port line {pl!r}')
      decls.append((last_name(pl), 'signal'))
    body = m.group('body')
    tk = tokens(body)
    i, n, insub = 0, len(tk), False
    def until_semi(j):
      depth = 0
      while j < n:
        t = tk[j][0]
        if t in '([{' or t == "'{": depth += 1
        elif t in ')]}': depth -= 1
        elif t == ';' and depth == 0: return j
        j += 1
      raise ParseError('statement without terminating ;')
    while i < n:
      t = tk[i][0]
      if t == '@B': insub = True; i += 1; continue
      if t == '@E': insub = False; i += 1; continue
      if t == 'localparam':
        j = until_semi(i); depth = 0; eq = None
        for k in range(i, j):
          x = tk[k][0]
          if x in '([{' or x == "'{": depth += 1
          elif x in ')]}': depth -= 1
          elif x == '=' and depth == 0: eq = k; break
        if eq is None: raise ParseError('localparam without =')
        decls.append((last_name(body[tk[i][2]:tk[eq][1]]), 'param')); i = j + 1; continue
      if t == 'logic':
        j = until_semi(i)
        nm = last_name(body[tk[i][2]:tk[j][1]])
        cat = 'subcomp-port-wire' if insub else ('tmpvar' if nm.startswith('__tmpvar__') else 'signal')
        decls.append((nm, cat)); i = j + 1; continue
      if t == 'assign':
        i = until_semi(i) + 1; continue
      if t in ('always_comb', 'always_ff', 'always_latch', 'always', 'initial'):
        j = i
        while j < n and tk[j][0] != 'begin': j += 1
        if j >= n: raise ParseError('always block without begin')
        depth = 0
        while j < n:
          x = tk[j][0]
          if x == 'begin':
            depth += 1
            if j + 2 < n and tk[j + 1][0] == ':':
              decls.append((tk[j + 2][0], 'block-label')) if depth == 1 else loops.append([tk[j + 2][0]])
          elif x == 'end':
            depth -= 1
            if depth == 0: break
          elif x == 'for' and j + 1 < n and tk[j + 1][0] == '(':
            k = j + 2; ws = []
            while k < n and tk[k][0] != '=' and tk[k][0] != ';': ws.append(tk[k][0]); k += 1
            if len(ws) >= 2: loops.append([ws[-1]])           # for ( int unsigned i = ...
          j += 1
        if depth != 0: raise ParseError('unbalanced begin/end')
        i = j + 1; continue
      # instance  `<module name> <instance name> ( .port( wire ), ... );`   or   `<struct type> <name> [dims];`
      j = until_semi(i)
      if i + 2 < j and tk[i + 1][0] == '#' and tk[i + 2][0] == '(':
        # `<module> #( .p( v ), ... ) <instance> ( ... );`
        k, depth = i + 2, 0
        while k < j:
          if tk[k][0] == '(': depth += 1
          elif tk[k][0] == ')':
            depth -= 1
            if depth == 0: break
          k += 1
        if k + 2 >= j or tk[k + 2][0] != '(': raise ParseError(f'unrecognised parametrised instance {body[tk[i][1]:tk[j][2]][:80]!r}')
        insts.append((tk[i][0], tk[k + 1][0])); decls.append((tk[k + 1][0], 'instance'))
        i = j + 1; continue
      par = next((k for k in range(i, j) if tk[k][0] == '('), None)
      if par is not None:
        head = body[tk[i][1]:tk[par][1]].split()
        if len(head) < 2: raise ParseError(f'unrecognised module item {body[tk[i][1]:tk[j][2]][:80]!r}')
        insts.append((' '.join(head[:-1]), head[-1])); decls.append((head[-1], 'instance'))
      else:
        stmt = body[tk[i][1]:tk[j][1]]
        if len(stmt.split()) < 2 or any(x[0] in ('=', '<=') for x in tk[i:j]):
          raise ParseError(f'unrecognised module item {stmt[:80]!r}')
        decls.append((last_name(stmt), 'subcomp-port-wire' if insub else 'signal'))
      i = j + 1
    btxt = ' '.join(t[0] for t in tokens((m.group('par') or '') + ' ;; ' + m.group('ports'))) + ' ;; ' + ' '.join(t[0] for t in tk if t[0] not in ('@B', '@E'))
    mods.append({'name': m.group('mn'), 'body': btxt, 'insts': insts, 'decls': decls, 'loops': loops})
  if src[pos:].strip(): raise ParseError(f'unrecognised trailing text {src[pos:].strip()[:80]!r}')
  if not mods: raise ParseError('no module found')
  # a module body names the struct types it uses; what the module IS includes their definitions: the body text is extended by
  # the (transitive) typedefs it refers to, so "same module name => same body" also means "same typedef name => same layout"
  def closure_of(text, seen):
    out = []
    for w in dict.fromkeys(re.findall(r'[A-Za-z_][A-Za-z0-9_$]*', text)):
      if w in tbody and w not in seen:
        seen.add(w); out.append(f'typedef {w} {{ {tbody[w][0]} }}'); out += closure_of(tbody[w][0], seen)
    return out
  for md in mods:
    cl = closure_of(md['body'], set())
    if cl: md['body'] += ' ## ' + ' ; '.join(sorted(cl))
  return {'types': types, 'mods': mods, 'typebody': tbody}

# ====================================================================== Coq terms
def cstr(x):
  if all(32 <= ord(c) < 127 for c in x):
    return '(lit "' + x.replace('"', '""') + '")'
  return '(bytes [' + '; '.join(f'{b}%N' for b in x.encode('utf-8', 'replace')) + '])'

COQ_DEFS = 'From Coq Require Import Ascii String.\nDefinition bytes (l : list N) : str := map ascii_of_N l.\n'

class Interner:
  def __init__(s): s.d = {}
  def __call__(s, txt): return s.d.setdefault(txt, len(s.d) + 1)

def table_term(tbl, intern):
  ty = coq_list([f'({cstr(n)}, {coq_list([cstr(f) for f in fs])})' for n, fs in tbl['types']])
  ms = []
  for m in tbl['mods']:
    scopes = [coq_list([cstr(d) for d, _ in m['decls']])] + [coq_list([cstr(x) for x in l]) for l in m['loops']]
    ms.append(f"(mkMod {cstr(m['name'])} {intern(m['body'])} {coq_list([cstr(a) for a, _ in m['insts']])} {coq_list(scopes)})")
  return f'(mkTable {ty} {coq_list(ms)})'

# ====================================================================== harness-side reference data (independent of pymtl3's passes)
RESERVED_PYMTL = None
def first_chars_ok(x): return bool(ID.match(x))

def render_struct(T):
  from pymtl3.datatypes import is_bitstruct_class
  def fld(t):
    if isinstance(t, list):
      dims = []
      while isinstance(t, list): dims.append(len(t)); t = t[0]
      return fld(t) + 'x' + 'x'.join(map(str, dims))
    if is_bitstruct_class(t): return render_struct(t)
    return str(t.nbits)
  return T.__name__ + ''.join(f'__{k}_{fld(t)}' for k, t in T.__bitstruct_fields__.items())

def render_value(v):
  from pymtl3.datatypes import is_bitstruct_class
  if isinstance(v, type):
    return render_struct(v) if is_bitstruct_class(v) else v.__name__
  return str(v)

def params_of(m):
  """(arg name, value) list of a component instance — from the construct() signature and the supplied arguments"""
  sig = inspect.signature(type(m).construct)
  names = list(sig.parameters)[1:]
  ba = sig.bind(m, *m._dsl.args, **m._dsl.kwargs); ba.apply_defaults()
  return [(k, ba.arguments[k]) for k in names]

def digest(pstr):
  return hashlib.blake2b(pstr.encode('ascii'), digest_size=8).hexdigest()

# ====================================================================== design generator
PRELUDE = '''
from pymtl3 import *
import inspect as _insp, os as _os
from pymtl3.passes.backends.verilog import VerilogPlaceholder, VerilogPlaceholderPass, VerilogTranslationPass
_HERE = _os.path.dirname( _os.path.abspath( __file__ ) )
def eff_record( d ):
  # what construct() REALLY received (positional, keyword, default or set_param), in signature order
  return [ ( k, d[k] ) for k in list( _insp.signature( type( d['s'] ).construct ).parameters )[1:] ]
# same-named bitstruct classes with different fields: mk_bitstruct with equal names, classes made by a factory, nested
def mk_msg( n ):
  return mk_bitstruct( "Msg", { 'tag': Bits4, 'data': mk_bits( n ) } )
def mk_pkt( n ):
  @bitstruct
  class Pkt:
    hdr: Bits4
    pay: mk_bits( n )
  return Pkt
def mk_wrap( n ):
  return mk_bitstruct( "Wrap", { 'm': mk_msg( n ), 'c': Bits4 } )
def mk_tile( *shape ):
  t = Bits8
  for n in reversed( shape ): t = [ t ] * n
  return mk_bitstruct( "Tile", { 'px': t, 'last': Bits1 } )
# one factory, same class and field names; the types differ ONLY in the shape of the list field
TL_0, TL_1, TL_4, TL_1x4, TL_4x1, TL_6, TL_2x3, TL_3x2, TL_1x1 = mk_tile(), mk_tile( 1 ), mk_tile( 4 ), mk_tile( 1, 4 ), mk_tile( 4, 1 ), mk_tile( 6 ), mk_tile( 2, 3 ), mk_tile( 3, 2 ), mk_tile( 1, 1 )
M8, M16, P8, P16, W8, W16 = mk_msg( 8 ), mk_msg( 16 ), mk_pkt( 8 ), mk_pkt( 16 ), mk_wrap( 8 ), mk_wrap( 16 )
@bitstruct
class Pt:
  a: Bits8
  b: Bits4
@bitstruct
class Outer:
  p: Pt
  c: Bits4
class VR( Interface ):
  def construct( s, T ):
    s.msg = InPort( T ); s.val = InPort(); s.rdy = OutPort()
def fac_add():
  class Leaf( Component ):
    def construct( s, nbits ):
      s._c13_args = eff_record( locals() )
      s.in_ = InPort( nbits ); s.out = OutPort( nbits )
      @update
      def up():
        s.out @= s.in_ + 1
  return Leaf
def fac_sub():
  class Leaf( Component ):
    def construct( s, nbits ):
      s._c13_args = eff_record( locals() )
      s.in_ = InPort( nbits ); s.out = OutPort( nbits )
      @update
      def up():
        s.out @= s.in_ - 1
  return Leaf
def fac_k( k ):
  class Leaf( Component ):
    def construct( s, nbits ):
      s._c13_args = eff_record( locals() )
      s.in_ = InPort( nbits ); s.out = OutPort( nbits )
      @update
      def up():
        s.out @= s.in_ ^ k
  return Leaf
def fac_ff():
  class Leaf( Component ):
    def construct( s, nbits ):
      s._c13_args = eff_record( locals() )
      s.in_ = InPort( nbits ); s.out = OutPort( nbits )
      @update_ff
      def up():
        s.out <<= s.in_
  return Leaf
def fac_port():
  class Leaf( Component ):
    def construct( s, nbits ):
      s._c13_args = eff_record( locals() )
      s.in_ = InPort( nbits ); s.out = OutPort( nbits ); s.en = InPort()
      @update
      def up():
        s.out @= s.in_ & sext( s.en, nbits )
  return Leaf
LeafShared = fac_add()
class Par( Component ):
  def construct( s, T, n=1, tag='t', opt=None ):
    s._c13_args = eff_record( locals() )
    s.in_ = InPort( T ); s.out = OutPort( T )
    s.ws = [ Wire( T ) for _ in range( n ) ]
    @update
    def up_par():
      s.ws[0] @= s.in_
      for i in range( n-1 ):
        s.ws[i+1] @= s.ws[i]
      s.out @= s.ws[n-1]
class Multi( Component ):
  def construct( s, Ts ):
    s._c13_args = eff_record( locals() )
    s.in0 = InPort( Ts[0] ); s.in1 = InPort( Ts[1] ); s.out0 = OutPort( Ts[0] ); s.out1 = OutPort( Ts[1] )
    @update
    def up_multi():
      s.out0 @= s.in0
      s.out1 @= s.in1
class Inc2( Component ):
  def construct( s, nbits=8, amount=1 ):
    s._c13_args = eff_record( locals() )
    s.in_ = InPort( nbits ); s.out = OutPort( nbits )
    @update
    def up_inc2():
      s.out @= s.in_ + amount
class Need( Component ):
  def construct( s, amount ):
    s._c13_args = eff_record( locals() )
    s.in_ = InPort( 8 ); s.out = OutPort( 8 )
    @update
    def up_need():
      s.out @= s.in_ + amount
class Box2( Component ):
  def construct( s, k=0 ):
    s._c13_args = eff_record( locals() )
    s.in_ = InPort( 8 ); s.out = OutPort( 8 )
    s.y = Inc2(); s.z = [ Inc2() for _ in range(2) ]
    s.y.in_ //= s.in_
    for z in s.z: z.in_ //= s.in_
    @update
    def up_box2():
      s.out @= s.y.out ^ s.z[0].out ^ s.z[1].out
class Wide( Component ):
  def construct( s, a0=0, a1=1, a2=2, a3=3, a4=4, a5=5, a6=6, a7=7, a8=8, a9=9 ):
    s._c13_args = eff_record( locals() )
    s.in_ = InPort( 8 ); s.out = OutPort( 8 )
    @update
    def up():
      s.out @= s.in_ + a0 + a9
class Sel( Component ):
  def construct( s, op, tag='t' ):
    s._c13_args = eff_record( locals() )
    s.in_ = InPort( 8 ); s.out = OutPort( 8 )
    if op == 'add':
      @update
      def up_add():
        s.out @= s.in_ + 1
    else:
      @update
      def up_other():
        s.out @= s.in_ - 1
class Off( Component ):
  def construct( s, nbits, off=-1 ):
    s._c13_args = eff_record( locals() )
    s.in_ = InPort( nbits ); s.out = OutPort( nbits )
    if off < 0:
      @update
      def up_neg():
        s.out @= s.in_ - 1
    else:
      @update
      def up_pos():
        s.out @= s.in_ + off
def some_function(): pass
# LONG parameter renderings (always through the hashing branch): the behaviour depends on EVERY character of the rendering
def var_at( v, i, new ):
  # a copy of the list / tuple / string v that differs from v only at position i
  i %= len( v )
  return v[:i] + ( new if isinstance( v, str ) else type( v )( [ new ] ) ) + v[i+1:]
LONG_L = [ ( 7 * i ) % 200 for i in range( 128 ) ]
LONG_T = tuple( ( 11 * i ) % 90 for i in range( 300 ) )
LONG_N = [ [ i, ( 3 * i ) % 17 ] for i in range( 100 ) ]
LONG_S = 'abcdefghij' * 120
class Lut( Component ):
  def construct( s, table, tag='t' ):
    s._c13_args = eff_record( locals() )
    s.in_ = InPort( 8 ); s.out = OutPort( 8 )
    c = sum( ( i + 1 ) * ord( ch ) for i, ch in enumerate( str( table ) ) ) % 251
    @update
    def up_lut():
      s.out @= s.in_ + c
# external Verilog wrapped by PyMTL (the .v files are written next to this module by the harness)
class VAdd( Component, VerilogPlaceholder ):
  def construct( s, nbits=8, amt=0 ):
    s._c13_args = eff_record( locals() )
    s.in_ = InPort( nbits ); s.out = OutPort( nbits )
    s.set_metadata( VerilogPlaceholderPass.src_file, _HERE + '/C13VAdd.v' )
    s.set_metadata( VerilogPlaceholderPass.top_module, 'C13VAdd' )
    s.set_metadata( VerilogPlaceholderPass.params, { 'nbits': nbits, 'amt': amt } )
class VPass( Component, VerilogPlaceholder ):
  def construct( s ):
    s._c13_args = eff_record( locals() )
    s.in_ = InPort( 8 ); s.out = OutPort( 8 )
    s.set_metadata( VerilogPlaceholderPass.src_file, _HERE + '/C13VPass.v' )
    s.set_metadata( VerilogPlaceholderPass.top_module, 'C13VPass' )
    s.set_metadata( VerilogPlaceholderPass.port_map, { s.in_: 'd', s.out: 'q' } )
class Uniq( Component ):
  def construct( s, uid ):
    s._c13_args = eff_record( locals() )
    s.in_ = InPort( 8 ); s.out = OutPort( 8 )
    @update
    def up_uniq():
      s.out @= s.in_ + uid
class IfcLeaf( Component ):
  def construct( s ):
    s._c13_args = eff_record( locals() )
    s.ifc = VR( Bits8 ); s.ifc__msg = InPort( 8 )
    @update
    def up():
      s.ifc.rdy @= s.ifc.val & s.ifc__msg[0] & s.ifc.msg[1]
class Cb( Component ):
  def construct( s, fn ):
    s._c13_args = eff_record( locals() )
    s.in_ = InPort( 8 ); s.out = OutPort( 8 )
    s.out //= s.in_
'''
VFILES = {'C13VAdd.v': '''module C13VAdd
#( parameter nbits = 8, parameter amt = 0 )
(
  input  logic clk,
  input  logic reset,
  input  logic [nbits-1:0] in_,
  output logic [nbits-1:0] out
);
  assign out = in_ + amt;
endmodule
''', 'C13VPass.v': '''module C13VPass
(
  input  logic clk,
  input  logic reset,
  input  logic [7:0] d,
  output logic [7:0] q
);
  assign q = d;
endmodule
'''}
def write_lib(scratch, auxmod):
  (scratch / f'{auxmod}.py').write_text(AUX)
  (scratch / f'{auxmod.replace("aux", "lib")}.py').write_text(PRELUDE)      # ONE library module shared by all designs of the run
  for fn, txt in VFILES.items(): (scratch / fn).write_text(txt)

AUX = '''
from pymtl3 import *
class Leaf( Component ):
  def construct( s, nbits ):
    s.in_ = InPort( nbits ); s.out = OutPort( nbits )
    @update
    def up():
      s.out @= ~s.in_
'''
T_POOL = ['Bits8', 'Bits4', 'mk_bits(13)', 'Pt', 'Outer', 'Bits1', 'M8', 'M16', 'mk_msg(8)', 'mk_msg(16)', 'mk_msg(12)', 'P8', 'P16', 'mk_pkt(8)', 'W8', 'W16', 'mk_wrap(16)',
          'TL_0', 'TL_1', 'TL_4', 'TL_1x4', 'TL_4x1', 'TL_6', 'TL_2x3', 'TL_3x2', 'TL_1x1', 'mk_tile( 4, 1 )']
LT_CLEAN = ['Bits8', 'Bits4', 'Pt', 'Outer', 'mk_bits(13)', 'Bits1']
LT_DIRTY = ['M8', 'M16', 'mk_msg(8)', 'mk_msg(12)', 'P8', 'P16', 'W8', 'W16']
TAG_CLEAN = ["'t'", "'u'", "'hello world'", "'a.b'", "'x[0]'", "'<q>'", "'abcdefghijklmnopqrstuvwxyzabcdefghijklmnopqrstuvwxyz0123456789'", "(1, 2)", "[1, 2]", "1.5", "True"]
OPT_CLEAN = ['None', '0', '7', "'o'", 'Bits8', 'Pt']

KW_SRC = '''
from pymtl3 import *
@bitstruct
class KwPt:
  a: Bits8
  b: Bits4
class KwIfc( Interface ):
  def construct( s ):
    s.msg = InPort( 8 ); s.rdy = OutPort()
def kw_ifc( kw ):
  class KwMIfc( Interface ):
    def construct( s ):
      setattr( s, kw, InPort( 8 ) ); s.rdy = OutPort()
  return KwMIfc
class KwLeaf( Component ):
  def construct( s ):
    s.in_ = InPort( 8 ); s.out = OutPort( 8 )
    s.out //= s.in_
class KwSubP( Component ):
  def construct( s, kw, lst ):
    s.out = OutPort( 8 )
    if lst:
      setattr( s, kw, [ InPort( 8 ) for _ in range(2) ] ); connect( s.out, getattr( s, kw )[0] )
    else:
      setattr( s, kw, InPort( 8 ) ); connect( s.out, getattr( s, kw ) )
class KwDecl( Component ):
  # the reserved word `kw` names a declaration of the given shape; it is used ONLY structurally (connections)
  def construct( s, kw, shape ):
    s.in_ = InPort( 8 ); s.out = OutPort( 8 ); s.pin = InPort( KwPt ); s.pout = OutPort( KwPt )
    g = lambda: getattr( s, kw )
    if   shape == 'port':       setattr( s, kw, InPort( 8 ) ); connect( s.out, g() )
    elif shape == 'port1d':     setattr( s, kw, [ InPort( 8 ) for _ in range(2) ] ); connect( s.out, g()[0] )
    elif shape == 'port2d':     setattr( s, kw, [ [ InPort( 8 ) for _ in range(2) ] for _ in range(2) ] ); connect( s.out, g()[1][0] )
    elif shape == 'portstruct': setattr( s, kw, InPort( KwPt ) ); connect( s.pout, g() )
    elif shape == 'outport1d':  setattr( s, kw, [ OutPort( 8 ) for _ in range(2) ] ); [ connect( p, s.in_ ) for p in g() ]
    elif shape == 'wire':       setattr( s, kw, Wire( 8 ) ); connect( g(), s.in_ ); connect( s.out, g() )
    elif shape == 'wire1d':     setattr( s, kw, [ Wire( 8 ) for _ in range(2) ] ); [ connect( w, s.in_ ) for w in g() ]; connect( s.out, g()[1] )
    elif shape == 'wire2d':     setattr( s, kw, [ [ Wire( 8 ) for _ in range(2) ] for _ in range(2) ] ); [ connect( w, s.in_ ) for r in g() for w in r ]; connect( s.out, g()[1][1] )
    elif shape == 'wirestruct': setattr( s, kw, Wire( KwPt ) ); connect( g(), s.pin ); connect( s.pout, g() )
    elif shape == 'wirestruct1d': setattr( s, kw, [ Wire( KwPt ) for _ in range(2) ] ); [ connect( w, s.pin ) for w in g() ]; connect( s.pout, g()[0] )
    elif shape == 'ifc':        setattr( s, kw, KwIfc() ); connect( s.out, g().msg )
    elif shape == 'ifc1d':      setattr( s, kw, [ KwIfc() for _ in range(2) ] ); connect( s.out, g()[0].msg )
    elif shape == 'ifcmember':  s.x = kw_ifc( kw )(); connect( s.out, getattr( s.x, kw ) )
    elif shape == 'inst':       setattr( s, kw, KwLeaf() ); connect( g().in_, s.in_ ); connect( s.out, g().out )
    elif shape == 'inst1d':     setattr( s, kw, [ KwLeaf() for _ in range(2) ] ); [ connect( x.in_, s.in_ ) for x in g() ]; connect( s.out, g()[0].out )
    elif shape == 'subport':    s.c = KwSubP( kw, False ); connect( getattr( s.c, kw ), s.in_ ); connect( s.out, s.c.out )
    elif shape == 'subport1d':  s.c = KwSubP( kw, True ); [ connect( p_, s.in_ ) for p_ in getattr( s.c, kw ) ]; connect( s.out, s.c.out )
    elif shape == 'structfield':
      T = mk_bitstruct( 'KwS', { kw: Bits8, 'z': Bits4 } ); s.sp = InPort( T ); s.so = OutPort( T ); connect( s.so, s.sp )
    elif shape == 'structname':
      T = mk_bitstruct( kw, { 'y': Bits8, 'z': Bits4 } ); s.sp = InPort( T ); s.so = OutPort( T ); connect( s.so, s.sp )
    else: assert False, shape
'''
KW_CONN_SHAPES = ['port', 'port1d', 'port2d', 'portstruct', 'outport1d', 'wire', 'wire1d', 'wire2d', 'wirestruct', 'wirestruct1d', 'ifc', 'ifc1d', 'ifcmember',
                  'inst', 'inst1d', 'subport', 'subport1d', 'structfield', 'structname']
# the reserved word is touched by an update block: (declaration lines, block name, block body lines)
KW_BLK_SHAPES = {
  'blockname':   ([], '{kw}', ['s.out @= s.in_']),
  'port':        (['s.{kw} = InPort( 8 )'], 'up', ['s.out @= s.{kw}']),
  'port1d':      (['s.{kw} = [ InPort( 8 ) for _ in range(2) ]'], 'up', ['s.out @= s.{kw}[1]']),
  'portstruct':  (['s.{kw} = InPort( KwPt )'], 'up', ['s.out @= s.{kw}.a']),
  'wire':        (['s.{kw} = Wire( 8 )'], 'up', ['s.{kw} @= s.in_', 's.out @= s.{kw}']),
  'wire1d':      (['s.{kw} = [ Wire( 8 ) for _ in range(2) ]'], 'up', ['s.{kw}[0] @= s.in_', 's.{kw}[1] @= s.in_', 's.out @= s.{kw}[1]']),
  'inst':        (['s.{kw} = KwLeaf(); s.{kw}.in_ //= s.in_'], 'up', ['s.out @= s.{kw}.out']),
  'subport':     (["s.c = KwSubP( '{kw}', False )"], 'up', ['s.c.{kw} @= s.in_', 's.out @= s.c.out']),
  'structfield': (["T = mk_bitstruct( 'KwS', {{ '{kw}': Bits8, 'z': Bits4 }} ); s.sp = InPort( T )"], 'up', ['s.out @= s.sp.{kw}']),
}
# block-level identifier kinds (loop variable, temporary, free variable, a signal that is read) at EVERY nesting position
KW_NEST_KINDS = {
  'tmpvar':  ([], ['{kw} = s.in_ + 1', 's.out @= {kw}']),
  'freevar': (['{kw} = 3'], ['s.out @= s.in_ + {kw}']),
  'loopvar': (['s.w = [ Wire( 8 ) for _ in range(2) ]'], ['for {kw} in range(2):', '  s.w[{kw}] @= s.in_', 's.out @= s.w[1]']),
  'sigread': (['s.{kw} = InPort( 8 )'], ['s.out @= s.{kw}']),
}
def _ind(ls, n=1): return ['  ' * n + l for l in ls]
KW_NEST_POS = {
  'top':    lambda b: b,
  'if':     lambda b: ['if s.in_[0]:'] + _ind(b) + ['else:', '  s.out @= s.in_'],
  'else':   lambda b: ['if s.in_[0]:', '  s.out @= s.in_', 'else:'] + _ind(b),
  'elif':   lambda b: ['if s.in_[0]:', '  s.out @= s.in_', 'elif s.in_[1]:'] + _ind(b) + ['else:', '  s.out @= 0'],
  'for':    lambda b: ['for i in range(2):'] + _ind(b),
  'for_if': lambda b: ['for i in range(2):', '  if s.in_[0]:'] + _ind(b, 2) + ['  else:', '    s.out @= s.in_'],
  'if_for': lambda b: ['if s.in_[0]:', '  for i in range(2):'] + _ind(b, 2) + ['else:', '  s.out @= s.in_'],
  'if_if':  lambda b: ['if s.in_[0]:', '  if s.in_[1]:'] + _ind(b, 2) + ['  else:', '    s.out @= 1', 'else:', '  s.out @= s.in_'],
}
for _k, (_d, _b) in KW_NEST_KINDS.items():
  for _p, _w in KW_NEST_POS.items():
    KW_BLK_SHAPES[f'{_k}_{_p}'] = (_d, 'up', _w(_b))
def kw_blk_class(shape, kw):
  decl, bn, body = KW_BLK_SHAPES[shape]
  L = ['s.in_ = InPort( 8 ); s.out = OutPort( 8 )'] + decl + ['@update', f'def {bn}():'] + ['  ' + b for b in body]
  return f'class KwUse_{shape}_{kw}( Component ):\n  def construct( s ):\n' + ''.join('    ' + l.format(kw=kw) + '\n' for l in L)
KW_COMMON = ['output', 'input', 'wire', 'reg', 'buf', 'bit', 'byte', 'logic', 'priority', 'program', 'int', 'type', 'string', 'let', 'checker']

class HGen:
  """a hierarchy of container classes Box0..BoxK (BoxK instantiates leaves, parametrised classes and earlier boxes)"""
  def __init__(s, rng, name, dirty):
    s.rng, s.name, s.dirty = rng, name, dirty
    s.features = set()
    s.classes = []
    s.kidmap = {}
    s.uid = 10
    s.post = []

  def leaf_expr(s):
    r = s.rng
    if not s.dirty:
      # same-named classes are only used when they behave identically (two calls of the same factory) -> must be accepted
      return r.choice(['LeafShared( 8 )', 'LeafShared( 8 )', 'fac_add()( 8 )', 'LeafShared( 4 )', 'fac_add()( 4 )']), 'leaf'
    s.features.add('same-name-diff-body')
    return r.choice(['LeafShared( 8 )', 'fac_add()( 8 )', 'fac_sub()( 8 )', 'fac_k( 3 )( 8 )', 'fac_k( 5 )( 8 )', 'fac_ff()( 8 )',
                     'fac_port()( 8 )', 'AUXMOD.Leaf( 8 )', 'fac_sub()( 4 )', 'LeafShared( 4 )']), 'leaf'

  def child_expr(s, earlier):
    r = s.rng; x = r.random()
    if x < 0.3: return s.leaf_expr()
    if x < 0.55:
      T = r.choice(T_POOL); n = r.choice([1, 1, 2, 3])
      form = r.randrange(4)
      if form == 0: e = f'Par( {T} )'
      elif form == 1: e = f'Par( {T}, {n} )'
      elif form == 2: e = f'Par( {T}, n={n}, tag={r.choice(TAG_CLEAN)} )'; s.features.add('special-char-param')
      else: e = f'Par( {T}, {n}, {r.choice(TAG_CLEAN)}, {r.choice(OPT_CLEAN)} )'; s.features.add('special-char-param')
      if T not in ('Bits8', 'Bits4', 'Bits1', 'mk_bits(13)'): s.features.add('struct-param')
      if T.startswith('TL_') or T.startswith('mk_tile'): s.features.add('struct-list-shapes')
      if T[0] in 'MPW' or T.startswith('mk_msg') or T.startswith('mk_pkt') or T.startswith('mk_wrap'): s.features.add('same-named-struct-classes')
      return e, 'par'
    if x < 0.68:
      s.features.add('long-param-list')
      kw = ', '.join(f'a{i}={r.randrange(0, 100)}' for i in sorted(r.sample(range(10), r.randrange(0, 4))))
      return f'Wide( {kw} )', 'wide'
    if x < 0.74:
      return f'Off( 8, {r.choice([0, 1, 2, 255])} )', 'off'
    if x < 0.755:
      s.features.add('long-param-rendering')
      base = r.choice(['LONG_L', 'LONG_T', 'LONG_N', 'LONG_S'])
      new = {'LONG_L': '999', 'LONG_T': '998', 'LONG_N': '[ 5, 5 ]', 'LONG_S': "'Z'"}[base]
      return r.choice([f'Lut( {base} )', f'Lut( var_at( {base}, 0, {new} ) )', f'Lut( var_at( {base}, len( {base} ) // 2, {new} ) )', f'Lut( var_at( {base}, -1, {new} ) )',
                       f'Lut( var_at( {base}, -2, {new} ) )', f'Lut( {base}, tag=' + repr(r.choice(['t', 'u'])) + ' )']), 'lut'
    if x < 0.765:
      return r.choice(['VAdd()', 'VAdd( 8, 3 )', 'VAdd( amt=2 )', 'VAdd( 8 )', 'VPass()', 'VPass()']), 'vph'
    if x < 0.78:
      s.uid += 1
      return f'Uniq( {s.uid} )', 'uniq'
    if x < 0.80:
      return r.choice(['Inc2()', 'Inc2( 8 )', 'Inc2( amount=1 )', 'Inc2( 8, 2 )', 'Inc2( amount=2 )']), 'inc2'
    if x < 0.83:
      pool = LT_CLEAN + (LT_DIRTY if s.dirty else [])
      if s.dirty: s.features.add('list-of-struct-types')
      br = r.choice(['[ {}, {} ]', '( {}, {} )'])
      return 'Multi( ' + br.format(r.choice(pool), r.choice(pool)) + ' )', 'multi'
    if x < 0.88:
      return f"Sel( {r.choice(['add', 'sub'])!r}, {r.choice(['t', 'u', 'v w'])!r} )", 'sel'
    if earlier:
      b = r.choice(earlier); s.features.add('nested')
      return f'{b}' + r.choice(['()', '( 1 )', '( 2 )', '( k=1 )', '()']), 'box'
    return s.leaf_expr()

  def container(s, idx, earlier, top=False):
    r = s.rng
    L = ['s._c13_args = eff_record( locals() )', 's.in_ = InPort( 8 ); s.out = OutPort( 8 )']
    nchild = r.randrange(2, 6)
    kids = []
    for c in range(nchild):
      e, kind = s.child_expr(earlier)
      cn = f'c{c}'
      if r.random() < 0.2:
        k = r.randrange(2, 4); cn = f'v{c}'
        L.append(f's.{cn} = [ {e} for _ in range({k}) ]'); s.features.add('instance-array')
        kids.append((cn, kind, k, e)); continue
      L.append(f's.{cn} = {e}')
      kids.append((cn, kind, 0, e))
    outs, drv = [], []
    for c in range(r.choice([0, 0, 1, 1, 2])):
      # a list of components of ONE class whose elements are built with DIFFERENT arguments (same interface), also nested lists
      s.features.add('array-varying-params')
      k, b, cn = r.randrange(2, 4), r.randrange(0, 3), f'va{c}'
      form = r.randrange(8 if earlier else 7)
      if form == 7 or (form == 6 and not earlier): form = 7; e = f'[ VAdd( 8, i+{b} ) for i in range({k}) ]'
      elif form == 5: e = f'[ Inc2( 8 ) for i in range({k}) ]'
      elif form == 0: e = f'[ Off( 8, i+{b} ) for i in range({k}) ]'
      elif form == 1: e = f'[ Wide( a0=i, a9={b} ) for i in range({k}) ]'
      elif form == 2: e = f"[ Sel( [ 'add', 'sub' ][ i%2 ], 't' ) for i in range({k}) ]"
      elif form == 3: e = f'[ Par( Bits8, i+1 ) for i in range({k}) ]'
      elif form == 4: e = f'[ [ Off( 8, i+2*j+{b} ) for i in range(2) ] for j in range({k}) ]'; s.features.add('nested-list')
      elif form == 6: e = f'[ {r.choice(earlier)}( i ) for i in range({k}) ]'; s.features.add('nested')
      L.append(f's.{cn} = {e}')
      kids.append((cn, ['off', 'wide', 'sel', 'par', 'off2d', 'inc2', 'boxarr', 'vph'][form], k, e))
      for ref in ([f's.{cn}[{i}]' for i in range(k)] if form != 4 else [f's.{cn}[{j}][{i}]' for j in range(k) for i in range(2)]):
        L.append(f'{ref}.in_ //= s.in_'); outs.append(f'{ref}.out')
    for cn, kind, k, e in [x for x in kids if not x[0].startswith('va')]:
      eight = kind in ('leaf', 'wide', 'off', 'sel', 'box', 'inc2', 'vph', 'uniq', 'lut') and '( 4 )' not in e
      refs = [f's.{cn}'] if not k else [f's.{cn}[{i}]' for i in range(k)]
      for ref in refs:
        if eight:
          L.append(f'{ref}.in_ //= s.in_'); outs.append(f'{ref}.out')
    L.append('s.w0 = Wire( 8 ); s.w1 = Wire( 8 )')
    r.shuffle(outs)
    acc = ' ^ '.join(outs[:5]) if outs else 's.in_'
    L += ['@update', 'def up_w0():', f'  s.w0 @= {acc}', '@update', 'def up_out():', '  t = s.w0 + k', '  s.w1 @= t', '  s.out @= s.w1 + 1']
    if s.dirty:
      plain = [cn for cn, kind, k, e in kids if not k and kind in ('leaf', 'wide', 'off', 'sel', 'box', 'inc2')]
      for trig in r.sample((['explicit-name-shared'] if top else []) + ['wire-subport', 'port-subport', 'ifc-port', 'blk-sig', 'reserved-inst', 'sv2009-kw', 'arr-inst', 'tmpvar', 'neg-param', 'odd-param', 'colliding-params'], r.choice([0, 1, 1, 2])):
        s.features.add(trig)
        if trig == 'wire-subport' and plain:
          L += [f's.{plain[0]}__out = Wire( 8 )', '@update', 'def up_alias():', f'  s.{plain[0]}__out @= s.in_ & 3']
        elif trig == 'port-subport' and plain:
          L += [f's.{plain[-1]}__in_ = InPort( 8 )']
        elif trig == 'ifc-port':
          L += ['s.ifc = VR( Bits8 )', 's.ifc__msg = InPort( 8 )', '@update', 'def up_ifc():', '  s.ifc.rdy @= s.ifc.val & s.ifc__msg[0] & s.ifc.msg[1]']
        elif trig == 'blk-sig':
          L += ['s.w2 = Wire( 8 )', '@update', 'def w2():', '  s.w2 @= s.in_ | 1']
        elif trig == 'reserved-inst':
          L += [f"s.{r.choice(['reg', 'buf', 'wire', 'logic', 'module'])} = LeafShared( 8 )"]
        elif trig == 'sv2009-kw':
          kw = r.choice(['let', 'soft', 'weak', 'strong', 'until', 'implies', 'checker', 'restrict', 'eventually', 'nexttime', 'untyped', 'unique0'])
          L += [f's.{kw} = Wire( 8 )', '@update', f'def up_kw():', f'  s.{kw} @= s.in_']
        elif trig == 'arr-inst':
          L += ['s.t = [ LeafShared( 8 ) for _ in range(2) ]', 's.t__0 = LeafShared( 8 )']
        elif trig == 'tmpvar':
          L += ['s.w3 = Wire( 8 ); s.w4 = Wire( 8 )', '@update', 'def up_a():', '  b_c = s.in_ + 1', '  s.w3 @= b_c', '@update', 'def up_a_b():', '  c = s.in_ + 2', '  s.w4 @= c']
        elif trig == 'neg-param':
          L += [f's.neg = Off( 8{r.choice(["", ", -1", ", -2"])} )']
        elif trig == 'odd-param':
          L += [f's.odd = Sel( {r.choice(["a/b", "it" + chr(39) + "s", "a-b", "a+b", "x:y", "p,q"])!r} )']
        elif trig == 'explicit-name-shared':
          v = r.randrange(20, 40)
          L += [f's.xs0 = Inc2( 8, {v} ); s.xs1 = Inc2( 8, {v} )', 's.xs0.in_ //= s.in_; s.xs1.in_ //= s.in_']
          s.post.append(f"  top.{r.choice(['xs0', 'xs1'])}.set_metadata( VerilogTranslationPass.explicit_module_name, 'Shared_{s.name}' )")
        elif trig == 'colliding-params':
          L += ["s.cp0 = Sel( 'add', 'x__tag_y' )", "s.cp1 = Sel( 'add__tag_x', 'y' )"]
    body = '\n'.join('    ' + l for l in L)
    cname = s.name if top else f'{s.name}_Box{idx}'
    s.kidmap[cname] = kids
    sig = 's' if top else 's, k=0'
    if top: body = body.replace('\n', '\n    k = 0\n', 1)
    return cname, f'class {cname}( Component ):\n  def construct( {sig} ):\n{body}\n'

  def sp_targets(s, cname, prefix):
    """(path, argument, value) candidates for set_param below the component of class cname reachable as `prefix`"""
    r, out = s.rng, []
    for cn, kind, k, e in s.kidmap.get(cname, []):
      if kind == 'inc2' and not re.search(r'Inc2\( 8, ', e): arg, val = 'amount', r.choice([3, 4, 5])
      elif kind == 'vph' and e in ('VAdd()', 'VAdd( amt=2 )', 'VAdd( 8 )'): arg, val = 'amt', r.choice([4, 5])
      elif kind == 'wide': arg, val = 'a3', r.randrange(10, 90)
      elif kind == 'par' and (re.fullmatch(r'Par\( [^,]+ \)', e) or 'n=' in e): arg, val = 'n', r.choice([2, 3])
      elif kind == 'box' and ('()' in e or 'k=' in e): arg, val = 'k', r.choice([1, 2])
      else: continue
      idx = '' if not k else f'[{r.randrange(k)}]'
      out.append((f'{prefix}.{cn}{idx}', arg, val, kind, e))
    return out

  def source(s, auxmod):
    r = s.rng
    nbox = r.randrange(1, 4)
    txt, earlier = [], []
    for i in range(nbox):
      cn, src = s.container(i, earlier); txt.append(src); earlier.append(cn)
    cn, src = s.container(nbox, earlier, top=True); txt.append(src)
    # construct() arguments supplied through the parameter tree: on direct children of the top (single instances, list elements)
    sp = []
    cands = s.sp_targets(cn, 'top')
    for path, arg, val, kind, e in r.sample(cands, min(len(cands), r.choice([0, 1, 2, 3]))):
      sp.append(f'  top.set_param( "{path}.construct", {arg}={val} )'); s.features.add('set-param')
    if s.dirty and r.random() < 0.5:
      # ... and BELOW a child (hazard: the child's own name does not change, its body does)
      boxes = [(f'top.{c}' + ('' if not k else f'[{r.randrange(k)}]'), re.search(r'(\w+)\(', e).group(1)) for c, kind, k, e in s.kidmap[cn] if kind == 'box']
      if boxes:
        bp, bcls = r.choice(boxes)
        deep = s.sp_targets(bcls, bp)
        if deep:
          path, arg, val, kind, e = r.choice(deep)
          sp.append(f'  top.set_param( "{path}.construct", {arg}={val} )'); s.features.add('deep-set-param')
    # explicit module names: only on instances whose definition nobody else shares (Uniq) and on placeholders (children, list elements)
    for c, kind, k, e in s.kidmap[cn]:
      if kind in ('uniq', 'vph') and r.random() < 0.6:
        idx = '' if not k else f'[{r.randrange(k)}]'
        s.post.append(f"  top.{c}{idx}.set_metadata( VerilogTranslationPass.explicit_module_name, 'Nm_{s.name}_{c}' )"); s.features.add('explicit-name')
    if any(kind == 'vph' for c_, kind, k_, e_ in sum(s.kidmap.values(), [])): s.features.add('placeholder')
    build = f'def build():\n  top = {cn}()\n' + '\n'.join(sp) + ('\n' if sp else '') + '  top.elaborate()\n' + '\n'.join(s.post) + ('\n' if s.post else '') + '  top._c13_done = True\n  return top\n'
    return f'from pymtl3 import *\nfrom {auxmod.replace("aux", "lib")} import *\nimport {auxmod} as AUXMOD\n' + '\n'.join(txt) + build

def directed(auxmod):
  """(name, feature, expected rejection?, construct body lines)"""
  D = []
  def add(name, feat, lines, reject=False, sp=(), names=()):
    body = '\n'.join('    ' + l for l in ['s.in_ = InPort( 8 ); s.out = OutPort( 8 )'] + lines)
    build = f'def build():\n  top = {name}()\n' + ''.join(f'  top.set_param( "top.{p_}.construct", {kv} )\n' for p_, kv in sp)
    if names: build += '  top.elaborate()\n' + ''.join(f"  top.{p_}.set_metadata( VerilogTranslationPass.explicit_module_name, {n_!r} )\n" for p_, n_ in names) + '  top._c13_done = True\n'
    build += '  return top\n'
    D.append((name, feat, reject, f'from pymtl3 import *\nfrom {auxmod.replace("aux", "lib")} import *\nimport {auxmod} as AUXMOD\n' + f'class {name}( Component ):\n  def construct( s ):\n{body}\n{build}'))
  conn = lambda *cs: [f's.{c}.in_ //= s.in_' for c in cs]
  add('D_same_name_factories', 'same-name-diff-body', ['s.a = fac_add()( 8 ); s.b = fac_sub()( 8 )'] + conn('a', 'b') + ['@update', 'def up():', '  s.out @= s.a.out ^ s.b.out'])
  add('D_same_name_modules', 'same-name-diff-body', ['s.a = LeafShared( 8 ); s.b = AUXMOD.Leaf( 8 )'] + conn('a', 'b'))
  add('D_same_name_closure', 'same-name-diff-body', ['s.a = fac_k( 3 )( 8 ); s.b = fac_k( 5 )( 8 )'] + conn('a', 'b'))
  add('D_same_name_ports', 'same-name-diff-body', ['s.a = LeafShared( 8 ); s.b = fac_port()( 8 )'] + conn('a', 'b'))
  add('D_same_name_same_body', 'share', ['s.a = fac_add()( 8 ); s.b = fac_add()( 8 ); s.c = LeafShared( 8 ); s.d = [ LeafShared( 8 ) for _ in range(3) ]'] + conn('a', 'b', 'c'))
  add('D_array_varying_params', 'array-varying-params', ['s.a = [ Off( 8, i+1 ) for i in range(3) ]; s.b = [ Wide( a0=i ) for i in range(2) ]; s.c = [ Par( Bits8, 3-i ) for i in range(3) ]'] +
      [f's.{c}[{i}].in_ //= s.in_' for c, n in (('a', 3), ('b', 2), ('c', 3)) for i in range(n)])
  add('D_array_nested_varying', 'array-varying-params', ['s.a = [ [ Off( 8, i+2*j ) for i in range(2) ] for j in range(2) ]; s.b = [ [ LeafShared( 8 ) for i in range(2) ] for j in range(2) ]'] +
      [f's.{c}[{j}][{i}].in_ //= s.in_' for c in 'ab' for j in range(2) for i in range(2)])
  add('D_struct_class_params', 'same-named-struct-classes', ['s.a = Par( M8 ); s.b = Par( M16 ); s.c = Par( mk_msg( 8 ) ); s.d = Par( P8 ); s.e = Par( P16 ); s.f = Par( mk_pkt( 8 ) ); '
      's.g = Par( W8 ); s.h = Par( W16 ); s.i = Par( Bits16 ); s.j = Par( Pt ); s.k = Par( M8, 2 ); s.l = Par( M16, opt=M8 ); s.m = Par( M16, opt=M16 ); s.n0 = Par( mk_msg( 4 ) ); s.n1 = Par( mk_msg( 5 ) ); s.n2 = [ Par( M16, 2 ) for i in range(2) ]'])
  add('D_struct_list_shapes', 'struct-list-shapes', ['s.a = Par( TL_0 ); s.b = Par( TL_1 ); s.c = Par( TL_4 ); s.d = Par( TL_1x4 ); s.e = Par( TL_4x1 ); s.f = Par( TL_6 ); s.g = Par( TL_2x3 ); s.h = Par( TL_3x2 ); s.i = Par( TL_1x1 ); '
      's.j = Par( mk_tile( 1, 4 ) ); s.k = Par( TL_4x1, 2 ); s.pw = InPort( TL_1x4 ); s.pt = InPort( TL_4x1 ); s.pf = InPort( TL_4 ); s.ow = OutPort( TL_1x4 ); s.ot = OutPort( TL_4x1 ); s.of = OutPort( TL_4 )',
      's.ow //= s.pw; s.ot //= s.pt; s.of //= s.pf'])
  add('D_list_of_types_distinct_names', 'list-of-types', ['s.a = Multi( [ Bits8, Bits4 ] ); s.b = Multi( [ Bits4, Bits8 ] ); s.c = Multi( ( Bits8, Bits4 ) ); s.d = Multi( [ Pt, Outer ] ); s.e = Multi( [ Outer, Pt ] ); s.f = Multi( [ Bits8, Bits4 ] )'])
  add('D_list_of_types_same_names', 'list-of-struct-types', ['s.a = Multi( [ M8, Bits4 ] ); s.b = Multi( [ M16, Bits4 ] ); s.c = Multi( [ P8, P16 ] ); s.d = Multi( [ P16, P8 ] )'])
  add('D_set_param', 'set-param', ['s.a = Inc2(); s.b = Inc2(); s.c = Inc2( 8 ); s.d = Inc2( amount=1 ); s.e = Inc2( amount=2 ); s.r = [ Inc2( 8 ) for _ in range(3) ]; s.q = [ [ Inc2() for _ in range(2) ] for _ in range(2) ]',
      's.w1 = Wide(); s.w2 = Wide( a3=7 ); s.p1 = Par( M8 ); s.p2 = Par( M8 )'] + conn('a', 'b', 'c', 'd', 'e'),
      sp=[('b', 'amount=3'), ('c', 'amount=2'), ('e', 'amount=5'), ('r[1]', 'amount=2'), ('q[1][0]', 'amount=6'), ('w1', 'a3=7'), ('p2', 'n=2')])
  add('D_set_param_no_default', 'set-param', ['s.n1 = Need(); s.n2 = Need(); s.n3 = Need( 4 ); s.n4 = [ Need() for _ in range(2) ]'] + conn('n1', 'n2', 'n3'),
      sp=[('n1', 'amount=4'), ('n2', 'amount=5'), ('n4[0]', 'amount=4'), ('n4[1]', 'amount=6')])
  add('D_set_param_below_child', 'deep-set-param', ['s.x1 = Box2(); s.x2 = Box2(); s.x3 = Box2(); s.x4 = Box2( 1 )'] + conn('x1', 'x2', 'x3', 'x4'),
      sp=[('x2.y', 'amount=5'), ('x3.z[1]', 'amount=6'), ('x4.y', 'amount=5')])
  add('D_placeholders', 'placeholder', ['s.a_ph = VAdd(); s.b_inc = Uniq( 3 ); s.c_ph = VAdd( 8, 3 ); s.d_ph = VAdd( amt=3 ); s.e_ph = VPass(); s.f_ph = VPass(); s.g = [ VAdd( 8, 1 ) for _ in range(2) ]; '
      's.h = [ VAdd( 8, 4+i ) for i in range(2) ]; s.i_ph = VAdd( 4 ); s.j = Inc2( 8, 9 ); s.k_ph = VAdd()'] + conn('a_ph', 'b_inc', 'c_ph', 'd_ph', 'e_ph', 'f_ph', 'j', 'k_ph'),
      sp=[('k_ph', 'amt=6')])
  add('D_placeholders_explicit_names', 'placeholder', ['s.a_ph = VAdd(); s.b_inc = Uniq( 3 ); s.c_ph = VAdd( 8, 3 ); s.e_ph = VPass(); s.g = [ VAdd( 8, 1 ) for _ in range(2) ]; s.h = [ VAdd( 8, 4+i ) for i in range(2) ]; s.u = Uniq( 5 )'] +
      conn('a_ph', 'b_inc', 'c_ph', 'e_ph', 'u'), names=[('a_ph', 'MyAdd'), ('b_inc', 'MyUniq3'), ('e_ph', 'MyPass'), ('g[1]', 'MyG1'), ('h[0]', 'MyH0')])
  add('D_explicit_name_shared_first', 'explicit-name-shared', ['s.a = Inc2( 8, 7 ); s.b = Inc2( 8, 7 ); s.c = Inc2( 8, 7 )'] + conn('a', 'b', 'c'), names=[('a', 'MyInc')])
  add('D_explicit_name_shared_later', 'explicit-name-shared', ['s.a = Inc2( 8, 7 ); s.b = Inc2( 8, 7 )'] + conn('a', 'b'), names=[('b', 'MyInc')])
  add('D_params_ints', 'int-params', ['s.a = LeafShared( 8 ); s.b = LeafShared( 4 ); s.c = LeafShared( 16 ); s.d = Off( 8, 1 ); s.e = Off( 8, 2 ); s.f = Off( 4, 1 )'])
  def drive(lines, specs):
    out = list(lines)
    for c, T in specs: out += [f's.i_{c} = InPort( {T} )', f's.{c}.in_ //= s.i_{c}']
    return out
  add('D_params_types', 'type-params', drive(['s.a = Par( Bits8 ); s.b = Par( Bits4 ); s.c = Par( mk_bits(13) ); s.d = Par( Pt ); s.e = Par( Outer ); s.f = Par( Pt, 2 ); s.g = Par( Pt, opt=Bits8 ); s.h = Par( Pt, opt=Outer )'],
      [('a', 'Bits8'), ('b', 'Bits4'), ('c', 'mk_bits(13)'), ('d', 'Pt'), ('e', 'Outer'), ('f', 'Pt'), ('g', 'Pt'), ('h', 'Pt')]))
  add('D_params_special', 'special-char-param', drive(["s.a = Par( Bits8, 1, 'hello world' ); s.b = Par( Bits8, 1, 'hello  world' ); s.c = Par( Bits8, 2, 'a.b' ); s.d = Par( Bits8, 1, 'x[0]' ); s.e = Par( Bits8, 1, '<q>' ); s.f = Par( Bits8, 1, [1, 2] ); s.g = Par( Bits8, 1, (1, 2) ); s.h = Par( Bits8, 3, 1.5 )"], [(c, 'Bits8') for c in 'abcdefgh']))
  add('D_params_long', 'long-param-list', ['s.a = Wide(); s.b = Wide( a0=1 ); s.c = Wide( a9=1 ); s.d = Wide( 0, 1, 2, 3, 4, 5, 6, 7, 8, 9 ); s.e = Wide( a5=55 )'] + conn('a', 'b', 'c', 'd', 'e'))
  add('D_long_param_renderings', 'long-param-rendering',
      ['s.l = [ Lut( LONG_L ), Lut( var_at( LONG_L, 0, 999 ) ), Lut( var_at( LONG_L, 64, 999 ) ), Lut( var_at( LONG_L, -1, 999 ) ), Lut( var_at( LONG_L, -1, 998 ) ) ]',
       's.t = [ Lut( LONG_T ), Lut( var_at( LONG_T, 1, 998 ) ), Lut( var_at( LONG_T, 150, 998 ) ), Lut( var_at( LONG_T, -1, 998 ) ) ]',
       's.n = [ Lut( LONG_N ), Lut( var_at( LONG_N, 0, [ 5, 5 ] ) ), Lut( var_at( LONG_N, 50, [ 5, 5 ] ) ), Lut( var_at( LONG_N, -1, [ 5, 5 ] ) ), Lut( var_at( LONG_N, -1, [ 99, 6 ] ) ) ]',
       # strings that differ ONLY beyond 64 / 128 / 256 / 512 / 1024 characters of the rendering, and only in the last character
       's.s = [ Lut( LONG_S ) ] + [ Lut( var_at( LONG_S, p, "Z" ) ) for p in ( 3, 70, 140, 270, 530, 1050, -1 ) ]',
       's.q = [ Lut( LONG_S[:n] ) for n in ( 60, 130, 260, 520, 1030 ) ] + [ Lut( LONG_S[:n] + "Z" ) for n in ( 60, 130, 260, 520, 1030 ) ]',
       's.same = [ Lut( list( LONG_L ) ), Lut( LONG_L ) ]'])
  add('D_params_hash_boundary', 'long-param-list', drive(["s.a = Par( Bits8, 1, '" + 'q' * 27 + "' ); s.b = Par( Bits8, 1, '" + 'q' * 28 + "' ); s.c = Par( Bits8, 1, '" + 'q' * 29 + "' )"], [(c, 'Bits8') for c in 'abc']))
  add('D_neg_param', 'neg-param', ['s.a = Off( 8 ); s.b = Off( 8, -2 ); s.c = Off( 8, 3 )'] + conn('a', 'b', 'c'))
  add('D_odd_param', 'odd-param', ["s.a = Sel( 'a/b' ); s.b = Sel( 'a-b' ); s.c = Sel( 'it' + chr(39) + 's' )"] + conn('a', 'b', 'c'))
  add('D_colliding_params', 'colliding-params', ["s.a = Sel( 'add', 'x__tag_y' ); s.b = Sel( 'add__tag_x', 'y' )"] + conn('a', 'b'))
  add('D_wire_vs_subport', 'wire-subport', ['s.a = LeafShared( 8 )', 's.a__out = Wire( 8 )', '@update', 'def up():', '  s.a__out @= s.in_ & 3', 's.out //= s.a.out'] + conn('a'))
  add('D_port_vs_subport', 'port-subport', ['s.a = LeafShared( 8 )', 's.a__in_ = InPort( 8 )', 's.out //= s.a.out'] + conn('a'))
  add('D_ifc_vs_port', 'ifc-port', ['s.ifc = VR( Bits8 )', 's.ifc__msg = InPort( 8 )', '@update', 'def up():', '  s.out @= s.ifc.msg + s.ifc__msg', '  s.ifc.rdy @= s.ifc.val'])
  add('D_ifc_vs_port_nested', 'ifc-port', ['s.a = IfcLeaf()', 's.out //= s.in_'])
  add('D_block_vs_signal', 'blk-sig', ['s.w = Wire( 8 )', '@update', 'def w():', '  s.w @= s.in_ & 3', '@update', 'def out():', '  s.out @= s.w'])
  add('D_tmpvar_mangling', 'tmpvar', ['s.w3 = Wire( 8 )', '@update', 'def up_a():', '  b_c = s.in_ + 1', '  s.w3 @= b_c', '@update', 'def up_a_b():', '  c = s.in_ + 2', '  s.out @= c'])
  add('D_array_vs_instance', 'arr-inst', ['s.t = [ LeafShared( 8 ) for _ in range(2) ]', 's.t__0 = LeafShared( 8 )'])
  add('D_reserved_instance', 'reserved-inst', ['s.reg = LeafShared( 8 )', 's.out //= s.reg.out'] + conn('reg'))
  add('D_sv2009_keyword', 'sv2009-kw', ['s.let = Wire( 8 ); s.checker = Wire( 8 )', '@update', 'def up():', '  s.let @= s.in_', '  s.checker @= s.let', '  s.out @= s.checker'])
  add('D_reserved_signal', 'reserved-signal', ['s.wire = Wire( 8 )', '@update', 'def up():', '  s.wire @= s.in_', '  s.out @= s.wire'], reject=True)
  add('D_reserved_port', 'reserved-signal', ['s.logic = OutPort( 8 )', 's.logic //= s.in_'], reject=True)
  add('D_reserved_block', 'reserved-signal', ['@update', 'def begin():', '  s.out @= s.in_'], reject=True)
  add('D_param_address', 'addr-param', ['s.a = Cb( some_function )'] + conn('a'))
  add('D_param_set_order', 'frozenset-param', ["s.a = Cb( frozenset( [ 'alpha', 'beta', 'gamma', 'delta', 'eps' ] ) )"] + conn('a'))
  return D

# ====================================================================== translation drivers
def prepared(top):
  """elaborate (unless build() already did) and configure the placeholders of the whole hierarchy"""
  from pymtl3.passes.backends.verilog import VerilogPlaceholderPass
  if not getattr(top, '_c13_done', False): top.elaborate()
  top.apply(VerilogPlaceholderPass())
  return top

def translate_obj(top):
  from pymtl3.passes.backends.verilog import VerilogTranslationPass
  prepared(top)
  top.set_metadata(VerilogTranslationPass.enable, True)
  top.apply(VerilogTranslationPass())
  fn = top.get_metadata(VerilogTranslationPass.translated_filename)
  txt = open(fn).read()
  os.remove(fn)
  return txt, top.get_metadata(VerilogTranslationPass.translated_top_module)

def translate_multi(top3, paths):
  """ONE VerilogTranslationPass run with several separately enabled sub-trees -> {path: (module name, file name, text)}"""
  from pymtl3.passes.backends.verilog import VerilogTranslationPass as V
  ms = [eval('T' + p[1:], {'T': top3}) for p in paths]
  for m in ms: m.set_metadata(V.enable, True)
  top3.apply(V())
  out = {}
  for p, m in zip(paths, ms):
    fn = m.get_metadata(V.translated_filename)
    out[p] = (m.get_metadata(V.translated_top_module), fn, open(fn).read())
  for fn in {v[1] for v in out.values()}: os.remove(fn)
  return out

def translate_sub(top2, path, keep=False):
  """translate ONE instance (given by its repr path 's.a.b[1]') of an elaborated, otherwise identical hierarchy as a translation
  top: the instance keeps exactly the arguments / parameter-tree entries it has in the design.  -> (text, module name)"""
  from pymtl3.passes.backends.verilog import VerilogTranslationPass as V
  m = eval('T' + path[1:], {'T': top2})
  m.set_metadata(V.enable, True)
  try:
    top2.apply(V())
    fn = m.get_metadata(V.translated_filename)
    txt = open(fn).read()
    if not keep: os.remove(fn)
    return txt, m.get_metadata(V.translated_top_module), fn
  finally:
    m.set_metadata(V.enable, False)

def vsig(v):
  """identity-faithful signature of an argument value (classes by identity: same-named classes must not be confused)"""
  if isinstance(v, type): return ('T', id(v))
  if isinstance(v, (list, tuple)): return (type(v).__name__,) + tuple(vsig(x) for x in v)
  return repr(v)

def has_type_container(v):
  return isinstance(v, (list, tuple, set, frozenset, dict)) and any(isinstance(x, type) or has_type_container(x) for x in (v.values() if isinstance(v, dict) else v))

def eff_args(m):
  """the arguments construct() really received (recorded inside construct by the generated classes); fallback: signature binding"""
  a = getattr(m, '_c13_args', None)
  return list(a) if a is not None else params_of(m)

def subtree_sig(m, memo):
  """(class, effective arguments, children...) — equal signatures = identically constructed sub-hierarchies"""
  if id(m) not in memo:
    kids = sorted(m.get_child_components(repr), key=repr)
    from pymtl3.passes.backends.verilog import VerilogTranslationPass as V
    expl = m.get_metadata(V.explicit_module_name) if m.has_metadata(V.explicit_module_name) else ''
    memo[id(m)] = (id(type(m)), tuple((k, vsig(v)) for k, v in eff_args(m)), tuple((repr(c)[len(repr(m)):], subtree_sig(c, memo)) for c in kids), expl or '')
  return memo[id(m)]

WORKER = r'''
import sys, json, os, importlib.util, tempfile
from pymtl3.passes.backends.verilog import VerilogTranslationPass as V, VerilogPlaceholderPass
jobs = json.load(open(sys.argv[1]))
os.chdir(tempfile.mkdtemp(prefix='c13w-', dir=sys.argv[2]))
sys.path.insert(0, sys.argv[2])
out = {}
def fresh(mod, cls):
  top = mod.build() if hasattr(mod, 'build') else getattr(mod, cls)()
  if not getattr(top, '_c13_done', False): top.elaborate()
  top.apply(VerilogPlaceholderPass())
  return top
for k, job in enumerate(jobs):
  path, cls, multi = (list(job) + [[]])[:3]
  try:
    spec = importlib.util.spec_from_file_location('c13w_' + cls, path)
    mod = importlib.util.module_from_spec(spec); sys.modules['c13w_' + cls] = mod
    spec.loader.exec_module(mod)
    res = []
    if multi:
      # several separately enabled sub-trees in ONE pass run, before anything else of this design was translated here
      top = fresh(mod, cls)
      ms = [eval('T' + p[1:], {'T': top}) for p in multi]
      for m in ms: m.set_metadata(V.enable, True)
      top.apply(V())
      res.append({p: [m.get_metadata(V.translated_top_module), m.get_metadata(V.translated_filename), open(m.get_metadata(V.translated_filename)).read()] for p, m in zip(multi, ms)})
    else:
      res.append({})
    for rep in range(2):
      top = fresh(mod, cls)
      top.set_metadata(V.enable, True)
      top.apply(V())
      res.append(open(top.get_metadata(V.translated_filename)).read())
    out[cls] = res
  except Exception as e:
    out[cls] = [{}, 'EXC ' + type(e).__name__ + ' ' + str(e)[:200]]
json.dump(out, open(sys.argv[3], 'w'))
'''

def run_workers(ctx, jobs, seeds):
  """translate every (path, class) twice in a fresh interpreter per hash seed; returns {seed: {cls: [text, text]}}"""
  wp = ctx.scratch / 'c13_worker.py'
  if not wp.exists():
    tmp = ctx.scratch / f'c13_worker_{os.getpid()}_{hashlib.sha1(repr((jobs, seeds)).encode()).hexdigest()[:8]}.tmp'
    tmp.write_text(WORKER); os.replace(tmp, wp)          # atomic: workers are started from several threads
  jp = ctx.scratch / f'c13_jobs_{len(jobs)}_{hashlib.sha1(json.dumps([jobs, seeds]).encode()).hexdigest()[:10]}.json'; jp.write_text(json.dumps(jobs))
  def one(seed):
    env = dict(os.environ); env['PYTHONHASHSEED'] = str(seed); env['PYTHONPATH'] = str(REPO); env['PYTHONDONTWRITEBYTECODE'] = '1'
    op = Path(str(jp) + f'.{seed}.out')
    p = subprocess.run(['timeout', '600', PY, str(wp), str(jp), str(ctx.scratch), str(op)], env=env, stdout=subprocess.PIPE, stderr=subprocess.PIPE, text=True, timeout=660)
    if p.returncode != 0 or not op.exists(): raise RuntimeError(f'worker (PYTHONHASHSEED={seed}) failed: {p.stderr[-800:]}')
    return json.loads(op.read_text())
  with ThreadPoolExecutor(max_workers=4) as ex:
    return dict(zip(seeds, ex.map(one, seeds)))

def walk(top):
  """[(component, parent, instance id in the parent's module)] in hierarchy order, top first (parent None)"""
  out = [(top, None, None)]
  def rec(m):
    for ch in sorted(m.get_child_components(repr), key=repr):
      idx = ''.join(f'__{i}' for i in ch._dsl._my_indices) if getattr(ch._dsl, '_my_indices', None) else ''
      out.append((ch, m, ch._dsl._my_name + idx)); rec(ch)
  rec(top)
  return out

# ====================================================================== the check
def first_diff_line(a, b):
  la, lb = a.split('\n'), b.split('\n')
  for i, (x, y) in enumerate(zip(la, lb)):
    if x != y: return i + 1, x[:160], y[:160]
  return min(len(la), len(lb)) + 1, '<end>', '<end>'

def classify_scope(m):
  """python-side diagnosis (the decision is Coq's): duplicate identifiers of a module scope, by category pair"""
  seen, dups = {}, []
  for nm, cat in m['decls']:
    if nm in seen: dups.append((nm, tuple(sorted((seen[nm], cat)))))
    else: seen[nm] = cat
  return dups

# which injected hazard is expected to produce which kind of finding; a finding in a design WITHOUT that hazard gets its own key
EXPECTED_FROM = {
  'C13:same-classname-different-body': {'same-name-diff-body'},
  'C13:same-class-colliding-params-different-body': {'colliding-params'},
  'C13:illegal-module-name:shape': {'neg-param', 'odd-param'},
  'C13:dup-ident-signal~subcomp-port-wire': {'wire-subport', 'port-subport'},
  'C13:dup-ident-signal~signal': {'ifc-port'},
  'C13:dup-ident-subcomp-port-wire~subcomp-port-wire': {'ifc-port'},
  'C13:dup-ident-block-label~signal': {'blk-sig'},
  'C13:dup-ident-tmpvar~tmpvar': {'tmpvar'},
  'C13:dup-ident-instance~instance': {'arr-inst'},
  'C13:illegal-instance:reserved': {'reserved-inst'},
  'C13:illegal-struct-field:reserved': {'kw-structfield'},
  'C13:illegal-signal:reserved-since-1800-2009': {'sv2009-kw'},
  'C13:set-param-below-instance-different-body': {'deep-set-param'},
  'C13:container-of-types-param-different-body': {'list-of-struct-types'},
  'C13:nondeterministic-param-str-address': {'addr-param'},
  'C13:nondeterministic-param-str-set-order': {'frozenset-param'},
}
def vkey(key, feats):
  exp = EXPECTED_FROM.get(key)
  return key if exp and (exp & set(feats)) else key + ':without-injected-hazard'

def run(ctx):
  setup_impl_path()
  quick = ctx.tier == 'quick'
  rng = ctx.rng
  import pymtl3
  from pymtl3.passes.backends.verilog.util.utility import verilog_keyword
  sys.path.insert(0, str(ctx.scratch))
  auxmod = f'c13aux_{os.getpid()}'
  write_lib(ctx.scratch, auxmod)

  designs = []     # (name, feature set, expect_reject, source)
  for name, feat, rej, src in directed(auxmod): designs.append((name, {feat}, rej, src, 'directed'))
  nrand = 16 if quick else 420
  tph = {'start': time.time()}
  for j in range(nrand):
    dirty = (j % 2 == 1)
    g = HGen(random.Random(rng.randrange(1 << 30)), f'H{j}', dirty)
    src = g.source(auxmod)
    designs.append((f'H{j}', set(g.features), False, src, 'random-dirty' if dirty else 'random-clean'))

  intern = Interner()
  tab_defs, acc_cases, acc_meta = [], [], []
  name_cases, name_meta, hash_tbl = [], [], {}
  proviso_cases = []
  jobs, inproc, multi_ref = [], {}, {}
  ntrans = nrej = 0
  alone_cache_hits = 0
  for name, feats, expect_rej, src, kind in designs:
    path = ctx.scratch / f'c13d_{name}.py'
    path.write_text(src)
    try:
      cls, mod = sc.load_source(ctx, src, name)
    except Exception as e:
      ctx.note(f'design {name} could not be loaded: {e!r}'); continue
    # load_source writes its own file; the workers import `path` — the update-block comments carry the file path, so the
    # in-process text is compared after normalising that path only
    build = getattr(mod, 'build', cls)
    try:
      top = build(); txt, topmod = translate_obj(top)
    except Exception as e:
      nrej += 1
      ctx.count((name, 'rejected', type(e).__name__), True, cls='rejected:' + ('expected' if expect_rej else type(e).__name__))
      if not expect_rej:
        ctx.note(f'design {name} ({sorted(feats)}) was not translated: {type(e).__name__}: {str(e)[:160]}')
      continue
    if expect_rej:
      ctx.note(f'design {name}: a reserved word was expected to be rejected but the design was translated')
    ntrans += 1
    inproc[name] = (txt, mod.__file__, str(path), mod.__name__)
    for f in feats: ctx.hist['feature:' + f] = ctx.hist.get('feature:' + f, 0) + 1
    # ---- (a) parse the real output into the module table
    try:
      tbl = parse_sv(txt)
    except ParseError as e:
      ctx.violation(f'C13:unparsable-output:{type(e).__name__}', f'design {name}: emitted file could not be parsed into a module table: {e}',
                    {'design_source': src, 'top': name, 'output': txt[-3000:]})
      continue
    modidx = {}
    for m in tbl['mods']: modidx.setdefault(m['name'], m)
    # ---- (b) every instance alone
    insts, detail = [], []
    comps = walk(top)
    used_name = {id(top): topmod}
    alone, sigmemo, top2 = {}, {}, None
    seq_files = []          # sub-trees translated one after the other as separate tops into ONE directory
    below_misbound = set()
    for (m, parent, iid) in comps[1:]:
      if id(parent) in below_misbound: below_misbound.add(id(m)); continue
      pm = modidx.get(used_name.get(id(parent)))
      cand = [a for a, b in pm['insts'] if b == iid] if pm else []
      if len(cand) != 1:
        used_name[id(m)] = cand[0] if cand else None
        if not cand: continue
      used_name[id(m)] = cand[0]
      key = subtree_sig(m, sigmemo)
      if key not in alone:
        try:
          # the SAME instance of an identically built second hierarchy (same arguments, same set_param calls), translated as a top
          if top2 is None: top2 = prepared(build())
          atxt, amod, afn = translate_sub(top2, repr(m), keep=True)
          seq_files.append((repr(m), afn, amod, atxt))
          at = parse_sv(atxt)
          am = next((x for x in at['mods'] if x['name'] == amod), None)
          alone[key] = (amod, am['body'] if am else None, atxt, afn)
        except Exception as e:
          alone[key] = (None, None, None, None); ctx.note(f'{name}: instance {m} could not be translated alone: {type(e).__name__}')
      else:
        alone_cache_hits += 1
      amod, abody = alone[key][:2]
      if abody is None: continue
      # the module ACTUALLY instantiated for this instance in the parent's text must have the body the instance has alone
      insts.append((cand[0], intern(abody)))
      ea = eff_args(m)
      detail.append((repr(m), cand[0], type(m), key, intern(abody), amod, key[1], any(has_type_container(v) for _, v in ea)))
      if cand[0] in modidx and intern(modidx[cand[0]]['body']) != intern(abody):
        # this instance is bound to a body that is not its own (reported through sharing_ok): the instantiations read from that body
        # say nothing about ITS children, so they are not judged separately
        below_misbound.add(id(m))
    # ---- after ALL these translations: every recorded translated_filename must still hold the text written for that top (a later
    #      translation of a different module must not have replaced it).  Tops whose MODULE NAMES alias are judged by sharing_ok.
    for pth, fn, amod, atxt in seq_files:
      aliased = any(a2 == amod and t2 != atxt for _, _, a2, t2 in seq_files)
      try: now = open(fn).read()
      except OSError: now = None
      if now != atxt and not aliased:
        other = next((p2 for p2, f2, a2, t2 in seq_files if t2 == now), '?')
        ctx.violation(vkey('C13:output-file-overwritten-by-other-module', feats), f'design {name}: sub-tree {pth} was translated as its own top into {os.path.basename(fn)} (module {amod!r}); after the other sub-trees of the design were '
                      f'translated one after the other into the same directory, that file holds the text written for {other}: translated_filename no longer defines translated_top_module',
                      {'design_source': src, 'top': name, 'subtree': pth, 'file': os.path.basename(fn), 'module': amod, 'overwritten_by': other})
        break
    for fn in {f for _, f, _, _ in seq_files}:
      if os.path.exists(fn): os.remove(fn)
    # ---- ONE pass run with several separately enabled sub-trees: each file must equal the sub-tree translated alone, and the
    #      emitted file SET must define every module name with one body (functional_b in Coq) and be well formed file by file
    from pymtl3.passes.backends.verilog import VerilogPlaceholder as _VP
    direct = [m for (m, parent, iid) in comps[1:] if parent is top and id(m) in sigmemo and alone.get(sigmemo[id(m)], (None,) * 4)[2] is not None]
    multi_paths = []
    if len(direct) >= 2 and (kind == 'directed' or 'placeholder' in feats or int(hashlib.sha1(name.encode()).hexdigest(), 16) % 2 == 0 or not quick):
      mrng = random.Random(hashlib.sha1((name + str(ctx.seed)).encode()).hexdigest())
      ph = [m for m in direct if isinstance(m, _VP)]
      S = mrng.sample(direct, min(len(direct), mrng.choice([2, 3, 4])))
      if ph:
        # order matters inside one pass run (sub-trees are visited in repr order): a placeholder top with an ordinary sub-tree
        # after it and one before it, whenever the design has them
        p_ = mrng.choice(ph)
        later = [m for m in direct if not isinstance(m, _VP) and repr(m) > repr(p_)]
        earlier_ = [m for m in direct if not isinstance(m, _VP) and repr(m) < repr(p_)]
        S += [p_] + ([mrng.choice(later)] if later else []) + ([mrng.choice(earlier_)] if earlier_ else [])
        S = list({id(m): m for m in S}.values())
      # two sub-trees that already alias each other (same alone MODULE NAME, different alone text) are judged by the sharing check
      # of the whole design; enabling both would only make one overwrite the other
      seenf, S2 = {}, []
      for m in sorted(S, key=repr):
        a_ = alone[sigmemo[id(m)]]
        if seenf.setdefault(a_[0], a_[2]) == a_[2]: S2.append(m)
      S = S2
      multi_paths = [repr(m) for m in S]
      try:
        mres = translate_multi(prepared(build()), multi_paths)
      except Exception as e:
        mres = None; ctx.note(f'{name}: multi-enable run {multi_paths} failed: {type(e).__name__}: {str(e)[:120]}')
      if mres is not None:
        fileset, pairs = {}, []
        for m in S:
          pth = repr(m); mn, fn, mtxt = mres[pth]
          amod, abody, atxt, afn = alone[sigmemo[id(m)]]
          ctx.count((name, 'multi', pth), True, cls='multi-enable-subtree')
          if mn != amod or mtxt != atxt or os.path.basename(fn) != os.path.basename(afn):
            ln, x, y = first_diff_line(atxt, mtxt)
            ctx.violation(vkey('C13:multi-enable-differs-from-alone', feats), f'design {name}: sub-tree {pth} translated in one pass run together with {[q for q in multi_paths if q != pth]} is module {mn!r} in file '
                          f'{os.path.basename(fn)}, but translated alone it is {amod!r} in {os.path.basename(afn)}' + ('' if mtxt == atxt else f'; texts differ from line {ln}: {x!r} vs {y!r}'),
                          {'design_source': src, 'top': name, 'enabled': multi_paths, 'subtree': pth, 'together': [mn, os.path.basename(fn)], 'alone': [amod, os.path.basename(afn)]})
          fileset.setdefault(os.path.basename(fn), []).append((pth, mtxt))
        ftabs = []
        for fn, lst in sorted(fileset.items()):
          try: ftabs.append((fn, parse_sv(lst[-1][1])))
          except ParseError as e:
            ctx.violation('C13:unparsable-output:multi', f'design {name}: file {fn} of a multi-enable run could not be parsed: {e}', {'design_source': src, 'top': name, 'enabled': multi_paths})
        for fn, ft in ftabs:
          for md in ft['mods']: pairs.append((md['name'], intern(md['body'])))
          for tn_, bl_ in ft['typebody'].items(): pairs += [('typedef ' + tn_, intern(b_)) for b_ in bl_]
          k = len(tab_defs)
          last = fn == ftabs[-1][0] and not below_misbound      # the name -> body map of the whole file set is judged once, with the last file (not when the design already aliases)
          tab_defs.append(f'Definition t{k} : table := {table_term(ft, intern)}.\nDefinition i{k} : list inst := [].\n'
                          f'Definition f{k} : list inst := {coq_list([f"({cstr(a)}, {b})" for a, b in pairs]) if last else "[]"}.')
          acc_cases += [f'({cj}%nat, (t{k}, i{k}))' for cj in range(4)] + [f'(6%nat, (t{k}, f{k}))', f'(7%nat, (t{k}, f{k}))']
          acc_meta.append((f'{name}[{fn}]', src, feats | {'multi-enable'}, ft, [], lst[-1][1], 'multi-file', multi_paths, list(pairs) if last else []))
        multi_ref[name] = {repr(m): (alone[sigmemo[id(m)]][0], os.path.basename(alone[sigmemo[id(m)]][3]), alone[sigmemo[id(m)]][2]) for m in S}
    # structural cause: an ordinary instance that carries explicit_module_name while another instance shares its definition
    expl_groups = {d[3][:3] for d in detail if d[3][3] and not issubclass(d[2], _VP)}
    if any(sum(1 for d in detail if d[3][:3] == g) > 1 for g in expl_groups): feats = feats | {'explicit-name-on-shared-definition'}
    jobs.append((str(path), name, multi_paths if name in multi_ref else []))
    # ---- every emitted module other than the top must be instantiated somewhere (an orphan means an instance was bound elsewhere)
    usedmods = {a for m in tbl['mods'] for a, _ in m['insts']} | {topmod}
    orphans = sorted(m['name'] for m in tbl['mods'] if m['name'] not in usedmods)
    if orphans:
      # with set_param below a child the orphan IS the child's correctly named module that the shared parent body never instantiates
      ctx.violation('C13:set-param-below-instance-different-body' if 'deep-set-param' in feats else 'C13:module-never-instantiated',
                    f'design {name}: module(s) {orphans} are emitted but no instance uses them' + (' (set_param below a child: the parent module is shared, so the re-parametrised grandchild module is never instantiated)' if 'deep-set-param' in feats else ''),
                    {'design_source': src, 'top': name, 'modules': orphans})
    k = len(tab_defs)
    tab_defs.append(f'Definition t{k} : table := {table_term(tbl, intern)}.\nDefinition i{k} : list inst := {coq_list([f"({cstr(a)}, {b})" for a, b in insts])}.')
    for cj in range(6): acc_cases.append(f'({cj}%nat, (t{k}, i{k}))')
    acc_meta.append((name, src, feats, tbl, detail, txt, kind))
    ctx.count((name, 'table', hashlib.sha1(txt.encode()).hexdigest()), True, cls=kind)
    # ---- same class + same arguments must share one definition
    byarg = {}
    for d in detail:
      if d[3][:3] not in expl_groups: byarg.setdefault(d[3], set()).add(d[1])
    for key, names in byarg.items():
      if len(names) > 1:
        ctx.violation('C13:same-class-same-params-not-shared', f'design {name}: instances of one class with equal arguments got different module names {sorted(names)}',
                      {'design_source': src, 'top': name, 'names': sorted(names)})
    # ---- (c) name model
    for (m, parent, iid) in comps:
      obs = used_name.get(id(m))
      if obs is None or (parent is not None and id(parent) in below_misbound): continue
      from pymtl3.passes.backends.verilog import VerilogPlaceholder as _VP, VerilogTranslationPass as _VT
      if parent is not None and not isinstance(m, _VP) and m.has_metadata(_VT.explicit_module_name) and m.get_metadata(_VT.explicit_module_name):
        # an ordinary child with an explicit module name must be instantiated under exactly that name
        if obs != m.get_metadata(_VT.explicit_module_name):
          ctx.violation('C13:explicit-name-not-used', f'design {name}: instance {m} has explicit_module_name {m.get_metadata(_VT.explicit_module_name)!r} but is instantiated as {obs!r}',
                        {'design_source': src, 'top': name, 'instance': repr(m)})
        continue
      try:
        ps = [(k_, render_value(v)) for k_, v in eff_args(m)]
      except Exception as e:
        ctx.note(f'{name}: parameters of {m} not rendered: {e!r}'); continue
      if any('0x' in v and ' at ' in v for _, v in ps) or 'set(' in ''.join(v for _, v in ps): continue   # address / set-order dependent: see determinism
      pstr = ''.join(f'__{a}_{b}' for a, b in ps) if ps else '_noparam'
      try: hash_tbl[pstr] = digest(pstr)
      except UnicodeEncodeError: continue
      pterm = coq_list([f'({cstr(a)}, {cstr(b)})' for a, b in ps])
      name_cases.append(f'({cstr(type(m).__name__)}, {pterm}, {cstr(obs)})')
      name_meta.append((name, repr(m), type(m).__name__, ps, obs, src))
      proviso_cases.append(f'({cstr(type(m).__name__)}, {pterm})')
      ctx.count((type(m).__name__, tuple(ps)), True, cls='name-case')
  tph['designs'] = time.time()
  # ---------------- reserved-word sweep: IEEE 1800-2017 keywords as the name of EVERY declaration shape (scalar / 1-D / 2-D lists
  # of ports and wires, struct-typed signals, interfaces and their members, sub-components and lists of them, ports of
  # sub-components, struct fields and struct names, block names, temporaries, free variables, loop variables), used only
  # structurally (connections) or touched by an update block.  Each small design must be rejected by the translator, or its
  # table must pass idents_legal_b (decided in Coq below).  thorough: the complete product; quick: the complete keyword list
  # for scalar ports and block names, every shape x (a rotating twelfth of the list + a fixed set of common keywords).
  import keyword as pykw
  kws = sorted(SV2017)
  combos = [('conn', sh) for sh in KW_CONN_SHAPES] + [('blk', sh) for sh in KW_BLK_SHAPES]
  def wanted(ci, use, sh, ki, kw):
    if (use, sh) in (('conn', 'port'), ('blk', 'blockname')) or kw in KW_COMMON: return True
    if not quick:
      # thorough: the complete product, except that temporaries / free variables / signal reads at NESTED positions (their
      # top-level forms are complete) take a rotating third of the list
      return not (sh.split('_')[0] in ('tmpvar', 'freevar', 'sigread') and not sh.endswith('_top')) or ki % 3 == ci % 3
    if sh.split('_')[0] in ('tmpvar', 'freevar') or sh in ('ifc', 'ifc1d', 'ifcmember', 'inst1d', 'structname'): return False     # always mangled with a prefix/suffix: common keywords only in the quick tier
    return ki % 12 == ci % 12
  todo = [(use, sh, kw) for ci, (use, sh) in enumerate(combos) for ki, kw in enumerate(kws) if wanted(ci, use, sh, ki, kw)
          and not (pykw.iskeyword(kw) and (use == 'blk' or sh in ('inst', 'inst1d')))]      # not writable in source / the translator eval()s `m.<name>`
  # control: every shape with a legal, non-reserved name must translate — a rejected control means the SHAPE is not
  # translatable and its keyword cases say nothing
  todo = [(use, sh, 'c13ok') for use, sh in combos] + todo
  ksrc = KW_SRC + ''.join(kw_blk_class(sh, kw) for use, sh, kw in todo if use == 'blk')
  sweep = {'rejected': 0, 'emitted': 0}
  try:
    KwDecl, kmod = sc.load_source(ctx, ksrc, 'KwDecl')
    for use, sh, kw in todo:
      mk = (lambda sh=sh, kw=kw: KwDecl(kw, sh)) if use == 'conn' else getattr(kmod, f'KwUse_{sh}_{kw}')
      dn = f'KW_{use}_{sh}_{kw}'
      feats = {'kw-sweep', 'reserved-inst', 'kw-structfield'} | ({'sv2009-kw'} if kw in LACKING_2009 else {'kw-must-be-rejected'})
      try:
        txt, topmod = translate_obj(mk())
      except Exception as e:
        if kw == 'c13ok':
          sweep.setdefault('control_shapes_not_translatable', []).append(f'{use}:{sh}: {type(e).__name__}: {str(e).strip().splitlines()[-1][:80]}'); continue
        sweep['rejected'] += 1; ctx.count((dn, 'rejected'), True, cls=f'kw-sweep:{use}:rejected')
        why = 'reserved-keyword-error' if 'reserved keyword' in str(e) else type(e).__name__
        sweep['rejected:' + why] = sweep.get('rejected:' + why, 0) + 1
        continue
      sweep['emitted'] += 1
      ctx.count((dn, 'emitted'), True, cls=f'kw-sweep:{use}:translated')
      sweep[f'emitted:{use}:{sh}'] = sweep.get(f'emitted:{use}:{sh}', 0) + 1
      try:
        tbl = parse_sv(txt)
      except ParseError as e:
        ctx.violation(f'C13:unparsable-output:kw-sweep', f'keyword {kw!r} as {sh} name ({use}): emitted file could not be parsed: {e}', {'top': dn, 'keyword': kw, 'shape': sh, 'use': use, 'output': txt[-2000:]})
        continue
      k = len(tab_defs)
      tab_defs.append(f'Definition t{k} : table := {table_term(tbl, intern)}.\nDefinition i{k} : list inst := [].')
      for cj in range(6): acc_cases.append(f'({cj}%nat, (t{k}, i{k}))')
      one = KW_SRC + (kw_blk_class(sh, kw) if use == 'blk' else '') + f'\n# reserved word {kw!r} names a declaration of shape {sh!r}, use: {use}\ndef {dn}(): return ' + (f'KwUse_{sh}_{kw}()' if use == 'blk' else f"KwDecl( {kw!r}, {sh!r} )") + '\n'
      acc_meta.append((dn, one, feats, tbl, [], txt, 'kw-sweep'))
  except Exception as e:
    ctx.violation('C13:harness-crash', f'reserved-word sweep could not run: {e!r}', {'traceback': traceback.format_exc()}, found_input=False)
  ctx.extra['keyword_sweep'] = dict(sweep, keywords=len(kws), designs=len(todo), shapes_structural=KW_CONN_SHAPES, shapes_in_update_block=list(KW_BLK_SHAPES))
  ctx.extra.update({'designs_generated': len(designs), 'designs_translated': ntrans, 'designs_rejected_by_translator': nrej})
  if ntrans < 0.7 * len(designs):
    ctx.violation('C13:harness-crash', f'only {ntrans} of {len(designs)} generated designs were translated: no correspondence', {'notes': ctx.notes[:10]}, found_input=False)

  tph['sweep'] = time.time()
  # ---------------- Coq: acceptor on the real tables + sharing
  CONJ = '''
Definition conj (c : nat * (table * list inst)) : bool :=
  let '(k, (t, l)) := c in
  match k with 0%nat => defined_once_b t | 1%nat => insts_defined_b t | 2%nat => idents_legal_b t | 3%nat => scopes_unique_b t
  | 4%nat => sharing_ok t l | 6%nat => functional_b l | 7%nat => modules_ok t && functional_b l | _ => modules_ok t && sharing_ok t l end.
'''
  def coq_tables(tag, tabs, slots, group):
    """evaluate the case slots of the given tables; every coqc file only carries the definitions of its own tables"""
    groups = [tabs[i:i + group] for i in range(0, len(tabs), group)]
    def one(gi):
      g = groups[gi]
      cases = [acc_cases[t * 6 + sl] for t in g for sl in slots]
      b = ctx.coq_bad_indices(f'{tag}{gi}', 'Base.Prelude SV.Modules', COQ_DEFS + '\n'.join(tab_defs[t] for t in g) + CONJ, 'nat * (table * list inst)', cases, 'conj c', shard=len(cases) + 1, jobs=1)
      return {g[i // len(slots)] * 6 + slots[i % len(slots)] for i in b}
    with ThreadPoolExecutor(max_workers=8) as ex:
      return set().union(*ex.map(one, range(len(groups)))) if groups else set()
  # stage 1: the whole acceptor (modules_ok && sharing_ok, resp. modules_ok && functional_b) once per table;
  # stage 2: the separate conjuncts, only for the tables it rejects
  bad = coq_tables('accw', list(range(len(acc_meta))), [5], 24)
  bad |= coq_tables('accc', sorted({i // 6 for i in bad}), [0, 1, 2, 3, 4], 12)
  rejected_designs = sorted({i // 6 for i in bad})
  for di in rejected_designs:
    if not any(di * 6 + c in bad for c in range(5)):
      ctx.violation('C13:harness-crash', f'modules_ok && sharing_ok disagrees with its conjuncts on design {acc_meta[di][0]}', {'design': acc_meta[di][0]}, found_input=False)
  bykind = {}
  for di in rejected_designs: bykind[acc_meta[di][6]] = bykind.get(acc_meta[di][6], 0) + 1
  ctx.extra['tables_rejected_by_kind'] = bykind
  ctx.extra['tables_accepted_by_kind'] = {k: sum(1 for m in acc_meta if m[6] == k) - bykind.get(k, 0) for k in ('directed', 'random-clean', 'random-dirty', 'kw-sweep', 'multi-file')}
  ctx.extra['tables_checked_in_coq'] = len(acc_meta)
  ctx.extra['tables_rejected_by_modules_ok_or_sharing_ok'] = len(rejected_designs)
  for di in rejected_designs:
    name, src, feats, tbl, detail, txt, kind = acc_meta[di][:7]
    failed = [c for c in range(5) if di * 6 + c in bad]
    rep = {'design_source': src, 'top': name, 'features': sorted(feats), 'failed_conjuncts': [['defined-once', 'instantiated-defined', 'identifiers-legal', 'scope-unique', 'sharing'][c] for c in failed]}
    found = False
    names = [m['name'] for m in tbl['mods']]
    if 0 in failed:
      d = sorted({n for n in names if names.count(n) > 1}); found = True
      ctx.violation(vkey('C13:module-defined-twice', feats), f'design {name}: module(s) {d} defined more than once in the emitted file', dict(rep, modules=d))
    if 1 in failed:
      d = sorted({a for m in tbl['mods'] for a, _ in m['insts'] if a not in names}); found = True
      if 'explicit-name-on-shared-definition' in feats:
        ctx.violation('C13:explicit-name-on-shared-definition-undefined-module', f'design {name}: one of several instances that share a definition (same class, same arguments) carries explicit_module_name; the definition is '
                      f'emitted under one name only, so instantiated module(s) {d} are not defined in the emitted file', dict(rep, modules=d))
      else:
        ctx.violation(vkey('C13:undefined-module', feats), f'design {name}: instantiated module(s) {d} are not defined in the emitted file', dict(rep, modules=d))
    if 2 in failed:
      items = [(n, 'module-name') for n in names] + [(n, 'type-name') for n, _ in tbl['types']] + [(f, 'struct-field') for _, fs in tbl['types'] for f in fs]
      for m in tbl['mods']: items += list(m['decls']) + [(x, 'loop-var') for l in m['loops'] for x in l]
      for nm, cat in items:
        if not ID.match(nm):
          found = True
          ctx.violation(vkey(f'C13:illegal-{cat}:shape', feats), f'design {name}: {cat} {nm!r} is not a legal SystemVerilog identifier', dict(rep, identifier=nm, category=cat))
        elif nm in SV2017:
          found = True
          why = 'reserved-since-1800-2009' if nm in LACKING_2009 else 'reserved'
          if cat == 'instance': key_ = vkey('C13:illegal-instance:reserved', feats)                       # sub-component names are never checked
          elif cat == 'struct-field': key_ = vkey('C13:illegal-struct-field:reserved', feats)             # bitstruct field names are never checked (when used structurally)
          elif nm in LACKING_2009: key_ = vkey('C13:illegal-signal:reserved-since-1800-2009', feats)     # keywords pymtl3's table never had
          else: key_ = f'C13:illegal-{cat}:reserved:{nm}'                                                # a keyword pymtl3 is meant to reject
          ctx.violation(key_, f'design {name}: {cat} {nm!r} is a SystemVerilog reserved word ({why}) but was emitted as an identifier', dict(rep, identifier=nm, category=cat))
    if 3 in failed:
      for m in tbl['mods']:
        for nm, pair in classify_scope(m):
          found = True
          ctx.violation(vkey(f'C13:dup-ident-{pair[0]}~{pair[1]}', feats), f'design {name}: module {m["name"]} declares identifier {nm!r} twice ({pair[0]} and {pair[1]}): names collide after mangling',
                        dict(rep, module=m['name'], identifier=nm, categories=list(pair)))
      unit = names + [n for n, _ in tbl['types']]
      for nm in sorted({n for n in unit if unit.count(n) > 1} - {n for n in names if names.count(n) > 1}):
        found = True
        ctx.violation(vkey('C13:dup-ident-unit-scope', feats), f'design {name}: {nm!r} is declared twice in the compilation unit', dict(rep, identifier=nm))
    if 4 in failed and kind == 'multi-file':
      prs = acc_meta[di][8]
      for nm in sorted({a for a, b in prs if len({y for x, y in prs if x == a}) > 1}):
        found = True
        ctx.violation(vkey('C13:file-set-module-name-two-bodies', feats), f'design {name}: one pass run with sub-trees {acc_meta[di][7]} enabled emits module {nm!r} with different bodies in different files: a module name aliases different hardware',
                      dict(rep, enabled=acc_meta[di][7], module=nm))
    elif 4 in failed:
      bodies = {m['name']: intern(m['body']) for m in reversed(tbl['mods'])}
      for d in detail:
        path, mn, cls_, key, b, amod, own, tcont = d
        if mn not in bodies:
          found = True; continue          # bound to an undefined module: reported by the instantiated-defined conjunct
        if bodies.get(mn) != b and amod != mn:
          found = True
          ctx.violation('C13:instance-bound-to-other-module', f'design {name}: instance {path} is instantiated as module {mn!r} in its parent, but translated alone it is module {amod!r} '
                        f'and its body differs from the definition of {mn!r}: the instance gets the hardware of a differently parametrised component',
                        dict(rep, instance=path, module=mn, own_module=amod))
        elif bodies.get(mn) != b:
          found = True
          grp = [x for x in detail if x[1] == mn]
          others = {id(x[2]) for x in grp}
          if len(others) > 1:
            key_, why = 'C13:same-classname-different-body', 'distinct classes with the same __name__ and parameters'
          elif len(grp) == 1:
            key_, why = 'C13:definition-differs-from-instance-alone', 'no other instance uses this module name, yet the emitted definition (module text plus the typedefs it refers to) is not what this instance yields when translated alone: a struct type name aliases another layout, or the text depends on what was translated before'
          elif len({x[6] for x in grp}) == 1:
            key_, why = 'C13:set-param-below-instance-different-body', 'one class, identical own arguments, but construct() arguments of a sub-component were changed with set_param below this instance: the module name does not reflect it'
          elif any(x[7] for x in grp):
            key_, why = 'C13:container-of-types-param-different-body', 'one class; a list/tuple-of-types argument is rendered with str(), which prints same-named (struct) classes identically'
          else:
            key_, why = 'C13:same-class-colliding-params-different-body', 'one class, different arguments rendering to the same name'
          ctx.violation(vkey(key_, feats), f'design {name}: instance {path} is given module {mn!r}, but translated alone its body differs from the definition emitted '
                        f'under that name ({why}): the instance silently gets another component\'s hardware',
                        dict(rep, instance=path, module=mn))
    if not found:
      ctx.violation(f'C13:acceptor-reject:{"+".join(map(str, failed))}', f'design {name}: Coq acceptor rejects the module table (conjuncts {rep["failed_conjuncts"]}) but the harness diagnosis found no offender',
                    dict(rep, output=txt[-2500:]))
  for d in [x for meta in acc_meta for x in meta[4] if x[5] != x[1]][:20]:
    ctx.note(f'instance {d[0]}: module name in hierarchy {d[1]!r} != name when translated alone {d[5]!r} (bodies are compared all the same)')
  if acc_meta:
    nm, src, feats, tbl, detail, txt, kind = acc_meta[min(4, len(acc_meta) - 1)][:7]
    ctx.sample({'design': nm, 'features': sorted(feats), 'modules': [(m['name'], [a for a, _ in m['insts']], [d for d, _ in m['decls']][:14]) for m in tbl['mods']][:8],
                'typedefs': tbl['types'][:4]})

  tph['coq-acc'] = time.time()
  # ---------------- Coq: module-name model vs observed names
  H = coq_list([f'({cstr(k)}, {cstr(v)})' for k, v in sorted(hash_tbl.items())])
  ndefs = COQ_DEFS + f'Definition H : list (str * str) := {H}.\n'
  if name_cases:
    with ThreadPoolExecutor(max_workers=3) as ex:          # three independent coqc evaluations
      f_h = ex.submit(ctx.coq_eval, 'hinj', 'Base.Prelude SV.Modules', ndefs, ['inj_table_b H && forallb (fun kv => no_us (snd kv)) H'])
      f_n = ex.submit(ctx.coq_bad_indices, 'names', 'Base.Prelude SV.Modules', ndefs, 'str * list param * str', name_cases,
                      "let '(cl, ps, obs) := c in str_eqb (unique_name (assoc H) cl ps) obs", 400)
      f_p = ex.submit(ctx.coq_bad_indices, 'proviso', 'Base.Prelude SV.Modules', ndefs, 'str * list param', proviso_cases, "name_ok (fst c) && forallb param_ok (snd c)", 400)
      hb, nb, out = f_h.result(), f_n.result(), f_p.result()
    if hb != ['true']:
      ctx.violation('C13:digest-collision', 'two different parameter strings observed in this run have the same blake2b-64 digest (oracle not injective on observed inputs)', {'table_size': len(hash_tbl)})
    for i in nb[:5]:
      dn, path, cn, ps, obs, src = name_meta[i]
      ctx.violation(f'C13:name-model:{cn}', f'design {dn}: instance {path} ({cn}, parameters {ps}) is emitted as module {obs!r}; the model full_name/unique_name gives another name',
                    {'design_source': src, 'top': dn, 'class': cn, 'params': ps, 'observed': obs})
    ctx.extra['instances_named'] = len(name_cases)
    ctx.extra['instances_inside_injectivity_proviso'] = len(name_cases) - len(out)
    ctx.extra['instances_named_through_hashing_branch'] = sum(1 for c in name_meta if c[4] != c[2] + (''.join(f'__{a}_{b}' for a, b in c[3]) if c[3] else '_noparam'))
    ctx.sample({'name_case': name_meta[len(name_meta) // 2][2:5]})
  # pymtl3's keyword list must be part of the list the acceptor uses
  missing = sorted(set(verilog_keyword) - SV2017)
  if missing: ctx.note(f'entries of pymtl3 verilog_keyword that are not IEEE 1800-2017 keywords: {missing}')
  ctx.extra['reserved_words_in_model_but_not_in_pymtl3'] = sorted(SV2017 - set(verilog_keyword))

  tph['coq-names'] = time.time()
  # ---------------- determinism: fresh processes, 4 hash seeds (differential, NOT proof)
  seeds = [1, 2, 4242, rng.randrange(5, 1 << 31)]
  feat_of = {m[0]: m[2] for m in acc_meta}
  src_of = {d[0]: d[3] for d in designs}
  try:
    res = run_workers(ctx, jobs, seeds)
  except Exception as e:
    ctx.violation('C13:harness-crash', f'determinism workers could not run: {e!r}', {'traceback': traceback.format_exc()}, found_input=False); res = {}
  single = {}
  try:
    pick = [j for j in jobs if j[1] in ('D_same_name_same_body', 'D_params_types', 'D_params_special', 'D_params_long')] + jobs[-(4 if quick else 24):]
    with ThreadPoolExecutor(max_workers=4) as ex:
      outs = list(ex.map(lambda js: run_workers(ctx, [js[0]], [js[1]]), [(j, sd) for j in pick for sd in (7, 1000003)]))
    for o in outs:
      for sd, d in o.items():
        for nm, r in d.items(): single.setdefault(nm, []).append((f'single-process-seed{sd}', r[1]))
  except Exception as e:
    ctx.violation('C13:harness-crash', f'single-design determinism workers could not run: {e!r}', {'traceback': traceback.format_exc()}, found_input=False)
  ctx.extra['designs_translated_in_their_own_fresh_process'] = len(single)
  ndet = 0
  for path, name, mpaths in jobs:
    texts = list(single.get(name, []))
    for sd in seeds:
      r = res.get(sd, {}).get(name)
      if r is None: continue
      for rep, t in enumerate(r[1:]): texts.append((f'seed{sd}#{rep}', t))
    base, _, lpath, mname = inproc[name]
    # several separately enabled sub-trees translated first thing in a fresh process == each sub-tree translated alone (in-process)
    for sd in seeds:
      mr = (res.get(sd, {}).get(name) or [{}])[0]
      for pth, (mn, fn, mtxt) in (mr.items() if isinstance(mr, dict) else []):
        amod, afn, atxt = multi_ref[name][pth]
        atxt = atxt.replace(_, lpath).replace(mname + '.', 'c13w_' + name + '.')
        ndet += 1
        if mn != amod or os.path.basename(fn) != afn or mtxt != atxt:
          ln, x, y = first_diff_line(atxt, mtxt)
          ctx.violation(vkey('C13:multi-enable-differs-from-alone', feat_of.get(name, set())), f'design {name}: sub-tree {pth} translated together with {[q for q in mpaths if q != pth]} in a fresh process (PYTHONHASHSEED={sd}) is module {mn!r} in '
                        f'{os.path.basename(fn)}; alone it is {amod!r} in {afn}; first difference at line {ln}: {x!r} vs {y!r}',
                        {'design_source': src_of.get(name), 'top': name, 'enabled': mpaths, 'subtree': pth})
    texts.append(('inproc-seed0', base.replace(_, lpath).replace(mname + '.', 'c13w_' + name + '.')))
    ndet += len(texts)
    ctx.count((name, 'determinism'), True, cls='determinism-design')
    ref = texts[0]
    for lab, t in texts[1:]:
      if t != ref[1]:
        ln, x, y = first_diff_line(ref[1], t)
        feats = feat_of.get(name, set())
        kind = 'param-str-address' if 'addr-param' in feats else 'param-str-set-order' if 'frozenset-param' in feats else 'output-differs'
        ctx.violation(vkey(f'C13:nondeterministic-{kind}', feats), f'design {name}: translation is not byte-identical between {ref[0]} and {lab} (first difference at line {ln}: {x!r} vs {y!r})',
                      {'design_source': src_of.get(name), 'top': name, 'runs': [ref[0], lab], 'line': ln, 'a': x, 'b': y,
                       'how': 'translate the design in two fresh interpreters with different PYTHONHASHSEED and diff the .v files'})
        break
  tph['determinism'] = time.time()
  ks = list(tph)
  ctx.extra['phase_seconds'] = {ks[i]: round(tph[ks[i]] - tph[ks[i - 1]], 1) for i in range(1, len(ks))}
  ctx.extra['determinism_translations_compared'] = ndet
  ctx.extra['determinism_hash_seeds'] = [0] + seeds
  ctx.extra['level_note'] = ('byte-identical output across processes / hash seeds is DIFFERENTIAL TESTING (4 fresh subprocesses + in-process, each design translated twice per process), not proof; '
                             'everything else is decided by Coq-evaluated certified acceptors on the real output')
  ctx.extra['alone_translations_cached'] = alone_cache_hits
  ctx.extra['finding_keys_this_run'] = sorted([v[0] for v in ctx.violations] + [h[0] for h in ctx.known_hits])

# the 27 IEEE 1800-2009/2012/2017 keywords that pymtl3's verilog_keyword table never contained (fixed here, NOT read from the
# implementation: a keyword that drops out of the implementation's table must not be classified as 'never there')
LACKING_2009 = set('''accept_on checker endchecker eventually global implements implies interconnect let nettype nexttime reject_on restrict
s_always s_eventually s_nexttime s_until s_until_with soft strong sync_accept_on sync_reject_on unique0 until until_with untyped weak'''.split())

SV2017 = set('''accept_on alias always always_comb always_ff always_latch and assert assign assume automatic before begin bind bins binsof bit
break buf bufif0 bufif1 byte case casex casez cell chandle checker class clocking cmos config const constraint context continue cover
covergroup coverpoint cross deassign default defparam design disable dist do edge else end endcase endchecker endclass endclocking
endconfig endfunction endgenerate endgroup endinterface endmodule endpackage endprimitive endprogram endproperty endspecify endsequence
endtable endtask enum event eventually expect export extends extern final first_match for force foreach forever fork forkjoin function
generate genvar global highz0 highz1 if iff ifnone ignore_bins illegal_bins implements implies import incdir include initial inout input
inside instance int integer interconnect interface intersect join join_any join_none large let liblist library local localparam logic
longint macromodule matches medium modport module nand negedge nettype new nexttime nmos nor noshowcancelled not notif0 notif1 null or
output package packed parameter pmos posedge primitive priority program property protected pull0 pull1 pulldown pullup
pulsestyle_ondetect pulsestyle_onevent pure rand randc randcase randsequence rcmos real realtime ref reg reject_on release repeat restrict
return rnmos rpmos rtran rtranif0 rtranif1 s_always s_eventually s_nexttime s_until s_until_with scalared sequence shortint shortreal
showcancelled signed small soft solve specify specparam static string strong strong0 strong1 struct super supply0 supply1 sync_accept_on
sync_reject_on table tagged task this throughout time timeprecision timeunit tran tranif0 tranif1 tri tri0 tri1 triand trior trireg type
typedef union unique unique0 unsigned until until_with untyped use uwire var vectored virtual void wait wait_order wand weak weak0 weak1
while wildcard wire with within wor xnor xor'''.split())

def replay(ctx, r):
  """re-translate the design of a replay file and print the parsed module table / the diagnosis; exit 1 while it still fails"""
  try:
    return _replay(ctx, r)
  finally:
    os.chdir('/'); shutil.rmtree(ctx.scratch, ignore_errors=True)

def _replay(ctx, r):
  setup_impl_path()
  rp = r.get('replay', {})
  src, topn = rp.get('design_source'), rp.get('top')
  if not src or not topn:
    print('replay file carries no design'); return 1
  sys.path.insert(0, str(ctx.scratch))
  m = re.search(r'^import (c13aux_\d+) as AUXMOD', src, re.M)
  if m: write_lib(ctx.scratch, m.group(1))
  cls, mod = sc.load_source(ctx, src, topn)
  build = getattr(mod, 'build', cls)
  top = build()
  txt, topmod = translate_obj(top)
  tbl = parse_sv(txt)
  print(txt)
  bad = 0
  top2 = prepared(build())
  orphans = sorted(x['name'] for x in tbl['mods'] if x['name'] not in ({a for y in tbl['mods'] for a, _ in y['insts']} | {topmod}))
  if orphans: print('emitted but never instantiated:', orphans); bad += 1
  names = [x['name'] for x in tbl['mods']]
  print('modules:', names)
  for md in tbl['mods']:
    d = classify_scope(md)
    ill = [n for n, _ in md['decls'] if not ID.match(n) or n in SV2017]
    undef = [a for a, _ in md['insts'] if a not in names]
    print('module', repr(md['name']), 'instantiates', md['insts'], '| duplicate identifiers', d, '| illegal identifiers', ill, '| undefined modules', undef)
    bad += len(d) + len(ill) + len(undef) + (0 if ID.match(md['name']) and md['name'] not in SV2017 else 1)
  bad += len(names) - len(set(names))
  for tn, fs in tbl['types']:
    ill = [x for x in [tn] + fs if not ID.match(x) or x in SV2017]
    print('typedef', repr(tn), 'fields', fs, '| illegal identifiers', ill, '| duplicate fields', sorted({x for x in fs if fs.count(x) > 1}))
    bad += len(ill) + (len(fs) - len(set(fs)))
  modidx = {}
  for md in tbl['mods']: modidx.setdefault(md['name'], md)
  used = {id(top): topmod}
  for (m, parent, iid) in walk(top)[1:]:
    pm = modidx.get(used.get(id(parent)))
    cand = [a for a, b in pm['insts'] if b == iid] if pm else []
    if not cand: continue
    used[id(m)] = cand[0]
    try:
      atxt, amod, _fn = translate_sub(top2, repr(m))
      am = next((x for x in parse_sv(atxt)['mods'] if x['name'] == amod), None)
    except Exception as e:
      print(f'instance {m}: not translatable alone ({type(e).__name__})'); continue
    same = am is not None and cand[0] in modidx and am['body'] == modidx[cand[0]]['body']
    print(f'instance {m}: module {cand[0]!r}; alone it is {amod!r}; body identical to the shared definition: {same}')
    if not same: bad += 1
  if rp.get('enabled'):
    mres = translate_multi(prepared(build()), rp['enabled'])
    top4 = prepared(build())
    for pth, (mn, fn, mtxt) in mres.items():
      atxt, amod, afn = translate_sub(top4, pth)
      same = (mn, os.path.basename(fn), mtxt) == (amod, os.path.basename(afn), atxt)
      print(f'sub-tree {pth}: together with {[q for q in rp["enabled"] if q != pth]} -> module {mn!r} file {os.path.basename(fn)}; alone -> module {amod!r} file {os.path.basename(afn)}; identical: {same}')
      if not same: bad += 1
  if rp.get('runs'):
    jobs = [(mod.__file__, topn)]
    res = run_workers(ctx, jobs, [1, 2])
    a, b = res[1][topn][1], res[2][topn][1]
    print('byte-identical under PYTHONHASHSEED=1 and 2:', a == b)
    if a != b: print(first_diff_line(a, b)); bad += 1
  print('still failing' if bad else 'no longer failing')
  return 1 if bad else 0

def main(ctx):
  ctx.trusted += ['blake2b (hashlib) digests: the hashing branch of get_component_unique_name is an oracle (Section variable `hash`); only injectivity on the parameter strings observed in the run is checked (inj_table_b, proved sound)',
                  'harness/c13.py parser of the emitted SystemVerilog (tolerant tokenizer; fails closed on unknown module items) and its interning of body texts to integers',
                  'IEEE 1800-2017 Annex B keyword list as transcribed into SV/Modules.v (pymtl3\'s own list is checked to be a subset on every run)']
  ctx.assumptions += ['DETERMINISM IS NOT PROVED: byte-identical output across fresh processes / PYTHONHASHSEED values is differential testing (CPython hashing, set/dict iteration and object addresses are not modelled)',
                      'order_canonical assumes the iteration hands over the same elements exactly once (a permutation), distinct names, and an identical construction-ordered part',
                      'the translator (which text is produced for a component) is not modelled; each observed output is decided by the certified acceptors modules_ok / sharing_ok inside Coq',
                      'bodies are compared after removing comments and layout (comments carry file paths); a body includes the port list',
                      'full_name_inj holds under a stronger proviso than DESIGN.md wrote (values without "_"); instances outside the proviso are covered by the sharing acceptor only (count in evidence)',
                      'a design that the translator REJECTS with an error does not violate C13 (the property constrains emitted text)']
  ctx.build_props(extra_models=['theories/SV/Modules.vo'])
  try:
    run(ctx)
  except Exception as e:
    ctx.violation('C13:harness-crash', f'correspondence could not run: {e!r}', {'traceback': traceback.format_exc()}, found_input=False)
  return ctx.finish(rule='directed hierarchies (one per naming hazard: same-named classes from different factories/modules/closures, parameter kinds, hashing boundary, '
                         'names colliding after mangling, reserved words, address/set-order dependent parameter strings) + random hierarchies of 2-4 container classes '
                         '(half clean, half with injected hazards); distinct = (design, emitted text hash) for tables, (class, rendered parameters) for name cases, design for determinism',
                    level='proof')
