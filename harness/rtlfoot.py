"""rtlfoot.py — closes the footprint assumption of C01/C02/C07/C11 for update blocks inside the RTL language.

theorems (Props/C01_rtl.v, proofs in RTL/FootprintSound.v over the semantics RTL/Eval.v):
  C01_rtl_exec_frame / C01_rtl_exec_dep      executing a block changes only bits in writes_d; outcome and written bits depend
                                             only on reads_d and the old written bits (error outcome included)
  C01_rtl_blk_footprints                     hence frame/dep of Sched.Block hold for any DECLARED footprints covering the computed ones
  C01_rtl_accepted_schedules_agree           accepted_schedules_agree with no footprint hypothesis (rtl_cover_ok is a boolean check)
tie, per generated design (check_blocks, then finish once per run; everything is decided inside Coq by vm_compute):
  (i)   translators/rtlblk2coq.py turns every combinational / update_ff / net block into a `list stmt` (or refuses: counted);
  (ii)  Coq computes reads_d / writes_d and `covers` checks that pymtl3's declared footprint (Footprints.reads/writes, the
        metadata every scheduling pass orders by) contains them — a missing bit is the violation C01:footprint-unsound;
  (iii) the translator and Eval.v themselves are validated: the real block function runs on random simulator states and
        Coq's run_block must produce the same packed value for every written signal (C01:rtl-eval-mismatch otherwise).
"""
import sys, random, re
from common import *
import sched_common as sc
sys.path.insert(0, str(VERIF / 'translators'))
import rtlblk2coq

IMPORTS = 'Base.Prelude Bits.BitsSpec RTL.Syntax RTL.Eval Sched.Accept RTL.Footprint'
CERT_IMPORTS = IMPORTS + ' RTL.Design RTL.RtlFixed'
DEFS = '''
(* inputs (packed value of every signal), expected packed values of the written signals, did python raise *)
Definition sample := (list Z * list (nat * Z) * bool)%type.
(* translated body, declared reads, declared writes, samples *)
Definition blkcase := (list stmt * fp * fp * list sample)%type.
Definition sample_ok (G : decls) (nsig : nat) (b : list stmt) (x : sample) : bool :=
  let '(ins, outs, raised) := x in
  match run_block G nsig b ins with
  | Ok (o, _) => negb raised && forallb (fun rv => nth (fst rv) o 0 =? snd rv) outs
  | Err _ => raised
  end.
Definition blk_code (G : decls) (nsig : nat) (c : blkcase) : nat :=
  let '(b, rdD, wrD, samples) := c in
  ((if covers rdD (reads_d G b) then 0 else 1) + (if covers wrD (writes_d G b) then 0 else 2) +
   (if forallb (sample_ok G nsig b) samples then 0 else 4))%nat.
Definition design_codes (c : sigshapes * list blkcase) : list nat :=
  let '(T, bs) := c in let G := decls_of T in
  (if wf_shapes T then 0 else 8)%nat :: map (blk_code G (length T)) bs.
Definition design_ok (c : sigshapes * list blkcase) : bool := forallb (Nat.eqb 0) (design_codes c).
(* bits in the computed / declared read and write footprints of one design *)
Definition design_stats (c : sigshapes * list (list stmt * fp * fp)) : list Z :=
  let '(T, bs) := c in let G := decls_of T in let n := length T in
  fold_right (fun x acc => let '(b, rdD, wrD) := x in
                match acc with
                | [a1; a2; a3; a4] => [a1 + fp_bits G n (reads_d G b); a2 + fp_bits G n rdD; a3 + fp_bits G n (writes_d G b); a4 + fp_bits G n wrD]
                | _ => acc end) [0; 0; 0; 0] bs.
'''
CERT_DEFS = '''
(* the certificate of C01_rtl_accepted_schedule_fixed_point for one design: shapes, the design with the DECLARED footprints of
   its combinational blocks, their translated bodies.  0 = certificate holds; otherwise the failing parts:
   1 shapes / wf_design / sw_ok   2 nsl_ok   4 noinv_ok   8 declared footprints do not cover the proved ones
   16 a block uses <<=            32 latch (a bit that may be written is not definitely written)
   64 an exposed read is not a declared read *)
Definition cert_code (c : sigshapes * design * list (list stmt)) : nat :=
  let '(T, d, bs) := c in let G := decls_of T in let progs := fun i => nth i bs [] in
  ((if wf_shapes T && wf_design d && sw_ok d then 0 else 1) + (if nsl_ok d then 0 else 2) + (if noinv_ok d then 0 else 4) +
   (if rtl_cover_ok G progs d then 0 else 8) +
   (if forallb (fun i => assigns_ok true (progs i)) (ids d) then 0 else 16) +
   (if forallb (fun i => no_latch G (progs i)) (ids d) then 0 else 32) +
   (if forallb (fun i => xcovers (rds d i) (xreads_d G (progs i))) (ids d) then 0 else 64))%nat.
'''

class _State:
  def __init__(s):
    s.cases, s.stat_cases, s.meta = [], [], []
    s.cert_cases, s.cert_names = [], []
    s.comb_partly_outside = 0
    s.total = s.inlang = s.user_total = s.user_inlang = s.samples = 0
    s.reasons = {}

def _state(ctx):
  st = getattr(ctx, '_rtlfoot', None)
  if st is None:
    st = ctx._rtlfoot = _State()
  return st

def fp_term(ivs):
  return coq_list([f'({r}%nat, {zlit(lo)}, {zlit(hi)})' for r, lo, hi in ivs])

def check_blocks(ctx, top, fp, src, name, trials=3):
  """translate every block of the simulatable design `top` (fp = sched_common.Footprints(top)), sample the real block
  functions, and queue one Coq case for the design.  Call finish(ctx) once after the last design."""
  st = _state(ctx)
  rng = random.Random(f'{ctx.seed}:{name}:rtlfoot')
  tr = rtlblk2coq.Translator(top, fp.roots)
  nsig = len(fp.roots)
  names = [None] * nsig
  for q, i in fp.roots.items(): names[i] = repr(q)
  leaves = sc.live_leaves(top)
  saved = sc.save_state(top)
  blocks = list(fp.comb) + list(fp.ff)
  bcases, scases, bmeta = [], [], []
  comb_terms = {}
  try:
    for b in blocks:
      gen = b in top._dag.genblks
      st.total += 1
      if not gen: st.user_total += 1
      r = tr.translate(fp.orig.get(b, b))
      kind = 'net' if gen else ('ff' if b in fp.ffs else 'comb')
      if r is None:
        why = re.sub(r'\s+', ' ', tr.last_reason or '?')[:60]
        st.reasons[why] = st.reasons.get(why, 0) + 1
        ctx.count((name, b.__name__, 'outside'), False, cls=f'rtl-block:{kind}:outside-language')
        continue
      st.inlang += 1
      if not gen: st.user_inlang += 1
      if b in fp.cid: comb_terms[b] = r.term
      ctx.count((name, b.__name__, r.term), True, cls=f'rtl-block:{kind}:in-language')
      samples = []
      for t in range(trials):
        mode = rng.random()
        for x in leaves:
          x._uint = rng.getrandbits(x.nbits) if mode < 0.8 else rng.choice([0, (1 << x.nbits) - 1])
          x._next = x._uint
        before = sc.snapshot(top)
        raised = False
        try: b()
        except Exception: raised = True
        if b in fp.ffs:
          for x in leaves: x._flip()
        after = sc.snapshot(top)
        ins = [before[n] for n in names]
        outs = [(rid, after[names[rid]]) for rid in r.roots_written]
        samples.append((ins, outs, raised))
        st.samples += 1
      sterm = coq_list(['(' + coq_list([zlit(v) for v in ins]) + ', ' + coq_list([f'({rid}%nat, {zlit(v)})' for rid, v in outs]) +
                        ', ' + ('true' if raised else 'false') + ')' for ins, outs, raised in samples])
      rdD, wrD = fp_term(fp.reads[b]), fp_term(fp.writes[b])
      bcases.append(f'({r.term}, {rdD}, {wrD}, {sterm})')
      scases.append(f'({r.term}, {rdD}, {wrD})')
      bmeta.append({'block': b.__name__, 'kind': kind, 'term': r.term, 'declared_reads': fp.reads[b], 'declared_writes': fp.writes[b],
                    'samples': [{'inputs': dict(zip(names, map(hex, i_))), 'observed_written': {names[k]: hex(v) for k, v in o_}, 'raised': x_}
                                for i_, o_, x_ in samples]})
  finally:
    sc.restore_state(saved)
  T = tr.shapes_term()
  # the fixed-point certificate needs every combinational block of the design inside the language
  if len(comb_terms) == len(fp.comb):
    st.cert_cases.append(f'({T}, {fp.design_term()}, {coq_list([comb_terms[b] for b in fp.comb])})')
    st.cert_names.append(name)
  else:
    st.comb_partly_outside += 1
  st.cases.append(f'({T}, {coq_list(bcases)})')
  st.stat_cases.append(f'({T}, {coq_list(scases)})')
  st.meta.append({'design': name, 'source': src, 'signals': names, 'shapes': T, 'blocks': bmeta})
  return len(bcases), len(blocks)

# ------------------------------------------------------------------ hand-written blocks beyond what sched_common.Gen draws
# (temporaries, nested loops with computed indices, signal-valued indices on both sides, if/elif/else, IfExp, concat,
#  reductions, closure / global / attribute constants, Bits constants, struct copies, lists of signals, <<= last-wins)
CORPUS = [('RtlCorpus0', sc.STRUCT_SRC + """
K = 3
MASK = Bits8( 0x5a )
class RtlCorpus0( Component ):
  def construct( s ):
    N = 4
    s.N2 = 2
    C = b4( 9 )
    s.a = InPort( 8 ); s.b = InPort( 8 ); s.sel = InPort( 3 ); s.p = InPort( Pt ); s.q = InPort( Outer )
    s.o0 = OutPort( 8 ); s.o1 = OutPort( 8 ); s.o2 = OutPort( 16 ); s.o3 = OutPort( Pt ); s.o4 = OutPort( Outer )
    s.o5 = OutPort( 1 ); s.o6 = OutPort( 8 ); s.o7 = OutPort( 8 ); s.o8 = OutPort( 12 ); s.o9 = OutPort( 8 )
    s.r0 = Wire( 8 ); s.r1 = Wire( 8 )
    s.lst = [ Wire( 8 ) for _ in range(3) ]
    @update
    def u0():
      t = s.a + s.b
      u = t ^ MASK
      if s.sel == 0:
        s.o0 @= t
      elif s.sel < K:
        s.o0 @= u & 0xf
      else:
        s.o0 @= ~u
    @update
    def u1():
      s.o1 @= 0
      for i in range( N ):
        for j in range( s.N2 ):
          s.o1[ 2*i + j ] @= s.a[ i ] & s.b[ 7 - 2*i - j ]
    @update
    def u2():
      s.o2 @= concat( s.a, s.b[4:8], C )
    @update
    def u3():
      s.o3 @= s.p
      s.o4.p @= s.p
      s.o4.c @= s.q.c + 1
    @update
    def u4():
      s.o5 @= reduce_xor( s.a ) | reduce_and( s.b[0:N] ) & reduce_or( s.sel )
    @update
    def u5():
      s.o6 @= 0
      s.o6[ s.sel ^ 1 ] @= 1
    @update
    def u6():
      s.o7 @= ( s.a if s.b[0] else s.b ) >> 1
      s.o7[K:K+2] @= zext( s.b[ s.sel ], 2 ) + zext( s.a[ s.sel ^ 2 ], 2 )
    @update
    def u7():
      s.o8 @= sext( s.a, 12 ) if s.sel[0] else zext( trunc( s.b, 5 ), 12 )
    @update
    def u8():
      x = Bits8( 1 )
      for i in range( 1, 8, 3 ):
        x = x + ( s.a << i )
      s.o9 @= x
    @update
    def u9():
      s.lst[0] @= s.a
      s.lst[2] @= s.lst[1] - s.b
    @update
    def u10():
      s.lst[1] @= zext( s.sel > 2, 8 ) * 3
    @update_ff
    def f0():
      if s.reset:
        s.r0 <<= 0
      elif s.sel[1]:
        s.r0 <<= s.r0 + s.a
    @update_ff
    def f1():
      s.r1 <<= s.r0
      if s.a[7]:
        s.r1 <<= s.b
""")]

# real stdlib components (child components, `//= lambda` blocks, register files and muxes indexed by a signal)
CORPUS += [(n, 'from pymtl3 import *\nfrom pymtl3.stdlib.queues.queues import NormalQueueRTL, PipeQueueRTL, BypassQueueRTL\n'
               'from pymtl3.stdlib.basic_rtl.arbiters import RoundRobinArbiterEn\n'
               f'def {n}():\n  return {e}\n')
           for n, e in (('RtlCorpusBQ3', 'BypassQueueRTL( mk_bits(2), 3 )'), ('RtlCorpusNQ2', 'NormalQueueRTL( mk_bits(2), 2 )'),
                        ('RtlCorpusPQ1', 'PipeQueueRTL( mk_bits(2), 1 )'), ('RtlCorpusRR4', 'RoundRobinArbiterEn( 4 )'))]

def run_corpus(ctx, trials=8):
  """queue the hand-written corpus designs (call before finish)"""
  n = 0
  for name, src in CORPUS:
    cls, mod = sc.load_source(ctx, src, name)
    top = sc.build(cls, 'simple', seed=0)
    top.sim_reset()
    k, _ = check_blocks(ctx, top, sc.Footprints(top), src, name, trials=trials)
    n += k
  return n

def _nats(txt):
  return [int(x) for x in re.findall(r'\d+', txt.replace('%nat', ''))]

def finish(ctx, stats=True, shard=20):
  """run Coq over everything queued by check_blocks; emits violations, fills ctx.extra['rtl_footprints']; returns the summary dict"""
  st = _state(ctx)
  out = {'blocks_total': st.total, 'blocks_in_language': st.inlang, 'user_blocks_total': st.user_total,
         'user_blocks_in_language': st.user_inlang, 'designs': len(st.cases), 'eval_samples': st.samples,
         'outside_reasons': dict(sorted(st.reasons.items(), key=lambda kv: -kv[1])[:12])}
  if not st.cases:
    ctx.extra['rtl_footprints'] = out
    return out
  bad = ctx.coq_bad_indices('rtlfoot', IMPORTS, DEFS, 'sigshapes * list blkcase', st.cases, 'design_ok c', shard=shard)
  cover_bad = eval_bad = 0
  detail = 8        # proved footprints are printed for the first few failing blocks only (one coqc each)
  all_codes = ctx.coq_eval('rtlwhy', IMPORTS, DEFS, [f'design_codes {st.cases[i]}' for i in bad]) if bad else []
  for i, ctxt in zip(bad, all_codes):
    m = st.meta[i]
    codes = _nats(ctxt)
    if codes and codes[0]:
      ctx.violation(f'C01:rtl-shapes:{m["design"]}', f'design {m["design"]}: the signal-shape table is not legal ({m["shapes"][:200]})',
                    {'design_source': m['source'], 'shapes': m['shapes']}, found_input=False)
    for bm, code in zip(m['blocks'], codes[1:]):
      if code & 3:
        cover_bad += 1
        comp = '(not printed)'
        if detail > 0:
          detail -= 1
          comp = ctx.coq_eval('rtlfp', IMPORTS, DEFS, [f'let G := decls_of {m["shapes"]} in (reads_d G {bm["term"]}, writes_d G {bm["term"]})'])[0]
        for bit, what, decl in ((1, 'reads', bm['declared_reads']), (2, 'writes', bm['declared_writes'])):
          if code & bit:
            ctx.violation(f'C01:footprint-unsound:{m["design"]}:{bm["block"]}:{what}',
                          f'design {m["design"]}, block {bm["block"]}: pymtl3 declares {what} {decl} (root id, lo, hi) but the block provably '
                          f'{what} bits outside them; proved (reads, writes) footprint = {comp[:300]} — schedules ordered by the declared '
                          f'metadata may miss a dependency',
                          {'design_source': m['source'], 'block': bm['block'], 'signals': m['signals'], 'declared': decl,
                           'proved_reads_writes': comp, 'rtl_term': bm['term']})
      if code & 4:
        eval_bad += 1
        ctx.violation(f'C01:rtl-eval-mismatch:{m["design"]}:{bm["block"]}',
                      f'design {m["design"]}, block {bm["block"]}: the real block function and Coq\'s run_block on the translated block '
                      f'disagree on a written signal (translator / Eval.v no longer model the simulator)',
                      {'design_source': m['source'], 'block': bm['block'], 'rtl_term': bm['term'], 'samples': bm['samples']})
  out.update({'designs_failing': len(bad), 'blocks_footprint_not_covered': cover_bad, 'blocks_eval_disagree': eval_bad,
              'blocks_footprint_covered': st.inlang - cover_bad, 'blocks_eval_agree': st.inlang - eval_bad})
  if stats:
    tot = [0, 0, 0, 0]
    def one(k):
      part = st.stat_cases[k:k + 20]
      vals = ctx.coq_eval(f'rtlstat{k}', IMPORTS, DEFS,
                          ['fold_right (fun c acc => map (fun p => fst p + snd p) (combine (design_stats c) acc)) [0; 0; 0; 0] ' + coq_list(part)])
      return _nats(vals[0])
    with ThreadPoolExecutor(max_workers=8) as ex:
      for nums in ex.map(one, range(0, len(st.stat_cases), 20)):
        if len(nums) == 4: tot = [a + b for a, b in zip(tot, nums)]
    out['bits'] = {'proved_reads': tot[0], 'declared_reads': tot[1], 'proved_writes': tot[2], 'declared_writes': tot[3],
                   'read_overapprox_factor': round(tot[1] / tot[0], 3) if tot[0] else None,
                   'write_overapprox_factor': round(tot[3] / tot[2], 3) if tot[2] else None}
  # statistic only (pymtl3 allows latches): on how many designs the certificate of C01_rtl_accepted_schedule_fixed_point holds
  if st.cert_cases:
    def cert(k):
      part = st.cert_cases[k:k + 20]
      return _nats(ctx.coq_eval(f'rtlcert{k}', CERT_IMPORTS, CERT_DEFS, ['map cert_code ' + coq_list(part)])[0])
    codes = []
    with ThreadPoolExecutor(max_workers=8) as ex:
      for c in ex.map(cert, range(0, len(st.cert_cases), 20)): codes += c
    why = {}
    for bit, what in ((1, 'wf/single-writer'), (2, 'self-loop (nsl_ok)'), (4, 'inverted explicit constraint'), (8, 'footprint not covered'),
                      (16, '<<= in a combinational block'), (32, 'latch'), (64, 'exposed read not declared')):
      n = sum(1 for c in codes if c & bit)
      if n: why[what] = n
    out['fixed_point_certificate'] = {'designs_with_all_comb_blocks_in_language': len(st.cert_cases),
                                      'designs_with_a_comb_block_outside': st.comb_partly_outside,
                                      'certificate_holds': sum(1 for c in codes if c == 0), 'evaluated': len(codes),
                                      'failing_parts': why,
                                      'failing_designs': [n for n, c in zip(st.cert_names, codes) if c][:10]}
  ctx.extra['rtl_footprints'] = out
  if st.meta and st.meta[0]['blocks']:
    b0 = st.meta[0]['blocks'][0]
    ctx.sample({'rtl_block': b0['block'], 'rtl_term': b0['term'][:400], 'declared_reads': b0['declared_reads'], 'declared_writes': b0['declared_writes']})
  ctx._rtlfoot = None
  return out
