"""C12 — the Yosys-compatible translation is equivalent, every variable has one driver, and each flattened port carries
exactly the bits of the corresponding slice of the original port's packed value.

Claim level: proof over the MODELLED SUBSET + translation validation of the real output (partial, as C03).

theorems (Props/C12.v; models Struct/Layout.v SV/Sv*.v, proofs Struct/LayoutProofs.v SV/SvProofs.v SV/Flat.v):
  flat_port_carries_slice  for every struct shape T (fields, nested structs, list fields of any length), every value v of that
                           shape and every leaf l: the value of leaf l = bits [lo(l), hi(l)) of pack T v, where the ranges
                           leaf_ranges T put the FIRST field MOST significant and list element 0 LEAST significant
                           ("each flattened port carries exactly the bits of the corresponding slice")
  unflatten_flatten / flatten_unflatten   reassembling the flattened ports (what the emitted `assign x[hi:lo] = x__f;` do)
                           gives back the packed value, and conversely
  leaf ranges are disjoint, contiguous and cover [0, width)
  sv_single_driver_sound, sv_selfdet_eq_ctx, nonblocking lemmas       as C03 (same semantics, same acceptors)
tie (every run): the file YosysTranslationPass wrote is parsed (svparse, same grammar: the backend emits logic / always_comb /
  always_ff, plain `always @(*)` is accepted too) and replayed INSIDE Coq against the pymtl3 trace; the harness computes the
  expected flattened port names (mangling a__b__0) and slices from the pymtl3 TYPE alone, Coq checks that these slices are
  exactly Struct.Layout.leaf_ranges of the shape (so the theorem speaks about what is compared), drives every flattened
  input port with its slice of a random packed value and compares every flattened output port with its slice at every
  cycle; the internal packed form of every struct INPUT port must equal the packed value (flatten/unflatten);
  sv_wellformed / sv_single_driver run on every module.  Three-way agreement: the SystemVerilog text of the same design
  is replayed on the same trace in the same run.
partial / trusted: as C03 (our IEEE-1800 formalisation; unmodelled constructs counted).
"""
from common import *
import sv_common as sv, sv_engine as eng, svparse, sv_gen, sched_common as sc
import collections
import c03, common

PID = 'C12'

SHAPE_DEFS = '''
Definition shape_ok (c : shape * list rng) : bool := wf (fst c) && list_eqb rng_eqb (snd c) (leaf_ranges (fst c)).
'''

def flat_designs(ctx, n):
  """pass-through components over random (nested) struct shapes, lists of struct ports and interfaces with struct messages:
  the flat port map on shapes the other designs do not reach"""
  out = []
  for j in range(n):
    r = random.Random(ctx.rng.randrange(1 << 30))
    g = sv_gen.Gen(r, f'F{j}', uid=f'F{j}')
    for _ in range(r.randrange(1, 4)): g.mk_struct()
    T = g.structs[-1]
    L = [f's.i = InPort( {T.name} )', f's.o = OutPort( {T.name} )']
    form = r.choice(['connect', 'block', 'reg', 'list', 'ifc'])
    if form == 'connect': L += ['s.o //= s.i']
    elif form == 'block': L += ['@update', 'def up():', '  s.o @= s.i']
    elif form == 'reg': L += ['@update_ff', 'def up():', '  s.o <<= s.i']
    elif form == 'list':
      k = r.randrange(1, 4)
      L += [f's.li = [ InPort( {T.name} ) for _ in range({k}) ]', f's.lo = [ OutPort( {T.name} ) for _ in range({k}) ]', 's.o //= s.i']
      L += [f's.lo[{i}] //= s.li[{k - 1 - i}]' for i in range(k)]
    else:
      L += [f's.recv = InIfc( {T.name} )', f's.send = OutIfc( {T.name} )', 's.o //= s.i', 's.send.msg //= s.recv.msg', 's.send.val //= s.recv.val', 's.recv.rdy //= s.send.rdy']
    src = sv_gen.PREAMBLE + '\n'.join(g.pre) + f'\nclass F{j}( Component ):\n  def construct( s ):\n' + '\n'.join('    ' + l for l in L) + '\n'
    cls, _ = sc.load_source(ctx, src, f'F{j}')
    out.append(sv.Design(f'F{j}', cls, source=src, kind='flat', features=['flat:' + form] + sorted(g.features)))
  return out

def wire_form_checks(r):
  """extra expected values: the packed internal form of every struct-typed INPUT port"""
  mod = r.f.module(r.topname)
  decls = {n: (t, dims) for (n, t, dims) in mod['decls']}
  extra = []
  for rp, isin, ch, T in r.ports:
    if not isin or not hasattr(T, '__bitstruct_fields__'): continue
    name = sv.ys_name(ch)
    if name in decls and not decls[name][1] and svparse.pwidth(decls[name][0]) == T.nbits: extra.append((rp, name))
  return extra

def add_wire_forms(r):
  """re-print the trace with the packed forms added to the expected outputs"""
  extra = wire_form_checks(r)
  if not extra: return 0
  mod = r.f.module(r.topname)
  cyc = []
  for ins, outs in r.trace:
    i = coq_list([f'({r.f.intern.id(n)}%positive, {v})' for n, v in sv.ys_port_values(r.f, mod, r.ports, ins, True)])
    o = [f'({r.f.intern.id(n)}%positive, {v})' for n, v in sv.ys_port_values(r.f, mod, r.ports, outs, False)]
    o += [f'({r.f.intern.id(name)}%positive, (VZ {zlit(ins[rp])}))' for rp, name in extra]
    cyc.append(f'({i}, {coq_list(o)})')
  r.tr = coq_list(cyc)
  r.case = f'({r.f.coq()}, {r.f.intern.id(r.topname)}%positive, {r.tr})'
  return len(extra)

def run(ctx):
  setup_impl_path()
  quick = ctx.tier == 'quick'
  ncyc = 12 if quick else 30
  cache = {}
  designs = (eng.directed_designs(ctx) + sv.stdlib_designs(ctx.tier) + sv.testcase_designs() +
             flat_designs(ctx, 10 if quick else 250) + eng.gen_designs(ctx, 34 if quick else 500, ys_safe_fraction=0.75))
  # --- Yosys text, flat port map included (hook: packed forms of struct inputs are added before Coq runs)
  orig_finish = eng.finish_case
  nforms = [0]
  def finish_with_forms(r, backend):
    r = orig_finish(r, backend)
    if backend == 'yosys' and r.status == 'ok': nforms[0] += add_wire_forms(r)
    return r
  eng.finish_case = finish_with_forms
  try:
    ys = eng.run_backend(ctx, PID, 'yosys', designs, ncyc, cache)
  finally:
    eng.finish_case = orig_finish
  # --- the flat port map the translator itself reports (utility.gen_mapped_ports, consumed by the import pass)
  nmap = 0
  for r in ys:
    if r.f is None or not r.ports or r.status in ('rejected', 'unmodelled', 'syntax'): continue
    mod = r.f.module(r.topname)
    if mod is None: continue
    try:
      top = r.d.factory(); top.elaborate()
      probs = sv.check_flat_port_map(top, r.ports, mod)
    except Exception as e:
      probs = [('map-crash', f'gen_mapped_ports raised {type(e).__name__}: {str(e)[:160]}')]
    nmap += 1
    ctx.count(('portmap', r.d.name), True, cls='flat-port-map:' + ('ok' if not probs else 'differs'))
    for cls_, msg in probs[:1]:
      key = f'{PID}:{r.d.name}:flat-port-map' if r.d.kind in ('directed', 'case') else f'{PID}:flat-port-map:{cls_}'
      ctx.violation(key, f'{r.d.name}: the flat port map reported by the Yosys translator (gen_mapped_ports) is not faithful: {msg}' + (f' (+{len(probs) - 1} more)' if len(probs) > 1 else ''),
                    {'design': r.d.name, 'kind': r.d.kind, 'design_source': r.d.source, 'problems': [m for _, m in probs[:12]],
                     'emitted_ports': [pn for _, (pn, t, dims) in mod['ports']][:60]})
  ctx.extra['flat_port_maps_checked'] = nmap
  # --- the layout used for the expected slices is the one the theorem is about
  shapes = {}
  for r in ys:
    if r.ports:
      for rp, isin, ch, T in r.ports:
        if hasattr(T, '__bitstruct_fields__'):
          sh = sv.shape_of(T); shapes[repr(sh)] = sh
  cases = [f'({sv.shape_coq(sh)}, {sv.ranges_coq(sv.leaf_ranges(sh))})' for sh in shapes.values()]
  if cases:
    bad = ctx.coq_bad_indices('shapes', 'Base.Prelude Struct.Shape Struct.Layout', SHAPE_DEFS, 'shape * list rng', cases, 'shape_ok c', shard=200)
    for i in bad[:3]:
      sh = list(shapes.values())[i]
      ctx.violation(f'{PID}:layout-mirror:{i}', f'harness layout differs from Struct.Layout.leaf_ranges on shape {sh}', {'shape': repr(sh), 'harness_ranges': sv.leaf_ranges(sh)}, found_input=False)
    for sh in shapes.values(): ctx.count(('shape', repr(sh)), True, cls='struct-shape')
  ctx.extra['struct_shapes_checked_against_leaf_ranges'] = len(cases)
  ctx.extra['struct_input_packed_forms_compared'] = nforms[0]
  # --- three-way: the SystemVerilog text of the same designs on the same traces (C03 reports its own disagreements)
  class Quiet(common.Ctx):
    def violation(s, key, what, replay, found_input=True):      # C03 reports these itself; only the keys are kept here
      if key not in s.keys: s.keys.append(key)
  quiet = Quiet.__new__(Quiet); quiet.__dict__.update(ctx.__dict__)
  quiet.keys, quiet.hist, quiet.extra = [], {}, {}
  svr = eng.run_backend(quiet, 'C03', 'sv', [d for d in designs if d.kind in ('directed', 'flat', 'gen')], ncyc, cache, tagp='t')
  ctx.evaluations, ctx.distinct = quiet.evaluations, quiet.distinct
  st = {r.d.name: r.status for r in svr}
  three = collections.Counter()
  for r in ys:
    if r.d.name not in st: continue
    a, b = r.status, st[r.d.name]
    three[f'yosys:{"agree" if a == "ok" else ("disagree" if a == "bad" else a)} / sv:{"agree" if b == "ok" else ("disagree" if b == "bad" else b)}'] += 1
  ctx.extra['three_way'] = dict(three)
  ctx.extra['time_sv_three_way'] = quiet.extra.get('time_tsv')
  ctx.extra['sv_disagreements_reported_by_C03'] = sorted(quiet.keys)[:40]
  c03.summarize(ctx, ys)

def replay(ctx, rec):
  return c03.replay(ctx, rec, PID, 'yosys')

def main(ctx):
  ctx.trusted += [
    'IEEE 1800-2017 two-state semantics of the emitted subset is OUR formalisation (SV/SvSizing.v, SV/SvEval.v); no Verilog simulator exists in the sandbox to cross-check it',
    'harness/svparse.py (tokenizer, grammar, identifier interning, folding of literal part-select bounds, integer loop counters as 32-bit unsigned)',
    'harness/sv_common.py: expected flattened port names (mangling name__field__index) and the python mirror of the packing layout — the mirror is compared with Struct.Layout.leaf_ranges inside Coq on every run; random stimulus; harness/sv_gen.py',
  ]
  ctx.assumptions += [
    'one global clock; division by zero / out-of-range reads give 0; loop counters 32-bit unsigned (as C03)',
    'constructs outside the modelled subset are counted as unmodelled, never skipped silently',
    'the packed internal form is compared for struct INPUT ports only: for outputs the backend keeps the packed variable and the per-field variables apart (reported as violations where that breaks the design)',
    'agreement with pymtl3 is established per design and per input sequence by replaying the real emitted text (translation validation)',
  ]
  ctx.build_props(extra_models=['theories/SV/SvDrivers.vo'])
  try:
    run(ctx)
  except Exception as e:
    ctx.violation(f'{PID}:harness-crash', f'correspondence could not run: {e!r}', {'traceback': traceback.format_exc()}, found_input=False)
  return ctx.finish(rule='designs = directed minimal designs (struct granularity shapes, constant sub-expressions, sext/reduce/trunc shapes, controls) + stdlib RTL components + DUTs of pymtl3\'s translation test-case catalogue + pass-through components over random nested struct shapes (connect / block / register / lists of struct ports / interfaces with struct messages) + random translatable designs; each simulated with random inputs, translated by YosysTranslationPass, parsed, replayed inside Coq with every flattened port driven / compared by its slice; distinct = (backend, design, hash of emitted text) and distinct struct shapes',
                    level='proof',
                    explanation='flat port map: proved for all struct shapes; behaviour / drivers: proof over the modelled subset (our IEEE 1800 formalisation, certified acceptors) + translation validation of the real emitted text per design and input sequence')
