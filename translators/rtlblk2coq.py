#!/usr/bin/env python3
"""rtlblk2coq.py — fail-closed translator: a REAL elaborated pymtl3 update block  ->  a Coq term of RTL/Syntax.v
(`list stmt`), plus the signal-shape table (`RTL.Footprint.sigshapes`) of the design.

  tr = Translator(top, sigtab)           # sigtab: {top-level signal object: nat id}  (e.g. sched_common.Footprints.roots)
  tr.shapes_term()                       # Coq term : sigshapes  (list position = signal id; ids must be 0..n-1)
  r = tr.translate(blk)                  # None  <=>  the block is outside the language ("why" in tr.last_reason)
  r.term                                 # Coq term : list stmt
  r.roots_read / r.roots_written         # signal ids mentioned (python-side convenience only; footprints are computed in Coq)

Input is the block function itself: its source AST comes from host.get_update_block_info(blk) (or inspect for the
net blocks GenDAGPass generates), closure cells and globals give the component `s`, integer / Bits constants and loop
bounds, which are folded to literals.  Attribute chains are resolved on the live objects: a chain that reaches a
top-level signal of `sigtab` becomes `ESig id path` (path = field indices in declaration order of the bitstruct type);
works on a design before and after lock_in_simulation (top._sim.signal_object_mapping is used to find the signal a
component attribute / list slot stood for).

Supported (everything else => None, never a guess):
  statements   sig @= e | sig <<= e (whole vector signals only, as RTL/Eval.v models it) | sig.field @= e |
               sig[lo:hi] @= e | sig[i] @= e | tmp = e | if/elif/else | for v in range(const[,const[,const>0]]) | pass
               (a loop whose body indexes a python LIST of signals through the loop variable is emitted as one
               single-iteration SFor per value, the variable being a known constant inside)
               list_of_signals[ index_signal ] (read, or target of @= / <<=) is expanded into a chain over index == 0, 1, ...
               whose last alternative raises (the IndexError of python); `sig //= lambda: e` blocks use the AST pymtl3 built
  expressions  signals, struct fields, int / bool literals, closure & global ints and Bits constants, component int
               attributes, temporaries, loop variables, + - * & | ^ << >>, ~, == != < <= > >=, x[lo:hi], x[i],
               a if c else b, concat, zext / sext / trunc (integer width), reduce_and / reduce_or / reduce_xor,
               BitsN(const), BitsN(e)
  struct-typed values only as  struct_target @= struct_signal_or_field  of the identical type.
Python aliasing is respected: a temporary bound to a live signal object (t = s.x) is rejected when the block also
writes that signal (the simulator would see the new value through t, the value semantics of Eval.v would not).
"""
import ast, inspect, textwrap

class Outside(Exception):
  """the block uses something outside RTL/Syntax.v"""

class NeedsLoopValue(Outside):
  """a python list of signals is indexed by something that is not constant: the enclosing for loop is unrolled"""

def zlit(k):
  k = int(k)
  if -(1 << 32) < k < (1 << 32): return f'({k})' if k < 0 else str(k)
  return f'(-{hex(-k)})' if k < 0 else hex(k)

def natlist(p):
  return '[' + '; '.join(f'{x}%nat' for x in p) + ']'

def coq_list(items):
  return '[' + '; '.join(items) + ']'

BINOPS = {ast.Add: 'Add', ast.Sub: 'Sub', ast.Mult: 'Mul', ast.BitAnd: 'And', ast.BitOr: 'Or', ast.BitXor: 'Xor',
          ast.LShift: 'LShift', ast.RShift: 'RShift'}
CMPOPS = {ast.Eq: 'CEq', ast.NotEq: 'CNe', ast.Lt: 'CLt', ast.LtE: 'CLe', ast.Gt: 'CGt', ast.GtE: 'CGe'}

class Result:
  def __init__(s, stmts, term, rd, wr, ntmp, nloop):
    s.stmts, s.term, s.roots_read, s.roots_written, s.ntmp, s.nloop = stmts, term, rd, wr, ntmp, nloop

class Translator:
  def __init__(s, top, sigtab):
    import pymtl3
    from pymtl3.datatypes import Bits, helpers
    from pymtl3.datatypes.bitstructs import is_bitstruct_class
    from pymtl3.dsl.Connectable import Signal
    s.top, s.sigtab = top, dict(sigtab)
    s.Bits, s.Signal, s.is_struct = Bits, Signal, is_bitstruct_class
    s.helpers = {helpers.zext: 'zext', helpers.sext: 'sext', helpers.trunc: 'trunc', helpers.concat: 'concat',
                 helpers.reduce_and: 'RAnd', helpers.reduce_or: 'ROr', helpers.reduce_xor: 'RXor'}
    # after lock_in_simulation component attributes hold values; this maps (container, key) back to the signal
    s.slot = {}
    sim = getattr(top, '_sim', None)
    s.live_ids = set()      # storage objects of signals (and of their fields): never constants
    def _live(v):
      s.live_ids.add(id(v))
      if isinstance(v, list):
        for x in v: _live(x)
      else:
        for k in getattr(v, '__bitstruct_fields__', {}): _live(getattr(v, k))
    for sig, ent in (getattr(sim, 'signal_object_mapping', None) or {}).items():
      s.slot[(id(ent[0]), ent[1])] = sig
      _live(ent[3])
    s.last_reason = None
    ids = sorted(set(s.sigtab.values()))
    assert ids == list(range(len(ids))), 'signal ids must be 0..n-1'
    # several signal objects may share an id (signals sharing one storage object in the simulator)
    s.by_id = {}
    for q, i in s.sigtab.items(): s.by_id.setdefault(i, q)

  # ------------------------------------------------------------------ shapes
  def shape(s, T):
    """('bits', w) | ('struct', [shapes]) ; a struct with list fields is opaque: ('bits', w)"""
    if s.is_struct(T):
      fs = []
      for ft in T.__bitstruct_fields__.values():
        if isinstance(ft, list): return ('bits', T.nbits)
        fs.append(s.shape(ft))
      return ('struct', fs)
    return ('bits', T.nbits)

  def shape_term(s, sh):
    if sh[0] == 'bits': return f'(ShBits {sh[1]})'
    return '(ShStruct ' + coq_list([s.shape_term(f) for f in sh[1]]) + ')'

  def shapes_term(s):
    return coq_list([s.shape_term(s.shape(s.by_id[i]._dsl.Type)) for i in range(len(s.by_id))])

  def widths(s):
    return [s.by_id[i]._dsl.Type.nbits for i in range(len(s.by_id))]

  # ------------------------------------------------------------------ source
  def block_ast(s, blk):
    """FunctionDef of the block: parsed from the function's own source (inspect; the net blocks GenDAGPass generates are
    registered in linecache without line terminators), else the AST pymtl3 cached in get_update_block_info"""
    tree = None
    info = None
    try:
      host = s.top.get_update_block_host_component(blk)
      info = host.get_update_block_info(blk)
    except Exception:
      info = None
    if info is not None and info[0]:
      # `sig //= lambda: e`: pymtl3 compiled  def _lambda__<sig>(): <sig> @= e  from this very AST (ComponentLevel3)
      tree = info[4]
    else:
      # GenDAGPass registers the text of a net block in linecache under the file name "Net (writer is <repr>": two blocks
      # whose writers print alike (equal constants) share that name and only the LAST text survives - not recoverable
      try:
        fnames = [g.__code__.co_filename for g in s.top._dag.genblks]
        if blk in s.top._dag.genblks and fnames.count(blk.__code__.co_filename) > 1:
          raise Outside('generated source not recoverable (file name shared by several net blocks)')
      except AttributeError:
        pass
      try:
        lines, _ = inspect.getsourcelines(blk)
        tree = ast.parse(textwrap.dedent('\n'.join(l.rstrip('\r\n') for l in lines)))
      except Exception:
        tree = info[4] if info is not None else None
    if tree is None: raise Outside('no source')
    if not (isinstance(tree, ast.Module) and len(tree.body) == 1 and isinstance(tree.body[0], ast.FunctionDef)):
      raise Outside('not a single function')
    fn = tree.body[0]
    a = fn.args
    if a.args or a.vararg or a.kwarg or a.kwonlyargs or getattr(a, 'posonlyargs', []): raise Outside('block with arguments')
    if fn.name != blk.__name__: raise Outside('source/function name mismatch')
    return fn

  # ------------------------------------------------------------------ translation of one block
  def translate(s, blk):
    s.last_reason = None
    try:
      return _Block(s, blk).run()
    except Outside as e:
      s.last_reason = str(e) or 'outside'
      return None
    except RecursionError:
      s.last_reason = 'too deep'
      return None

class _Block:
  def __init__(b, tr, blk):
    b.tr, b.blk = tr, blk
    b.fn = tr.block_ast(blk)
    b.env = dict(getattr(blk, '__globals__', {}))
    b.env_local_names = set()
    code = blk.__code__
    b.closure = {}
    for i, v in enumerate(code.co_freevars):
      try: b.closure[v] = blk.__closure__[i].cell_contents
      except ValueError: pass
    # python scoping: every name stored anywhere in the function is local everywhere in it
    b.tmps, b.loops = {}, {}
    for n in ast.walk(b.fn):
      if isinstance(n, ast.For):
        if not isinstance(n.target, ast.Name): raise Outside('for target')
        b.loops.setdefault(n.target.id, len(b.loops))
      elif isinstance(n, ast.Assign):
        for t in n.targets:
          if isinstance(t, ast.Name): b.tmps.setdefault(t.id, len(b.tmps))
      elif isinstance(n, (ast.NamedExpr, ast.AnnAssign, ast.Global, ast.Nonlocal, ast.Lambda, ast.ListComp, ast.SetComp,
                          ast.DictComp, ast.GeneratorExp, ast.With, ast.Try, ast.Import, ast.ImportFrom, ast.Delete,
                          ast.AsyncFunctionDef, ast.ClassDef)):
        raise Outside(type(n).__name__)
      elif isinstance(n, ast.FunctionDef) and n is not b.fn:
        raise Outside('nested function')
    if set(b.tmps) & set(b.loops): raise Outside('name used as temporary and loop variable')
    b.lbl = 0
    b.loopval = {}                # loop variable name -> its value in the iteration being unrolled
    b.rd, b.wr = set(), set()
    b.alias_tmp_roots = set()     # roots of live signal objects bound to temporaries

  def run(b):
    stmts = b.stmts(b.fn.body)
    if b.alias_tmp_roots & b.wr: raise Outside('temporary aliases a signal the block writes')
    return Result(stmts, coq_list([stmt_coq(x) for x in stmts]), sorted(b.rd), sorted(b.wr), len(b.tmps), len(b.loops))

  # ---- names and constants
  def is_local(b, name):
    return name in b.tmps or name in b.loops

  def lookup(b, name):
    if name in b.closure: return b.closure[name]
    if name in b.env: return b.env[name]
    import builtins
    if hasattr(builtins, name): return getattr(builtins, name)
    raise Outside(f'unbound name {name}')

  def const_int(b, node):
    """python int value of a pure integer constant expression, or None"""
    try: v = b._cint(node)
    except Outside: return None
    except (ZeroDivisionError, ValueError, OverflowError): return None
    return v

  def _cint(b, node):
    if isinstance(node, ast.Constant):
      if type(node.value) in (int, bool): return int(node.value)
      raise Outside('const')
    if isinstance(node, ast.UnaryOp) and isinstance(node.op, (ast.USub, ast.UAdd, ast.Invert)):
      v = b._cint(node.operand)
      return -v if isinstance(node.op, ast.USub) else (v if isinstance(node.op, ast.UAdd) else ~v)
    if isinstance(node, ast.BinOp):
      x, y = b._cint(node.left), b._cint(node.right)
      op = type(node.op)
      if op is ast.Add: return x + y
      if op is ast.Sub: return x - y
      if op is ast.Mult: return x * y
      if op is ast.FloorDiv: return x // y
      if op is ast.Mod: return x % y
      if op is ast.BitAnd: return x & y
      if op is ast.BitOr: return x | y
      if op is ast.BitXor: return x ^ y
      if op is ast.LShift and 0 <= y <= 4096: return x << y
      if op is ast.RShift and 0 <= y: return x >> y
      if op is ast.Pow and 0 <= y <= 4096 and abs(x) <= 1 << 16: return x ** y
      raise Outside('const op')
    if isinstance(node, ast.Name) and node.id in b.loopval: return b.loopval[node.id]
    if isinstance(node, (ast.Name, ast.Attribute, ast.Subscript)):
      r = b.ref(node)
      if r is not None and r[0] == 'obj' and type(r[1]) in (int, bool): return int(r[1])
    raise Outside('not a constant int')

  # ---- references: attribute / constant-subscript chains over live objects
  def sig_of_slot(b, container, key):
    return b.tr.slot.get((id(container), key))

  def mk_sig(b, sig):
    sid = b.tr.sigtab.get(sig)
    if sid is None: raise Outside('signal not in the table')
    return ('sig', sid, (), sig._dsl.Type)

  def ref(b, node):
    """None (not a reference) | ('obj', pyobject) | ('sig', id, path, Type)"""
    if isinstance(node, ast.Name):
      if b.is_local(node.id): return None
      if not isinstance(node.ctx, ast.Load): raise Outside('store to a non-local name')
      return ('obj', b.lookup(node.id))
    if isinstance(node, ast.Attribute):
      base = b.ref(node.value)
      if base is None: return None
      if base[0] == 'obj':
        o = base[1]
        q = b.sig_of_slot(o, node.attr)
        if q is not None: return b.mk_sig(q)
        if isinstance(o, (int, bool)) or isinstance(o, b.tr.Bits): raise Outside('attribute of a constant')
        try: o2 = getattr(o, node.attr)
        except Exception: raise Outside(f'no attribute {node.attr}')
        if isinstance(o2, b.tr.Signal):
          if not o2.is_top_level_signal(): raise Outside('non top-level signal object')
          return b.mk_sig(o2)
        return ('obj', o2)
      if base[0] == 'sel': raise Outside('attribute of a selected list element')
      _, sid, path, T = base
      if not b.tr.is_struct(T): raise Outside('attribute of a Bits signal')
      names = list(T.__bitstruct_fields__.keys())
      if node.attr not in names: raise Outside(f'no field {node.attr}')
      ft = T.__bitstruct_fields__[node.attr]
      if isinstance(ft, list) or any(isinstance(x, list) for x in T.__bitstruct_fields__.values()):
        raise Outside('struct with list fields')
      return ('sig', sid, path + (names.index(node.attr),), ft)
    if isinstance(node, ast.Subscript):
      base = b.ref(node.value)
      if base is None or base[0] == 'sig': return None          # bit index / slice of a signal or of a value
      o = base[1]
      if isinstance(o, (list, tuple)):
        if isinstance(node.slice, ast.Slice): raise Outside('slice of a python list')
        k = b.const_int(node.slice)
        if k is None:
          if any(isinstance(x, ast.Name) and x.id in b.loops and x.id not in b.loopval for x in ast.walk(node.slice)):
            raise NeedsLoopValue('list indexed by a non-constant')          # unrolling the loop may make it constant
          return b.sel_ref(o, node.slice)
        if not (-len(o) <= k < len(o)): raise Outside('list index out of range')
        k %= len(o)
        q = b.sig_of_slot(o, k)
        if q is not None: return b.mk_sig(q)
        o2 = o[k]
        if isinstance(o2, b.tr.Signal):
          if not o2.is_top_level_signal(): raise Outside('non top-level signal object')
          return b.mk_sig(o2)
        return ('obj', o2)
      return None                                                # e.g. a Bits constant indexed: handled as a value
    return None

  def sel_ref(b, lst, idx_node):
    """lst[ idx ] for a python list of top-level Bits signals and a signal-valued index: ('sel', idx term, [ids], Type).
    Read as a chain of conditionals / written as a chain of ifs over idx == 0, 1, ... ; an index outside the list is
    the IndexError python raises."""
    sigs = []
    for k in range(len(lst)):
      q = b.sig_of_slot(lst, k)
      if q is None:
        q = lst[k] if isinstance(lst[k], b.tr.Signal) and lst[k].is_top_level_signal() else None
      if q is None: raise Outside('list indexed by a non-constant')
      sigs.append(q)
    if not sigs: raise Outside('empty list')
    T = sigs[0]._dsl.Type
    if b.tr.is_struct(T) or any(q._dsl.Type is not T for q in sigs): raise Outside('list of signals of struct / mixed type indexed by a value')
    ir = b.ref(idx_node)
    if ir is None or ir[0] != 'sig' or b.tr.is_struct(ir[3]): raise Outside('list index that is not a Bits signal')
    w = ir[3].nbits
    b.rd.add(ir[1])
    ids = [b.mk_sig(q)[1] for q in sigs]
    return ('sel', ('sig', ir[1], ir[2]), ids[:min(len(ids), 1 << w)], T)

  ERR_INDEX = ('index', ('sized', 1, 0), ('lit', 1))      # evaluates to IndexError

  # ---- expressions: returns (term, kind) ; kind = 'v' (Bits or int) | ('struct', T) | ('live', root)
  def expr(b, node):
    t, k = b.expr_k(node)
    if isinstance(k, tuple) and k[0] == 'struct': raise Outside('struct-typed value in an expression')
    return t

  def expr_k(b, node):
    c = b.const_int(node)
    if c is not None and not isinstance(node, ast.Name):
      return ('lit', c), 'v'
    if isinstance(node, ast.Constant):
      raise Outside('constant of unsupported type')
    if isinstance(node, ast.Name):
      if node.id in b.tmps: return ('tmp', b.tmps[node.id]), 'v'
      if node.id in b.loops: return ('loop', b.loops[node.id]), 'v'
      return b.const_obj(b.lookup(node.id), free=True), 'v'
    if isinstance(node, (ast.Attribute, ast.Subscript)):
      r = b.ref(node)
      if r is not None:
        if r[0] == 'obj': return b.const_obj(r[1], free=False), 'v'
        if r[0] == 'sel':
          _, idx, ids, T = r
          e = b.ERR_INDEX
          for k in reversed(range(len(ids))):
            b.rd.add(ids[k])
            e = ('if', ('cmp', 'CEq', idx, ('lit', k)), ('sig', ids[k], ()), e)
          return e, 'v'
        _, sid, path, T = r
        b.rd.add(sid)
        if b.tr.is_struct(T): return ('sig', sid, path), ('struct', T)
        return ('sig', sid, path), ('live', sid)
      if isinstance(node, ast.Attribute): raise Outside('attribute of a computed value')
      # x[lo:hi] / x[i] on a signal, field or computed value
      base_ref = b.ref(node.value)
      if base_ref is not None and base_ref[0] == 'sel': base_ref = None
      if base_ref is not None and base_ref[0] == 'sig':
        _, sid, path, T = base_ref
        if b.tr.is_struct(T): raise Outside('bit access into a struct value')
        b.rd.add(sid)
        base, W = ('sig', sid, path), T.nbits
      else:
        base, W = b.expr(node.value), None
      sl = node.slice
      if isinstance(sl, ast.Slice):
        if sl.step is not None: raise Outside('slice step')
        lo = ('lit', 0) if sl.lower is None else b.expr(sl.lower)
        if sl.upper is None:
          if W is None: raise Outside('open slice of a computed value')
          hi = ('lit', W)
        else: hi = b.expr(sl.upper)
        return ('slice', base, lo, hi), 'v'
      if isinstance(sl, ast.Tuple): raise Outside('tuple index')
      return ('index', base, b.expr(sl)), 'v'
    if isinstance(node, ast.BinOp):
      op = BINOPS.get(type(node.op))
      if op is None: raise Outside(f'operator {type(node.op).__name__}')
      return ('bin', op, b.expr(node.left), b.expr(node.right)), 'v'
    if isinstance(node, ast.UnaryOp):
      if isinstance(node.op, ast.Invert): return ('inv', b.expr(node.operand)), 'v'
      raise Outside(f'unary {type(node.op).__name__}')
    if isinstance(node, ast.Compare):
      if len(node.ops) != 1: raise Outside('comparison chain')
      op = CMPOPS.get(type(node.ops[0]))
      if op is None: raise Outside(f'comparison {type(node.ops[0]).__name__}')
      return ('cmp', op, b.expr(node.left), b.expr(node.comparators[0])), 'v'
    if isinstance(node, ast.IfExp):
      c = b.expr(node.test)
      x, kx = b.expr_k(node.body); y, ky = b.expr_k(node.orelse)
      for kk in (kx, ky):
        if isinstance(kk, tuple) and kk[0] == 'struct': raise Outside('struct-typed value in an expression')
      # the result may be a live signal object: keep that for the alias check of temporaries
      lives = [kk for kk in (kx, ky) if isinstance(kk, tuple) and kk[0] == 'live']
      return ('if', c, x, y), (('lives', [kk[1] for kk in lives]) if lives else 'v')
    if isinstance(node, ast.Call):
      if node.keywords: raise Outside('keyword arguments')
      if any(isinstance(a, ast.Starred) for a in node.args): raise Outside('starred argument')
      fr = b.ref(node.func)
      if fr is None or fr[0] != 'obj': raise Outside('call of a non-constant')
      f = fr[1]
      try: h = b.tr.helpers.get(f)
      except TypeError: h = None
      if h in ('zext', 'sext', 'trunc'):
        if len(node.args) != 2: raise Outside('arity')
        w = b.const_int(node.args[1])
        if w is None: raise Outside('extension to a type or a non-constant width')
        return (h, w, b.expr(node.args[0])), 'v'
      if h == 'concat':
        if not node.args: raise Outside('empty concat')
        return ('concat', [b.expr(a) for a in node.args]), 'v'
      if h in ('RAnd', 'ROr', 'RXor'):
        if len(node.args) != 1: raise Outside('arity')
        return ('red', h, b.expr(node.args[0])), 'v'
      if isinstance(f, type) and issubclass(f, b.tr.Bits) and f is not b.tr.Bits and isinstance(getattr(f, 'nbits', None), int):
        n = f.nbits
        if len(node.args) == 0: return ('sized', n, 0), 'v'
        if len(node.args) != 1: raise Outside('BitsN with trunc_int')
        c = b.const_int(node.args[0])
        if c is not None: return ('sized', n, c), 'v'
        return ('cast', n, b.expr(node.args[0])), 'v'
      raise Outside('call')
    raise Outside(type(node).__name__)

  def const_obj(b, o, free):
    if id(o) in b.tr.live_ids: raise Outside('signal storage reached through an unmapped path')
    if type(o) in (int, bool): return ('free', int(o)) if free else ('lit', int(o))
    if isinstance(o, b.tr.Bits): return ('sized', o.nbits, int(o))
    raise Outside(f'constant of type {type(o).__name__}')

  # ---- statements
  def stmts(b, body):
    out = []
    for st in body:
      out += b.stmt(st)
    return out

  def next_lbl(b):
    b.lbl += 1
    return b.lbl - 1

  def stmt(b, st):
    if isinstance(st, ast.Pass): return []
    if isinstance(st, ast.Expr):
      if isinstance(st.value, ast.Constant) and isinstance(st.value.value, str): return []     # docstring
      raise Outside('expression statement')
    if isinstance(st, ast.Assign):
      if len(st.targets) != 1 or not isinstance(st.targets[0], ast.Name): raise Outside('= to a non-name')
      e, k = b.expr_k(st.value)
      if isinstance(k, tuple):
        if k[0] == 'struct': raise Outside('struct-typed temporary')
        if k[0] == 'live': b.alias_tmp_roots.add(k[1])
        if k[0] == 'lives': b.alias_tmp_roots.update(k[1])
      return [('assign', b.next_lbl(), ('ltmp', b.tmps[st.targets[0].id]), e, True)]
    if isinstance(st, ast.AugAssign):
      if isinstance(st.op, ast.MatMult): blocking = True
      elif isinstance(st.op, ast.LShift): blocking = False
      else: raise Outside(f'augmented assignment {type(st.op).__name__}')
      tgt = st.target
      r = b.ref(tgt)
      if r is not None and r[0] == 'sel':
        _, idx, ids, T = r
        e = b.expr(st.value)
        if 'errtmp' not in b.tmps: b.tmps['errtmp'] = len(b.tmps)       # ('errtmp' is not a python identifier of the block)
        chain = [('assign', b.next_lbl(), ('ltmp', b.tmps['errtmp']), b.ERR_INDEX, True)]
        for k in reversed(range(len(ids))):
          b.wr.add(ids[k])
          chain = [('if', b.next_lbl(), ('cmp', 'CEq', idx, ('lit', k)),
                    [('assign', b.next_lbl(), ('lsig', ids[k], ()), e, blocking)], chain)]
        return chain
      if r is not None:
        if r[0] != 'sig': raise Outside('assignment to a non-signal')
        _, sid, path, T = r
        b.wr.add(sid)
        if b.tr.is_struct(T):
          if not blocking and path: raise Outside('<<= to a field of a struct')
          e, k = b.expr_k(st.value)
          if not (isinstance(k, tuple) and k[0] == 'struct' and k[1] is T): raise Outside('struct target with a non-identical source type')
        else:
          if not blocking and path: raise Outside('<<= to a field')
          e = b.expr(st.value)
        return [('assign', b.next_lbl(), ('lsig', sid, path), e, blocking)]
      if isinstance(tgt, ast.Subscript):
        base = b.ref(tgt.value)
        if base is None or base[0] != 'sig': raise Outside('subscript target that is not a signal')
        _, sid, path, T = base
        if b.tr.is_struct(T): raise Outside('bit access into a struct')
        if not blocking: raise Outside('<<= to a slice')
        b.wr.add(sid)
        sl = tgt.slice
        if isinstance(sl, ast.Slice):
          if sl.step is not None: raise Outside('slice step')
          lo = ('lit', 0) if sl.lower is None else b.expr(sl.lower)
          hi = ('lit', T.nbits) if sl.upper is None else b.expr(sl.upper)
          l = ('lslice', sid, path, lo, hi)
        elif isinstance(sl, ast.Tuple): raise Outside('tuple index')
        else:
          l = ('lindex', sid, path, b.expr(sl))
        return [('assign', b.next_lbl(), l, b.expr(st.value), True)]
      raise Outside('assignment target')
    if isinstance(st, ast.If):
      lbl = b.next_lbl()
      c = b.expr(st.test)
      return [('if', lbl, c, b.stmts(st.body), b.stmts(st.orelse))]
    if isinstance(st, ast.For):
      if st.orelse: raise Outside('for-else')
      it = st.iter
      if not (isinstance(it, ast.Call) and not it.keywords and 1 <= len(it.args) <= 3): raise Outside('for over a non-range')
      fr = b.ref(it.func)
      if fr is None or fr[0] != 'obj' or fr[1] is not range: raise Outside('for over a non-range')
      args = [b.const_int(a) for a in it.args]
      if any(a is None for a in args): raise Outside('non-constant loop bound')
      lo, hi, step = (0, args[0], 1) if len(args) == 1 else ((args[0], args[1], 1) if len(args) == 2 else args)
      if step <= 0: raise Outside('non-positive loop step')
      if hi - lo > (1 << 16) * step: raise Outside('loop too long')
      name = st.target.id
      if name in b.loopval: raise Outside('loop variable rebound inside an unrolled loop')
      try:
        return [('for', b.loops[name], lo, hi, step, b.stmts(st.body))]
      except NeedsLoopValue:
        pass
      # a list of signals is indexed through the loop variable: one single-iteration loop per value
      # ( for v in range(k, k+1) binds the loop variable exactly as the k-th iteration does ), inside which the
      # variable is a known constant.  Sound only if nothing in the body rebinds it.
      vals = list(range(lo, hi, step))
      if len(vals) > 64: raise Outside('loop too long to unroll')
      for n in ast.walk(st):
        if n is not st and isinstance(n, ast.For) and isinstance(n.target, ast.Name) and n.target.id == name:
          raise Outside('loop variable rebound inside an unrolled loop')
      out = []
      for v in vals:
        b.loopval[name] = v
        try: out.append(('for', b.loops[name], v, v + 1, 1, b.stmts(st.body)))
        finally: del b.loopval[name]
      return out
    raise Outside(type(st).__name__)

# ------------------------------------------------------------------ python terms -> Coq
def expr_coq(e):
  k = e[0]
  if k == 'sig': return f'(ESig {e[1]}%nat {natlist(e[2])})'
  if k == 'lit': return f'(ELit {zlit(e[1])})'
  if k == 'free': return f'(EFree {zlit(e[1])})'
  if k == 'sized': return f'(ESized {e[1]} {zlit(e[2])})'
  if k == 'tmp': return f'(ETmp {e[1]}%nat)'
  if k == 'loop': return f'(ELoop {e[1]}%nat)'
  if k == 'cast': return f'(ECast {e[1]} {expr_coq(e[2])})'
  if k == 'bin': return f'(EBin {e[1]} {expr_coq(e[2])} {expr_coq(e[3])})'
  if k == 'cmp': return f'(ECmp {e[1]} {expr_coq(e[2])} {expr_coq(e[3])})'
  if k == 'inv': return f'(EInv {expr_coq(e[1])})'
  if k == 'slice': return f'(ESlice {expr_coq(e[1])} {expr_coq(e[2])} {expr_coq(e[3])})'
  if k == 'index': return f'(EIdx {expr_coq(e[1])} {expr_coq(e[2])})'
  if k == 'concat': return '(EConcat ' + coq_list([expr_coq(x) for x in e[1]]) + ')'
  if k in ('zext', 'sext', 'trunc'): return f'({ {"zext": "EZext", "sext": "ESext", "trunc": "ETrunc"}[k]} {zlit(e[1])} {expr_coq(e[2])})'
  if k == 'red': return f'(ERed {e[1]} {expr_coq(e[2])})'
  if k == 'if': return f'(EIf {expr_coq(e[1])} {expr_coq(e[2])} {expr_coq(e[3])})'
  raise ValueError(k)

def lhs_coq(l):
  k = l[0]
  if k == 'ltmp': return f'(LTmp {l[1]}%nat)'
  if k == 'lsig': return f'(LSig {l[1]}%nat {natlist(l[2])})'
  if k == 'lslice': return f'(LSlice {l[1]}%nat {natlist(l[2])} {expr_coq(l[3])} {expr_coq(l[4])})'
  if k == 'lindex': return f'(LIndex {l[1]}%nat {natlist(l[2])} {expr_coq(l[3])})'
  raise ValueError(k)

def stmt_coq(s):
  if s[0] == 'assign':
    _, lbl, l, e, blocking = s
    return f'(SAssign {lbl}%nat {lhs_coq(l)} {expr_coq(e)} {"true" if blocking else "false"})'
  if s[0] == 'if':
    _, lbl, c, t, f = s
    return f'(SIf {lbl}%nat {expr_coq(c)} {coq_list([stmt_coq(x) for x in t])} {coq_list([stmt_coq(x) for x in f])})'
  _, i, lo, hi, step, body = s
  return f'(SFor {i}%nat {zlit(lo)} {zlit(hi)} {zlit(step)} {coq_list([stmt_coq(x) for x in body])})'

def translate_block(top, blk, sigtab):
  """one-shot form: (Coq `list stmt` term, Coq `sigshapes` term) or None"""
  tr = Translator(top, sigtab)
  r = tr.translate(blk)
  return None if r is None else (r.term, tr.shapes_term())
