#!/usr/bin/env python3
"""stdlib2coq.py — fail-closed T-gen translator: REAL elaborated pymtl3 stdlib components -> Coq designs (RTL/Design.v).

  /venv/bin/python translators/stdlib2coq.py <repo> arbiters coq/theories/Gen/ArbiterGen.v
  /venv/bin/python translators/stdlib2coq.py <repo> queues   coq/theories/Gen/QueueGen.v

For every instance (RoundRobinArbiter / RoundRobinArbiterEn at nreqs 2..4; Normal/Pipe/BypassQueueRTL at 1..3 entries
of Bits2) the real component is elaborated and scheduled by pymtl3's own passes (DefaultPassGroup), then EVERY block of
top._dag.final_upblks — update blocks, update_ff blocks and the net blocks GenDAGPass generated, of the component and
of all its children — is translated by translators/rtlblk2coq.py from the block's own source and closure.  Emitted per
instance: the signal-shape table, the combinational blocks in the order pymtl3 scheduled them, the update_ff blocks in
schedule_ff order, explicit U<U constraints, and the signal ids of the ports / registers.
Top-level signals that share one storage object after lock_in_simulation (whole-signal nets) get ONE signal id —
that is what the simulator does.  Whether the emitted order is a legal schedule is NOT trusted: the proof file checks
`rd_ok` (Sched.Accept.sched_ok on the footprints proved in RTL/FootprintSound.v) inside Coq.

Fail-closed: if any block is outside the language of RTL/Syntax.v, or the schedule contains something that is not a
plain block (an SCC wrapper), the output file is a stub that defines nothing — the proof file importing it then fails to
build — and the exit status is 3.
"""
import sys, os, random

HERE = os.path.dirname(os.path.abspath(__file__))
sys.path.insert(0, HERE)

class Refuse(Exception):
  pass

def natlist(l): return '[' + '; '.join(f'{x}%nat' for x in l) + ']'

def elaborate(cls, args, ports_of):
  """elaborate, pick the port / register signal objects (before lock_in_simulation replaces them by values), schedule"""
  from pymtl3 import DefaultPassGroup
  top = cls(*args)
  top.elaborate()
  ports = ports_of(top)
  random.seed(0)
  top.apply(DefaultPassGroup())
  return top, ports

def storage_ids(top):
  """{top-level signal: id}, one id per storage object; [(id, [names])]"""
  m = top._sim.signal_object_mapping
  sigs = sorted((x for x in top._dsl.all_signals if x.is_top_level_signal()), key=repr)
  groups = {}
  for q in sigs:
    if q not in m: raise Refuse(f'signal {q!r} has no simulator storage')
    groups.setdefault(id(m[q][3]), []).append(q)
  tab, names = {}, []
  for i, g in enumerate(sorted(groups.values(), key=lambda g: repr(g[0]))):
    T = g[0]._dsl.Type
    for q in g:
      if q._dsl.Type.nbits != T.nbits: raise Refuse(f'signals sharing storage differ in width: {g!r}')
      tab[q] = i
    names.append((i, [repr(q) for q in g]))
  return tab, names

def design_text(name, top, ports, comment):
  """Coq text defining  <name> : rdesign  and  <name>_<port> : nat  for every port"""
  import rtlblk2coq
  tab, names = storage_ids(top)
  tr = rtlblk2coq.Translator(top, tab)
  ffs = set(top.get_all_update_ff())
  allb = set(top._dag.final_upblks)
  def host(b):
    if b in top._dag.genblks: return 'net'
    try: return repr(top.get_update_block_host_component(b))
    except Exception: return '?'
  sched = [b for b in top._sched.update_schedule]
  if set(sched) != allb - ffs or len(sched) != len(allb - ffs):
    raise Refuse(f'{name}: the schedule is not a permutation of the combinational blocks (SCC wrapper / greenlet?)')
  if set(top._sched.schedule_ff) != ffs: raise Refuse(f'{name}: schedule_ff is not the set of update_ff blocks')
  # pymtl3's schedulers break ties by id() / set order, which differ from run to run.  To keep the generated text (and
  # the compiled proofs) stable, the emitted order is the linear extension of pymtl3's OWN constraint graph
  # (top._dag.all_constraints) that takes the ready block with the smallest (name, host) first.  It is one of the orders
  # the schedulers may produce; its legality is re-checked in Coq (rd_ok) on the proved footprints, and by theorem C01
  # every accepted order computes the same values.
  key = lambda b: (b.__name__, host(b))
  E = {(a, b) for (a, b) in top._dag.all_constraints if a in allb - ffs and b in allb - ffs and a is not b}
  pos = {b: i for i, b in enumerate(sched)}
  if any(pos[a] > pos[b] for a, b in E): raise Refuse(f'{name}: the schedule pymtl3 produced violates its own constraints')
  comb, left = [], set(allb - ffs)
  while left:
    ready = sorted((b for b in left if not any(a in left for (a, c) in E if c is b)), key=key)
    if not ready: raise Refuse(f'{name}: cyclic constraints')
    comb.append(ready[0]); left.discard(ready[0])
  ff = sorted(ffs, key=key)
  terms = {}
  for b in comb + ff:
    r = tr.translate(b)
    if r is None: raise Refuse(f'{name}: block {b.__name__} of {host(b)} is outside the RTL language: {tr.last_reason}')
    terms[b] = r.term
  cid = {b: i for i, b in enumerate(comb)}
  expl = sorted({(cid[a], cid[b]) for (a, b) in top._dsl.all_U_U_constraints if a in cid and b in cid and a is not b})
  out = [f'(* {comment} *)', f'(* signal ids (signals sharing one storage object share an id):']
  out += [f'     {i}: {", ".join(ns)}' for i, ns in names]
  out.append('*)')
  out.append(f'Definition {name} : rdesign := {{|')
  out.append(f'  rd_shapes := {tr.shapes_term()};')
  out.append('  rd_comb := [')
  out.append(';\n'.join(f'    (* {b.__name__} @ {host(b)} *)\n    {terms[b]}' for b in comb))
  out.append('  ];')
  out.append('  rd_ff := [')
  out.append(';\n'.join(f'    (* {b.__name__} @ {host(b)} *)\n    {terms[b]}' for b in ff))
  out.append('  ];')
  out.append('  rd_expl := [' + '; '.join(f'({a}%nat, {b}%nat)' for a, b in expl) + ']')
  out.append('|}.')
  for pn, sig in ports.items():
    if sig is None:
      out.append(f'Definition {name}_{pn} : option nat := None.')
      continue
    if isinstance(sig, tuple) and sig[0] == 'opt':
      out.append(f'Definition {name}_{pn} : option nat := Some {tab[sig[1]]}%nat.')
      continue
    if isinstance(sig, list):
      out.append(f'Definition {name}_{pn} : list nat := {natlist([tab[q] for q in sig])}.')
      continue
    if sig not in tab: raise Refuse(f'{name}: port {pn} is not a top-level signal')
    out.append(f'Definition {name}_{pn} : nat := {tab[sig]}%nat.')
  return '\n'.join(out) + '\n'

HEADER = '''(* GENERATED on every run by translators/stdlib2coq.py from %s — DO NOT EDIT.
   Each design is the real elaborated component, block by block (rtlblk2coq.py), in the order pymtl3 scheduled it. *)
From PV Require Import Base.Prelude Bits.BitsSpec RTL.Syntax RTL.Eval Sched.Accept RTL.Footprint RTL.Design.
(* -- *)
Open Scope Z_scope.

'''

def gen_arbiters(repo):
  from pymtl3.stdlib.basic_rtl.arbiters import RoundRobinArbiter, RoundRobinArbiterEn
  txt = HEADER % 'pymtl3/stdlib/basic_rtl/arbiters.py, registers.py'
  for isEn, cls, pre in ((False, RoundRobinArbiter, 'rr'), (True, RoundRobinArbiterEn, 'rren')):
    for n in (2, 3, 4):
      top, ports = elaborate(cls, (n,), lambda top: {'reset': top.reset, 'reqs': top.reqs, 'grants': top.grants,
                                                     'prio': top.priority_reg.out, 'en': ('opt', top.en) if isEn else None})
      txt += design_text(f'{pre}{n}', top, ports, f'{cls.__name__}( {n} )') + '\n'
  return txt

def gen_queues(repo):
  from pymtl3 import mk_bits
  from pymtl3.stdlib.queues.queues import NormalQueueRTL, PipeQueueRTL, BypassQueueRTL
  txt = HEADER % 'pymtl3/stdlib/queues/queues.py (+ basic_rtl register file / registers)'
  T = mk_bits(2)
  for cls, pre in ((NormalQueueRTL, 'nq'), (PipeQueueRTL, 'pq'), (BypassQueueRTL, 'bq')):
    for n in (1, 2, 3):
      def ports_of(top):
        ports = {'reset': top.reset, 'enq_en': top.enq.en, 'enq_rdy': top.enq.rdy, 'enq_msg': top.enq.msg,
                 'deq_en': top.deq.en, 'deq_rdy': top.deq.rdy, 'deq_ret': top.deq.ret, 'count': top.count}
        ports.update(queue_state(top, n))
        return ports
      top, ports = elaborate(cls, (T, n), ports_of)
      txt += design_text(f'{pre}{n}', top, ports, f'{cls.__name__}( Bits2, num_entries={n} )') + '\n'
  return txt

def queue_state(top, n):
  """the registers of a queue: one-entry classes keep (full, entry); the others head / tail / count and a register file"""
  if n == 1:
    q = top.q
    return {'st_full': q.full, 'st_entry': q.entry}
  ctrl, dp = top.ctrl, top.dpath
  words = getattr(dp.queue, 'regs', None)
  if words is None: raise Refuse('queue storage is not a register file with .regs')
  return {'st_head': ctrl.head, 'st_tail': ctrl.tail, 'st_count': ctrl.count, 'st_words': list(words)}

def main(argv):
  repo = argv[1] if len(argv) > 1 else os.environ.get('VERIF_REPO', '/repo')
  what = argv[2] if len(argv) > 2 else 'arbiters'
  dst = argv[3] if len(argv) > 3 else os.path.join(HERE, '..', 'coq', 'theories', 'Gen', {'arbiters': 'ArbiterGen.v', 'queues': 'QueueGen.v'}[what])
  sys.path.insert(0, repo)
  for m in list(sys.modules):
    if m == 'pymtl3' or m.startswith('pymtl3.'): del sys.modules[m]
  cwd = os.getcwd()
  import tempfile, shutil
  scratch = tempfile.mkdtemp(prefix='stdlib2coq-')
  os.chdir(scratch)                      # pymtl3 passes may write files into the cwd
  try:
    try:
      txt = {'arbiters': gen_arbiters, 'queues': gen_queues}[what](repo)
      rc = 0
    except Refuse as e:
      txt = '(* translators/stdlib2coq.py REFUSED: %s *)\n' % str(e).replace('*)', '* )')
      print('REFUSE:', e); rc = 3
    except Exception as e:
      import traceback
      txt = '(* translators/stdlib2coq.py could not elaborate / translate: %s *)\n' % repr(e).replace('*)', '* )')
      print('REFUSE:', repr(e)); traceback.print_exc(); rc = 3
  finally:
    os.chdir(cwd)
    shutil.rmtree(scratch, ignore_errors=True)
  dst = os.path.abspath(dst)
  os.makedirs(os.path.dirname(dst), exist_ok=True)
  old = open(dst).read() if os.path.exists(dst) else None
  if old != txt:                         # keep the timestamp when nothing changed (no needless rebuild of the proofs)
    with open(dst + '.tmp', 'w') as f: f.write(txt)
    os.replace(dst + '.tmp', dst)
  print('ok' if rc == 0 else 'stub', dst)
  return rc

if __name__ == '__main__':
  sys.exit(main(sys.argv))
