"""translators/bitstruct_src2coq.py — fail-closed parser of the method source text that
pymtl3/datatypes/bitstructs.py GENERATES per bitstruct class (through _create_fn), into Coq terms of
Struct/Layout.v (`gen_text`).  Anything that is not exactly of the expected form raises Refuse.

A struct class is described to this module by a `ClsInfo`-like object with
  .fields : list of (name, shape)      shape = ('b', n) | ('s', clsinfo) | ('l', len, shape)
  .pycls  : the class pymtl3 produced
"""
import ast

class Refuse(Exception):
  pass

def _need(cond, msg):
  if not cond: raise Refuse(msg)

# ----------------------------------------------------------------------------- generic pieces
def parse_def(src, name, argnames):
  try:
    mod = ast.parse(src)
  except SyntaxError as e:
    raise Refuse(f'{name}: generated text does not parse: {e}')
  _need(len(mod.body) == 1 and isinstance(mod.body[0], ast.FunctionDef), f'{name}: not a single def')
  fn = mod.body[0]
  _need(fn.name == name, f'{name}: def is called {fn.name}')
  a = fn.args
  _need(not (a.vararg or a.kwarg or a.kwonlyargs or a.posonlyargs or a.defaults or a.kw_defaults), f'{name}: unexpected argument forms')
  _need([x.arg for x in a.args] == list(argnames), f'{name}: arguments {[x.arg for x in a.args]} != {list(argnames)}')
  _need(not fn.decorator_list, f'{name}: decorated')
  return fn.body

def chain(node, root):
  """self.a.b[1][0].c  ->  [('a','a'),('a','b'),('i',1),('i',0),('a','c')]"""
  steps = []
  while True:
    if isinstance(node, ast.Attribute):
      steps.append(('a', node.attr)); node = node.value
    elif isinstance(node, ast.Subscript):
      i = node.slice
      _need(isinstance(i, ast.Constant) and type(i.value) is int and i.value >= 0, 'non-literal or negative index')
      steps.append(('i', i.value)); node = node.value
    elif isinstance(node, ast.Name):
      _need(node.id == root, f'access rooted at {node.id!r}, expected {root!r}')
      break
    else:
      raise Refuse(f'unexpected node in access path: {ast.dump(node)[:80]}')
  return steps[::-1]

def model_path(cls, steps):
  """names -> indices, checked against the declared shape.  Returns (path, shape reached)."""
  cur = ('s', cls); path = []
  for kind, x in steps:
    if kind == 'a':
      _need(cur[0] == 's', f'attribute .{x} on a non-struct')
      names = [n for n, _ in cur[1].fields]
      _need(x in names, f'no field {x!r}')
      i = names.index(x); path.append(('F', i)); cur = cur[1].fields[i][1]
    else:
      _need(cur[0] == 'l', f'index [{x}] on a non-list')
      _need(x < cur[1], f'index [{x}] out of the declared length {cur[1]}')
      path.append(('I', x)); cur = cur[2]
  return path, cur

def is_name(node, s): return isinstance(node, ast.Name) and node.id == s
def is_attr(node, root, attr): return isinstance(node, ast.Attribute) and node.attr == attr and is_name(node.value, root)

def is_self_class(node, root='self'):
  return is_attr(node, root, '__class__')

# ----------------------------------------------------------------------------- per method
def parse_to_bits(cls, src):
  body = parse_def(src, 'to_bits', ['self'])
  _need(len(body) == 1 and isinstance(body[0], ast.Return), 'to_bits: body is not one return')
  c = body[0].value
  _need(isinstance(c, ast.Call) and is_name(c.func, 'concat') and not c.keywords, 'to_bits: not concat(...)')
  out = []
  for a in c.args:
    _need(not isinstance(a, ast.Starred), 'to_bits: starred argument')
    p, sh = model_path(cls, chain(a, 'self'))
    _need(sh[0] == 'b', 'to_bits: concat argument is not a Bits leaf')
    out.append(p)
  return out

def parse_from_bits(cls, src, fn_globals):
  body = parse_def(src, 'from_bits', ['cls', 'other'])
  _need(len(body) == 3, 'from_bits: expected assert / other = other.to_bits() / return')
  a, b, r = body
  # assert cls.nbits == other.nbits, ...
  _need(isinstance(a, ast.Assert) and isinstance(a.test, ast.Compare) and len(a.test.ops) == 1 and isinstance(a.test.ops[0], ast.Eq)
        and is_attr(a.test.left, 'cls', 'nbits') and is_attr(a.test.comparators[0], 'other', 'nbits'), 'from_bits: width assertion changed')
  # other = other.to_bits()
  _need(isinstance(b, ast.Assign) and len(b.targets) == 1 and is_name(b.targets[0], 'other') and isinstance(b.value, ast.Call)
        and is_attr(b.value.func, 'other', 'to_bits') and not b.value.args and not b.value.keywords, 'from_bits: other = other.to_bits() changed')
  _need(isinstance(r, ast.Return) and isinstance(r.value, ast.Call) and is_name(r.value.func, 'cls') and not r.value.keywords, 'from_bits: not return cls(...)')
  def expr(node, sh):
    if sh[0] == 'b':
      _need(isinstance(node, ast.Subscript) and is_name(node.value, 'other') and isinstance(node.slice, ast.Slice), 'from_bits: leaf is not other[lo:hi]')
      s = node.slice
      _need(s.step is None and isinstance(s.lower, ast.Constant) and isinstance(s.upper, ast.Constant)
            and type(s.lower.value) is int and type(s.upper.value) is int, 'from_bits: slice bounds are not int literals')
      return ('leaf', s.lower.value, s.upper.value)
    if sh[0] == 'l':
      _need(isinstance(node, ast.List) and len(node.elts) == sh[1], 'from_bits: list literal of the wrong length')
      return ('list', [expr(e, sh[2]) for e in node.elts])
    _need(isinstance(node, ast.Call) and isinstance(node.func, ast.Name) and not node.keywords, 'from_bits: nested struct is not Name(...)')
    _need(fn_globals.get(node.func.id) is sh[1].pycls, f'from_bits: {node.func.id} is not bound to the nested field type')
    _need(len(node.args) == len(sh[1].fields), 'from_bits: nested constructor arity')
    return ('struct', [expr(e, f[1]) for e, f in zip(node.args, sh[1].fields)])
  _need(len(r.value.args) == len(cls.fields), 'from_bits: constructor arity')
  return ('struct', [expr(e, f[1]) for e, f in zip(r.value.args, cls.fields)])

def parse_clone(cls, src, name):
  body = parse_def(src, name, ['self'] if name == 'clone' else ['self', 'memo'])
  _need(len(body) == 1 and isinstance(body[0], ast.Return), f'{name}: body is not one return')
  c = body[0].value
  _need(isinstance(c, ast.Call) and is_self_class(c.func) and not c.keywords, f'{name}: not self.__class__(...)')
  def expr(node):
    if isinstance(node, ast.List):
      return ('list', [expr(e) for e in node.elts])
    _need(isinstance(node, ast.Call) and isinstance(node.func, ast.Attribute) and node.func.attr == 'clone'
          and not node.args and not node.keywords, f'{name}: element is not P.clone()')
    p, sh = model_path(cls, chain(node.func.value, 'self'))
    _need(sh[0] in 'bs', f'{name}: clone() of a list')
    return ('leaf', p)
  return [expr(a) for a in c.args]

def parse_init(cls, src, fn_globals, pytype):
  """generated __init__: every Bits field is wrapped in its own type, every struct / list field defaults to a structure in which
  EVERY element is a separate constructor call (no `[row] * n`, no shared default object).  pytype(shape) gives the python type
  a 'b' / 's' shape must be constructed with.  Returns the default-value structure per field as ctrees (paths by position)."""
  try:
    mod = ast.parse(src)
  except SyntaxError as e:
    raise Refuse(f'__init__: generated text does not parse: {e}')
  _need(len(mod.body) == 1 and isinstance(mod.body[0], ast.FunctionDef) and mod.body[0].name == '__init__', '__init__: not a single def __init__')
  fn = mod.body[0]; a = fn.args
  _need(not (a.vararg or a.kwarg or a.kwonlyargs or a.posonlyargs or a.kw_defaults), '__init__: unexpected argument forms')
  names = [x.arg for x in a.args]
  fnames = [n for n, _ in cls.fields]
  _need(len(names) == len(fnames) + 1 and names[1:] == fnames, f'__init__: arguments {names[1:]} are not the declared fields {fnames}')
  selfn = names[0]
  _need(selfn not in fnames, '__init__: the self name collides with a field')
  _need(len(a.defaults) == len(fnames), '__init__: not every field has a default')
  for d, (n, sh) in zip(a.defaults, cls.fields):
    _need(isinstance(d, ast.Constant) and ((sh[0] == 'b' and type(d.value) is int and d.value == 0) or (sh[0] != 'b' and d.value is None)),
          f'__init__: default of {n} is not 0 / None')
  _need(len(fn.body) == len(fnames), '__init__: not one statement per field')
  def ctor(node, sh, n, args):
    ok = isinstance(node, ast.Call) and isinstance(node.func, ast.Name) and not node.keywords and len(node.args) == len(args)
    _need(ok, f'__init__: {n}: not a constructor call')
    _need(node.func.id not in names, f'__init__: {n}: constructor name {node.func.id} is shadowed by an argument')
    _need(fn_globals.get(node.func.id) is pytype(sh), f'__init__: {n}: {node.func.id} is not bound to the declared type')
    for x, y in zip(node.args, args): _need(is_name(x, y), f'__init__: {n}: unexpected constructor argument')
  out = []
  for i, (st, (n, sh)) in enumerate(zip(fn.body, cls.fields)):
    _need(isinstance(st, ast.Assign) and len(st.targets) == 1 and is_attr(st.targets[0], selfn, n), f'__init__: statement {i} does not assign field {n}')
    if sh[0] == 'b':
      ctor(st.value, sh, n, [n]); out.append(('leaf', [('F', i)])); continue
    v = st.value
    _need(isinstance(v, ast.BoolOp) and isinstance(v.op, ast.Or) and len(v.values) == 2 and is_name(v.values[0], n), f'__init__: {n}: not `{n} or <default>`')
    def dflt(node, sh, path):
      if sh[0] == 'l':
        _need(isinstance(node, ast.List), f'__init__: {n}: default of a list (dimension) is not a list literal of separate elements')
        _need(len(node.elts) == sh[1], f'__init__: {n}: default list has {len(node.elts)} elements, declared {sh[1]}')
        return ('list', [dflt(e, sh[2], path + [('I', j)]) for j, e in enumerate(node.elts)])
      ctor(node, sh, n, [])
      return ('leaf', path)
    out.append(dflt(v.values[1], sh, [('F', i)]))
  return out

def _cast_prologue(stmt, what):
  # if self.__class__ is not other.__class__: other = self.__class__.from_bits( other.to_bits() )
  ok = (isinstance(stmt, ast.If) and not stmt.orelse and isinstance(stmt.test, ast.Compare) and len(stmt.test.ops) == 1
        and isinstance(stmt.test.ops[0], ast.IsNot) and is_self_class(stmt.test.left) and is_self_class(stmt.test.comparators[0], 'other')
        and len(stmt.body) == 1 and isinstance(stmt.body[0], ast.Assign) and len(stmt.body[0].targets) == 1 and is_name(stmt.body[0].targets[0], 'other'))
  _need(ok, f'{what}: class-cast prologue changed')
  v = stmt.body[0].value
  ok = (isinstance(v, ast.Call) and isinstance(v.func, ast.Attribute) and v.func.attr == 'from_bits' and is_self_class(v.func.value)
        and len(v.args) == 1 and not v.keywords and isinstance(v.args[0], ast.Call) and is_attr(v.args[0].func, 'other', 'to_bits') and not v.args[0].args)
  _need(ok, f'{what}: class-cast prologue changed')

def parse_augassign(cls, src, name, op):
  body = parse_def(src, name, ['self', 'other'])
  _need(len(body) >= 3, f'{name}: too short')
  _cast_prologue(body[0], name)
  _need(isinstance(body[-1], ast.Return) and is_name(body[-1].value, 'self'), f'{name}: does not end with return self')
  out = []
  for st in body[1:-1]:
    _need(isinstance(st, ast.AugAssign) and isinstance(st.op, op), f'{name}: statement is not the expected augmented assignment')
    pl, sh = model_path(cls, chain(st.target, 'self'))
    pr, _ = model_path(cls, chain(st.value, 'other'))
    _need(pl == pr, f'{name}: left and right access paths differ')
    _need(sh[0] in 'bs', f'{name}: assignment to a whole list')
    out.append(pl)
  return out

def parse_flip(cls, src):
  body = parse_def(src, '_flip', ['self'])
  out = []
  for st in body:
    ok = (isinstance(st, ast.Expr) and isinstance(st.value, ast.Call) and isinstance(st.value.func, ast.Attribute)
          and st.value.func.attr == '_flip' and not st.value.args and not st.value.keywords)
    _need(ok, '_flip: statement is not P._flip()')
    p, sh = model_path(cls, chain(st.value.func.value, 'self'))
    _need(sh[0] in 'bs', '_flip: flip of a whole list')
    out.append(p)
  return out

def _field_tuple(cls, node, root, what):
  _need(isinstance(node, ast.Tuple), f'{what}: not a tuple of fields')
  out = []
  for e in node.elts:
    p, _ = model_path(cls, chain(e, root))
    _need(len(p) == 1, f'{what}: tuple element is not a direct field')
    out.append(p)
  return out

def parse_eq(cls, src):
  body = parse_def(src, '__eq__', ['self', 'other'])
  _need(len(body) == 1 and isinstance(body[0], ast.Return), '__eq__: body is not one return')
  v = body[0].value
  _need(isinstance(v, ast.BoolOp) and isinstance(v.op, ast.And) and len(v.values) == 2, '__eq__: not (class test) and (tuple == tuple)')
  t, c = v.values
  ok = (isinstance(t, ast.Compare) and len(t.ops) == 1 and isinstance(t.ops[0], ast.Is)
        and is_self_class(t.left, 'other') and is_self_class(t.comparators[0], 'self'))
  _need(ok, '__eq__: class test changed')
  _need(isinstance(c, ast.Compare) and len(c.ops) == 1 and isinstance(c.ops[0], ast.Eq), '__eq__: not tuple == tuple')
  l = _field_tuple(cls, c.left, 'self', '__eq__'); r = _field_tuple(cls, c.comparators[0], 'other', '__eq__')
  _need(l == r, '__eq__: the two tuples list different fields')
  return l

def parse_hash(cls, src):
  """returns ('fields', paths) for hash((self.a,self.b,)) or ('slots', paths) when list fields are expanded into nested tuples
  of their elements (every slot exactly once, row-major)"""
  body = parse_def(src, '__hash__', ['self'])
  _need(len(body) == 1 and isinstance(body[0], ast.Return), '__hash__: body is not one return')
  v = body[0].value
  _need(isinstance(v, ast.Call) and is_name(v.func, 'hash') and len(v.args) == 1 and not v.keywords, '__hash__: not hash((...))')
  t = v.args[0]
  _need(isinstance(t, ast.Tuple), '__hash__: not a tuple of fields')
  if not any(isinstance(e, ast.Tuple) for e in t.elts):
    return 'fields', _field_tuple(cls, t, 'self', '__hash__')
  out = []
  def flat(e):
    if isinstance(e, ast.Tuple):
      _need(len(e.elts) > 0, '__hash__: empty tuple')
      for x in e.elts: flat(x)
    else:
      p, sh = model_path(cls, chain(e, 'self'))
      _need(sh[0] in 'bs', '__hash__: a list is hashed as such')
      out.append(p)
  for e in t.elts: flat(e)
  return 'slots', out

# ----------------------------------------------------------------------------- Coq terms
def t_path(p):
  return '[' + '; '.join(('Fld ' if k == 'F' else 'Idx ') + str(i) for k, i in p) + ']'
def t_paths(ps):
  return '[' + '; '.join(t_path(p) for p in ps) + ']'
def t_rtree(t):
  if t[0] == 'leaf': return f'RLeaf {t[1]} {t[2]}' if t[1] >= 0 and t[2] >= 0 else f'RLeaf ({t[1]}) ({t[2]})'
  return ('RStruct [' if t[0] == 'struct' else 'RList [') + '; '.join('(' + t_rtree(x) + ')' if x[0] != 'leaf' else t_rtree(x) for x in t[1]) + ']'
def t_ctree(t):
  if t[0] == 'leaf': return f'CLeaf {t_path(t[1])}'
  return 'CList [' + '; '.join(t_ctree(x) for x in t[1]) + ']'
