#!/usr/bin/env python3
"""py2coq_bits.py — fail-closed translator: pymtl3/datatypes/PythonBits.py  ->  Gallina.

Reads the *current* source of PythonBits.py and emits coq/theories/Gen/BitsGen.v:
one Gallina function per method of class Bits (the methods listed in METHODS).
Any construct outside the subset understood here raises Refuse: the caller then
treats the property as "proof obligation broken" (never silently skipped).

Python -> Gallina identities relied upon (trusted, and exercised by the T-diff
correspondence on every run):
  int + - * & | ^ ~ << >> // %  on unbounded ints  ==  Z.add sub mul land lor lxor lnot
  shiftl shiftr div modulo  (for non-negative shift counts and non-zero divisors;
  the translator hoists the Python-level ValueError / ZeroDivisionError checks for
  every non-literal shift count / divisor so the identities are only used where valid).
  True == 1, False == 0 in integer context.

Model of values: a Bits object is (s_nbits, s_uint, s_next : Z).  An operand is
`operand` (OBits n u | OInt k | OOther) — `try: other.nbits ... except AttributeError:`
is dispatch on that kind, exactly as attribute lookup decides it in Python.
An index is `pyidx` (ISlice start stop step : option Z | IInt k).
"""
import ast, sys, os

class Refuse(Exception):
  pass

ERR = {'ValueError': 'EValue', 'IndexError': 'EIndex', 'TypeError': 'EType',
       'AssertionError': 'EAssert', 'ZeroDivisionError': 'EZeroDiv'}

# method -> (coq name, [(pyparam, kind)], uses_state, result kind)
METHODS = {
  '__init__'     : ('bits_init',     [('nbits','int'),('v','operand'),('trunc_int','bool')], False, 'state2'),
  '__ilshift__'  : ('bits_ilshift',  [('v','operand')], True, 'state'),
  '_flip'        : ('bits_flip',     [], True, 'state'),
  'clone'        : ('bits_clone',    [], True, 'bits'),
  '__deepcopy__' : ('bits_deepcopy', [('memo','ignored')], True, 'bits'),
  '__imatmul__'  : ('bits_imatmul',  [('v','operand')], True, 'state'),
  '__getitem__'  : ('bits_getitem',  [('idx','idx')], True, 'bits'),
  '__setitem__'  : ('bits_setitem',  [('idx','idx'),('v','operand')], True, 'state'),
  '__add__'      : ('bits_add',      [('other','operand')], True, 'bits'),
  '__radd__'     : ('bits_radd',     [('other','operand')], True, 'bits'),
  '__sub__'      : ('bits_sub',      [('other','operand')], True, 'bits'),
  '__rsub__'     : ('bits_rsub',     [('other','operand')], True, 'bits'),
  '__mul__'      : ('bits_mul',      [('other','operand')], True, 'bits'),
  '__rmul__'     : ('bits_rmul',     [('other','operand')], True, 'bits'),
  '__and__'      : ('bits_and',      [('other','operand')], True, 'bits'),
  '__rand__'     : ('bits_rand',     [('other','operand')], True, 'bits'),
  '__or__'       : ('bits_or',       [('other','operand')], True, 'bits'),
  '__ror__'      : ('bits_ror',      [('other','operand')], True, 'bits'),
  '__xor__'      : ('bits_xor',      [('other','operand')], True, 'bits'),
  '__rxor__'     : ('bits_rxor',     [('other','operand')], True, 'bits'),
  '__floordiv__' : ('bits_floordiv', [('other','operand')], True, 'bits'),
  '__rfloordiv__': ('bits_rfloordiv',[('other','operand')], True, 'bits'),
  '__mod__'      : ('bits_mod',      [('other','operand')], True, 'bits'),
  '__rmod__'     : ('bits_rmod',     [('other','operand')], True, 'bits'),
  '__invert__'   : ('bits_invert',   [], True, 'bits'),
  '__lshift__'   : ('bits_lshift',   [('other','operand')], True, 'bits'),
  '__rshift__'   : ('bits_rshift',   [('other','operand')], True, 'bits'),
  '__eq__'       : ('bits_eq',       [('other','operand')], True, 'bits'),
  '__ne__'       : ('bits_ne',       [('other','operand')], True, 'bits'),
  '__lt__'       : ('bits_lt',       [('other','operand')], True, 'bits'),
  '__le__'       : ('bits_le',       [('other','operand')], True, 'bits'),
  '__gt__'       : ('bits_gt',       [('other','operand')], True, 'bits'),
  '__ge__'       : ('bits_ge',       [('other','operand')], True, 'bits'),
  '__bool__'     : ('bits_bool',     [], True, 'bool'),
  '__int__'      : ('bits_int_',     [], True, 'int'),
  'int'          : ('bits_sint',     [], True, 'int'),
  'uint'         : ('bits_uint',     [], True, 'int'),
  '__index__'    : ('bits_index',    [], True, 'int'),
  '__hash__'     : ('bits_hash',     [], True, 'pair'),
}
# order of emission must respect call dependencies (self.__add__ from __radd__, ~self from int())
ORDER = ['__init__','__ilshift__','_flip','clone','__deepcopy__','__imatmul__','__getitem__','__setitem__',
         '__add__','__radd__','__sub__','__rsub__','__mul__','__rmul__','__and__','__rand__','__or__','__ror__',
         '__xor__','__rxor__','__floordiv__','__rfloordiv__','__mod__','__rmod__','__invert__','__lshift__',
         '__rshift__','__eq__','__ne__','__lt__','__le__','__gt__','__ge__','__bool__','__int__','int','uint',
         '__index__','__hash__']
# methods deliberately not modelled here (string formatting; covered by C16's T-diff)
IGNORED = {'nbits','to_bits','__repr__','__str__','bin','oct','hex','to_vcd_str'}

BINOPS = {ast.Add:'Z.add', ast.Sub:'Z.sub', ast.Mult:'Z.mul', ast.BitAnd:'Z.land', ast.BitOr:'Z.lor',
          ast.BitXor:'Z.lxor', ast.LShift:'Z.shiftl', ast.RShift:'Z.shiftr', ast.FloorDiv:'Z.div',
          ast.Mod:'Z.modulo'}
CMPOPS = {ast.Eq:'Z.eqb', ast.Lt:'Z.ltb', ast.LtE:'Z.leb', ast.Gt:'Z.gtb', ast.GtE:'Z.geb'}

class EndTry(ast.stmt):
  _fields = ()

def src(n):
  try: return ast.unparse(n)
  except Exception: return repr(n)

class MethodTr:
  def __init__(self, name, fn, tables):
    self.name, self.fn, self.tables = name, fn, tables
    self.coqname, self.params, self.uses_state, self.rkind = METHODS[name]
    self.counter = 0

  # ---------------- expressions ----------------
  def as_int(self, e, env):
    s, t = self.expr(e, env)
    if t == 'int': return s
    if t == 'bool': return f'(b2z {s})'
    raise Refuse(f'{self.name}: expected int expression, got {t}: {src(e)}')

  def as_bool(self, e, env):
    s, t = self.expr(e, env)
    if t == 'bool': return s
    if t == 'int': return f'(negb ({s} =? 0))'
    if t == 'optint': return f'(py_truthy_opt {s})'
    raise Refuse(f'{self.name}: expected bool expression, got {t}: {src(e)}')

  def is_self_attr(self, e, names):
    return isinstance(e, ast.Attribute) and isinstance(e.value, ast.Name) and e.value.id == 'self' and e.attr in names

  def expr(self, e, env):
    if isinstance(e, ast.Constant):
      if isinstance(e.value, bool): return ('true' if e.value else 'false'), 'bool'
      if isinstance(e.value, int):  return (f'({e.value})' if e.value < 0 else str(e.value)), 'int'
      raise Refuse(f'{self.name}: constant {e.value!r}')
    if isinstance(e, ast.Name):
      if e.id in env: return env[e.id]
      raise Refuse(f'{self.name}: unbound name {e.id}')
    if isinstance(e, ast.Attribute):
      if isinstance(e.value, ast.Name) and e.value.id == 'self':
        key = {'_nbits':'self._nbits','nbits':'self._nbits','_uint':'self._uint','_next':'self._next'}.get(e.attr)
        if key is None or key not in env: raise Refuse(f'{self.name}: self.{e.attr} not available')
        return env[key]
      base = e.value
      # X.to_bits()._uint  ==  X._uint for Bits operands
      if isinstance(base, ast.Call) and isinstance(base.func, ast.Attribute) and base.func.attr == 'to_bits' \
         and not base.args and isinstance(base.func.value, ast.Name):
        base = base.func.value
      if isinstance(base, ast.Name):
        key = f'{base.id}.{e.attr}'
        if key in env: return env[key]
      raise Refuse(f'{self.name}: attribute {src(e)}')
    if isinstance(e, ast.Subscript):
      if isinstance(e.value, ast.Name) and e.value.id in self.tables:
        return f'({self.tables[e.value.id]} {self.as_int(e.slice, env)})', 'int'
      raise Refuse(f'{self.name}: subscript {src(e)}')
    if isinstance(e, ast.Call):
      if isinstance(e.func, ast.Name) and e.func.id == 'int' and len(e.args) == 1 and not e.keywords:
        a = e.args[0]
        if isinstance(a, ast.Name) and env.get(a.id, (None,None))[1] == 'operand':
          key = f'int({a.id})'
          if key in env: return env[key]
          raise Refuse(f'{self.name}: int({a.id}) outside a dispatch arm')
        s, t = self.expr(a, env)
        if t == 'int': return s, 'int'
        if t == 'bool': return f'(b2z {s})', 'int'
        if t == 'bits': return self.bits_to_uint(s), 'int'
        raise Refuse(f'{self.name}: int() of {t}')
      if isinstance(e.func, ast.Attribute) and e.func.attr == 'bit_length' and not e.args and not e.keywords:
        return f'(bit_length {self.as_int(e.func.value, env)})', 'int'
      if isinstance(e.func, ast.Name) and e.func.id == 'abs' and len(e.args) == 1:
        return f'(Z.abs {self.as_int(e.args[0], env)})', 'int'
      # self.__add__( other )  -> call of an already generated function
      if isinstance(e.func, ast.Attribute) and isinstance(e.func.value, ast.Name) and e.func.value.id == 'self' \
         and e.func.attr in METHODS and METHODS[e.func.attr][3] == 'bits' and len(e.args) == 1 \
         and isinstance(e.args[0], ast.Name) and env.get(e.args[0].id,(None,None))[1] == 'operand':
        return f'({METHODS[e.func.attr][0]} {self.state_args(env)} {env[e.args[0].id][0]})', 'bits'
      raise Refuse(f'{self.name}: call {src(e)}')
    if isinstance(e, ast.UnaryOp):
      if isinstance(e.op, ast.Invert):
        if isinstance(e.operand, ast.Name) and e.operand.id == 'self':
          return f'(bits_invert {self.state_args(env)})', 'bits'
        return f'(Z.lnot {self.as_int(e.operand, env)})', 'int'
      if isinstance(e.op, ast.USub):
        return f'(- {self.as_int(e.operand, env)})', 'int'
      if isinstance(e.op, ast.Not):
        return f'(negb {self.as_bool(e.operand, env)})', 'bool'
      raise Refuse(f'{self.name}: unary {src(e)}')
    if isinstance(e, ast.BinOp):
      if type(e.op) not in BINOPS: raise Refuse(f'{self.name}: binop {src(e)}')
      ls, lt = self.expr(e.left, env)
      if lt == 'bits':
        # <Bits expr> + <int literal>  : dispatch to the generated method with an int operand
        if isinstance(e.op, ast.Add) and isinstance(e.right, ast.Constant) and isinstance(e.right.value, int):
          v = self.fresh('t')
          return (f'(bind {ls} (fun {v} => bits_add (fst {v}) (snd {v}) 0 (OInt {e.right.value})))'), 'bits'
        raise Refuse(f'{self.name}: Bits-typed binop {src(e)}')
      l = self.as_int(e.left, env); r = self.as_int(e.right, env)
      return f'({BINOPS[type(e.op)]} {l} {r})', 'int'
    if isinstance(e, ast.Compare):
      if len(e.ops) != 1:
        # chained comparison  a <= b < c ...
        parts = []
        left = e.left
        for op, right in zip(e.ops, e.comparators):
          parts.append(self.cmp1(op, left, right, env)); left = right
        out = parts[0]
        for p in parts[1:]: out = f'({out} && {p})'
        return out, 'bool'
      return self.cmp1(e.ops[0], e.left, e.comparators[0], env), 'bool'
    if isinstance(e, ast.BoolOp):
      if isinstance(e.op, ast.Or) and len(e.values) == 2:
        s0, t0 = self.expr(e.values[0], env)
        if t0 == 'optint':
          return f'(py_or_opt {s0} {self.as_int(e.values[1], env)})', 'int'
      vals = [self.as_bool(v, env) for v in e.values]
      op = ' || ' if isinstance(e.op, ast.Or) else ' && '
      return '(' + op.join(vals) + ')', 'bool'
    if isinstance(e, ast.IfExp):
      # d if X is None else X      /   X if X is not None else d
      t = e.test
      if isinstance(t, ast.Compare) and len(t.ops) == 1 and isinstance(t.comparators[0], ast.Constant) \
         and t.comparators[0].value is None:
        xs, xt = self.expr(t.left, env)
        if xt == 'optint':
          if isinstance(t.ops[0], ast.Is) and ast.dump(e.orelse) == ast.dump(t.left):
            return f'(py_ifnone_opt {xs} {self.as_int(e.body, env)})', 'int'
          if isinstance(t.ops[0], ast.IsNot) and ast.dump(e.body) == ast.dump(t.left):
            return f'(py_ifnone_opt {xs} {self.as_int(e.orelse, env)})', 'int'
        raise Refuse(f'{self.name}: None test {src(e)}')
      c = self.as_bool(e.test, env)
      return f'(if {c} then {self.as_int(e.body, env)} else {self.as_int(e.orelse, env)})', 'int'
    raise Refuse(f'{self.name}: expression {src(e)}')

  def cmp1(self, op, l, r, env):
    ls = self.as_int(l, env); rs = self.as_int(r, env)
    if isinstance(op, ast.NotEq): return f'(negb ({ls} =? {rs}))'
    if type(op) not in CMPOPS: raise Refuse(f'{self.name}: comparison {type(op).__name__}')
    return f'({CMPOPS[type(op)]} {ls} {rs})'

  def bits_to_uint(self, s):
    # int(<Bits expr>)  ==  its _uint ; errors propagate.  Encoded with a sentinel the statement level unwraps.
    return f'⟦UINT {s}⟧'

  def fresh(self, p):
    self.counter += 1
    return f'{p}{self.counter}'

  def state_args(self, env):
    return ' '.join(env[k][0] for k in ('self._nbits','self._uint','self._next'))

  # ---------------- hoisted runtime checks ----------------
  def hoists(self, nodes, env):
    """Python raises for zero divisors and negative shift counts; Z does not. Collect the guards."""
    guards = []
    for n in nodes:
      for sub in ast.walk(n):
        if isinstance(sub, ast.BinOp):
          if isinstance(sub.op, (ast.FloorDiv, ast.Mod)):
            if not (isinstance(sub.right, ast.Constant) and sub.right.value != 0):
              guards.append((f'({self.as_int(sub.right, env)} =? 0)', 'EZeroDiv'))
          if isinstance(sub.op, (ast.LShift, ast.RShift)):
            if not (isinstance(sub.right, ast.Constant) and isinstance(sub.right.value, int) and sub.right.value >= 0):
              guards.append((f'({self.as_int(sub.right, env)} <? 0)', 'EValue'))
    return guards

  def with_hoists(self, nodes, env, body):
    out = body
    for g, e in reversed(self.hoists(nodes, env)):
      out = f'(if {g} then Err {self.maperr(e, env)} else {out})'
    return out

  def unwrap_bits(self, s, k):
    """If expression text s contains a ⟦UINT x⟧ sentinel (int() of a Bits-typed expression), bind it first."""
    if '⟦UINT ' not in s:
      return k(s)
    i = s.index('⟦UINT '); j = s.index('⟧', i)
    inner = s[i+6:j]
    if '⟦' in inner: raise Refuse(f'{self.name}: nested Bits-typed int()')
    v = self.fresh('b')
    return f'(bind {inner} (fun {v} => {self.unwrap_bits(s[:i] + f"(snd {v})" + s[j+1:], k)}))'

  def maperr(self, e, env):
    m = env.get('@errmap')
    return m if m else e

  # ---------------- statements ----------------
  def result(self, env):
    if self.rkind == 'state':
      return f'Ok ({env["self._nbits"][0]}, {env["self._uint"][0]}, {env["self._next"][0]})'
    if self.rkind == 'state2':
      return f'Ok ({env["self._nbits"][0]}, {env["self._uint"][0]})'
    raise Refuse(f'{self.name}: falls off the end but result kind is {self.rkind}')

  def stmts(self, ss, env):
    if not ss:
      return self.result(env)
    s, rest = ss[0], ss[1:]
    if isinstance(s, EndTry):
      env = dict(env); env.pop('@errmap', None)
      return self.stmts(rest, env)
    if isinstance(s, ast.Expr) and isinstance(s.value, ast.Constant) and isinstance(s.value.value, str):
      return self.stmts(rest, env)
    if isinstance(s, ast.Raise):
      exc = s.exc
      name = exc.func.id if isinstance(exc, ast.Call) and isinstance(exc.func, ast.Name) else \
             exc.id if isinstance(exc, ast.Name) else None
      if name not in ERR: raise Refuse(f'{self.name}: raise {src(s)}')
      return f'Err {self.maperr(ERR[name], env)}'
    if isinstance(s, ast.Assert):
      c = self.as_bool(s.test, env)
      body = f'(if {c} then {self.stmts(rest, env)} else Err {self.maperr("EAssert", env)})'
      return self.with_hoists([s.test], env, body)
    if isinstance(s, ast.Return):
      return self.ret(s, env)
    if isinstance(s, ast.Assign):
      if len(s.targets) != 1: raise Refuse(f'{self.name}: multi-target assign')
      t = s.targets[0]
      if isinstance(t, ast.Tuple):
        if not isinstance(s.value, ast.Tuple) or len(s.value.elts) != len(t.elts):
          raise Refuse(f'{self.name}: tuple assign {src(s)}')
        tnames = {x.id for x in t.elts if isinstance(x, ast.Name)}
        if len(tnames) != len(t.elts): raise Refuse(f'{self.name}: tuple targets')
        for v in s.value.elts:
          for sub in ast.walk(v):
            if isinstance(sub, ast.Name) and sub.id in tnames:
              raise Refuse(f'{self.name}: tuple assign with dependency')
        new = [ast.Assign(targets=[a], value=v) for a, v in zip(t.elts, s.value.elts)]
        return self.stmts(new + rest, env)
      return self.assign(t, s.value, rest, env)
    if isinstance(s, ast.If):
      return self.if_(s, rest, env)
    if isinstance(s, ast.Try):
      return self.try_(s, rest, env)
    raise Refuse(f'{self.name}: statement {src(s)}')

  def assign(self, t, value, rest, env):
    # other = int(other) in a dispatch arm: rebinding the operand name to an int
    if isinstance(t, ast.Name):
      # X = int(X) on an operand outside any dispatch arm: int() accepts a Bits (its __int__) or an int
      if isinstance(value, ast.Call) and isinstance(value.func, ast.Name) and value.func.id == 'int' \
         and len(value.args) == 1 and isinstance(value.args[0], ast.Name) \
         and env.get(value.args[0].id,(None,None))[1] == 'operand' and f'int({value.args[0].id})' not in env:
        x = value.args[0].id
        ui, ki = self.fresh('ou'), self.fresh('ok')
        e1 = dict(env); e1[f'int({x})'] = (ui,'int')
        e2 = dict(env); e2[f'int({x})'] = (ki,'int')
        a = self.assign(t, value, rest, e1); b = self.assign(t, value, rest, e2)
        return f'(match {env[x][0]} with OBits _ {ui} => {a} | OInt {ki} => {b} | OOther => Err {self.maperr("EType", env)} end)'
      vs, vt = self.expr(value, env)
      if vt not in ('int','bool'): raise Refuse(f'{self.name}: assignment of {vt} to {t.id}')
      var = self.fresh(t.id + '_')
      env2 = dict(env); env2[t.id] = (var, vt)
      body = self.stmts(rest, env2)
      return self.with_hoists([value], env, self.unwrap_bits(vs, lambda x: f'(let {var} := {x} in {body})'))
    if self.is_self_attr(t, ('_nbits','_uint','_next')):
      vs = self.as_int(value, env)
      var = self.fresh('s' + t.attr + '_')
      env2 = dict(env); env2['self.' + t.attr] = (var, 'int')
      body = self.stmts(rest, env2)
      return self.with_hoists([value], env, self.unwrap_bits(vs, lambda x: f'(let {var} := {x} in {body})'))
    raise Refuse(f'{self.name}: assignment target {src(t)}')

  def ret(self, s, env):
    v = s.value
    if self.rkind in ('state','state2'):
      if v is None or (isinstance(v, ast.Name) and v.id == 'self') or (isinstance(v, ast.Constant) and v.value is None):
        return self.result(env)
      raise Refuse(f'{self.name}: return {src(s)} in a mutator')
    if self.rkind == 'bits':
      if isinstance(v, ast.Call) and isinstance(v.func, ast.Name) and v.func.id == '_new_valid_bits' and len(v.args) == 2:
        a = self.as_int(v.args[0], env); b = self.as_int(v.args[1], env)
        return self.with_hoists(v.args, env, self.unwrap_bits(f'Ok ({a}, {b})', lambda x: x))
      vs, vt = self.expr(v, env)
      if vt == 'bits': return vs
      raise Refuse(f'{self.name}: return {src(s)} (expected a Bits)')
    if self.rkind == 'int':
      vs = self.as_int(v, env)
      return self.with_hoists([v], env, self.unwrap_bits(f'Ok {vs}', lambda x: x))
    if self.rkind == 'bool':
      return f'Ok {self.as_bool(v, env)}'
    if self.rkind == 'pair':
      if isinstance(v, ast.Call) and isinstance(v.func, ast.Name) and v.func.id == 'hash' and len(v.args) == 1 \
         and isinstance(v.args[0], ast.Tuple) and len(v.args[0].elts) == 2:
        a, b = (self.as_int(x, env) for x in v.args[0].elts)
        return f'Ok ({a}, {b})'
      raise Refuse(f'{self.name}: return {src(s)} (expected hash of a pair)')
    raise Refuse(f'{self.name}: return kind')

  def isinstance_test(self, t):
    if isinstance(t, ast.Call) and isinstance(t.func, ast.Name) and t.func.id == 'isinstance' and len(t.args) == 2 \
       and isinstance(t.args[0], ast.Name) and isinstance(t.args[1], ast.Name):
      return t.args[0].id, t.args[1].id
    return None

  def if_(self, s, rest, env):
    it = self.isinstance_test(s.test)
    if it:
      name, cls = it
      kind = env.get(name, (None, None))[1]
      if cls == 'Bits' and kind == 'operand':
        v = env[name][0]
        nb, ui, ki = self.fresh('on'), self.fresh('ou'), self.fresh('ok')
        e1 = dict(env); e1[f'{name}.nbits'] = (nb,'int'); e1[f'{name}._uint'] = (ui,'int')
        e2 = dict(env); e2[f'int({name})'] = (ki,'int')
        a = self.stmts(s.body + rest, e1)
        b = self.stmts(s.orelse + rest, e2)
        return (f'(match {v} with OBits {nb} {ui} => {a} | OInt {ki} => {b} | OOther => Err {self.maperr("EType", env)} end)')
      if cls == 'slice' and kind == 'idx':
        v = env[name][0]
        a_, b_, c_, k_ = self.fresh('start'), self.fresh('stop'), self.fresh('step'), self.fresh('ik')
        e1 = dict(env)
        e1[f'{name}.start'] = (a_,'optint'); e1[f'{name}.stop'] = (b_,'optint'); e1[f'{name}.step'] = (c_,'optint')
        e2 = dict(env); e2[name] = (k_, 'int')
        a = self.stmts(s.body + rest, e1)
        b = self.stmts(s.orelse + rest, e2)
        return f'(match {v} with ISlice {a_} {b_} {c_} => {a} | IInt {k_} => {b} end)'
      raise Refuse(f'{self.name}: isinstance({name}, {cls})')
    c = self.as_bool(s.test, env)
    a = self.stmts(s.body + rest, env)
    b = self.stmts(s.orelse + rest, env)
    return self.with_hoists([s.test], env, f'(if {c} then {a} else {b})')

  def first_attr_probe(self, body):
    """The try body must start by reading <name>.nbits in an `if` test, so that a non-Bits operand
    raises AttributeError before anything else happens."""
    if not body or not isinstance(body[0], ast.If): return None
    t = body[0].test
    if isinstance(t, ast.Compare) and isinstance(t.left, ast.Attribute) and isinstance(t.left.value, ast.Name) \
       and t.left.attr == 'nbits':
      return t.left.value.id
    return None

  def try_(self, s, rest, env):
    if s.finalbody or s.orelse or len(s.handlers) != 1:
      raise Refuse(f'{self.name}: try shape')
    h = s.handlers[0]
    # (A) try: ... assert ...  except: raise IndexError(...)       -> error re-mapping
    if h.type is None and len(h.body) == 1 and isinstance(h.body[0], ast.Raise):
      exc = h.body[0].exc
      nm = exc.func.id if isinstance(exc, ast.Call) and isinstance(exc.func, ast.Name) else None
      if nm not in ERR: raise Refuse(f'{self.name}: handler raises {src(exc)}')
      for st in s.body:
        if not isinstance(st, (ast.Assign, ast.Assert)):
          raise Refuse(f'{self.name}: unsupported statement in re-mapping try: {src(st)}')
      env2 = dict(env); env2['@errmap'] = ERR[nm]
      return self.stmts(s.body + [EndTry()] + rest, env2)
    # (B) try: if X.nbits != ...  except AttributeError: ...         -> operand-kind dispatch
    if isinstance(h.type, ast.Name) and h.type.id == 'AttributeError':
      name = self.first_attr_probe(s.body)
      if name is None or env.get(name,(None,None))[1] != 'operand':
        raise Refuse(f'{self.name}: try/except AttributeError without leading .nbits probe')
      v = env[name][0]
      nb, ui, ki = self.fresh('on'), self.fresh('ou'), self.fresh('ok')
      e1 = dict(env); e1[f'{name}.nbits'] = (nb,'int'); e1[f'{name}._uint'] = (ui,'int')
      a = self.stmts(s.body + rest, e1)
      e2 = dict(env); e2[f'int({name})'] = (ki,'int')
      b = self.stmts(h.body + rest, e2)
      c = self.other_arm(h.body, rest, env, name)
      return f'(match {v} with OBits {nb} {ui} => {a} | OInt {ki} => {b} | OOther => {c} end)'
    # (C) in an int arm:  try: X = int(X)  except: <stmts>   — int() of an int cannot raise
    if h.type is None and len(s.body) == 1 and isinstance(s.body[0], ast.Assign) \
       and isinstance(s.body[0].targets[0], ast.Name) \
       and src(s.body[0].value) == f'int({s.body[0].targets[0].id})' \
       and f'int({s.body[0].targets[0].id})' in env:
      return self.stmts(s.body + rest, env)
    raise Refuse(f'{self.name}: try handler {src(h.type) if h.type else "bare"}')

  def other_arm(self, hbody, rest, env, name):
    """operand for which int() raises: either TypeError escapes, or a nested
       try: other = int(other) / except: <stmts> catches it."""
    if hbody and isinstance(hbody[0], ast.Try):
      t = hbody[0]
      if len(t.handlers) == 1 and t.handlers[0].type is None and len(t.body) == 1 \
         and isinstance(t.body[0], ast.Assign) and src(t.body[0].value) == f'int({name})':
        return self.stmts(t.handlers[0].body + hbody[1:] + rest, env)
      raise Refuse(f'{self.name}: nested try shape')
    return f'Err {self.maperr("EType", env)}'

  def translate(self):
    fn = self.fn
    args = [a.arg for a in fn.args.args]
    if fn.args.vararg or fn.args.kwarg or fn.args.kwonlyargs:
      raise Refuse(f'{self.name}: signature')
    want = ['self'] + [p for p, _ in self.params]
    if args[0] not in ('self','s') or args[1:] != want[1:]:
      raise Refuse(f'{self.name}: parameters {args} (expected {want})')
    env = {}
    coqparams = []
    if self.uses_state:
      env['self._nbits'] = ('s_nbits','int'); env['self._uint'] = ('s_uint','int'); env['self._next'] = ('s_next','int')
      coqparams.append('(s_nbits s_uint s_next : Z)')
    for p, k in self.params:
      if k == 'ignored': continue
      ty = {'int':'Z','bool':'bool','operand':'operand','idx':'pyidx'}[k]
      coqparams.append(f'({p} : {ty})')
      env[p] = (p, k)
    rty = {'state':'res (Z * Z * Z)','state2':'res (Z * Z)','bits':'res (Z * Z)','int':'res Z','bool':'res bool',
           'pair':'res (Z * Z)'}[self.rkind]
    body = self.stmts(fn.body, env)
    return f'Definition {self.coqname} {" ".join(coqparams)} : {rty} :=\n  {body}.\n'

def translate_tables(mod):
  """_upper = [a0, a1]; _lower = [b0, b1]; for i in range(2, N): _upper.append(F(_upper[i-1])); ..."""
  inits, loop = {}, None
  for st in mod.body:
    if isinstance(st, ast.Assign) and len(st.targets) == 1 and isinstance(st.targets[0], ast.Name) \
       and st.targets[0].id in ('_upper','_lower'):
      if not (isinstance(st.value, ast.List) and len(st.value.elts) == 2):
        raise Refuse('table initialiser shape')
      vals = []
      for x in st.value.elts:
        vals.append(ast.literal_eval(x))
      inits[st.targets[0].id] = vals
    if isinstance(st, ast.For) and isinstance(st.iter, ast.Call) and getattr(st.iter.func,'id',None) == 'range':
      loop = st
  if set(inits) != {'_upper','_lower'} or loop is None: raise Refuse('tables not found')
  lo, hi = (ast.literal_eval(a) for a in loop.iter.args)
  if lo != 2: raise Refuse('table loop start')
  ivar = loop.target.id
  out = [f'Definition tbl_len : Z := {hi}.']
  seen = set()
  for st in loop.body:
    if not (isinstance(st, ast.Expr) and isinstance(st.value, ast.Call) and isinstance(st.value.func, ast.Attribute)
            and st.value.func.attr == 'append' and isinstance(st.value.func.value, ast.Name)
            and st.value.func.value.id in inits and len(st.value.args) == 1):
      raise Refuse('table loop body')
    tname = st.value.func.value.id; seen.add(tname)
    def tr(e):
      if isinstance(e, ast.Constant) and isinstance(e.value, int): return str(e.value)
      if isinstance(e, ast.BinOp) and type(e.op) in BINOPS:
        return f'({BINOPS[type(e.op)]} {tr(e.left)} {tr(e.right)})'
      if isinstance(e, ast.Subscript) and isinstance(e.value, ast.Name) and e.value.id == tname \
         and src(e.slice) == f'{ivar} - 1':
        return 'prev'
      raise Refuse(f'table recurrence {src(e)}')
    f = tr(st.value.args[0])
    cn = tname.strip('_')
    a0, a1 = inits[tname]
    out.append(f'Fixpoint {cn}_tbl (i : nat) : Z :=\n  match i with\n  | O => ({a0})\n  | S j => match j with O => ({a1}) | S _ => let prev := {cn}_tbl j in {f} end\n  end.')
    out.append(f'Definition {cn} (n : Z) : Z := {cn}_tbl (Z.to_nat n).')
  if seen != set(inits): raise Refuse('table loop does not fill both tables')
  return '\n'.join(out) + '\n', {'_upper':'upper','_lower':'lower'}

def translate_new_valid_bits(mod):
  for st in mod.body:
    if isinstance(st, ast.FunctionDef) and st.name == '_new_valid_bits':
      want = "def _new_valid_bits(nbits, uint):\n    ret = object_new(Bits)\n    ret._nbits = nbits\n    ret._uint = uint\n    return ret"
      if ast.unparse(st) != want: raise Refuse('_new_valid_bits changed:\n' + ast.unparse(st))
      return
  raise Refuse('_new_valid_bits missing')

def translate(path):
  text = open(path).read()
  mod = ast.parse(text)
  translate_new_valid_bits(mod)
  tbl_text, tables = translate_tables(mod)
  cls = [n for n in mod.body if isinstance(n, ast.ClassDef) and n.name == 'Bits']
  if len(cls) != 1: raise Refuse('class Bits not found')
  fns = {}
  for n in cls[0].body:
    if isinstance(n, ast.FunctionDef):
      if n.name in fns: raise Refuse(f'duplicate method {n.name}')
      fns[n.name] = n
    elif isinstance(n, ast.Assign) and src(n.targets[0]) == '__slots__':
      pass
    elif isinstance(n, ast.Expr) and isinstance(n.value, ast.Constant):
      pass
    else:
      raise Refuse(f'class-level statement {src(n)}')
  unknown = set(fns) - set(METHODS) - IGNORED
  if unknown: raise Refuse(f'methods not known to the translator: {sorted(unknown)}')
  missing = set(METHODS) - set(fns)
  if missing: raise Refuse(f'methods missing from the source: {sorted(missing)}')
  # nbits property and to_bits must be the identity accessors the model assumes
  if ast.unparse(fns['nbits'].body[0]) != 'return self._nbits': raise Refuse('nbits property changed')
  if ast.unparse(fns['to_bits'].body[0]) != 'return self': raise Refuse('to_bits changed')
  out = ['(* GENERATED by translators/py2coq_bits.py from pymtl3/datatypes/PythonBits.py — do not edit *)',
         'From PV Require Import Base.Prelude.', 'Open Scope Z_scope.', '', tbl_text]
  for name in ORDER:
    out.append(MethodTr(name, fns[name], tables).translate())
  return '\n'.join(out)

class HelperTr(MethodTr):
  """helpers.py straight-line functions: value is a Bits (v_nbits, v_uint); new_width is an int or a BitsN class."""
  def __init__(self, name, fn, coqname, params):
    self.name, self.fn, self.tables = name, fn, {}
    self.coqname, self.params, self.uses_state, self.rkind = coqname, params, False, 'bits'
    self.counter = 0

  def expr(self, e, env):
    # value.nbits / value.uint() / value.int() / int(value)
    if isinstance(e, ast.Attribute) and isinstance(e.value, ast.Name) and env.get(e.value.id, (None, None))[1] == 'bitsval' and e.attr == 'nbits':
      return 'v_nbits', 'int'
    if isinstance(e, ast.Call) and isinstance(e.func, ast.Attribute) and isinstance(e.func.value, ast.Name) \
       and env.get(e.func.value.id, (None, None))[1] == 'bitsval' and not e.args and not e.keywords:
      if e.func.attr == 'uint': return 'v_uint', 'int'
      if e.func.attr == 'int':  return '(bind (bits_sint v_nbits v_uint 0) (fun z => Ok (0, z)))', 'bits'
      raise Refuse(f'{self.name}: method {e.func.attr} of value')
    if isinstance(e, ast.Call) and isinstance(e.func, ast.Name) and e.func.id == 'int' and len(e.args) == 1 \
       and isinstance(e.args[0], ast.Name) and env.get(e.args[0].id, (None, None))[1] == 'bitsval':
      return 'v_uint', 'int'
    return MethodTr.expr(self, e, env)

  def ctor(self, v, env):
    """Bits(w, X [, trunc_int=True])  |  new_width(X [, trunc_int=True])  |  b1(X)   ->  res (Z*Z)"""
    if not isinstance(v, ast.Call) or not isinstance(v.func, ast.Name): return None
    kw = {k.arg: k.value for k in v.keywords}
    if set(kw) - {'trunc_int'}: raise Refuse(f'{self.name}: keyword {sorted(kw)}')
    tr = 'false'
    if 'trunc_int' in kw:
      if not (isinstance(kw['trunc_int'], ast.Constant) and isinstance(kw['trunc_int'].value, bool)): raise Refuse('trunc_int value')
      tr = 'true' if kw['trunc_int'].value else 'false'
    f = v.func.id
    if f == 'Bits' and len(v.args) == 2:
      w, x = self.as_int(v.args[0], env), v.args[1]
    elif f in env and env[f][1] == 'wtype' and len(v.args) == 1:
      w, x = env[f][0], v.args[0]
    elif f == 'b1' and len(v.args) == 1:
      w, x = '1', v.args[0]
    else:
      return None
    xs, xt = self.expr(x, env)
    if xt == 'bits':     # value.int(): bind the signed value first
      b = self.fresh('sv')
      return f'(bind {xs} (fun {b} => bits_init {w} (OInt (snd {b})) {tr}))'
    xs = self.as_int(x, env)
    return self.with_hoists([x], env, f'(bits_init {w} (OInt {xs}) {tr})')

  def ret(self, s, env):
    c = self.ctor(s.value, env)
    if c is None: raise Refuse(f'{self.name}: return {src(s)}')
    return c

  def if_(self, s, rest, env):
    it = self.isinstance_test(s.test)
    if it and it[1] == 'int' and env.get(it[0], (None, None))[1] == 'wspec':
      v = env[it[0]][0]
      wi, wt = self.fresh('wi'), self.fresh('wt')
      e1 = dict(env); e1[it[0]] = (wi, 'int')
      e2 = dict(env); e2[it[0]] = (wt, 'wtype')
      return f'(match {v} with WInt {wi} => {self.stmts(s.body + rest, e1)} | WType {wt} => {self.stmts(s.orelse + rest, e2)} end)'
    return MethodTr.if_(self, s, rest, env)

  def stmts(self, ss, env):
    # assert issubclass( new_width, Bits )   holds in the WType arm by construction
    if ss and isinstance(ss[0], ast.Assert) and src(ss[0].test).replace(' ', '') in ('issubclass(new_width,Bits)',):
      if env.get('new_width', (None, None))[1] != 'wtype': raise Refuse(f'{self.name}: issubclass outside the type arm')
      return self.stmts(ss[1:], env)
    return MethodTr.stmts(self, ss, env)

  def try_(self, s, rest, env):
    # try: return b1( ... value.nbits ... )  except AttributeError: raise TypeError     (value is a Bits here)
    if len(s.handlers) == 1 and isinstance(s.handlers[0].type, ast.Name) and s.handlers[0].type.id == 'AttributeError' \
       and len(s.handlers[0].body) == 1 and isinstance(s.handlers[0].body[0], ast.Raise):
      return self.stmts(s.body + rest, env)
    return MethodTr.try_(self, s, rest, env)

  def translate(self):
    fn = self.fn
    args = [a.arg for a in fn.args.args]
    if args != [p for p, _ in self.params]: raise Refuse(f'{self.name}: parameters {args}')
    env = {}
    coqparams = []
    for p, k in self.params:
      if k == 'bitsval': coqparams.append('(v_nbits v_uint : Z)'); env[p] = (p, 'bitsval')
      elif k == 'wspec': coqparams.append(f'({p} : wspec)'); env[p] = (p, 'wspec')
      elif k == 'int':   coqparams.append(f'({p} : Z)'); env[p] = (p, 'int')
    body = self.stmts(fn.body, env)
    return f'Definition {self.coqname} {" ".join(coqparams)} : res (Z * Z) :=\n  {body}.\n'

def translate_helpers(path, bits_import_path):
  """helpers.py: clog2, trunc, zext, sext, reduce_and, reduce_or are translated (straight-line code);
  concat and reduce_xor (loops) are hand-modelled in Bits/Helpers.v and tied by T-diff."""
  mod = ast.parse(open(path).read())
  fns = {n.name: n for n in ast.walk(mod) if isinstance(n, ast.FunctionDef)}
  for need in ('clog2', 'trunc', 'zext', 'sext', 'reduce_and', 'reduce_or'):
    if need not in fns: raise Refuse(f'helpers.{need} missing')
  # the BitsN class constructor must be Bits.__init__( N, v, trunc_int ) — pinned in the class template
  bi = open(bits_import_path).read()
  if bi.count('return super().__init__( {0}, v, trunc_int )') < 1 or 'def __init__( s, v=0, *, trunc_int=False ):' not in bi:
    raise Refuse('bits_import.py class template changed')
  fn = fns['clog2']
  if [a.arg for a in fn.args.args] != ['N']: raise Refuse('clog2 signature')
  METHODS['clog2'] = ('gen_clog2', [('N', 'int')], False, 'int')
  tr = MethodTr('clog2', ast.FunctionDef(name='clog2', args=ast.arguments(posonlyargs=[], args=[ast.arg('self')] + fn.args.args,
                 kwonlyargs=[], kw_defaults=[], defaults=[]), body=fn.body, decorator_list=[]), {})
  out = ['(* GENERATED by translators/py2coq_bits.py from pymtl3/datatypes/helpers.py — do not edit *)',
         'From PV Require Import Base.Prelude Bits.BitsSpec Bits.Helpers Gen.BitsGen.', 'Open Scope Z_scope.', '',
         'Inductive wspec : Set := WInt (w : Z) | WType (w : Z).', '', tr.translate()]
  for name in ('trunc', 'zext', 'sext'):
    out.append(HelperTr(name, fns[name], 'gen_' + name, [('value', 'bitsval'), ('new_width', 'wspec')]).translate())
  for name in ('reduce_and', 'reduce_or'):
    out.append(HelperTr(name, fns[name], 'gen_' + name, [('value', 'bitsval')]).translate())
  return '\n'.join(out)

def emit(dst, text):
  old = open(dst).read() if os.path.exists(dst) else None
  if old != text:
    with open(dst, 'w') as f: f.write(text)

if __name__ == '__main__':
  repo = sys.argv[1] if len(sys.argv) > 1 else '/repo'
  dst = sys.argv[2] if len(sys.argv) > 2 else os.path.join(os.path.dirname(__file__), '..', 'coq', 'theories', 'Gen', 'BitsGen.v')
  try:
    text = translate(os.path.join(repo, 'pymtl3', 'datatypes', 'PythonBits.py'))
  except Refuse as e:
    print('REFUSE:', e)
    sys.exit(3)
  except SyntaxError as e:
    print('REFUSE: syntax error', e)
    sys.exit(3)
  emit(dst, text)
  print('ok', dst)
  hdst = os.path.join(os.path.dirname(dst), 'HelpersGen.v')
  try:
    emit(hdst, translate_helpers(os.path.join(repo, 'pymtl3', 'datatypes', 'helpers.py'), os.path.join(repo, 'pymtl3', 'datatypes', 'bits_import.py')))
    print('ok', hdst)
  except (Refuse, SyntaxError) as e:
    # leave a stub that does NOT define gen_clog2: Props/C05.v then fails to build (fail-closed)
    emit(hdst, '(* translator refused: %s *)\n' % str(e).replace('*)', '* )'))
    print('REFUSE:', e)
    sys.exit(3)
