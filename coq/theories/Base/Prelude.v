(* Base/Prelude.v — shared vocabulary of every model in this development.
   Nothing here is specific to one property.  No axioms. *)
From Coq Require Export ZArith List Bool Lia ZifyBool.
Export ListNotations.
Open Scope Z_scope.

Ltac Zify.zify_post_hook ::= Z.to_euclidean_division_equations.

(* ---- results with a small error enum (exceptions are compared by class) ---- *)
Inductive err : Set :=
| EValue      (* ValueError : width mismatch / value does not fit *)
| EIndex      (* IndexError *)
| EZeroDiv    (* ZeroDivisionError *)
| EAssert     (* AssertionError *)
| EType       (* TypeError / AttributeError leaking out *)
| EOther.

Inductive res (A : Type) : Type :=
| Ok  (a : A)
| Err (e : err).
Arguments Ok {A} a.
Arguments Err {A} e.

Definition bind {A B} (r : res A) (f : A -> res B) : res B :=
  match r with Ok a => f a | Err e => Err e end.

Definition res_eqb {A} (eqb : A -> A -> bool) (x y : res A) : bool :=
  match x, y with
  | Ok a, Ok b => eqb a b
  | Err e, Err f =>
      match e, f with
      | EValue, EValue | EIndex, EIndex | EZeroDiv, EZeroDiv
      | EAssert, EAssert | EType, EType | EOther, EOther => true
      | _, _ => false
      end
  | _, _ => false
  end.

Definition b2z (b : bool) : Z := if b then 1 else 0.

(* ---- Python operand kinds seen by Bits methods ---- *)
Inductive operand : Set :=
| OBits (n u : Z)      (* a Bits / bitstruct value: has .nbits, ._uint, .to_bits() *)
| OInt  (k : Z)        (* anything int() accepts and that has no .nbits *)
| OOther.              (* anything else (int() raises) *)

Inductive pyidx : Set :=
| ISlice (start stop step : option Z)
| IInt   (k : Z).

(* Python `x or d` when x is None-or-int *)
Definition py_or_opt (x : option Z) (d : Z) : Z :=
  match x with None => d | Some k => if k =? 0 then d else k end.
(* Python `d if x is None else x` *)
Definition py_ifnone_opt (x : option Z) (d : Z) : Z :=
  match x with None => d | Some k => k end.
(* truthiness of None-or-int *)
Definition py_truthy_opt (x : option Z) : bool :=
  match x with None => false | Some k => negb (k =? 0) end.

(* index helpers used by the correspondence files *)
Fixpoint bad_indices_from {A} (f : A -> bool) (i : nat) (l : list A) : list nat :=
  match l with
  | [] => []
  | x :: xs => if f x then bad_indices_from f (S i) xs else i :: bad_indices_from f (S i) xs
  end.
Definition bad_indices {A} (f : A -> bool) (l : list A) : list nat := bad_indices_from f 0%nat l.

Definition pair_eqb (a b : Z * Z) : bool := (fst a =? fst b) && (snd a =? snd b).
Definition triple_eqb (a b : Z * Z * Z) : bool :=
  pair_eqb (fst a) (fst b) && (snd a =? snd b).

Lemma bad_indices_from_nil {A} (f : A -> bool) l i :
  bad_indices_from f i l = [] <-> forallb f l = true.
Proof.
  revert i; induction l as [|x xs IH]; intros i; cbn; [tauto|].
  destruct (f x); cbn; [apply IH|]. split; discriminate.
Qed.
