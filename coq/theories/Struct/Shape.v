(* Struct/Shape.v — shapes and values of pymtl3 bitstructs (model M2).  Definitions only, no axioms.

   A bitstruct type is a tree:   SBits n            a BitsN field
                                 SStruct fs         a (nested) bitstruct with fields fs, in declaration order
                                 SList len elt      a list field of len elements of the same type
   Field *names* live outside the model (the harness maps them to indices); order is list order.
   Multi-dimensional list fields are nested SList.                                                   *)
From PV Require Import Base.Prelude.
(* -- *)
Open Scope Z_scope.

Inductive shape : Type :=
| SBits   (n : Z)
| SStruct (fs : list shape)
| SList   (len : nat) (elt : shape).

Inductive value : Type :=
| VBits   (u : Z)
| VStruct (vs : list value)
| VList   (vs : list value).

(* a path from a struct value to one of its sub-objects: field index / list element index *)
Inductive step : Type := Fld (i : nat) | Idx (i : nat).
Definition path := list step.

(* ---- nested induction principles, written by hand (no axioms) ---- *)
Section ShapeInd.
  Variable P : shape -> Prop.
  Hypothesis Hb : forall n, P (SBits n).
  Hypothesis Hs : forall fs, Forall P fs -> P (SStruct fs).
  Hypothesis Hl : forall len e, P e -> P (SList len e).
  Fixpoint shape_ind' (T : shape) : P T :=
    match T with
    | SBits n => Hb n
    | SStruct fs =>
        Hs fs ((fix go (l : list shape) : Forall P l :=
                  match l with
                  | [] => Forall_nil P
                  | f :: r => Forall_cons f (shape_ind' f) (go r)
                  end) fs)
    | SList len e => Hl len e (shape_ind' e)
    end.
End ShapeInd.

Section ValueInd.
  Variable P : value -> Prop.
  Hypothesis Hb : forall u, P (VBits u).
  Hypothesis Hs : forall vs, Forall P vs -> P (VStruct vs).
  Hypothesis Hl : forall vs, Forall P vs -> P (VList vs).
  Fixpoint value_ind' (v : value) : P v :=
    match v with
    | VBits u => Hb u
    | VStruct vs =>
        Hs vs ((fix go (l : list value) : Forall P l :=
                  match l with [] => Forall_nil P | f :: r => Forall_cons f (value_ind' f) (go r) end) vs)
    | VList vs =>
        Hl vs ((fix go (l : list value) : Forall P l :=
                  match l with [] => Forall_nil P | f :: r => Forall_cons f (value_ind' f) (go r) end) vs)
    end.
End ValueInd.

(* ---- generic list helpers ---- *)
Definition sumz (l : list Z) : Z := fold_right Z.add 0 l.

Section Forall2b.
  Context {A B : Type} (f : A -> B -> bool).
  Fixpoint forall2b (l : list A) (m : list B) : bool :=
    match l, m with
    | [], [] => true
    | a :: l', b :: m' => f a b && forall2b l' m'
    | _, _ => false
    end.
End Forall2b.

Fixpoint list_eqb {A} (eqb : A -> A -> bool) (l m : list A) : bool :=
  match l, m with
  | [], [] => true
  | a :: l', b :: m' => eqb a b && list_eqb eqb l' m'
  | _, _ => false
  end.

Definition step_eqb (a b : step) : bool :=
  match a, b with
  | Fld i, Fld j => Nat.eqb i j
  | Idx i, Idx j => Nat.eqb i j
  | _, _ => false
  end.
Definition path_eqb : path -> path -> bool := list_eqb step_eqb.

(* ---- width: sum of the widths of the parts ---- *)
Fixpoint width (T : shape) : Z :=
  match T with
  | SBits n => n
  | SStruct fs => sumz (map width fs)
  | SList len e => Z.of_nat len * width e
  end.
Definition widths (fs : list shape) : Z := sumz (map width fs).

(* leaf widths, in declaration order *)
Fixpoint leaf_widths (T : shape) : list Z :=
  match T with
  | SBits n => [n]
  | SStruct fs => concat (map leaf_widths fs)
  | SList len e => concat (repeat (leaf_widths e) len)
  end.

(* well-formed as pymtl3 demands: Bits width >= 1, at least one field, lists non-empty *)
Fixpoint wf (T : shape) : bool :=
  match T with
  | SBits n => 0 <? n
  | SStruct fs => negb (Nat.eqb (length fs) 0) && forallb wf fs
  | SList len e => negb (Nat.eqb len 0) && wf e
  end.

(* v is a value of type T: every leaf in range, arities and list lengths as declared *)
Fixpoint typed (T : shape) (v : value) {struct T} : bool :=
  match T, v with
  | SBits n, VBits u => (0 <=? u) && (u <? 2 ^ n)
  | SStruct fs, VStruct vs => forall2b typed fs vs
  | SList len e, VList vs => Nat.eqb (length vs) len && forallb (typed e) vs
  | _, _ => false
  end.

(* structural (field-by-field) equality of values: what the generated __eq__ computes *)
Fixpoint veqb (v w : value) {struct v} : bool :=
  match v, w with
  | VBits a, VBits b => a =? b
  | VStruct vs, VStruct ws => forall2b veqb vs ws
  | VList vs, VList ws => forall2b veqb vs ws
  | _, _ => false
  end.

(* navigation *)
Fixpoint leaf_at (v : value) (p : path) {struct p} : option Z :=
  match p, v with
  | [], VBits u => Some u
  | Fld i :: q, VStruct vs => match nth_error vs i with Some x => leaf_at x q | None => None end
  | Idx i :: q, VList vs => match nth_error vs i with Some x => leaf_at x q | None => None end
  | _, _ => None
  end.

Fixpoint shape_at (T : shape) (p : path) {struct p} : option shape :=
  match p, T with
  | [], _ => Some T
  | Fld i :: q, SStruct fs => match nth_error fs i with Some f => shape_at f q | None => None end
  | Idx i :: q, SList len e => if Nat.ltb i len then shape_at e q else None
  | _, _ => None
  end.
