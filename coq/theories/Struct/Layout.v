(* Struct/Layout.v — packing layout of bitstructs and a cell-store model of copying.  Definitions only.

   pack T v      the unsigned integer of to_bits(): FIRST field MOST significant; inside a list field
                 element 0 is LEAST significant (element len-1 most significant); nested lists alike
   unpack T b    the value from_bits() builds from the packed integer b
   leaf_ranges T the bit range [lo,hi) of every leaf, listed most-significant leaf first
   range_tree    the slices `other[lo:hi]` of the generated from_bits text, as a tree
   concat_model  helpers.concat, as a fold                                                        *)
From PV Require Import Base.Prelude Struct.Shape.
(* -- *)
Open Scope Z_scope.

(* ------------------------------------------------------------------ pack *)
Section PackFields.
  Variable rec : shape -> value -> Z.
  Fixpoint pack_fields (fs : list shape) (vs : list value) {struct fs} : Z :=
    match fs, vs with
    | f :: fr, x :: xr => rec f x * 2 ^ (widths fr) + pack_fields fr xr
    | _, _ => 0
    end.
End PackFields.
Section PackElems.
  Variable rece : value -> Z.
  Variable we : Z.
  Fixpoint pack_elems (vs : list value) : Z :=
    match vs with
    | [] => 0
    | x :: xr => rece x + 2 ^ we * pack_elems xr
    end.
End PackElems.
Fixpoint pack (T : shape) (v : value) {struct T} : Z :=
  match T, v with
  | SBits n, VBits u => u
  | SStruct fs, VStruct vs => pack_fields pack fs vs
  | SList len e, VList vs => pack_elems (pack e) (width e) vs
  | _, _ => 0
  end.

(* ------------------------------------------------------------------ unpack *)
Section UnpackFields.
  Variable rec : shape -> Z -> value.
  Fixpoint unpack_fields (fs : list shape) (b : Z) : list value :=
    match fs with
    | [] => []
    | f :: fr => rec f (b / 2 ^ (widths fr)) :: unpack_fields fr b
    end.
End UnpackFields.
Section UnpackElems.
  Variable rece : Z -> value.
  Variable we : Z.
  Fixpoint unpack_elems (k : nat) (b : Z) : list value :=
    match k with
    | O => []
    | S k' => rece b :: unpack_elems k' (b / 2 ^ we)
    end.
End UnpackElems.
Fixpoint unpack (T : shape) (b : Z) : value :=
  match T with
  | SBits n => VBits (b mod 2 ^ n)
  | SStruct fs => VStruct (unpack_fields unpack fs b)
  | SList len e => VList (unpack_elems (unpack e) (width e) len b)
  end.

(* ------------------------------------------------------------------ leaf ranges, most significant first *)
Definition rng := (path * Z * Z)%type.
Definition rpath (r : rng) : path := fst (fst r).
Definition rlo (r : rng) : Z := snd (fst r).
Definition rhi (r : rng) : Z := snd r.
Definition pre (s : step) (r : rng) : rng := (s :: rpath r, rlo r, rhi r).

Section RangesFields.
  Variable rec : shape -> Z -> list rng.
  Fixpoint ranges_fields (fs : list shape) (lo : Z) (i : nat) : list rng :=
    match fs with
    | [] => []
    | f :: fr => map (pre (Fld i)) (rec f (lo + widths fr)) ++ ranges_fields fr lo (S i)
    end.
End RangesFields.
Section RangesElems.
  Variable rece : Z -> list rng.
  Variable we : Z.
  (* elements k-1, k-2, ..., 0 : element j sits at lo + j*we *)
  Fixpoint ranges_elems (k : nat) (lo : Z) : list rng :=
    match k with
    | O => []
    | S k' => map (pre (Idx k')) (rece (lo + Z.of_nat k' * we)) ++ ranges_elems k' lo
    end.
End RangesElems.
Fixpoint ranges_at (T : shape) (lo : Z) : list rng :=
  match T with
  | SBits n => [([], lo, lo + n)]
  | SStruct fs => ranges_fields ranges_at fs lo 0
  | SList len e => ranges_elems (ranges_at e) (width e) len lo
  end.
Definition leaf_ranges (T : shape) : list rng := ranges_at T 0.

Definition rng_eqb (a b : rng) : bool :=
  path_eqb (rpath a) (rpath b) && (rlo a =? rlo b) && (rhi a =? rhi b).

(* a list of ranges is a descending chain from `top` down to `bot`: each range starts where the next one ends *)
Fixpoint chain (top : Z) (l : list rng) (bot : Z) : Prop :=
  match l with
  | [] => top = bot
  | r :: l' => rhi r = top /\ rlo r < rhi r /\ chain (rlo r) l' bot
  end.

(* "p is laid out above q": at the first step where they differ, p takes the EARLIER field or the LATER list element *)
Fixpoint above (p q : path) : Prop :=
  match p, q with
  | Fld i :: p', Fld j :: q' => (i < j)%nat \/ (i = j /\ above p' q')
  | Idx i :: p', Idx j :: q' => (j < i)%nat \/ (i = j /\ above p' q')
  | _, _ => False
  end.

(* ------------------------------------------------------------------ helpers.concat and Bits slicing *)
(* concat( *args ): value = nbits = 0; for x in args: nbits += x.nbits; value = (value << x.nbits) | x.uint() *)
Definition concat_step (acc : Z * Z) (x : Z * Z) : Z * Z :=
  (fst acc + fst x, Z.lor (Z.shiftl (snd acc) (fst x)) (snd x)).
Definition concat_model (args : list (Z * Z)) : Z * Z := fold_left concat_step args (0, 0).

Definition slice (b lo hi : Z) : Z := (b / 2 ^ lo) mod 2 ^ (hi - lo).

Definition leaf_or0 (v : value) (p : path) : Z := match leaf_at v p with Some u => u | None => 0 end.
(* the argument list of the generated `concat(self.a, self.b[1], ...)` when its paths are ps *)
Definition concat_args (T : shape) (v : value) (ps : list path) : list (Z * Z) :=
  map (fun p => (match shape_at T p with Some (SBits n) => n | _ => 0 end, leaf_or0 v p)) ps.

(* layout a concat of the leaves ps implies: the first argument is the most significant *)
Fixpoint layout_down (T : shape) (ps : list path) (top : Z) : option (list rng) :=
  match ps with
  | [] => Some []
  | p :: r =>
      match shape_at T p with
      | Some (SBits n) =>
          match layout_down T r (top - n) with
          | Some l => Some ((p, top - n, top) :: l)
          | None => None
          end
      | _ => None
      end
  end.
Definition concat_total (T : shape) (ps : list path) : Z :=
  sumz (map (fun p => match shape_at T p with Some (SBits n) => n | _ => 0 end) ps).
Definition layout_of_concat (T : shape) (ps : list path) : option (list rng) :=
  layout_down T ps (concat_total T ps).

Definition ranges_opt_eqb (a : option (list rng)) (b : list rng) : bool :=
  match a with Some l => list_eqb rng_eqb l b | None => false end.
(* T-gen check for to_bits: the layout implied by the parsed concat(...) equals leaf_ranges T *)
Definition check_to_bits (T : shape) (ps : list path) : bool :=
  ranges_opt_eqb (layout_of_concat T ps) (leaf_ranges T).

(* ------------------------------------------------------------------ the from_bits text as a tree of slices *)
Inductive rtree : Type :=
| RLeaf   (lo hi : Z)
| RStruct (ts : list rtree)
| RList   (ts : list rtree).

Section RtreeInd.
  Variable P : rtree -> Prop.
  Hypothesis Hb : forall lo hi, P (RLeaf lo hi).
  Hypothesis Hs : forall ts, Forall P ts -> P (RStruct ts).
  Hypothesis Hl : forall ts, Forall P ts -> P (RList ts).
  Fixpoint rtree_ind' (t : rtree) : P t :=
    match t with
    | RLeaf lo hi => Hb lo hi
    | RStruct ts =>
        Hs ts ((fix go (l : list rtree) : Forall P l :=
                  match l with [] => Forall_nil P | f :: r => Forall_cons f (rtree_ind' f) (go r) end) ts)
    | RList ts =>
        Hl ts ((fix go (l : list rtree) : Forall P l :=
                  match l with [] => Forall_nil P | f :: r => Forall_cons f (rtree_ind' f) (go r) end) ts)
    end.
End RtreeInd.

Section TreeFields.
  Variable rec : shape -> Z -> rtree.
  Fixpoint tree_fields (fs : list shape) (lo : Z) : list rtree :=
    match fs with
    | [] => []
    | f :: fr => rec f (lo + widths fr) :: tree_fields fr lo
    end.
End TreeFields.
Section TreeElems.
  Variable rece : Z -> rtree.
  Variable we : Z.
  Fixpoint tree_elems (k : nat) (lo : Z) : list rtree :=
    match k with
    | O => []
    | S k' => rece lo :: tree_elems k' (lo + we)
    end.
End TreeElems.
Fixpoint range_tree (T : shape) (lo : Z) : rtree :=
  match T with
  | SBits n => RLeaf lo (lo + n)
  | SStruct fs => RStruct (tree_fields range_tree fs lo)
  | SList len e => RList (tree_elems (range_tree e) (width e) len lo)
  end.

Fixpoint eval_rtree (t : rtree) (b : Z) : value :=
  match t with
  | RLeaf lo hi => VBits (slice b lo hi)
  | RStruct ts => VStruct (map (fun t => eval_rtree t b) ts)
  | RList ts => VList (map (fun t => eval_rtree t b) ts)
  end.

Fixpoint rtree_eqb (a b : rtree) {struct a} : bool :=
  match a, b with
  | RLeaf l h, RLeaf l' h' => (l =? l') && (h =? h')
  | RStruct ts, RStruct us => forall2b rtree_eqb ts us
  | RList ts, RList us => forall2b rtree_eqb ts us
  | _, _ => false
  end.

(* the leaf ranges a slice tree denotes, most significant first when the tree is range_tree T *)
Section RtreeRanges.
  Variable rec : rtree -> list rng.
  Fixpoint rr_struct (ts : list rtree) (i : nat) : list rng :=
    match ts with
    | [] => []
    | t :: tr => map (pre (Fld i)) (rec t) ++ rr_struct tr (S i)
    end.
  Fixpoint rr_list (ts : list rtree) (i : nat) : list rng :=
    match ts with
    | [] => []
    | t :: tr => rr_list tr (S i) ++ map (pre (Idx i)) (rec t)
    end.
End RtreeRanges.
Fixpoint rtree_ranges (t : rtree) : list rng :=
  match t with
  | RLeaf lo hi => [([], lo, hi)]
  | RStruct ts => rr_struct rtree_ranges ts 0
  | RList ts => rr_list rtree_ranges ts 0
  end.

(* T-gen check for from_bits: parsed slice tree = the model's, and its ranges = leaf_ranges T *)
Definition check_from_bits (T : shape) (t : rtree) : bool :=
  rtree_eqb t (range_tree T 0) && list_eqb rng_eqb (rtree_ranges t) (leaf_ranges T).

(* ------------------------------------------------------------------ slots: what the per-class copy methods enumerate *)
(* The generated __imatmul__/__ilshift__/_flip/clone/__deepcopy__ of a struct class visit, per field in
   declaration order, every element of a (multi-dimensional) list field in row-major order, and stop at
   nested structs and Bits (whose own method is then called). *)
Fixpoint idx_paths (f : shape) : list path :=
  match f with
  | SList len e => flat_map (fun i => map (cons (Idx i)) (idx_paths e)) (seq 0 len)
  | _ => [[]]
  end.
Fixpoint slots_fields (fs : list shape) (i : nat) : list path :=
  match fs with
  | [] => []
  | f :: fr => map (cons (Fld i)) (idx_paths f) ++ slots_fields fr (S i)
  end.
Definition slots (T : shape) : list path :=
  match T with SStruct fs => slots_fields fs 0 | _ => [] end.
Definition check_slots (T : shape) (ps : list path) : bool := list_eqb path_eqb ps (slots T).

(* clone / __deepcopy__ text: per field either P.clone() or a nested list literal of such *)
Inductive ctree : Type := CLeaf (p : path) | CList (ts : list ctree).
Fixpoint ctree_eqb (a b : ctree) {struct a} : bool :=
  match a, b with
  | CLeaf p, CLeaf q => path_eqb p q
  | CList ts, CList us => forall2b ctree_eqb ts us
  | _, _ => false
  end.
Fixpoint clone_expect (f : shape) (rprefix : path) : ctree :=   (* rprefix: reversed path so far *)
  match f with
  | SList len e => CList (map (fun i => clone_expect e (Idx i :: rprefix)) (seq 0 len))
  | _ => CLeaf (rev rprefix)
  end.
Fixpoint clone_fields (fs : list shape) (i : nat) : list ctree :=
  match fs with
  | [] => []
  | f :: fr => clone_expect f [Fld i] :: clone_fields fr (S i)
  end.
Definition check_clone (T : shape) (cs : list ctree) : bool :=
  match T with SStruct fs => forall2b ctree_eqb cs (clone_fields fs 0) | _ => false end.

(* __eq__ / __hash__ text: the tuple of ALL fields, in declaration order *)
Definition field_paths (T : shape) : list path :=
  match T with SStruct fs => map (fun i => [Fld i]) (seq 0 (length fs)) | _ => [] end.
Definition check_fields (T : shape) (ps : list path) : bool := list_eqb path_eqb ps (field_paths T).

(* one generated method text of a struct class, as parsed by translators/bitstruct_src2coq.py *)
Inductive gen_text : Type :=
| GToBits   (nbits : Z) (ps : list path)     (* cls.nbits and the arguments of concat(...) *)
| GFromBits (t : rtree)                      (* the constructor expression of from_bits *)
| GClone    (cs : list ctree)                (* clone / __deepcopy__ *)
| GSlots    (ps : list path)                 (* __imatmul__ / __ilshift__ / _flip : the slots visited, in order *)
| GFields   (ps : list path).                (* __eq__ / __hash__ : the fields compared / hashed *)
Definition check_text (T : shape) (g : gen_text) : bool :=
  match g with
  | GToBits nb ps => (nb =? width T) && check_to_bits T ps
  | GFromBits t => check_from_bits T t
  | GClone cs => check_clone T cs
  | GSlots ps => check_slots T ps
  | GFields ps => check_fields T ps
  end.

(* ------------------------------------------------------------------ hashing *)
(* any hash built from a leaf hash and a tuple combiner, field by field, as the generated __hash__ does *)
Section Hash.
  Variable hleaf : Z -> Z -> Z.          (* Bits.__hash__ : hash((nbits, uint)) *)
  Variable htuple : list Z -> Z.         (* hash of a tuple of hashes *)
  Section HF.
    Variable rec : shape -> value -> Z.
    Fixpoint hash_fields (fs : list shape) (vs : list value) {struct fs} : list Z :=
      match fs, vs with
      | f :: fr, x :: xr => rec f x :: hash_fields fr xr
      | _, _ => []
      end.
  End HF.
  Fixpoint vhash (T : shape) (v : value) {struct T} : Z :=
    match T, v with
    | SBits n, VBits u => hleaf n u
    | SStruct fs, VStruct vs => htuple (hash_fields vhash fs vs)
    | SList len e, VList vs => htuple (map (vhash e) vs)
    | _, _ => 0
    end.
End Hash.

(* ------------------------------------------------------------------ cell-store model of objects *)
(* A Bits object is a cell (current value, next value).  Struct instances and lists are interior objects
   with their own identity.  Locations are natural numbers; `next` is the allocation pointer. *)
Record cell : Type := mkcell { cur : Z; nxt : Z }.
Record store : Type := mkstore { cells : nat -> cell; next : nat }.

Inductive obj : Type :=
| OLeaf   (l : nat)
| OStruct (id : nat) (cs : list obj)
| OList   (id : nat) (cs : list obj).

Section ObjInd.
  Variable P : obj -> Prop.
  Hypothesis Hb : forall l, P (OLeaf l).
  Hypothesis Hs : forall id cs, Forall P cs -> P (OStruct id cs).
  Hypothesis Hl : forall id cs, Forall P cs -> P (OList id cs).
  Fixpoint obj_ind' (o : obj) : P o :=
    match o with
    | OLeaf l => Hb l
    | OStruct id cs =>
        Hs id cs ((fix go (l : list obj) : Forall P l :=
                  match l with [] => Forall_nil P | f :: r => Forall_cons f (obj_ind' f) (go r) end) cs)
    | OList id cs =>
        Hl id cs ((fix go (l : list obj) : Forall P l :=
                  match l with [] => Forall_nil P | f :: r => Forall_cons f (obj_ind' f) (go r) end) cs)
    end.
End ObjInd.

Definition empty_store : store := mkstore (fun _ => mkcell 0 0) 0.
Definition upd (f : nat -> cell) (l : nat) (c : cell) : nat -> cell :=
  fun k => if Nat.eqb k l then c else f k.
Definition set_cur (st : store) (l : nat) (u : Z) : store :=
  mkstore (upd (cells st) l (mkcell u (nxt (cells st l)))) (next st).
Definition set_nxt (st : store) (l : nat) (u : Z) : store :=
  mkstore (upd (cells st) l (mkcell (cur (cells st l)) u)) (next st).
Definition curv (st : store) (l : nat) : Z := cur (cells st l).
Definition nxtv (st : store) (l : nat) : Z := nxt (cells st l).

(* leaf cells in declaration order; all identities (leaves and interior objects) *)
Fixpoint leaves (o : obj) : list nat :=
  match o with
  | OLeaf l => [l]
  | OStruct _ cs => concat (map leaves cs)
  | OList _ cs => concat (map leaves cs)
  end.
Fixpoint locs (o : obj) : list nat :=
  match o with
  | OLeaf l => [l]
  | OStruct id cs => id :: concat (map locs cs)
  | OList id cs => id :: concat (map locs cs)
  end.

Fixpoint read (st : store) (o : obj) : value :=
  match o with
  | OLeaf l => VBits (curv st l)
  | OStruct _ cs => VStruct (map (read st) cs)
  | OList _ cs => VList (map (read st) cs)
  end.

(* same skeleton *)
Fixpoint osame (a b : obj) {struct a} : bool :=
  match a, b with
  | OLeaf _, OLeaf _ => true
  | OStruct _ cs, OStruct _ ds => forall2b osame cs ds
  | OList _ cs, OList _ ds => forall2b osame cs ds
  | _, _ => false
  end.

(* construction of a fresh object holding value v (the generated __init__ / from_bits / clone all build
   NEW Bits objects, NEW lists and NEW struct instances) *)
Section AllocList.
  Variable rec : value -> store -> obj * store.
  Fixpoint alloc_list (vs : list value) (st : store) : list obj * store :=
    match vs with
    | [] => ([], st)
    | v :: vr =>
        let '(o, st1) := rec v st in
        let '(os, st2) := alloc_list vr st1 in
        (o :: os, st2)
    end.
End AllocList.
Definition bump (st : store) : store := mkstore (cells st) (S (next st)).
Fixpoint alloc (v : value) (st : store) : obj * store :=
  match v with
  | VBits u => (OLeaf (next st), mkstore (upd (cells st) (next st) (mkcell u u)) (S (next st)))
  | VStruct vs => let '(os, st1) := alloc_list alloc vs st in (OStruct (next st1) os, bump st1)
  | VList vs => let '(os, st1) := alloc_list alloc vs st in (OList (next st1) os, bump st1)
  end.

(* clone() / __deepcopy__ : build a new object from the current field values *)
Definition clone (o : obj) (st : store) : obj * store := alloc (read st o) st.

(* dst @= src : leaf by leaf, in declaration order, each leaf's current value is overwritten at once *)
Definition imatmul (dst src : obj) (st : store) : store :=
  fold_left (fun s p => set_cur s (fst p) (curv s (snd p))) (combine (leaves dst) (leaves src)) st.
(* dst <<= src : leaf by leaf, the source's current value goes to the destination's NEXT value *)
Definition ilshift (dst src : obj) (st : store) : store :=
  fold_left (fun s p => set_nxt s (fst p) (curv s (snd p))) (combine (leaves dst) (leaves src)) st.
(* _flip : every leaf takes its next value *)
Definition flip (o : obj) (st : store) : store :=
  fold_left (fun s l => set_cur s l (nxtv s l)) (leaves o) st.

(* in-place write to one leaf of an object (used to observe aliasing) *)
Fixpoint leaf_loc (o : obj) (p : path) {struct p} : option nat :=
  match p, o with
  | [], OLeaf l => Some l
  | Fld i :: q, OStruct _ cs => match nth_error cs i with Some c => leaf_loc c q | None => None end
  | Idx i :: q, OList _ cs => match nth_error cs i with Some c => leaf_loc c q | None => None end
  | _, _ => None
  end.
Definition poke (o : obj) (p : path) (u : Z) (st : store) : store :=
  match leaf_loc o p with Some l => set_cur st l u | None => st end.

Definition disjoint (a b : list nat) : Prop := forall x, In x a -> In x b -> False.

(* ------------------------------------------------------------------ scenarios run by the correspondence *)
(* two objects a (value va) and b (value vb) of the same type; op; then an in-place write of u to leaf p of
   `who` (false: the source/original, true: the copy/destination); result: the values read from (first, second) *)
Inductive sc_op := ScClone | ScImatmul | ScIlshiftNoFlip | ScIlshiftFlip | ScIlshiftPokeFlip | ScPoke.
Definition run_scenario (op : sc_op) (va vb : value) (who : bool) (p : path) (u : Z) : value * value :=
  let '(a, st1) := alloc va empty_store in
  match op with
  | ScPoke =>
      (* just an in-place write to one leaf of a freshly built object: every other leaf keeps its value *)
      let st2 := poke a p u st1 in (read st2 a, read st2 a)
  | ScClone =>
      let '(c, st2) := clone a st1 in
      let st3 := poke (if who then c else a) p u st2 in
      (read st3 a, read st3 c)
  | ScImatmul =>
      let '(b, st2) := alloc vb st1 in
      let st3 := imatmul a b st2 in
      let st4 := poke (if who then a else b) p u st3 in
      (read st4 b, read st4 a)
  | ScIlshiftNoFlip =>
      let '(b, st2) := alloc vb st1 in
      let st3 := ilshift a b st2 in
      (read st3 b, read st3 a)
  | ScIlshiftFlip =>
      let '(b, st2) := alloc vb st1 in
      let st3 := flip a (ilshift a b st2) in
      let st4 := poke (if who then a else b) p u st3 in
      (read st4 b, read st4 a)
  | ScIlshiftPokeFlip =>
      (* the source is modified between <<= and _flip: the destination still receives the value at <<= *)
      let '(b, st2) := alloc vb st1 in
      let st3 := poke b p u (ilshift a b st2) in
      let st4 := flip a st3 in
      (read st4 b, read st4 a)
  end.

(* ------------------------------------------------------------------ operation sequences on a pool of live objects *)
(* The correspondence interleaves operations on a few LIVE objects — instances of the struct type under test, Bits objects of the
   same width, instances of other struct types of the same width — and, after (almost) every step, observes every object: its field
   values, to_bits, and for objects of one type pairwise == and equality of hash().  Any (sub-)object of any live object can be the
   right-hand side of @= / <<=, and can itself be written before the target is flipped or observed.  The model runs the same sequence
   on the cell store with VALUE semantics: an assignment transfers the value the source has at that moment (<<= : into the NEXT
   values), and never links target and source. *)
Fixpoint shape_eqb (a b : shape) {struct a} : bool :=
  match a, b with
  | SBits n, SBits m => n =? m
  | SStruct fs, SStruct gs => forall2b shape_eqb fs gs
  | SList k e, SList k' e' => Nat.eqb k k' && shape_eqb e e'
  | _, _ => false
  end.
Fixpoint sub_obj (o : obj) (p : path) {struct p} : option obj :=
  match p with
  | [] => Some o
  | Fld i :: q => match o with OStruct _ cs => match nth_error cs i with Some c => sub_obj c q | None => None end | _ => None end
  | Idx i :: q => match o with OList _ cs => match nth_error cs i with Some c => sub_obj c q | None => None end | _ => None end
  end.
Definition sub_shape (T : shape) (p : path) : shape := match shape_at T p with Some sh => sh | None => SBits 0 end.
Fixpoint vflat (v : value) : list Z :=
  match v with
  | VBits u => [u]
  | VStruct vs => concat (map vflat vs)
  | VList vs => concat (map vflat vs)
  end.
(* leaf-wise write of literal values into the current (nb = false) or the next (nb = true) values *)
Definition write_leaves (nb : bool) (ls : list nat) (us : list Z) (st : store) : store :=
  fold_left (fun s lu => if nb then set_nxt s (fst lu) (snd lu) else set_cur s (fst lu) (snd lu)) (combine ls us) st.

Record slot : Type := mkslot { s_tag : nat; s_shape : shape; s_obj : obj }.
Inductive seq_op : Type :=
| QNew    (tag : nat) (T : shape) (v : value)            (* a new live object of shape T holding v (any constructor; a BitsN is SBits N) *)
| QClone  (i : nat)                                       (* clone / deepcopy of object i, appended *)
| QWrite  (nb : bool) (i : nat) (p : path) (v : value)    (* x_i.p @= <fresh value v>   /  x_i.p <<= <fresh value v> *)
| QAssign (nb : bool) (i : nat) (p : path) (j : nat) (q : path)   (* x_i.p @= x_j.q  /  x_i.p <<= x_j.q : any two nodes of equal width *)
| QFlip   (i : nat) (p : path)                            (* x_i.p._flip() *)
| QNop.                                                   (* observation only *)

Definition sstate := (list slot * store)%type.
Definition nth_slot (sl : list slot) (i : nat) : slot := nth i sl (mkslot 0 (SBits 0) (OLeaf 0)).
Definition seq_step (s : sstate) (op : seq_op) : sstate :=
  let '(sl, st) := s in
  match op with
  | QNew tag T v => let '(o, st') := alloc v st in (sl ++ [mkslot tag T o], st')
  | QClone i => let x := nth_slot sl i in let '(o, st') := clone (s_obj x) st in (sl ++ [mkslot (s_tag x) (s_shape x) o], st')
  | QWrite nb i p v =>
      match sub_obj (s_obj (nth_slot sl i)) p with
      | Some t => (sl, write_leaves nb (leaves t) (vflat v) st)
      | None => s
      end
  | QAssign nb i p j q =>
      let xi := nth_slot sl i in let xj := nth_slot sl j in
      match sub_obj (s_obj xi) p, sub_obj (s_obj xj) q with
      | Some t, Some so =>
          let St := sub_shape (s_shape xi) p in let Ss := sub_shape (s_shape xj) q in
          if shape_eqb St Ss then (sl, if nb then ilshift t so st else imatmul t so st)        (* same type: field by field *)
          else (sl, write_leaves nb (leaves t) (vflat (unpack St (pack Ss (read st so)))) st)   (* other type: through the packed value *)
      | _, _ => s
      end
  | QFlip i p =>
      match sub_obj (s_obj (nth_slot sl i)) p with
      | Some t => (sl, flip t st)
      | None => s
      end
  | QNop => s
  end.
Definition seq_values (s : sstate) : list (nat * shape * value) :=
  map (fun x => (s_tag x, s_shape x, read (snd s) (s_obj x))) (fst s).

(* observed after a step: per object (field values, to_bits); then for all pairs i<j of objects with the SAME tag: x_i == x_j, hash(x_i) == hash(x_j) *)
Definition step_obs := option (list (value * Z) * list bool * list bool).
Fixpoint all_pairs {A} (l : list A) : list (A * A) :=
  match l with
  | [] => []
  | x :: r => map (pair x) r ++ all_pairs r
  end.
Fixpoint check_pairs (ps : list ((nat * shape * value) * (nat * shape * value))) (eqs hs : list bool) : bool :=
  match ps with
  | [] => match eqs, hs with [], [] => true | _, _ => false end
  | ab :: ps' =>
      let a := fst ab in let b := snd ab in
      if Nat.eqb (fst (fst a)) (fst (fst b)) then
        match eqs, hs with
        | e :: eqs', h :: hs' => Bool.eqb e (veqb (snd a) (snd b)) && implb (veqb (snd a) (snd b)) h && check_pairs ps' eqs' hs'
        | _, _ => false
        end
      else check_pairs ps' eqs hs
  end.
Definition check_obs (ms : list (nat * shape * value)) (o : step_obs) : bool :=
  match o with
  | None => true
  | Some (vs, eqs, hs) =>
      forall2b (fun m vz => typed (snd (fst m)) (snd m) && veqb (snd m) (fst vz) && (pack (snd (fst m)) (snd m) =? snd vz)) ms vs
      && check_pairs (all_pairs ms) eqs hs
  end.
(* index of the first step whose observation contradicts the model / the invariants *)
Fixpoint seq_run (s : sstate) (ops : list seq_op) (obs : list step_obs) (k : nat) : option nat :=
  match ops, obs with
  | op :: ops', o :: obs' =>
      let s' := seq_step s op in
      if check_obs (seq_values s') o then seq_run s' ops' obs' (S k) else Some k
  | [], [] => None
  | _, _ => Some k
  end.
Definition seq_ok (ops : list seq_op) (obs : list step_obs) : bool :=
  match seq_run ([], empty_store) ops obs 0 with None => true | Some _ => false end.
Definition seq_model (ops : list seq_op) : list value := map snd (seq_values (fold_left seq_step ops ([], empty_store))).
