(* Struct/LayoutProofs.v — proofs about Struct/Layout.v.  No axioms, nothing admitted. *)
From PV Require Import Base.Prelude Bits.BitsSpec Bits.BitsLemmas Struct.Shape Struct.Layout.
(* -- *)
Open Scope Z_scope.

(* ------------------------------------------------------------------ small facts *)
Lemma sumz_cons x a : sumz (x :: a) = x + sumz a.
Proof. reflexivity. Qed.

Lemma sumz_app a b : sumz (a ++ b) = sumz a + sumz b.
Proof. induction a as [|x a IH]; [reflexivity|]. rewrite <- app_comm_cons, !sumz_cons, IH. lia. Qed.

Lemma widths_cons f fr : widths (f :: fr) = width f + widths fr.
Proof. reflexivity. Qed.

Lemma widths_nil : widths [] = 0.
Proof. reflexivity. Qed.

Lemma width_struct fs : width (SStruct fs) = widths fs.
Proof. reflexivity. Qed.

Lemma width_list len e : width (SList len e) = Z.of_nat len * width e.
Proof. reflexivity. Qed.

Lemma forall2b_length {A B} (f : A -> B -> bool) l m : forall2b f l m = true -> length l = length m.
Proof.
  revert m; induction l as [|a l IH]; intros [|b m] H; cbn in H; try discriminate; [reflexivity|].
  apply andb_prop in H as [_ H]. cbn. f_equal. apply IH, H.
Qed.

Lemma wf_pos T : wf T = true -> 0 < width T.
Proof.
  induction T as [n|fs IH|len e IH] using shape_ind'; cbn [wf width]; intros H.
  - lia.
  - apply andb_prop in H as [Hne Hall]. fold (widths fs).
    assert (Hge : forall gs, Forall (fun T => wf T = true -> 0 < width T) gs -> forallb wf gs = true -> 0 <= widths gs).
    { induction gs as [|g gr IHg]; intros HF Hw; [rewrite widths_nil; lia|].
      cbn [forallb] in Hw. apply andb_prop in Hw as [Hg Hr]. inversion HF as [|? ? HF1 HF2]; subst.
      rewrite widths_cons. specialize (IHg HF2 Hr). specialize (HF1 Hg). lia. }
    destruct fs as [|f fr]; [discriminate|]. clear Hne.
    cbn [forallb] in Hall. apply andb_prop in Hall as [Hf Hr].
    inversion IH as [|? ? IHf IHr]; subst. rewrite widths_cons.
    specialize (Hge fr IHr Hr). specialize (IHf Hf). lia.
  - apply andb_prop in H as [Hne He]. specialize (IH He).
    destruct len; [discriminate|]. nia.
Qed.

Lemma wf_nonneg T : wf T = true -> 0 <= width T.
Proof. intros H; pose proof (wf_pos T H); lia. Qed.

Lemma wfs_nonneg fs : forallb wf fs = true -> 0 <= widths fs.
Proof.
  induction fs as [|f fr IH]; cbn [forallb]; intros H; [rewrite widths_nil; lia|].
  apply andb_prop in H as [Hf Hr]. rewrite widths_cons. pose proof (wf_nonneg f Hf). specialize (IH Hr). lia.
Qed.

Lemma wf_struct_fields fs : wf (SStruct fs) = true -> forallb wf fs = true.
Proof. cbn [wf]. intros H. apply andb_prop in H as [_ H]. exact H. Qed.

Lemma wf_list_elt len e : wf (SList len e) = true -> wf e = true.
Proof. cbn [wf]. intros H. apply andb_prop in H as [_ H]. exact H. Qed.

(* ------------------------------------------------------------------ width = sum of the leaf widths *)
Lemma sumz_concat_repeat l k : sumz (concat (repeat l k)) = Z.of_nat k * sumz l.
Proof.
  induction k as [|k IH]; [reflexivity|]. cbn [repeat concat]. rewrite sumz_app, IH. lia.
Qed.

Theorem width_sum T : width T = sumz (leaf_widths T).
Proof.
  induction T as [n|fs IH|len e IH] using shape_ind'; cbn [width leaf_widths].
  - cbn. lia.
  - induction IH as [|f fr Hf _ IHr]; [reflexivity|].
    cbn [map concat]. rewrite sumz_app, sumz_cons, Hf, IHr. reflexivity.
  - rewrite sumz_concat_repeat, IH. reflexivity.
Qed.

(* ------------------------------------------------------------------ arithmetic of joining two bit fields *)
Lemma join_range a r w k : 0 <= w -> 0 <= k -> 0 <= a < 2 ^ w -> 0 <= r < 2 ^ k ->
  0 <= a * 2 ^ k + r < 2 ^ (w + k).
Proof.
  intros Hw Hk Ha Hr. rewrite Z.pow_add_r by lia.
  pose proof (pow2_gt0 k Hk). pose proof (pow2_gt0 w Hw). nia.
Qed.

Lemma join_div a r k : 0 <= k -> 0 <= r < 2 ^ k -> (a * 2 ^ k + r) / 2 ^ k = a.
Proof.
  intros Hk Hr. pose proof (pow2_gt0 k Hk).
  rewrite Z.add_comm, Z.div_add by lia. rewrite Z.div_small by lia. lia.
Qed.

Lemma join_mod a r k : 0 <= k -> 0 <= r < 2 ^ k -> (a * 2 ^ k + r) mod 2 ^ k = r.
Proof.
  intros Hk Hr. pose proof (pow2_gt0 k Hk).
  rewrite Z.add_comm, Z.mod_add by lia. apply Z.mod_small; lia.
Qed.

Lemma split_mod b w k : 0 <= w -> 0 <= k ->
  ((b / 2 ^ k) mod 2 ^ w) * 2 ^ k + b mod 2 ^ k = b mod 2 ^ (w + k).
Proof.
  intros Hw Hk. pose proof (pow2_gt0 k Hk). pose proof (pow2_gt0 w Hw).
  rewrite (Z.add_comm w k), Z.pow_add_r by lia. rewrite Z.rem_mul_r by lia. lia.
Qed.

Lemma div_div_pow2 b i j : 0 <= i -> 0 <= j -> b / 2 ^ i / 2 ^ j = b / 2 ^ (i + j).
Proof.
  intros Hi Hj. rewrite Z.div_div by (try apply pow2_gt0; try (pose proof (pow2_gt0 i Hi); lia); lia).
  rewrite <- Z.pow_add_r by lia. reflexivity.
Qed.

Lemma pack_struct_cons f fr x xr :
  pack (SStruct (f :: fr)) (VStruct (x :: xr)) = pack f x * 2 ^ (width (SStruct fr)) + pack (SStruct fr) (VStruct xr).
Proof. reflexivity. Qed.
Lemma pack_list_cons k e x xr :
  pack (SList (S k) e) (VList (x :: xr)) = pack e x + 2 ^ (width e) * pack (SList k e) (VList xr).
Proof. reflexivity. Qed.

(* ------------------------------------------------------------------ pack stays below 2^width *)
Lemma typed_struct_inv fs v : typed (SStruct fs) v = true -> exists vs, v = VStruct vs /\ forall2b typed fs vs = true.
Proof. destruct v; cbn [typed]; try discriminate. intros H; eexists; split; [reflexivity|exact H]. Qed.

Lemma typed_list_inv len e v : typed (SList len e) v = true ->
  exists vs, v = VList vs /\ length vs = len /\ forallb (typed e) vs = true.
Proof.
  destruct v; cbn [typed]; try discriminate. intros H. apply andb_prop in H as [Hl Ha].
  eexists; split; [reflexivity|]. split; [apply Nat.eqb_eq, Hl|exact Ha].
Qed.

Lemma typed_bits_inv n v : typed (SBits n) v = true -> exists u, v = VBits u /\ 0 <= u < 2 ^ n.
Proof. destruct v; cbn [typed]; try discriminate. intros H. eexists; split; [reflexivity|lia]. Qed.

Theorem pack_range T : forall v, wf T = true -> typed T v = true -> 0 <= pack T v < 2 ^ (width T).
Proof.
  induction T as [n|fs IH|len e IH] using shape_ind'; intros v Hwf Hty.
  - apply typed_bits_inv in Hty as (u & -> & Hu). exact Hu.
  - apply typed_struct_inv in Hty as (vs & -> & Hty). apply wf_struct_fields in Hwf.
    cbn [pack]. rewrite width_struct.
    revert vs Hty. induction IH as [|f fr Hf _ IHr]; intros vs Hty.
    + destruct vs; cbn in *; [lia|discriminate].
    + destruct vs as [|x xr]; [discriminate|]. cbn [forall2b] in Hty. apply andb_prop in Hty as [Hx Hxr].
      cbn [forallb] in Hwf. apply andb_prop in Hwf as [Hwf1 Hwfr].
      cbn [pack_fields]. rewrite widths_cons.
      apply join_range; [apply wf_nonneg, Hwf1|apply wfs_nonneg, Hwfr|apply Hf; assumption|apply IHr; assumption].
  - apply typed_list_inv in Hty as (vs & -> & Hlen & Hall). apply wf_list_elt in Hwf.
    cbn [pack]. rewrite width_list. subst len.
    pose proof (wf_nonneg e Hwf) as Hwe.
    induction vs as [|x xr IHx]; [cbn; lia|].
    cbn [forallb] in Hall. apply andb_prop in Hall as [Hx Hxr].
    cbn [pack_elems]. specialize (IHx Hxr). specialize (IH x Hwf Hx).
    replace (Z.of_nat (length (x :: xr)) * width e) with (Z.of_nat (length xr) * width e + width e) by (cbn [length]; lia).
    replace (pack e x + 2 ^ width e * pack_elems (pack e) (width e) xr)
      with (pack_elems (pack e) (width e) xr * 2 ^ width e + pack e x) by lia.
    apply join_range; try lia; nia.
Qed.

(* ------------------------------------------------------------------ from_bits (to_bits v) = v *)
Lemma unpack_pack_gen T : forall v z, wf T = true -> typed T v = true ->
  unpack T (pack T v + z * 2 ^ (width T)) = v.
Proof.
  induction T as [n|fs IH|len e IH] using shape_ind'; intros v z Hwf Hty.
  - apply typed_bits_inv in Hty as (u & -> & Hu). cbn [pack unpack width]. f_equal.
    cbn [wf] in Hwf. rewrite Z.mod_add by (pose proof (pow2_gt0 n); lia). apply Z.mod_small; lia.
  - apply typed_struct_inv in Hty as (vs & -> & Hty). apply wf_struct_fields in Hwf.
    cbn [pack unpack]. rewrite width_struct. f_equal.
    revert vs z Hty. induction IH as [|f fr Hf _ IHr]; intros vs z Hty.
    + destruct vs; [reflexivity|discriminate].
    + destruct vs as [|x xr]; [discriminate|]. cbn [forall2b] in Hty. apply andb_prop in Hty as [Hx Hxr].
      cbn [forallb] in Hwf. apply andb_prop in Hwf as [Hwf1 Hwfr].
      pose proof (wf_nonneg f Hwf1) as Hw1. pose proof (wfs_nonneg fr Hwfr) as Hwr.
      cbn [pack_fields unpack_fields]. rewrite widths_cons.
      assert (Hr : 0 <= pack_fields pack fr xr < 2 ^ widths fr).
      { change (pack_fields pack fr xr) with (pack (SStruct fr) (VStruct xr)).
        rewrite <- width_struct. destruct fr as [|g gr].
        - destruct xr; [cbn; lia|discriminate].
        - apply pack_range; [cbn [wf length Nat.eqb negb andb]; exact Hwfr|exact Hxr]. }
      replace (pack f x * 2 ^ widths fr + pack_fields pack fr xr + z * 2 ^ (width f + widths fr))
        with ((pack f x + z * 2 ^ width f) * 2 ^ widths fr + pack_fields pack fr xr)
        by (rewrite Z.pow_add_r by lia; lia).
      f_equal.
      * rewrite join_div by lia. apply Hf; assumption.
      * replace ((pack f x + z * 2 ^ width f) * 2 ^ widths fr + pack_fields pack fr xr)
          with (pack_fields pack fr xr + (pack f x + z * 2 ^ width f) * 2 ^ widths fr) by lia.
        apply IHr; assumption.
  - apply typed_list_inv in Hty as (vs & -> & Hlen & Hall). apply wf_list_elt in Hwf.
    cbn [pack unpack]. rewrite width_list. subst len. f_equal.
    pose proof (wf_nonneg e Hwf) as Hwe.
    revert z. induction vs as [|x xr IHx]; intros z; [reflexivity|].
    cbn [forallb] in Hall. apply andb_prop in Hall as [Hx Hxr].
    cbn [pack_elems length unpack_elems]. specialize (IHx Hxr).
    pose proof (pack_range e x Hwf Hx) as Hpx.
    replace (pack e x + 2 ^ width e * pack_elems (pack e) (width e) xr + z * 2 ^ (Z.of_nat (S (length xr)) * width e))
      with ((pack_elems (pack e) (width e) xr + z * 2 ^ (Z.of_nat (length xr) * width e)) * 2 ^ width e + pack e x).
    2:{ replace (Z.of_nat (S (length xr)) * width e) with (Z.of_nat (length xr) * width e + width e) by lia.
        rewrite Z.pow_add_r by nia. lia. }
    f_equal.
    + replace ((pack_elems (pack e) (width e) xr + z * 2 ^ (Z.of_nat (length xr) * width e)) * 2 ^ width e + pack e x)
        with (pack e x + (pack_elems (pack e) (width e) xr + z * 2 ^ (Z.of_nat (length xr) * width e)) * 2 ^ width e) by lia.
      apply IH; assumption.
    + rewrite join_div by lia. apply IHx.
Qed.

Theorem unpack_pack T v : wf T = true -> typed T v = true -> unpack T (pack T v) = v.
Proof.
  intros Hwf Hty. pose proof (unpack_pack_gen T v 0 Hwf Hty) as H.
  rewrite Z.mul_0_l, Z.add_0_r in H. exact H.
Qed.

(* ------------------------------------------------------------------ to_bits (from_bits b) = b *)
Lemma pack_unpack_mod T : forall b, wf T = true -> pack T (unpack T b) = b mod 2 ^ (width T).
Proof.
  induction T as [n|fs IH|len e IH] using shape_ind'; intros b Hwf.
  - reflexivity.
  - apply wf_struct_fields in Hwf. cbn [pack unpack]. rewrite width_struct.
    induction IH as [|f fr Hf _ IHr].
    + cbn. rewrite Z.mod_1_r. reflexivity.
    + cbn [forallb] in Hwf. apply andb_prop in Hwf as [Hwf1 Hwfr].
      cbn [pack_fields unpack_fields]. rewrite widths_cons, Hf, IHr by assumption.
      apply split_mod; [apply wf_nonneg, Hwf1|apply wfs_nonneg, Hwfr].
  - apply wf_list_elt in Hwf. cbn [pack unpack]. rewrite width_list.
    pose proof (wf_nonneg e Hwf) as Hwe.
    revert b. induction len as [|k IHk]; intros b.
    + cbn. rewrite Z.mod_1_r. reflexivity.
    + cbn [unpack_elems pack_elems]. rewrite IH, IHk by assumption.
      replace (Z.of_nat (S k) * width e) with (Z.of_nat k * width e + width e) by lia.
      rewrite <- split_mod by nia. lia.
Qed.

Theorem pack_unpack T b : wf T = true -> 0 <= b < 2 ^ (width T) -> pack T (unpack T b) = b.
Proof. intros Hwf Hb. rewrite pack_unpack_mod by assumption. apply Z.mod_small, Hb. Qed.

Theorem unpack_typed T : forall b, wf T = true -> typed T (unpack T b) = true.
Proof.
  induction T as [n|fs IH|len e IH] using shape_ind'; intros b Hwf.
  - cbn [wf] in Hwf. cbn [unpack typed]. pose proof (Z.mod_pos_bound b (2 ^ n) (pow2_gt0 n ltac:(lia))). lia.
  - apply wf_struct_fields in Hwf. cbn [unpack typed].
    induction IH as [|f fr Hf _ IHr]; [reflexivity|].
    cbn [forallb] in Hwf. apply andb_prop in Hwf as [Hwf1 Hwfr].
    cbn [unpack_fields forall2b]. rewrite Hf, IHr by assumption. reflexivity.
  - apply wf_list_elt in Hwf. cbn [unpack typed].
    assert (H : forall k b, length (unpack_elems (unpack e) (width e) k b) = k
                         /\ forallb (typed e) (unpack_elems (unpack e) (width e) k b) = true).
    { induction k as [|k IHk]; intros c; [split; reflexivity|].
      cbn [unpack_elems length forallb]. destruct (IHk (c / 2 ^ width e)) as [-> ->].
      rewrite IH by assumption. split; reflexivity. }
    destruct (H len b) as [-> ->]. rewrite Nat.eqb_refl. reflexivity.
Qed.

(* ------------------------------------------------------------------ chains of ranges *)
Lemma pre_path s r : rpath (pre s r) = s :: rpath r. Proof. reflexivity. Qed.
Lemma pre_lo s r : rlo (pre s r) = rlo r. Proof. reflexivity. Qed.
Lemma pre_hi s r : rhi (pre s r) = rhi r. Proof. reflexivity. Qed.

Lemma chain_app l1 : forall top mid l2 bot, chain top l1 mid -> chain mid l2 bot -> chain top (l1 ++ l2) bot.
Proof.
  induction l1 as [|r l1 IH]; cbn [chain app]; intros top mid l2 bot H1 H2.
  - subst. exact H2.
  - destruct H1 as (Ha & Hb & Hc). repeat split; try assumption. eapply IH; eassumption.
Qed.

Lemma chain_map_pre s l : forall top bot, chain top l bot -> chain top (map (pre s) l) bot.
Proof.
  induction l as [|r l IH]; cbn [chain map]; intros top bot H; [exact H|].
  destruct H as (Ha & Hb & Hc). rewrite pre_lo, pre_hi. repeat split; try assumption. apply IH, Hc.
Qed.

Lemma chain_le l : forall top bot, chain top l bot -> bot <= top.
Proof.
  induction l as [|r l IH]; cbn [chain]; intros top bot H; [lia|].
  destruct H as (Ha & Hb & Hc). apply IH in Hc. lia.
Qed.

Lemma chain_bounds l : forall top bot r, chain top l bot -> In r l -> bot <= rlo r /\ rlo r < rhi r /\ rhi r <= top.
Proof.
  induction l as [|a l IH]; cbn [chain In]; intros top bot r H Hin; [contradiction|].
  destruct H as (Ha & Hb & Hc). destruct Hin as [->|Hin].
  - apply chain_le in Hc. lia.
  - specialize (IH _ _ _ Hc Hin). lia.
Qed.

Lemma chain_cover l : forall top bot i, chain top l bot -> bot <= i < top -> exists r, In r l /\ rlo r <= i < rhi r.
Proof.
  induction l as [|a l IH]; cbn [chain]; intros top bot i H Hi; [lia|].
  destruct H as (Ha & Hb & Hc). destruct (Z_lt_le_dec i (rlo a)) as [Hlt|Hge].
  - destruct (IH _ _ i Hc ltac:(lia)) as (r & Hin & Hr). exists r. split; [right; exact Hin|exact Hr].
  - exists a. split; [left; reflexivity|lia].
Qed.

Lemma chain_ordered l : forall top bot, chain top l bot -> ForallOrdPairs (fun r1 r2 => rhi r2 <= rlo r1) l.
Proof.
  induction l as [|a l IH]; cbn [chain]; intros top bot H; [constructor|].
  destruct H as (Ha & Hb & Hc). constructor; [|eapply IH, Hc].
  apply Forall_forall. intros r Hin. pose proof (chain_bounds _ _ _ r Hc Hin). lia.
Qed.

(* ------------------------------------------------------------------ leaf_ranges form a chain width .. 0 *)
Lemma ranges_chain T : forall lo, wf T = true -> chain (lo + width T) (ranges_at T lo) lo.
Proof.
  induction T as [n|fs IH|len e IH] using shape_ind'; intros lo Hwf.
  - cbn [wf] in Hwf. cbn. repeat split; lia.
  - apply wf_struct_fields in Hwf. cbn [ranges_at]. rewrite width_struct. generalize 0%nat.
    induction IH as [|f fr Hf _ IHr]; intros i.
    + cbn [ranges_fields chain]. rewrite widths_nil. lia.
    + cbn [forallb] in Hwf. apply andb_prop in Hwf as [Hwf1 Hwfr].
      cbn [ranges_fields]. apply chain_app with (mid := lo + widths fr); [|apply IHr, Hwfr].
      apply chain_map_pre. rewrite widths_cons.
      replace (lo + (width f + widths fr)) with (lo + widths fr + width f) by lia. apply Hf, Hwf1.
  - apply wf_list_elt in Hwf. cbn [ranges_at]. rewrite width_list.
    induction len as [|k IHk].
    + cbn. lia.
    + cbn [ranges_elems]. apply chain_app with (mid := lo + Z.of_nat k * width e); [|exact IHk].
      apply chain_map_pre.
      replace (lo + Z.of_nat (S k) * width e) with (lo + Z.of_nat k * width e + width e) by lia. apply IH, Hwf.
Qed.

Lemma ranges_fields_chain fs : forall lo i, forallb wf fs = true ->
  chain (lo + widths fs) (ranges_fields ranges_at fs lo i) lo.
Proof.
  induction fs as [|f fr IH]; intros lo i Hwf.
  - cbn [ranges_fields chain]. rewrite widths_nil. lia.
  - cbn [forallb] in Hwf. apply andb_prop in Hwf as [Hwf1 Hwfr].
    cbn [ranges_fields]. apply chain_app with (mid := lo + widths fr); [|apply IH, Hwfr].
    apply chain_map_pre. rewrite widths_cons.
    replace (lo + (width f + widths fr)) with (lo + widths fr + width f) by lia. apply ranges_chain, Hwf1.
Qed.

Lemma ranges_elems_chain e : forall k lo, wf e = true ->
  chain (lo + Z.of_nat k * width e) (ranges_elems (ranges_at e) (width e) k lo) lo.
Proof.
  induction k as [|k IHk]; intros lo Hwf.
  - cbn. lia.
  - cbn [ranges_elems]. apply chain_app with (mid := lo + Z.of_nat k * width e); [|apply IHk, Hwf].
    apply chain_map_pre.
    replace (lo + Z.of_nat (S k) * width e) with (lo + Z.of_nat k * width e + width e) by lia. apply ranges_chain, Hwf.
Qed.

Lemma in_ranges_fields_head rec fs : forall lo i r, In r (ranges_fields rec fs lo i) ->
  exists k p, rpath r = Fld k :: p /\ (i <= k)%nat.
Proof.
  induction fs as [|f fr IH]; intros lo i r Hin; [contradiction|].
  cbn [ranges_fields] in Hin. apply in_app_or in Hin as [Hin|Hin].
  - apply in_map_iff in Hin as (r' & <- & _). exists i, (rpath r'). split; [reflexivity|lia].
  - apply IH in Hin as (k & p & Hp & Hk). exists k, p. split; [exact Hp|lia].
Qed.

Lemma in_ranges_elems rece we : forall k lo r, In r (ranges_elems rece we k lo) ->
  exists j r', (j < k)%nat /\ r = pre (Idx j) r' /\ In r' (rece (lo + Z.of_nat j * we)).
Proof.
  induction k as [|k IH]; intros lo r Hin; [contradiction|].
  cbn [ranges_elems] in Hin. apply in_app_or in Hin as [Hin|Hin].
  - apply in_map_iff in Hin as (r' & <- & Hr'). exists k, r'. repeat split; [lia|exact Hr'].
  - apply IH in Hin as (j & r' & Hj & -> & Hr'). exists j, r'. repeat split; [lia|exact Hr'].
Qed.

(* the order of the layout: the earlier field / the later list element is the more significant one *)
Theorem ranges_above T : forall lo r1 r2, wf T = true ->
  In r1 (ranges_at T lo) -> In r2 (ranges_at T lo) -> above (rpath r1) (rpath r2) -> rhi r2 <= rlo r1.
Proof.
  induction T as [n|fs IH|len e IH] using shape_ind'; intros lo r1 r2 Hwf H1 H2 Hab.
  - cbn in H1, H2. destruct H1 as [<-|[]]. destruct H2 as [<-|[]]. cbn in Hab. contradiction.
  - apply wf_struct_fields in Hwf. cbn [ranges_at] in H1, H2. revert H1 H2. generalize 0%nat.
    induction IH as [|f fr Hf _ IHr]; intros i H1 H2; [contradiction|].
    cbn [forallb] in Hwf. apply andb_prop in Hwf as [Hwf1 Hwfr].
    cbn [ranges_fields] in H1, H2.
    apply in_app_or in H1 as [H1|H1]; apply in_app_or in H2 as [H2|H2].
    + apply in_map_iff in H1 as (a & <- & Ha). apply in_map_iff in H2 as (b & <- & Hb).
      rewrite !pre_path in Hab. cbn [above] in Hab. rewrite pre_hi, pre_lo.
      destruct Hab as [Hlt|[_ Hab]]; [lia|]. eapply Hf; eassumption.
    + apply in_map_iff in H1 as (a & <- & Ha). rewrite pre_lo.
      pose proof (chain_bounds _ _ _ a (ranges_chain f (lo + widths fr) Hwf1) Ha).
      pose proof (chain_bounds _ _ _ r2 (ranges_fields_chain fr lo (S i) Hwfr) H2). lia.
    + apply in_map_iff in H2 as (b & <- & Hb). rewrite pre_path in Hab.
      apply in_ranges_fields_head in H1 as (k & p & Hp & Hk). rewrite Hp in Hab. cbn [above] in Hab. lia.
    + eapply IHr; eassumption.
  - apply wf_list_elt in Hwf. cbn [ranges_at] in H1, H2. revert H1 H2.
    induction len as [|k IHk]; intros H1 H2; [contradiction|].
    cbn [ranges_elems] in H1, H2.
    apply in_app_or in H1 as [H1|H1]; apply in_app_or in H2 as [H2|H2].
    + apply in_map_iff in H1 as (a & <- & Ha). apply in_map_iff in H2 as (b & <- & Hb).
      rewrite !pre_path in Hab. cbn [above] in Hab. rewrite pre_hi, pre_lo.
      destruct Hab as [Hlt|[_ Hab]]; [lia|]. eapply IH; eassumption.
    + apply in_map_iff in H1 as (a & <- & Ha). rewrite pre_lo.
      pose proof (chain_bounds _ _ _ a (ranges_chain e (lo + Z.of_nat k * width e) Hwf) Ha).
      pose proof (chain_bounds _ _ _ r2 (ranges_elems_chain e k lo Hwf) H2). lia.
    + apply in_map_iff in H2 as (b & <- & Hb). rewrite pre_path in Hab.
      apply in_ranges_elems in H1 as (j & r' & Hj & -> & _). rewrite pre_path in Hab. cbn [above] in Hab. lia.
    + apply IHk; assumption.
Qed.

(* ------------------------------------------------------------------ every leaf range is a Bits leaf of that width,
   and from_bits reads exactly that slice into it *)
Lemma nth_unpack_elems rece we : 0 <= we -> forall k j B, (j < k)%nat ->
  nth_error (unpack_elems rece we k B) j = Some (rece (B / 2 ^ (Z.of_nat j * we))).
Proof.
  intros Hwe. induction k as [|k IH]; intros j B Hj; [lia|].
  cbn [unpack_elems]. destruct j as [|j]; cbn [nth_error].
  - cbn. rewrite Z.div_1_r. reflexivity.
  - rewrite IH by lia. rewrite div_div_pow2 by nia. do 4 f_equal. lia.
Qed.

Lemma ranges_leaf T : forall off r b, wf T = true -> 0 <= off -> In r (ranges_at T off) ->
  shape_at T (rpath r) = Some (SBits (rhi r - rlo r)) /\
  leaf_at (unpack T (b / 2 ^ off)) (rpath r) = Some (slice b (rlo r) (rhi r)).
Proof.
  induction T as [n|fs IH|len e IH] using shape_ind'; intros off r b Hwf Hoff Hin.
  - cbn in Hin. destruct Hin as [<-|[]]. cbn. unfold slice. split; do 3 f_equal; lia.
  - apply wf_struct_fields in Hwf. cbn [ranges_at unpack] in *.
    assert (G : forall i ps pv, length ps = i -> length pv = i ->
              In r (ranges_fields ranges_at fs off i) ->
              shape_at (SStruct (ps ++ fs)) (rpath r) = Some (SBits (rhi r - rlo r)) /\
              leaf_at (VStruct (pv ++ unpack_fields unpack fs (b / 2 ^ off))) (rpath r) = Some (slice b (rlo r) (rhi r))).
    2:{ apply (G 0%nat [] []); [reflexivity|reflexivity|exact Hin]. }
    clear Hin. induction IH as [|f fr Hf _ IHr]; intros i ps pv Hps Hpv Hin; [contradiction|].
    cbn [forallb] in Hwf. apply andb_prop in Hwf as [Hwf1 Hwfr].
    pose proof (wfs_nonneg fr Hwfr) as Hwr.
    cbn [ranges_fields] in Hin. apply in_app_or in Hin as [Hin|Hin].
    + apply in_map_iff in Hin as (a & <- & Ha). rewrite pre_path, pre_lo, pre_hi.
      destruct (Hf (off + widths fr) a b Hwf1 ltac:(lia) Ha) as [E1 E2].
      cbn [shape_at leaf_at unpack_fields].
      rewrite !nth_error_app2 by lia. rewrite Hps, Hpv, Nat.sub_diag. cbn [nth_error].
      rewrite div_div_pow2 by lia. split; assumption.
    + cbn [unpack_fields].
      specialize (IHr Hwfr (S i) (ps ++ [f]) (pv ++ [unpack f (b / 2 ^ off / 2 ^ widths fr)])).
      rewrite <- !app_assoc in IHr. cbn [app] in IHr.
      apply IHr; [rewrite app_length; cbn; lia|rewrite app_length; cbn; lia|exact Hin].
  - apply wf_list_elt in Hwf. pose proof (wf_nonneg e Hwf) as Hwe.
    cbn [ranges_at unpack] in *. apply in_ranges_elems in Hin as (j & a & Hj & -> & Ha).
    rewrite pre_path, pre_lo, pre_hi. cbn [shape_at leaf_at].
    destruct (IH (off + Z.of_nat j * width e) a b Hwf ltac:(nia) Ha) as [E1 E2].
    rewrite nth_unpack_elems by assumption. rewrite div_div_pow2 by nia.
    apply Nat.ltb_lt in Hj. rewrite Hj. split; assumption.
Qed.

(* to_bits puts every leaf exactly on its range *)
Theorem pack_places_leaf T v r : wf T = true -> typed T v = true -> In r (leaf_ranges T) ->
  shape_at T (rpath r) = Some (SBits (rhi r - rlo r)) /\
  leaf_at v (rpath r) = Some (slice (pack T v) (rlo r) (rhi r)).
Proof.
  intros Hwf Hty Hin. destruct (ranges_leaf T 0 r (pack T v) Hwf ltac:(lia) Hin) as [E1 E2].
  split; [exact E1|]. rewrite Z.pow_0_r, Z.div_1_r, unpack_pack in E2 by assumption. exact E2.
Qed.

Theorem pack_testbit T v r : wf T = true -> typed T v = true -> In r (leaf_ranges T) ->
  exists u, leaf_at v (rpath r) = Some u /\ 0 <= u < 2 ^ (rhi r - rlo r) /\
            forall i, rlo r <= i < rhi r -> Z.testbit (pack T v) i = Z.testbit u (i - rlo r).
Proof.
  intros Hwf Hty Hin. destruct (pack_places_leaf T v r Hwf Hty Hin) as [_ E].
  pose proof (chain_bounds _ _ _ r (ranges_chain T 0 Hwf) Hin) as Hb.
  exists (slice (pack T v) (rlo r) (rhi r)). split; [exact E|]. unfold slice. split.
  - apply Z.mod_pos_bound, pow2_gt0. lia.
  - intros i Hi. rewrite slice_testbit by lia.
    destruct (Z.ltb_spec (i - rlo r) (rhi r - rlo r)); [|lia]. f_equal. lia.
Qed.

(* the bits at and above the total width are zero *)
Theorem pack_high_zero T v i : wf T = true -> typed T v = true -> width T <= i -> Z.testbit (pack T v) i = false.
Proof.
  intros Hwf Hty Hi. apply testbit_high with (n := width T); [apply wf_nonneg, Hwf|apply pack_range; assumption|exact Hi].
Qed.

(* disjoint, covering, ordered *)
Theorem leaf_ranges_chain T : wf T = true -> chain (width T) (leaf_ranges T) 0.
Proof. intros Hwf. apply (ranges_chain T 0 Hwf). Qed.

Theorem leaf_ranges_bounds T r : wf T = true -> In r (leaf_ranges T) -> 0 <= rlo r /\ rlo r < rhi r /\ rhi r <= width T.
Proof. intros Hwf Hin. exact (chain_bounds _ _ _ r (leaf_ranges_chain T Hwf) Hin). Qed.

Theorem leaf_ranges_cover T i : wf T = true -> 0 <= i < width T ->
  exists r, In r (leaf_ranges T) /\ rlo r <= i < rhi r.
Proof. intros Hwf Hi. exact (chain_cover _ _ _ i (leaf_ranges_chain T Hwf) Hi). Qed.

Theorem leaf_ranges_disjoint T r1 r2 i : wf T = true -> In r1 (leaf_ranges T) -> In r2 (leaf_ranges T) ->
  rlo r1 <= i < rhi r1 -> rlo r2 <= i < rhi r2 -> r1 = r2.
Proof.
  intros Hwf H1 H2 Hi1 Hi2.
  pose proof (chain_ordered _ _ _ (leaf_ranges_chain T Hwf)) as Hord.
  destruct (ForallOrdPairs_In Hord r1 r2 H1 H2) as [E|[E|E]]; [exact E|lia|lia].
Qed.

Theorem leaf_ranges_order T r1 r2 : wf T = true -> In r1 (leaf_ranges T) -> In r2 (leaf_ranges T) ->
  above (rpath r1) (rpath r2) -> rhi r2 <= rlo r1.
Proof. intros Hwf. apply ranges_above, Hwf. Qed.

(* ------------------------------------------------------------------ the generated to_bits text: concat of the leaves *)
Lemma land_shl_low a w x : 0 <= w -> 0 <= x < 2 ^ w -> Z.land (Z.shiftl a w) x = 0.
Proof.
  intros Hw Hx. apply Z.bits_inj'. intros i Hi. rewrite Z.land_spec, Z.bits_0.
  destruct (Z.ltb_spec i w).
  - rewrite Z.shiftl_spec_low by lia. reflexivity.
  - rewrite (testbit_high x w i) by lia. apply andb_false_r.
Qed.

Lemma lor_join a w x : 0 <= w -> 0 <= x < 2 ^ w -> Z.lor (Z.shiftl a w) x = a * 2 ^ w + x.
Proof.
  intros Hw Hx. pose proof (land_shl_low a w x Hw Hx) as Hl.
  rewrite <- Z.lxor_lor by exact Hl. rewrite <- Z.add_nocarry_lxor by exact Hl.
  rewrite shiftl_mul by lia. reflexivity.
Qed.

Lemma join_slice P lo hi : 0 <= lo <= hi ->
  Z.lor (Z.shiftl (P / 2 ^ hi) (hi - lo)) (slice P lo hi) = P / 2 ^ lo.
Proof.
  intros H. unfold slice. pose proof (pow2_gt0 (hi - lo) ltac:(lia)) as Hp.
  rewrite lor_join by (try lia; apply Z.mod_pos_bound; lia).
  replace hi with (lo + (hi - lo)) at 1 by lia. rewrite <- div_div_pow2 by lia.
  pose proof (Z.div_mod (P / 2 ^ lo) (2 ^ (hi - lo)) ltac:(lia)). lia.
Qed.

Definition rarg (P : Z) (r : rng) : Z * Z := (rhi r - rlo r, slice P (rlo r) (rhi r)).

Lemma concat_chain P l : forall top bot n0, chain top l bot -> 0 <= bot ->
  fold_left concat_step (map (rarg P) l) (n0, P / 2 ^ top) = (n0 + (top - bot), P / 2 ^ bot).
Proof.
  induction l as [|r l IH]; cbn [chain map fold_left]; intros top bot n0 H Hb.
  - subst. f_equal. lia.
  - destruct H as (Ha & Hlt & Hc). pose proof (chain_le _ _ _ Hc) as Hle.
    unfold concat_step at 2. cbn [fst snd rarg]. rewrite <- Ha.
    rewrite join_slice by lia. rewrite (IH (rlo r) bot) by assumption. f_equal. lia.
Qed.

Theorem to_bits_concat T v : wf T = true -> typed T v = true ->
  concat_model (concat_args T v (map rpath (leaf_ranges T))) = (width T, pack T v).
Proof.
  intros Hwf Hty. unfold concat_model, concat_args. rewrite map_map.
  rewrite (map_ext_in _ (rarg (pack T v))).
  2:{ intros r Hin. destruct (pack_places_leaf T v r Hwf Hty Hin) as [E1 E2].
      unfold leaf_or0. rewrite E1, E2. reflexivity. }
  pose proof (pack_range T v Hwf Hty) as Hr.
  replace (0, 0) with (0, pack T v / 2 ^ width T) by (rewrite Z.div_small by lia; reflexivity).
  rewrite (concat_chain _ _ (width T) 0 0 (leaf_ranges_chain T Hwf)) by lia.
  rewrite Z.pow_0_r, Z.div_1_r. f_equal. lia.
Qed.

Lemma list_eqb_eq {A} (eqb : A -> A -> bool) : (forall a b, eqb a b = true -> a = b) ->
  forall l m, list_eqb eqb l m = true -> l = m.
Proof.
  intros He. induction l as [|a l IH]; intros [|b m] H; cbn in H; try discriminate; [reflexivity|].
  apply andb_prop in H as [H1 H2]. f_equal; [apply He, H1|apply IH, H2].
Qed.

Lemma step_eqb_eq a b : step_eqb a b = true -> a = b.
Proof. destruct a, b; cbn; try discriminate; intros H; apply Nat.eqb_eq in H; subst; reflexivity. Qed.

Lemma path_eqb_eq p q : path_eqb p q = true -> p = q.
Proof. apply list_eqb_eq, step_eqb_eq. Qed.

Lemma rng_eqb_eq a b : rng_eqb a b = true -> a = b.
Proof.
  destruct a as [[p lo] hi], b as [[q lo'] hi']. unfold rng_eqb, rpath, rlo, rhi. cbn [fst snd]. intros H.
  apply andb_prop in H as [H H3]. apply andb_prop in H as [H1 H2]. apply path_eqb_eq in H1.
  apply Z.eqb_eq in H2, H3. subst. reflexivity.
Qed.

Lemma layout_down_paths T ps : forall top l, layout_down T ps top = Some l -> map rpath l = ps.
Proof.
  induction ps as [|p ps IH]; cbn [layout_down]; intros top l H.
  - inversion H. reflexivity.
  - destruct (shape_at T p) as [[n| |]|]; try discriminate.
    destruct (layout_down T ps (top - n)) as [l'|] eqn:E; [|discriminate].
    inversion H; subst. cbn [map]. f_equal. eapply IH, E.
Qed.

Lemma check_to_bits_paths T ps : check_to_bits T ps = true -> ps = map rpath (leaf_ranges T).
Proof.
  unfold check_to_bits, ranges_opt_eqb, layout_of_concat. intros H.
  destruct (layout_down T ps (concat_total T ps)) as [l|] eqn:E; [|discriminate].
  apply (list_eqb_eq _ rng_eqb_eq) in H. subst l. symmetry. eapply layout_down_paths, E.
Qed.

(* whenever the check on the parsed text passes, concat over that text computes pack — for ALL values of the shape *)
Theorem to_bits_text_correct T ps v : wf T = true -> typed T v = true -> check_to_bits T ps = true ->
  concat_model (concat_args T v ps) = (width T, pack T v).
Proof. intros Hwf Hty Hc. rewrite (check_to_bits_paths T ps Hc). apply to_bits_concat; assumption. Qed.

(* ------------------------------------------------------------------ the generated from_bits text: a tree of slices *)
Lemma eval_range_tree T : forall lo b, wf T = true -> 0 <= lo -> eval_rtree (range_tree T lo) b = unpack T (b / 2 ^ lo).
Proof.
  induction T as [n|fs IH|len e IH] using shape_ind'; intros lo b Hwf Hlo.
  - cbn [range_tree eval_rtree unpack]. unfold slice. do 3 f_equal. lia.
  - apply wf_struct_fields in Hwf. cbn [range_tree eval_rtree unpack]. f_equal.
    induction IH as [|f fr Hf _ IHr]; [reflexivity|].
    cbn [forallb] in Hwf. apply andb_prop in Hwf as [Hwf1 Hwfr]. pose proof (wfs_nonneg fr Hwfr).
    cbn [tree_fields map unpack_fields]. rewrite Hf, IHr by (try assumption; lia).
    rewrite div_div_pow2 by lia. reflexivity.
  - apply wf_list_elt in Hwf. pose proof (wf_nonneg e Hwf) as Hwe.
    cbn [range_tree eval_rtree unpack]. f_equal.
    revert lo Hlo. induction len as [|k IHk]; intros lo Hlo; [reflexivity|].
    cbn [tree_elems map unpack_elems]. rewrite IH, IHk by (try assumption; lia).
    rewrite div_div_pow2 by lia. reflexivity.
Qed.

Lemma forall2b_eq {A} (f : A -> A -> bool) l : Forall (fun a => forall b, f a b = true -> a = b) l ->
  forall m, forall2b f l m = true -> l = m.
Proof.
  induction 1 as [|a l Ha _ IH]; intros [|b m] H; cbn in H; try discriminate; [reflexivity|].
  apply andb_prop in H as [H1 H2]. f_equal; [apply Ha, H1|apply IH, H2].
Qed.

Lemma rtree_eqb_eq a : forall b, rtree_eqb a b = true -> a = b.
Proof.
  induction a as [lo hi|ts IH|ts IH] using rtree_ind'; intros [lo' hi'|us|us] H; cbn [rtree_eqb] in H; try discriminate.
  - apply andb_prop in H as [H1 H2]. apply Z.eqb_eq in H1, H2. subst. reflexivity.
  - f_equal. eapply forall2b_eq; eassumption.
  - f_equal. eapply forall2b_eq; eassumption.
Qed.

Theorem from_bits_text_correct T t b : wf T = true -> check_from_bits T t = true -> eval_rtree t b = unpack T b.
Proof.
  intros Hwf H. unfold check_from_bits in H. apply andb_prop in H as [H _]. apply rtree_eqb_eq in H. subst t.
  rewrite eval_range_tree by (try assumption; lia). rewrite Z.pow_0_r, Z.div_1_r. reflexivity.
Qed.

Lemma rtree_ranges_range_tree T : forall lo, rtree_ranges (range_tree T lo) = ranges_at T lo.
Proof.
  induction T as [n|fs IH|len e IH] using shape_ind'; intros lo.
  - reflexivity.
  - cbn [range_tree rtree_ranges ranges_at]. generalize 0%nat.
    induction IH as [|f fr Hf _ IHr]; intros i; [reflexivity|].
    cbn [tree_fields rr_struct ranges_fields]. rewrite Hf, IHr. reflexivity.
  - cbn [range_tree rtree_ranges ranges_at].
    assert (G : forall k i,
      rr_list rtree_ranges (tree_elems (range_tree e) (width e) k (lo + Z.of_nat i * width e)) i
        ++ ranges_elems (ranges_at e) (width e) i lo
      = ranges_elems (ranges_at e) (width e) (i + k) lo).
    { induction k as [|k IHk]; intros i.
      - cbn [tree_elems rr_list app]. rewrite Nat.add_0_r. reflexivity.
      - cbn [tree_elems rr_list]. rewrite <- app_assoc.
        replace (lo + Z.of_nat i * width e + width e) with (lo + Z.of_nat (S i) * width e) by lia.
        rewrite IH. change (map (pre (Idx i)) (ranges_at e (lo + Z.of_nat i * width e)) ++ ranges_elems (ranges_at e) (width e) i lo)
          with (ranges_elems (ranges_at e) (width e) (S i) lo).
        rewrite IHk. f_equal. lia. }
    specialize (G len 0%nat). cbn [ranges_elems Nat.add] in G. rewrite app_nil_r in G.
    replace (lo + Z.of_nat 0 * width e) with lo in G by lia. exact G.
Qed.

(* ------------------------------------------------------------------ equality and hashing agree with the packed value *)
Lemma forall2b_iff {A} (f : A -> A -> bool) l : Forall (fun a => forall b, f a b = true <-> a = b) l ->
  forall m, forall2b f l m = true <-> l = m.
Proof.
  induction 1 as [|a l Ha _ IH]; intros [|b m]; cbn [forall2b]; try (split; [discriminate|discriminate]); [tauto|].
  rewrite andb_true_iff, Ha, IH. split; [intros [-> ->]; reflexivity|intros E; inversion E; auto].
Qed.

Lemma veqb_eq v : forall w, veqb v w = true <-> v = w.
Proof.
  induction v as [u|vs IH|vs IH] using value_ind'; intros [u'|ws|ws]; cbn [veqb]; try (split; discriminate).
  - rewrite Z.eqb_eq. split; [intros ->; reflexivity|intros E; inversion E; reflexivity].
  - rewrite (forall2b_iff _ _ IH). split; [intros ->; reflexivity|intros E; inversion E; reflexivity].
  - rewrite (forall2b_iff _ _ IH). split; [intros ->; reflexivity|intros E; inversion E; reflexivity].
Qed.

Theorem eq_iff_pack T v w : wf T = true -> typed T v = true -> typed T w = true ->
  (v = w <-> pack T v = pack T w).
Proof.
  intros Hwf Hv Hw. split; [intros ->; reflexivity|]. intros E.
  rewrite <- (unpack_pack T v Hwf Hv), <- (unpack_pack T w Hwf Hw), E. reflexivity.
Qed.

Theorem veqb_pack T v w : wf T = true -> typed T v = true -> typed T w = true ->
  veqb v w = (pack T v =? pack T w).
Proof.
  intros Hwf Hv Hw. apply eq_true_iff_eq. rewrite veqb_eq, Z.eqb_eq. apply eq_iff_pack; assumption.
Qed.

Theorem hash_respects_eq hleaf htuple T v w : wf T = true -> typed T v = true -> typed T w = true ->
  pack T v = pack T w -> vhash hleaf htuple T v = vhash hleaf htuple T w.
Proof. intros Hwf Hv Hw E. apply (eq_iff_pack T v w Hwf Hv Hw) in E. subst. reflexivity. Qed.

(* the field-by-field hash is a function of the packed value *)
Theorem hash_of_packed hleaf htuple T : wf T = true ->
  exists H : Z -> Z, forall v, typed T v = true -> vhash hleaf htuple T v = H (pack T v).
Proof.
  intros Hwf. exists (fun b => vhash hleaf htuple T (unpack T b)). intros v Hv.
  rewrite unpack_pack by assumption. reflexivity.
Qed.

(* ================================================================== cell-store model: clone, @=, <<=, _flip *)
Lemma curv_set_cur st l u k : curv (set_cur st l u) k = if Nat.eqb k l then u else curv st k.
Proof. unfold curv, set_cur, upd; cbn. destruct (Nat.eqb k l); reflexivity. Qed.
Lemma nxtv_set_cur st l u k : nxtv (set_cur st l u) k = nxtv st k.
Proof. unfold nxtv, set_cur, upd; cbn. destruct (Nat.eqb_spec k l); [subst|]; reflexivity. Qed.
Lemma curv_set_nxt st l u k : curv (set_nxt st l u) k = curv st k.
Proof. unfold curv, set_nxt, upd; cbn. destruct (Nat.eqb_spec k l); [subst|]; reflexivity. Qed.
Lemma nxtv_set_nxt st l u k : nxtv (set_nxt st l u) k = if Nat.eqb k l then u else nxtv st k.
Proof. unfold nxtv, set_nxt, upd; cbn. destruct (Nat.eqb k l); reflexivity. Qed.

Lemma nodup_app_iff {A} (a b : list A) :
  NoDup (a ++ b) <-> NoDup a /\ NoDup b /\ (forall x, In x a -> In x b -> False).
Proof.
  induction a as [|x a IH]; cbn [app].
  - split; [intros H; repeat split; [constructor|exact H|intros ? []]|intros (_ & H & _); exact H].
  - split.
    + intros H. inversion H as [|? ? Hx Hr]; subst. apply IH in Hr as (Ha & Hb & Hd).
      split; [constructor; [intros Hin; apply Hx, in_or_app; left; exact Hin|exact Ha]|].
      split; [exact Hb|]. intros y [->|Hy] Hyb; [apply Hx, in_or_app; right; exact Hyb|eapply Hd; eassumption].
    + intros (Ha & Hb & Hd). inversion Ha as [|? ? Hx Hr]; subst. constructor.
      * intros Hin. apply in_app_or in Hin as [Hin|Hin]; [exact (Hx Hin)|exact (Hd x (or_introl eq_refl) Hin)].
      * apply IH. split; [exact Hr|]. split; [exact Hb|]. intros y Hy. apply Hd. right; exact Hy.
Qed.

Lemma app_inv_length {A} (a a' b b' : list A) : length a = length a' -> a ++ b = a' ++ b' -> a = a' /\ b = b'.
Proof.
  revert a'. induction a as [|x a IH]; intros [|y a'] Hl E; cbn in *; try discriminate; [split; [reflexivity|exact E]|].
  inversion E; subst. destruct (IH a' ltac:(lia) ltac:(assumption)) as [-> ->]. split; reflexivity.
Qed.

Lemma in_concat_map {A B} (f : A -> list B) (l : list A) x : In x (concat (map f l)) <-> exists a, In a l /\ In x (f a).
Proof.
  rewrite in_concat. split.
  - intros (y & Hy & Hx). apply in_map_iff in Hy as (a & <- & Ha). exists a. split; assumption.
  - intros (a & Ha & Hx). exists (f a). split; [apply in_map, Ha|exact Hx].
Qed.

Lemma read_frame st st' o : (forall l, In l (leaves o) -> curv st' l = curv st l) -> read st' o = read st o.
Proof.
  induction o as [l|id cs IH|id cs IH] using obj_ind'; cbn [read leaves]; intros H.
  - f_equal. apply H. left; reflexivity.
  - f_equal. apply map_ext_in. intros c Hc. rewrite Forall_forall in IH. apply (IH c Hc).
    intros l Hl. apply H. apply in_concat_map. exists c. split; assumption.
  - f_equal. apply map_ext_in. intros c Hc. rewrite Forall_forall in IH. apply (IH c Hc).
    intros l Hl. apply H. apply in_concat_map. exists c. split; assumption.
Qed.

Lemma leaves_incl_locs o : forall k, In k (leaves o) -> In k (locs o).
Proof.
  induction o as [l|id cs IH|id cs IH] using obj_ind'; cbn [leaves locs]; intros k Hk; [exact Hk| |];
    right; apply in_concat_map in Hk as (c & Hc & Hk); apply in_concat_map; exists c; (split; [exact Hc|]);
    rewrite Forall_forall in IH; apply (IH c Hc), Hk.
Qed.

Lemma nodup_concat_leaves cs :
  Forall (fun o => NoDup (locs o) -> NoDup (leaves o)) cs ->
  NoDup (concat (map locs cs)) -> NoDup (concat (map leaves cs)).
Proof.
  induction 1 as [|c cr Hc _ IH]; cbn [map concat]; intros H; [constructor|].
  apply nodup_app_iff in H as (H1 & H2 & H3). apply nodup_app_iff. split; [apply Hc, H1|]. split; [apply IH, H2|].
  intros x Hx Hy. apply (H3 x); [apply leaves_incl_locs, Hx|].
  apply in_concat_map in Hy as (c' & Hc' & Hy). apply in_concat_map. exists c'. split; [exact Hc'|apply leaves_incl_locs, Hy].
Qed.

Lemma nodup_leaves o : NoDup (locs o) -> NoDup (leaves o).
Proof.
  induction o as [l|id cs IH|id cs IH] using obj_ind'; cbn [leaves locs]; intros H; [exact H| |];
    inversion H; subst; apply nodup_concat_leaves; assumption.
Qed.

Lemma osame_concat_length cs : Forall (fun d => forall s, osame d s = true -> length (leaves d) = length (leaves s)) cs ->
  forall ds, forall2b osame cs ds = true -> length (concat (map leaves cs)) = length (concat (map leaves ds)).
Proof.
  induction 1 as [|c cr Hc _ IH]; intros [|d dr] H; cbn [forall2b] in H; try discriminate; [reflexivity|].
  apply andb_prop in H as [H1 H2]. cbn [map concat]. rewrite !app_length, (Hc d H1), (IH dr H2). reflexivity.
Qed.

Lemma osame_leaves_length d : forall s, osame d s = true -> length (leaves d) = length (leaves s).
Proof.
  induction d as [l|id cs IH|id cs IH] using obj_ind'; intros [l'|id' ds|id' ds] H; cbn [osame] in H; try discriminate;
    cbn [leaves]; [reflexivity| |]; apply osame_concat_length; assumption.
Qed.

Lemma read_ext2_list st st' cs :
  Forall (fun d => forall s, osame d s = true -> map (curv st') (leaves d) = map (curv st) (leaves s) -> read st' d = read st s) cs ->
  forall ds, forall2b osame cs ds = true ->
  map (curv st') (concat (map leaves cs)) = map (curv st) (concat (map leaves ds)) ->
  map (read st') cs = map (read st) ds.
Proof.
  induction 1 as [|c cr Hc _ IH]; intros [|d dr] H E; cbn [forall2b] in H; try discriminate; [reflexivity|].
  apply andb_prop in H as [H1 H2]. cbn [map concat] in *. rewrite !map_app in E.
  apply app_inv_length in E as [E1 E2]; [|rewrite !map_length; apply osame_leaves_length, H1].
  f_equal; [apply Hc; assumption|apply IH; assumption].
Qed.

(* same skeleton + same leaf values, leaf by leaf  ==>  same value *)
Lemma read_ext2 st st' d : forall s, osame d s = true ->
  map (curv st') (leaves d) = map (curv st) (leaves s) -> read st' d = read st s.
Proof.
  induction d as [l|id cs IH|id cs IH] using obj_ind'; intros [l'|id' ds|id' ds] H E; cbn [osame] in H; try discriminate;
    cbn [leaves read] in *.
  - inversion E. reflexivity.
  - f_equal. eapply read_ext2_list; eassumption.
  - f_equal. eapply read_ext2_list; eassumption.
Qed.

(* ---- the three leaf-by-leaf loops ---- *)
Definition cur_step (s : store) (p : nat * nat) : store := set_cur s (fst p) (curv s (snd p)).
Definition nxt_step (s : store) (p : nat * nat) : store := set_nxt s (fst p) (curv s (snd p)).
Definition flip_step (s : store) (l : nat) : store := set_cur s l (nxtv s l).

Lemma copy_cur_spec ds : forall ss st, NoDup ds -> disjoint ds ss -> length ds = length ss ->
  let st' := fold_left cur_step (combine ds ss) st in
  map (curv st') ds = map (curv st) ss /\
  (forall k, ~ In k ds -> curv st' k = curv st k) /\ (forall k, nxtv st' k = nxtv st k).
Proof.
  induction ds as [|d dr IH]; intros [|s sr] st Hnd Hdj Hlen; cbn in Hlen; try discriminate.
  - cbn. repeat split; reflexivity.
  - cbn [combine fold_left]. inversion Hnd as [|? ? Hd Hndr]; subst.
    assert (Hdj' : disjoint dr sr) by (intros x Hx Hy; apply (Hdj x); right; assumption).
    destruct (IH sr (cur_step st (d, s)) Hndr Hdj' ltac:(lia)) as (E1 & E2 & E3).
    cbn zeta. split; [|split].
    + cbn [map]. f_equal.
      * rewrite E2 by exact Hd. unfold cur_step; cbn [fst snd]. rewrite curv_set_cur, Nat.eqb_refl. reflexivity.
      * rewrite E1. apply map_ext_in. intros k Hk. unfold cur_step; cbn [fst snd]. rewrite curv_set_cur.
        destruct (Nat.eqb_spec k d) as [->|]; [|reflexivity]. exfalso. apply (Hdj d); [left; reflexivity|right; exact Hk].
    + intros k Hk. rewrite E2 by (intros Hin; apply Hk; right; exact Hin).
      unfold cur_step; cbn [fst snd]. rewrite curv_set_cur.
      destruct (Nat.eqb_spec k d) as [->|]; [|reflexivity]. exfalso. apply Hk. left; reflexivity.
    + intros k. rewrite E3. unfold cur_step. apply nxtv_set_cur.
Qed.

Lemma copy_nxt_spec ds : forall ss st, NoDup ds -> length ds = length ss ->
  let st' := fold_left nxt_step (combine ds ss) st in
  map (nxtv st') ds = map (curv st) ss /\
  (forall k, ~ In k ds -> nxtv st' k = nxtv st k) /\ (forall k, curv st' k = curv st k).
Proof.
  induction ds as [|d dr IH]; intros [|s sr] st Hnd Hlen; cbn in Hlen; try discriminate.
  - cbn. repeat split; reflexivity.
  - cbn [combine fold_left]. inversion Hnd as [|? ? Hd Hndr]; subst.
    destruct (IH sr (nxt_step st (d, s)) Hndr ltac:(lia)) as (E1 & E2 & E3).
    cbn zeta. split; [|split].
    + cbn [map]. f_equal.
      * rewrite E2 by exact Hd. unfold nxt_step; cbn [fst snd]. rewrite nxtv_set_nxt, Nat.eqb_refl. reflexivity.
      * rewrite E1. apply map_ext. intros k. unfold nxt_step. apply curv_set_nxt.
    + intros k Hk. rewrite E2 by (intros Hin; apply Hk; right; exact Hin).
      unfold nxt_step; cbn [fst snd]. rewrite nxtv_set_nxt.
      destruct (Nat.eqb_spec k d) as [->|]; [|reflexivity]. exfalso. apply Hk. left; reflexivity.
    + intros k. rewrite E3. unfold nxt_step. apply curv_set_nxt.
Qed.

Lemma flip_spec ls : forall st, NoDup ls ->
  let st' := fold_left flip_step ls st in
  map (curv st') ls = map (nxtv st) ls /\
  (forall k, ~ In k ls -> curv st' k = curv st k) /\ (forall k, nxtv st' k = nxtv st k).
Proof.
  induction ls as [|l lr IH]; intros st Hnd.
  - cbn. repeat split; reflexivity.
  - cbn [fold_left]. inversion Hnd as [|? ? Hl Hndr]; subst.
    destruct (IH (flip_step st l) Hndr) as (E1 & E2 & E3). cbn zeta. split; [|split].
    + cbn [map]. f_equal.
      * rewrite E2 by exact Hl. unfold flip_step. rewrite curv_set_cur, Nat.eqb_refl. reflexivity.
      * rewrite E1. apply map_ext. intros k. unfold flip_step. apply nxtv_set_cur.
    + intros k Hk. rewrite E2 by (intros Hin; apply Hk; right; exact Hin).
      unfold flip_step. rewrite curv_set_cur.
      destruct (Nat.eqb_spec k l) as [->|]; [|reflexivity]. exfalso. apply Hk. left; reflexivity.
    + intros k. rewrite E3. unfold flip_step. apply nxtv_set_cur.
Qed.

Lemma leaf_loc_in o : forall p l, leaf_loc o p = Some l -> In l (leaves o).
Proof.
  induction o as [l0|id cs IH|id cs IH] using obj_ind'; intros p l H; destruct p as [|[i|i] q]; cbn [leaf_loc] in H; try discriminate.
  - inversion H. left; reflexivity.
  - destruct (nth_error cs i) as [c|] eqn:E; [|discriminate]. apply nth_error_In in E.
    cbn [leaves]. apply in_concat_map. exists c. split; [exact E|]. rewrite Forall_forall in IH. eapply IH; eassumption.
  - destruct (nth_error cs i) as [c|] eqn:E; [|discriminate]. apply nth_error_In in E.
    cbn [leaves]. apply in_concat_map. exists c. split; [exact E|]. rewrite Forall_forall in IH. eapply IH; eassumption.
Qed.

(* an in-place write to a leaf of one object is invisible through any object that shares no leaf with it *)
Lemma poke_frame o o' p u st : disjoint (leaves o) (leaves o') -> read (poke o p u st) o' = read st o'.
Proof.
  intros Hd. unfold poke. destruct (leaf_loc o p) as [l|] eqn:E; [|reflexivity].
  apply leaf_loc_in in E. apply read_frame. intros k Hk. rewrite curv_set_cur.
  destruct (Nat.eqb_spec k l) as [->|]; [|reflexivity]. exfalso. exact (Hd l E Hk).
Qed.

Lemma poke_nxtv o p u st k : nxtv (poke o p u st) k = nxtv st k.
Proof. unfold poke. destruct (leaf_loc o p); [apply nxtv_set_cur|reflexivity]. Qed.

(* ---- @= : visible at once, source untouched, nothing shared afterwards ---- *)
Theorem imatmul_copies dst src st : osame dst src = true -> NoDup (leaves dst) -> disjoint (leaves dst) (leaves src) ->
  let st' := imatmul dst src st in
  read st' dst = read st src /\ read st' src = read st src /\
  (forall o, disjoint (leaves dst) (leaves o) -> read st' o = read st o) /\
  (forall p u, read (poke src p u st') dst = read st' dst) /\
  (forall p u, read (poke dst p u st') src = read st' src).
Proof.
  intros Hs Hnd Hdj. pose proof (osame_leaves_length _ _ Hs) as Hlen.
  destruct (copy_cur_spec (leaves dst) (leaves src) st Hnd Hdj Hlen) as (E1 & E2 & E3).
  cbn zeta. unfold imatmul. fold cur_step.
  assert (Hfr : forall o, disjoint (leaves dst) (leaves o) ->
                          read (fold_left cur_step (combine (leaves dst) (leaves src)) st) o = read st o).
  { intros o Ho. apply read_frame. intros l Hl. apply E2. intros Hin. exact (Ho l Hin Hl). }
  split; [apply read_ext2; assumption|]. split; [apply Hfr, Hdj|]. split; [exact Hfr|]. split.
  - intros p u. apply poke_frame. intros x Hx Hy. exact (Hdj x Hy Hx).
  - intros p u. apply poke_frame. exact Hdj.
Qed.

(* ---- <<= then _flip : nothing visible before the flip; the flip delivers the value the source had at <<= ---- *)
Theorem ilshift_defers dst src st : osame dst src = true -> NoDup (leaves dst) ->
  let st1 := ilshift dst src st in
  (forall o, read st1 o = read st o) /\
  (forall st2, (forall k, nxtv st2 k = nxtv st1 k) -> read (flip dst st2) dst = read st src) /\
  (forall o, disjoint (leaves dst) (leaves o) -> read (flip dst st1) o = read st o).
Proof.
  intros Hs Hnd. pose proof (osame_leaves_length _ _ Hs) as Hlen.
  destruct (copy_nxt_spec (leaves dst) (leaves src) st Hnd Hlen) as (E1 & E2 & E3).
  cbn zeta. unfold ilshift. fold nxt_step. split; [|split].
  - intros o. apply read_frame. intros l _. apply E3.
  - intros st2 H2. unfold flip. fold flip_step.
    destruct (flip_spec (leaves dst) st2 Hnd) as (F1 & F2 & F3). cbn zeta in F1.
    apply read_ext2; [exact Hs|]. rewrite F1, <- E1. apply map_ext. exact H2.
  - intros o Ho. unfold flip. fold flip_step.
    destruct (flip_spec (leaves dst) (fold_left nxt_step (combine (leaves dst) (leaves src)) st) Hnd) as (F1 & F2 & F3).
    apply read_frame. intros l Hl. cbn zeta in F2. rewrite F2 by (intros Hin; exact (Ho l Hin Hl)). apply E3.
Qed.

Corollary ilshift_flip dst src st : osame dst src = true -> NoDup (leaves dst) ->
  read (flip dst (ilshift dst src st)) dst = read st src.
Proof. intros Hs Hnd. destruct (ilshift_defers dst src st Hs Hnd) as (_ & H & _). apply H. reflexivity. Qed.

(* the source may even be overwritten between <<= and _flip *)
Corollary ilshift_snapshot dst src st p u : osame dst src = true -> NoDup (leaves dst) ->
  read (flip dst (poke src p u (ilshift dst src st))) dst = read st src.
Proof. intros Hs Hnd. destruct (ilshift_defers dst src st Hs Hnd) as (_ & H & _). apply H. intros k. apply poke_nxtv. Qed.

(* ---- construction: everything a constructor / from_bits / clone builds is new ---- *)
Definition alloc_ok (st : store) (o : obj) (st' : store) (v : value) : Prop :=
  (next st <= next st')%nat /\
  (forall k, (k < next st)%nat -> cells st' k = cells st k) /\
  (forall k, In k (locs o) -> (next st <= k < next st')%nat) /\
  NoDup (locs o) /\ read st' o = v.

Lemma read_cells_frame st st' o : (forall k, In k (locs o) -> cells st' k = cells st k) -> read st' o = read st o.
Proof. intros H. apply read_frame. intros l Hl. unfold curv. rewrite H by (apply leaves_incl_locs, Hl). reflexivity. Qed.

Lemma alloc_list_ok vs : Forall (fun v => forall st, alloc_ok st (fst (alloc v st)) (snd (alloc v st)) v) vs ->
  forall st, let os := fst (alloc_list alloc vs st) in let st' := snd (alloc_list alloc vs st) in
  (next st <= next st')%nat /\
  (forall k, (k < next st)%nat -> cells st' k = cells st k) /\
  (forall k, In k (concat (map locs os)) -> (next st <= k < next st')%nat) /\
  NoDup (concat (map locs os)) /\ map (read st') os = vs.
Proof.
  induction 1 as [|v vr Hv _ IH]; intros st.
  - cbn. repeat split; try lia; try constructor; try (intros k []); try reflexivity.
  - cbn [alloc_list]. specialize (Hv st). destruct (alloc v st) as [o st1] eqn:Ea. cbn [fst snd] in Hv.
    specialize (IH st1). destruct (alloc_list alloc vr st1) as [os st2] eqn:El. cbn [fst snd] in IH |- *.
    destruct Hv as (A1 & A2 & A3 & A4 & A5). destruct IH as (B1 & B2 & B3 & B4 & B5).
    cbn zeta. cbn [map concat]. split; [lia|]. split; [intros k Hk; rewrite B2 by lia; apply A2, Hk|].
    split; [intros k Hk; apply in_app_or in Hk as [Hk|Hk]; [apply A3 in Hk|apply B3 in Hk]; lia|].
    split.
    + apply nodup_app_iff. split; [exact A4|]. split; [exact B4|].
      intros x Hx Hy. apply A3 in Hx. apply B3 in Hy. lia.
    + f_equal; [|exact B5]. rewrite <- A5. apply read_cells_frame. intros k Hk. apply B2. apply A3 in Hk. lia.
Qed.

Lemma alloc_spec v : forall st, alloc_ok st (fst (alloc v st)) (snd (alloc v st)) v.
Proof.
  induction v as [u|vs IH|vs IH] using value_ind'; intros st.
  - cbn [alloc fst snd]. unfold alloc_ok. cbn [next cells locs read]. split; [lia|].
    split; [intros k Hk; unfold upd; destruct (Nat.eqb_spec k (next st)); [lia|reflexivity]|].
    split; [intros k [<-|[]]; lia|]. split; [repeat constructor; intros []|].
    unfold curv, upd. cbn. rewrite Nat.eqb_refl. reflexivity.
  - cbn [alloc]. pose proof (alloc_list_ok vs IH st) as H. destruct (alloc_list alloc vs st) as [os st1].
    cbn [fst snd] in *. cbn zeta in H. destruct H as (B1 & B2 & B3 & B4 & B5).
    unfold alloc_ok, bump. cbn [next cells locs read]. split; [lia|]. split; [exact B2|].
    split; [intros k [<-|Hk]; [lia|apply B3 in Hk; lia]|].
    split; [constructor; [intros Hin; apply B3 in Hin; lia|exact B4]|].
    f_equal. rewrite <- B5. apply map_ext. intros o. apply read_frame. reflexivity.
  - cbn [alloc]. pose proof (alloc_list_ok vs IH st) as H. destruct (alloc_list alloc vs st) as [os st1].
    cbn [fst snd] in *. cbn zeta in H. destruct H as (B1 & B2 & B3 & B4 & B5).
    unfold alloc_ok, bump. cbn [next cells locs read]. split; [lia|]. split; [exact B2|].
    split; [intros k [<-|Hk]; [lia|apply B3 in Hk; lia]|].
    split; [constructor; [intros Hin; apply B3 in Hin; lia|exact B4]|].
    f_equal. rewrite <- B5. apply map_ext. intros o. apply read_frame. reflexivity.
Qed.

(* an object is owned by a store when all its identities have been allocated *)
Definition owned (st : store) (o : obj) : Prop := forall k, In k (locs o) -> (k < next st)%nat.

(* ---- clone / deepcopy ---- *)
Theorem clone_spec o st : owned st o ->
  let c := fst (clone o st) in let st' := snd (clone o st) in
  read st' c = read st o /\ read st' o = read st o /\
  (forall k, In k (locs c) -> ~ In k (locs o)) /\ NoDup (locs c) /\ owned st' c /\ owned st' o /\
  (forall o', owned st o' -> read st' o' = read st o').
Proof.
  intros Ho. unfold clone. destruct (alloc_spec (read st o) st) as (A1 & A2 & A3 & A4 & A5).
  cbn zeta. split; [exact A5|].
  assert (Hfr : forall o', owned st o' -> read (snd (alloc (read st o) st)) o' = read st o').
  { intros o' Ho'. apply read_cells_frame. intros k Hk. apply A2, Ho', Hk. }
  split; [apply Hfr, Ho|]. split; [intros k Hk Hin; apply A3 in Hk; apply Ho in Hin; lia|].
  split; [exact A4|]. split; [intros k Hk; apply A3 in Hk; lia|]. split; [intros k Hk; apply Ho in Hk; lia|exact Hfr].
Qed.

(* mutating the copy never shows in the original, and vice versa *)
Theorem clone_independent o st p u : owned st o ->
  let c := fst (clone o st) in let st' := snd (clone o st) in
  read (poke c p u st') o = read st o /\ read (poke o p u st') c = read st o.
Proof.
  intros Ho. destruct (clone_spec o st Ho) as (C1 & C2 & C3 & _). cbn zeta in *.
  assert (Hd : disjoint (leaves (fst (clone o st))) (leaves o)).
  { intros x Hx Hy. apply (C3 x); apply leaves_incl_locs; assumption. }
  split.
  - rewrite poke_frame by exact Hd. exact C2.
  - rewrite poke_frame by (intros x Hx Hy; exact (Hd x Hy Hx)). exact C1.
Qed.

(* objects built for values of the same type have the same skeleton *)
Lemma alloc_osame T : forall va vb s1 s2, typed T va = true -> typed T vb = true ->
  osame (fst (alloc va s1)) (fst (alloc vb s2)) = true.
Proof.
  induction T as [n|fs IH|len e IH] using shape_ind'; intros va vb s1 s2 Ha Hb.
  - apply typed_bits_inv in Ha as (u & -> & _). apply typed_bits_inv in Hb as (u' & -> & _). reflexivity.
  - apply typed_struct_inv in Ha as (vs & -> & Ha). apply typed_struct_inv in Hb as (ws & -> & Hb).
    cbn [alloc].
    assert (G : forall vs ws s1 s2, forall2b typed fs vs = true -> forall2b typed fs ws = true ->
                forall2b osame (fst (alloc_list alloc vs s1)) (fst (alloc_list alloc ws s2)) = true).
    { clear vs ws s1 s2 Ha Hb. induction IH as [|f fr Hf _ IHr]; intros [|v vr] [|w wr] s1 s2 Ha Hb; cbn [forall2b] in Ha, Hb; try discriminate; [reflexivity|].
      apply andb_prop in Ha as [Ha1 Ha2]. apply andb_prop in Hb as [Hb1 Hb2]. cbn [alloc_list].
      specialize (Hf v w s1 s2 Ha1 Hb1). destruct (alloc v s1) as [o1 t1]. destruct (alloc w s2) as [o2 t2].
      specialize (IHr vr wr t1 t2 Ha2 Hb2). destruct (alloc_list alloc vr t1) as [os1 u1]. destruct (alloc_list alloc wr t2) as [os2 u2].
      cbn [fst snd forall2b] in *. rewrite Hf, IHr. reflexivity. }
    specialize (G vs ws s1 s2 Ha Hb).
    destruct (alloc_list alloc vs s1) as [os1 t1]. destruct (alloc_list alloc ws s2) as [os2 t2]. exact G.
  - apply typed_list_inv in Ha as (vs & -> & Hla & Ha). apply typed_list_inv in Hb as (ws & -> & Hlb & Hb).
    cbn [alloc]. subst len.
    assert (G : forall vs ws s1 s2, length ws = length vs -> forallb (typed e) vs = true -> forallb (typed e) ws = true ->
                forall2b osame (fst (alloc_list alloc vs s1)) (fst (alloc_list alloc ws s2)) = true).
    { clear vs ws s1 s2 Ha Hb Hlb. induction vs as [|v vr IHv]; intros [|w wr] s1 s2 Hl Ha Hb; cbn [length] in Hl; try discriminate; [reflexivity|].
      cbn [forallb] in Ha, Hb. apply andb_prop in Ha as [Ha1 Ha2]. apply andb_prop in Hb as [Hb1 Hb2]. cbn [alloc_list].
      pose proof (IH v w s1 s2 Ha1 Hb1) as Hf. destruct (alloc v s1) as [o1 t1]. destruct (alloc w s2) as [o2 t2].
      specialize (IHv wr t1 t2 ltac:(lia) Ha2 Hb2). destruct (alloc_list alloc vr t1) as [os1 u1]. destruct (alloc_list alloc wr t2) as [os2 u2].
      cbn [fst snd forall2b] in *. rewrite Hf, IHv. reflexivity. }
    specialize (G vs ws s1 s2 Hlb Ha Hb).
    destruct (alloc_list alloc vs s1) as [os1 t1]. destruct (alloc_list alloc ws s2) as [os2 t2]. exact G.
Qed.

(* two freshly built objects of one type satisfy every hypothesis of imatmul_copies / ilshift_defers *)
Theorem alloc_pair_separate T va vb st : typed T va = true -> typed T vb = true ->
  let a := fst (alloc va st) in let st1 := snd (alloc va st) in
  let b := fst (alloc vb st1) in let st2 := snd (alloc vb st1) in
  osame a b = true /\ NoDup (leaves a) /\ NoDup (leaves b) /\ disjoint (leaves a) (leaves b) /\
  read st2 a = va /\ read st2 b = vb.
Proof.
  intros Ha Hb. cbn zeta.
  destruct (alloc_spec va st) as (A1 & A2 & A3 & A4 & A5).
  destruct (alloc_spec vb (snd (alloc va st))) as (B1 & B2 & B3 & B4 & B5).
  split; [eapply alloc_osame; eassumption|]. split; [apply nodup_leaves, A4|]. split; [apply nodup_leaves, B4|].
  split; [intros x Hx Hy; apply leaves_incl_locs in Hx, Hy; apply A3 in Hx; apply B3 in Hy; lia|].
  split; [|exact B5]. transitivity (read (snd (alloc va st)) (fst (alloc va st))); [|exact A5].
  apply read_cells_frame. intros k Hk. apply B2. apply A3 in Hk. lia.
Qed.
