(* SV/SvSyntax.v — abstract syntax of the SystemVerilog / plain-Verilog subset that pymtl3's
   VerilogTranslationPass and YosysTranslationPass emit (model M6; properties C03, C12).
   Definitions only, no proofs, no axioms.

   Identifiers are interned by harness/svparse.py: one [positive] per distinct identifier string of the
   file (module names, variables, struct field names, block labels share one table).  The table is kept
   on the Python side for messages; nothing in the semantics depends on the spelling.

   Concrete syntax covered (anything else is refused by the parser and counted as `unmodelled construct`):

     typedef struct packed { <type> f; ... } T;            packed struct, FIRST field MOST significant
     logic [n-1:0] / logic [k-1:0]...[n-1:0] / T           packed types (packed arrays: element 0 LEAST significant)
     <type> x [0:d1-1][0:d2-1]                             unpacked dimensions
     module M ( input|output <type> p <dims>, ... ); ... endmodule
     localparam <type> c <dims> = <init>;                  init: expression, '{ init, ... }
     logic/wire/reg/integer declarations
     assign lhs = e;
     always_comb / always @( * )              begin [: label] stmts end
     always_ff @(posedge clk) / always @(posedge clk)  begin [: label] stmts end
     lhs = e;   lhs <= e;   if (e) s [else s]   begin ... end
     for ( [int unsigned] v = e; v < e; v += e | v = v + e ) s        (also > and -)
     M inst ( .p( e ), ... );
   expressions:  N'dV N'hV N'bV, V, x, e.f, e[i], e[hi:lo], e[b +: w], { e, ... }, { n { e, ... } },
                 ~ - + & | ^ !   + - * / % << >> & | ^ == != < <= > >= && ||   c ? a : b   N'( e )       *)
From PV Require Import Base.Prelude.
Open Scope Z_scope.

Definition ident := positive.

(* ---- packed data types ---- *)
Inductive ptype : Type :=
| PBits   (w : Z)                          (* logic [w-1:0] *)
| PStruct (fs : list (ident * ptype))      (* struct packed { ... } : first field most significant *)
| PArr    (n : Z) (elt : ptype).           (* [n-1:0] elt : element 0 least significant *)

(* a declared variable: packed type + unpacked dimensions, outermost first *)
Definition vtype := (ptype * list Z)%type.

Inductive unop  : Set := UNot | UNeg | UPlus | URedAnd | URedOr | URedXor | ULogNot.
Inductive binop : Set :=
| BAdd | BSub | BMul | BDiv | BMod | BAnd | BOr | BXor      (* operands sized to max(L(a), L(b), context) *)
| BShl | BShr                                               (* left operand context-determined, right self-determined *)
| BEq | BNe | BLt | BLe | BGt | BGe                          (* 1 bit; operands sized to max(L(a), L(b)) *)
| BLAnd | BLOr.                                             (* 1 bit; operands self-determined *)

Inductive expr : Type :=
| ELit   (w v : Z)                   (* sized literal  w'dv *)
| ENum   (v : Z)                     (* unsized decimal literal: 32 bits *)
| EId    (x : ident)
| EMember (e : expr) (f : ident)     (* e.f on a packed struct *)
| EIndex (e i : expr)                (* e[i] : unpacked element / packed-array element / bit select, decided by the type of e *)
| ERange (e : expr) (hi lo : Z)      (* e[hi:lo], constant bounds (the parser folds the literal bounds) *)
| EPlusRange (e base : expr) (w : Z) (* e[base +: w] *)
| EConcat (es : list expr)           (* { e1, ..., en } : e1 most significant *)
| ERepl  (n : Z) (e : expr)          (* { n { e } }   ({n{a,b}} is ERepl n (EConcat [a;b])) *)
| EUn    (o : unop) (a : expr)
| EBin   (o : binop) (a b : expr)
| ECond  (c a b : expr)
| ECast  (w : Z) (a : expr).         (* w'( a ) *)

Inductive stmt : Type :=
| SBlocking    (lhs rhs : expr)
| SNonBlocking (lhs rhs : expr)
| SIf  (c : expr) (t f : list stmt)
(* for ( v = init; v cmp bound; v = v inc step ) body      cmp in {<,>,<=,>=,!=}, inc in {+,-} *)
| SFor (v : ident) (init : expr) (cmp : binop) (bound : expr) (inc : binop) (step : expr) (body : list stmt).

Inductive init : Type :=
| IExpr (e : expr)
| IArr  (es : list init).            (* '{ ... } *)

Inductive dir : Set := DIn | DOut.

Record vdecl : Type := mkdecl { d_id : ident; d_ty : ptype; d_dims : list Z }.

Inductive item : Type :=
| IAssign (lhs rhs : expr)
| IComb (label : ident) (body : list stmt)
| IFF   (label : ident) (body : list stmt)
| IInst (modname inst : ident) (conns : list (ident * expr)).

Record module : Type := mkmod {
  m_name   : ident;
  m_ports  : list (dir * vdecl);
  m_params : list (vdecl * init);
  m_decls  : list vdecl;              (* wires, temporaries, loop variables *)
  m_items  : list item }.

Record file : Type := mkfile {
  f_typedefs : list (ident * ptype);  (* kept for reference; declarations carry the expanded type *)
  f_modules  : list module }.

(* ---- widths and struct layout ---- *)
Fixpoint pwidth (t : ptype) : Z :=
  match t with
  | PBits w => w
  | PStruct fs => (fix go (l : list (ident * ptype)) : Z :=
                     match l with [] => 0 | ft :: r => pwidth (snd ft) + go r end) fs
  | PArr n e => n * pwidth e
  end.
Definition pwidths (fs : list (ident * ptype)) : Z := fold_right (fun ft acc => pwidth (snd ft) + acc) 0 fs.

(* field f of a struct: (offset of its least significant bit, its type); the fields AFTER f lie below it *)
Fixpoint pfield (fs : list (ident * ptype)) (f : ident) : option (Z * ptype) :=
  match fs with
  | [] => None
  | ft :: r => if Pos.eqb (fst ft) f then Some (pwidths r, snd ft) else pfield r f
  end.

Fixpoint prodz (l : list Z) : Z := match l with [] => 1 | d :: r => d * prodz r end.
(* total number of bits a variable occupies in its flattened view (row-major elements, element 0 first) *)
Definition vbits (t : vtype) : Z := prodz (snd t) * pwidth (fst t).

Definition find_module (F : file) (n : ident) : option module :=
  find (fun m => Pos.eqb (m_name m) n) (f_modules F).
Definition port_dir (m : module) (p : ident) : option (dir * vdecl) :=
  find (fun dp => Pos.eqb (d_id (snd dp)) p) (m_ports m).
