(* SV/Translate.v — MODEL OF THE TRANSLATOR: what BehavioralRTLIRToVVisitorL1..L3
   (pymtl3/passes/backends/verilog/translation/behavioral/VBehavioralTranslatorL1..L3.py) emits for every RTLIR node of
   the update-block language of RTL/Syntax.v, as a term of SV/SvSyntax.v (the form harness/svparse.py reads the emitted
   text into).  Definitions only, no proofs (SV/TranslateSound.v), no axioms.

   Width annotations.  The translator prints the width the RTLIR type checker left on a node (`N'dK`, `N'(x)`, the
   padding of zext/sext, the decision trunc -> `N'(e)`).  Those are the annotations of RTL/Typing.v: [tc impl E e]
   is the model of BehavioralRTLIRTypeCheckL1/L2Pass (impl = the checker as implemented).  An annotation is final only
   after every enforcement by an ancestor: BehavioralRTLIRTypeEnforcer rewrites the width of every implicit
   Number / FreeVar / LoopVar / TmpVar / IfExp of the operand's sub-tree, the enforcement of the OUTERMOST ancestor
   being applied last; index expressions and IfExp conditions are never entered (Typing.shield).  [tr_expr E ctx e]
   therefore carries  ctx = Some c  when an ancestor enforced c on the sub-tree e sits in (Typing.enforce), and
   computes the contexts of the children with the same functions tc uses (rule_bin, rule_cmp, rule_if, index_ext).

   Names.  The RTL term knows signals / temporaries / loop variables by number; [names] gives their SystemVerilog
   spelling (interned identifiers, produced by the harness from the pymtl3 objects, NOT from the emitted text):
     signal s            x            or  x[W'dk]...   for a member of a (nested) list of signals
     field path p of s   x.f1.f2...
     temporary i         __tmpvar__<blk>_<name>
     loop variable i     <blk>.<name>                  (svparse renames the counter declared in the for header)
   A python closure / global constant is emitted as  N'( __const__name )  with a localparam declaration; RTL/Syntax.v
   keeps only its value (EFree z / ESized n z), so tr emits the localparam INLINED as the literal of its declaration
   ( w'dz with w = nbits_of z ) and the comparison [sv_stmt_eqb] inlines the scalar localparams of the parsed module the
   same way ([norm], semantics-preserving: TranslateSound.norm_sound).

   What svparse does to the text and tr mirrors: parentheses are dropped (the parse tree has the precedence the TEXT
   has, so a missing pair of brackets shows as a different tree whenever it matters); literal part-select bounds
   [N'dH:M'dL] are folded to integers the way [sv_cfold] does;  x += e  is read as  x = x + e.                       *)
From Coq Require Import FMapPositive.
From PV Require Import Base.Prelude Bits.BitsSpec RTL.Syntax RTL.Eval RTL.Typing.
From PV Require SV.SvSyntax SV.SvSizing SV.SvEval.
Open Scope Z_scope.

Module S := PV.SV.SvSyntax.
Module Z' := PV.SV.SvSizing.
Module X := PV.SV.SvEval.

Notation sexpr := S.expr.
Notation sstmt := S.stmt.
Notation ident := S.ident.

Record names : Type := mknames {
  n_sig  : nat -> ident * list (Z * Z);   (* variable, constant unpacked indices (width, value), outermost first *)
  n_elem : nat -> bool;                   (* the signal is spelled  <list>[k]  in the python source (RTLIR node class Index) *)
  n_fld  : nat -> list nat -> ident;      (* spelling of the LAST field of path p of signal s *)
  n_tmp  : nat -> ident;
  n_loop : nat -> ident }.

(* ------------------------------------------------------------------ operators *)
Definition tr_binop (op : binop) : S.binop :=
  match op with
  | Add => S.BAdd | Sub => S.BSub | Mul => S.BMul | And => S.BAnd | Or => S.BOr | Xor => S.BXor
  | FloorDiv => S.BDiv | Mod => S.BMod | LShift => S.BShl | RShift => S.BShr
  end.
Definition tr_cmpop (op : cmpop) : S.binop :=
  match op with CEq => S.BEq | CNe => S.BNe | CLt => S.BLt | CLe => S.BLe | CGt => S.BGt | CGe => S.BGe end.
Definition tr_redop (op : redop) : S.unop :=
  match op with RAnd => S.URedAnd | ROr => S.URedOr | RXor => S.URedXor end.

(* svparse.cfold: value of a literal part-select bound, evaluated self-determined:
   N'dV and N'(e) reduce modulo 2^N, + - * work at the wider operand width *)
Fixpoint sv_cfold (e : sexpr) : option (Z * Z) :=
  match e with
  | S.ELit w v => Some (w, v mod 2 ^ w)
  | S.ENum v => Some (32, v mod 2 ^ 32)
  | S.ECast w a => match sv_cfold a with Some (_, v) => Some (w, v mod 2 ^ w) | None => None end
  | S.EBin o a b =>
      match o, sv_cfold a, sv_cfold b with
      | S.BAdd, Some (wa, va), Some (wb, vb) => Some (Z.max wa wb, (va + vb) mod 2 ^ Z.max wa wb)
      | S.BSub, Some (wa, va), Some (wb, vb) => Some (Z.max wa wb, (va - vb) mod 2 ^ Z.max wa wb)
      | S.BMul, Some (wa, va), Some (wb, vb) => Some (Z.max wa wb, (va * vb) mod 2 ^ Z.max wa wb)
      | _, _, _ => None
      end
  | _ => None
  end.

(* ------------------------------------------------------------------ signals *)
Fixpoint tr_fields (nm : names) (s : nat) (done rest : list nat) (acc : sexpr) : sexpr :=
  match rest with
  | [] => acc
  | f :: r => tr_fields nm s (done ++ [f]) r (S.EMember acc (n_fld nm s (done ++ [f])))
  end.
Definition tr_root (nm : names) (s : nat) : sexpr :=
  fold_left (fun e wk => S.EIndex e (S.ELit (fst wk) (snd wk))) (snd (n_sig nm s)) (S.EId (fst (n_sig nm s))).
Definition tr_sig (nm : names) (s : nat) (p : list nat) : sexpr := tr_fields nm s [] p (tr_root nm s).

(* ------------------------------------------------------------------ expressions *)
Definition fin (ctx : option Z) (a : ann) : ann := match ctx with Some c => enf_ann c a | None => a end.
(* an outer enforcement overrides the one the parent applies *)
Definition sub (ctx cl : option Z) : option Z := match ctx with Some _ => ctx | None => cl end.

Section Expr.
Variable nm : names.
Variable E : tenv.

Definition ann_of (e : expr) : option ann := match tc impl E e with Some r => Some (fst r) | None => None end.
(* Type.get_dtype().get_length() of the node as the translator sees it *)
Definition fwid (ctx : option Z) (e : expr) : Z :=
  match ann_of e with Some a => aw (fin ctx a) | None => 0 end.
Definition fex (e : expr) : bool := match ann_of e with Some a => aex a | None => true end.
Definition cv_of (e : expr) : option Z := match ann_of e with Some a => acv a | None => None end.

Definition bin_ctx (op : binop) (a b : expr) : option Z * option Z :=
  match ann_of a, ann_of b with
  | Some la, Some ra => match rule_bin impl op la ra with Some (_, cl, cr) => (cl, cr) | None => (None, None) end
  | _, _ => (None, None)
  end.
Definition cmp_ctx (a b : expr) : option Z * option Z :=
  match ann_of a, ann_of b with
  | Some la, Some ra => match rule_cmp la ra with Some (_, cl, cr) => (cl, cr) | None => (None, None) end
  | _, _ => (None, None)
  end.
Definition if_ctx (c a b : expr) : option Z * option Z :=
  match ann_of c, ann_of a, ann_of b with
  | Some rc, Some la, Some ra => match rule_if impl rc la ra with Some (_, cl, cr) => (cl, cr) | None => (None, None) end
  | _, _, _ => (None, None)
  end.
Definition idx_ctx (a i : expr) (inclusive : bool) : option Z :=
  match ann_of a, ann_of i with
  | Some A, Some ri => match index_ext (aw A) ri inclusive with Some c => c | None => None end
  | _, _ => None
  end.

(* visit_Slice on an already translated base [ta] and lower bound [tlo] *)
Definition tr_slice (ta tlo : sexpr) (lo hi : expr) (hictx : option Z) : sexpr :=
  match cv_of lo, cv_of hi with
  | Some _, Some h =>
      (* value[ N'd(h-1) : lower ]   (svparse folds both bounds) *)
      S.ERange ta ((h - 1) mod 2 ^ fwid hictx hi) (match sv_cfold tlo with Some (_, v) => v | None => -1 end)
  | _, _ =>
      match hi with
      | EBin Add _ y => match cv_of y with Some k => S.EPlusRange ta tlo k | None => S.ERange ta (-1) (-1) end
      | _ => S.ERange ta (-1) (-1)
      end
  end.

(* visit_SignExt / visit_Reduce build TEXT:  "{value}[{last_bit}]"  and  "( {op} {value} )"  without brackets around
   value.  What the parser reads: the select binds to the LAST primary of the text of value, the reduction operator to
   the FIRST operand (operands of binary operators that are operator expressions themselves are bracketed by
   visit_expr_wrap, so one step suffices on the left; on the right a bracketed operand followed by [k] is not
   SystemVerilog and svparse refuses the whole text).  For a value that is an identifier / select chain / concatenation
   this is the intended tree. *)
Fixpoint sext_attach (t : sexpr) (k : Z) {struct t} : sexpr :=
  match t with
  | S.EBin o x y => S.EBin o x (sext_attach y k)
  | S.ECond c x y => S.ECond c x (sext_attach y k)
  | S.EUn o x => S.EUn o (sext_attach x k)
  | _ => S.EIndex t (S.ENum k)
  end.
Definition red_attach (o : S.unop) (t : sexpr) : sexpr :=
  match t with
  | S.EBin b x y => S.EBin b (S.EUn o x) y
  | S.ECond c x y => S.ECond (S.EUn o c) x y
  | _ => S.EUn o t
  end.

(* visit_SignExt: which bit is replicated, given the translated operand *)
Definition sext_bit (a : expr) (ta : sexpr) (w : Z) (hiw : Z) : sexpr :=
  match a with
  | ESlice _ lo hi =>
      match cv_of lo, cv_of hi with
      | Some l, Some h =>
          if h - l =? 1 then ta                          (* one-bit part select: replicated as it is *)
          else match ta with
               | S.ERange x _ _ => S.EIndex x (S.ELit hiw ((h - 1) mod 2 ^ hiw))    (* text up to the ':' + ']' *)
               | _ => sext_attach ta (w - 1)
               end
      | _, _ =>
          (* x[base +: k]: the top bit is selected as  x[(base) + k-1]  (the bracket matching the final ']' is found) *)
          match ta with
          | S.EPlusRange x b k => S.EIndex x (S.EBin S.BAdd b (S.ENum (k - 1)))
          | _ => sext_attach ta (w - 1)
          end
      end
  | EIdx _ _ => ta                                       (* isinstance( node.value, bir.Index ): replicated as it is *)
  | ESig s [] => if n_elem nm s then ta else sext_attach ta (w - 1)    (* ... also when it indexes a LIST of signals *)
  | _ => sext_attach ta (w - 1)
  end.

Fixpoint tr_expr (ctx : option Z) (e : expr) {struct e} : sexpr :=
  match e with
  | ESig s p => tr_sig nm s p
  | ELit z => S.ELit (fwid ctx e) z                                                    (* visit_Number *)
  | ESized n z => S.ELit n (z mod 2 ^ n)                                               (* visit_SizeCast, _value *)
  | EFree z => S.ECast (fwid ctx e) (S.ELit (nbits_of z) z)                            (* visit_FreeVar, localparam inlined *)
  | ECast n a =>
      match cv_of a with
      | Some v => S.ELit n (v mod 2 ^ n)
      | None => S.ECast n (tr_expr ctx a)
      end
  | EBin op a b =>
      let c := bin_ctx op a b in
      S.EBin (tr_binop op) (tr_expr (sub ctx (fst c)) a) (tr_expr (sub ctx (snd c)) b)
  | ECmp op a b =>
      let c := cmp_ctx a b in
      S.EBin (tr_cmpop op) (tr_expr (sub ctx (fst c)) a) (tr_expr (sub ctx (snd c)) b)
  | EInv a => S.EUn S.UNot (tr_expr ctx a)
  | ESlice a lo hi =>
      tr_slice (tr_expr ctx a) (tr_expr (sub ctx (idx_ctx a lo true)) lo) lo hi (sub ctx (idx_ctx a hi false))
  | EIdx a i => S.EIndex (tr_expr None a) (tr_expr (idx_ctx a i true) i)
  | EConcat es => S.EConcat ((fix go (l : list expr) : list sexpr := match l with [] => [] | x :: r => tr_expr ctx x :: go r end) es)
  | EZext n a =>
      let ta := tr_expr ctx a in
      let pad := n - fwid ctx a in
      if pad =? 0 then ta else S.EConcat [S.ERepl pad (S.ELit 1 0); ta]
  | ESext n a =>
      let ta := tr_expr ctx a in
      let w := fwid ctx a in
      let pad := n - w in
      if pad =? 0 then ta
      else S.EConcat [S.ERepl pad (sext_bit a ta w
                                     (match a with ESlice b _ hi => fwid (sub ctx (idx_ctx b hi false)) hi | _ => 0 end)); ta]
  | ETrunc n a => if n <? fwid ctx a then S.ECast n (tr_expr ctx a) else tr_expr ctx a
  | ERed op a => red_attach (tr_redop op) (tr_expr ctx a)
  | EIf c a b =>
      let k := if_ctx c a b in
      S.ECond (tr_expr None c) (tr_expr (sub ctx (fst k)) a) (tr_expr (sub ctx (snd k)) b)
  | ETmp i => if fex e then S.EId (n_tmp nm i) else S.ECast (fwid ctx e) (S.EId (n_tmp nm i))
  | ELoop i => S.ECast (fwid ctx e) (S.EId (n_loop nm i))
  end.

(* assignment targets (is_assign_LHS: a temporary is printed bare) *)
Definition tr_lhs (l : lhs) : sexpr :=
  match l with
  | LSig s p => tr_sig nm s p
  | LSlice s p lo hi =>
      let a := ESig s p in
      tr_slice (tr_sig nm s p) (tr_expr (idx_ctx a lo true) lo) lo hi (idx_ctx a hi false)
  | LIndex s p i => S.EIndex (tr_sig nm s p) (tr_expr (idx_ctx (ESig s p) i true) i)
  | LTmp i => S.EId (n_tmp nm i)
  end.

(* the enforcement _visit_Assign_single_target applies to the right-hand side *)
Definition assign_ctx (l : lhs) (e : expr) : option Z :=
  match lhs_expr l with
  | None => None
  | Some le =>
      match ann_of le, ann_of e with
      | Some L, Some R =>
          match astr L, astr R with
          | None, None => if negb (aex R) && negb (aw R =? aw L) then Some (aw L) else None
          | _, _ => None
          end
      | _, _ => None
      end
  end.
End Expr.

(* ------------------------------------------------------------------ where the soundness theorem applies *)
(* Static analyses on the RTL term (no typing judgement is needed for them):
     mayint e   e MAY evaluate to a python int         (every VInt-valued expression satisfies it)
     defint e   e DOES evaluate to a python int        (built from literals, closure ints and loop variables only)
     cval e     the value of a closed integer expression, computed with the simulator's own int arithmetic
     ubound e   an upper bound of the value of an int-valued expression (None: not bounded by this analysis)        *)
Fixpoint mayint (E : tenv) (e : expr) {struct e} : bool :=
  match e with
  | ELit _ | EFree _ | ELoop _ => true
  | EBin _ a b | ECmp _ a b => mayint E a && mayint E b
  | EInv a => mayint E a
  | EIf _ a b => mayint E a || mayint E b
  | ETmp i => match ttmp E i with Some (_, _, mi, _) => mi | None => false end
  | _ => false
  end.
Fixpoint defint (e : expr) {struct e} : bool :=
  match e with
  | ELit _ | EFree _ | ELoop _ => true
  | EBin _ a b | ECmp _ a b => defint a && defint b
  | EIf _ a b => defint a && defint b
  | _ => false
  end.
Fixpoint cval (e : expr) {struct e} : option Z :=
  match e with
  | ELit z | EFree z => Some z
  | EBin op a b =>
      match cval a, cval b with
      | Some x, Some y => match eval_int_bin op x y with Ok (VInt z) => Some z | _ => None end
      | _, _ => None
      end
  | _ => None
  end.
Fixpoint ubound (E : tenv) (e : expr) {struct e} : option Z :=
  match e with
  | ELit z | EFree z => Some z
  | ELoop i => match tloop E i with Some w => Some (2 ^ w - 1) | None => None end
  | ETmp i => match ttmp E i with Some (w, _, _, _) => Some (2 ^ w - 1) | None => None end
  | EBin op a b =>
      match cval e with
      | Some c => Some c
      | None =>
          match ubound E a, ubound E b with
          | Some x, Some y =>
              match op with
              | Add => Some (x + y) | Mul => Some (x * y) | RShift => Some x
              | LShift => if y <=? 64 then Some (x * 2 ^ y) else None
              | _ => None
              end
          | _, _ => None
          end
      end
  | ECmp _ _ _ => Some 1
  | EIf _ a b => match ubound E a, ubound E b with Some x, Some y => Some (Z.max x y) | _, _ => None end
  | _ => None
  end.

Definition is_sub (op : binop) : bool := match op with Sub => true | _ => false end.

Section Ok.
Variable te : Z'.tenv.       (* declarations of the emitted module: self-determined widths are computed in it *)
Variable nm : names.
Variable E : tenv.
Notation W := (Z'.selfw te).
Notation T := (tr_expr nm E).

(* a plain Bits signal / field (the only legal base of a part select or bit select in the emitted text) *)
Definition is_sigbits (e : expr) : bool :=
  match e with
  | ESig s p => match lookup_sig (tsig E) s p with
                | Some f => match fstruct f with None => true | Some _ => false end
                | None => false end
  | _ => false
  end.

(* [sv_ok ctx e]: the acceptor under which TranslateSound.tr_expr_sound holds.  Beyond recursion it demands
   - literals / closure constants / loop variables / implicit temporaries fit the width they are printed at;
   - both operands of + - * & | ^, of a comparison and both branches of ?: have ONE self-determined width in the
     emitted text (what the type checker's enforcement is meant to achieve);
   - an operation between two python ints stays below 2^width of its emitted form (this is where constant
     sub-expressions typed by their folded value but emitted unfolded — finding F4 — are refused); unless its value is a
     closed constant it is built from + * << >> only;
   - ~ and reduce_* are applied to Bits values; the operand of reduce_* / sext is printed as a primary / a plain signal
     (otherwise the text the translator builds groups differently: known findings "precedence");
   - part / bit selects are taken from plain Bits signals with closed constant bounds or the  x : x+k  form over ints;
   - the padding of zext / sext / the decision of trunc use the annotated width of the operand: it must be the
     self-determined width of its emitted form. *)
Fixpoint sv_ok (ctx : option Z) (e : expr) {struct e} : bool :=
  match e with
  | ESig _ _ => true
  | ELit z => let w := fwid E ctx e in (0 <=? z) && (z <? 2 ^ w) && (0 <=? w)
  | ESized _ _ => true
  | EFree z =>
      let w := fwid E ctx e in
      (0 <=? z) && (z <? 2 ^ w) && (z <? 2 ^ nbits_of z) && (0 <=? w) && (0 <=? nbits_of z)
  | ECast _ a => match cv_of E a with None => sv_ok ctx a | Some _ => false end
  | EBin op a b =>
      let c := bin_ctx E op a b in
      let ta := T (sub ctx (fst c)) a in
      let tb := T (sub ctx (snd c)) b in
      sv_ok (sub ctx (fst c)) a && sv_ok (sub ctx (snd c)) b && negb (is_div op) &&
      (is_shift op || (W ta =? W tb)) &&
      (negb (mayint E a && mayint E b) ||
       match cval e with
       | Some c => (0 <=? c) && (c <? 2 ^ W (S.EBin (tr_binop op) ta tb))
       | None => negb (is_sub op) && match ubound E e with Some m => m <? 2 ^ W (S.EBin (tr_binop op) ta tb) | None => false end
       end)
  | ECmp op a b =>
      let c := cmp_ctx E a b in
      sv_ok (sub ctx (fst c)) a && sv_ok (sub ctx (snd c)) b && (W (T (sub ctx (fst c)) a) =? W (T (sub ctx (snd c)) b))
  | EInv a => sv_ok ctx a && negb (mayint E a)
  | ESlice a lo hi =>
      is_sigbits a &&
      match cv_of E lo, cv_of E hi with
      | Some _, Some h0 =>
          match cval lo, cval hi with
          | Some l, Some h =>
              ((match sv_cfold (T (sub ctx (idx_ctx E a lo true)) lo) with Some (_, v) => v | None => -1 end) =? l) &&
              ((h0 - 1) mod 2 ^ fwid E (sub ctx (idx_ctx E a hi false)) hi =? h - 1)
          | _, _ => false
          end
      | _, _ =>
          match hi with
          | EBin Add x y =>
              match cv_of E y, cval y with
              | Some k', Some k =>
                  (k' =? k) && (0 <? k) && expr_eqb lo x && defint lo && sv_ok (sub ctx (idx_ctx E a lo true)) lo
              | _, _ => false
              end
          | _ => false
          end
      end
  | EIdx a i => is_sigbits a && sv_ok (idx_ctx E a i true) i
  | EConcat es => (fix go (l : list expr) : bool := match l with [] => true | x :: r => sv_ok ctx x && go r end) es
  | EZext _ a | ETrunc _ a => sv_ok ctx a && (W (T ctx a) =? fwid E ctx a)
  | ESext _ a =>
      sv_ok ctx a && (W (T ctx a) =? fwid E ctx a) &&
      match a with
      | ESig s p => (fwid E ctx a <? 2 ^ 32) && is_sigbits a && match p with [] => negb (n_elem nm s) | _ => true end
      | ESlice b lo hi =>
          (* a constant part select of a plain signal (accepted above): the checker's constants are the values *)
          match cv_of E lo, cv_of E hi, cval lo, cval hi with
          | Some l0, Some h0, Some l, Some h => (l0 =? l) && (h0 =? h) && (0 <=? fwid E (sub ctx (idx_ctx E b hi false)) hi)
          | _, _, _, _ => false
          end
      | _ => false
      end
  | ERed _ a =>
      sv_ok ctx a && negb (mayint E a) &&
      match T ctx a with S.EBin _ _ _ | S.ECond _ _ _ => false | _ => true end
  | EIf c a b =>
      let k := if_ctx E c a b in
      sv_ok None c && sv_ok (sub ctx (fst k)) a && sv_ok (sub ctx (snd k)) b &&
      (W (T (sub ctx (fst k)) a) =? W (T (sub ctx (snd k)) b))
  | ETmp i =>
      match ttmp E i with
      | Some (w, ex, _, _) => eqb (fex E e) ex && (ex || (w <=? fwid E ctx e))
      | None => false
      end
  | ELoop i => match tloop E i with Some w => w <=? fwid E ctx e | None => false end
  end.
End Ok.

(* ------------------------------------------------------------------ statements *)
Definition env_after (E : tenv) (s : stmt) : tenv := match tcs impl E s with Some (E', _) => E' | None => E end.
Definition env_after_list (E : tenv) (l : list stmt) : tenv := fold_left env_after l E.

Fixpoint tr_stmt (nm : names) (E : tenv) (s : stmt) {struct s} : sstmt :=
  match s with
  | SAssign _ l e blocking =>
      let r := tr_expr nm E (assign_ctx E l e) e in
      if blocking then S.SBlocking (tr_lhs nm E l) r else S.SNonBlocking (tr_lhs nm E l) r
  | SIf _ c t f =>
      S.SIf (tr_expr nm E None c)
        ((fix go (l : list stmt) (E : tenv) : list sstmt :=
            match l with [] => [] | x :: r => tr_stmt nm E x :: go r (env_after E x) end) t E)
        ((fix go (l : list stmt) (E : tenv) : list sstmt :=
            match l with [] => [] | x :: r => tr_stmt nm E x :: go r (env_after E x) end) f (env_after_list E t))
  | SFor id lo hi step body =>
      (* for ( int unsigned v = LO; v < HI; v += STEP )  with the bounds at their own literal widths *)
      S.SFor (n_loop nm id) (S.ELit (nbits_of lo) lo) S.BLt (S.ELit (nbits_of hi) hi) S.BAdd (S.ELit (nbits_of step) step)
        ((fix go (l : list stmt) (E : tenv) : list sstmt :=
            match l with [] => [] | x :: r => tr_stmt nm E x :: go r (env_after E x) end)
           body (set_tloop E id (Some (loopvar_width lo hi step))))
  end.

Fixpoint tr_stmts (nm : names) (E : tenv) (l : list stmt) : list sstmt :=
  match l with [] => [] | x :: r => tr_stmt nm E x :: tr_stmts nm (env_after E x) r end.

(* body of the always block emitted for an update block with declarations G *)
Definition tr_block (nm : names) (G : decls) (b : list stmt) : list sstmt := tr_stmts nm (init_tenv G) b.

(* ------------------------------------------------------------------ acceptor for statements and blocks *)
Section BlkOk.
Variable te : Z'.tenv.
Variable nm : names.

Definition lhs_ok (E : tenv) (l : lhs) : bool :=
  match l with
  | LSig s p => match lookup_sig (tsig E) s p with Some _ => true | None => false end
  | LSlice s p lo hi => sv_ok te nm E None (ESlice (ESig s p) lo hi)
  | LIndex s p i => sv_ok te nm E None (EIdx (ESig s p) i)
  | LTmp _ => true
  end.

(* an assignment: both sides accepted, target exactly as wide as the emitted right-hand side (so that the assignment
   context does not widen the evaluation), <<= only to a whole signal (what RTL/Eval.v models) *)
Definition assign_ok (E : tenv) (l : lhs) (e : expr) (blocking : bool) : bool :=
  lhs_ok E l && sv_ok te nm E (assign_ctx E l e) e &&
  (Z'.selfw te (tr_lhs nm E l) =? Z'.selfw te (tr_expr nm E (assign_ctx E l e) e)) &&
  (blocking || match l with LSig _ [] => true | _ => false end).

(* for ( v = LO; v < HI; v += STEP ): the literals fit their printed widths and the 32-bit counter cannot wrap *)
Definition for_ok (lo hi step : Z) : bool :=
  (0 <=? lo) && (0 <=? hi) && (0 <? step) && (lo <? 2 ^ nbits_of lo) && (hi <? 2 ^ nbits_of hi) &&
  (step <? 2 ^ nbits_of step) && (hi + step <? 2 ^ 32) && (lo <? 2 ^ 32).

Fixpoint stmt_ok (E : tenv) (s : stmt) {struct s} : bool :=
  match s with
  | SAssign _ l e blocking => assign_ok E l e blocking
  | SIf _ c t f =>
      sv_ok te nm E None c &&
      (fix go (l : list stmt) (E : tenv) : bool :=
         match l with [] => true | x :: r => stmt_ok E x && go r (env_after E x) end) t E &&
      (fix go (l : list stmt) (E : tenv) : bool :=
         match l with [] => true | x :: r => stmt_ok E x && go r (env_after E x) end) f (env_after_list E t)
  | SFor id lo hi step body =>
      for_ok lo hi step &&
      (fix go (l : list stmt) (E : tenv) : bool :=
         match l with [] => true | x :: r => stmt_ok E x && go r (env_after E x) end)
        body (set_tloop E id (Some (loopvar_width lo hi step)))
  end.
Fixpoint stmts_ok (E : tenv) (l : list stmt) : bool :=
  match l with [] => true | x :: r => stmt_ok E x && stmts_ok (env_after E x) r end.
(* the acceptor evaluated on every compared block: every expression of the block is in the domain of
   TranslateSound.tr_expr_sound and every assignment in that of TranslateSound.tr_assign_* *)
Definition blk_ok (G : decls) (b : list stmt) : bool := stmts_ok (init_tenv G) b.
End BlkOk.

(* ------------------------------------------------------------------ comparison with the parsed emitted text *)
(* scalar localparams of the module: identifier -> (declared width, value) *)
Definition params := PositiveMap.t (Z * Z).

(* [norm ps false e]: every READ of a scalar localparam is replaced by the literal of its declaration, and a size cast
   of a literal that fits its own width is folded into the literal ( N'( M'dV ) = N'dV  when V < 2^M ).  The base of a
   select chain ( x in x[i], x.f, x[h:l] ) is left alone ([base] = true) *)
Fixpoint norm (ps : params) (base : bool) (e : sexpr) {struct e} : sexpr :=
  match e with
  | S.ELit _ _ | S.ENum _ => e
  | S.EId x => if base then e else match PositiveMap.find x ps with Some (w, v) => S.ELit w v | None => e end
  | S.EMember a f => S.EMember (norm ps true a) f
  | S.EIndex a i => S.EIndex (norm ps true a) (norm ps false i)
  | S.ERange a hi lo => S.ERange (norm ps true a) hi lo
  | S.EPlusRange a b w => S.EPlusRange (norm ps true a) (norm ps false b) w
  | S.EConcat es => S.EConcat ((fix go (l : list sexpr) : list sexpr := match l with [] => [] | x :: r => norm ps false x :: go r end) es)
  | S.ERepl n a => S.ERepl n (norm ps false a)
  | S.EUn o a => S.EUn o (norm ps false a)
  | S.EBin o a b => S.EBin o (norm ps false a) (norm ps false b)
  | S.ECond c a b => S.ECond (norm ps false c) (norm ps false a) (norm ps false b)
  | S.ECast w a =>
      match norm ps false a with
      | S.ELit w' v => if (0 <=? v) && (v <? 2 ^ w') then S.ELit w v else S.ECast w (S.ELit w' v)
      | a' => S.ECast w a'
      end
  end.

Definition unop_eqb (a b : S.unop) : bool :=
  match a, b with
  | S.UNot, S.UNot | S.UNeg, S.UNeg | S.UPlus, S.UPlus | S.URedAnd, S.URedAnd | S.URedOr, S.URedOr
  | S.URedXor, S.URedXor | S.ULogNot, S.ULogNot => true
  | _, _ => false
  end.
Definition binop_eqb (a b : S.binop) : bool :=
  match a, b with
  | S.BAdd, S.BAdd | S.BSub, S.BSub | S.BMul, S.BMul | S.BDiv, S.BDiv | S.BMod, S.BMod | S.BAnd, S.BAnd | S.BOr, S.BOr
  | S.BXor, S.BXor | S.BShl, S.BShl | S.BShr, S.BShr | S.BEq, S.BEq | S.BNe, S.BNe | S.BLt, S.BLt | S.BLe, S.BLe
  | S.BGt, S.BGt | S.BGe, S.BGe | S.BLAnd, S.BLAnd | S.BLOr, S.BLOr => true
  | _, _ => false
  end.

(* strict structural equality of SystemVerilog expressions / statements *)
Fixpoint sexpr_eqb (x y : sexpr) {struct x} : bool :=
  match x, y with
  | S.ELit w v, S.ELit w' v' => (w =? w') && (v =? v')
  | S.ENum v, S.ENum v' => v =? v'
  | S.EId a, S.EId b => Pos.eqb a b
  | S.EMember a f, S.EMember a' f' => sexpr_eqb a a' && Pos.eqb f f'
  | S.EIndex a i, S.EIndex a' i' => sexpr_eqb a a' && sexpr_eqb i i'
  | S.ERange a h l, S.ERange a' h' l' => sexpr_eqb a a' && (h =? h') && (l =? l')
  | S.EPlusRange a b w, S.EPlusRange a' b' w' => sexpr_eqb a a' && sexpr_eqb b b' && (w =? w')
  | S.EConcat es, S.EConcat es' =>
      (fix go (l l' : list sexpr) : bool :=
         match l, l' with [], [] => true | p :: r, q :: r' => sexpr_eqb p q && go r r' | _, _ => false end) es es'
  | S.ERepl n a, S.ERepl n' a' => (n =? n') && sexpr_eqb a a'
  | S.EUn o a, S.EUn o' a' => unop_eqb o o' && sexpr_eqb a a'
  | S.EBin o a b, S.EBin o' a' b' => binop_eqb o o' && sexpr_eqb a a' && sexpr_eqb b b'
  | S.ECond c a b, S.ECond c' a' b' => sexpr_eqb c c' && sexpr_eqb a a' && sexpr_eqb b b'
  | S.ECast w a, S.ECast w' a' => (w =? w') && sexpr_eqb a a'
  | _, _ => false
  end.

(* the comparison used by the tie: equal after inlining localparams (lvalues are bases: nothing is inlined in them
   except inside their index expressions) *)
Definition sv_expr_eqb (ps : params) (x y : sexpr) : bool := sexpr_eqb (norm ps false x) (norm ps false y).
Definition sv_lhs_eqb (ps : params) (x y : sexpr) : bool := sexpr_eqb (norm ps true x) (norm ps true y).

Fixpoint sv_stmt_eqb (ps : params) (x y : sstmt) {struct x} : bool :=
  match x, y with
  | S.SBlocking l r, S.SBlocking l' r' | S.SNonBlocking l r, S.SNonBlocking l' r' => sv_lhs_eqb ps l l' && sv_expr_eqb ps r r'
  | S.SIf c t f, S.SIf c' t' f' =>
      sv_expr_eqb ps c c' &&
      (fix go (l l' : list sstmt) : bool :=
         match l, l' with [], [] => true | p :: r, q :: r' => sv_stmt_eqb ps p q && go r r' | _, _ => false end) t t' &&
      (fix go (l l' : list sstmt) : bool :=
         match l, l' with [], [] => true | p :: r, q :: r' => sv_stmt_eqb ps p q && go r r' | _, _ => false end) f f'
  | S.SFor v i c b n s body, S.SFor v' i' c' b' n' s' body' =>
      Pos.eqb v v' && sv_expr_eqb ps i i' && binop_eqb c c' && sv_expr_eqb ps b b' && binop_eqb n n' && sv_expr_eqb ps s s' &&
      (fix go (l l' : list sstmt) : bool :=
         match l, l' with [], [] => true | p :: r, q :: r' => sv_stmt_eqb ps p q && go r r' | _, _ => false end) body body'
  | _, _ => false
  end.
Fixpoint sv_block_eqb (ps : params) (l l' : list sstmt) : bool :=
  match l, l' with [], [] => true | p :: r, q :: r' => sv_stmt_eqb ps p q && sv_block_eqb ps r r' | _, _ => false end.

(* scalar localparams (of a parsed module) whose initialiser is a plain sized literal of the declared width that fits *)
Definition params_of (l : list (S.vdecl * S.init)) : params :=
  fold_left (fun ps di =>
               match di with
               | (S.mkdecl x (S.PBits w) [], S.IExpr (S.ELit w' v)) =>
                   if (w =? w') && (0 <=? v) && (v <? 2 ^ w) then PositiveMap.add x (w, v) ps else ps
               | _ => ps
               end) l (PositiveMap.empty (Z * Z)).

(* ------------------------------------------------------------------ names from association lists (harness) *)
Fixpoint assoc_nat {A} (l : list (nat * A)) (k : nat) (d : A) : A :=
  match l with [] => d | (j, a) :: r => if Nat.eqb j k then a else assoc_nat r k d end.
Fixpoint assoc_fld (l : list (nat * list nat * ident)) (s : nat) (p : list nat) (d : ident) : ident :=
  match l with [] => d | (s', p', x) :: r => if Nat.eqb s s' && path_eqb p p' then x else assoc_fld r s p d end.
(* [dflt] is an identifier that occurs nowhere in the emitted text *)
Definition names_of (dflt : ident) (sg : list (nat * (ident * list (Z * Z)))) (el : list nat) (fl : list (nat * list nat * ident))
                    (tm lp : list (nat * ident)) : names :=
  {| n_sig := fun s => assoc_nat sg s (dflt, []);
     n_elem := fun s => existsb (Nat.eqb s) el;
     n_fld := fun s p => assoc_fld fl s p dflt;
     n_tmp := fun i => assoc_nat tm i dflt;
     n_loop := fun i => assoc_nat lp i dflt |}.

(* ------------------------------------------------------------------ running an emitted block (harness + partial statement) *)
(* run the block body p once in SvEval inside the declarations of module m, starting from the packed signal values
   [inputs] (signal s is written through its emitted spelling), commit the non-blocking writes, read all signals back *)
Definition sv_run (m : S.module) (nm : names) (nsig : nat) (p : list sstmt) (inputs : list Z) : list Z * bool :=
  match X.init_state 1 (S.mkfile [] [m]) m with
  | X.MS te en _ =>
      let en1 := fold_left (fun en s => Z'.write_ref (Z'.resolve te en (tr_sig nm s [])) (Z'.VZ (nth s inputs 0)) en) (seq 0 nsig) en in
      let x := X.exec_list te p (X.mkx en1 [] true) in
      let en2 := X.commit (X.x_pend x) (X.x_env x) in
      (map (fun s => Z'.read_bits en2 (Z'.resolve te en2 (tr_sig nm s []))) (seq 0 nsig), X.x_ok x)
  end.
(* 0: the simulator raises on this input (nothing to compare); 1: the emitted block p and the source block t leave the
   same packed value in every signal of wr; 2: they differ *)
Definition blk_diff (nm : names) (G : decls) (t : list stmt) (p : list sstmt) (m : S.module) (nsig : nat) (wr : list nat)
                    (inputs : list Z) : nat :=
  match run_block G nsig t inputs with
  | Ok (o, _) =>
      let r := sv_run m nm nsig p inputs in
      if snd r && forallb (fun s => nth s o 0 =? nth s (fst r) (-1)) wr then 1%nat else 2%nat
  | Err _ => 0%nat
  end.

(* plain designs: every signal a scalar variable of the module (no struct field, no list element), declared with its
   width, all spellings pairwise distinct *)
Fixpoint nodup_pos (l : list ident) : bool :=
  match l with [] => true | x :: r => negb (existsb (Pos.eqb x) r) && nodup_pos r end.
Definition flat_names_ok (m : S.module) (nm : names) (G : decls) (nsig ntmp nloop : nat) : bool :=
  forallb (fun d => match d with (s, p, f) => match p with [] => (flo f =? 0) && (Nat.ltb s nsig) | _ => false end end) G &&
  forallb (fun s => match snd (n_sig nm s), lookup_sig G s [], PositiveMap.find (fst (n_sig nm s)) (X.mod_tenv m) with
                    | [], Some f, Some (S.PBits w, []) => w =? fw f
                    | _, _, _ => false end) (seq 0 nsig) &&
  forallb (fun i => match PositiveMap.find (n_tmp nm i) (X.mod_tenv m) with Some (S.PBits _, []) => true | _ => false end) (seq 0 ntmp) &&
  forallb (fun i => match PositiveMap.find (n_loop nm i) (X.mod_tenv m) with Some (S.PBits 32, []) => true | _ => false end) (seq 0 nloop) &&
  nodup_pos (map (fun s => fst (n_sig nm s)) (seq 0 nsig) ++ map (n_tmp nm) (seq 0 ntmp) ++ map (n_loop nm) (seq 0 nloop)).

(* ------------------------------------------------------------------ acceptor of TranslateSound.tr_comb_block_sound
   plain designs: every signal is ONE scalar variable of the module (a Bits vector or a packed struct; no list of
   signals), every field (s, p) of it is the member chain below that variable at the offset of the declaration table,
   temporaries are declared scalars, all spellings are pairwise distinct. *)
Definition sid (nm : names) (s : nat) : ident := fst (n_sig nm s).
Definition tmp_decl (te : Z'.tenv) (nm : names) (i : nat) : option Z :=
  match PositiveMap.find (n_tmp nm i) te with Some (S.PBits w, []) => Some w | _ => None end.

Definition place_ok (te : Z'.tenv) (nm : names) (G : decls) (d : nat * list nat * finfo) : bool :=
  let '(s, p, f) := d in
  match snd (n_sig nm s), Z'.resolve te (PositiveMap.empty Z'.value) (tr_sig nm s p), lookup_sig G s [] with
  | [], Some (Z'.mkref x [] [] o ty), Some f0 =>
      Pos.eqb x (sid nm s) && (o =? flo f) && (S.pwidth ty =? fw f) && (0 <? fw f) && (fw f <? 1024) && (0 <=? flo f) &&
      (flo f0 =? 0) && (flo f + fw f <=? fw f0) &&
      match fstruct f with None => match ty with S.PBits w => w =? fw f | _ => false end | Some _ => true end
  | _, _, _ => false
  end.
Definition roots (G : decls) : list nat :=
  map (fun d => fst (fst d)) (filter (fun d => match snd (fst d) with [] => true | _ => false end) G).
Definition plain_ok (te : Z'.tenv) (nm : names) (G : decls) (ntmp : nat) : bool :=
  forallb (place_ok te nm G) G &&
  nodup_pos (map (sid nm) (roots G)) && nodup_pos (map (n_tmp nm) (seq 0 ntmp)) &&
  forallb (fun s => forallb (fun i => negb (Pos.eqb (sid nm s) (n_tmp nm i))) (seq 0 ntmp)) (roots G) &&
  forallb (fun i => match tmp_decl te nm i with Some w => (0 <? w) && (w <? 1024) | None => false end) (seq 0 ntmp).

(* which assignments a block of the given kind may contain: an always_comb block (ff = false) blocking ones only; an
   always_ff block (ff = true) non-blocking assignments to whole signals (what RTL/Eval.v models) and blocking
   assignments to temporaries *)
Definition assign_mode_ok (ff : bool) (l : lhs) (b : bool) : bool :=
  if ff then match l with LTmp _ => b | LSig _ [] => negb b | _ => false end else b.

Section CombOk.
Variable te : Z'.tenv.
Variable nm : names.
Variable ntmp : nat.
Variable ff : bool.

(* tmp = e : the declared width is the annotated one; the kind of value is statically known (a Bits value in an explicit
   temporary, an int built from literals / closure ints / loop variables in an int-typed one); a re-assignment keeps
   width and flags (the type checker's check S7, here required of the block) *)
Definition tmp_assign_ok (E : tenv) (i : nat) (e : expr) : bool :=
  Nat.ltb i ntmp &&
  match tc impl E e, tmp_decl te nm i with
  | Some r, Some w =>
      (aw (fst r) =? w) && ((aex (fst r) && negb (mayint E e)) || (defint e && aint (fst r))) &&
      match ttmp E i with
      | Some (w0, ex0, mi0, _) => (w0 =? aw (fst r)) && eqb ex0 (aex (fst r)) && eqb mi0 (aint (fst r))
      | None => true
      end
  | _, _ => false
  end.
Definition typed (E : tenv) (s : stmt) : bool := match tcs impl E s with Some _ => true | None => false end.

(* statements covered by the block theorems: assignments of the block's kind, if / elif / else; the block
   type-checks; no for loop (stays under TranslateSound.tr_block_sound_partial) *)
Fixpoint cstmt_ok (E : tenv) (s : stmt) {struct s} : bool :=
  match s with
  | SAssign _ l e b =>
      assign_mode_ok ff l b && assign_ok te nm E l e b && typed E s && match l with LTmp i => tmp_assign_ok E i e | _ => true end
  | SIf _ c t f =>
      sv_ok te nm E None c && typed E s &&
      (fix go (l : list stmt) (E : tenv) : bool :=
         match l with [] => true | x :: r => cstmt_ok E x && go r (env_after E x) end) t E &&
      (fix go (l : list stmt) (E : tenv) : bool :=
         match l with [] => true | x :: r => cstmt_ok E x && go r (env_after E x) end) f (env_after_list E t)
  | SFor _ _ _ _ _ => false
  end.
Fixpoint cstmts_ok (E : tenv) (l : list stmt) : bool :=
  match l with [] => true | x :: r => cstmt_ok E x && cstmts_ok (env_after E x) r end.
End CombOk.
Definition comb_ok (te : Z'.tenv) (nm : names) (ntmp : nat) (G : decls) (b : list stmt) : bool :=
  cstmts_ok te nm ntmp false (init_tenv G) b.
Definition ff_ok (te : Z'.tenv) (nm : names) (ntmp : nat) (G : decls) (b : list stmt) : bool :=
  cstmts_ok te nm ntmp true (init_tenv G) b.
