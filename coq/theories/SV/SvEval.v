(* SV/SvEval.v — execution of statements and of whole module hierarchies (our reading of IEEE 1800-2017
   §10.4 blocking / non-blocking assignment, §9.2.2 always_comb / always_ff, §23.3 instances).  Definitions only.

   exec te s st          one statement: a blocking assignment updates the environment at once; a non-blocking
                         assignment evaluates its right-hand side AND the indices of its target now, and is appended
                         to the pending list; the pending list is committed in order at the clock edge (so the
                         last write to a location wins)
   settle                continuous assigns, always_comb blocks and instances are run in textual order, over and
                         over, until a whole pass changes nothing (fuel bounded; `false` = no fixed point reached)
   posedge               every always_ff block of every instance runs against the settled pre-edge state,
                         then all pending writes are committed (one global clock: every clk port is assumed to be
                         the top-level clk, which is how pymtl3 wires it)
   run                   cycle loop: drive inputs; settle; compare every output port with the observed value;
                         posedge; settle                                                                         *)
From PV Require Import Base.Prelude Bits.BitsSpec SV.SvSyntax SV.SvSizing.
Open Scope Z_scope.

Definition pend := (ref * value)%type.
Record xstate : Type := mkx { x_env : env; x_pend : list pend; x_ok : bool }.

(* the value `lhs = rhs` / `lhs <= rhs` / `.port( rhs )` transfers: an unpacked array is copied as a whole,
   a packed target takes rhs evaluated in a context of max(L(lhs), L(rhs)) bits (truncated when stored) *)
Definition rhs_value (te : tenv) (en : env) (lhs_dims : list Z) (lw : Z) (rhs : expr) : value :=
  match lhs_dims with
  | _ :: _ => read_val en (resolve te en rhs)
  | [] => VZ (eval_ctx te en lw rhs)
  end.
Definition lhs_dims (te : tenv) (l : expr) : list Z := match type_of te l with Some (_, ds) => ds | None => [] end.
Definition assign_value (te : tenv) (en : env) (l r : expr) : value :=
  rhs_value te en (lhs_dims te l) (selfw te l) r.

Definition commit (p : list pend) (en : env) : env := fold_left (fun en rv => write_ref (fst rv) (snd rv) en) p en.

Definition loop_cond (te : tenv) (v : ident) (cmp : binop) (bound : expr) (st : xstate) : bool :=
  truthy (eval te (x_env st) 1 (EBin cmp (EId v) bound)).
Definition loop_incr (te : tenv) (v : ident) (inc : binop) (step : expr) (st : xstate) : xstate :=
  let en := x_env st in
  mkx (write_ref (ref_id te v) (VZ (eval_ctx te en (selfw te (EId v)) (EBin inc (EId v) step))) en) (x_pend st) (x_ok st).

Fixpoint exec (te : tenv) (s : stmt) (st : xstate) {struct s} : xstate :=
  match s with
  | SBlocking l r =>
      let en := x_env st in
      mkx (write_ref (resolve te en l) (assign_value te en l r) en) (x_pend st) (x_ok st)
  | SNonBlocking l r =>
      let en := x_env st in
      mkx en (x_pend st ++ [(resolve te en l, assign_value te en l r)]) (x_ok st)
  | SIf c t f =>
      if truthy (eval_self te (x_env st) c)
      then (fix run (l : list stmt) (st : xstate) : xstate :=
              match l with [] => st | x :: r => run r (exec te x st) end) t st
      else (fix run (l : list stmt) (st : xstate) : xstate :=
              match l with [] => st | x :: r => run r (exec te x st) end) f st
  | SFor v i cmp bound inc step body =>
      let en := x_env st in
      let st0 := mkx (write_ref (ref_id te v) (VZ (eval_ctx te en (selfw te (EId v)) i)) en) (x_pend st) (x_ok st) in
      let fuel := Z.to_nat (eval_self te en i + eval_self te en bound + 1) in
      (fix loop (n : nat) (st : xstate) : xstate :=
         match n with
         | O => if loop_cond te v cmp bound st then mkx (x_env st) (x_pend st) false else st
         | S n' =>
             if loop_cond te v cmp bound st
             then loop n' (loop_incr te v inc step
                    ((fix run (l : list stmt) (st : xstate) : xstate :=
                        match l with [] => st | x :: r => run r (exec te x st) end) body st))
             else st
         end) fuel st0
  end.
Definition exec_list (te : tenv) (l : list stmt) (st : xstate) : xstate := fold_left (fun st s => exec te s st) l st.

(* ---- module instances ---- *)
Inductive mstate : Type := MS (te : tenv) (en : env) (subs : list mstate).

Fixpoint init_value (ds : list Z) : value :=
  match ds with [] => VZ 0 | d :: r => VA (repeat (init_value r) (Z.to_nat d)) end.
Fixpoint init_eval (te : tenv) (en : env) (W : Z) (i : init) {struct i} : value :=
  match i with
  | IExpr e => VZ (tr W (eval_ctx te en W e))
  | IArr es => VA (map (init_eval te en W) es)
  end.

Definition add_decls (ds : list vdecl) (te : tenv) : tenv :=
  fold_left (fun te d => PM.add (d_id d) (d_ty d, d_dims d) te) ds te.
Definition mod_vars (m : module) : list vdecl := map snd (m_ports m) ++ m_decls m.
Definition mod_tenv (m : module) : tenv :=
  add_decls (map fst (m_params m)) (add_decls (mod_vars m) (PM.empty vtype)).

Definition empty_ms : mstate := MS (PM.empty vtype) (PM.empty value) [].

Fixpoint init_state (d : nat) (F : file) (m : module) {struct d} : mstate :=
  match d with
  | O => empty_ms
  | S d' =>
      let te := mod_tenv m in
      let en0 := fold_left (fun en dc => PM.add (d_id dc) (init_value (d_dims dc)) en) (mod_vars m) (PM.empty value) in
      let en1 := fold_left (fun en pi => PM.add (d_id (fst pi)) (init_eval te en (pwidth (d_ty (fst pi))) (snd pi)) en)
                           (m_params m) en0 in
      MS te en1
         (flat_map (fun it => match it with
                              | IInst mn _ _ => match find_module F mn with Some cm => [init_state d' F cm] | None => [empty_ms] end
                              | _ => []
                              end) (m_items m))
  end.

Fixpoint value_eqb (a b : value) {struct a} : bool :=
  match a, b with
  | VZ x, VZ y => x =? y
  | VA l, VA m =>
      (fix go (l m : list value) : bool :=
         match l, m with [], [] => true | x :: l', y :: m' => value_eqb x y && go l' m' | _, _ => false end) l m
  | _, _ => false
  end.
Fixpoint mstate_eqb (a b : mstate) {struct a} : bool :=
  match a, b with
  | MS _ e1 s1, MS _ e2 s2 =>
      PM.equal value_eqb e1 e2 &&
      (fix go (l m : list mstate) : bool :=
         match l, m with [] , [] => true | x :: l', y :: m' => mstate_eqb x y && go l' m' | _, _ => false end) s1 s2
  end.

(* parent -> child input ports *)
Definition conn_in (pte : tenv) (pen : env) (cm : module) (cte : tenv) (conns : list (ident * expr)) (cen : env) : env :=
  fold_left (fun cen c =>
    match port_dir cm (fst c) with
    | Some (DIn, dc) => write_ref (ref_id cte (fst c)) (rhs_value pte pen (d_dims dc) (pwidth (d_ty dc)) (snd c)) cen
    | _ => cen
    end) conns cen.
(* child output ports -> parent *)
Definition conn_out (pte : tenv) (cm : module) (cen : env) (conns : list (ident * expr)) (pen : env) : env :=
  fold_left (fun pen c =>
    match port_dir cm (fst c) with
    | Some (DOut, dc) => write_ref (resolve pte pen (snd c)) (lookup cen (fst c)) pen
    | _ => pen
    end) conns pen.

Definition ms_env (s : mstate) : env := match s with MS _ en _ => en end.
Definition ms_tenv (s : mstate) : tenv := match s with MS te _ _ => te end.

Fixpoint settle (d : nat) (fuel : nat) (F : file) (m : module) (st : mstate) {struct d} : mstate * bool :=
  match d with
  | O => (st, false)
  | S d' =>
      let pass := fun (st : mstate) =>
        match st with MS te en subs =>
          (fix go (its : list item) (en : env) (subs : list mstate) (acc : list mstate) (ok : bool) {struct its}
             : mstate * bool :=
             match its with
             | [] => (MS te en (rev acc ++ subs), ok)
             | IAssign l r :: rest => go rest (write_ref (resolve te en l) (assign_value te en l r) en) subs acc ok
             | IComb _ b :: rest =>
                 let x := exec_list te b (mkx en [] true) in
                 go rest (x_env x) subs acc (ok && x_ok x && match x_pend x with [] => true | _ => false end)
             | IFF _ _ :: rest => go rest en subs acc ok
             | IInst mn _ conns :: rest =>
                 match subs, find_module F mn with
                 | MS cte cen csubs :: subs', Some cm =>
                     let cen1 := conn_in te en cm cte conns cen in
                     let r := settle d' fuel F cm (MS cte cen1 csubs) in
                     go rest (conn_out te cm (ms_env (fst r)) conns en) subs' (fst r :: acc) (ok && snd r)
                 | _, _ => go rest en subs acc false
                 end
             end) (m_items m) en subs [] true
        end in
      (fix iter (n : nat) (st : mstate) : mstate * bool :=
         match n with
         | O => (st, false)
         | S n' =>
             let r := pass st in
             if negb (snd r) then r
             else if mstate_eqb st (fst r) then r else iter n' (fst r)
         end) fuel st
  end.

Fixpoint posedge (d : nat) (F : file) (m : module) (st : mstate) {struct d} : mstate * bool :=
  match d with
  | O => (st, false)
  | S d' =>
      match st with MS te en subs =>
        let x := fold_left (fun x it => match it with IFF _ b => exec_list te b x | _ => x end) (m_items m) (mkx en [] true) in
        let en' := commit (x_pend x) (x_env x) in
        let r := (fix go (its : list item) (subs : list mstate) {struct its} : list mstate * bool :=
                    match its with
                    | [] => (subs, true)
                    | IInst mn _ _ :: rest =>
                        match subs, find_module F mn with
                        | c :: subs', Some cm =>
                            let r1 := posedge d' F cm c in
                            let r2 := go rest subs' in
                            (fst r1 :: fst r2, snd r1 && snd r2)
                        | _, _ => (subs, false)
                        end
                    | _ :: rest => go rest subs
                    end) (m_items m) subs in
        (MS te en' (fst r), x_ok x && snd r)
      end
  end.

(* ---- the cycle loop and the comparison with the observed trace ---- *)
Definition set_inputs (ins : list (ident * value)) (st : mstate) : mstate :=
  match st with MS te en subs =>
    MS te (fold_left (fun en iv => write_ref (ref_id te (fst iv)) (snd iv) en) ins en) subs
  end.

Inductive outcome : Type :=
| Agree
| Mismatch (cycle : nat) (port : ident) (model : value)     (* first cycle / port on which the model disagrees *)
| NoFixpoint (cycle : nat) (phase : nat).                    (* settle / posedge did not complete (fuel, missing module) *)

Definition first_bad (st : mstate) (outs : list (ident * value)) : option (ident * value) :=
  match find (fun ov => negb (value_eqb (lookup (ms_env st) (fst ov)) (snd ov))) outs with
  | Some ov => Some (fst ov, lookup (ms_env st) (fst ov))
  | None => None
  end.

Definition cyc := (list (ident * value) * list (ident * value))%type.   (* inputs driven, outputs observed *)

Fixpoint run (d fuel : nat) (F : file) (m : module) (st : mstate) (trace : list cyc) (k : nat) {struct trace} : outcome :=
  match trace with
  | [] => Agree
  | (ins, outs) :: rest =>
      let r1 := settle d fuel F m (set_inputs ins st) in
      if negb (snd r1) then NoFixpoint k 0 else
      match first_bad (fst r1) outs with
      | Some (p, v) => Mismatch k p v
      | None =>
          let r2 := posedge d F m (fst r1) in
          if negb (snd r2) then NoFixpoint k 1 else
          let r3 := settle d fuel F m (fst r2) in
          if negb (snd r3) then NoFixpoint k 2 else
          run d fuel F m (fst r3) rest (S k)
      end
  end.

Definition depth_fuel : nat := 12.
Definition item_count (F : file) : nat := fold_left (fun n m => (n + length (m_items m))%nat) (f_modules F) 0%nat.
Definition simulate (F : file) (top : ident) (trace : list cyc) : outcome :=
  match find_module F top with
  | Some m => run depth_fuel (8 + 2 * item_count F) F m (init_state depth_fuel F m) trace 0
  | None => NoFixpoint 0 9
  end.
Definition agrees (o : outcome) : bool := match o with Agree => true | _ => false end.

(* ---- static well-formedness: every identifier is declared, every select chain is well typed, every instance
        refers to a module of the file and to ports of that module ---- *)
(* a CONSTANT index must lie inside the declared range of what it indexes (unpacked dimension, packed array, vector):
   an out-of-range constant index is legal text for a simulator (read X / write dropped) but never what pymtl3 meant *)
Definition lit_val (e : expr) : option Z :=
  match e with ELit w v => Some (v mod 2 ^ w) | ENum v => Some v | _ => None end.
Definition const_idx_in_range (te : tenv) (a i : expr) : bool :=
  match lit_val i, type_of te a with
  | Some v, Some (_, d :: _) => inb v d
  | Some v, Some (PArr n _, []) => inb v n
  | Some v, Some (t, []) => inb v (pwidth t)
  | _, _ => true
  end.

Fixpoint expr_ok (te : tenv) (e : expr) {struct e} : bool :=
  match e with
  | ELit w _ => 0 <? w
  | ENum _ => true
  | EId x => match PM.find x te with Some _ => true | None => false end
  | EMember a _ => expr_ok te a && match type_of te e with Some _ => true | None => false end
  | EIndex a i => expr_ok te a && expr_ok te i && match type_of te e with Some _ => true | None => false end &&
                  const_idx_in_range te a i
  | ERange a hi lo => expr_ok te a && (0 <=? lo) && (lo <=? hi) && match type_of te a with Some (t, []) => hi <? pwidth t | _ => false end
  | EPlusRange a b w => expr_ok te a && expr_ok te b && (0 <? w) && match type_of te a with Some (_, []) => true | _ => false end
  | EConcat es => (fix all (l : list expr) : bool := match l with [] => true | x :: r => expr_ok te x && all r end) es
  | ERepl n a => (0 <? n) && expr_ok te a
  | EUn _ a => expr_ok te a
  | EBin _ a b => expr_ok te a && expr_ok te b
  | ECond c a b => expr_ok te c && expr_ok te a && expr_ok te b
  | ECast w a => (0 <? w) && expr_ok te a
  end.
Definition lvalue_ok (te : tenv) (l : expr) : bool :=
  expr_ok te l && match type_of te l with Some _ => true | None => false end.
Fixpoint stmt_ok (te : tenv) (s : stmt) {struct s} : bool :=
  match s with
  | SBlocking l r | SNonBlocking l r => lvalue_ok te l && expr_ok te r
  | SIf c t f =>
      expr_ok te c &&
      (fix all (l : list stmt) : bool := match l with [] => true | x :: r => stmt_ok te x && all r end) t &&
      (fix all (l : list stmt) : bool := match l with [] => true | x :: r => stmt_ok te x && all r end) f
  | SFor v i _ b _ st body =>
      expr_ok te (EId v) && expr_ok te i && expr_ok te b && expr_ok te st &&
      (fix all (l : list stmt) : bool := match l with [] => true | x :: r => stmt_ok te x && all r end) body
  end.
Definition item_ok (F : file) (te : tenv) (it : item) : bool :=
  match it with
  | IAssign l r => lvalue_ok te l && expr_ok te r
  | IComb _ b | IFF _ b => forallb (stmt_ok te) b
  | IInst mn _ conns =>
      match find_module F mn with
      | Some cm =>
          forallb (fun c => match port_dir cm (fst c) with Some _ => expr_ok te (snd c) | None => false end) conns &&
          forallb (fun dp => existsb (fun c => Pos.eqb (fst c) (d_id (snd dp))) conns) (m_ports cm)
      | None => false
      end
  end.
Fixpoint nodup_ids (l : list ident) : bool :=
  match l with [] => true | x :: r => negb (existsb (Pos.eqb x) r) && nodup_ids r end.
Definition sv_wellformed_mod (F : file) (m : module) : bool :=
  let te := mod_tenv m in
  nodup_ids (map d_id (mod_vars m) ++ map (fun p => d_id (fst p)) (m_params m)) &&
  forallb (fun d => 0 <? pwidth (d_ty d)) (mod_vars m) &&
  forallb (item_ok F te) (m_items m).
Definition sv_wellformed (F : file) : bool :=
  nodup_ids (map m_name (f_modules F)) && forallb (sv_wellformed_mod F) (f_modules F).

(* ---- where SvProofs.sv_selfdet_eq_ctx applies: every assignment of the text has a right-hand side whose
        context-sensitive operators all see operands of one width, equal to the width of the target
        (loop headers are exempt: a 32-bit counter compared with a narrow literal only zero-extends) ---- *)
Definition assign_uniform (te : tenv) (l r : expr) : bool :=
  match lhs_dims te l with
  | _ :: _ => true
  | [] => uniform te l && uniform te r && (selfw te l =? selfw te r)
  end.
Fixpoint stmt_uniform (te : tenv) (s : stmt) {struct s} : bool :=
  match s with
  | SBlocking l r | SNonBlocking l r => assign_uniform te l r
  | SIf c t f =>
      uniform te c &&
      (fix all (l : list stmt) : bool := match l with [] => true | x :: r => stmt_uniform te x && all r end) t &&
      (fix all (l : list stmt) : bool := match l with [] => true | x :: r => stmt_uniform te x && all r end) f
  | SFor _ _ _ _ _ _ body =>
      (fix all (l : list stmt) : bool := match l with [] => true | x :: r => stmt_uniform te x && all r end) body
  end.
Definition item_uniform (te : tenv) (it : item) : bool :=
  match it with
  | IAssign l r => assign_uniform te l r
  | IComb _ b | IFF _ b => forallb (stmt_uniform te) b
  | IInst _ _ _ => true
  end.
Definition sv_uniform (F : file) : bool :=
  forallb (fun m => forallb (item_uniform (mod_tenv m)) (m_items m)) (f_modules F).

Fixpoint stmt_lits_fit (s : stmt) {struct s} : bool :=
  match s with
  | SBlocking l r | SNonBlocking l r => lits_fit l && lits_fit r
  | SIf c t f =>
      lits_fit c &&
      (fix all (l : list stmt) : bool := match l with [] => true | x :: r => stmt_lits_fit x && all r end) t &&
      (fix all (l : list stmt) : bool := match l with [] => true | x :: r => stmt_lits_fit x && all r end) f
  | SFor _ i _ b _ st body =>
      lits_fit i && lits_fit b && lits_fit st &&
      (fix all (l : list stmt) : bool := match l with [] => true | x :: r => stmt_lits_fit x && all r end) body
  end.
Definition sv_lits_fit (F : file) : bool :=
  forallb (fun m => forallb (fun it => match it with
                                       | IAssign l r => lits_fit l && lits_fit r
                                       | IComb _ b | IFF _ b => forallb stmt_lits_fit b
                                       | IInst _ _ cs => forallb (fun c => lits_fit (snd c)) cs
                                       end) (m_items m)) (f_modules F).
