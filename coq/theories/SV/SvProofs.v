(* SV/SvProofs.v — theorems about the SystemVerilog semantics model (SvSizing / SvEval / SvDrivers).  No axioms.

   (a) sv_selfdet_eq_ctx        equal operand widths + context of that width  =>  context-determined = width-strict evaluation
   (b) sv_eval_range            every evaluation result lies in [0, 2^W)
   (c) nonblocking_defers / blocking_immediate / nb_only_env / nonblocking_last_wins
   (d) sv_single_driver_sound   the acceptor implies: every declared variable bit has exactly one driver            *)
From Coq Require Import FMapPositive.
From PV Require Import Base.Prelude Bits.BitsSpec Bits.BitsLemmas SV.SvSyntax SV.SvSizing SV.SvEval SV.SvDrivers.
Open Scope Z_scope.

(* ------------------------------------------------------------------ induction over expressions and statements *)
Section ExprInd.
  Variable P : expr -> Prop.
  Hypothesis HLit : forall w v, P (ELit w v).
  Hypothesis HNum : forall v, P (ENum v).
  Hypothesis HId : forall x, P (EId x).
  Hypothesis HMember : forall a f, P a -> P (EMember a f).
  Hypothesis HIndex : forall a i, P a -> P i -> P (EIndex a i).
  Hypothesis HRange : forall a hi lo, P a -> P (ERange a hi lo).
  Hypothesis HPlus : forall a b w, P a -> P b -> P (EPlusRange a b w).
  Hypothesis HConcat : forall es, Forall P es -> P (EConcat es).
  Hypothesis HRepl : forall n a, P a -> P (ERepl n a).
  Hypothesis HUn : forall o a, P a -> P (EUn o a).
  Hypothesis HBin : forall o a b, P a -> P b -> P (EBin o a b).
  Hypothesis HCond : forall c a b, P c -> P a -> P b -> P (ECond c a b).
  Hypothesis HCast : forall w a, P a -> P (ECast w a).
  Fixpoint expr_ind' (e : expr) : P e :=
    match e with
    | ELit w v => HLit w v
    | ENum v => HNum v
    | EId x => HId x
    | EMember a f => HMember a f (expr_ind' a)
    | EIndex a i => HIndex a i (expr_ind' a) (expr_ind' i)
    | ERange a hi lo => HRange a hi lo (expr_ind' a)
    | EPlusRange a b w => HPlus a b w (expr_ind' a) (expr_ind' b)
    | EConcat es =>
        HConcat es ((fix go (l : list expr) : Forall P l :=
                       match l with [] => Forall_nil P | x :: r => Forall_cons x (expr_ind' x) (go r) end) es)
    | ERepl n a => HRepl n a (expr_ind' a)
    | EUn o a => HUn o a (expr_ind' a)
    | EBin o a b => HBin o a b (expr_ind' a) (expr_ind' b)
    | ECond c a b => HCond c a b (expr_ind' c) (expr_ind' a) (expr_ind' b)
    | ECast w a => HCast w a (expr_ind' a)
    end.
End ExprInd.

Section StmtInd.
  Variable P : stmt -> Prop.
  Hypothesis HB : forall l r, P (SBlocking l r).
  Hypothesis HN : forall l r, P (SNonBlocking l r).
  Hypothesis HI : forall c t f, Forall P t -> Forall P f -> P (SIf c t f).
  Hypothesis HF : forall v i c b n s body, Forall P body -> P (SFor v i c b n s body).
  Fixpoint stmt_ind' (s : stmt) : P s :=
    match s with
    | SBlocking l r => HB l r
    | SNonBlocking l r => HN l r
    | SIf c t f =>
        HI c t f
          ((fix go (l : list stmt) : Forall P l := match l with [] => Forall_nil P | x :: r => Forall_cons x (stmt_ind' x) (go r) end) t)
          ((fix go (l : list stmt) : Forall P l := match l with [] => Forall_nil P | x :: r => Forall_cons x (stmt_ind' x) (go r) end) f)
    | SFor v i c b n s body =>
        HF v i c b n s body
          ((fix go (l : list stmt) : Forall P l := match l with [] => Forall_nil P | x :: r => Forall_cons x (stmt_ind' x) (go r) end) body)
    end.
End StmtInd.

(* ------------------------------------------------------------------ (b) results are W-bit numbers *)
Lemma tr_range W x : 0 <= W -> 0 <= tr W x < 2 ^ W.
Proof. intros H. unfold tr. apply Z.mod_pos_bound. apply Z.pow_pos_nonneg; lia. Qed.

Lemma tr_small W x : 0 <= x < 2 ^ W -> tr W x = x.
Proof. intros H. unfold tr. apply Z.mod_small; exact H. Qed.

Theorem sv_eval_range te en e : forall W, 0 <= W -> 0 <= eval te en W e < 2 ^ W.
Proof.
  induction e using expr_ind'; intros W HW; cbn [eval]; try (apply tr_range; exact HW).
  - (* EIndex *) destruct e1; apply tr_range; exact HW.
  - (* EUn *) destruct (is_un_ctx o); apply tr_range; exact HW.
  - (* EBin *) destruct (is_arith o); [apply tr_range; exact HW|].
    destruct (is_shift o); [apply tr_range; exact HW|].
    destruct (is_cmp o); apply tr_range; exact HW.
  - (* ECond *) destruct (truthy _); [apply IHe2|apply IHe3]; exact HW.
Qed.

Corollary sv_eval_ctx_range te en w e : 0 <= w -> 0 <= eval_ctx te en w e < 2 ^ (Z.max w (selfw te e)).
Proof. intros H. unfold eval_ctx. apply sv_eval_range. lia. Qed.

(* ------------------------------------------------------------------ (a) context-determined = self-determined *)
Definition tenv_ok (te : tenv) : Prop := forall x t ds, PM.find x te = Some (t, ds) -> 0 <= pwidth t.

Lemma read_id_range te en x : tenv_ok te ->
  0 <= read_bits en (ref_id te x) < 2 ^ (selfw te (EId x)).
Proof.
  intros Hok. unfold ref_id. cbn [selfw type_of].
  destruct (PM.find x te) as [[t ds]|] eqn:E; cbn [read_bits]; [|cbn; lia].
  cbn [r_dims r_var r_idx r_lo r_ty]. destruct ds as [|d ds].
  - destruct (vget (lookup en x) []); [|split; [lia|apply Z.pow_pos_nonneg; [lia|eapply Hok; exact E]]].
    apply Z.mod_pos_bound. apply Z.pow_pos_nonneg; [lia|eapply Hok; exact E].
  - cbn. lia.
Qed.

Lemma cat_ext te (f g : expr -> Z) es :
  Forall (fun x => f x = g x) es ->
  (fix cat (l : list expr) : Z := match l with [] => 0 | x :: r => f x * 2 ^ (sumw te r) + cat r end) es =
  (fix cat (l : list expr) : Z := match l with [] => 0 | x :: r => g x * 2 ^ (sumw te r) + cat r end) es.
Proof. induction 1 as [|x r Hx _ IH]; [reflexivity|]. rewrite Hx, IH. reflexivity. Qed.

Lemma uniform_concat te es :
  (fix all (l : list expr) : bool := match l with [] => true | x :: r => uniform te x && all r end) es = true ->
  Forall (fun x => uniform te x = true) es.
Proof.
  induction es as [|x r IH]; intros H; [constructor|].
  apply andb_prop in H as [H1 H2]. constructor; [exact H1|apply IH; exact H2].
Qed.

Theorem sv_selfdet_eq_ctx_gen te en : tenv_ok te -> forall e, uniform te e = true ->
  eval te en (selfw te e) e = eval_sd te en e /\ resolve te en e = resolve_sd te en e.
Proof.
  intros Hok. induction e using expr_ind'; intros Hu; cbn [uniform] in Hu.
  - split; reflexivity.
  - split; reflexivity.
  - split; reflexivity.
  - (* EMember *) destruct (IHe Hu) as [_ R]. split; cbn [eval eval_sd resolve resolve_sd]; rewrite R; reflexivity.
  - (* EIndex *) apply andb_prop in Hu as [Ha Hi]. destruct (IHe1 Ha) as [Ea Ra]. destruct (IHe2 Hi) as [Ei _].
    split.
    + cbn [eval eval_sd]. rewrite Ei. destruct e1; try (rewrite Ra; reflexivity). rewrite Ea. reflexivity.
    + cbn [resolve resolve_sd]. rewrite Ei, Ra. reflexivity.
  - (* ERange *) destruct (IHe Hu) as [_ R]. split; cbn [eval eval_sd resolve resolve_sd]; rewrite R; reflexivity.
  - (* EPlusRange *) apply andb_prop in Hu as [Ha Hb]. destruct (IHe1 Ha) as [_ Ra]. destruct (IHe2 Hb) as [Eb _].
    split; cbn [eval eval_sd resolve resolve_sd]; rewrite Ra, Eb; reflexivity.
  - (* EConcat *) split; [|reflexivity]. cbn [eval eval_sd]. f_equal.
    apply cat_ext. apply uniform_concat in Hu.
    induction H as [|x r Hx _ IH]; [constructor|]. inversion Hu; subst. constructor; [apply Hx; assumption|apply IH; assumption].
  - (* ERepl *) destruct (IHe Hu) as [E _]. split; [|reflexivity]. cbn [eval eval_sd]. rewrite E. reflexivity.
  - (* EUn *) destruct (IHe Hu) as [E _]. split; [|reflexivity]. cbn [eval eval_sd].
    destruct (is_un_ctx o) eqn:Ho.
    + assert (selfw te (EUn o e) = selfw te e) as W by (destruct o; cbn in Ho; try discriminate; reflexivity).
      rewrite W, E. reflexivity.
    + rewrite E. reflexivity.
  - (* EBin *) apply andb_prop in Hu as [Hu Hw]. apply andb_prop in Hu as [Ha Hb].
    destruct (IHe1 Ha) as [Ea _]. destruct (IHe2 Hb) as [Eb _]. split; [|reflexivity].
    cbn [eval eval_sd selfw]. destruct (is_arith o) eqn:Hao.
    + cbn [orb] in Hw. apply Z.eqb_eq in Hw. rewrite <- Hw, Z.max_id, Ea. rewrite Hw, Eb. reflexivity.
    + destruct (is_shift o) eqn:Hso.
      * rewrite Ea, Eb. reflexivity.
      * destruct (is_cmp o) eqn:Hco.
        -- cbn [orb] in Hw. apply Z.eqb_eq in Hw. rewrite <- Hw, Z.max_id, Ea. rewrite Hw, Eb. reflexivity.
        -- rewrite Ea, Eb. reflexivity.
  - (* ECond *) apply andb_prop in Hu as [Hu Hw]. apply andb_prop in Hu as [Hu Hb]. apply andb_prop in Hu as [Hc Ha].
    destruct (IHe1 Hc) as [Ec _]. destruct (IHe2 Ha) as [Ea _]. destruct (IHe3 Hb) as [Eb _]. split; [|reflexivity].
    apply Z.eqb_eq in Hw. cbn [eval eval_sd selfw]. rewrite Ec. rewrite <- Hw, Z.max_id, Ea. rewrite Hw, Eb. reflexivity.
  - (* ECast *) apply andb_prop in Hu as [Ha Hw]. destruct (IHe Ha) as [E _]. split; [|reflexivity].
    cbn [eval eval_sd selfw]. apply orb_prop in Hw as [Hw|Hid].
    + apply Z.leb_le in Hw. rewrite Z.max_r by exact Hw. rewrite E. reflexivity.
    + destruct e; try discriminate. do 2 f_equal. cbn [eval eval_sd].
      pose proof (read_id_range te en x Hok) as R.
      rewrite !tr_small; [reflexivity|exact R|].
      split; [lia|]. eapply Z.lt_le_trans; [apply R|]. apply Z.pow_le_mono_r; lia.
Qed.

(* the statement asked for: an expression all of whose context-sensitive operators see operands of one width w,
   sitting in a context of that same width w *)
Theorem sv_selfdet_eq_ctx te en e w : tenv_ok te -> uniform te e = true -> selfw te e = w ->
  eval_ctx te en w e = eval_sd te en e.
Proof.
  intros Hok Hu Hw. unfold eval_ctx. rewrite Hw, Z.max_id, <- Hw. apply (sv_selfdet_eq_ctx_gen te en Hok e Hu).
Qed.

(* an assignment whose target is as wide as its (uniform) right-hand side stores the width-strict value *)
Corollary sv_assign_selfdet te en l r : tenv_ok te -> assign_uniform te l r = true -> lhs_dims te l = [] ->
  assign_value te en l r = VZ (eval_sd te en r).
Proof.
  intros Hok Hu Hd. unfold assign_uniform in Hu. rewrite Hd in Hu.
  apply andb_prop in Hu as [Hu Hw]. apply andb_prop in Hu as [_ Hr]. apply Z.eqb_eq in Hw.
  unfold assign_value, rhs_value. rewrite Hd. f_equal. apply sv_selfdet_eq_ctx; [exact Hok|exact Hr|symmetry; exact Hw].
Qed.

(* ------------------------------------------------------------------ (c) blocking / non-blocking *)
Lemma exec_list_fold te l : forall st,
  (fix run (l : list stmt) (st : xstate) : xstate := match l with [] => st | x :: r => run r (exec te x st) end) l st =
  exec_list te l st.
Proof. induction l as [|x r IH]; intros st; [reflexivity|]. cbn [exec_list fold_left]. apply IH. Qed.

Theorem nonblocking_defers te l r st :
  x_env (exec te (SNonBlocking l r) st) = x_env st /\
  x_pend (exec te (SNonBlocking l r) st) =
    x_pend st ++ [(resolve te (x_env st) l, assign_value te (x_env st) l r)].
Proof. split; reflexivity. Qed.

Theorem blocking_immediate te l r st :
  x_pend (exec te (SBlocking l r) st) = x_pend st /\
  x_env (exec te (SBlocking l r) st) =
    write_ref (resolve te (x_env st) l) (assign_value te (x_env st) l r) (x_env st).
Proof. split; reflexivity. Qed.

(* statements built from non-blocking assignments and conditionals only: what pymtl3 emits for an update_ff block
   without temporaries and loops *)
Fixpoint nb_only (s : stmt) {struct s} : bool :=
  match s with
  | SNonBlocking _ _ => true
  | SIf _ t f =>
      (fix all (l : list stmt) : bool := match l with [] => true | x :: r => nb_only x && all r end) t &&
      (fix all (l : list stmt) : bool := match l with [] => true | x :: r => nb_only x && all r end) f
  | _ => false
  end.
Lemma nb_all_forall l :
  (fix all (l : list stmt) : bool := match l with [] => true | x :: r => nb_only x && all r end) l = true ->
  Forall (fun x => nb_only x = true) l.
Proof.
  induction l as [|x r IH]; intros H; [constructor|]. apply andb_prop in H as [H1 H2].
  constructor; [exact H1|apply IH; exact H2].
Qed.

Lemma nb_list_env te l : Forall (fun s => nb_only s = true -> forall st, x_env (exec te s st) = x_env st) l ->
  Forall (fun x => nb_only x = true) l -> forall st, x_env (exec_list te l st) = x_env st.
Proof.
  induction 1 as [|x r Hx _ IH]; intros Hn st; [reflexivity|]. inversion Hn; subst.
  cbn [exec_list fold_left]. change (fold_left (fun st s => exec te s st) r (exec te x st)) with (exec_list te r (exec te x st)).
  rewrite IH by assumption. apply Hx. assumption.
Qed.

(* every right-hand side and every condition of such a block reads the PRE-EDGE environment: the block never changes it *)
Theorem nb_only_env te s : nb_only s = true -> forall st, x_env (exec te s st) = x_env st.
Proof.
  induction s using stmt_ind'; intros Hn st; cbn [nb_only] in Hn; try discriminate.
  - reflexivity.
  - apply andb_prop in Hn as [Ht Hf]. cbn [exec]. rewrite !exec_list_fold.
    destruct (truthy _); apply nb_list_env; try assumption; apply nb_all_forall; assumption.
Qed.
Corollary nb_block_env te l : Forall (fun x => nb_only x = true) l -> forall st, x_env (exec_list te l st) = x_env st.
Proof.
  intros H st. apply nb_list_env; [|exact H].
  clear H. induction l as [|x r IH]; constructor; [intros Hx st'; apply nb_only_env; exact Hx|exact IH].
Qed.

Lemma commit_app p q en : commit (p ++ q) en = commit q (commit p en).
Proof. unfold commit. apply fold_left_app. Qed.

(* whole scalar variable x of width w *)
Definition scalar_ref (x : ident) (w : Z) : ref := Some (mkref x [] [] 0 (PBits w)).

Lemma read_write_scalar x w v u en : 0 <= w -> PM.find x en = Some (VZ u) ->
  read_bits (write_ref (scalar_ref x w) (VZ v) en) (scalar_ref x w) = v mod 2 ^ w.
Proof.
  intros Hw Hf. unfold scalar_ref, write_ref. cbn [r_var r_idx]. rewrite Hf. cbn [vset].
  unfold read_bits. cbn [r_dims r_var r_idx r_lo r_ty]. unfold lookup. rewrite PM.gss. cbn [vget].
  unfold store. cbn [r_dims r_lo r_ty pwidth]. rewrite Z.pow_0_r, Z.div_1_r, Z.add_0_l.
  pose proof (Z.mod_pos_bound v (2 ^ w) ltac:(apply Z.pow_pos_nonneg; lia)) as Hr.
  apply Z.bits_inj'. intros i Hi.
  destruct (Z.ltb_spec i w) as [Hlt|Hge].
  - rewrite !Z.mod_pow2_bits_low by lia. rewrite splice_testbit; [|lia|lia|rewrite Z.sub_0_r; exact Hr].
    replace ((0 <=? i) && (i <? w)) with true by lia. rewrite Z.sub_0_r.
    rewrite Z.mod_pow2_bits_low by lia. reflexivity.
  - rewrite !Z.mod_pow2_bits_high by lia. reflexivity.
Qed.

(* two non-blocking writes to the same variable in one block: the later one is what the register holds after the edge *)
Theorem nonblocking_last_wins x w v u p en : 0 <= w ->
  PM.find x (commit p en) = Some (VZ u) ->
  read_bits (commit (p ++ [(scalar_ref x w, VZ v)]) en) (scalar_ref x w) = v mod 2 ^ w.
Proof.
  intros Hw Hf. rewrite commit_app. cbn [commit fold_left fst snd]. apply read_write_scalar with (u := u); assumption.
Qed.

(* ------------------------------------------------------------------ (d) the single-driver acceptor *)
Lemma in_ivl_overlap x b a c : in_ivl x b a = true -> in_ivl x b c = true -> ivl_overlap a c = true.
Proof. unfold in_ivl, ivl_overlap. intros H1 H2. lia. Qed.

Lemma drives_disjoint d1 d2 x b : fp_disjoint (snd d1) (snd d2) = true ->
  drives d1 x b = true -> drives d2 x b = true -> False.
Proof.
  unfold fp_disjoint, drives. intros Hd H1 H2.
  apply existsb_exists in H1 as (a & Ha & Hia). apply existsb_exists in H2 as (c & Hc & Hic).
  rewrite forallb_forall in Hd. specialize (Hd a Ha). rewrite forallb_forall in Hd. specialize (Hd c Hc).
  rewrite (in_ivl_overlap x b a c Hia Hic) in Hd. discriminate.
Qed.

Lemma fp_disjoint_sym f g : fp_disjoint f g = true -> fp_disjoint g f = true.
Proof.
  unfold fp_disjoint. rewrite !forallb_forall. intros H c Hc. rewrite forallb_forall. intros a Ha.
  specialize (H a Ha). rewrite forallb_forall in H. specialize (H c Hc).
  unfold ivl_overlap in *. lia.
Qed.

Lemma pairwise_nth ds : pairwise_disjoint ds = true -> forall i j di dj, (i < j)%nat ->
  nth_error ds i = Some di -> nth_error ds j = Some dj -> fp_disjoint (snd di) (snd dj) = true.
Proof.
  induction ds as [|d r IH]; intros Hp i j di dj Hij Hi Hj; [destruct i; discriminate|].
  cbn [pairwise_disjoint] in Hp. apply andb_prop in Hp as [Hh Ht].
  destruct j as [|j]; [lia|]. cbn [nth_error] in Hj. destruct i as [|i].
  - cbn [nth_error] in Hi. inversion Hi; subst. rewrite forallb_forall in Hh. apply Hh. eapply nth_error_In; exact Hj.
  - cbn [nth_error] in Hi. apply (IH Ht i j di dj); [lia|exact Hi|exact Hj].
Qed.

Theorem no_multi_driver_sound ds : pairwise_disjoint ds = true -> forall x b k1 k2 d1 d2,
  nth_error ds k1 = Some d1 -> nth_error ds k2 = Some d2 -> drives d1 x b = true -> drives d2 x b = true -> k1 = k2.
Proof.
  intros Hp x b k1 k2 d1 d2 H1 H2 D1 D2.
  destruct (Nat.lt_trichotomy k1 k2) as [L|[E|L]]; [|exact E|]; exfalso.
  - exact (drives_disjoint d1 d2 x b (pairwise_nth ds Hp k1 k2 d1 d2 L H1 H2) D1 D2).
  - exact (drives_disjoint d2 d1 x b (pairwise_nth ds Hp k2 k1 d2 d1 L H2 H1) D2 D1).
Qed.

Lemma covered_step ds x b total : forallb (covered ds x) (cand_points ds x total) = true ->
  0 < b < total -> covered ds x (b - 1) = true -> covered ds x b = true.
Proof.
  intros Hall Hb Hc. unfold covered in Hc. apply existsb_exists in Hc as (d & Hd & Hdr).
  unfold drives in Hdr. apply existsb_exists in Hdr as (i & Hi & Hin).
  destruct (Z.ltb_spec b (iv_hi i)) as [Hlt|Hge].
  - unfold covered. apply existsb_exists. exists d. split; [exact Hd|]. unfold drives. apply existsb_exists.
    exists i. split; [exact Hi|]. unfold in_ivl in *. lia.
  - assert (iv_hi i = b) as E by (unfold in_ivl in Hin; lia).
    rewrite forallb_forall in Hall. apply Hall. unfold cand_points. right. apply in_map_iff. exists i. split; [exact E|].
    apply filter_In. split.
    + unfold all_ivls. apply in_flat_map. exists d. split; assumption.
    + unfold in_ivl in Hin. lia.
Qed.

Theorem var_driven_sound ds dc : var_driven ds dc = true -> forall b,
  0 <= b < vbits (d_ty dc, d_dims dc) -> covered ds (d_id dc) b = true.
Proof.
  unfold var_driven. intros H b Hb. apply orb_prop in H as [H|H]; [lia|].
  destruct Hb as [Hb0 Hbt]. revert Hbt. pattern b. apply natlike_ind; [| |exact Hb0].
  - intros _. rewrite forallb_forall in H. apply H. left. reflexivity.
  - intros z Hz IH Hlt. apply (covered_step ds (d_id dc) (Z.succ z) _ H); [lia|].
    replace (Z.succ z - 1) with z by lia. apply IH. lia.
Qed.

(* every bit of every declared variable (ports, wires, temporaries, loop counters) is driven by exactly one driver of
   the list `drivers F m` = input ports ++ one entry per assign / always block / instance output port *)
Theorem sv_single_driver_sound F m : sv_single_driver F m = true ->
  forall dc, In dc (mod_vars m) -> forall b, 0 <= b < vbits (d_ty dc, d_dims dc) ->
  exists k d, nth_error (drivers F m) k = Some d /\ drives d (d_id dc) b = true /\
    forall k' d', nth_error (drivers F m) k' = Some d' -> drives d' (d_id dc) b = true -> k' = k.
Proof.
  unfold sv_single_driver, sv_no_multi_driver, sv_all_driven. intros H dc Hin b Hb.
  apply andb_prop in H as [Hp Ha]. rewrite forallb_forall in Ha.
  pose proof (var_driven_sound _ dc (Ha dc Hin) b Hb) as Hc.
  unfold covered in Hc. apply existsb_exists in Hc as (d & Hd & Hdr).
  apply In_nth_error in Hd as [k Hk]. exists k, d. split; [exact Hk|]. split; [exact Hdr|].
  intros k' d' Hk' Hdr'. exact (no_multi_driver_sound _ Hp (d_id dc) b k' k d' d Hk' Hk Hdr' Hdr).
Qed.

(* the converse direction of the coverage test, so that a `false` answer points at a real gap or a real collision *)
Theorem multi_driver_witness ds : pairwise_disjoint ds = false ->
  exists k1 k2 d1 d2 a c, (k1 < k2)%nat /\ nth_error ds k1 = Some d1 /\ nth_error ds k2 = Some d2 /\
    In a (snd d1) /\ In c (snd d2) /\ ivl_overlap a c = true.
Proof.
  induction ds as [|d r IH]; intros H; [discriminate|]. cbn [pairwise_disjoint] in H.
  apply andb_false_iff in H as [H|H].
  - assert (exists d', In d' r /\ fp_disjoint (snd d) (snd d') = false) as (d' & Hd' & Hf).
    { clear IH. induction r as [|y r IHr]; [discriminate|]. cbn [forallb] in H. apply andb_false_iff in H as [H|H].
      - exists y. split; [left; reflexivity|exact H].
      - destruct (IHr H) as (d' & Hi & Hf'). exists d'. split; [right; exact Hi|exact Hf']. }
    apply In_nth_error in Hd' as [j Hj].
    unfold fp_disjoint in Hf.
    assert (exists a, In a (snd d) /\ forallb (fun b => negb (ivl_overlap a b)) (snd d') = false) as (a & Ha & Hfa).
    { revert Hf. generalize (snd d). intros l. induction l as [|y l IHl]; [discriminate|]. cbn [forallb]. intros Hf.
      apply andb_false_iff in Hf as [Hf|Hf]; [exists y; split; [left; reflexivity|exact Hf]|].
      destruct (IHl Hf) as (a & Hi & Hfa'). exists a. split; [right; exact Hi|exact Hfa']. }
    assert (exists c, In c (snd d') /\ ivl_overlap a c = true) as (c & Hc & Hov).
    { revert Hfa. generalize (snd d'). intros l. induction l as [|y l IHl]; [discriminate|]. cbn [forallb]. intros Hg.
      apply andb_false_iff in Hg as [Hg|Hg].
      - exists y. split; [left; reflexivity|]. destruct (ivl_overlap a y); [reflexivity|discriminate].
      - destruct (IHl Hg) as (c & Hi & Hov). exists c. split; [right; exact Hi|exact Hov]. }
    exists 0%nat, (S j), d, d', a, c. repeat split; try assumption; lia.
  - destruct (IH H) as (k1 & k2 & d1 & d2 & a & c & Hlt & H1 & H2 & Ha & Hc & Hov).
    exists (S k1), (S k2), d1, d2, a, c. repeat split; try assumption; lia.
Qed.
