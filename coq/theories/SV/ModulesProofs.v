(* SV/ModulesProofs.v — theorems about SV/Modules.v (property C13).  No axioms, nothing admitted.

   full_name_inj               the module-name function is injective on (class name, parameters) under the proviso
                               [name_ok] (no "__", no trailing "_") for class and parameter names and [value_ok]
                               (non-empty, no "_") for rendered values
   full_name_inj_same_keys     same class (same name, same parameter names): injective in the values as soon as the
                               values contain no "__" and do not end with "_"
   full_name_collision_refuted / _weak_proviso / _same_keys   without the provisos there are collisions (witnesses)
   unique_name_inj             the same for the name after the hashing branch, for any oracle injective on the
                               observed parameter strings whose digests contain no "_"
   modules_ok_sound            acceptor = true -> every conjunct of the property
   sharing_ok_sound            instances given the same module name have the same body (the one that is defined)
   first_wins_ok               dictionary filled in any order is the same map  <->  name -> body is functional
   order_canonical             name-sorted + construction-ordered layout does not depend on iteration order *)
From Coq Require Import Ascii String Permutation Sorted.
From PV Require Import Base.Prelude SV.Modules.

(* ------------------------------------------------------------------ strings *)
Lemma str_eqb_refl a : str_eqb a a = true.
Proof. induction a as [|x a IH]; cbn; [reflexivity|]. rewrite Ascii.eqb_refl. exact IH. Qed.

Lemma str_eqb_eq a b : str_eqb a b = true <-> a = b.
Proof.
  split; [|intros ->; apply str_eqb_refl].
  revert b; induction a as [|x a IH]; intros [|y b]; cbn; try discriminate; [reflexivity|].
  intros H. apply andb_prop in H. destruct H as [H1 H2]. apply Ascii.eqb_eq in H1. apply IH in H2. congruence.
Qed.

Lemma str_eqb_neq a b : str_eqb a b = false <-> a <> b.
Proof.
  split.
  - intros H E. apply str_eqb_eq in E. congruence.
  - intros H. destruct (str_eqb a b) eqn:E; [|reflexivity]. apply str_eqb_eq in E. contradiction.
Qed.

Lemma str_eqb_sym a b : str_eqb a b = str_eqb b a.
Proof.
  destruct (str_eqb a b) eqn:E.
  - apply str_eqb_eq in E. subst. symmetry. apply str_eqb_refl.
  - symmetry. apply str_eqb_neq. apply str_eqb_neq in E. congruence.
Qed.

Lemma mems_In x l : mems x l = true <-> In x l.
Proof.
  unfold mems. rewrite existsb_exists. split.
  - intros [y [Hy E]]. apply str_eqb_eq in E. subst. exact Hy.
  - intros H. exists x. split; [exact H|apply str_eqb_refl].
Qed.

Lemma memc_In c l : memc c l = true <-> In c l.
Proof.
  unfold memc. rewrite existsb_exists. split.
  - intros [y [Hy E]]. apply Ascii.eqb_eq in E. subst. exact Hy.
  - intros H. exists c. split; [exact H|apply Ascii.eqb_refl].
Qed.

Lemma memc_app c a b : memc c (a ++ b) = memc c a || memc c b.
Proof. unfold memc. apply existsb_app. Qed.

Lemma nodup_s_NoDup l : nodup_s l = true -> NoDup l.
Proof.
  induction l as [|a r IH]; cbn; intros H; [constructor|].
  apply andb_prop in H. destruct H as [H1 H2]. constructor; [|apply IH; exact H2].
  intros Hin. apply mems_In in Hin. rewrite Hin in H1. discriminate.
Qed.

Lemma is_us_us : is_us us = true.
Proof. reflexivity. Qed.

(* ------------------------------------------------------------------ (a) injectivity of the module-name function *)
Lemma split_dd_clean x r : clean x = true -> split_dd (x ++ dd ++ r) = (x, Some r).
Proof.
  induction x as [|a x IH]; intros H.
  - reflexivity.
  - destruct x as [|b x'].
    + cbn in H. cbn. destruct (is_us a); [discriminate|]. cbn. reflexivity.
    + change (clean (a :: b :: x')) with (negb (is_us a && is_us b) && clean (b :: x')) in H.
      apply andb_prop in H. destruct H as [H1 H2]. specialize (IH H2).
      change ((a :: b :: x') ++ dd ++ r) with (a :: (b :: x') ++ dd ++ r).
      change (split_dd (a :: (b :: x') ++ dd ++ r))
        with (if is_us a && is_us b then ([], Some (x' ++ dd ++ r))
              else let '(p, q) := split_dd ((b :: x') ++ dd ++ r) in (a :: p, q)).
      destruct (is_us a && is_us b); [discriminate|]. rewrite IH. reflexivity.
Qed.

Lemma split_dd_nodd x : nodd x = true -> split_dd x = (x, None).
Proof.
  induction x as [|a x IH]; intros H; [reflexivity|].
  destruct x as [|b x']; [reflexivity|].
  change (nodd (a :: b :: x')) with (negb (is_us a && is_us b) && nodd (b :: x')) in H.
  apply andb_prop in H. destruct H as [H1 H2]. specialize (IH H2).
  change (split_dd (a :: b :: x'))
    with (if is_us a && is_us b then ([], Some x') else let '(p, q) := split_dd (b :: x') in (a :: p, q)).
  destruct (is_us a && is_us b); [discriminate|]. rewrite IH. reflexivity.
Qed.

Lemma clean_nodd x : clean x = true -> nodd x = true.
Proof.
  induction x as [|a x IH]; intros H; [reflexivity|].
  destruct x as [|b x']; [reflexivity|].
  change (clean (a :: b :: x')) with (negb (is_us a && is_us b) && clean (b :: x')) in H.
  change (nodd (a :: b :: x')) with (negb (is_us a && is_us b) && nodd (b :: x')).
  apply andb_prop in H. destruct H as [H1 H2]. rewrite H1, (IH H2). reflexivity.
Qed.

Lemma clean_cons_nonus a y : is_us a = false -> clean y = true -> clean (a :: y) = true.
Proof. intros Ha Hy. destruct y as [|b y']; cbn; rewrite Ha; [reflexivity|]. cbn. exact Hy. Qed.

Lemma nodd_cons_nonus a y : is_us a = false -> nodd y = true -> nodd (a :: y) = true.
Proof. intros Ha Hy. destruct y as [|b y']; cbn; [reflexivity|]. rewrite Ha. cbn. exact Hy. Qed.

Lemma clean_app x y : clean x = true -> clean y = true -> clean (x ++ y) = true.
Proof.
  induction x as [|a x IH]; intros Hx Hy; [exact Hy|].
  destruct x as [|b x'].
  - cbn in Hx. apply clean_cons_nonus; [destruct (is_us a); [discriminate|reflexivity]|exact Hy].
  - change (clean (a :: b :: x')) with (negb (is_us a && is_us b) && clean (b :: x')) in Hx.
    apply andb_prop in Hx. destruct Hx as [H1 H2]. specialize (IH H2 Hy).
    change ((a :: b :: x') ++ y) with (a :: b :: (x' ++ y)).
    change (clean (a :: b :: (x' ++ y))) with (negb (is_us a && is_us b) && clean ((b :: x') ++ y)).
    rewrite H1, IH. reflexivity.
Qed.

Lemma nodd_app x y : clean x = true -> nodd y = true -> nodd (x ++ y) = true.
Proof.
  induction x as [|a x IH]; intros Hx Hy; [exact Hy|].
  destruct x as [|b x'].
  - cbn in Hx. apply nodd_cons_nonus; [destruct (is_us a); [discriminate|reflexivity]|exact Hy].
  - change (clean (a :: b :: x')) with (negb (is_us a && is_us b) && clean (b :: x')) in Hx.
    apply andb_prop in Hx. destruct Hx as [H1 H2]. specialize (IH H2 Hy).
    change ((a :: b :: x') ++ y) with (a :: b :: (x' ++ y)).
    change (nodd (a :: b :: (x' ++ y))) with (negb (is_us a && is_us b) && nodd ((b :: x') ++ y)).
    rewrite H1, IH. reflexivity.
Qed.

Lemma no_us_cons c v : no_us (c :: v) = true -> is_us c = false /\ no_us v = true.
Proof.
  unfold no_us, memc, is_us. cbn [existsb]. rewrite negb_orb. intros H. apply andb_prop in H. destruct H as [H1 H2].
  split; [|exact H2]. rewrite Ascii.eqb_sym. destruct (Ascii.eqb us c); [discriminate|reflexivity].
Qed.

Lemma no_us_clean v : no_us v = true -> clean v = true.
Proof.
  induction v as [|c v IH]; intros H; [reflexivity|].
  apply no_us_cons in H. destruct H as [H1 H2]. apply clean_cons_nonus; [exact H1|apply IH; exact H2].
Qed.

Lemma value_ok_inv v : value_ok v = true -> exists c v', v = c :: v' /\ is_us c = false /\ no_us v' = true.
Proof.
  unfold value_ok. intros H. apply andb_prop in H. destruct H as [H1 H2].
  destruct v as [|c v']; [discriminate|]. apply no_us_cons in H1. exists c, v'. tauto.
Qed.

Lemma clean_seg p : param_ok p = true -> clean (seg p) = true.
Proof.
  unfold param_ok, name_ok, seg. intros H. apply andb_prop in H. destruct H as [Hk Hv].
  apply clean_app; [exact Hk|].
  pose proof Hv as Hv'. apply value_ok_inv in Hv'. destruct Hv' as [c [v' [E [Hc Hn]]]]. rewrite E.
  change (clean (us :: c :: v')) with (negb (is_us us && is_us c) && clean (c :: v')).
  rewrite Hc, andb_false_r. cbn [negb andb]. apply clean_cons_nonus; [exact Hc|apply no_us_clean; exact Hn].
Qed.

(* the first "_" of a string whose prefix has none *)
Lemma first_us_split x x' y y' : no_us x = true -> no_us x' = true ->
  x ++ us :: y = x' ++ us :: y' -> x = x' /\ y = y'.
Proof.
  revert x'. induction x as [|a x IH]; intros [|a' x'] Hx Hx' E.
  - cbn in E. injection E as E. split; [reflexivity|exact E].
  - cbn in E. injection E as E1 E2. subst a'. apply no_us_cons in Hx'. destruct Hx' as [Hc _]. rewrite is_us_us in Hc. discriminate.
  - cbn in E. injection E as E1 E2. subst a. apply no_us_cons in Hx. destruct Hx as [Hc _]. rewrite is_us_us in Hc. discriminate.
  - cbn in E. injection E as E1 E2. subst a'. apply no_us_cons in Hx, Hx'. destruct Hx as [_ Hx]. destruct Hx' as [_ Hx'].
    destruct (IH x' Hx Hx' E2) as [-> ->]. split; reflexivity.
Qed.

Lemma no_us_rev v : no_us v = true -> no_us (rev v) = true.
Proof.
  unfold no_us. intros H. destruct (memc us (rev v)) eqn:E; [|reflexivity].
  apply memc_In in E. apply in_rev in E. apply memc_In in E. rewrite E in H. discriminate.
Qed.

(* the last "_" of a segment whose value has none: name and value are determined *)
Lemma seg_inj k v k' v' : no_us v = true -> no_us v' = true -> k ++ us :: v = k' ++ us :: v' -> k = k' /\ v = v'.
Proof.
  intros Hv Hv' E. apply (f_equal (@rev ascii)) in E.
  rewrite !rev_app_distr in E. cbn [rev] in E. rewrite <- !app_assoc in E. cbn [app] in E.
  apply first_us_split in E; [|apply no_us_rev; assumption|apply no_us_rev; assumption].
  destruct E as [E1 E2]. apply (f_equal (@rev ascii)) in E1, E2. rewrite !rev_involutive in E1, E2. split; assumption.
Qed.

Lemma seg_eq p q : param_ok p = true -> param_ok q = true -> seg p = seg q -> p = q.
Proof.
  unfold param_ok, value_ok, seg. destruct p as [k v], q as [k' v']. cbn [fst snd]. intros Hp Hq E.
  apply andb_prop in Hp, Hq. destruct Hp as [_ Hp]. destruct Hq as [_ Hq].
  apply andb_prop in Hp, Hq. destruct Hp as [Hp _]. destruct Hq as [Hq _].
  destruct (seg_inj k v k' v' Hp Hq E) as [-> ->]. reflexivity.
Qed.

Lemma tail_inj p1 : forall p2 q1 q2,
  forallb param_ok p1 = true -> forallb param_ok p2 = true -> param_ok q1 = true -> param_ok q2 = true ->
  seg q1 ++ params_tail p1 = seg q2 ++ params_tail p2 -> q1 = q2 /\ p1 = p2.
Proof.
  induction p1 as [|a p1 IH]; intros [|b p2] q1 q2 H1 H2 Hq1 Hq2 E.
  - cbn [params_tail] in E. rewrite !app_nil_r in E. split; [apply seg_eq; assumption|reflexivity].
  - exfalso. cbn [params_tail] in E. rewrite app_nil_r in E. apply (f_equal split_dd) in E.
    rewrite (split_dd_nodd (seg q1)) in E by (apply clean_nodd, clean_seg; exact Hq1).
    rewrite (split_dd_clean (seg q2)) in E by (apply clean_seg; exact Hq2). discriminate.
  - exfalso. cbn [params_tail] in E. rewrite app_nil_r in E. apply (f_equal split_dd) in E.
    rewrite (split_dd_nodd (seg q2)) in E by (apply clean_nodd, clean_seg; exact Hq2).
    rewrite (split_dd_clean (seg q1)) in E by (apply clean_seg; exact Hq1). discriminate.
  - cbn [params_tail] in E. apply (f_equal split_dd) in E.
    rewrite (split_dd_clean (seg q1)) in E by (apply clean_seg; exact Hq1).
    rewrite (split_dd_clean (seg q2)) in E by (apply clean_seg; exact Hq2).
    injection E as E1 E2. cbn [forallb] in H1, H2. apply andb_prop in H1, H2. destruct H1 as [Ha H1]. destruct H2 as [Hb H2].
    destruct (IH p2 a b H1 H2 Ha Hb E2) as [-> ->]. split; [apply seg_eq; assumption|reflexivity].
Qed.

Lemma nodd_noparam : nodd (lit "_noparam") = true.
Proof. reflexivity. Qed.

(* C13: components that differ in class name or parameters never get the same full name — under the proviso *)
Theorem full_name_inj c1 p1 c2 p2 :
  name_ok c1 = true -> name_ok c2 = true -> forallb param_ok p1 = true -> forallb param_ok p2 = true ->
  full_name c1 p1 = full_name c2 p2 -> c1 = c2 /\ p1 = p2.
Proof.
  unfold full_name, name_ok. intros Hc1 Hc2 H1 H2 E.
  destruct p1 as [|q1 p1], p2 as [|q2 p2]; cbn [params_str] in E.
  - apply app_inv_tail in E. split; [exact E|reflexivity].
  - exfalso. cbn [params_tail] in E. apply (f_equal split_dd) in E.
    rewrite (split_dd_nodd (c1 ++ lit "_noparam")) in E by (apply nodd_app; [exact Hc1|exact nodd_noparam]).
    rewrite (split_dd_clean c2) in E by exact Hc2. discriminate.
  - exfalso. cbn [params_tail] in E. apply (f_equal split_dd) in E.
    rewrite (split_dd_nodd (c2 ++ lit "_noparam")) in E by (apply nodd_app; [exact Hc2|exact nodd_noparam]).
    rewrite (split_dd_clean c1) in E by exact Hc1. discriminate.
  - cbn [params_tail] in E. apply (f_equal split_dd) in E.
    rewrite (split_dd_clean c1) in E by exact Hc1. rewrite (split_dd_clean c2) in E by exact Hc2.
    injection E as E1 E2. cbn [forallb] in H1, H2. apply andb_prop in H1, H2. destruct H1 as [Hq1 H1]. destruct H2 as [Hq2 H2].
    destruct (tail_inj p1 p2 q1 q2 H1 H2 Hq1 Hq2 E2) as [-> ->]. split; [exact E1|reflexivity].
Qed.

(* same class (same name, same parameter names): only the values matter, and a much weaker proviso suffices *)
Lemma tail_inj_same_keys p1 : forall p2, map fst p1 = map fst p2 ->
  forallb (fun p => value_weak_ok (snd p)) p1 = true -> forallb (fun p => value_weak_ok (snd p)) p2 = true ->
  params_tail p1 = params_tail p2 -> p1 = p2.
Proof.
  unfold value_weak_ok.
  induction p1 as [|[k v] p1 IH]; intros [|[k' v'] p2] K H1 H2 E; try discriminate; [reflexivity|].
  cbn [map fst] in K. injection K as K1 K2. subst k'.
  cbn [forallb snd] in H1, H2. apply andb_prop in H1, H2. destruct H1 as [Hv H1]. destruct H2 as [Hv' H2].
  cbn [params_tail] in E. apply app_inv_head in E. unfold seg in E. cbn [fst snd] in E.
  rewrite <- !app_assoc in E. apply app_inv_head in E. cbn [app] in E. injection E as E.
  assert (v = v') as ->.
  { destruct p1 as [|a p1], p2 as [|b p2]; try discriminate K2.
    - cbn [params_tail] in E. rewrite !app_nil_r in E. exact E.
    - cbn [params_tail] in E. apply (f_equal split_dd) in E.
      rewrite (split_dd_clean v) in E by exact Hv. rewrite (split_dd_clean v') in E by exact Hv'.
      injection E as E _. exact E. }
  apply app_inv_head in E. rewrite (IH p2 K2 H1 H2 E). reflexivity.
Qed.

Theorem full_name_inj_same_keys c p1 p2 : map fst p1 = map fst p2 ->
  forallb (fun p => value_weak_ok (snd p)) p1 = true -> forallb (fun p => value_weak_ok (snd p)) p2 = true ->
  full_name c p1 = full_name c p2 -> p1 = p2.
Proof.
  unfold full_name. intros K H1 H2 E. apply app_inv_head in E.
  destruct p1 as [|q1 p1], p2 as [|q2 p2]; try discriminate K; [reflexivity|].
  cbn [params_str] in E. apply tail_inj_same_keys; assumption.
Qed.

(* without the provisos the name function is NOT injective *)
Theorem full_name_collision_refuted : exists c p1 p2, p1 <> p2 /\ full_name c p1 = full_name c p2.
Proof.   (* C(x="1__y_2")  vs  C(x=1, y=2) *)
  exists (lit "C"), [(lit "x", lit "1__y_2")], [(lit "x", lit "1"); (lit "y", lit "2")].
  split; [discriminate|]. vm_compute. reflexivity.
Qed.

(* "identifiers without __ / values without __" is NOT enough: "_" in a value moves the name/value boundary *)
Theorem full_name_collision_weak_proviso : exists c p1 p2, p1 <> p2 /\
  forallb (fun p => name_ok (fst p) && clean (snd p) && nonempty (snd p)) (p1 ++ p2) = true /\ name_ok c = true /\
  full_name c p1 = full_name c p2.
Proof.   (* C(a="b_c")  vs  C(a_b="c") *)
  exists (lit "C"), [(lit "a", lit "b_c")], [(lit "a_b", lit "c")].
  split; [discriminate|]. vm_compute. repeat split.
Qed.

(* one class, two parameters, values containing "__": the same instance name for different parameter values *)
Theorem full_name_collision_same_keys : exists c p1 p2, map fst p1 = map fst p2 /\ p1 <> p2 /\
  full_name c p1 = full_name c p2.
Proof.   (* C(x="1__y_2", y="3")  vs  C(x="1", y="2__y_3") *)
  exists (lit "C"), [(lit "x", lit "1__y_2"); (lit "y", lit "3")], [(lit "x", lit "1"); (lit "y", lit "2__y_3")].
  split; [reflexivity|]. split; [discriminate|]. vm_compute. reflexivity.
Qed.

(* ---- after the hashing branch ---- *)
Section UniqueNameInj.
Variable hash : str -> str.
Variable observed : list str.                       (* the parameter strings that were hashed in the run *)
Hypothesis hash_inj : forall x y, In x observed -> In y observed -> hash x = hash y -> x = y.
Hypothesis hash_no_us : forall x, In x observed -> no_us (hash x) = true.      (* hex digits *)

Lemma memc_us_seg_tail q r : memc us (seg q ++ params_tail r) = true.
Proof. unfold seg. rewrite <- app_assoc. rewrite memc_app. cbn. rewrite orb_true_r. reflexivity. Qed.

Lemma hashed_vs_plain c1 p1 c2 p2 : name_ok c1 = true -> name_ok c2 = true -> In (params_str p1) observed ->
  c1 ++ dd ++ hash (params_str p1) = full_name c2 p2 -> False.
Proof.
  unfold full_name, name_ok. intros Hc1 Hc2 Ho E. apply (f_equal split_dd) in E.
  rewrite (split_dd_clean c1) in E by exact Hc1.
  destruct p2 as [|q r]; cbn [params_str params_tail] in E.
  - rewrite (split_dd_nodd (c2 ++ lit "_noparam")) in E by (apply nodd_app; [exact Hc2|exact nodd_noparam]). discriminate.
  - rewrite (split_dd_clean c2) in E by exact Hc2. injection E as _ E.
    pose proof (hash_no_us _ Ho) as N. unfold no_us in N. rewrite E, memc_us_seg_tail in N. discriminate.
Qed.

Theorem unique_name_inj c1 p1 c2 p2 :
  name_ok c1 = true -> name_ok c2 = true -> forallb param_ok p1 = true -> forallb param_ok p2 = true ->
  (needs_hash (full_name c1 p1) = true -> In (params_str p1) observed) ->
  (needs_hash (full_name c2 p2) = true -> In (params_str p2) observed) ->
  unique_name hash c1 p1 = unique_name hash c2 p2 -> c1 = c2 /\ p1 = p2.
Proof.
  unfold unique_name. intros Hc1 Hc2 H1 H2 O1 O2 E.
  destruct (needs_hash (full_name c1 p1)) eqn:N1; destruct (needs_hash (full_name c2 p2)) eqn:N2.
  - specialize (O1 eq_refl). specialize (O2 eq_refl). apply (f_equal split_dd) in E.
    unfold name_ok in Hc1, Hc2.
    rewrite (split_dd_clean c1) in E by exact Hc1. rewrite (split_dd_clean c2) in E by exact Hc2.
    injection E as E1 E2. apply (hash_inj _ _ O1 O2) in E2.
    apply full_name_inj; try assumption. unfold full_name. rewrite E1, E2. reflexivity.
  - exfalso. exact (hashed_vs_plain c1 p1 c2 p2 Hc1 Hc2 (O1 eq_refl) E).
  - exfalso. symmetry in E. exact (hashed_vs_plain c2 p2 c1 p1 Hc2 Hc1 (O2 eq_refl) E).
  - apply full_name_inj; assumption.
Qed.
End UniqueNameInj.

Lemma unique_name_plain hash c p : needs_hash (full_name c p) = false -> unique_name hash c p = full_name c p.
Proof. unfold unique_name. intros ->. reflexivity. Qed.

(* the finite oracle built from a table of digests is injective on its keys when inj_table_b accepts it *)
Lemma assoc_In t : forall x, In x (map fst t) -> In (x, assoc t x) t.
Proof.
  induction t as [|[k v] r IH]; intros x Hx; [destruct Hx|]. cbn [assoc].
  destruct (str_eqb k x) eqn:E.
  - apply str_eqb_eq in E. subst. left. reflexivity.
  - right. apply IH. destruct Hx as [Hx|Hx]; [|exact Hx]. cbn in Hx. subst. rewrite str_eqb_refl in E. discriminate.
Qed.

Lemma inj_table_sound t : inj_table_b t = true ->
  forall k1 v k2, In (k1, v) t -> In (k2, v) t -> k1 = k2.
Proof.
  induction t as [|[k v0] r IH]; intros H k1 v k2 H1 H2; [destruct H1|].
  cbn [inj_table_b] in H. apply andb_prop in H. destruct H as [Ha Hr]. rewrite forallb_forall in Ha.
  destruct H1 as [H1|H1]; destruct H2 as [H2|H2].
  - congruence.
  - injection H1 as -> ->. specialize (Ha _ H2). cbn [fst snd] in Ha. rewrite str_eqb_refl in Ha.
    rewrite orb_false_r in Ha. apply str_eqb_eq in Ha. congruence.
  - injection H2 as -> ->. specialize (Ha _ H1). cbn [fst snd] in Ha. rewrite str_eqb_refl in Ha.
    rewrite orb_false_r in Ha. apply str_eqb_eq in Ha. congruence.
  - exact (IH Hr k1 v k2 H1 H2).
Qed.

Theorem assoc_inj_on_keys t : inj_table_b t = true ->
  forall x y, In x (map fst t) -> In y (map fst t) -> assoc t x = assoc t y -> x = y.
Proof.
  intros H x y Hx Hy E. apply assoc_In in Hx, Hy. rewrite E in Hx. exact (inj_table_sound t H x _ y Hx Hy).
Qed.

(* ------------------------------------------------------------------ (b) acceptor soundness *)
Definition ident_shape_P (s : str) : Prop :=
  exists c r, s = c :: r /\ In c first_chars /\ Forall (fun x => In x rest_chars) r.
Definition legal (s : str) : Prop := ident_shape_P s /\ ~ In s sv_reserved.

Lemma legal_b_sound s : legal_b s = true -> legal s.
Proof.
  unfold legal_b, legal, ident_shape, ident_shape_P. intros H. apply andb_prop in H. destruct H as [H1 H2]. split.
  - destruct s as [|c r]; [discriminate|]. apply andb_prop in H1. destruct H1 as [Hc Hr].
    exists c, r. split; [reflexivity|]. split; [apply memc_In; exact Hc|].
    apply Forall_forall. intros x Hx. rewrite forallb_forall in Hr. apply memc_In. exact (Hr x Hx).
  - intros Hin. apply mems_In in Hin. rewrite Hin in H2. discriminate.
Qed.

(* every identifier-bearing scope of the table: compilation unit, struct members, each module's scopes *)
Definition scope_of (t : table) (sc : list str) : Prop :=
  sc = unit_scope t \/ (exists ty, In ty (t_types t) /\ sc = snd ty) \/ (exists m, In m (t_mods t) /\ In sc (m_scopes m)).

Lemma scope_of_all t sc : scope_of t sc -> In sc (all_scopes t).
Proof.
  unfold all_scopes. intros [->|[[ty [Hty ->]]|[m [Hm Hsc]]]].
  - left. reflexivity.
  - right. apply in_or_app. left. apply in_map. exact Hty.
  - right. apply in_or_app. right. apply in_flat_map. exists m. split; assumption.
Qed.

Theorem modules_ok_sound t : modules_ok t = true ->
  (* every module is defined exactly once *)
  NoDup (mod_names t) /\
  (* every instantiated module name is defined *)
  (forall m i, In m (t_mods t) -> In i (m_insts m) -> exists m', In m' (t_mods t) /\ m_name m' = i) /\
  (* identifiers are legal: [A-Za-z_][A-Za-z0-9_$]* and not reserved *)
  (forall sc x, scope_of t sc -> In x sc -> legal x) /\
  (* identifiers are unique within their scope *)
  (forall sc, scope_of t sc -> NoDup sc).
Proof.
  unfold modules_ok. intros H. apply andb_prop in H. destruct H as [H H4]. apply andb_prop in H. destruct H as [H H3].
  apply andb_prop in H. destruct H as [H1 H2]. repeat split.
  - apply nodup_s_NoDup. exact H1.
  - intros m i Hm Hi. unfold insts_defined_b in H2. rewrite forallb_forall in H2. specialize (H2 m Hm).
    rewrite forallb_forall in H2. specialize (H2 i Hi). apply mems_In in H2. unfold mod_names in H2.
    apply in_map_iff in H2. destruct H2 as [m' [E Hm']]. exists m'. split; assumption.
  - unfold idents_legal_b in H3. rewrite forallb_forall in H3. specialize (H3 sc (scope_of_all t sc H)).
    rewrite forallb_forall in H3. apply (proj1 (legal_b_sound x (H3 x H0))).
  - unfold idents_legal_b in H3. rewrite forallb_forall in H3. specialize (H3 sc (scope_of_all t sc H)).
    rewrite forallb_forall in H3. apply (proj2 (legal_b_sound x (H3 x H0))).
  - intros sc Hsc. unfold scopes_unique_b in H4. rewrite forallb_forall in H4. apply nodup_s_NoDup.
    apply H4. apply scope_of_all. exact Hsc.
Qed.

Lemma body_of_Some t n b : body_of t n = Some b -> exists m, In m (t_mods t) /\ m_name m = n /\ m_body m = b.
Proof.
  unfold body_of. destruct (find _ _) as [m|] eqn:F; [|discriminate]. cbn. intros E. injection E as E.
  apply find_some in F. destruct F as [Hm Hn]. apply str_eqb_eq in Hn. exists m. tauto.
Qed.

(* two instances share a module definition only if their bodies are identical (and identical to the one emitted) *)
Theorem sharing_ok_sound t l : sharing_ok t l = true ->
  (forall a b, In a l -> In b l -> fst a = fst b -> snd a = snd b) /\
  (forall a, In a l -> exists m, In m (t_mods t) /\ m_name m = fst a /\ m_body m = snd a).
Proof.
  unfold sharing_ok. intros H. rewrite forallb_forall in H.
  assert (K : forall a, In a l -> body_of t (fst a) = Some (snd a)).
  { intros a Ha. specialize (H a Ha). destruct (body_of t (fst a)) as [b|]; [|discriminate].
    apply Z.eqb_eq in H. congruence. }
  split.
  - intros a b Ha Hb E. pose proof (K a Ha) as Ka. pose proof (K b Hb) as Kb. rewrite E in Ka. congruence.
  - intros a Ha. apply body_of_Some. exact (K a Ha).
Qed.

(* ------------------------------------------------------------------ (c) first-wins dictionary *)
Definition functional (l : list inst) : Prop := forall a b, In a l -> In b l -> fst a = fst b -> snd a = snd b.
Definition same_map (d1 d2 : list inst) : Prop := forall n, dlookup n d1 = dlookup n d2.

Lemma functional_b_spec l : functional_b l = true <-> functional l.
Proof.
  unfold functional_b, functional. rewrite forallb_forall. split.
  - intros H a b Ha Hb E. specialize (H a Ha). rewrite forallb_forall in H. specialize (H b Hb).
    rewrite E, str_eqb_refl in H. cbn in H. apply Z.eqb_eq. exact H.
  - intros H a Ha. rewrite forallb_forall. intros b Hb. destruct (str_eqb (fst a) (fst b)) eqn:E; [|reflexivity].
    apply str_eqb_eq in E. cbn. apply Z.eqb_eq. exact (H a b Ha Hb E).
Qed.

Lemma dlookup_app n d e : dlookup n (d ++ e) = match dlookup n d with Some b => Some b | None => dlookup n e end.
Proof. induction d as [|kb d IH]; cbn; [reflexivity|]. destruct (str_eqb (fst kb) n); [reflexivity|exact IH]. Qed.

Lemma dlookup_fill l : forall d n,
  dlookup n (fold_left dinsert l d) = match dlookup n d with Some b => Some b | None => dlookup n l end.
Proof.
  induction l as [|i l IH]; intros d n; cbn [fold_left].
  - destruct (dlookup n d); reflexivity.
  - rewrite IH. unfold dinsert. cbn [dlookup]. destruct (dlookup (fst i) d) as [b|] eqn:Li.
    + destruct (dlookup n d) as [b'|] eqn:Ln; [reflexivity|].
      destruct (str_eqb (fst i) n) eqn:E; [|reflexivity]. apply str_eqb_eq in E. rewrite E in Li. congruence.
    + rewrite dlookup_app. destruct (dlookup n d); [reflexivity|]. cbn [dlookup]. destruct (str_eqb (fst i) n); reflexivity.
Qed.

(* the dictionary maps a name to the body of the FIRST instance with that name in traversal order *)
Lemma first_wins_lookup l n : dlookup n (first_wins l) = dlookup n l.
Proof. unfold first_wins. rewrite dlookup_fill. reflexivity. Qed.

Lemma dlookup_Some_In n l b : dlookup n l = Some b -> In (n, b) l.
Proof.
  induction l as [|[k v] l IH]; cbn; [discriminate|]. destruct (str_eqb k n) eqn:E.
  - apply str_eqb_eq in E. intros H. injection H as H. subst. left. reflexivity.
  - intros H. right. exact (IH H).
Qed.

Lemma dlookup_None_notin n l : dlookup n l = None -> forall b, ~ In (n, b) l.
Proof.
  induction l as [|[k v] l IH]; cbn; intros H b Hin; [exact Hin|]. destruct (str_eqb k n) eqn:E; [discriminate|].
  destruct Hin as [Hin|Hin]; [|exact (IH H b Hin)]. injection Hin as -> ->. rewrite str_eqb_refl in E. discriminate.
Qed.

Theorem first_wins_ok l :
  (forall l', Permutation l l' -> same_map (first_wins l) (first_wins l')) <-> functional l.
Proof.
  split.
  - (* order independence -> functional: put either instance first *)
    intros H [na ba] [nb bb] Ha Hb E. cbn [fst snd] in *. subst nb.
    destruct (in_split _ _ Ha) as [l1 [l2 E1]]. destruct (in_split _ _ Hb) as [l3 [l4 E2]].
    assert (P1 : Permutation l ((na, ba) :: l1 ++ l2)) by (rewrite E1; apply Permutation_sym, Permutation_middle).
    assert (Pb : Permutation l ((na, bb) :: l3 ++ l4)) by (rewrite E2; apply Permutation_sym, Permutation_middle).
    pose proof (H _ P1 na) as Pa.
    pose proof (H _ Pb na) as Pb'. rewrite first_wins_lookup in Pa, Pb'. rewrite first_wins_lookup in Pa, Pb'.
    cbn [dlookup fst snd] in Pa, Pb'. rewrite str_eqb_refl in Pa, Pb'. congruence.
  - (* functional -> order independence *)
    intros F l' P n. rewrite !first_wins_lookup.
    destruct (dlookup n l) as [b|] eqn:L; destruct (dlookup n l') as [b'|] eqn:L'.
    + apply dlookup_Some_In in L, L'. apply (Permutation_in _ (Permutation_sym P)) in L'.
      f_equal. exact (F (n, b) (n, b') L L' eq_refl).
    + exfalso. apply dlookup_Some_In in L. apply (Permutation_in _ P) in L. exact (dlookup_None_notin n l' L' b L).
    + exfalso. apply dlookup_Some_In in L'. apply (Permutation_in _ (Permutation_sym P)) in L'.
      exact (dlookup_None_notin n l L b' L').
    + reflexivity.
Qed.

(* ------------------------------------------------------------------ (d) canonical order *)
Lemma N_of_ascii_inj x y : N_of_ascii x = N_of_ascii y -> x = y.
Proof. intros H. rewrite <- (ascii_N_embedding x), <- (ascii_N_embedding y), H. reflexivity. Qed.

Lemma str_leb_total a : forall b, str_leb a b = true \/ str_leb b a = true.
Proof.
  induction a as [|x a IH]; intros [|y b]; cbn; try (left; reflexivity); try (right; reflexivity).
  destruct (N.ltb_spec (N_of_ascii x) (N_of_ascii y)); [left; reflexivity|].
  destruct (N.ltb_spec (N_of_ascii y) (N_of_ascii x)); [right; reflexivity|].
  assert (E : N_of_ascii x = N_of_ascii y) by lia. rewrite E, N.eqb_refl. apply IH.
Qed.

Lemma str_leb_antisym a : forall b, str_leb a b = true -> str_leb b a = true -> a = b.
Proof.
  induction a as [|x a IH]; intros [|y b]; cbn; try discriminate; [reflexivity|].
  destruct (N.ltb_spec (N_of_ascii x) (N_of_ascii y)); destruct (N.ltb_spec (N_of_ascii y) (N_of_ascii x)); try lia.
  - destruct (N.eqb_spec (N_of_ascii y) (N_of_ascii x)); [lia|discriminate].
  - destruct (N.eqb_spec (N_of_ascii x) (N_of_ascii y)); [lia|discriminate].
  - destruct (N.eqb_spec (N_of_ascii x) (N_of_ascii y)) as [E|]; [|discriminate].
    rewrite E, N.eqb_refl. intros L1 L2. apply N_of_ascii_inj in E. subst. f_equal. exact (IH b L1 L2).
Qed.

Lemma str_leb_trans a : forall b c, str_leb a b = true -> str_leb b c = true -> str_leb a c = true.
Proof.
  induction a as [|x a IH]; intros [|y b] [|z c]; cbn; try discriminate; try reflexivity.
  destruct (N.ltb_spec (N_of_ascii x) (N_of_ascii y)); destruct (N.ltb_spec (N_of_ascii y) (N_of_ascii z));
    destruct (N.ltb_spec (N_of_ascii x) (N_of_ascii z)); try reflexivity; try lia; intros L1 L2.
  - destruct (N.eqb_spec (N_of_ascii y) (N_of_ascii z)); [lia|discriminate].
  - destruct (N.eqb_spec (N_of_ascii x) (N_of_ascii y)); [lia|discriminate].
  - destruct (N.eqb_spec (N_of_ascii x) (N_of_ascii y)) as [E1|]; [|discriminate].
    destruct (N.eqb_spec (N_of_ascii y) (N_of_ascii z)) as [E2|]; [|discriminate].
    rewrite E1, E2, N.eqb_refl. exact (IH b c L1 L2).
Qed.

Section SortProofs.
Context {A : Type}.
Variable key : A -> str.
Definition kle (x y : A) : Prop := str_leb (key x) (key y) = true.

Lemma insert_perm x l : Permutation (x :: l) (insert_by key x l).
Proof.
  induction l as [|y r IH]; cbn; [apply Permutation_refl|].
  destruct (str_leb (key x) (key y)); [apply Permutation_refl|].
  apply (Permutation_trans (perm_swap y x r)). apply perm_skip. exact IH.
Qed.

Lemma sort_perm l : Permutation l (sort_by key l).
Proof.
  induction l as [|x l IH]; cbn; [constructor|].
  apply (Permutation_trans (perm_skip x IH)). apply insert_perm.
Qed.

Lemma insert_sorted x l : StronglySorted kle l -> StronglySorted kle (insert_by key x l).
Proof.
  induction l as [|y r IH]; intros S; cbn.
  - constructor; [constructor|constructor].
  - destruct (str_leb (key x) (key y)) eqn:E.
    + constructor; [exact S|]. constructor; [exact E|].
      apply StronglySorted_inv in S. destruct S as [_ Hy]. rewrite Forall_forall in Hy |- *.
      intros z Hz. exact (str_leb_trans _ _ _ E (Hy z Hz)).
    + apply StronglySorted_inv in S. destruct S as [Sr Hy]. constructor; [exact (IH Sr)|].
      assert (Eyx : kle y x) by (destruct (str_leb_total (key x) (key y)) as [T|T]; [congruence|exact T]).
      rewrite Forall_forall in Hy |- *. intros z Hz.
      apply (Permutation_in _ (Permutation_sym (insert_perm x r))) in Hz. destruct Hz as [<-|Hz]; [exact Eyx|exact (Hy z Hz)].
Qed.

Lemma sort_sorted l : StronglySorted kle (sort_by key l).
Proof. induction l as [|x l IH]; cbn; [constructor|apply insert_sorted; exact IH]. Qed.

Lemma sorted_perm_unique s1 : forall s2, StronglySorted kle s1 -> StronglySorted kle s2 ->
  NoDup (map key s1) -> Permutation s1 s2 -> s1 = s2.
Proof.
  induction s1 as [|a t1 IH]; intros s2 S1 S2 ND P.
  - apply Permutation_nil in P. congruence.
  - destruct s2 as [|b t2]; [apply Permutation_sym, Permutation_nil in P; discriminate|].
    apply StronglySorted_inv in S1, S2. destruct S1 as [S1 Fa]. destruct S2 as [S2 Fb].
    rewrite Forall_forall in Fa, Fb. cbn [map] in ND. apply NoDup_cons_iff in ND. destruct ND as [Na ND].
    assert (E : a = b).
    { pose proof (Permutation_in a P (or_introl eq_refl)) as Ia. destruct Ia as [Ia|Ia]; [congruence|].
      pose proof (Permutation_in b (Permutation_sym P) (or_introl eq_refl)) as Ib. destruct Ib as [Ib|Ib]; [congruence|].
      exfalso. apply Na. pose proof (str_leb_antisym _ _ (Fa b Ib) (Fb a Ia)) as K. rewrite K. apply in_map. exact Ib. }
    subst b. f_equal. apply IH; try assumption. exact (Permutation_cons_inv P).
Qed.

(* a collection with distinct names, presented in two different iteration orders, sorts to the same list *)
Theorem sort_canonical l1 l2 : Permutation l1 l2 -> NoDup (map key l1) -> sort_by key l1 = sort_by key l2.
Proof.
  intros P ND. apply sorted_perm_unique; try apply sort_sorted.
  - apply (Permutation_NoDup (Permutation_map key (sort_perm l1))). exact ND.
  - apply (Permutation_trans (Permutation_sym (sort_perm l1))). apply (Permutation_trans P). apply sort_perm.
Qed.
End SortProofs.

(* ASSUMED about the inputs: (1) the set/dict iteration hands over every element exactly once, i.e. the two
   presentations are permutations of each other; (2) the names are distinct (dictionary keys / attribute names);
   (3) the construction-ordered part is the same list in both runs (Python list / dict insertion order). *)
Theorem order_canonical {A B : Type} (key : A -> str) (ra : A -> str) (rb : B -> str) (n1 n2 : list A) (o : list B) :
  Permutation n1 n2 -> NoDup (map key n1) -> layout key ra rb n1 o = layout key ra rb n2 o.
Proof. intros P ND. unfold layout. rewrite (sort_canonical key n1 n2 P ND). reflexivity. Qed.
