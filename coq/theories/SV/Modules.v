(* SV/Modules.v — model for property C13 (module names, module table, first-wins dictionary, canonical order).
   Definitions only (computable, total); the proofs are in SV/ModulesProofs.v.  No axioms.

   (a) full_name / unique_name : model of pymtl3.passes.rtlir.util.utility.get_component_full_name and
       pymtl3.passes.backends.verilog.util.utility.get_component_unique_name over strings (= list ascii).
       The blake2b digest used by the hashing branch is NOT modelled: it is the Section variable [hash]
       (an oracle; theorems that need it assume injectivity on the observed inputs only).
   (b) table / modules_ok      : the module table parsed from an emitted SystemVerilog file and its acceptor.
   (c) first_wins              : the `components[name]` dictionary of RTLIRTranslator.translate (first writer wins).
   (d) sort_by / layout        : output assembled from name-sorted collections and construction-ordered lists. *)
From Coq Require Import Ascii String.
From PV Require Import Base.Prelude.

Definition str := list ascii.
Definition lit (x : string) : str := list_ascii_of_string x.
Definition us : ascii := "_"%char.
Definition is_us (c : ascii) : bool := Ascii.eqb c us.
Definition dd : str := [us; us].                       (* the separator "__" *)

Fixpoint str_eqb (a b : str) : bool :=
  match a, b with
  | [], [] => true
  | x :: a', y :: b' => Ascii.eqb x y && str_eqb a' b'
  | _, _ => false
  end.
Definition memc (c : ascii) (l : str) : bool := existsb (Ascii.eqb c) l.
Definition mems (x : str) (l : list str) : bool := existsb (str_eqb x) l.

(* ------------------------------------------------------------------ (a) module-name function *)
(* a parameter = (argument name, rendered value);  rendering (str(), __name__, struct type name) is done by the caller *)
Definition param := (str * str)%type.
Definition seg (p : param) : str := fst p ++ us :: snd p.          (* name + "_" + value *)
Fixpoint params_tail (ps : list param) : str :=                     (* "__" + name + "_" + value, for every parameter *)
  match ps with [] => [] | p :: r => dd ++ seg p ++ params_tail r end.
Definition params_str (ps : list param) : str :=
  match ps with [] => lit "_noparam" | _ => params_tail ps end.
Definition full_name (cls : str) (ps : list param) : str := cls ++ params_str ps.

Definition special_chars : str := lit " <>.[]".
Definition needs_hash (f : str) : bool :=
  negb (Nat.ltb (List.length f) 64) || existsb (fun c => memc c special_chars) f.

Section UniqueName.
Variable hash : str -> str.       (* oracle for  blake2b(digest_size=8)(x).hexdigest()  — trusted base, not modelled *)
Definition unique_name (cls : str) (ps : list param) : str :=
  let f := full_name cls ps in
  if needs_hash f then cls ++ dd ++ hash (params_str ps) else f.
End UniqueName.

(* a finite oracle: the digests the harness computed itself (hashlib, independently of pymtl3) *)
Fixpoint assoc (t : list (str * str)) (x : str) : str :=
  match t with [] => [] | (k, v) :: r => if str_eqb k x then v else assoc r x end.
Fixpoint inj_table_b (t : list (str * str)) : bool :=
  match t with
  | [] => true
  | (k, v) :: r => forallb (fun kv => str_eqb (fst kv) k || negb (str_eqb (snd kv) v)) r && inj_table_b r
  end.

(* provisos of the injectivity theorems *)
Fixpoint nodd (s : str) : bool :=            (* no "__" inside *)
  match s with
  | a :: t => match t with b :: _ => negb (is_us a && is_us b) && nodd t | [] => true end
  | [] => true
  end.
Fixpoint clean (s : str) : bool :=           (* no "__" inside and no trailing "_" *)
  match s with
  | [] => true
  | a :: t => match t with b :: _ => negb (is_us a && is_us b) && clean t | [] => negb (is_us a) end
  end.
Definition no_us (s : str) : bool := negb (memc us s).
Definition nonempty (s : str) : bool := match s with [] => false | _ => true end.
Definition name_ok (s : str) : bool := clean s.                           (* class names and parameter names *)
Definition value_ok (v : str) : bool := no_us v && nonempty v.            (* rendered values (general theorem) *)
Definition param_ok (p : param) : bool := name_ok (fst p) && value_ok (snd p).
Definition value_weak_ok (v : str) : bool := clean v.                     (* rendered values (same-class theorem) *)

(* the first "__" of a string:  (text before it, Some text after it) *)
Fixpoint split_dd (s : str) : str * option str :=
  match s with
  | [] => ([], None)
  | a :: t =>
      match t with
      | b :: t' => if is_us a && is_us b then ([], Some t')
                   else let '(p, r) := split_dd t in (a :: p, r)
      | [] => ([a], None)
      end
  end.

(* ------------------------------------------------------------------ (b) module table and its acceptor *)
Record modl := mkMod {
  m_name   : str;               (* text after the keyword `module` *)
  m_body   : Z;                 (* interned body text (ports + items, comments and layout removed); equal ids <-> equal text *)
  m_insts  : list str;          (* module names instantiated inside *)
  m_scopes : list (list str)    (* declared identifiers, one list per scope; the first is the module scope: ports, wires,
                                   localparams, temporaries, block labels, instance names; then one per for-loop / block *)
}.
Record table := mkTable {
  t_types : list (str * list str);     (* typedef struct: (type name, field names) — compilation-unit scope + member scope *)
  t_mods  : list modl
}.

Definition first_chars : str := lit "ABCDEFGHIJKLMNOPQRSTUVWXYZabcdefghijklmnopqrstuvwxyz_".
Definition rest_chars  : str := lit "ABCDEFGHIJKLMNOPQRSTUVWXYZabcdefghijklmnopqrstuvwxyz_0123456789$".
Definition ident_shape (s : str) : bool :=
  match s with [] => false | c :: r => memc c first_chars && forallb (fun x => memc x rest_chars) r end.

(* IEEE 1800-2017 Annex B, Table B.1 *)
Definition sv_reserved : list str := map lit [
 "accept_on"; "alias"; "always"; "always_comb"; "always_ff"; "always_latch"; "and"; "assert"; "assign"; "assume";
 "automatic"; "before"; "begin"; "bind"; "bins"; "binsof"; "bit"; "break"; "buf"; "bufif0"; "bufif1"; "byte"; "case";
 "casex"; "casez"; "cell"; "chandle"; "checker"; "class"; "clocking"; "cmos"; "config"; "const"; "constraint";
 "context"; "continue"; "cover"; "covergroup"; "coverpoint"; "cross"; "deassign"; "default"; "defparam"; "design";
 "disable"; "dist"; "do"; "edge"; "else"; "end"; "endcase"; "endchecker"; "endclass"; "endclocking"; "endconfig";
 "endfunction"; "endgenerate"; "endgroup"; "endinterface"; "endmodule"; "endpackage"; "endprimitive"; "endprogram";
 "endproperty"; "endspecify"; "endsequence"; "endtable"; "endtask"; "enum"; "event"; "eventually"; "expect"; "export";
 "extends"; "extern"; "final"; "first_match"; "for"; "force"; "foreach"; "forever"; "fork"; "forkjoin"; "function";
 "generate"; "genvar"; "global"; "highz0"; "highz1"; "if"; "iff"; "ifnone"; "ignore_bins"; "illegal_bins";
 "implements"; "implies"; "import"; "incdir"; "include"; "initial"; "inout"; "input"; "inside"; "instance"; "int";
 "integer"; "interconnect"; "interface"; "intersect"; "join"; "join_any"; "join_none"; "large"; "let"; "liblist";
 "library"; "local"; "localparam"; "logic"; "longint"; "macromodule"; "matches"; "medium"; "modport"; "module";
 "nand"; "negedge"; "nettype"; "new"; "nexttime"; "nmos"; "nor"; "noshowcancelled"; "not"; "notif0"; "notif1";
 "null"; "or"; "output"; "package"; "packed"; "parameter"; "pmos"; "posedge"; "primitive"; "priority"; "program";
 "property"; "protected"; "pull0"; "pull1"; "pulldown"; "pullup"; "pulsestyle_ondetect"; "pulsestyle_onevent";
 "pure"; "rand"; "randc"; "randcase"; "randsequence"; "rcmos"; "real"; "realtime"; "ref"; "reg"; "reject_on";
 "release"; "repeat"; "restrict"; "return"; "rnmos"; "rpmos"; "rtran"; "rtranif0"; "rtranif1"; "s_always";
 "s_eventually"; "s_nexttime"; "s_until"; "s_until_with"; "scalared"; "sequence"; "shortint"; "shortreal";
 "showcancelled"; "signed"; "small"; "soft"; "solve"; "specify"; "specparam"; "static"; "string"; "strong";
 "strong0"; "strong1"; "struct"; "super"; "supply0"; "supply1"; "sync_accept_on"; "sync_reject_on"; "table";
 "tagged"; "task"; "this"; "throughout"; "time"; "timeprecision"; "timeunit"; "tran"; "tranif0"; "tranif1"; "tri";
 "tri0"; "tri1"; "triand"; "trior"; "trireg"; "type"; "typedef"; "union"; "unique"; "unique0"; "unsigned"; "until";
 "until_with"; "untyped"; "use"; "uwire"; "var"; "vectored"; "virtual"; "void"; "wait"; "wait_order"; "wand"; "weak";
 "weak0"; "weak1"; "while"; "wildcard"; "wire"; "with"; "within"; "wor"; "xnor"; "xor" ]%string.

Definition legal_b (s : str) : bool := ident_shape s && negb (mems s sv_reserved).

Fixpoint nodup_s (l : list str) : bool :=
  match l with [] => true | a :: r => negb (mems a r) && nodup_s r end.

Definition mod_names (t : table) : list str := map m_name (t_mods t).
Definition unit_scope (t : table) : list str := mod_names t ++ map fst (t_types t).
Definition all_scopes (t : table) : list (list str) :=
  unit_scope t :: map snd (t_types t) ++ flat_map m_scopes (t_mods t).

Definition defined_once_b (t : table) : bool := nodup_s (mod_names t).
Definition insts_defined_b (t : table) : bool :=
  forallb (fun m => forallb (fun i => mems i (mod_names t)) (m_insts m)) (t_mods t).
Definition idents_legal_b (t : table) : bool := forallb (forallb legal_b) (all_scopes t).
Definition scopes_unique_b (t : table) : bool := forallb nodup_s (all_scopes t).

Definition modules_ok (t : table) : bool :=
  defined_once_b t && insts_defined_b t && idents_legal_b t && scopes_unique_b t.

(* sharing: an instance = (module name it is given in the hierarchy, interned body it has when translated alone) *)
Definition inst := (str * Z)%type.
Definition body_of (t : table) (n : str) : option Z :=
  option_map m_body (find (fun m => str_eqb (m_name m) n) (t_mods t)).
Definition sharing_ok (t : table) (l : list inst) : bool :=
  forallb (fun i => match body_of t (fst i) with Some b => b =? snd i | None => false end) l.

(* ------------------------------------------------------------------ (c) first-wins dictionary *)
Fixpoint dlookup (n : str) (d : list inst) : option Z :=
  match d with [] => None | kb :: r => if str_eqb (fst kb) n then Some (snd kb) else dlookup n r end.
Definition dinsert (d : list inst) (i : inst) : list inst :=          (* if name not in components: components[name] = body *)
  match dlookup (fst i) d with Some _ => d | None => d ++ [i] end.
Definition first_wins (l : list inst) : list inst := fold_left dinsert l [].
Definition functional_b (l : list inst) : bool :=
  forallb (fun a => forallb (fun b => negb (str_eqb (fst a) (fst b)) || (snd a =? snd b)) l) l.

(* ------------------------------------------------------------------ (d) canonical order *)
Fixpoint str_leb (a b : str) : bool :=          (* Python's str <= on ASCII text: lexicographic on code points *)
  match a, b with
  | [], _ => true
  | _ :: _, [] => false
  | x :: a', y :: b' =>
      if (N_of_ascii x <? N_of_ascii y)%N then true
      else if (N_of_ascii x =? N_of_ascii y)%N then str_leb a' b' else false
  end.

Section Sort.
Context {A : Type}.
Variable key : A -> str.
Fixpoint insert_by (x : A) (l : list A) : list A :=
  match l with
  | [] => [x]
  | y :: r => if str_leb (key x) (key y) then x :: l else y :: insert_by x r
  end.
Definition sort_by (l : list A) : list A := fold_right insert_by [] l.
End Sort.

(* text = rendering of the name-sorted collection, then rendering of the construction-ordered list *)
Definition layout {A B : Type} (key : A -> str) (ra : A -> str) (rb : B -> str)
                  (named : list A) (ordered : list B) : str :=
  List.concat (map ra (sort_by key named)) ++ List.concat (map rb ordered).
