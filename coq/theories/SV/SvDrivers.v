(* SV/SvDrivers.v — who drives which bit (model for the certified acceptor sv_single_driver; proofs in SvProofs.v).
   Definitions only.

   Every variable is viewed as a flat bit vector: element e (row-major over the unpacked dimensions, element 0 first)
   occupies bits [e*W, (e+1)*W) where W is the packed width.  A driver is one of
       an input port                      (drives the whole variable)
       one continuous assign              (drives the bits its target selects)
       one always block                   (drives the union of the targets of all assignments in its body)
       one output port of one instance    (drives the bits the connected expression selects)
   A target whose indices are all constant expressions (literals, localparams, casts and arithmetic of those)
   drives exactly the selected bits; as soon as one index is not constant (a signal or a loop variable) the target
   is charged with the WHOLE variable — the "longest static prefix" rule of IEEE 1800-2017 §11.5.3.          *)
From PV Require Import Base.Prelude Bits.BitsSpec SV.SvSyntax SV.SvSizing SV.SvEval.
Open Scope Z_scope.

Definition ivl := (ident * Z * Z)%type.          (* variable, lo, hi : bits lo <= b < hi of the flat view *)
Definition iv_var (i : ivl) : ident := fst (fst i).
Definition iv_lo (i : ivl) : Z := snd (fst i).
Definition iv_hi (i : ivl) : Z := snd i.
Definition in_ivl (x : ident) (b : Z) (i : ivl) : bool := Pos.eqb x (iv_var i) && (iv_lo i <=? b) && (b <? iv_hi i).
Definition ivl_overlap (a b : ivl) : bool :=
  Pos.eqb (iv_var a) (iv_var b) && (iv_lo a <? iv_hi b) && (iv_lo b <? iv_hi a) && (iv_lo a <? iv_hi a) && (iv_lo b <? iv_hi b).

(* constant expressions: no identifier other than a localparam *)
Fixpoint cexpr (isp : ident -> bool) (e : expr) {struct e} : bool :=
  match e with
  | ELit _ _ | ENum _ => true
  | EId x => isp x
  | EMember a _ | ERange a _ _ | ERepl _ a | EUn _ a | ECast _ a => cexpr isp a
  | EIndex a b | EPlusRange a b _ | EBin _ a b => cexpr isp a && cexpr isp b
  | EConcat es => (fix all (l : list expr) : bool := match l with [] => true | x :: r => cexpr isp x && all r end) es
  | ECond c a b => cexpr isp c && cexpr isp a && cexpr isp b
  end.
Fixpoint lv_root (e : expr) : option ident :=
  match e with
  | EId x => Some x
  | EMember a _ | EIndex a _ | ERange a _ _ | EPlusRange a _ _ => lv_root a
  | _ => None
  end.
Fixpoint lv_const (isp : ident -> bool) (e : expr) : bool :=
  match e with
  | EId _ => true
  | EMember a _ | ERange a _ _ => lv_const isp a
  | EIndex a i => lv_const isp a && cexpr isp i
  | EPlusRange a b _ => lv_const isp a && cexpr isp b
  | _ => false
  end.

Fixpoint flat_index (idx dims : list Z) (acc : Z) : Z :=
  match idx, dims with
  | i :: ir, d :: dr => flat_index ir dr (acc * d + i)
  | _, _ => acc
  end.
Definition ref_ivl (te : tenv) (rr : rref) : list ivl :=
  match PM.find (r_var rr) te with
  | Some (t, ds) =>
      let W := pwidth t in
      let k := flat_index (r_idx rr) ds 0 in
      match r_dims rr with
      | [] => [(r_var rr, k * W + r_lo rr, k * W + r_lo rr + pwidth (r_ty rr))]
      | rd => [(r_var rr, k * prodz rd * W, (k + 1) * prodz rd * W)]
      end
  | None => []
  end.
Definition whole (te : tenv) (x : ident) : list ivl :=
  match PM.find x te with Some vt => [(x, 0, vbits vt)] | None => [] end.
(* bits driven by an assignment target; pen = environment holding the localparams *)
Definition lv_fp (te : tenv) (pen : env) (isp : ident -> bool) (l : expr) : list ivl :=
  if lv_const isp l then
    match resolve te pen l with Some rr => ref_ivl te rr | None => [] end
  else match lv_root l with Some x => whole te x | None => [] end.

Fixpoint stmt_fp (te : tenv) (pen : env) (isp : ident -> bool) (s : stmt) {struct s} : list ivl :=
  match s with
  | SBlocking l _ | SNonBlocking l _ => lv_fp te pen isp l
  | SIf _ t f =>
      (fix go (l : list stmt) : list ivl := match l with [] => [] | x :: r => stmt_fp te pen isp x ++ go r end) t ++
      (fix go (l : list stmt) : list ivl := match l with [] => [] | x :: r => stmt_fp te pen isp x ++ go r end) f
  | SFor v _ _ _ _ _ body =>
      whole te v ++
      (fix go (l : list stmt) : list ivl := match l with [] => [] | x :: r => stmt_fp te pen isp x ++ go r end) body
  end.

Inductive dkind : Type :=
| KInput  (p : ident)
| KAssign (n : nat)                   (* n-th item of the module *)
| KBlock  (label : ident)
| KInst   (inst port : ident).
Definition driver := (dkind * list ivl)%type.

Definition is_param (m : module) (x : ident) : bool := existsb (fun p => Pos.eqb (d_id (fst p)) x) (m_params m).

Definition item_drivers (F : file) (m : module) (te : tenv) (pen : env) (n : nat) (it : item) : list driver :=
  let isp := is_param m in
  match it with
  | IAssign l _ => [(KAssign n, lv_fp te pen isp l)]
  | IComb lab b | IFF lab b => [(KBlock lab, flat_map (stmt_fp te pen isp) b)]
  | IInst mn inst conns =>
      match find_module F mn with
      | Some cm =>
          flat_map (fun c => match port_dir cm (fst c) with
                             | Some (DOut, _) => [(KInst inst (fst c), lv_fp te pen isp (snd c))]
                             | _ => []
                             end) conns
      | None => []
      end
  end.
Fixpoint items_drivers (F : file) (m : module) (te : tenv) (pen : env) (n : nat) (its : list item) : list driver :=
  match its with
  | [] => []
  | it :: r => item_drivers F m te pen n it ++ items_drivers F m te pen (S n) r
  end.
Definition drivers (F : file) (m : module) : list driver :=
  let te := mod_tenv m in
  let pen := ms_env (init_state 1 F m) in
  map (fun dp => (KInput (d_id (snd dp)), whole te (d_id (snd dp))))
      (filter (fun dp => match fst dp with DIn => true | DOut => false end) (m_ports m))
  ++ items_drivers F m te pen 0 (m_items m).

Definition drives (d : driver) (x : ident) (b : Z) : bool := existsb (in_ivl x b) (snd d).

Definition fp_disjoint (f g : list ivl) : bool := forallb (fun a => forallb (fun b => negb (ivl_overlap a b)) g) f.
Fixpoint pairwise_disjoint (ds : list driver) : bool :=
  match ds with
  | [] => true
  | d :: r => forallb (fun d' => fp_disjoint (snd d) (snd d')) r && pairwise_disjoint r
  end.
(* coverage of [0, total) is decided on the candidate points 0 and every interval end: an uncovered bit would make the
   least uncovered bit one of these (SvProofs.var_driven_sound) *)
Definition all_ivls (ds : list driver) : list ivl := flat_map snd ds.
Definition covered (ds : list driver) (x : ident) (b : Z) : bool := existsb (fun d => drives d x b) ds.
Definition cand_points (ds : list driver) (x : ident) (total : Z) : list Z :=
  0 :: map iv_hi (filter (fun i => Pos.eqb x (iv_var i) && (0 <? iv_hi i) && (iv_hi i <? total)) (all_ivls ds)).
Definition var_driven (ds : list driver) (dc : vdecl) : bool :=
  let total := vbits (d_ty dc, d_dims dc) in
  (total <=? 0) || forallb (covered ds (d_id dc)) (cand_points ds (d_id dc) total).

Definition sv_no_multi_driver (F : file) (m : module) : bool := pairwise_disjoint (drivers F m).
Definition sv_all_driven (F : file) (m : module) : bool := forallb (var_driven (drivers F m)) (mod_vars m).
Definition sv_single_driver (F : file) (m : module) : bool := sv_no_multi_driver F m && sv_all_driven F m.

(* diagnostics for the harness: pairs of drivers that collide (with one variable they share), variables with an undriven bit *)
Definition first_overlap (f g : list ivl) : option ident :=
  match find (fun a => existsb (ivl_overlap a) g) f with Some a => Some (iv_var a) | None => None end.
Fixpoint collisions (ds : list driver) : list (dkind * dkind * ident) :=
  match ds with
  | [] => []
  | d :: r =>
      flat_map (fun d' => match first_overlap (snd d) (snd d') with Some x => [(fst d, fst d', x)] | None => [] end) r
      ++ collisions r
  end.
Definition undriven (F : file) (m : module) : list ident :=
  map d_id (filter (fun dc => negb (var_driven (drivers F m) dc)) (mod_vars m)).
