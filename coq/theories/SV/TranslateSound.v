(* SV/TranslateSound.v — soundness of the translator model SV/Translate.v: evaluating the emitted SystemVerilog in OUR
   IEEE-1800 semantics (SV/SvSizing.v, SV/SvEval.v) gives what the PyMTL simulator semantics RTL/Eval.v computes.  No axioms.

   tr_expr_sound     for every expression accepted by the acceptor Translate.sv_ok, in corresponding environments, whenever
                     the simulator evaluates e to a value (no python exception):
                       VBits n u : the emitted expression has self-determined width n and evaluates (context-determined
                                   evaluation at its own width = the width of an assignment target of that width) to u;
                       VInt z    : the emitted expression evaluates to z at its self-determined width and at every wider one.
                     By induction over all 18 expression constructors of RTL/Syntax.v. *)
From Coq Require Import FMapPositive.
From PV Require Import Base.Prelude Bits.BitsSpec Bits.BitsLemmas Bits.SpecFacts Bits.Helpers
                       RTL.Syntax RTL.Eval RTL.Typing SV.Translate.
From PV Require SV.SvSyntax SV.SvSizing SV.SvEval SV.SvProofs.
Open Scope Z_scope.

Module P := PV.SV.SvProofs.

(* ------------------------------------------------------------------ borrowed statements
   expr_ind', path_eqb_eq, expr_eqb_eq, div_pow_bound, lor_shiftl_add', concat_spec_range', concat_fold_acc' are the
   statements (and proofs) of RTL/TypingSound.v, repeated here so that this file depends only on the MODEL files
   RTL/Syntax.v, RTL/Eval.v, RTL/Typing.v and not on the proof files of another property. *)
Section ExprInd.
  Variable P : expr -> Prop.
  Hypothesis HSig : forall s p, P (ESig s p).
  Hypothesis HLit : forall z, P (ELit z).
  Hypothesis HSized : forall n z, P (ESized n z).
  Hypothesis HFree : forall z, P (EFree z).
  Hypothesis HCast : forall n a, P a -> P (ECast n a).
  Hypothesis HBin : forall op a b, P a -> P b -> P (EBin op a b).
  Hypothesis HCmp : forall op a b, P a -> P b -> P (ECmp op a b).
  Hypothesis HInv : forall a, P a -> P (EInv a).
  Hypothesis HSlice : forall a lo hi, P a -> P lo -> P hi -> P (ESlice a lo hi).
  Hypothesis HIdx : forall a i, P a -> P i -> P (EIdx a i).
  Hypothesis HConcat : forall es, Forall P es -> P (EConcat es).
  Hypothesis HZext : forall n a, P a -> P (EZext n a).
  Hypothesis HSext : forall n a, P a -> P (ESext n a).
  Hypothesis HTrunc : forall n a, P a -> P (ETrunc n a).
  Hypothesis HRed : forall op a, P a -> P (ERed op a).
  Hypothesis HIf : forall c a b, P c -> P a -> P b -> P (EIf c a b).
  Hypothesis HTmp : forall i, P (ETmp i).
  Hypothesis HLoop : forall i, P (ELoop i).
  Fixpoint expr_ind' (e : expr) : P e :=
    match e with
    | ESig s p => HSig s p | ELit z => HLit z | ESized n z => HSized n z | EFree z => HFree z
    | ECast n a => HCast n a (expr_ind' a)
    | EBin op a b => HBin op a b (expr_ind' a) (expr_ind' b)
    | ECmp op a b => HCmp op a b (expr_ind' a) (expr_ind' b)
    | EInv a => HInv a (expr_ind' a)
    | ESlice a lo hi => HSlice a lo hi (expr_ind' a) (expr_ind' lo) (expr_ind' hi)
    | EIdx a i => HIdx a i (expr_ind' a) (expr_ind' i)
    | EConcat es => HConcat es ((fix go (l : list expr) : Forall P l :=
                                   match l with [] => Forall_nil P | x :: r => Forall_cons x (expr_ind' x) (go r) end) es)
    | EZext n a => HZext n a (expr_ind' a) | ESext n a => HSext n a (expr_ind' a)
    | ETrunc n a => HTrunc n a (expr_ind' a) | ERed op a => HRed op a (expr_ind' a)
    | EIf c a b => HIf c a b (expr_ind' c) (expr_ind' a) (expr_ind' b)
    | ETmp i => HTmp i | ELoop i => HLoop i
    end.
End ExprInd.

Lemma path_eqb_eq p q : path_eqb p q = true -> p = q.
Proof.
  revert q; induction p as [|x p IH]; intros [|y q]; cbn; try discriminate; [reflexivity|].
  intros H. apply andb_prop in H as [H1 H2]. apply Nat.eqb_eq in H1. f_equal; auto.
Qed.

Lemma expr_eqb_eq x : forall y, expr_eqb x y = true -> x = y.
Proof.
  induction x using expr_ind'; intros y Hy; destruct y; cbn [expr_eqb] in Hy; try discriminate;
    repeat match goal with H : _ && _ = true |- _ => apply andb_prop in H as [? ?] end;
    repeat match goal with
           | H : (_ =? _) = true |- _ => apply Z.eqb_eq in H; subst
           | H : Nat.eqb _ _ = true |- _ => apply Nat.eqb_eq in H; subst
           | H : path_eqb _ _ = true |- _ => apply path_eqb_eq in H; subst
           end;
    try (f_equal; auto; fail).
  - (* EBin *) f_equal; auto. destruct op, op0; try discriminate; reflexivity.
  - (* ECmp *) f_equal; auto. destruct op, op0; try discriminate; reflexivity.
  - (* EConcat *) f_equal. revert es0 Hy. induction H as [|x r Hx Hr IH]; intros [|y r'] Hy; try discriminate; [reflexivity|].
    apply andb_prop in Hy as [H1 H2]. f_equal; auto.
  - (* ERed *) f_equal; auto. destruct op, op0; try discriminate; reflexivity.
Qed.

Lemma div_pow_bound x y w : 0 <= x < 2 ^ w -> 0 <= y -> 0 <= x / 2 ^ y < 2 ^ w.
Proof.
  intros Hx Hy. assert (0 < 2 ^ y) by (apply pow2_gt0; lia). split.
  - apply Z.div_pos; lia.
  - apply Z.div_lt_upper_bound; [lia|]. nia.
Qed.

Lemma lor_shiftl_add' v xn xu : 0 <= xn -> 0 <= xu < 2 ^ xn -> Z.lor (Z.shiftl v xn) xu = v * 2 ^ xn + xu.
Proof.
  intros Hn Hu. rewrite <- shiftl_mul by lia.
  assert (L : Z.land (Z.shiftl v xn) xu = 0).
  { apply Z.bits_inj'. intros i Hi. rewrite Z.land_spec, Z.bits_0, Z.shiftl_spec by lia.
    destruct (Z.ltb_spec i xn).
    - rewrite Z.testbit_neg_r by lia. reflexivity.
    - rewrite (testbit_high xu xn i) by lia. apply Bool.andb_false_r. }
  rewrite <- Z.lxor_lor by exact L. symmetry. apply Z.add_nocarry_lxor. exact L.
Qed.

Definition wfpair (x : Z * Z) : Prop := wfn (fst x) /\ inrange (fst x) (snd x).

Lemma concat_spec_range' xs : Forall wfpair xs ->
  0 <= fst (concat_spec xs) /\ 0 <= snd (concat_spec xs) < 2 ^ fst (concat_spec xs).
Proof.
  induction 1 as [|[n u] rest [Hn Hu] _ IH]; cbn [concat_spec]; [cbn; lia|].
  unfold wfn, inrange in *. destruct (concat_spec rest) as [n' v']. cbn [fst snd] in *.
  destruct IH as [Hn' Hv']. split; [lia|].
  rewrite Z.pow_add_r by lia. assert (0 < 2 ^ n') by (apply pow2_gt0; lia). nia.
Qed.

Lemma concat_fold_acc' xs : Forall wfpair xs -> forall nb v,
  fold_left concat_step xs (nb, v) =
    (nb + fst (concat_spec xs), v * 2 ^ fst (concat_spec xs) + snd (concat_spec xs)).
Proof.
  induction 1 as [|[n u] rest [Hn Hu] Hrest IH]; intros nb v; cbn [fold_left concat_spec].
  - cbn. f_equal; lia.
  - unfold concat_step at 2. unfold wfn, inrange in *. cbn [fst snd] in *. rewrite IH.
    pose proof (concat_spec_range' rest Hrest) as [Hn' Hv'].
    destruct (concat_spec rest) as [n' v']. cbn [fst snd] in *.
    rewrite lor_shiftl_add' by lia. f_equal; [lia|].
    rewrite Z.pow_add_r by lia. lia.
Qed.

(* ------------------------------------------------------------------ arithmetic helpers *)
Lemma pow2_mono a b : 0 <= a <= b -> 2 ^ a <= 2 ^ b.
Proof. intros H. apply Z.pow_le_mono_r; lia. Qed.

Lemma pow2_nonneg_of_lt z w : 0 <= z < 2 ^ w -> 0 <= w.
Proof.
  intros H. destruct (Z.ltb_spec w 0) as [L|L]; [|exact L].
  rewrite Z.pow_neg_r in H by exact L. lia.
Qed.

Lemma tr_small W x : 0 <= x < 2 ^ W -> Z'.tr W x = x.
Proof. exact (P.tr_small W x). Qed.

Lemma tr_fit W w x : 0 <= x < 2 ^ w -> w <= W -> Z'.tr W x = x.
Proof.
  intros H L. apply tr_small. pose proof (pow2_nonneg_of_lt _ _ H). pose proof (pow2_mono w W ltac:(lia)). lia.
Qed.

(* bits [l, l+k) of a field that sits at offset o of a packed value *)
Lemma slice_of_field U o w l k : 0 <= o -> 0 <= l -> 0 <= k -> l + k <= w ->
  (((U / 2 ^ o) mod 2 ^ w) / 2 ^ l) mod 2 ^ k = (U / 2 ^ (o + l)) mod 2 ^ k.
Proof.
  intros Ho Hl Hk Hw. apply Z.bits_inj'. intros i Hi.
  destruct (Z.ltb_spec i k) as [L|L].
  - rewrite !Z.mod_pow2_bits_low by lia. rewrite !Z.div_pow2_bits by lia.
    rewrite Z.mod_pow2_bits_low by lia. rewrite Z.div_pow2_bits by lia. f_equal; lia.
  - rewrite !Z.mod_pow2_bits_high by lia. reflexivity.
Qed.

(* parity of the low k bits = what helpers.reduce_xor's loop computes.  (Same statements as Bits/HelpersProofs.v
   xor_bits_shift / xor_bits_0 / popcount_parity / reduce_xor_ok; repeated here so that this file does not depend on the
   generated models under Gen/, which that file is also about.) *)
Lemma xor_bits_shift k u : 0 <= u -> xor_bits (S k) u = xorb (Z.odd u) (xor_bits k (Z.shiftr u 1)).
Proof.
  intros Hu. induction k as [|j IH].
  - cbn [xor_bits]. change (Z.of_nat 0) with 0. rewrite Z.bit0_odd. reflexivity.
  - change (xor_bits (S (S j)) u) with (xorb (Z.testbit u (Z.of_nat (S j))) (xor_bits (S j) u)).
    rewrite IH. change (xor_bits (S j) (Z.shiftr u 1)) with
      (xorb (Z.testbit (Z.shiftr u 1) (Z.of_nat j)) (xor_bits j (Z.shiftr u 1))).
    rewrite Z.shiftr_spec by lia. replace (Z.of_nat j + 1) with (Z.of_nat (S j)) by lia.
    destruct (Z.testbit u (Z.of_nat (S j))), (Z.odd u), (xor_bits j (Z.shiftr u 1)); reflexivity.
Qed.
Lemma xor_bits_0 k : xor_bits k 0 = false.
Proof. induction k; cbn; [reflexivity|]. rewrite Z.bits_0, IHk. reflexivity. Qed.
Lemma popcount_parity k : forall u pc, 0 <= u < 2 ^ Z.of_nat k ->
  Z.odd (popcount_loop k u pc) = xorb (Z.odd pc) (xor_bits k u).
Proof.
  induction k as [|j IH]; intros u pc Hu.
  - cbn. destruct (Z.odd pc); reflexivity.
  - cbn [popcount_loop]. destruct (Z.eqb_spec u 0) as [->|Hne].
    + rewrite xor_bits_0. destruct (Z.odd pc); reflexivity.
    + rewrite IH.
      * rewrite xor_bits_shift by lia. rewrite Z.odd_add.
        replace (Z.land u 1) with (u mod 2) by (change 1 with (2 ^ 1 - 1) at 1; rewrite land_mask by lia; reflexivity).
        rewrite Zmod_odd. destruct (Z.odd u), (Z.odd pc), (xor_bits j (Z.shiftr u 1)); reflexivity.
      * rewrite shiftr_div by lia. replace (Z.of_nat (S j)) with (Z.of_nat j + 1) in Hu by lia.
        rewrite Z.pow_add_r in Hu by lia. change (2 ^ 1) with 2 in *.
        split; [apply Z.div_pos; lia|]. apply Z.div_lt_upper_bound; lia.
Qed.
Lemma reduce_xor_ok n u : wfn n -> inrange n u -> h_reduce_xor n u = (1, b2z (xor_bits (Z.to_nat n) u)).
Proof.
  unfold wfn, inrange. intros Hn Hu. unfold h_reduce_xor. f_equal.
  change 1 with (2 ^ 1 - 1). rewrite land_mask by lia. change (2 ^ 1) with 2.
  rewrite Zmod_odd. rewrite popcount_parity by (rewrite Z2Nat.id by lia; lia).
  cbn [Z.odd xorb]. destruct (xor_bits (Z.to_nat n) u); reflexivity.
Qed.

Lemma replz_zero n w : Z'.replz n w 0 = 0.
Proof. induction n as [|n IH]; cbn [Z'.replz]; [reflexivity|]. rewrite IH. lia. Qed.

Lemma replz_bit n b : Z'.replz n 1 b = b * (2 ^ Z.of_nat n - 1).
Proof.
  induction n as [|n IH]; cbn [Z'.replz]; [cbn; lia|].
  rewrite IH. rewrite Nat2Z.inj_succ, Z.pow_succ_r by lia. lia.
Qed.

(* ------------------------------------------------------------------ select chains *)
Definition is_concat (t : sexpr) : bool := match t with S.EConcat _ => true | _ => false end.
Definition chain (t : sexpr) : Prop :=
  match t with
  | S.EId _ | S.EMember _ _ => True
  | S.EIndex a _ => is_concat a = false
  | _ => False
  end.
Lemma chain_not_concat t : chain t -> is_concat t = false.
Proof. intros H; destruct t; cbn [chain] in H; try contradiction; reflexivity. Qed.

Lemma chain_eval te en t Wd : chain t ->
  Z'.eval te en Wd t = Z'.tr Wd (Z'.read_bits en (Z'.resolve te en t)).
Proof.
  intros H; destruct t; cbn [chain] in H; try contradiction; cbn [Z'.eval Z'.resolve]; try reflexivity.
  destruct t1; try discriminate; reflexivity.
Qed.

Lemma chain_selfw te t : chain t ->
  Z'.selfw te t = match Z'.type_of te t with Some (ty, []) => S.pwidth ty | _ => 0 end.
Proof. intros H; destruct t; cbn [chain] in H; try contradiction; reflexivity. Qed.

Lemma chain_fold (l : list (Z * Z)) : forall acc, chain acc ->
  chain (fold_left (fun e wk => S.EIndex e (S.ELit (fst wk) (snd wk))) l acc).
Proof.
  induction l as [|x r IH]; intros acc H; cbn [fold_left]; [exact H|].
  apply IH. cbn [chain]. apply chain_not_concat. exact H.
Qed.
Lemma chain_fields nm s : forall rest done acc, chain acc -> chain (tr_fields nm s done rest acc).
Proof. induction rest as [|f r IH]; intros done acc H; cbn [tr_fields]; [exact H|]. apply IH. exact I. Qed.
Lemma chain_sig nm s p : chain (tr_sig nm s p).
Proof. unfold tr_sig, tr_root. apply chain_fields. apply chain_fold. exact I. Qed.

(* sext_attach / red_attach on a select chain are the intended trees *)
Lemma sext_attach_chain t k : chain t -> sext_attach t k = S.EIndex t (S.ENum k).
Proof. intros H; destruct t; cbn [chain] in H; try contradiction; reflexivity. Qed.

(* ------------------------------------------------------------------ corresponding environments *)
Section Sound.
Variable nm : names.
Variable E : tenv.
Variable te : Z'.tenv.
Variable st : state.
Variable en : Z'.env.
Notation G := (tsig E).
Notation W := (Z'.selfw te).
Notation T := (tr_expr nm E).
Notation ev := (Z'.eval te en).

(* every declared signal / field (s, p): its emitted spelling denotes a packed place of the field's width whose current
   content is the field's current content in the simulator state *)
Definition sig_corr : Prop := forall s p f, lookup_sig G s p = Some f ->
  exists rr u, Z'.resolve te en (tr_sig nm s p) = Some rr /\ Z'.r_dims rr = [] /\
    Z'.type_of te (tr_sig nm s p) = Some (Z'.r_ty rr, []) /\ S.pwidth (Z'.r_ty rr) = fw f /\ 0 < fw f < 1024 /\
    (fstruct f = None -> Z'.r_ty rr = S.PBits (fw f)) /\ 0 <= Z'.r_lo rr /\
    Z'.vget (Z'.lookup en (Z'.r_var rr)) (Z'.r_idx rr) = Z'.VZ u /\
    (u / 2 ^ Z'.r_lo rr) mod 2 ^ fw f = (sigv st s / 2 ^ flo f) mod 2 ^ fw f.

(* temporaries: a scalar variable of the temporary's width holding the same number; a Bits value only in an explicit one *)
Definition tmp_corr : Prop := forall i w ex mi bo, ttmp E i = Some (w, ex, mi, bo) ->
  PositiveMap.find (n_tmp nm i) te = Some (S.PBits w, []) /\ 0 < w < 1024 /\
  forall v, tmpv st i = Some v ->
    match v with
    | VBits n u => n = w /\ ex = true /\ 0 <= u < 2 ^ w /\ Z'.lookup en (n_tmp nm i) = Z'.VZ u
    | VInt z => mi = true /\ 0 <= z < 2 ^ w /\ Z'.lookup en (n_tmp nm i) = Z'.VZ z
    end.

(* loop variables: the 32-bit counter of the emitted for statement holds the python loop variable *)
Definition loop_corr : Prop := forall i w, tloop E i = Some w ->
  PositiveMap.find (n_loop nm i) te = Some (S.PBits 32, []) /\
  forall z, loopv st i = Some z -> 0 <= z < 2 ^ w /\ z < 2 ^ 32 /\ Z'.lookup en (n_loop nm i) = Z'.VZ z.

Definition corr : Prop := sig_corr /\ tmp_corr /\ loop_corr.

(* ------------------------------------------------------------------ the invariant *)
Definition agree (ctx : option Z) (e : expr) (v : value) : Prop :=
  let t := T ctx e in
  match v with
  | VBits n u => wfn n /\ W t = n /\ ev n t = u
  | VInt z => mayint E e = true /\ 0 <= z < 2 ^ W t /\ (forall m, ubound E e = Some m -> z <= m) /\
              forall Wd, W t <= Wd -> ev Wd t = z
  end.
Definition sound_expr (e : expr) : Prop :=
  forall ctx v, sv_ok te nm E ctx e = true -> eval G st e = Ok v -> agree ctx e v.

Lemma ev_range n t : 0 <= n -> 0 <= ev n t < 2 ^ n.
Proof. apply P.sv_eval_range. Qed.

Lemma agree_bits_range ctx e n u : agree ctx e (VBits n u) -> 0 <= u < 2 ^ n.
Proof. intros (Hn & _ & <-). apply ev_range. unfold wfn in Hn. lia. Qed.

(* whatever the kind of value: at its self-determined width the emitted expression evaluates to the number *)
Lemma agree_at ctx e v : agree ctx e v ->
  ev (W (T ctx e)) (T ctx e) = value_int v /\ 0 <= value_int v < 2 ^ W (T ctx e).
Proof.
  destruct v as [n u|z]; cbn [agree value_int].
  - intros (Hn & Hw & Hu). rewrite Hw. split; [exact Hu|]. rewrite <- Hu. apply ev_range. unfold wfn in Hn; lia.
  - intros (_ & Hz & _ & Hev). split; [apply Hev; lia|exact Hz].
Qed.
Lemma agree_wnonneg ctx e v : agree ctx e v -> 0 <= W (T ctx e).
Proof. intros H. destruct (agree_at _ _ _ H) as [_ R]. exact (pow2_nonneg_of_lt _ _ R). Qed.
(* ... and at every wider width when it is a python int *)
Lemma agree_int_at ctx e z Wd : agree ctx e (VInt z) -> W (T ctx e) <= Wd -> ev Wd (T ctx e) = z.
Proof. intros (_ & _ & _ & H). apply H. Qed.

Lemma truthy_agree ctx e v : agree ctx e v -> Z'.truthy (ev (W (T ctx e)) (T ctx e)) = truthy v.
Proof. intros H. destruct (agree_at _ _ _ H) as [-> _]. reflexivity. Qed.

(* ------------------------------------------------------------------ static analyses *)
Lemma cval_sound e : forall c, cval e = Some c -> eval G st e = Ok (VInt c).
Proof.
  induction e using expr_ind'; intros c Hc; cbn [cval] in Hc; try discriminate.
  - injection Hc as <-. reflexivity.
  - injection Hc as <-. reflexivity.
  - destruct (cval e1) as [x|]; [|discriminate]. destruct (cval e2) as [y|]; [|discriminate].
    cbn [eval]. rewrite (IHe1 x eq_refl), (IHe2 y eq_refl). cbn [bind eval_bin].
    destruct (eval_int_bin op x y) as [[n u|z]|]; try discriminate. injection Hc as <-. reflexivity.
Qed.

Lemma defint_sound e : defint e = true -> forall v, eval G st e = Ok v -> exists z, v = VInt z.
Proof.
  induction e using expr_ind'; intros Hd v Hev; cbn [defint] in Hd; try discriminate; cbn [eval] in Hev.
  - injection Hev as <-. eauto.
  - injection Hev as <-. eauto.
  - apply andb_prop in Hd as [H1 H2].
    destruct (eval G st e1) as [x|]; [|discriminate]. destruct (eval G st e2) as [y|]; [|discriminate]. cbn [bind] in Hev.
    destruct (IHe1 H1 x eq_refl) as [j ->]. destruct (IHe2 H2 y eq_refl) as [k ->]. cbn [eval_bin] in Hev.
    unfold eval_int_bin in Hev. destruct op; try discriminate;
      repeat match type of Hev with context [if ?c then _ else _] => destruct c end; try discriminate; injection Hev as <-; eauto.
  - apply andb_prop in Hd as [H1 H2].
    destruct (eval G st e1) as [x|]; [|discriminate]. destruct (eval G st e2) as [y|]; [|discriminate]. cbn [bind] in Hev.
    destruct (IHe1 H1 x eq_refl) as [j ->]. destruct (IHe2 H2 y eq_refl) as [k ->]. cbn [eval_cmp] in Hev.
    injection Hev as <-. eauto.
  - apply andb_prop in Hd as [H1 H2].
    destruct (eval G st e1) as [vc|]; [|discriminate]. cbn [bind] in Hev.
    destruct (truthy vc); [apply (IHe2 H1 v Hev)|apply (IHe3 H2 v Hev)].
  - destruct (loopv st i); [|discriminate]. injection Hev as <-. eauto.
Qed.

(* ------------------------------------------------------------------ leaves *)
Hypothesis HC : corr.

Lemma lit_eval w z Wd : 0 <= z < 2 ^ w -> w <= Wd -> ev Wd (S.ELit w z) = z.
Proof.
  intros Hz Hw. cbn [Z'.eval]. rewrite (tr_small w z Hz). apply (tr_fit Wd w z Hz Hw).
Qed.

Lemma scalar_read x w u : PositiveMap.find x te = Some (S.PBits w, []) -> Z'.lookup en x = Z'.VZ u -> 0 <= u < 2 ^ w ->
  W (S.EId x) = w /\ forall Wd, ev Wd (S.EId x) = Z'.tr Wd u.
Proof.
  intros Hf Hl Hu. split.
  - cbn [Z'.selfw Z'.type_of]. rewrite Hf. reflexivity.
  - intros Wd. cbn [Z'.eval]. unfold Z'.ref_id. rewrite Hf. cbn [Z'.read_bits Z'.r_dims Z'.r_var Z'.r_idx Z'.vget].
    rewrite Hl. cbn [Z'.r_lo Z'.r_ty S.pwidth]. rewrite Z.pow_0_r, Z.div_1_r, Z.mod_small by exact Hu. reflexivity.
Qed.

Lemma cast_eval Wf a Wd : ev Wd (S.ECast Wf a) = Z'.tr Wd (Z'.tr Wf (ev (Z.max Wf (W a)) a)).
Proof. reflexivity. Qed.

Lemma cast_id_eval x w u Wf Wd : PositiveMap.find x te = Some (S.PBits w, []) -> Z'.lookup en x = Z'.VZ u -> 0 <= u < 2 ^ w ->
  u < 2 ^ Wf -> Wf <= Wd -> ev Wd (S.ECast Wf (S.EId x)) = u.
Proof.
  intros Hf Hl Hu Hwf Hwd. destruct (scalar_read x w u Hf Hl Hu) as [Hs Hr].
  rewrite cast_eval, Hs, Hr.
  rewrite (tr_fit (Z.max Wf w) w u Hu ltac:(lia)).
  rewrite (tr_small Wf u ltac:(lia)). apply (tr_fit Wd Wf u ltac:(lia) Hwd).
Qed.

Lemma sound_ESig s p : sound_expr (ESig s p).
Proof.
  intros ctx v _ Hev. cbn [eval] in Hev. destruct (lookup_sig G s p) as [f|] eqn:L; [|discriminate].
  injection Hev as <-. destruct HC as (HS & _ & _).
  destruct (HS s p f L) as (rr & u & Hres & Hd & Hty & Hpw & Hfw & _ & Hlo & Hget & Hval).
  unfold read_field. cbn [agree tr_expr].
  pose proof (chain_sig nm s p) as Hch.
  split; [unfold wfn; lia|]. split.
  - rewrite chain_selfw by exact Hch. rewrite Hty. exact Hpw.
  - rewrite chain_eval by exact Hch. rewrite Hres. cbn [Z'.read_bits]. rewrite Hd, Hget, Hpw, Hval.
    apply tr_small. apply Z.mod_pos_bound. apply pow2_gt0; lia.
Qed.

Lemma sound_ELit z : sound_expr (ELit z).
Proof.
  intros ctx v Hok Hev. cbn [eval] in Hev. injection Hev as <-. cbn [sv_ok] in Hok.
  cbn [agree tr_expr mayint ubound Z'.selfw]. split; [reflexivity|]. split; [lia|]. split.
  - intros m [= <-]. lia.
  - intros Wd Hwd. apply lit_eval; lia.
Qed.

Lemma sound_ESized n z : sound_expr (ESized n z).
Proof.
  intros ctx v _ Hev. cbn [eval] in Hev. unfold eval_cast, vbits, spec_init in Hev. cbn [to_operand] in Hev.
  destruct ((n <? 1) || (1024 <=? n)) eqn:Hn; [discriminate|]. cbn [spec_store] in Hev.
  destruct (fits n z); [|discriminate]. cbn [bind fst snd] in Hev. injection Hev as <-.
  cbn [agree tr_expr Z'.selfw]. split; [unfold wfn; lia|]. split; [reflexivity|].
  pose proof (Z.mod_pos_bound z (2 ^ n) ltac:(apply pow2_gt0; lia)) as R.
  apply lit_eval; [exact R|lia].
Qed.

Lemma sound_EFree z : sound_expr (EFree z).
Proof.
  intros ctx v Hok Hev. cbn [eval] in Hev. injection Hev as <-. cbn [sv_ok] in Hok.
  cbn [agree tr_expr mayint ubound Z'.selfw]. split; [reflexivity|]. split; [lia|]. split.
  - intros m [= <-]. lia.
  - intros Wd Hwd. cbn [Z'.eval Z'.selfw].
    rewrite (tr_small (nbits_of z) z ltac:(lia)).
    rewrite (tr_fit (Z.max (fwid E ctx (EFree z)) (nbits_of z)) (nbits_of z) z ltac:(lia) ltac:(lia)).
    rewrite (tr_small (fwid E ctx (EFree z)) z ltac:(lia)). apply (tr_fit Wd (fwid E ctx (EFree z)) z); lia.
Qed.

Lemma sound_ETmp i : sound_expr (ETmp i).
Proof.
  intros ctx v Hok Hev. cbn [eval] in Hev. destruct (tmpv st i) as [v0|] eqn:Hv; [|discriminate]. injection Hev as <-.
  cbn [sv_ok] in Hok. destruct (ttmp E i) as [[[[w ex] mi] bo]|] eqn:Ht; [|discriminate].
  apply andb_prop in Hok as [Hfe Hw]. apply eqb_prop in Hfe.
  destruct HC as (_ & HT & _). destruct (HT i w ex mi bo Ht) as (Hfind & Hww & Hval). specialize (Hval v0 Hv).
  unfold agree. cbn [tr_expr]. rewrite Hfe.
  destruct v0 as [n u|z].
  - destruct Hval as (-> & -> & Hu & Hl). destruct (scalar_read _ w u Hfind Hl Hu) as [Hs Hr].
    split; [exact Hww|]. split; [exact Hs|]. rewrite Hr. apply tr_small; exact Hu.
  - destruct Hval as (-> & Hz & Hl). destruct (scalar_read _ w z Hfind Hl Hz) as [Hs Hr].
    cbn [mayint ubound]. rewrite Ht. split; [reflexivity|].
    destruct ex.
    + rewrite Hs. split; [exact Hz|]. split; [intros m [= <-]; lia|]. intros Wd Hwd. rewrite Hr. apply (tr_fit Wd w z Hz Hwd).
    + cbn [orb] in Hw. cbn [Z'.selfw].
      assert (z < 2 ^ fwid E ctx (ETmp i)) as Hzf.
      { pose proof (pow2_mono w (fwid E ctx (ETmp i)) ltac:(lia)). lia. }
      split; [lia|]. split; [intros m [= <-]; lia|]. intros Wd Hwd.
      apply (cast_id_eval _ w z _ Wd Hfind Hl Hz Hzf Hwd).
Qed.

Lemma sound_ELoop i : sound_expr (ELoop i).
Proof.
  intros ctx v Hok Hev. cbn [eval] in Hev. destruct (loopv st i) as [z|] eqn:Hv; [|discriminate]. injection Hev as <-.
  cbn [sv_ok] in Hok. destruct (tloop E i) as [w|] eqn:Ht; [|discriminate].
  destruct HC as (_ & _ & HL). destruct (HL i w Ht) as (Hfind & Hval). destruct (Hval z Hv) as (Hz & Hz32 & Hl).
  cbn [agree tr_expr mayint ubound Z'.selfw]. rewrite Ht. split; [reflexivity|].
  pose proof (pow2_nonneg_of_lt _ _ Hz) as Hw0.
  assert (z < 2 ^ fwid E ctx (ELoop i)) as Hzf.
  { pose proof (pow2_mono w (fwid E ctx (ELoop i)) ltac:(lia)). lia. }
  split; [lia|]. split; [intros m [= <-]; lia|]. intros Wd Hwd.
  apply (cast_id_eval _ 32 z _ Wd Hfind Hl ltac:(lia) Hzf Hwd).
Qed.

(* ------------------------------------------------------------------ binary operators *)
Definition nonshift (op : binop) : bool := match op with Add | Sub | Mul | And | Or | Xor => true | _ => false end.

Lemma nonshift_arith op : nonshift op = true -> Z'.is_arith (tr_binop op) = true.
Proof. destruct op; cbn; congruence. Qed.

Lemma arith_tr op n x y r : nonshift op = true -> 0 <= n -> 0 <= x < 2 ^ n -> 0 <= y < 2 ^ n ->
  arith op n x y = Ok r -> r = Z'.tr n (Z'.bin_arith (tr_binop op) x y).
Proof.
  intros Hop Hn Hx Hy H. destruct op; try discriminate; cbn [arith] in H; injection H as <-; cbn [tr_binop Z'.bin_arith];
    try reflexivity; symmetry; apply tr_small.
  - apply land_range; assumption.
  - apply lor_range; assumption.
  - apply lxor_range; assumption.
Qed.

Lemma bin_arith_comm op x y : match op with Add | Mul | And | Or | Xor => True | _ => False end ->
  Z'.bin_arith (tr_binop op) x y = Z'.bin_arith (tr_binop op) y x.
Proof.
  destruct op; intros []; cbn [tr_binop Z'.bin_arith]; try lia.
  - apply Z.land_comm. - apply Z.lor_comm. - apply Z.lxor_comm.
Qed.

Lemma arith_eval o ta tb Wd : Z'.is_arith o = true ->
  ev Wd (S.EBin o ta tb) = Z'.tr Wd (Z'.bin_arith o (ev Wd ta) (ev Wd tb)).
Proof. intros H. cbn [Z'.eval]. rewrite H. reflexivity. Qed.
Lemma arith_selfw o ta tb : Z'.is_arith o = true -> W (S.EBin o ta tb) = Z.max (W ta) (W tb).
Proof. intros H. cbn [Z'.selfw]. rewrite H. reflexivity. Qed.

Lemma shift_tr op n x y r : is_shift op = true -> 0 <= n -> 0 <= x < 2 ^ n -> 0 <= y ->
  arith op n x y = Ok r ->
  r = Z'.tr n (match tr_binop op with S.BShl => Z'.shl n x y | _ => Z'.shr n x y end).
Proof.
  intros Hop Hn Hx Hy H. destruct op; try discriminate; cbn [arith] in H; injection H as <-; cbn [tr_binop]; unfold Z'.shl, Z'.shr.
  - destruct (n <=? y); [symmetry; apply tr_small; pose proof (pow2_gt0 n Hn); lia|reflexivity].
  - destruct (n <=? y); symmetry; apply tr_small; [pose proof (pow2_gt0 n Hn); lia|apply div_pow_bound; assumption].
Qed.

(* x op other on a Bits value: the operand is a Bits of the same width or an int that fits *)
Lemma spec_binop_inv op n xa y r : spec_binop op n xa (to_operand y) = Ok r ->
  fst r = n /\ arith op n xa (value_int y) = Ok (snd r) /\
  match y with VBits m _ => m = n | VInt k => 0 <= k <= 2 ^ n - 1 end.
Proof.
  destruct y as [m yb|k]; cbn [to_operand spec_binop value_int].
  - destruct (m =? n) eqn:Hm; [|discriminate]. destruct (arith op n xa yb) as [q|]; [|discriminate].
    cbn [bind]. intros [= <-]. cbn. repeat split; lia.
  - unfold int_operand_ok, vhi. destruct ((0 <=? k) && (k <=? 2 ^ n - 1)) eqn:Hk; [|discriminate].
    destruct (arith op n xa k) as [q|]; [|discriminate]. cbn [bind]. intros [= <-]. cbn. repeat split; lia.
Qed.

Lemma sound_EBin op a b : sound_expr a -> sound_expr b -> sound_expr (EBin op a b).
Proof.
  intros IHa IHb ctx v Hok Hev. cbn [sv_ok] in Hok.
  apply andb_prop in Hok as [Hok Hint]. apply andb_prop in Hok as [Hok Hw].
  apply andb_prop in Hok as [Hok Hdiv]. apply andb_prop in Hok as [Hoka Hokb].
  cbn [eval] in Hev. destruct (eval G st a) as [x|] eqn:Ea; [|discriminate].
  destruct (eval G st b) as [y|] eqn:Eb; [|discriminate]. cbn [bind] in Hev.
  pose proof (IHa _ _ Hoka Ea) as Aa. pose proof (IHb _ _ Hokb Eb) as Ab.
  unfold agree. cbn [tr_expr].
  set (ta := T (sub ctx (fst (bin_ctx E op a b))) a) in *. set (tb := T (sub ctx (snd (bin_ctx E op a b))) b) in *.
  destruct (agree_at _ _ _ Aa) as [Eva Ra]. destruct (agree_at _ _ _ Ab) as [Evb Rb]. fold ta in Eva, Ra. fold tb in Evb, Rb.
  destruct x as [n xa|j].
  - (* Bits op _ *)
    cbn [eval_bin] in Hev. unfold vbits in Hev.
    destruct (spec_binop op n xa (to_operand y)) as [r|] eqn:Hs; [|discriminate]. cbn [bind] in Hev. injection Hev as <-.
    destruct (spec_binop_inv _ _ _ _ _ Hs) as (Hr1 & Har & Hy). rewrite Hr1.
    destruct Aa as (Hn & Hwa & Hxa). fold ta in Hwa, Hxa. cbn [value_int] in *. rewrite Hwa in *.
    assert (0 <= n) as Hn0 by (unfold wfn in Hn; lia).
    split; [exact Hn|].
    destruct (is_shift op) eqn:Hsh.
    + (* shifts *)
      assert (W (S.EBin (tr_binop op) ta tb) = n /\
              ev n (S.EBin (tr_binop op) ta tb) =
                Z'.tr n (match tr_binop op with S.BShl => Z'.shl n (ev n ta) (ev (W tb) tb) | _ => Z'.shr n (ev n ta) (ev (W tb) tb) end)) as [Hsw Hse].
      { destruct op; try discriminate; cbn [tr_binop Z'.selfw Z'.eval Z'.is_arith Z'.is_shift]; split; auto. }
      split; [exact Hsw|]. rewrite Hse, Eva, Evb. symmetry. apply (shift_tr op n xa (value_int y) (snd r) Hsh Hn0 Ra ltac:(lia) Har).
    + (* + - * & | ^ *)
      assert (nonshift op = true) as Hns by (destruct op; cbn in *; congruence).
      cbn [orb] in Hw. apply Z.eqb_eq in Hw.
      rewrite (arith_selfw _ ta tb (nonshift_arith _ Hns)), Hwa, <- Hw, Z.max_id. split; [reflexivity|].
      rewrite (arith_eval _ ta tb n (nonshift_arith _ Hns)). rewrite <- Hw in Evb, Rb. rewrite Eva, Evb.
      symmetry. apply (arith_tr op n xa (value_int y) (snd r) Hns Hn0 Ra Rb Har).
  - destruct y as [n yb|k].
    + (* int op Bits *)
      destruct Ab as (Hn & Hwb & Hyb). fold tb in Hwb, Hyb. cbn [value_int] in *. rewrite Hwb in *.
      assert (0 <= n) as Hn0 by (unfold wfn in Hn; lia).
      assert (exists r, arith op n j yb = Ok r /\ v = VBits n r /\ nonshift op = true /\ 0 <= j <= 2 ^ n - 1) as (r & Har & -> & Hns & Hj).
      { cbn [eval_bin] in Hev. unfold vbits in Hev.
        destruct op; try discriminate; cbn [to_operand] in Hev.
        all: try (cbn [spec_binop] in Hev; unfold int_operand_ok, vhi in Hev;
                  destruct ((0 <=? j) && (j <=? 2 ^ n - 1)) eqn:Hk; [|discriminate]; cbn [arith bind fst snd] in Hev;
                  injection Hev as <-; eexists; split; [cbn [arith]; reflexivity|]; split; [f_equal; try (f_equal; lia); try apply Z.land_comm; try apply Z.lor_comm; try apply Z.lxor_comm|split; [reflexivity|lia]]).
        cbn [spec_rbinop] in Hev; unfold int_operand_ok, vhi in Hev.
        destruct ((0 <=? j) && (j <=? 2 ^ n - 1)) eqn:Hk; [|discriminate]. cbn [arith bind fst snd] in Hev.
        injection Hev as <-. eexists; split; [cbn [arith]; reflexivity|]. split; [reflexivity|split; [reflexivity|lia]]. }
      split; [exact Hn|].
      assert (is_shift op = false) as Hsh by (destruct op; cbn in *; congruence). rewrite Hsh in Hw.
      cbn [orb] in Hw. apply Z.eqb_eq in Hw.
      rewrite (arith_selfw _ ta tb (nonshift_arith _ Hns)), Hwb, Hw, Z.max_id. split; [reflexivity|].
      rewrite (arith_eval _ ta tb n (nonshift_arith _ Hns)). rewrite Hw in Eva, Ra. rewrite Eva, Evb.
      symmetry. apply (arith_tr op n j yb r Hns Hn0 Ra Rb Har).
    + (* int op int *)
      destruct Aa as (Hma & _ & Hua & Hia). destruct Ab as (Hmb & _ & Hub & Hib). fold ta in Hia. fold tb in Hib.
      rewrite Hma, Hmb in Hint. cbn [andb negb orb] in Hint. cbn [value_int] in *.
      cbn [mayint]. rewrite Hma, Hmb. cbn [andb].
      pose proof (pow2_nonneg_of_lt _ _ Ra) as Hwa0. pose proof (pow2_nonneg_of_lt _ _ Rb) as Hwb0.
      set (t := S.EBin (tr_binop op) ta tb) in *.
      (* the value is an int below 2^W t, and below the static bound *)
      assert (exists z, v = VInt z /\ 0 <= z < 2 ^ W t /\ forall m, ubound E (EBin op a b) = Some m -> z <= m) as (z & -> & Hz & Hzm).
      { cbn [ubound] in Hint |- *. destruct (cval (EBin op a b)) as [c|] eqn:Hcv.
        - pose proof (cval_sound _ c Hcv) as Hc. cbn [eval] in Hc. rewrite Ea, Eb in Hc. cbn [bind] in Hc.
          rewrite Hc in Hev. injection Hev as <-. exists c. split; [reflexivity|]. split; [lia|]. intros m [= <-]. lia.
        - apply andb_prop in Hint as [Hsub Hm].
          destruct (ubound E a) as [ua|] eqn:Uba; [|discriminate]. destruct (ubound E b) as [ub|] eqn:Ubb; [|discriminate].
          specialize (Hua ua eq_refl). specialize (Hub ub eq_refl).
          cbn [eval_bin] in Hev. unfold eval_int_bin in Hev.
          destruct op; try discriminate.
          + injection Hev as <-. exists (j + k). split; [reflexivity|]. split; [lia|]. intros m [= <-]. lia.
          + injection Hev as <-. assert (0 <= j * k <= ua * ub) by nia.
            exists (j * k). split; [reflexivity|]. split; [lia|]. intros m [= <-]. lia.
          + destruct (k <? 0) eqn:Hk0; [discriminate|]. destruct (int_shift_limit <? k); [discriminate|]. injection Hev as <-.
            destruct (ub <=? 64) eqn:Hub64; [|discriminate].
            assert (0 < 2 ^ k) by (apply pow2_gt0; lia). assert (2 ^ k <= 2 ^ ub) by (apply pow2_mono; lia).
            assert (0 <= j * 2 ^ k <= ua * 2 ^ ub) by nia.
            exists (j * 2 ^ k). split; [reflexivity|]. split; [lia|]. intros m [= <-]. lia.
          + destruct (k <? 0) eqn:Hk0; [discriminate|]. destruct (int_shift_limit <? k); [discriminate|]. injection Hev as <-.
            assert (0 < 2 ^ k) by (apply pow2_gt0; lia).
            assert (0 <= j / 2 ^ k <= j) by (split; [apply Z.div_pos; lia|apply Z.div_le_upper_bound; nia]).
            exists (j / 2 ^ k). split; [reflexivity|]. split; [lia|]. intros m [= <-]. lia. }
      split; [reflexivity|]. split; [exact Hz|]. split; [exact Hzm|]. intros Wd Hwd.
      cbn [eval_bin] in Hev. unfold eval_int_bin in Hev. unfold t in *.
      destruct op; try discriminate; cbn [tr_binop] in *.
      all: try (injection Hev as Hev;
                match goal with |- Z'.eval _ _ ?W0 (S.EBin ?o ?x ?y) = _ =>
                  rewrite (arith_selfw o x y eq_refl) in *;
                  rewrite (arith_eval o x y W0 eq_refl), (Hia W0 ltac:(lia)), (Hib W0 ltac:(lia)); cbn [Z'.bin_arith]; rewrite Hev;
                  apply (tr_fit W0 (Z.max (W x) (W y)) z); lia end).
      * (* LShift *)
        destruct (k <? 0) eqn:Hk0; [discriminate|]. destruct (int_shift_limit <? k); [discriminate|]. injection Hev as Hev.
        cbn [Z'.selfw Z'.is_arith Z'.is_shift] in Hz, Hwd |- *.
        assert (0 < 2 ^ k) by (apply pow2_gt0; lia).
        cbn [Z'.eval Z'.is_arith Z'.is_shift]. rewrite (Hia Wd Hwd), Evb. unfold Z'.shl.
        pose proof (pow2_mono (W ta) Wd ltac:(lia)).
        destruct (Wd <=? k) eqn:Hwk.
        -- assert (2 ^ Wd <= 2 ^ k) by (apply pow2_mono; lia).
           assert (j = 0) by nia. subst j. rewrite tr_small by lia. lia.
        -- rewrite Hev. apply (tr_fit Wd (W ta) z); lia.
      * (* RShift *)
        destruct (k <? 0) eqn:Hk0; [discriminate|]. destruct (int_shift_limit <? k); [discriminate|]. injection Hev as Hev.
        cbn [Z'.selfw Z'.is_arith Z'.is_shift] in Hz, Hwd |- *.
        assert (0 < 2 ^ k) by (apply pow2_gt0; lia).
        cbn [Z'.eval Z'.is_arith Z'.is_shift]. rewrite (Hia Wd Hwd), Evb. unfold Z'.shr.
        pose proof (pow2_mono (W ta) Wd ltac:(lia)).
        destruct (Wd <=? k) eqn:Hwk.
        -- assert (2 ^ Wd <= 2 ^ k) by (apply pow2_mono; lia).
           rewrite tr_small by lia. rewrite <- Hev. rewrite Z.div_small by lia. reflexivity.
        -- rewrite Hev. apply (tr_fit Wd (W ta) z); lia.
Qed.

(* ------------------------------------------------------------------ comparison, ~, BitsN(e), ?: *)
Lemma cmp_eval op ta tb Wd :
  ev Wd (S.EBin (tr_cmpop op) ta tb) =
    Z'.tr Wd (b2z (cmp op (ev (Z.max (W ta) (W tb)) ta) (ev (Z.max (W ta) (W tb)) tb))).
Proof. destruct op; reflexivity. Qed.
Lemma cmp_selfw op ta tb : W (S.EBin (tr_cmpop op) ta tb) = 1.
Proof. destruct op; reflexivity. Qed.
Lemma cmp_swap op a b : cmp (swap_cmp op) a b = cmp op b a.
Proof. destruct op; cbn [swap_cmp cmp]; try reflexivity; rewrite Z.eqb_sym; reflexivity. Qed.
Lemma tr_b2z Wd c : 1 <= Wd -> Z'.tr Wd (b2z c) = b2z c.
Proof. intros H. apply (tr_fit Wd 1 (b2z c)); [destruct c; cbn; lia|exact H]. Qed.

Lemma sound_ECmp op a b : sound_expr a -> sound_expr b -> sound_expr (ECmp op a b).
Proof.
  intros IHa IHb ctx v Hok Hev. cbn [sv_ok] in Hok.
  apply andb_prop in Hok as [Hok Hw]. apply andb_prop in Hok as [Hoka Hokb]. apply Z.eqb_eq in Hw.
  cbn [eval] in Hev. destruct (eval G st a) as [x|] eqn:Ea; [|discriminate].
  destruct (eval G st b) as [y|] eqn:Eb; [|discriminate]. cbn [bind] in Hev.
  pose proof (IHa _ _ Hoka Ea) as Aa. pose proof (IHb _ _ Hokb Eb) as Ab.
  unfold agree. cbn [tr_expr].
  set (ta := T (sub ctx (fst (cmp_ctx E a b))) a) in *. set (tb := T (sub ctx (snd (cmp_ctx E a b))) b) in *.
  destruct (agree_at _ _ _ Aa) as [Eva Ra]. destruct (agree_at _ _ _ Ab) as [Evb Rb]. fold ta in Eva, Ra. fold tb in Evb, Rb.
  assert (forall Wd, 1 <= Wd -> ev Wd (S.EBin (tr_cmpop op) ta tb) = b2z (cmp op (value_int x) (value_int y))) as Hcmp.
  { intros Wd Hwd. rewrite cmp_eval, <- Hw, Z.max_id, Eva. rewrite Hw, Evb. apply tr_b2z; exact Hwd. }
  assert (wfn 1) as Hw1 by (unfold wfn; lia).
  destruct x as [n xa|j].
  - cbn [eval_cmp] in Hev. unfold vbits in Hev.
    assert (v = VBits 1 (b2z (cmp op xa (value_int y)))) as ->.
    { destruct y as [m yb|k]; cbn [to_operand spec_cmp value_int] in *.
      - destruct (m =? n); [|discriminate]. cbn [bind fst snd] in Hev. injection Hev as <-. reflexivity.
      - destruct (int_operand_ok n k); [|discriminate]. cbn [bind fst snd] in Hev. injection Hev as <-. reflexivity. }
    split; [exact Hw1|]. split; [apply cmp_selfw|]. apply Hcmp; lia.
  - destruct y as [n yb|k].
    + cbn [eval_cmp] in Hev. unfold vbits in Hev. cbn [spec_cmp] in Hev.
      destruct (int_operand_ok n j); [|discriminate]. cbn [bind fst snd] in Hev. injection Hev as <-.
      split; [exact Hw1|]. split; [apply cmp_selfw|]. rewrite cmp_swap. apply Hcmp; lia.
    + cbn [eval_cmp] in Hev. injection Hev as <-.
      destruct Aa as (Hma & _). destruct Ab as (Hmb & _).
      cbn [mayint ubound]. rewrite Hma, Hmb, cmp_selfw. split; [reflexivity|].
      split; [destruct (cmp op j k); cbn; lia|]. split; [intros m [= <-]; destruct (cmp op j k); cbn; lia|].
      intros Wd Hwd. apply Hcmp; exact Hwd.
Qed.

Lemma sound_EInv a : sound_expr a -> sound_expr (EInv a).
Proof.
  intros IHa ctx v Hok Hev. cbn [sv_ok] in Hok. apply andb_prop in Hok as [Hoka Hni].
  cbn [eval] in Hev. destruct (eval G st a) as [x|] eqn:Ea; [|discriminate]. cbn [bind] in Hev.
  pose proof (IHa _ _ Hoka Ea) as Aa.
  destruct x as [n u|z].
  - cbn [eval_inv] in Hev. unfold vbits, spec_invert in Hev. cbn [bind fst snd] in Hev. injection Hev as <-.
    pose proof (agree_bits_range _ _ _ _ Aa) as Hu. destruct Aa as (Hn & Hwa & Hua).
    unfold agree. cbn [tr_expr]. split; [exact Hn|]. split; [exact Hwa|].
    cbn [Z'.eval Z'.is_un_ctx Z'.un_ctx]. rewrite Hua. apply tr_small. lia.
  - destruct Aa as (Hm & _). rewrite Hm in Hni. discriminate.
Qed.

Lemma sound_ECast n a : sound_expr a -> sound_expr (ECast n a).
Proof.
  intros IHa ctx v Hok Hev. cbn [sv_ok] in Hok. destruct (cv_of E a) eqn:Hcv; [discriminate|].
  cbn [eval] in Hev. destruct (eval G st a) as [x|] eqn:Ea; [|discriminate]. cbn [bind] in Hev.
  pose proof (IHa _ _ Hok Ea) as Aa.
  unfold eval_cast, vbits, spec_init in Hev. destruct ((n <? 1) || (1024 <=? n)) eqn:Hn; [discriminate|].
  assert (wfn n) as Hwn by (unfold wfn; lia).
  unfold agree. cbn [tr_expr]. rewrite Hcv.
  destruct x as [m u|z]; cbn [to_operand] in Hev.
  - cbn [spec_store] in Hev. destruct (m =? n) eqn:Hmn; [|discriminate]. cbn [bind fst snd] in Hev. injection Hev as <-.
    apply Z.eqb_eq in Hmn. subst m. pose proof (agree_bits_range _ _ _ _ Aa) as Hu. destruct Aa as (_ & Hwa & Hua).
    split; [exact Hwn|]. split; [reflexivity|]. rewrite cast_eval, Hwa, Z.max_id, Hua.
    rewrite (tr_small n u Hu). apply (tr_small n u Hu).
  - cbn [spec_store] in Hev. destruct (fits n z) eqn:Hf; [|discriminate]. cbn [bind fst snd] in Hev. injection Hev as <-.
    destruct Aa as (_ & Hz & _ & Hia). unfold fits, vhi in Hf.
    assert (0 <= z < 2 ^ n) as Hzn by lia.
    split; [exact Hwn|]. split; [reflexivity|]. rewrite cast_eval, (Hia (Z.max n (W (T ctx a))) ltac:(lia)).
    rewrite Z.mod_small by exact Hzn. rewrite (tr_small n z Hzn). apply (tr_small n z Hzn).
Qed.

Lemma sound_EIf c a b : sound_expr c -> sound_expr a -> sound_expr b -> sound_expr (EIf c a b).
Proof.
  intros IHc IHa IHb ctx v Hok Hev. cbn [sv_ok] in Hok.
  apply andb_prop in Hok as [Hok Hw]. apply andb_prop in Hok as [Hok Hokb]. apply andb_prop in Hok as [Hokc Hoka].
  apply Z.eqb_eq in Hw.
  cbn [eval] in Hev. destruct (eval G st c) as [vc|] eqn:Ec; [|discriminate]. cbn [bind] in Hev.
  pose proof (IHc _ _ Hokc Ec) as Ac.
  unfold agree. cbn [tr_expr].
  set (tc := T None c) in *.
  set (ta := T (sub ctx (fst (if_ctx E c a b))) a) in *. set (tb := T (sub ctx (snd (if_ctx E c a b))) b) in *.
  assert (forall Wd, ev Wd (S.ECond tc ta tb) = if truthy vc then ev Wd ta else ev Wd tb) as Hcond.
  { intros Wd. pose proof (truthy_agree _ _ _ Ac) as Ht. fold tc in Ht. cbn [Z'.eval]. rewrite Ht. reflexivity. }
  assert (W (S.ECond tc ta tb) = W ta /\ W (S.ECond tc ta tb) = W tb) as [Hsa Hsb].
  { cbn [Z'.selfw]. rewrite Hw, Z.max_id. auto. }
  destruct (truthy vc).
  - pose proof (IHa _ _ Hoka Hev) as Aa. fold ta in Aa. unfold agree in Aa. fold ta in Aa.
    destruct v as [n u|z].
    + destruct Aa as (Hn & Hwa & Hua). split; [exact Hn|]. split; [lia|]. rewrite Hcond. exact Hua.
    + destruct Aa as (Hm & Hz & Hub & Hia). cbn [mayint ubound]. rewrite Hm. cbn [orb]. split; [reflexivity|].
      rewrite Hsa. split; [exact Hz|]. split.
      * destruct (ubound E a) as [ua|]; [|discriminate]. destruct (ubound E b) as [ub|]; [|discriminate].
        intros m [= <-]. specialize (Hub ua eq_refl). lia.
      * intros Wd Hwd. rewrite Hcond. apply Hia. exact Hwd.
  - pose proof (IHb _ _ Hokb Hev) as Ab. fold tb in Ab. unfold agree in Ab. fold tb in Ab.
    destruct v as [n u|z].
    + destruct Ab as (Hn & Hwb & Hub). split; [exact Hn|]. split; [lia|]. rewrite Hcond. exact Hub.
    + destruct Ab as (Hm & Hz & Hubd & Hib). cbn [mayint ubound]. rewrite Hm. rewrite orb_true_r. split; [reflexivity|].
      rewrite Hsb. split; [exact Hz|]. split.
      * destruct (ubound E a) as [ua|]; [|discriminate]. destruct (ubound E b) as [ub|]; [|discriminate].
        intros m [= <-]. specialize (Hubd ub eq_refl). lia.
      * intros Wd Hwd. rewrite Hcond. apply Hib. exact Hwd.
Qed.

(* ------------------------------------------------------------------ zext / trunc / reduce *)
Lemma ext_value a x n f : eval_ext f n x = Ok a -> exists m u, x = VBits m u /\ vbits (f m u n false) = Ok a.
Proof. destruct x as [m u|z]; cbn [eval_ext]; [eauto|discriminate]. Qed.

Lemma pad_selfw pad r ta : W r = 1 -> W (S.EConcat [S.ERepl pad r; ta]) = pad + W ta.
Proof. intros H. cbn [Z'.selfw]. rewrite H. lia. Qed.
Lemma pad_eval pad r ta Wd : W r = 1 ->
  ev Wd (S.EConcat [S.ERepl pad r; ta]) =
    Z'.tr Wd (Z'.tr (pad * 1) (Z'.replz (Z.to_nat pad) 1 (ev 1 r)) * 2 ^ (W ta + 0) + (ev (W ta) ta * 2 ^ 0 + 0)).
Proof. intros H. cbn [Z'.eval Z'.selfw Z'.sumw fold_right]. rewrite H. reflexivity. Qed.

Lemma sound_EZext n a : sound_expr a -> sound_expr (EZext n a).
Proof.
  intros IHa ctx v Hok Hev. cbn [sv_ok] in Hok. apply andb_prop in Hok as [Hoka Hfw]. apply Z.eqb_eq in Hfw.
  cbn [eval] in Hev. destruct (eval G st a) as [x|] eqn:Ea; [|discriminate]. cbn [bind] in Hev.
  destruct (ext_value _ _ _ _ Hev) as (m & u & -> & Hz). pose proof (IHa _ _ Hoka Ea) as Aa.
  pose proof (agree_bits_range _ _ _ _ Aa) as Hu. destruct Aa as (Hm & Hwa & Hua).
  unfold vbits, h_zext in Hz. cbn [negb andb] in Hz. destruct (m <=? n) eqn:Hmn; [|discriminate]. cbn [negb] in Hz.
  unfold spec_init in Hz. destruct ((n <? 1) || (1024 <=? n)) eqn:Hn; [discriminate|]. cbn [spec_store] in Hz.
  destruct (fits n u); [|discriminate]. cbn [bind fst snd] in Hz. injection Hz as <-.
  unfold wfn in Hm. pose proof (pow2_mono m n ltac:(lia)) as Hp. rewrite Z.mod_small by lia.
  unfold agree. cbn [tr_expr]. rewrite <- Hfw, Hwa. split; [unfold wfn; lia|].
  destruct (n - m =? 0) eqn:Hpad.
  - assert (n = m) by lia. subst n. split; [exact Hwa|exact Hua].
  - split.
    + rewrite pad_selfw by reflexivity. lia.
    + rewrite pad_eval by reflexivity. change (ev 1 (S.ELit 1 0)) with 0. rewrite replz_zero.
      rewrite Hwa, Hua. unfold Z'.tr at 2. rewrite Z.mod_0_l by (apply Z.pow_nonzero; lia).
      rewrite Z.pow_0_r. replace (0 * 2 ^ (m + 0) + (u * 1 + 0)) with u by lia. apply tr_small. lia.
Qed.

Lemma sound_ETrunc n a : sound_expr a -> sound_expr (ETrunc n a).
Proof.
  intros IHa ctx v Hok Hev. cbn [sv_ok] in Hok. apply andb_prop in Hok as [Hoka Hfw]. apply Z.eqb_eq in Hfw.
  cbn [eval] in Hev. destruct (eval G st a) as [x|] eqn:Ea; [|discriminate]. cbn [bind] in Hev.
  destruct (ext_value _ _ _ _ Hev) as (m & u & -> & Hz). pose proof (IHa _ _ Hoka Ea) as Aa.
  pose proof (agree_bits_range _ _ _ _ Aa) as Hu. destruct Aa as (Hm & Hwa & Hua).
  unfold vbits, h_trunc in Hz. cbn [negb andb] in Hz. destruct (n <=? m) eqn:Hmn; [|discriminate]. cbn [negb] in Hz.
  unfold spec_init in Hz. destruct ((n <? 1) || (1024 <=? n)) eqn:Hn; [discriminate|]. cbn [bind fst snd] in Hz. injection Hz as <-.
  unfold agree. cbn [tr_expr]. rewrite <- Hfw, Hwa. split; [unfold wfn; lia|].
  destruct (n <? m) eqn:Hlt.
  - split; [reflexivity|]. rewrite cast_eval, Hwa, Z.max_r by lia. rewrite Hua. unfold Z'.tr. apply Z.mod_mod.
    apply Z.pow_nonzero; lia.
  - assert (n = m) by lia. subst n. rewrite Z.mod_small by exact Hu. split; [exact Hwa|exact Hua].
Qed.

Lemma parity_xor_bits k : forall u, 0 <= u < 2 ^ Z.of_nat k -> Z'.parity u = b2z (xor_bits k u).
Proof.
  induction k as [|k IH]; intros u Hu.
  - assert (u = 0) by (cbn in Hu; lia). subst u. reflexivity.
  - rewrite xor_bits_shift by lia.
    assert (forall q, 0 <= Z.pos q < 2 * 2 ^ Z.of_nat k -> forall b, Z.pos q = 2 * (Z.pos q / 2) + b -> 0 <= b < 2 ->
            0 <= Z.pos q / 2 < 2 ^ Z.of_nat k) as Hhalf by (intros; lia).
    rewrite Nat2Z.inj_succ, Z.pow_succ_r in Hu by lia.
    destruct u as [|p|p]; [rewrite xor_bits_0; reflexivity| |lia].
    destruct p as [q|q|].
    + change (Z.shiftr (Z.pos q~1) 1) with (Z.pos q). pose proof (IH (Z.pos q) ltac:(lia)) as Hq.
      cbn [Z'.parity Z'.ppar Z.odd] in Hq |- *. destruct (Z'.ppar q), (xor_bits k (Z.pos q)); cbn in Hq |- *; try reflexivity; discriminate Hq.
    + change (Z.shiftr (Z.pos q~0) 1) with (Z.pos q). pose proof (IH (Z.pos q) ltac:(lia)) as Hq.
      cbn [Z'.parity Z'.ppar Z.odd] in Hq |- *. destruct (Z'.ppar q), (xor_bits k (Z.pos q)); cbn in Hq |- *; try reflexivity; discriminate Hq.
    + change (Z.shiftr 1 1) with 0. rewrite xor_bits_0. reflexivity.
Qed.

Lemma red_attach_prim o t : match t with S.EBin _ _ _ | S.ECond _ _ _ => false | _ => true end = true ->
  red_attach o t = S.EUn o t.
Proof. destruct t; try discriminate; reflexivity. Qed.

Lemma sound_ERed op a : sound_expr a -> sound_expr (ERed op a).
Proof.
  intros IHa ctx v Hok Hev. cbn [sv_ok] in Hok. apply andb_prop in Hok as [Hok Hprim]. apply andb_prop in Hok as [Hoka Hni].
  cbn [eval] in Hev. destruct (eval G st a) as [x|] eqn:Ea; [|discriminate]. cbn [bind] in Hev.
  pose proof (IHa _ _ Hoka Ea) as Aa.
  destruct x as [m u|z]; [|destruct Aa as (Hm & _); rewrite Hm in Hni; discriminate].
  pose proof (agree_bits_range _ _ _ _ Aa) as Hu. destruct Aa as (Hm & Hwa & Hua).
  cbn [eval_red] in Hev. unfold agree. cbn [tr_expr]. rewrite (red_attach_prim _ _ Hprim).
  assert (wfn 1) as Hw1 by (unfold wfn; lia). unfold wfn in Hm.
  destruct op; cbn [tr_redop]; injection Hev as <-; cbn [fst snd h_reduce_and h_reduce_or];
    (split; [exact Hw1|]); (split; [reflexivity|]); cbn [Z'.eval Z'.is_un_ctx Z'.un_self]; rewrite Hwa, Hua.
  - rewrite Z.shiftl_1_l. apply tr_b2z. lia.
  - apply tr_b2z. lia.
  - change (Z.land (popcount_loop (Z.to_nat m) u 0) 1) with (snd (h_reduce_xor m u)).
    rewrite (reduce_xor_ok m u Hm Hu). cbn [fst snd].
    rewrite (parity_xor_bits (Z.to_nat m) u) by (rewrite Z2Nat.id by lia; exact Hu). apply tr_b2z. lia.
Qed.

(* ------------------------------------------------------------------ bit select, part select *)
Lemma sigbits_inv a : is_sigbits E a = true ->
  exists s p f, a = ESig s p /\ lookup_sig G s p = Some f /\ fstruct f = None.
Proof.
  destruct a; cbn [is_sigbits]; try discriminate. destruct (lookup_sig G s p) as [f|] eqn:L; [|discriminate].
  destruct (fstruct f) eqn:F; [discriminate|]. intros _. exists s, p, f. auto.
Qed.

Lemma sig_ref s p f : lookup_sig G s p = Some f -> fstruct f = None ->
  exists x ix lo u, Z'.resolve te en (tr_sig nm s p) = Some (Z'.mkref x ix [] lo (S.PBits (fw f))) /\
    Z'.type_of te (tr_sig nm s p) = Some (S.PBits (fw f), []) /\ 0 < fw f < 1024 /\ 0 <= lo /\
    Z'.vget (Z'.lookup en x) ix = Z'.VZ u /\ (u / 2 ^ lo) mod 2 ^ fw f = (sigv st s / 2 ^ flo f) mod 2 ^ fw f.
Proof.
  intros L F. destruct HC as (HS & _ & _).
  destruct (HS s p f L) as (rr & u & Hres & Hd & Hty & Hpw & Hfw & Hbits & Hlo & Hget & Hval).
  destruct rr as [x ix dims lo ty]. cbn [Z'.r_dims Z'.r_ty Z'.r_lo Z'.r_var Z'.r_idx] in *. subst dims.
  rewrite (Hbits F) in *. exists x, ix, lo, u. auto 10.
Qed.

Lemma read_sub x ix lo w u l k : Z'.vget (Z'.lookup en x) ix = Z'.VZ u -> 0 <= lo -> 0 <= l -> 0 <= k -> l + k <= w ->
  Z'.read_bits en (Some (Z'.mkref x ix [] (lo + l) (S.PBits k))) = (((u / 2 ^ lo) mod 2 ^ w) / 2 ^ l) mod 2 ^ k.
Proof.
  intros Hget Hlo Hl Hk Hw. cbn [Z'.read_bits Z'.r_dims Z'.r_var Z'.r_idx Z'.r_lo Z'.r_ty S.pwidth]. rewrite Hget.
  symmetry. apply slice_of_field; assumption.
Qed.

Lemma eval_sig s p f : lookup_sig G s p = Some f ->
  eval G st (ESig s p) = Ok (VBits (fw f) ((sigv st s / 2 ^ flo f) mod 2 ^ fw f)).
Proof. intros L. cbn [eval]. rewrite L. reflexivity. Qed.

Lemma type_of_index a i w : is_concat a = false -> Z'.type_of te a = Some (S.PBits w, []) ->
  Z'.type_of te (S.EIndex a i) = Some (S.PBits 1, []).
Proof. intros Hc Ht. destruct a; try discriminate; cbn [Z'.type_of] in *; rewrite Ht; reflexivity. Qed.

Lemma resolve_index a i : Z'.resolve te en (S.EIndex a i) = Z'.ref_index (Z'.resolve te en a) (ev (W i) i).
Proof. reflexivity. Qed.
Lemma range_eval a hi lo Wd :
  ev Wd (S.ERange a hi lo) = Z'.tr Wd (Z'.read_bits en (Z'.ref_range (Z'.resolve te en a) hi lo)).
Proof. reflexivity. Qed.
Lemma plus_eval a b w Wd :
  ev Wd (S.EPlusRange a b w) = Z'.tr Wd (Z'.read_bits en (Z'.ref_plus (Z'.resolve te en a) (ev (W b) b) w)).
Proof. reflexivity. Qed.

Lemma sound_EIdx a i : sound_expr i -> sound_expr (EIdx a i).
Proof.
  intros IHi ctx v Hok Hev. cbn [sv_ok] in Hok. apply andb_prop in Hok as [Hsb Hoki].
  destruct (sigbits_inv _ Hsb) as (s & p & f & -> & L & F).
  cbn [eval] in Hev. rewrite L in Hev. cbn [bind] in Hev.
  destruct (eval G st i) as [vi|] eqn:Ei; [|discriminate]. cbn [bind] in Hev.
  pose proof (IHi _ _ Hoki Ei) as Ai. destruct (agree_at _ _ _ Ai) as [Evi Ri].
  unfold read_field, eval_index, vbits in Hev. cbn [spec_getitem] in Hev.
  set (k := value_int vi) in *.
  destruct ((0 <=? k) && (k <? fw f)) eqn:Hk; [|discriminate]. cbn [bind fst snd] in Hev. injection Hev as <-.
  destruct (sig_ref s p f L F) as (x & ix & lo & u & Hres & Hty & Hfw & Hlo & Hget & Hval).
  unfold agree. cbn [tr_expr]. set (ti := T (idx_ctx E (ESig s p) i true) i) in *.
  pose proof (chain_sig nm s p) as Hch. pose proof (chain_not_concat _ Hch) as Hnc.
  assert (chain (S.EIndex (tr_sig nm s p) ti)) as Hch2 by exact Hnc.
  split; [unfold wfn; lia|]. split.
  - rewrite (chain_selfw te _ Hch2). rewrite (type_of_index _ ti _ Hnc Hty). reflexivity.
  - rewrite (chain_eval te en _ 1 Hch2), resolve_index, Hres, Evi.
    cbn [Z'.ref_index]. unfold Z'.inb. cbn [S.pwidth]. rewrite Hk.
    rewrite (read_sub x ix lo (fw f) u k 1 Hget Hlo ltac:(lia) ltac:(lia) ltac:(lia)).
    rewrite Hval. change (2 ^ 1) with 2. apply tr_small. pose proof (Z.mod_pos_bound ((sigv st s / 2 ^ flo f) mod 2 ^ fw f / 2 ^ k) 2 ltac:(lia)). cbn; lia.
Qed.

Lemma sound_ESlice a lo hi : sound_expr lo -> sound_expr (ESlice a lo hi).
Proof.
  intros IHlo ctx v Hok Hev. cbn [sv_ok] in Hok. apply andb_prop in Hok as [Hsb Hok].
  destruct (sigbits_inv _ Hsb) as (s & p & f & -> & L & F).
  cbn [eval] in Hev. rewrite L in Hev. unfold read_field in Hev. cbn [bind] in Hev.
  destruct (sig_ref s p f L F) as (x & ix & o & u & Hres & Hty & Hfw & Ho & Hget & Hval).
  unfold agree. cbn [tr_expr]. unfold tr_slice.
  (* both readings lead to a select of k bits at offset l of the field *)
  assert (forall l k t, 0 <= l -> 0 < k -> l + k <= fw f ->
            (forall Wd, ev Wd t = Z'.tr Wd (Z'.read_bits en (Some (Z'.mkref x ix [] (o + l) (S.PBits k))))) -> W t = k ->
            wfn k /\ W t = k /\ ev k t = ((sigv st s / 2 ^ flo f) mod 2 ^ fw f / 2 ^ l) mod 2 ^ k) as Hsel.
  { intros l k t Hl Hk Hlk Ht Hwt. split; [unfold wfn; lia|]. split; [exact Hwt|].
    rewrite Ht, (read_sub x ix o (fw f) u l k Hget Ho Hl ltac:(lia) Hlk), Hval.
    apply tr_small. apply Z.mod_pos_bound. apply pow2_gt0; lia. }
  destruct (cv_of E lo) as [c1|] eqn:C1; [destruct (cv_of E hi) as [h0|] eqn:C2|].
  - (* constant bounds *)
    destruct (cval lo) as [l|] eqn:V1; [|discriminate]. destruct (cval hi) as [h|] eqn:V2; [|discriminate].
    apply andb_prop in Hok as [Hl Hh]. apply Z.eqb_eq in Hl. apply Z.eqb_eq in Hh. rewrite Hl, Hh.
    rewrite (cval_sound lo l V1), (cval_sound hi h V2) in Hev. cbn [bind eval_slice value_int] in Hev.
    unfold vbits in Hev. cbn [spec_getitem step_trivial negb bound] in Hev.
    destruct (valid_range (fw f) l h) eqn:Hv; [|discriminate]. cbn [bind fst snd] in Hev. injection Hev as <-.
    unfold valid_range in Hv.
    apply (Hsel l (h - l)); try lia.
    + intros Wd. cbn [tr_expr]. rewrite range_eval, Hres. cbn [Z'.ref_range S.pwidth].
      replace ((0 <=? l) && (l <=? h - 1) && (h - 1 <? fw f)) with true by lia.
      replace (h - 1 - l + 1) with (h - l) by lia. reflexivity.
    + cbn [Z'.selfw]. lia.
  - (* x : x + k *)
    destruct hi as [| | | | |[] x0 y| | | | | | | | | | | |]; try discriminate.
    destruct (cv_of E y) as [k'|] eqn:C3; [|discriminate]. destruct (cval y) as [k|] eqn:V3; [|discriminate].
    apply andb_prop in Hok as [Hok Hoklo]. apply andb_prop in Hok as [Hok Hdi]. apply andb_prop in Hok as [Hok Heq].
    apply andb_prop in Hok as [Hkk Hk0]. apply Z.eqb_eq in Hkk. subst k'. apply expr_eqb_eq in Heq. subst x0.
    destruct (eval G st lo) as [vl|] eqn:El; [|discriminate]. cbn [bind] in Hev.
    destruct (defint_sound lo Hdi vl El) as [l ->].
    cbn [eval] in Hev. rewrite El, (cval_sound y k V3) in Hev. cbn [bind eval_bin eval_int_bin eval_slice value_int] in Hev.
    unfold vbits in Hev. cbn [spec_getitem step_trivial negb bound] in Hev.
    destruct (valid_range (fw f) l (l + k)) eqn:Hv; [|discriminate]. cbn [bind fst snd] in Hev. injection Hev as <-.
    unfold valid_range in Hv. pose proof (IHlo _ _ Hoklo El) as Al. destruct (agree_at _ _ _ Al) as [Evl _]. cbn [value_int] in Evl.
    replace (l + k - l) with k by lia.
    apply (Hsel l k); try lia.
    + intros Wd. cbn [tr_expr]. rewrite plus_eval, Hres, Evl. cbn [Z'.ref_plus S.pwidth].
      replace ((0 <=? l) && (0 <? k) && (l + k <=? fw f)) with true by lia. reflexivity.
    + reflexivity.
  - (* x : x + k, lower bound not constant *)
    destruct hi as [| | | | |[] x0 y| | | | | | | | | | | |]; try discriminate.
    destruct (cv_of E y) as [k'|] eqn:C3; [|discriminate]. destruct (cval y) as [k|] eqn:V3; [|discriminate].
    apply andb_prop in Hok as [Hok Hoklo]. apply andb_prop in Hok as [Hok Hdi]. apply andb_prop in Hok as [Hok Heq].
    apply andb_prop in Hok as [Hkk Hk0]. apply Z.eqb_eq in Hkk. subst k'. apply expr_eqb_eq in Heq. subst x0.
    destruct (eval G st lo) as [vl|] eqn:El; [|discriminate]. cbn [bind] in Hev.
    destruct (defint_sound lo Hdi vl El) as [l ->].
    cbn [eval] in Hev. rewrite El, (cval_sound y k V3) in Hev. cbn [bind eval_bin eval_int_bin eval_slice value_int] in Hev.
    unfold vbits in Hev. cbn [spec_getitem step_trivial negb bound] in Hev.
    destruct (valid_range (fw f) l (l + k)) eqn:Hv; [|discriminate]. cbn [bind fst snd] in Hev. injection Hev as <-.
    unfold valid_range in Hv. pose proof (IHlo _ _ Hoklo El) as Al. destruct (agree_at _ _ _ Al) as [Evl _]. cbn [value_int] in Evl.
    replace (l + k - l) with k by lia.
    apply (Hsel l k); try lia.
    + intros Wd. cbn [tr_expr]. rewrite plus_eval, Hres, Evl. cbn [Z'.ref_plus S.pwidth].
      replace ((0 <=? l) && (0 <? k) && (l + k <=? fw f)) with true by lia. reflexivity.
    + reflexivity.
Qed.

(* ------------------------------------------------------------------ sext (of a plain signal / of a constant part select) *)
(* what the emitted replication computes, given an expression r for the top bit of the operand *)
Lemma sext_core n m u ta r : wfn m -> m <= n < 1024 -> 0 <= u < 2 ^ m -> W ta = m -> ev m ta = u ->
  W r = 1 -> ev 1 r = (u / 2 ^ (m - 1)) mod 2 -> n - m <> 0 ->
  W (S.EConcat [S.ERepl (n - m) r; ta]) = n /\
  ev n (S.EConcat [S.ERepl (n - m) r; ta]) = (spec_sint m u) mod 2 ^ n.
Proof.
  intros Hm Hn Hu Hwa Hua Hwr Hevr Hpad. unfold wfn in Hm.
  assert (2 ^ m = 2 * 2 ^ (m - 1)) as Hpm.
  { replace m with ((m - 1) + 1) at 1 by lia. rewrite Z.pow_add_r by lia. lia. }
  assert (0 < 2 ^ (m - 1)) as Hh by (apply pow2_gt0; lia).
  split; [rewrite (pad_selfw _ r _ Hwr); lia|].
  rewrite (pad_eval _ r _ n Hwr), Hevr, Hwa, Hua, replz_bit. rewrite Z2Nat.id by lia.
  assert (2 ^ (n - m) * 2 ^ m = 2 ^ n) as Hpn by (rewrite <- Z.pow_add_r by lia; f_equal; lia).
  assert (0 < 2 ^ (n - m)) as Hpp by (apply pow2_gt0; lia).
  replace ((n - m) * 1) with (n - m) by lia. replace (m + 0) with m by lia. rewrite Z.pow_0_r.
  replace (u * 1 + 0) with u by lia.
  unfold spec_sint. destruct (2 ^ (m - 1) <=? u) eqn:Htop.
  - assert (u / 2 ^ (m - 1) = 1) as -> by (symmetry; apply (Z.div_unique u (2 ^ (m - 1)) 1 (u - 2 ^ (m - 1))); lia).
    change (1 mod 2) with 1. rewrite Z.mul_1_l. rewrite (tr_small (n - m)) by lia.
    replace ((2 ^ (n - m) - 1) * 2 ^ m + u) with (u - 2 ^ m + 2 ^ n) by lia.
    rewrite tr_small by nia. apply (Zmod_unique (u - 2 ^ m) (2 ^ n) (-1) (u - 2 ^ m + 2 ^ n)); nia.
  - assert (u / 2 ^ (m - 1) = 0) as -> by (apply Z.div_small; lia).
    change (0 mod 2) with 0.
    replace (Z'.tr (n - m) (0 * (2 ^ (n - m) - 1))) with 0 by (rewrite Z.mul_0_l, tr_small; lia). rewrite Z.mul_0_l, Z.add_0_l.
    pose proof (pow2_mono m n ltac:(lia)). rewrite tr_small by lia. symmetry. apply Z.mod_small. lia.
Qed.

(* the bit k of a plain signal read through  x[K]  for any index expression K that evaluates to k *)
Lemma sig_bit s p f K k : lookup_sig G s p = Some f -> fstruct f = None -> 0 <= k < fw f ->
  ev (W K) K = k ->
  W (S.EIndex (tr_sig nm s p) K) = 1 /\
  ev 1 (S.EIndex (tr_sig nm s p) K) = (((sigv st s / 2 ^ flo f) mod 2 ^ fw f) / 2 ^ k) mod 2.
Proof.
  intros L F Hk HK.
  destruct (sig_ref s p f L F) as (x & ix & o & U & Hres & Hty & _ & Ho & Hget & Hval).
  pose proof (chain_sig nm s p) as Hch. pose proof (chain_not_concat _ Hch) as Hnc.
  assert (chain (S.EIndex (tr_sig nm s p) K)) as Hchr by exact Hnc.
  split.
  - rewrite (chain_selfw te _ Hchr), (type_of_index _ K _ Hnc Hty). reflexivity.
  - rewrite (chain_eval te en _ 1 Hchr), resolve_index, Hres, HK.
    cbn [Z'.ref_index]. unfold Z'.inb. cbn [S.pwidth]. replace ((0 <=? k) && (k <? fw f)) with true by lia.
    rewrite (read_sub x ix o (fw f) U k 1 Hget Ho ltac:(lia) ltac:(lia) ltac:(lia)). rewrite Hval.
    change (2 ^ 1) with 2. apply tr_small.
    pose proof (Z.mod_pos_bound ((sigv st s / 2 ^ flo f) mod 2 ^ fw f / 2 ^ k) 2 ltac:(lia)). cbn; lia.
Qed.

Lemma sext_value a x n : eval_ext h_sext n x = Ok a ->
  exists m u, x = VBits m u /\ m <= n /\ 1 <= n < 1024 /\ a = VBits n ((spec_sint m u) mod 2 ^ n).
Proof.
  intros Hev. destruct (ext_value _ _ _ _ Hev) as (m & u & -> & Hz). exists m, u. split; [reflexivity|].
  unfold vbits, h_sext in Hz. cbn [negb andb] in Hz. destruct (m <=? n) eqn:Hmn; [|discriminate]. cbn [negb] in Hz.
  unfold spec_init in Hz. destruct ((n <? 1) || (1024 <=? n)) eqn:Hn; [discriminate|]. cbn [spec_store] in Hz.
  destruct (fits n (spec_sint m u)); [|discriminate]. cbn [bind fst snd] in Hz. injection Hz as <-.
  repeat split; lia.
Qed.

Lemma sext_same m u : wfn m -> 0 <= u < 2 ^ m -> (spec_sint m u) mod 2 ^ m = u.
Proof.
  intros Hm Hu. unfold wfn in Hm.
  assert (2 ^ m = 2 * 2 ^ (m - 1)) as Hpm.
  { replace m with ((m - 1) + 1) at 1 by lia. rewrite Z.pow_add_r by lia. lia. }
  assert (0 < 2 ^ (m - 1)) as Hh by (apply pow2_gt0; lia).
  unfold spec_sint. destruct (2 ^ (m - 1) <=? u) eqn:Htop.
  - symmetry. apply (Zmod_unique (u - 2 ^ m) (2 ^ m) (-1) u); lia.
  - apply Z.mod_small. exact Hu.
Qed.

Lemma sound_ESext n a : sound_expr a -> sound_expr (ESext n a).
Proof.
  intros IHa ctx v Hok Hev. cbn [sv_ok] in Hok.
  apply andb_prop in Hok as [Hok Hshape]. apply andb_prop in Hok as [Hoka Hfw]. apply Z.eqb_eq in Hfw.
  cbn [eval] in Hev. destruct (eval G st a) as [xv|] eqn:Ea; [|discriminate]. cbn [bind] in Hev.
  destruct (sext_value _ _ _ Hev) as (m & u & -> & Hmn & Hn & ->).
  pose proof (IHa _ _ Hoka Ea) as Aa. pose proof (agree_bits_range _ _ _ _ Aa) as Hu. destruct Aa as (Hm & Hwa & Hua).
  unfold agree. cbn [tr_expr]. rewrite <- Hfw, Hwa. split; [unfold wfn; lia|].
  destruct (n - m =? 0) eqn:Hpad.
  { assert (n = m) by lia. subst n. split; [exact Hwa|]. rewrite Hua. symmetry. apply sext_same; assumption. }
  assert (n - m <> 0) as Hpad' by lia.
  destruct a as [s p| | | | | | | |b lo hi| | | | | | | | |]; try discriminate.
  - (* a plain signal: x[m-1] *)
    apply andb_prop in Hshape as [Hs Hel]. apply andb_prop in Hs as [H32 Hsb].
    destruct (sigbits_inv _ Hsb) as (s' & p' & f & [= <- <-] & L & F).
    rewrite (eval_sig s p f L) in Ea. injection Ea as <- <-.
    pose proof (chain_sig nm s p) as Hch.
    assert (sext_bit nm E (ESig s p) (T ctx (ESig s p)) (fw f) 0 = S.EIndex (tr_sig nm s p) (S.ENum (fw f - 1))) as Hbit.
    { cbn [sext_bit tr_expr]. destruct p; [|apply sext_attach_chain; exact Hch].
      destruct (n_elem nm s); [discriminate|]. apply sext_attach_chain; exact Hch. }
    rewrite Hbit. unfold wfn in Hm.
    assert (ev (W (S.ENum (fw f - 1))) (S.ENum (fw f - 1)) = fw f - 1) as HK.
    { cbn [Z'.selfw Z'.eval]. assert (0 <= fw f - 1 < 2 ^ 32) as H32' by lia. rewrite !(tr_small 32 (fw f - 1) H32'). reflexivity. }
    destruct (sig_bit s p f _ (fw f - 1) L F ltac:(lia) HK) as [Hwr Hevr].
    apply (sext_core n (fw f) _ _ _ Hm ltac:(lia) Hu Hwa Hua Hwr Hevr Hpad').
  - (* a constant part select x[h-1:l]: x[h-1], or the select itself when it is one bit wide *)
    cbn [sv_ok] in Hoka. apply andb_prop in Hoka as [Hsb Hoks].
    destruct (sigbits_inv _ Hsb) as (s & p & f & -> & L & F).
    destruct (cv_of E lo) as [l0|] eqn:C1; [|discriminate]. destruct (cv_of E hi) as [h0|] eqn:C2; [|discriminate].
    destruct (cval lo) as [l|] eqn:V1; [|discriminate]. destruct (cval hi) as [h|] eqn:V2; [|discriminate].
    apply andb_prop in Hoks as [Hl Hh]. apply Z.eqb_eq in Hl. apply Z.eqb_eq in Hh.
    apply andb_prop in Hshape as [Hs Hw0]. apply andb_prop in Hs as [Hl0 Hh0]. apply Z.eqb_eq in Hl0. apply Z.eqb_eq in Hh0. subst l0 h0.
    (* the value of the select *)
    cbn [eval] in Ea. rewrite L, (cval_sound lo l V1), (cval_sound hi h V2) in Ea. unfold read_field in Ea.
    cbn [bind eval_slice value_int] in Ea. unfold vbits in Ea. cbn [spec_getitem step_trivial negb bound] in Ea.
    destruct (valid_range (fw f) l h) eqn:Hv; [|discriminate]. cbn [bind fst snd] in Ea. injection Ea as <- <-.
    unfold valid_range in Hv. assert (0 <= l /\ l < h /\ h <= fw f) as (Hv1 & Hv2 & Hv3) by (clear - Hv; lia). clear Hv.
    set (hiw := fwid E (sub ctx (idx_ctx E (ESig s p) hi false)) hi) in *.
    assert (T ctx (ESlice (ESig s p) lo hi) = S.ERange (tr_sig nm s p) (h - 1) l) as HT.
    { cbn [tr_expr]. unfold tr_slice. rewrite C1, C2. fold hiw. rewrite Hl, Hh. reflexivity. }
    rewrite HT in *.
    remember ((sigv st s / 2 ^ flo f) mod 2 ^ fw f) as F0 eqn:HF0.
    assert (0 <= h - 1 < fw f) as Hk1 by (clear - Hv1 Hv2 Hv3; lia).
    assert (forall K, ev (W K) K = h - 1 ->
              W (S.EIndex (tr_sig nm s p) K) = 1 /\ ev 1 (S.EIndex (tr_sig nm s p) K) = ((F0 / 2 ^ l) mod 2 ^ (h - l) / 2 ^ (h - l - 1)) mod 2) as Htop.
    { intros K HK. destruct (sig_bit s p f K (h - 1) L F Hk1 HK) as [Hwr Hevr]. split; [exact Hwr|]. rewrite Hevr, <- HF0.
      assert (0 <= h - l - 1) as Hq1 by (clear - Hv2; lia). assert (h - l - 1 + 1 <= h - l) as Hq2 by (clear; lia).
      pose proof (slice_of_field F0 l (h - l) (h - l - 1) 1 Hv1 Hq1 ltac:(clear; lia) Hq2) as Hs.
      change (2 ^ 1) with 2 in Hs. rewrite Hs. replace (l + (h - l - 1)) with (h - 1) by (clear; lia). reflexivity. }
    cbn [sext_bit]. rewrite C1, C2.
    destruct (h - l =? 1) eqn:Hone.
    + (* one bit *)
      assert (h - l = 1) as H1 by (clear - Hone; lia). rewrite H1 in *.
      apply (sext_core n 1 _ _ _ Hm ltac:(clear - Hmn Hn; lia) Hu Hwa Hua Hwa).
      * rewrite Hua. change (2 ^ (1 - 1)) with 1. rewrite Z.div_1_r. symmetry. apply Z.mod_small. change (2 ^ 1) with 2 in Hu. exact Hu.
      * exact Hpad'.
    + assert (ev (W (S.ELit hiw ((h - 1) mod 2 ^ hiw))) (S.ELit hiw ((h - 1) mod 2 ^ hiw)) = h - 1) as HK.
      { assert (0 <= h - 1 < 2 ^ hiw) as Hr.
        { rewrite <- Hh. apply Z.mod_pos_bound. apply pow2_gt0. clear - Hw0. lia. }
        rewrite Z.mod_small by exact Hr. cbn [Z'.selfw]. apply lit_eval; [exact Hr|clear; lia]. }
      destruct (Htop _ HK) as [Hwr Hevr].
      apply (sext_core n (h - l) _ _ _ Hm ltac:(clear - Hmn Hn; lia) Hu Hwa Hua Hwr Hevr Hpad').
Qed.

(* ------------------------------------------------------------------ concat *)
Definition catv (ts : list sexpr) : Z :=
  (fix cat (l : list sexpr) : Z := match l with [] => 0 | x :: r => ev (W x) x * 2 ^ (Z'.sumw te r) + cat r end) ts.
Lemma concat_eval ts Wd : ev Wd (S.EConcat ts) = Z'.tr Wd (catv ts).
Proof. reflexivity. Qed.
Lemma concat_selfw ts : W (S.EConcat ts) = Z'.sumw te ts.
Proof. cbn [Z'.selfw]. induction ts as [|x r IH]; [reflexivity|]. cbn [Z'.sumw fold_right]. rewrite IH. reflexivity. Qed.
Lemma tr_concat_map ctx es :
  (fix go (l : list expr) : list sexpr := match l with [] => [] | x :: r => T ctx x :: go r end) es = map (T ctx) es.
Proof. induction es as [|x r IH]; [reflexivity|]. cbn [map]. rewrite IH. reflexivity. Qed.

Lemma concat_list ctx es : Forall sound_expr es ->
  (fix go (l : list expr) : bool := match l with [] => true | x :: r => sv_ok te nm E ctx x && go r end) es = true ->
  forall vs l, eval_list (eval G st) es = Ok vs -> bits_list vs = Some l ->
  Forall wfpair l /\ Z'.sumw te (map (T ctx) es) = fst (concat_spec l) /\ catv (map (T ctx) es) = snd (concat_spec l).
Proof.
  induction 1 as [|x r Hx Hr IH]; intros Hok vs l Hev Hb.
  - cbn [eval_list] in Hev. injection Hev as <-. cbn [bits_list] in Hb. injection Hb as <-. cbn. auto.
  - apply andb_prop in Hok as [Hokx Hokr]. cbn [eval_list] in Hev.
    destruct (eval G st x) as [v|] eqn:Ex; [|discriminate]. cbn [bind] in Hev.
    destruct (eval_list (eval G st) r) as [vs'|] eqn:Er; [|discriminate]. cbn [bind] in Hev. injection Hev as <-.
    cbn [bits_list] in Hb. destruct v as [n u|z]; [|discriminate].
    destruct (bits_list vs') as [l'|] eqn:Hb'; [|discriminate]. injection Hb as <-.
    destruct (IH Hokr vs' l' eq_refl Hb') as (Hwf & Hs & Hc).
    pose proof (Hx _ _ Hokx Ex) as Ax. pose proof (agree_bits_range _ _ _ _ Ax) as Hu. destruct Ax as (Hn & Hwx & Hux).
    split; [constructor; [split; assumption|exact Hwf]|].
    cbn [map Z'.sumw fold_right concat_spec]. unfold catv in *. cbn [Z'.sumw] in Hs. fold (Z'.sumw te (map (T ctx) r)). rewrite Hs.
    destruct (concat_spec l') as [n' v']. cbn [fst snd] in *. rewrite Hwx, Hux, Hc. split; reflexivity.
Qed.

Lemma sound_EConcat es : Forall sound_expr es -> sound_expr (EConcat es).
Proof.
  intros IH ctx v Hok Hev. cbn [sv_ok] in Hok. cbn [eval] in Hev.
  destruct (eval_list (eval G st) es) as [vs|] eqn:Ees; [|discriminate]. cbn [bind] in Hev.
  unfold eval_concat in Hev. destruct (bits_list vs) as [l|] eqn:Hb; [|discriminate].
  destruct (concat_list ctx es IH Hok vs l Ees Hb) as (Hwf & Hs & Hc).
  unfold vbits, h_concat, concat_fold in Hev. rewrite (concat_fold_acc' l Hwf) in Hev.
  pose proof (concat_spec_range' l Hwf) as [Hn Hv].
  destruct (concat_spec l) as [n u]. cbn [fst snd] in *.
  replace (0 + n) with n in Hev by lia. replace (0 * 2 ^ n + u) with u in Hev by lia.
  unfold spec_init in Hev. destruct ((n <? 1) || (1024 <=? n)) eqn:Hg; [discriminate|]. cbn [spec_store] in Hev.
  destruct (fits n u); [|discriminate]. cbn [bind fst snd] in Hev. injection Hev as <-.
  rewrite Z.mod_small by lia.
  unfold agree. cbn [tr_expr]. rewrite tr_concat_map. split; [unfold wfn; lia|]. split.
  - rewrite concat_selfw. exact Hs.
  - rewrite concat_eval, Hc. apply tr_small. lia.
Qed.

(* ------------------------------------------------------------------ the theorem *)
Theorem tr_expr_sound_gen : forall e, sound_expr e.
Proof.
  induction e using expr_ind'.
  - apply sound_ESig. - apply sound_ELit. - apply sound_ESized. - apply sound_EFree.
  - apply sound_ECast; assumption. - apply sound_EBin; assumption. - apply sound_ECmp; assumption.
  - apply sound_EInv; assumption. - apply sound_ESlice; assumption. - apply sound_EIdx; assumption.
  - apply sound_EConcat; assumption. - apply sound_EZext; assumption. - apply sound_ESext; assumption.
  - apply sound_ETrunc; assumption. - apply sound_ERed; assumption. - apply sound_EIf; assumption.
  - apply sound_ETmp. - apply sound_ELoop.
Qed.

End Sound.

(* ------------------------------------------------------------------ single assignments *)
(* What one emitted assignment transfers and where to, against what exec_assign does.  SvProofs.blocking_immediate /
   nonblocking_defers say that  lhs = rhs  writes  assign_value lhs rhs  to  resolve lhs  at once and  lhs <= rhs  queues
   exactly that pair; the theorems below identify the pair with the simulator's effect:
     target   the place  resolve (tr_lhs l)  is the declared place of the signal / field, its bits [lo, hi), its bit i;
     value    assign_value (tr_lhs l) (tr_expr e) = VZ u  where u is the number the simulator stores (after its own
              width check), and the simulator's new packed value of the signal is the old one with u spliced in. *)
Section Assign.
Variable nm : names.
Variable E : tenv.
Variable te : Z'.tenv.
Variable st : state.
Variable en : Z'.env.
Notation G := (tsig E).
Notation W := (Z'.selfw te).
Notation T := (tr_expr nm E).
Hypothesis HC : corr nm E te st en.

Lemma store_value k v u : spec_store k (to_operand v) = Ok u -> 0 <= value_int v < 2 ^ k -> u = value_int v.
Proof.
  destruct v as [m x|z]; cbn [to_operand spec_store value_int].
  - destruct (m =? k); [|discriminate]. intros [= <-] _. reflexivity.
  - destruct (fits k z); [|discriminate]. intros [= <-] Hz. apply Z.mod_small. exact Hz.
Qed.

(* the right-hand side in the context of a target of exactly its width *)
Lemma rhs_sound rctx e v n : sv_ok te nm E rctx e = true -> eval G st e = Ok v -> W (T rctx e) = n ->
  X.rhs_value te en [] n (T rctx e) = Z'.VZ (value_int v) /\ 0 <= value_int v < 2 ^ n.
Proof.
  intros Hok Hev Hw. pose proof (tr_expr_sound_gen nm E te st en HC e rctx v Hok Hev) as A.
  destruct (agree_at _ _ _ _ _ _ _ A) as [Ev R]. rewrite Hw in *.
  split; [|exact R]. cbn [X.rhs_value]. unfold Z'.eval_ctx. rewrite Hw, Z.max_id, Ev. reflexivity.
Qed.

Lemma rhs_of_exec e lbl (k : value * state -> res state) st' :
  bind (bind (eval G st e) (fun v => Ok (v, add_evs st (map (fun p => (lbl, fst p, snd p)) (probes G st 0 e))))) k = Ok st' ->
  exists v, eval G st e = Ok v /\ k (v, add_evs st (map (fun p => (lbl, fst p, snd p)) (probes G st 0 e))) = Ok st'.
Proof. destruct (eval G st e) as [v|]; cbn [bind]; [eauto|discriminate]. Qed.

Definition unchanged_but (s : nat) (st' : state) : Prop :=
  (forall s', s' <> s -> sigv st' s' = sigv st s' /\ nxtv st' s' = nxtv st s') /\ tmpv st' = tmpv st /\ loopv st' = loopv st.

Lemma write_root_spec st0 blocking s x : sigv st0 = sigv st -> nxtv st0 = nxtv st -> tmpv st0 = tmpv st -> loopv st0 = loopv st ->
  let st' := write_root st0 blocking s x in
  (if blocking then sigv st' s = x /\ nxtv st' = nxtv st else nxtv st' s = Some x /\ sigv st' = sigv st) /\ unchanged_but s st'.
Proof.
  intros H1 H2 H3 H4. unfold write_root, unchanged_but. destruct blocking; cbn [set_sig set_nxt sigv nxtv tmpv loopv]; unfold upd.
  - rewrite Nat.eqb_refl. split; [split; [reflexivity|exact H2]|]. split; [|split; assumption].
    intros s' Hs. apply Nat.eqb_neq in Hs. rewrite Hs, H1, H2. split; reflexivity.
  - rewrite Nat.eqb_refl. split; [split; [reflexivity|exact H1]|]. split; [|split; assumption].
    intros s' Hs. apply Nat.eqb_neq in Hs. rewrite Hs, H1, H2. split; reflexivity.
Qed.

(* sig @= e , sig.field @= e , sig <<= e *)
Theorem tr_assign_sig_sound lbl s p e blocking st' :
  assign_ok te nm E (LSig s p) e blocking = true -> exec_assign G st lbl (LSig s p) e blocking = Ok st' ->
  exists f u, lookup_sig G s p = Some f /\
    X.assign_value te en (tr_lhs nm E (LSig s p)) (T (assign_ctx E (LSig s p) e) e) = Z'.VZ u /\ 0 <= u < 2 ^ fw f /\
    (if blocking then sigv st' s = splice (sigv st s) (flo f) (flo f + fw f) u /\ nxtv st' = nxtv st
     else nxtv st' s = Some (splice (sigv st s) (flo f) (flo f + fw f) u) /\ sigv st' = sigv st) /\
    unchanged_but s st'.
Proof.
  intros Hok Hex. unfold assign_ok in Hok. apply andb_prop in Hok as [Hok _]. apply andb_prop in Hok as [Hok Hw].
  apply andb_prop in Hok as [_ Hoke]. apply Z.eqb_eq in Hw.
  cbn [exec_assign] in Hex. destruct (lookup_sig G s p) as [f|] eqn:L; [|discriminate].
  destruct (rhs_of_exec _ _ _ _ Hex) as (v & Hev & Hk). cbn [fst snd] in Hk.
  destruct (negb blocking && negb match p with [] => true | _ => false end); [discriminate|].
  destruct (spec_store (fw f) (to_operand v)) as [u|] eqn:Hs; [|discriminate]. cbn [bind] in Hk. injection Hk as <-.
  destruct HC as (HS & _ & _). destruct (HS s p f L) as (rr & U & Hres & Hd & Hty & Hpw & Hfw & _).
  cbn [tr_lhs] in Hw |- *.
  assert (W (tr_sig nm s p) = fw f) as Hwl by (rewrite (chain_selfw te _ (chain_sig nm s p)), Hty; exact Hpw).
  destruct (rhs_sound _ e v (fw f) Hoke Hev ltac:(lia)) as [Hrv Hr].
  exists f, u. split; [reflexivity|].
  pose proof (store_value _ _ _ Hs Hr) as ->.
  split; [|split; [exact Hr|]].
  - unfold X.assign_value, X.lhs_dims. rewrite Hty, Hwl. exact Hrv.
  - apply (write_root_spec (add_evs st _) blocking s); reflexivity.
Qed.

(* tmp = e   (the temporary is declared as a scalar wire of w bits in the emitted module) *)
Theorem tr_assign_tmp_sound lbl i e w st' : PositiveMap.find (n_tmp nm i) te = Some (S.PBits w, []) ->
  assign_ok te nm E (LTmp i) e true = true -> exec_assign G st lbl (LTmp i) e true = Ok st' ->
  exists v, eval G st e = Ok v /\ tmpv st' i = Some v /\ (forall j, j <> i -> tmpv st' j = tmpv st j) /\
    sigv st' = sigv st /\ nxtv st' = nxtv st /\ loopv st' = loopv st /\
    X.assign_value te en (tr_lhs nm E (LTmp i)) (T (assign_ctx E (LTmp i) e) e) = Z'.VZ (value_int v) /\ 0 <= value_int v < 2 ^ w.
Proof.
  intros Hdecl Hok Hex. unfold assign_ok in Hok. apply andb_prop in Hok as [Hok _]. apply andb_prop in Hok as [Hok Hw].
  apply andb_prop in Hok as [_ Hoke]. apply Z.eqb_eq in Hw.
  cbn [exec_assign] in Hex. destruct (rhs_of_exec _ _ _ _ Hex) as (v & Hev & Hk). cbn [fst snd bind] in Hk. injection Hk as <-.
  assert (assign_ctx E (LTmp i) e = None) as Hctx by reflexivity. rewrite Hctx in *.
  cbn [tr_lhs] in Hw |- *.
  assert (W (S.EId (n_tmp nm i)) = w) as Hwl by (cbn [Z'.selfw Z'.type_of]; rewrite Hdecl; reflexivity).
  destruct (rhs_sound None e v w Hoke Hev ltac:(lia)) as [Hrv Hr].
  exists v. split; [exact Hev|]. cbn [set_tmp add_evs tmpv sigv nxtv loopv]. unfold upd. rewrite Nat.eqb_refl.
  split; [reflexivity|]. split; [intros j Hj; apply Nat.eqb_neq in Hj; rewrite Hj; reflexivity|].
  repeat (split; [reflexivity|]). split; [|exact Hr].
  unfold X.assign_value, X.lhs_dims. cbn [Z'.type_of]. rewrite Hdecl, Hwl. exact Hrv.
Qed.

(* the two shapes of an emitted part select of a plain signal, with the numbers the simulator computes for its bounds *)
Lemma slice_shape s p lo hi vl vh : sv_ok te nm E None (ESlice (ESig s p) lo hi) = true ->
  eval G st lo = Ok vl -> eval G st hi = Ok vh ->
  let l := value_int vl in let h := value_int vh in
  T None (ESlice (ESig s p) lo hi) = S.ERange (tr_sig nm s p) (h - 1) l \/
  exists tlo, T None (ESlice (ESig s p) lo hi) = S.EPlusRange (tr_sig nm s p) tlo (h - l) /\ 0 < h - l /\
              Z'.eval te en (W tlo) tlo = l.
Proof.
  intros Hok El Eh. cbn [sv_ok] in Hok. apply andb_prop in Hok as [_ Hok]. cbn [tr_expr]. unfold tr_slice.
  assert (forall y k, hi = EBin Add lo y -> cval y = Some k -> defint lo = true ->
            exists l, vl = VInt l /\ vh = VInt (l + k)) as Hplus.
  { intros y k -> Hy Hd. destruct (defint_sound E st lo Hd vl El) as [l ->]. exists l. split; [reflexivity|].
    cbn [eval] in Eh. rewrite El, (cval_sound E st y k Hy) in Eh. cbn [bind eval_bin eval_int_bin] in Eh. congruence. }
  destruct (cv_of E lo) as [c1|] eqn:C1; [destruct (cv_of E hi) as [h0|] eqn:C2|].
  - destruct (cval lo) as [l|] eqn:V1; [|discriminate]. destruct (cval hi) as [h|] eqn:V2; [|discriminate].
    apply andb_prop in Hok as [Hl Hh]. apply Z.eqb_eq in Hl. apply Z.eqb_eq in Hh.
    rewrite (cval_sound E st lo l V1) in El. rewrite (cval_sound E st hi h V2) in Eh. injection El as <-. injection Eh as <-.
    left. cbn [value_int sub] in *. rewrite Hl, Hh. reflexivity.
  - destruct hi as [| | | | |[] x0 y| | | | | | | | | | | |]; try discriminate.
    destruct (cv_of E y) as [k'|] eqn:C3; [|discriminate]. destruct (cval y) as [k|] eqn:V3; [|discriminate].
    apply andb_prop in Hok as [Hok Hoklo]. apply andb_prop in Hok as [Hok Hdi]. apply andb_prop in Hok as [Hok Heq].
    apply andb_prop in Hok as [Hkk Hk0]. apply Z.eqb_eq in Hkk. subst k'. apply expr_eqb_eq in Heq. subst x0.
    destruct (Hplus y k eq_refl V3 Hdi) as (l & -> & ->). cbn [value_int].
    right. eexists. split; [replace (l + k - l) with k by lia; reflexivity|]. split; [lia|].
    pose proof (tr_expr_sound_gen nm E te st en HC lo _ _ Hoklo El) as Al. destruct (agree_at _ _ _ _ _ _ _ Al) as [Evl _]. exact Evl.
  - destruct hi as [| | | | |[] x0 y| | | | | | | | | | | |]; try discriminate.
    destruct (cv_of E y) as [k'|] eqn:C3; [|discriminate]. destruct (cval y) as [k|] eqn:V3; [|discriminate].
    apply andb_prop in Hok as [Hok Hoklo]. apply andb_prop in Hok as [Hok Hdi]. apply andb_prop in Hok as [Hok Heq].
    apply andb_prop in Hok as [Hkk Hk0]. apply Z.eqb_eq in Hkk. subst k'. apply expr_eqb_eq in Heq. subst x0.
    destruct (Hplus y k eq_refl V3 Hdi) as (l & -> & ->). cbn [value_int].
    right. eexists. split; [replace (l + k - l) with k by lia; reflexivity|]. split; [lia|].
    pose proof (tr_expr_sound_gen nm E te st en HC lo _ _ Hoklo El) as Al. destruct (agree_at _ _ _ _ _ _ _ Al) as [Evl _]. exact Evl.
Qed.

(* sig[lo:hi] @= e : the emitted target denotes bits [lo, hi) of the signal's place; the value stored is the one the simulator
   splices into the current field value *)
Theorem tr_assign_slice_sound lbl s p lo hi e st' :
  assign_ok te nm E (LSlice s p lo hi) e true = true -> exec_assign G st lbl (LSlice s p lo hi) e true = Ok st' ->
  exists f x ix o l h u,
    lookup_sig G s p = Some f /\ 0 <= l /\ l < h /\ h <= fw f /\
    Z'.resolve te en (tr_sig nm s p) = Some (Z'.mkref x ix [] o (S.PBits (fw f))) /\
    Z'.resolve te en (tr_lhs nm E (LSlice s p lo hi)) = Some (Z'.mkref x ix [] (o + l) (S.PBits (h - l))) /\
    X.assign_value te en (tr_lhs nm E (LSlice s p lo hi)) (T (assign_ctx E (LSlice s p lo hi) e) e) = Z'.VZ u /\
    0 <= u < 2 ^ (h - l) /\
    sigv st' s = splice (sigv st s) (flo f) (flo f + fw f) (splice ((sigv st s / 2 ^ flo f) mod 2 ^ fw f) l h u) /\
    nxtv st' = nxtv st /\ unchanged_but s st'.
Proof.
  intros Hok Hex. unfold assign_ok in Hok. apply andb_prop in Hok as [Hok _]. apply andb_prop in Hok as [Hok Hw].
  apply andb_prop in Hok as [Hokl Hoke]. apply Z.eqb_eq in Hw. cbn [lhs_ok] in Hokl.
  cbn [exec_assign] in Hex. destruct (lookup_sig G s p) as [f|] eqn:L; [|discriminate]. cbn [negb] in Hex.
  destruct (eval G st lo) as [vl|] eqn:El; [|discriminate]. destruct (eval G st hi) as [vh|] eqn:Eh; [|discriminate]. cbn [bind] in Hex.
  unfold read_field in Hex. cbn [value_int] in Hex.
  set (cur := (sigv st s / 2 ^ flo f) mod 2 ^ fw f) in *. set (l := value_int vl) in *. set (h := value_int vh) in *.
  cbn [spec_getitem step_trivial negb bound] in Hex. destruct (valid_range (fw f) l h) eqn:Hv; [|discriminate]. cbn [bind fst] in Hex.
  unfold valid_range in Hv. assert (0 <= l /\ l < h /\ h <= fw f) as (Hv1 & Hv2 & Hv3) by (clear - Hv; lia).
  destruct (rhs_of_exec _ _ _ _ Hex) as (v & Hev & Hk). cbn [fst snd] in Hk.
  destruct (spec_store (h - l) (to_operand v)) as [u|] eqn:Hs; [|discriminate]. cbn [bind] in Hk.
  cbn [spec_setitem step_trivial negb bound] in Hk. replace (valid_range (fw f) l h) with true in Hk by (unfold valid_range; clear - Hv; lia).
  cbn [spec_store] in Hk. rewrite Z.eqb_refl in Hk. cbn [bind fst snd] in Hk. injection Hk as <-.
  assert (lookup_sig G s p = Some f /\ fstruct f = None) as [_ F].
  { cbn [sv_ok] in Hokl. apply andb_prop in Hokl as [Hsb _]. destruct (sigbits_inv _ _ Hsb) as (s0 & p0 & f0 & [= <- <-] & L0 & F0).
    rewrite L in L0. injection L0 as <-. auto. }
  destruct (sig_ref nm E te st en HC s p f L F) as (x & ix & o & U & Hres & Hty & Hfw & Ho & Hget & Hval).
  change (tr_lhs nm E (LSlice s p lo hi)) with (T None (ESlice (ESig s p) lo hi)) in *.
  assert (Z'.resolve te en (T None (ESlice (ESig s p) lo hi)) = Some (Z'.mkref x ix [] (o + l) (S.PBits (h - l))) /\
          Z'.type_of te (T None (ESlice (ESig s p) lo hi)) = Some (S.PBits (h - l), []) /\
          W (T None (ESlice (ESig s p) lo hi)) = h - l) as (Hpl & Htl & Hwl).
  { destruct (slice_shape s p lo hi vl vh Hokl El Eh) as [HT|(tlo & HT & Hk0 & Evl)]; cbv zeta in HT; fold l h in HT; rewrite HT.
    - cbn [Z'.resolve Z'.type_of Z'.selfw]. rewrite Hres, Hty. cbn [Z'.ref_range S.pwidth].
      replace ((0 <=? l) && (l <=? h - 1) && (h - 1 <? fw f)) with true by (clear - Hv1 Hv2 Hv3; lia).
      replace (h - 1 - l + 1) with (h - l) by (clear; lia). auto.
    - fold l in Evl. assert (Z'.resolve te en (S.EPlusRange (tr_sig nm s p) tlo (h - l)) =
              Z'.ref_plus (Z'.resolve te en (tr_sig nm s p)) (Z'.eval te en (W tlo) tlo) (h - l)) as -> by reflexivity.
      cbn [Z'.type_of Z'.selfw]. rewrite Hres, Hty, Evl. cbn [Z'.ref_plus S.pwidth].
      replace ((0 <=? l) && (0 <? h - l) && (l + (h - l) <=? fw f)) with true by (clear - Hv1 Hv2 Hv3; lia). auto. }
  destruct (rhs_sound _ e v (h - l) Hoke Hev ltac:(clear - Hw Hwl; lia)) as [Hrv Hr].
  pose proof (store_value _ _ _ Hs Hr) as ->.
  exists f, x, ix, o, l, h, (value_int v). split; [reflexivity|]. repeat (split; [assumption|]).
  split; [unfold X.assign_value, X.lhs_dims; rewrite Htl, Hwl; exact Hrv|]. split; [exact Hr|].
  cbn [set_sig add_evs sigv nxtv tmpv loopv]. unfold upd. rewrite Nat.eqb_refl. split; [reflexivity|]. split; [reflexivity|].
  unfold unchanged_but. cbn [set_sig add_evs sigv nxtv tmpv loopv]. unfold upd.
  split; [intros s' Hs'; apply Nat.eqb_neq in Hs'; rewrite Hs'; auto|auto].
Qed.

(* sig[i] @= e *)
Theorem tr_assign_index_sound lbl s p i e st' :
  assign_ok te nm E (LIndex s p i) e true = true -> exec_assign G st lbl (LIndex s p i) e true = Ok st' ->
  exists f x ix o k u,
    lookup_sig G s p = Some f /\ 0 <= k < fw f /\
    Z'.resolve te en (tr_sig nm s p) = Some (Z'.mkref x ix [] o (S.PBits (fw f))) /\
    Z'.resolve te en (tr_lhs nm E (LIndex s p i)) = Some (Z'.mkref x ix [] (o + k) (S.PBits 1)) /\
    X.assign_value te en (tr_lhs nm E (LIndex s p i)) (T (assign_ctx E (LIndex s p i) e) e) = Z'.VZ u /\ 0 <= u < 2 /\
    sigv st' s = splice (sigv st s) (flo f) (flo f + fw f) (splice ((sigv st s / 2 ^ flo f) mod 2 ^ fw f) k (k + 1) u) /\
    nxtv st' = nxtv st /\ unchanged_but s st'.
Proof.
  intros Hok Hex. unfold assign_ok in Hok. apply andb_prop in Hok as [Hok _]. apply andb_prop in Hok as [Hok Hw].
  apply andb_prop in Hok as [Hokl Hoke]. apply Z.eqb_eq in Hw. cbn [lhs_ok sv_ok] in Hokl. apply andb_prop in Hokl as [Hsb Hoki].
  destruct (sigbits_inv _ _ Hsb) as (s0 & p0 & f & [= <- <-] & L & F).
  cbn [exec_assign] in Hex. rewrite L in Hex. cbn [negb] in Hex.
  destruct (eval G st i) as [vi|] eqn:Ei; [|discriminate]. cbn [bind] in Hex.
  unfold read_field in Hex. cbn [value_int] in Hex.
  set (cur := (sigv st s / 2 ^ flo f) mod 2 ^ fw f) in *. set (k := value_int vi) in *.
  cbn [spec_getitem] in Hex. destruct ((0 <=? k) && (k <? fw f)) eqn:Hk; [|discriminate]. cbn [bind fst] in Hex.
  assert (0 <= k < fw f) as Hk' by (clear - Hk; lia).
  destruct (rhs_of_exec _ _ _ _ Hex) as (v & Hev & Hq). cbn [fst snd] in Hq.
  destruct (spec_store 1 (to_operand v)) as [u|] eqn:Hs; [|discriminate]. cbn [bind] in Hq.
  cbn [spec_setitem] in Hq. rewrite Hk in Hq. change (1 <? 1) with false in Hq. cbn [bind fst snd] in Hq. injection Hq as <-.
  destruct (sig_ref nm E te st en HC s p f L F) as (x & ix & o & U & Hres & Hty & Hfw & Ho & Hget & Hval).
  pose proof (tr_expr_sound_gen nm E te st en HC i _ _ Hoki Ei) as Ai. destruct (agree_at _ _ _ _ _ _ _ Ai) as [Evi _]. fold k in Evi.
  cbn [tr_lhs] in Hw |- *. set (ti := T (idx_ctx E (ESig s p) i true) i) in *.
  pose proof (chain_sig nm s p) as Hch. pose proof (chain_not_concat _ Hch) as Hnc.
  assert (chain (S.EIndex (tr_sig nm s p) ti)) as Hch2 by exact Hnc.
  assert (Z'.type_of te (S.EIndex (tr_sig nm s p) ti) = Some (S.PBits 1, [])) as Htl by exact (type_of_index te _ ti _ Hnc Hty).
  assert (W (S.EIndex (tr_sig nm s p) ti) = 1) as Hwl by (rewrite (chain_selfw te _ Hch2), Htl; reflexivity).
  assert (Z'.resolve te en (S.EIndex (tr_sig nm s p) ti) = Some (Z'.mkref x ix [] (o + k) (S.PBits 1))) as Hpl.
  { rewrite resolve_index, Hres, Evi. cbn [Z'.ref_index]. unfold Z'.inb. cbn [S.pwidth]. rewrite Hk. reflexivity. }
  destruct (rhs_sound _ e v 1 Hoke Hev ltac:(clear - Hw Hwl; lia)) as [Hrv Hr].
  pose proof (store_value _ _ _ Hs Hr) as ->. change (2 ^ 1) with 2 in Hr.
  exists f, x, ix, o, k, (value_int v). split; [exact L|]. repeat (split; [assumption|]).
  split; [unfold X.assign_value, X.lhs_dims; rewrite Htl, Hwl; exact Hrv|]. split; [exact Hr|].
  rewrite (Z.mod_small (value_int v) 2) by exact Hr.
  cbn [set_sig add_evs sigv nxtv tmpv loopv]. unfold upd. rewrite Nat.eqb_refl. split; [reflexivity|]. split; [reflexivity|].
  unfold unchanged_but. cbn [set_sig add_evs sigv nxtv tmpv loopv]. unfold upd.
  split; [intros s' Hs'; apply Nat.eqb_neq in Hs'; rewrite Hs'; auto|auto].
Qed.

End Assign.

(* ------------------------------------------------------------------ the statements used by Props/C03_tr.v *)
Theorem tr_expr_sound nm E te st en : corr nm E te st en ->
  forall e ctx v, sv_ok te nm E ctx e = true -> eval (tsig E) st e = Ok v ->
  match v with
  | VBits n u => 0 < n < 1024 /\ Z'.selfw te (tr_expr nm E ctx e) = n /\ Z'.eval te en n (tr_expr nm E ctx e) = u
  | VInt z => 0 <= z < 2 ^ Z'.selfw te (tr_expr nm E ctx e) /\
              forall Wd, Z'.selfw te (tr_expr nm E ctx e) <= Wd -> Z'.eval te en Wd (tr_expr nm E ctx e) = z
  end.
Proof.
  intros HC e ctx v Hok Hev. pose proof (tr_expr_sound_gen nm E te st en HC e ctx v Hok Hev) as A.
  destruct v as [n u|z]; unfold agree in A.
  - exact A.
  - destruct A as (_ & Hz & _ & Hev'). split; assumption.
Qed.

Theorem tr_expr_sound_ctx nm E te st en : corr nm E te st en ->
  forall e ctx n u, sv_ok te nm E ctx e = true -> eval (tsig E) st e = Ok (VBits n u) ->
  Z'.eval_ctx te en n (tr_expr nm E ctx e) = u /\ 0 <= u < 2 ^ n.
Proof.
  intros HC e ctx n u Hok Hev. pose proof (tr_expr_sound_gen nm E te st en HC e ctx _ Hok Hev) as A.
  pose proof (agree_bits_range _ _ _ _ _ _ _ _ A) as Hu. destruct A as (_ & Hw & He).
  split; [|exact Hu]. unfold Z'.eval_ctx. rewrite Hw, Z.max_id. exact He.
Qed.

Theorem tr_cond_sound nm E te st en : corr nm E te st en ->
  forall c v, sv_ok te nm E None c = true -> eval (tsig E) st c = Ok v ->
  Z'.truthy (Z'.eval_self te en (tr_expr nm E None c)) = truthy v.
Proof.
  intros HC c v Hok Hev. pose proof (tr_expr_sound_gen nm E te st en HC c None v Hok Hev) as A.
  exact (truthy_agree _ _ _ _ _ _ _ A).
Qed.

(* ------------------------------------------------------------------ statements: what is proved, what is not *)
Lemma tr_go_eq nm : forall l E,
  (fix go (l : list stmt) (E : tenv) : list sstmt :=
     match l with [] => [] | x :: r => tr_stmt nm E x :: go r (env_after E x) end) l E = tr_stmts nm E l.
Proof. induction l as [|x r IH]; intros E; [reflexivity|]. cbn [tr_stmts]. rewrite IH. reflexivity. Qed.

(* an emitted assignment statement does what SvProofs.blocking_immediate / nonblocking_defers say, on the pair
   (resolve (tr_lhs l), assign_value (tr_lhs l) (tr_expr e)) identified by tr_assign_*_sound above *)
Theorem tr_stmt_assign_exec nm E te lbl l e blocking x :
  X.exec te (tr_stmt nm E (SAssign lbl l e blocking)) x =
  let tgt := Z'.resolve te (X.x_env x) (tr_lhs nm E l) in
  let val := X.assign_value te (X.x_env x) (tr_lhs nm E l) (tr_expr nm E (assign_ctx E l e) e) in
  if blocking then X.mkx (Z'.write_ref tgt val (X.x_env x)) (X.x_pend x) (X.x_ok x)
  else X.mkx (X.x_env x) (X.x_pend x ++ [(tgt, val)]) (X.x_ok x).
Proof. cbn [tr_stmt]. destruct blocking; reflexivity. Qed.

(* an emitted if statement runs the translation of the branch python runs *)
Theorem tr_if_sound nm E te st x lbl c t f v : corr nm E te st (X.x_env x) ->
  sv_ok te nm E None c = true -> eval (tsig E) st c = Ok v ->
  X.exec te (tr_stmt nm E (SIf lbl c t f)) x =
    X.exec_list te (if truthy v then tr_stmts nm E t else tr_stmts nm (env_after_list E t) f) x /\
  exec (tsig E) (SIf lbl c t f) st =
    exec_list (exec (tsig E)) (if truthy v then t else f)
      (add_evs st (map (fun p => (lbl, fst p, snd p)) (probes (tsig E) st 0 c))).
Proof.
  intros HC Hok Hev. split.
  - cbn [tr_stmt X.exec]. rewrite !tr_go_eq, !P.exec_list_fold.
    pose proof (tr_cond_sound nm E te st (X.x_env x) HC c v Hok Hev) as Ht. rewrite Ht. destruct (truthy v); reflexivity.
  - cbn [exec]. rewrite Hev. reflexivity.
Qed.

(* NOT PROVED IN THIS GENERALITY (the statement is the one harness/c03_tr.py samples on random inputs for every compared
   block, see blk_diff): a whole accepted block, executed once by the simulator semantics and once - as the emitted
   always block - by SvEval from the same signal values, leaves the same value in every signal it writes (blocking
   assignments: at once; non-blocking: after the commit at the clock edge).
   PROVED below: tr_comb_block_sound and tr_ff_block_sound - this statement (in the stronger invariant form) for plain designs
   and blocks accepted by comb_ok / ff_ok: all assignments, nested if / elif / else, sequencing, temporaries, pending
   non-blocking writes.  What is still missing for the general statement: for loops (the iteration correspondence between
   loop_count and the fuel loop of SvEval.exec, see the end of this file) and designs with lists of signals / unpacked
   arrays (the relation [inv] is stated for one scalar variable per signal). *)
Definition tr_block_sound_partial : Prop :=
  forall nm G t m nsig ntmp nloop wr inputs,
    flat_names_ok m nm G nsig ntmp nloop = true ->
    blk_ok (X.mod_tenv m) nm G t = true ->
    Forall (fun sv => 0 <= snd sv < 2 ^ match lookup_sig G (fst sv) [] with Some f => fw f | None => 0 end) (combine (seq 0 nsig) inputs) ->
    length inputs = nsig ->
    blk_diff nm G t (tr_block nm G t) m nsig wr inputs <> 2%nat.

(* ------------------------------------------------------------------ the comparison of the tie *)
Lemma unop_eqb_eq a b : unop_eqb a b = true -> a = b.
Proof. destruct a, b; cbn; congruence. Qed.
Lemma binop_eqb_eq a b : binop_eqb a b = true -> a = b.
Proof. destruct a, b; cbn; congruence. Qed.

Theorem sexpr_eqb_eq : forall x y, sexpr_eqb x y = true -> x = y.
Proof.
  induction x using P.expr_ind'; intros y Hxy; destruct y; cbn [sexpr_eqb] in Hxy; try discriminate.
  - apply andb_prop in Hxy as [H1 H2]. apply Z.eqb_eq in H1, H2. congruence.
  - apply Z.eqb_eq in Hxy. congruence.
  - apply Pos.eqb_eq in Hxy. congruence.
  - apply andb_prop in Hxy as [H1 H2]. apply Pos.eqb_eq in H2. rewrite (IHx _ H1). congruence.
  - apply andb_prop in Hxy as [H1 H2]. rewrite (IHx1 _ H1), (IHx2 _ H2). reflexivity.
  - apply andb_prop in Hxy as [H1 H3]. apply andb_prop in H1 as [H1 H2]. apply Z.eqb_eq in H2, H3. rewrite (IHx _ H1). congruence.
  - apply andb_prop in Hxy as [H1 H3]. apply andb_prop in H1 as [H1 H2]. apply Z.eqb_eq in H3. rewrite (IHx1 _ H1), (IHx2 _ H2). congruence.
  - f_equal. revert es0 Hxy. induction H as [|p r Hp _ IH]; intros [|q r'] Hq; try discriminate; [reflexivity|].
    apply andb_prop in Hq as [H1 H2]. rewrite (Hp _ H1), (IH _ H2). reflexivity.
  - apply andb_prop in Hxy as [H1 H2]. apply Z.eqb_eq in H1. rewrite (IHx _ H2). congruence.
  - apply andb_prop in Hxy as [H1 H2]. apply unop_eqb_eq in H1. rewrite (IHx _ H2). congruence.
  - apply andb_prop in Hxy as [H1 H3]. apply andb_prop in H1 as [H1 H2]. apply binop_eqb_eq in H1. rewrite (IHx1 _ H2), (IHx2 _ H3). congruence.
  - apply andb_prop in Hxy as [H1 H3]. apply andb_prop in H1 as [H1 H2]. rewrite (IHx1 _ H1), (IHx2 _ H2), (IHx3 _ H3). reflexivity.
  - apply andb_prop in Hxy as [H1 H2]. apply Z.eqb_eq in H1. rewrite (IHx _ H2). congruence.
Qed.

(* ------------------------------------------------------------------ a concrete design (non-vacuity, used by Props/C03_tr.v)
     s.a = InPort(8)  s.o = OutPort(8)  s.b = InPort(4)
     @update
     def blk():
       s.o @= 0
       for i in range(4):
         if s.a[i]:
           s.o[4:8] @= zext( s.b[0:2], 4 ) + 1                                                                      *)
Module TrExample.
Definition f8 := {| fw := 8; flo := 0; fstruct := None |}.
Definition f4 := {| fw := 4; flo := 0; fstruct := None |}.
Definition G : decls := [(0%nat, [], f8); (1%nat, [], f8); (2%nat, [], f4)].
Definition a_id := 1%positive. Definition o_id := 2%positive. Definition b_id := 3%positive. Definition i_id := 4%positive.
Definition nm : names :=
  names_of 99%positive [(0%nat, (a_id, [])); (1%nat, (o_id, [])); (2%nat, (b_id, []))] [] [] [] [(0%nat, i_id)].
Definition blk : list stmt :=
  [ SAssign 0 (LSig 1 []) (ELit 0) true;
    SFor 0 0 4 1
      [ SIf 1 (EIdx (ESig 0 []) (ELoop 0))
          [ SAssign 2 (LSlice 1 [] (ELit 4) (ELit 8))
              (EBin Add (EZext 4 (ESlice (ESig 2 []) (ELit 0) (ELit 2))) (ELit 1)) true ] [] ] ].
Definition decl (x : ident) (w : Z) : S.vdecl := S.mkdecl x (S.PBits w) [].
Definition m : S.module :=
  S.mkmod 50%positive [(S.DIn, decl a_id 8); (S.DOut, decl o_id 8); (S.DIn, decl b_id 4)] [] [decl i_id 32] [].
Definition te : Z'.tenv := X.mod_tenv m.
(* inside the loop: i is bound, 2 bits wide for the type checker *)
Definition E1 : tenv := set_tloop (init_tenv G) 0%nat (Some 2).
Definition st1 (a b i : Z) : state := set_loop (init_state [a; 0; b]) 0%nat i.
Definition en1 (a b i : Z) : Z'.env :=
  PositiveMap.add i_id (Z'.VZ i) (PositiveMap.add b_id (Z'.VZ b) (PositiveMap.add o_id (Z'.VZ 0)
    (PositiveMap.add a_id (Z'.VZ a) (PositiveMap.empty Z'.value)))).

Lemma corr_ok a b i : 0 <= i < 4 -> corr nm E1 te (st1 a b i) (en1 a b i).
Proof.
  intros Hi. split; [|split].
  - intros s p f L. cbn in L.
    destruct s as [|[|[|s]]]; destruct p as [|q p]; cbn in L; try discriminate; injection L as <-.
    + exists (Z'.mkref a_id [] [] 0 (S.PBits 8)), a. cbn. repeat split; try reflexivity; try lia.
    + exists (Z'.mkref o_id [] [] 0 (S.PBits 8)), 0. cbn. repeat split; try reflexivity; try lia.
    + exists (Z'.mkref b_id [] [] 0 (S.PBits 4)), b. cbn. repeat split; try reflexivity; try lia.
  - intros j w ex mi bo H. discriminate H.
  - intros j w H. unfold E1, set_tloop, upd_t in H. cbn [tloop] in H.
    destruct (Nat.eqb j 0) eqn:J; [|discriminate]. apply Nat.eqb_eq in J. subst j. injection H as <-.
    split; [reflexivity|]. intros z Hz. unfold st1, set_loop, upd in Hz. cbn in Hz. injection Hz as <-.
    split; [cbn; lia|]. split; [cbn; lia|reflexivity].
Qed.
End TrExample.

(* ------------------------------------------------------------------ the normalisation of the tie preserves meaning
   [norm ps] replaces a READ of a scalar localparam by the sized literal of its declaration and folds a size cast of a
   literal that fits its own width into the literal ( N'( M'dV ) -> N'dV ).  In an environment where every such localparam is declared with that width and holds that
   value (what SvEval.init_state builds from the localparam declarations), both sides of the comparison
   sv_expr_eqb / sv_lhs_eqb therefore evaluate alike, denote the same place, and have the same width. *)
Section Norm.
Variable ps : params.
Variable te : Z'.tenv.
Variable en : Z'.env.
Hypothesis ps_ok : forall x w v, PositiveMap.find x ps = Some (w, v) ->
  PositiveMap.find x te = Some (S.PBits w, []) /\ Z'.lookup en x = Z'.VZ v /\ 0 <= v < 2 ^ w.
Notation W := (Z'.selfw te).
Notation ev := (Z'.eval te en).

Definition norm_inv (e : sexpr) : Prop :=
  forall b, (forall Wd, ev Wd (norm ps b e) = ev Wd e) /\ W (norm ps b e) = W e /\ is_concat (norm ps b e) = is_concat e /\
            (b = true -> Z'.resolve te en (norm ps b e) = Z'.resolve te en e /\ Z'.type_of te (norm ps b e) = Z'.type_of te e).

Lemma tr_idem w x : Z'.tr w (Z'.tr w x) = Z'.tr w x.
Proof.
  unfold Z'.tr. destruct (Z.eq_dec (2 ^ w) 0) as [H0|H0]; [rewrite H0, !Zmod_0_r; reflexivity|apply Z.mod_mod; exact H0].
Qed.

Lemma index_eval a i Wd : ev Wd (S.EIndex a i) =
  if is_concat a then Z'.tr Wd (Z'.shr (W a) (ev (W a) a) (ev (W i) i) mod 2)
  else Z'.tr Wd (Z'.read_bits en (Z'.ref_index (Z'.resolve te en a) (ev (W i) i))).
Proof. destruct a; reflexivity. Qed.
Lemma index_type a i : Z'.type_of te (S.EIndex a i) =
  if is_concat a then Some (S.PBits 1, [])
  else match Z'.type_of te a with
       | Some (t, _ :: ds) => Some (t, ds) | Some (S.PArr _ t, []) => Some (t, []) | Some (_, []) => Some (S.PBits 1, []) | None => None end.
Proof. destruct a; reflexivity. Qed.
Lemma sel_selfw e : match e with S.EId _ | S.EMember _ _ | S.EIndex _ _ => True | _ => False end ->
  W e = match Z'.type_of te e with Some (t, []) => S.pwidth t | _ => 0 end.
Proof. destruct e; intros H; try contradiction; reflexivity. Qed.

Lemma member_eval a f Wd : ev Wd (S.EMember a f) = Z'.tr Wd (Z'.read_bits en (Z'.ref_member (Z'.resolve te en a) f)).
Proof. reflexivity. Qed.
Lemma member_resolve a f : Z'.resolve te en (S.EMember a f) = Z'.ref_member (Z'.resolve te en a) f.
Proof. reflexivity. Qed.
Lemma range_eval' a hi lo Wd : ev Wd (S.ERange a hi lo) = Z'.tr Wd (Z'.read_bits en (Z'.ref_range (Z'.resolve te en a) hi lo)).
Proof. reflexivity. Qed.
Lemma range_resolve a hi lo : Z'.resolve te en (S.ERange a hi lo) = Z'.ref_range (Z'.resolve te en a) hi lo.
Proof. reflexivity. Qed.

Lemma norm_sound_gen : forall e, norm_inv e.
Proof.
  induction e using P.expr_ind'; intros b.
  - (* ELit *) cbn [norm]. repeat split; reflexivity.
  - (* ENum *) cbn [norm]. repeat split; reflexivity.
  - (* EId *) cbn [norm]. destruct b; [repeat split; reflexivity|].
    destruct (PositiveMap.find x ps) as [[w v]|] eqn:Hp; [|repeat split; try reflexivity; discriminate].
    destruct (ps_ok x w v Hp) as (Hf & Hl & Hv).
    split; [|split; [|split; [reflexivity|discriminate]]].
    + intros Wd. cbn [Z'.eval]. unfold Z'.ref_id. rewrite Hf. cbn [Z'.read_bits Z'.r_dims Z'.r_var Z'.r_idx Z'.vget].
      rewrite Hl. cbn [Z'.r_lo Z'.r_ty S.pwidth]. rewrite Z.pow_0_r, Z.div_1_r. unfold Z'.tr at 2. reflexivity.
    + cbn [Z'.selfw Z'.type_of]. rewrite Hf. reflexivity.
  - (* EMember *) destruct (IHe true) as (_ & _ & _ & Hr). destruct (Hr eq_refl) as [Hres Hty].
    assert (Z'.type_of te (S.EMember (norm ps true e) f) = Z'.type_of te (S.EMember e f)) as HT by (cbn [Z'.type_of]; rewrite Hty; reflexivity).
    cbn [norm]. split; [|split; [|split; [reflexivity|intros _; split; [rewrite !member_resolve, Hres; reflexivity|exact HT]]]].
    + intros Wd. rewrite !member_eval, Hres. reflexivity.
    + rewrite !sel_selfw by exact I. rewrite HT. reflexivity.
  - (* EIndex *) destruct (IHe1 true) as (Hev1 & Hw1 & Hc1 & Hr). destruct (Hr eq_refl) as [Hres Hty].
    destruct (IHe2 false) as (Hev2 & Hw2 & _ & _).
    assert (Z'.type_of te (S.EIndex (norm ps true e1) (norm ps false e2)) = Z'.type_of te (S.EIndex e1 e2)) as HT
      by (rewrite !index_type, Hc1, Hty; reflexivity).
    cbn [norm]. split; [|split; [|split; [reflexivity|intros _; split; [|exact HT]]]].
    + intros Wd. rewrite !index_eval, Hc1, Hw1, Hw2, Hev1, Hev2, Hres. reflexivity.
    + rewrite !sel_selfw by exact I. rewrite HT. reflexivity.
    + change (Z'.resolve te en (S.EIndex (norm ps true e1) (norm ps false e2))) with
        (Z'.ref_index (Z'.resolve te en (norm ps true e1)) (ev (W (norm ps false e2)) (norm ps false e2))).
      rewrite Hres, Hw2, Hev2. reflexivity.
  - (* ERange *) destruct (IHe true) as (_ & _ & _ & Hr). destruct (Hr eq_refl) as [Hres Hty].
    cbn [norm]. split; [|split; [reflexivity|split; [reflexivity|intros _; split]]].
    + intros Wd. rewrite !range_eval', Hres. reflexivity.
    + rewrite !range_resolve, Hres. reflexivity.
    + cbn [Z'.type_of]. rewrite Hty. reflexivity.
  - (* EPlusRange *) destruct (IHe1 true) as (_ & _ & _ & Hr). destruct (Hr eq_refl) as [Hres Hty].
    destruct (IHe2 false) as (Hev2 & Hw2 & _ & _).
    assert (Z'.resolve te en (S.EPlusRange (norm ps true e1) (norm ps false e2) w) = Z'.resolve te en (S.EPlusRange e1 e2 w)) as HR.
    { change (Z'.resolve te en (S.EPlusRange (norm ps true e1) (norm ps false e2) w)) with
        (Z'.ref_plus (Z'.resolve te en (norm ps true e1)) (ev (W (norm ps false e2)) (norm ps false e2)) w).
      rewrite Hres, Hw2, Hev2. reflexivity. }
    cbn [norm]. split; [|split; [reflexivity|split; [reflexivity|intros _; split; [exact HR|]]]].
    + intros Wd. change (ev Wd (S.EPlusRange (norm ps true e1) (norm ps false e2) w)) with
        (Z'.tr Wd (Z'.read_bits en (Z'.resolve te en (S.EPlusRange (norm ps true e1) (norm ps false e2) w)))). rewrite HR. reflexivity.
    + cbn [Z'.type_of]. rewrite Hty. reflexivity.
  - (* EConcat *)
    assert (Forall (fun x => (forall Wd, ev Wd (norm ps false x) = ev Wd x) /\ W (norm ps false x) = W x) es) as HF.
    { induction H as [|x r Hx _ IH]; constructor; [destruct (Hx false) as (A & B & _); auto|exact IH]. }
    set (es' := (fix go (l : list sexpr) : list sexpr := match l with [] => [] | x :: r => norm ps false x :: go r end) es).
    assert (Z'.sumw te es' = Z'.sumw te es /\ catv te en es' = catv te en es) as [Hs Hc].
    { unfold es'. clear es' H. induction HF as [|x r [Hx1 Hx2] _ IH]; [split; reflexivity|]. destruct IH as [IH1 IH2].
      cbn [Z'.sumw fold_right]. unfold catv in *. fold (Z'.sumw te r).
      fold (Z'.sumw te ((fix go (l : list sexpr) : list sexpr := match l with [] => [] | x :: r => norm ps false x :: go r end) r)).
      rewrite Hx2, Hx1, IH1, IH2. split; reflexivity. }
    cbn [norm]. fold es'. split; [|split; [|split; [reflexivity|intros _; split; reflexivity]]].
    + intros Wd. rewrite !concat_eval, Hc. reflexivity.
    + rewrite !concat_selfw. exact Hs.
  - (* ERepl *) destruct (IHe false) as (Hev & Hw & _ & _). cbn [norm].
    split; [|split; [|split; [reflexivity|intros _; split; reflexivity]]].
    + intros Wd. cbn [Z'.eval]. rewrite Hw, Hev. reflexivity.
    + cbn [Z'.selfw]. rewrite Hw. reflexivity.
  - (* EUn *) destruct (IHe false) as (Hev & Hw & _ & _). cbn [norm].
    split; [|split; [|split; [reflexivity|intros _; split; reflexivity]]].
    + intros Wd. cbn [Z'.eval]. rewrite Hw, !Hev. reflexivity.
    + cbn [Z'.selfw]. rewrite Hw. reflexivity.
  - (* EBin *) destruct (IHe1 false) as (Hev1 & Hw1 & _ & _). destruct (IHe2 false) as (Hev2 & Hw2 & _ & _). cbn [norm].
    split; [|split; [|split; [reflexivity|intros _; split; reflexivity]]].
    + intros Wd. cbn [Z'.eval]. rewrite Hw1, Hw2, !Hev1, !Hev2. reflexivity.
    + cbn [Z'.selfw]. rewrite Hw1, Hw2. reflexivity.
  - (* ECond *) destruct (IHe1 false) as (Hev1 & Hw1 & _ & _). destruct (IHe2 false) as (Hev2 & Hw2 & _ & _).
    destruct (IHe3 false) as (Hev3 & Hw3 & _ & _). cbn [norm].
    split; [|split; [|split; [reflexivity|intros _; split; reflexivity]]].
    + intros Wd. cbn [Z'.eval]. rewrite Hw1, Hev1, Hev2, Hev3. reflexivity.
    + cbn [Z'.selfw]. rewrite Hw2, Hw3. reflexivity.
  - (* ECast *) destruct (IHe false) as (Hev & Hw & _ & _).
    assert (forall Wd, ev Wd (S.ECast w (norm ps false e)) = ev Wd (S.ECast w e)) as Hc
      by (intros Wd; cbn [Z'.eval]; rewrite Hw, Hev; reflexivity).
    cbn [norm]. destruct (norm ps false e) as [w' v| | | | | | | | | | | |] eqn:Hn;
      try (split; [exact Hc|split; [reflexivity|split; [reflexivity|intros _; split; reflexivity]]]).
    destruct ((0 <=? v) && (v <? 2 ^ w')) eqn:Hww; [|split; [exact Hc|split; [reflexivity|split; [reflexivity|intros _; split; reflexivity]]]].
    assert (0 <= v < 2 ^ w') as Hv by (clear - Hww; lia).
    split; [|split; [reflexivity|split; [reflexivity|intros _; split; reflexivity]]].
    intros Wd. rewrite <- Hc. cbn [Z'.eval Z'.selfw].
    rewrite (tr_small w' v Hv). rewrite (tr_fit (Z.max w w') w' v Hv ltac:(clear; lia)). reflexivity.
Qed.

Theorem norm_sound e Wd : ev Wd (norm ps false e) = ev Wd e /\ W (norm ps false e) = W e.
Proof. destruct (norm_sound_gen e false) as (A & B & _). split; [apply A|exact B]. Qed.

(* two expressions the tie finds equal evaluate alike at every width and have the same self-determined width *)
Theorem sv_expr_eqb_sound x y : sv_expr_eqb ps x y = true -> (forall Wd, ev Wd x = ev Wd y) /\ W x = W y.
Proof.
  unfold sv_expr_eqb. intros H. apply sexpr_eqb_eq in H.
  destruct (norm_sound_gen x false) as (Ax & Bx & _). destruct (norm_sound_gen y false) as (Ay & By & _).
  split; [intros Wd; rewrite <- Ax, <- Ay, H; reflexivity|rewrite <- Bx, <- By, H; reflexivity].
Qed.
(* two assignment targets the tie finds equal denote the same place, of the same type and width *)
Theorem sv_lhs_eqb_sound x y : sv_lhs_eqb ps x y = true ->
  Z'.resolve te en x = Z'.resolve te en y /\ Z'.type_of te x = Z'.type_of te y /\ W x = W y.
Proof.
  unfold sv_lhs_eqb. intros H. apply sexpr_eqb_eq in H.
  destruct (norm_sound_gen x true) as (_ & Bx & _ & Rx). destruct (norm_sound_gen y true) as (_ & By & _ & Ry).
  destruct (Rx eq_refl) as [Rx1 Rx2]. destruct (Ry eq_refl) as [Ry1 Ry2].
  split; [rewrite <- Rx1, <- Ry1, H; reflexivity|]. split; [rewrite <- Rx2, <- Ry2, H; reflexivity|rewrite <- Bx, <- By, H; reflexivity].
Qed.
End Norm.

(* ================================================================== whole combinational blocks
   tr_comb_block_sound: for a PLAIN design (Translate.plain_ok: every signal one scalar variable of the module - a Bits
   vector or a packed struct -, fields at the offsets of the declaration table, temporaries declared, spellings pairwise
   distinct) and a block accepted by Translate.comb_ok (blocking assignments to signals / fields / part selects / bits /
   temporaries, arbitrarily nested if / elif / else, every expression sv_ok, the block type-checks, no for loop):
   running the source block in the simulator semantics and the EMITTED always_comb body in SvEval from related states
   ends in related states ([inv]: every signal variable holds the simulator's packed value modulo the signal's width,
   every assigned temporary its value; nothing is pending).  Pieces: one assignment preserves [inv] (assign_inv, a frame
   argument on PM.add / set_sig with the bit-level lemmas splice_nested, splice_mod_congr, splice_whole), sequencing under
   the threaded typing environment (stmts_of; ext / tmps_ok are the static invariants of env_after), if (tr_if_sound). *)
Module PM := PositiveMap.

(* ------------------------------------------------------------------ whole blocks *)
(* bit-level facts about splice *)
Lemma splice_nested S a w l h u : 0 <= a -> 0 <= l -> l <= h -> h <= w -> 0 <= u < 2 ^ (h - l) ->
  splice S a (a + w) (splice ((S / 2 ^ a) mod 2 ^ w) l h u) = splice S (a + l) (a + h) u.
Proof.
  intros Ha Hl Hlh Hhw Hu.
  assert (0 <= splice ((S / 2 ^ a) mod 2 ^ w) l h u < 2 ^ (a + w - a)) as Hin.
  { replace (a + w - a) with w by lia.
    destruct (Z.eq_dec l h) as [->|Hne].
    - replace (h - h) with 0 in Hu by lia. assert (u = 0) by (cbn in Hu; lia). subst u.
      assert (splice ((S / 2 ^ a) mod 2 ^ w) h h 0 = (S / 2 ^ a) mod 2 ^ w) as ->.
      { apply Z.bits_inj'. intros i Hi. rewrite splice_testbit; [|lia|lia|rewrite Z.sub_diag; cbn; lia].
        replace ((h <=? i) && (i <? h)) with false by lia. reflexivity. }
      apply Z.mod_pos_bound. apply pow2_gt0. lia.
    - apply splice_range; try lia; apply Z.mod_pos_bound; apply pow2_gt0; lia. }
  apply Z.bits_inj'. intros i Hi.
  rewrite (splice_testbit S a (a + w)) by (try lia; exact Hin).
  rewrite (splice_testbit S (a + l) (a + h)) by (try lia; replace (a + h - (a + l)) with (h - l) by lia; exact Hu).
  destruct ((a <=? i) && (i <? a + w)) eqn:C1.
  - rewrite splice_testbit by lia.
    destruct ((l <=? i - a) && (i - a <? h)) eqn:C2.
    + replace ((a + l <=? i) && (i <? a + h)) with true by lia. f_equal. lia.
    + replace ((a + l <=? i) && (i <? a + h)) with false by lia.
      rewrite slice_testbit by lia. replace (i - a <? w) with true by lia. f_equal. lia.
  - replace ((a + l <=? i) && (i <? a + h)) with false by lia. reflexivity.
Qed.

Lemma splice_mod_congr U S W lo hi u : U mod 2 ^ W = S mod 2 ^ W -> 0 <= lo -> lo <= hi -> hi <= W -> 0 <= u < 2 ^ (hi - lo) ->
  (splice U lo hi u) mod 2 ^ W = (splice S lo hi u) mod 2 ^ W.
Proof.
  intros Heq Hlo Hlh Hhw Hu. apply Z.bits_inj'. intros i Hi.
  destruct (Z.ltb_spec i W) as [L|L].
  - rewrite !Z.mod_pow2_bits_low by (clear - L Hi; lia).
    rewrite (splice_testbit U lo hi u i (conj Hlo Hlh) Hi Hu), (splice_testbit S lo hi u i (conj Hlo Hlh) Hi Hu).
    destruct ((lo <=? i) && (i <? hi)); [reflexivity|].
    rewrite <- (Z.mod_pow2_bits_low U W i) by (clear - L Hi; lia). rewrite <- (Z.mod_pow2_bits_low S W i) by (clear - L Hi; lia). rewrite Heq. reflexivity.
  - rewrite !Z.mod_pow2_bits_high by (clear - L Hi Hlo Hlh Hhw; lia). reflexivity.
Qed.

Lemma splice_whole U w v : 0 <= w -> 0 <= U < 2 ^ w -> 0 <= v < 2 ^ w -> splice U 0 w v = v.
Proof.
  intros Hw HU Hv. apply Z.bits_inj'. intros i Hi. rewrite splice_testbit by (try lia; rewrite Z.sub_0_r; exact Hv).
  destruct (Z.leb_spec 0 i) as [_|]; [|lia]. destruct (Z.ltb_spec i w) as [L|L]; cbn [andb].
  - rewrite Z.sub_0_r. reflexivity.
  - rewrite (testbit_high U w i) by lia. rewrite (testbit_high v w i) by lia. reflexivity.
Qed.

(* ---- static layout of a plain design ---- *)
Lemma lookup_sig_in G s p f : lookup_sig G s p = Some f -> In (s, p, f) G.
Proof.
  induction G as [|[[s' p'] f'] G IH]; cbn [lookup_sig]; [discriminate|].
  destruct (Nat.eqb s s' && path_eqb p p') eqn:C.
  - intros [= <-]. apply andb_prop in C as [C1 C2]. apply Nat.eqb_eq in C1. apply path_eqb_eq in C2. subst. left. reflexivity.
  - intros H. right. apply IH. exact H.
Qed.

Lemma resolve_fields_indep te nm s en en' : forall rest done acc,
  Z'.resolve te en acc = Z'.resolve te en' acc ->
  Z'.resolve te en (tr_fields nm s done rest acc) = Z'.resolve te en' (tr_fields nm s done rest acc).
Proof.
  induction rest as [|f r IH]; intros done acc H; cbn [tr_fields]; [exact H|].
  apply IH. change (Z'.ref_member (Z'.resolve te en acc) (n_fld nm s (done ++ [f])) =
                    Z'.ref_member (Z'.resolve te en' acc) (n_fld nm s (done ++ [f]))). rewrite H. reflexivity.
Qed.

Lemma resolve_sig_indep te nm s p en en' : snd (n_sig nm s) = [] ->
  Z'.resolve te en (tr_sig nm s p) = Z'.resolve te en' (tr_sig nm s p).
Proof. intros H. unfold tr_sig, tr_root. rewrite H. cbn [fold_left]. apply resolve_fields_indep. reflexivity. Qed.

(* on a member chain over an identifier the static type is the type of the denoted place *)
Lemma type_fields te nm s en : forall rest done acc,
  (forall rr, Z'.resolve te en acc = Some rr -> Z'.r_dims rr = [] -> Z'.type_of te acc = Some (Z'.r_ty rr, [])) ->
  forall rr, Z'.resolve te en (tr_fields nm s done rest acc) = Some rr -> Z'.r_dims rr = [] ->
  Z'.type_of te (tr_fields nm s done rest acc) = Some (Z'.r_ty rr, []).
Proof.
  induction rest as [|f r IH]; intros done acc H; cbn [tr_fields]; [exact H|].
  apply IH. intros rr Hr Hd.
  change (Z'.resolve te en (S.EMember acc (n_fld nm s (done ++ [f])))) with
    (Z'.ref_member (Z'.resolve te en acc) (n_fld nm s (done ++ [f]))) in Hr.
  destruct (Z'.resolve te en acc) as [[x ix ds lo ty]|] eqn:Ra; [|discriminate].
  cbn [Z'.ref_member] in Hr. destruct ds; [|discriminate]. destruct ty as [w|fs|n elt]; try discriminate.
  destruct (S.pfield fs (n_fld nm s (done ++ [f]))) as [[off t]|] eqn:Pf; [|discriminate]. injection Hr as <-.
  cbn [Z'.type_of]. rewrite (H _ eq_refl eq_refl). cbn [Z'.r_ty]. rewrite Pf. reflexivity.
Qed.

Lemma type_sig te nm s p en rr : snd (n_sig nm s) = [] ->
  Z'.resolve te en (tr_sig nm s p) = Some rr -> Z'.r_dims rr = [] -> Z'.type_of te (tr_sig nm s p) = Some (Z'.r_ty rr, []).
Proof.
  intros H. unfold tr_sig, tr_root. rewrite H. cbn [fold_left]. apply type_fields.
  intros r0 Hr Hd. cbn [Z'.resolve] in Hr. unfold Z'.ref_id in Hr. cbn [Z'.type_of].
  destruct (PM.find (fst (n_sig nm s)) te) as [[t ds]|]; [|discriminate]. injection Hr as <-. cbn in Hd |- *. subst ds. reflexivity.
Qed.

Lemma nodup_pos_inj {A} (f : A -> ident) l : nodup_pos (map f l) = true ->
  forall a b, In a l -> In b l -> f a = f b -> a = b.
Proof.
  induction l as [|x r IH]; intros H a b Ha Hb Hf; [contradiction|].
  cbn [map nodup_pos] in H. apply andb_prop in H as [H1 H2].
  assert (forall c, In c r -> f c <> f x) as Hne.
  { intros c Hc Heq. apply negb_true_iff in H1.
    assert (existsb (Pos.eqb (f x)) (map f r) = true) as Hex.
    { apply existsb_exists. exists (f c). split; [apply in_map; exact Hc|apply Pos.eqb_eq; symmetry; exact Heq]. }
    rewrite H1 in Hex. discriminate. }
  destruct Ha as [<-|Ha], Hb as [<-|Hb]; [reflexivity| | |apply IH; assumption].
  - exfalso. apply (Hne b Hb). symmetry. exact Hf.
  - exfalso. apply (Hne a Ha). exact Hf.
Qed.

Section StmtInd.
  Variable P : stmt -> Prop.
  Hypothesis HA : forall lbl l e b, P (SAssign lbl l e b).
  Hypothesis HI : forall lbl c t f, Forall P t -> Forall P f -> P (SIf lbl c t f).
  Hypothesis HF : forall id lo hi step body, Forall P body -> P (SFor id lo hi step body).
  Fixpoint stmt_ind' (s : stmt) : P s :=
    let go := fix go (l : list stmt) : Forall P l :=
                match l with [] => Forall_nil P | x :: r => Forall_cons x (stmt_ind' x) (go r) end in
    match s with
    | SAssign lbl l e b => HA lbl l e b
    | SIf lbl c t f => HI lbl c t f (go t) (go f)
    | SFor id lo hi step body => HF id lo hi step body (go body)
    end.
End StmtInd.

Section Block.
Variable te : Z'.tenv.
Variable nm : names.
Variable G : decls.
Variable ntmp : nat.
Variable ff : bool.      (* false: always_comb block, true: always_ff block *)
Hypothesis HP : plain_ok te nm G ntmp = true.

(* what plain_ok gives *)
Lemma plain_place s p f : lookup_sig G s p = Some f ->
  exists ty f0, (forall en, Z'.resolve te en (tr_sig nm s p) = Some (Z'.mkref (sid nm s) [] [] (flo f) ty)) /\
    Z'.type_of te (tr_sig nm s p) = Some (ty, []) /\ S.pwidth ty = fw f /\ 0 < fw f < 1024 /\ 0 <= flo f /\
    (fstruct f = None -> ty = S.PBits (fw f)) /\
    lookup_sig G s [] = Some f0 /\ flo f0 = 0 /\ flo f + fw f <= fw f0.
Proof.
  intros L. unfold plain_ok in HP. repeat (apply andb_prop in HP as [HP ?]).
  rewrite forallb_forall in HP. specialize (HP _ (lookup_sig_in _ _ _ _ L)). cbn [place_ok] in HP.
  destruct (snd (n_sig nm s)) eqn:Hi; [|discriminate].
  destruct (Z'.resolve te (PM.empty Z'.value) (tr_sig nm s p)) as [[x ix ds o ty]|] eqn:Hr; [|discriminate].
  destruct ix; [|discriminate]. destruct ds; [|discriminate]. destruct (lookup_sig G s []) as [f0|] eqn:L0; [|discriminate].
  repeat (apply andb_prop in HP as [HP ?]). apply Pos.eqb_eq in HP. subst x.
  assert (o = flo f) by lia. subst o.
  exists ty, f0. split; [intros en; rewrite (resolve_sig_indep te nm s p en (PM.empty _) Hi); exact Hr|].
  split; [exact (type_sig te nm s p _ _ Hi Hr eq_refl)|].
  repeat (split; [lia|]). split; [|split; [reflexivity|lia]].
  intros F. rewrite F in *. destruct ty; try discriminate. f_equal. lia.
Qed.

Lemma root_in s f0 : lookup_sig G s [] = Some f0 -> In s (roots G).
Proof.
  intros L. unfold roots. apply in_map_iff. exists (s, [], f0). split; [reflexivity|].
  apply filter_In. split; [apply lookup_sig_in; exact L|reflexivity].
Qed.
Lemma sid_inj s s' f0 f0' : lookup_sig G s [] = Some f0 -> lookup_sig G s' [] = Some f0' -> sid nm s = sid nm s' -> s = s'.
Proof.
  intros L L' H. unfold plain_ok in HP. repeat (apply andb_prop in HP as [HP ?]).
  eapply (nodup_pos_inj (sid nm) (roots G)); eauto using root_in.
Qed.
Lemma tmp_inj i j : (i < ntmp)%nat -> (j < ntmp)%nat -> n_tmp nm i = n_tmp nm j -> i = j.
Proof.
  intros Hi Hj H. unfold plain_ok in HP. repeat (apply andb_prop in HP as [HP ?]).
  eapply (nodup_pos_inj (n_tmp nm) (seq 0 ntmp)); eauto; apply in_seq; lia.
Qed.
Lemma sid_tmp s f0 i : lookup_sig G s [] = Some f0 -> (i < ntmp)%nat -> sid nm s <> n_tmp nm i.
Proof.
  intros L Hi H. unfold plain_ok in HP. repeat (apply andb_prop in HP as [HP ?]).
  match goal with Hx : forallb _ (roots G) = true |- _ => rewrite forallb_forall in Hx; specialize (Hx s (root_in _ _ L));
    rewrite forallb_forall in Hx; specialize (Hx i ltac:(apply in_seq; lia)) end.
  rewrite H, Pos.eqb_refl in *. discriminate.
Qed.
Lemma tmp_declared i : (i < ntmp)%nat -> exists w, tmp_decl te nm i = Some w /\ 0 < w < 1024.
Proof.
  intros Hi. unfold plain_ok in HP. repeat (apply andb_prop in HP as [HP ?]).
  match goal with Hx : forallb _ (seq 0 ntmp) = true |- _ => rewrite forallb_forall in Hx; specialize (Hx i ltac:(apply in_seq; lia)) end.
  destruct (tmp_decl te nm i) as [w|]; [|discriminate]. exists w. split; [reflexivity|lia].
Qed.

Lemma field_of_mod U S W a w : U mod 2 ^ W = S mod 2 ^ W -> 0 <= a -> 0 <= w -> a + w <= W ->
  (U / 2 ^ a) mod 2 ^ w = (S / 2 ^ a) mod 2 ^ w.
Proof.
  intros Heq Ha Hw Haw. apply Z.bits_inj'. intros i Hi. rewrite !slice_testbit by assumption.
  destruct (Z.ltb_spec i w) as [L|L]; [|reflexivity].
  rewrite <- (Z.mod_pow2_bits_low U W (a + i)) by (clear - L Haw; lia).
  rewrite <- (Z.mod_pow2_bits_low S W (a + i)) by (clear - L Haw; lia). rewrite Heq. reflexivity.
Qed.

(* ---- the relation between the simulator state and the SvEval state of the emitted always block ----
   always_comb: nothing is pending.  always_ff: the pending list holds whole-signal writes only, and committing it yields
   what the simulator's signals hold after the clock edge (final_sig: the value written by <<=, else the current one) *)
Definition pending_ok (p : list X.pend) : Prop :=
  Forall (fun rv => exists s f0 ty u, lookup_sig G s [] = Some f0 /\ S.pwidth ty = fw f0 /\
                      rv = (Some (Z'.mkref (sid nm s) [] [] 0 ty), Z'.VZ u)) p.
Definition pend_rel (st : state) (x : X.xstate) : Prop :=
  if ff then
    pending_ok (X.x_pend x) /\
    forall s f0, lookup_sig G s [] = Some f0 ->
      exists U, PM.find (sid nm s) (X.commit (X.x_pend x) (X.x_env x)) = Some (Z'.VZ U) /\
                U mod 2 ^ fw f0 = final_sig st s mod 2 ^ fw f0
  else X.x_pend x = [].

Record inv (E : tenv) (st : state) (x : X.xstate) : Prop := mkinv {
  inv_G : tsig E = G;
  inv_sig : forall s f0, lookup_sig G s [] = Some f0 ->
    exists U, PM.find (sid nm s) (X.x_env x) = Some (Z'.VZ U) /\ U mod 2 ^ fw f0 = sigv st s mod 2 ^ fw f0;
  inv_tdecl : forall i w, (i < ntmp)%nat -> tmp_decl te nm i = Some w ->
    exists U, PM.find (n_tmp nm i) (X.x_env x) = Some (Z'.VZ U) /\ 0 <= U < 2 ^ w;
  inv_tmp : forall i w ex mi bo, ttmp E i = Some (w, ex, mi, bo) ->
    (i < ntmp)%nat /\ tmp_decl te nm i = Some w /\
    forall v, tmpv st i = Some v ->
      match v with
      | VBits n u => n = w /\ ex = true /\ PM.find (n_tmp nm i) (X.x_env x) = Some (Z'.VZ u)
      | VInt z => mi = true /\ PM.find (n_tmp nm i) (X.x_env x) = Some (Z'.VZ z)
      end;
  inv_typed : forall i v, tmpv st i = Some v -> ttmp E i <> None;
  inv_loop : forall i, tloop E i = None;
  inv_pend : pend_rel st x;
  inv_okf : X.x_ok x = true }.

Lemma tmp_decl_find i w : tmp_decl te nm i = Some w -> PM.find (n_tmp nm i) te = Some (S.PBits w, []).
Proof.
  unfold tmp_decl. destruct (PM.find (n_tmp nm i) te) as [[[w'|fs|n elt] [|d ds]]|]; try discriminate. intros [= <-]. reflexivity.
Qed.

Lemma inv_corr E st x : inv E st x -> corr nm E te st (X.x_env x).
Proof.
  intros I. split; [|split].
  - intros s p f L. rewrite (inv_G _ _ _ I) in L.
    destruct (plain_place s p f L) as (ty & f0 & Hres & Hty & Hpw & Hfw & Hflo & Hbits & L0 & Hf0 & Hin).
    destruct (inv_sig _ _ _ I s f0 L0) as (U & Hfind & HU).
    exists (Z'.mkref (sid nm s) [] [] (flo f) ty), U. cbn [Z'.r_dims Z'.r_ty Z'.r_lo Z'.r_var Z'.r_idx Z'.vget].
    split; [apply Hres|]. split; [reflexivity|]. split; [exact Hty|]. split; [exact Hpw|]. split; [exact Hfw|].
    split; [exact Hbits|]. split; [exact Hflo|]. split; [unfold Z'.lookup; rewrite Hfind; reflexivity|].
    apply (field_of_mod U (sigv st s) (fw f0)); [exact HU|lia|lia|lia].
  - intros i w ex mi bo Ht. destruct (inv_tmp _ _ _ I i w ex mi bo Ht) as (Hi & Hd & Hv).
    destruct (tmp_declared i Hi) as (w' & Hd' & Hw). rewrite Hd in Hd'. injection Hd' as <-.
    destruct (inv_tdecl _ _ _ I i w Hi Hd) as (U & Hfind & HU).
    split; [apply tmp_decl_find; exact Hd|]. split; [exact Hw|]. intros v Hv'. specialize (Hv v Hv').
    destruct v as [n u|z].
    + destruct Hv as (-> & -> & Hf). rewrite Hf in Hfind. injection Hfind as <-.
      repeat split; try assumption; try lia. unfold Z'.lookup. rewrite Hf. reflexivity.
    + destruct Hv as (-> & Hf). rewrite Hf in Hfind. injection Hfind as <-.
      repeat split; try assumption; try lia. unfold Z'.lookup. rewrite Hf. reflexivity.
  - intros i w Hl. rewrite (inv_loop _ _ _ I i) in Hl. discriminate.
Qed.

Lemma inv_evs E st x l : inv E st x -> inv E (add_evs st l) x.
Proof. intros [H1 H2 H3 H4 H5 H6 H7 H8]. constructor; assumption. Qed.

(* ---- the typing environment threaded through the statements ---- *)
Definition ext (E E' : tenv) : Prop :=
  tsig E' = tsig E /\ (forall i, tloop E' i = tloop E i) /\
  forall i w ex mi bo, ttmp E i = Some (w, ex, mi, bo) -> exists bo', ttmp E' i = Some (w, ex, mi, bo').
Definition tmps_ok (E : tenv) : Prop :=
  forall i w ex mi bo, ttmp E i = Some (w, ex, mi, bo) -> (i < ntmp)%nat /\ tmp_decl te nm i = Some w.

Lemma ext_refl E : ext E E.
Proof. split; [reflexivity|]. split; [reflexivity|]. intros; eauto. Qed.
Lemma ext_trans E1 E2 E3 : ext E1 E2 -> ext E2 E3 -> ext E1 E3.
Proof.
  intros (A1 & A2 & A3) (B1 & B2 & B3). split; [congruence|]. split; [intros i; rewrite B2; apply A2|].
  intros i w ex mi bo H. destruct (A3 _ _ _ _ _ H) as [bo' H']. exact (B3 _ _ _ _ _ H').
Qed.

Lemma inv_ext E E' st x : inv E st x -> ext E E' -> tmps_ok E' -> inv E' st x.
Proof.
  intros I (X1 & X2 & X3) T. constructor.
  - rewrite X1. apply (inv_G _ _ _ I).
  - apply (inv_sig _ _ _ I).
  - apply (inv_tdecl _ _ _ I).
  - intros i w ex mi bo H. destruct (T _ _ _ _ _ H) as [Hi Hd]. split; [exact Hi|]. split; [exact Hd|].
    intros v Hv. destruct (ttmp E i) as [[[[w0 ex0] mi0] bo0]|] eqn:Ht; [|exfalso; exact (inv_typed _ _ _ I i v Hv Ht)].
    destruct (X3 _ _ _ _ _ Ht) as [bo' H']. rewrite H in H'. injection H' as -> -> -> _.
    destruct (inv_tmp _ _ _ I i _ _ _ _ Ht) as (_ & _ & Hval). exact (Hval v Hv).
  - intros i v Hv Hn. destruct (ttmp E i) as [[[[w0 ex0] mi0] bo0]|] eqn:Ht; [|exact (inv_typed _ _ _ I i v Hv Ht)].
    destruct (X3 _ _ _ _ _ Ht) as [bo' H']. congruence.
  - intros i. rewrite X2. apply (inv_loop _ _ _ I).
  - apply (inv_pend _ _ _ I).
  - apply (inv_okf _ _ _ I).
Qed.

Lemma tcs_list_after : forall l E E' ns, tcs_list (tcs impl) l E = Some (E', ns) -> env_after_list E l = E'.
Proof.
  induction l as [|s r IH]; intros E E' ns H; cbn [tcs_list] in H.
  - injection H as <- _. reflexivity.
  - destruct (tcs impl E s) as [[E1 n1]|] eqn:H1; [|discriminate].
    destruct (tcs_list (tcs impl) r E1) as [[E2 n2]|] eqn:H2; [|discriminate]. injection H as <- _.
    unfold env_after_list. cbn [fold_left]. unfold env_after at 2. rewrite H1. apply (IH E1 E2 n2 H2).
Qed.

Lemma env_after_if E lbl c t f : typed E (SIf lbl c t f) = true ->
  env_after E (SIf lbl c t f) = env_after_list (env_after_list E t) f.
Proof.
  unfold typed, env_after. cbn [tcs]. destruct (tc impl E c) as [rc|]; [|discriminate].
  destruct (is_struct (fst rc) || (impl 3%nat && aovf (fst rc))); [discriminate|].
  destruct (tcs_list (tcs impl) t E) as [[E1 n1]|] eqn:H1; [|discriminate].
  destruct (tcs_list (tcs impl) f E1) as [[E2 n2]|] eqn:H2; [|discriminate]. intros _.
  rewrite (tcs_list_after _ _ _ _ H1). symmetry. apply (tcs_list_after _ _ _ _ H2).
Qed.

Lemma env_after_assign_sig E lbl l e b : (forall i, l <> LTmp i) -> env_after E (SAssign lbl l e b) = E.
Proof.
  intros Hl. unfold env_after. cbn [tcs]. unfold tc_assign. destruct (tc impl E e) as [r|]; [|reflexivity].
  cbn [impl andb]. destruct l as [s p|s p lo hi|s p i|i]; try (exfalso; exact (Hl i eq_refl)); cbn [lhs_expr];
    match goal with |- context [tc impl E ?le] => destruct (tc impl E le) as [rl|]; [|reflexivity] end;
    destruct (assign_sig impl rl r); reflexivity.
Qed.

Lemma env_after_assign_tmp E lbl i e b : typed E (SAssign lbl (LTmp i) e b) = true ->
  exists r, tc impl E e = Some r /\
    env_after E (SAssign lbl (LTmp i) e b) = set_ttmp E i (aw (fst r), aex (fst r), aint (fst r), abool (fst r)).
Proof.
  unfold typed, env_after. cbn [tcs]. unfold tc_assign. destruct (tc impl E e) as [r|]; [|discriminate].
  cbn [impl andb]. destruct (is_struct (fst r)); [discriminate|].
  destruct (ttmp E i) as [[[[w ex] mi] bo]|].
  - destruct (negb (w =? aw (fst r))); [discriminate|]. cbn [impl andb]. intros _. exists r. split; reflexivity.
  - intros _. exists r. split; reflexivity.
Qed.

(* ---- one blocking assignment preserves the relation ---- *)
Lemma write_scalar x o ty u U en : PM.find x en = Some (Z'.VZ U) ->
  Z'.write_ref (Some (Z'.mkref x [] [] o ty)) (Z'.VZ u) en =
  PM.add x (Z'.VZ (splice U o (o + S.pwidth ty) (u mod 2 ^ S.pwidth ty))) en.
Proof. intros H. unfold Z'.write_ref. cbn [Z'.r_var Z'.r_idx]. rewrite H. reflexivity. Qed.

Lemma sig_write_inv E st st' x s f0 U' : ff = false -> inv E st x -> lookup_sig G s [] = Some f0 ->
  U' mod 2 ^ fw f0 = sigv st' s mod 2 ^ fw f0 -> unchanged_but st s st' ->
  inv E st' (X.mkx (PM.add (sid nm s) (Z'.VZ U') (X.x_env x)) (X.x_pend x) (X.x_ok x)).
Proof.
  intros Hff I L0 HU (Hoth & Htmp & Hloop). constructor; cbn [X.x_env X.x_pend X.x_ok].
  - apply (inv_G _ _ _ I).
  - intros s' f0' L0'. destruct (Nat.eq_dec s' s) as [->|Hne].
    + rewrite L0 in L0'. injection L0' as <-. exists U'. split; [apply PM.gss|exact HU].
    + destruct (inv_sig _ _ _ I s' f0' L0') as (U & Hf & Hu). exists U. split.
      * rewrite PM.gso; [exact Hf|]. intros Heq. apply Hne. exact (sid_inj s' s f0' f0 L0' L0 Heq).
      * destruct (Hoth s' Hne) as [-> _]. exact Hu.
  - intros i w Hi Hd. destruct (inv_tdecl _ _ _ I i w Hi Hd) as (U & Hf & Hu). exists U. split; [|exact Hu].
    rewrite PM.gso; [exact Hf|]. intros Heq. exact (sid_tmp s f0 i L0 Hi (eq_sym Heq)).
  - intros i w ex mi bo Ht. destruct (inv_tmp _ _ _ I i w ex mi bo Ht) as (Hi & Hd & Hv). split; [exact Hi|]. split; [exact Hd|].
    intros v Hv'. rewrite Htmp in Hv'. specialize (Hv v Hv').
    assert (PM.find (n_tmp nm i) (PM.add (sid nm s) (Z'.VZ U') (X.x_env x)) = PM.find (n_tmp nm i) (X.x_env x)) as ->
      by (apply PM.gso; intros Heq; exact (sid_tmp s f0 i L0 Hi (eq_sym Heq))).
    exact Hv.
  - intros i v Hv. rewrite Htmp in Hv. exact (inv_typed _ _ _ I i v Hv).
  - apply (inv_loop _ _ _ I).
  - pose proof (inv_pend _ _ _ I) as Hp. unfold pend_rel in Hp |- *. rewrite Hff in Hp |- *. exact Hp.
  - apply (inv_okf _ _ _ I).
Qed.

Lemma go_cstmts_eq : forall l E,
  (fix go (l : list stmt) (E : tenv) : bool :=
     match l with [] => true | x :: r => cstmt_ok te nm ntmp ff E x && go r (env_after E x) end) l E = cstmts_ok te nm ntmp ff E l.
Proof. induction l as [|x r IH]; intros E; [reflexivity|]. cbn [cstmts_ok]. rewrite IH. reflexivity. Qed.

Lemma assign_static E lbl l e b : cstmt_ok te nm ntmp ff E (SAssign lbl l e b) = true -> tmps_ok E ->
  ext E (env_after E (SAssign lbl l e b)) /\ tmps_ok (env_after E (SAssign lbl l e b)).
Proof.
  intros Hok T. cbn [cstmt_ok] in Hok. apply andb_prop in Hok as [Hok Htmp]. apply andb_prop in Hok as [Hok Hty].
  destruct l as [s p|s p lo hi|s p i|i]; try (rewrite env_after_assign_sig by (intros j; discriminate); split; [apply ext_refl|exact T]).
  destruct (env_after_assign_tmp E lbl i e b Hty) as (r & Hr & ->).
  unfold tmp_assign_ok in Htmp. apply andb_prop in Htmp as [Hi Htmp]. apply Nat.ltb_lt in Hi. rewrite Hr in Htmp.
  destruct (tmp_decl te nm i) as [w|] eqn:Hd; [|discriminate].
  apply andb_prop in Htmp as [Htmp Hold]. apply andb_prop in Htmp as [Hw _]. apply Z.eqb_eq in Hw.
  split.
  - split; [reflexivity|]. split; [reflexivity|]. intros j w0 ex0 mi0 bo0 Hj. cbn [set_ttmp ttmp]. unfold upd_t.
    destruct (Nat.eqb j i) eqn:J; [|eauto]. apply Nat.eqb_eq in J. subst j. rewrite Hj in Hold.
    apply andb_prop in Hold as [Hold H3]. apply andb_prop in Hold as [H1 H2].
    apply Z.eqb_eq in H1. apply eqb_prop in H2, H3. subst. eauto.
  - intros j w0 ex0 mi0 bo0 Hj. cbn [set_ttmp ttmp] in Hj. unfold upd_t in Hj.
    destruct (Nat.eqb j i) eqn:J; [|exact (T _ _ _ _ _ Hj)]. apply Nat.eqb_eq in J. subst j. injection Hj as <- _ _ _.
    split; [exact Hi|]. rewrite Hw. exact Hd.
Qed.

(* pending non-blocking writes and the environment they will be committed to *)
Lemma write_ref_agree xt rr v en1 en2 : Z'.r_var rr <> xt ->
  (forall y, y <> xt -> PM.find y en1 = PM.find y en2) ->
  forall y, y <> xt -> PM.find y (Z'.write_ref (Some rr) v en1) = PM.find y (Z'.write_ref (Some rr) v en2).
Proof.
  intros Hv Hag y Hy. unfold Z'.write_ref. rewrite (Hag _ Hv).
  destruct (PM.find (Z'.r_var rr) en2) as [cur|]; [|apply Hag; exact Hy].
  destruct (Pos.eq_dec y (Z'.r_var rr)) as [->|Hne]; [rewrite !PM.gss; reflexivity|rewrite !PM.gso by exact Hne; apply Hag; exact Hy].
Qed.
Lemma commit_agree xt : forall p en1 en2,
  Forall (fun rv : X.pend => exists rr, fst rv = Some rr /\ Z'.r_var rr <> xt) p ->
  (forall y, y <> xt -> PM.find y en1 = PM.find y en2) ->
  forall y, y <> xt -> PM.find y (X.commit p en1) = PM.find y (X.commit p en2).
Proof.
  induction p as [|rv p IH]; intros en1 en2 Hp Hag; [exact Hag|].
  inversion Hp as [|? ? (rr & Hrr & Hv) Hp']; subst. unfold X.commit. cbn [fold_left]. rewrite Hrr.
  apply (IH _ _ Hp'). apply write_ref_agree; assumption.
Qed.
Lemma pending_not_tmp p i : (i < ntmp)%nat -> pending_ok p ->
  Forall (fun rv : X.pend => exists rr, fst rv = Some rr /\ Z'.r_var rr <> n_tmp nm i) p.
Proof.
  intros Hi Hp. induction Hp as [|rv p (s & f0 & ty & u & L0 & _ & ->) _ IH]; constructor; [|exact IH].
  eexists. split; [reflexivity|]. cbn [Z'.r_var]. exact (sid_tmp s f0 i L0 Hi).
Qed.
Lemma splice_full_mod X Y W u : 0 <= W -> 0 <= u < 2 ^ W -> (splice X 0 W u) mod 2 ^ W = (splice Y 0 W u) mod 2 ^ W.
Proof.
  intros HW Hu. apply Z.bits_inj'. intros i Hi. destruct (Z.ltb_spec i W) as [L|L].
  - rewrite !Z.mod_pow2_bits_low by lia.
    rewrite !splice_testbit by (try lia; rewrite Z.sub_0_r; exact Hu).
    destruct (Z.leb_spec 0 i) as [_|]; [|lia]. destruct (Z.ltb_spec i W); [reflexivity|lia].
  - rewrite !Z.mod_pow2_bits_high by lia. reflexivity.
Qed.

Lemma assign_inv E st st' x lbl l e b : cstmt_ok te nm ntmp ff E (SAssign lbl l e b) = true ->
  inv E st x -> exec G (SAssign lbl l e b) st = Ok st' ->
  inv (env_after E (SAssign lbl l e b)) st' (X.exec te (tr_stmt nm E (SAssign lbl l e b)) x).
Proof.
  intros Hok I Hex. cbn [cstmt_ok] in Hok. apply andb_prop in Hok as [Hok Htmp]. apply andb_prop in Hok as [Hok Hty].
  apply andb_prop in Hok as [Hmode Hass]. cbn [exec] in Hex. rewrite <- (inv_G _ _ _ I) in Hex.
  pose proof (inv_corr _ _ _ I) as HC. rewrite tr_stmt_assign_exec. cbv zeta.
  set (en := X.x_env x) in *. unfold assign_mode_ok in Hmode.
  destruct l as [s p|s p lo hi|s p i|i].
  - (* signal / field *)
    rewrite env_after_assign_sig by (intros j; discriminate).
    destruct (tr_assign_sig_sound nm E te st en HC lbl s p e b st' Hass Hex) as (f & u & L & Hval & Hu & Heff & Hun).
    rewrite (inv_G _ _ _ I) in L.
    destruct (plain_place s p f L) as (ty & f0 & Hres & _ & Hpw & Hfw & Hflo & _ & L0 & Hf0 & Hin).
    destruct (inv_sig _ _ _ I s f0 L0) as (U & Hfind & HU). fold en in Hfind.
    rewrite Hval. cbn [tr_lhs]. rewrite Hres.
    destruct ff eqn:Hff.
    + (* always_ff: sig <<= e *)
      destruct p; [|discriminate]. destruct b; [discriminate|]. destruct Heff as [Hnx Hsig]. destruct Hun as (Hoth & Htmp' & Hloop).
      rewrite L0 in L. injection L as <-. rewrite Hf0 in *.
      pose proof (inv_pend _ _ _ I) as Hp. unfold pend_rel in Hp. rewrite Hff in Hp. destruct Hp as [Hshape Hrel].
      constructor; cbn [X.x_env X.x_pend X.x_ok].
      * apply (inv_G _ _ _ I).
      * intros s' f0' L0'. rewrite Hsig. exact (inv_sig _ _ _ I s' f0' L0').
      * apply (inv_tdecl _ _ _ I).
      * intros i w ex mi bo Ht. rewrite Htmp'. exact (inv_tmp _ _ _ I i w ex mi bo Ht).
      * intros i v Hv. rewrite Htmp' in Hv. exact (inv_typed _ _ _ I i v Hv).
      * apply (inv_loop _ _ _ I).
      * unfold pend_rel. rewrite Hff. cbn [X.x_env X.x_pend]. split.
        -- apply Forall_app. split; [exact Hshape|]. constructor; [|constructor]. exists s, f0, ty, u. auto.
        -- intros s' f0' L0'. rewrite P.commit_app. unfold X.commit at 1. cbn [fold_left fst snd].
           destruct (Hrel s f0 L0) as (U1 & Hf1 & _).
           rewrite (write_scalar _ _ _ _ U1 _ Hf1), Hpw, (Z.mod_small u) by exact Hu.
           destruct (Nat.eq_dec s' s) as [->|Hne].
           ++ rewrite L0 in L0'. injection L0' as <-. eexists. split; [apply PM.gss|].
              unfold final_sig. rewrite Hnx. apply splice_full_mod; lia.
           ++ destruct (Hrel s' f0' L0') as (U2 & Hf2 & Hu2). exists U2. split.
              ** rewrite PM.gso; [exact Hf2|]. intros Heq. apply Hne. exact (sid_inj s' s f0' f0 L0' L0 Heq).
              ** unfold final_sig in *. destruct (Hoth s' Hne) as [-> ->]. exact Hu2.
      * apply (inv_okf _ _ _ I).
    + (* always_comb: sig @= e *)
      subst b. destruct Heff as [Hs' _].
      rewrite (write_scalar _ _ _ _ U en Hfind), Hpw, (Z.mod_small u) by exact Hu.
      apply (sig_write_inv E st st' x s f0 _ Hff I L0); [|exact Hun].
      rewrite Hs'. apply splice_mod_congr; try lia. replace (flo f + fw f - flo f) with (fw f) by lia. exact Hu.
  - (* part select *)
    destruct ff eqn:Hff; [discriminate|]. subst b.
    rewrite env_after_assign_sig by (intros j; discriminate).
    destruct (tr_assign_slice_sound nm E te st en HC lbl s p lo hi e st' Hass Hex)
      as (f & x0 & ix & o & l & h & u & L & Hl & Hlh & Hh & Hrs & Hrl & Hval & Hu & Hs' & _ & Hun).
    rewrite (inv_G _ _ _ I) in L.
    destruct (plain_place s p f L) as (ty & f0 & Hres & _ & Hpw & Hfw & Hflo & _ & L0 & Hf0 & Hin).
    rewrite Hres in Hrs. injection Hrs as <- <- <- _.
    destruct (inv_sig _ _ _ I s f0 L0) as (U & Hfind & HU). fold en in Hfind.
    rewrite Hval, Hrl, (write_scalar _ _ _ _ U en Hfind). cbn [S.pwidth]. rewrite (Z.mod_small u) by exact Hu.
    apply (sig_write_inv E st st' x s f0 _ Hff I L0); [|exact Hun].
    rewrite Hs', splice_nested by lia. replace (flo f + l + (h - l)) with (flo f + h) by lia.
    apply splice_mod_congr; try lia. replace (flo f + h - (flo f + l)) with (h - l) by lia. exact Hu.
  - (* bit *)
    destruct ff eqn:Hff; [discriminate|]. subst b.
    rewrite env_after_assign_sig by (intros j; discriminate).
    destruct (tr_assign_index_sound nm E te st en HC lbl s p i e st' Hass Hex)
      as (f & x0 & ix & o & k & u & L & Hk & Hrs & Hrl & Hval & Hu & Hs' & _ & Hun).
    rewrite (inv_G _ _ _ I) in L.
    destruct (plain_place s p f L) as (ty & f0 & Hres & _ & Hpw & Hfw & Hflo & _ & L0 & Hf0 & Hin).
    rewrite Hres in Hrs. injection Hrs as <- <- <- _.
    destruct (inv_sig _ _ _ I s f0 L0) as (U & Hfind & HU). fold en in Hfind.
    assert (0 <= u < 2 ^ (k + 1 - k)) as Hu' by (replace (k + 1 - k) with 1 by lia; exact Hu).
    rewrite Hval, Hrl, (write_scalar _ _ _ _ U en Hfind). cbn [S.pwidth]. change (2 ^ 1) with 2. rewrite (Z.mod_small u) by exact Hu.
    apply (sig_write_inv E st st' x s f0 _ Hff I L0); [|exact Hun].
    rewrite Hs', splice_nested by lia. replace (flo f + k + 1) with (flo f + (k + 1)) by lia.
    apply splice_mod_congr; try lia. replace (flo f + (k + 1) - (flo f + k)) with (k + 1 - k) by lia. exact Hu'.
  - (* temporary *)
    assert (b = true) as -> by (destruct ff; exact Hmode).
    destruct (env_after_assign_tmp E lbl i e true Hty) as (r & Hr & ->).
    unfold tmp_assign_ok in Htmp. apply andb_prop in Htmp as [Hi Htmp]. apply Nat.ltb_lt in Hi. rewrite Hr in Htmp.
    destruct (tmp_decl te nm i) as [w|] eqn:Hd; [|discriminate].
    apply andb_prop in Htmp as [Htmp _]. apply andb_prop in Htmp as [Hw Hkind]. apply Z.eqb_eq in Hw.
    pose proof (tmp_decl_find i w Hd) as Hdecl.
    destruct (tr_assign_tmp_sound nm E te st en HC lbl i e w st' Hdecl Hass Hex)
      as (v & Hev & Htv & Htoth & Hsig & Hnxt & Hloop & Hval & Hvr).
    destruct (inv_tdecl _ _ _ I i w Hi Hd) as (Ut & Hfind & HUt). fold en in Hfind.
    destruct (tmp_declared i Hi) as (w' & Hd' & Hww). rewrite Hd in Hd'. injection Hd' as <-.
    assert (Z'.resolve te en (tr_lhs nm E (LTmp i)) = Some (Z'.mkref (n_tmp nm i) [] [] 0 (S.PBits w))) as Htgt
      by (cbn [tr_lhs Z'.resolve]; unfold Z'.ref_id; rewrite Hdecl; reflexivity).
    rewrite Hval, Htgt, (write_scalar _ _ _ _ Ut en Hfind). cbn [S.pwidth]. rewrite (Z.mod_small _ _ Hvr), Z.add_0_l.
    rewrite (splice_whole Ut w (value_int v) ltac:(lia) HUt Hvr).
    (* kind of the value *)
    unfold assign_ok in Hass. apply andb_prop in Hass as [Hass _]. apply andb_prop in Hass as [Hass Hwid].
    apply andb_prop in Hass as [_ Hoke]. apply Z.eqb_eq in Hwid.
    assert (assign_ctx E (LTmp i) e = None) as Hctx by reflexivity. rewrite Hctx in *.
    pose proof (tr_expr_sound_gen nm E te st en HC e None v Hoke Hev) as A.
    assert (W_tmp : Z'.selfw te (tr_lhs nm E (LTmp i)) = w) by (cbn [tr_lhs Z'.selfw Z'.type_of]; rewrite Hdecl; reflexivity).
    constructor; cbn [X.x_env X.x_pend X.x_ok].
    + cbn [set_ttmp tsig]. apply (inv_G _ _ _ I).
    + intros s f0 L0. destruct (inv_sig _ _ _ I s f0 L0) as (U & Hf & Hu). exists U. split; [|rewrite Hsig; exact Hu].
      rewrite PM.gso; [exact Hf|]. exact (sid_tmp s f0 i L0 Hi).
    + intros j wj Hj Hdj. destruct (Pos.eq_dec (n_tmp nm j) (n_tmp nm i)) as [Heq|Hne].
      * pose proof (tmp_inj j i Hj Hi Heq). subst j. rewrite Hd in Hdj. injection Hdj as <-.
        exists (value_int v). split; [apply PM.gss|exact Hvr].
      * destruct (inv_tdecl _ _ _ I j wj Hj Hdj) as (U & Hf & Hu). exists U. split; [rewrite PM.gso by exact Hne; exact Hf|exact Hu].
    + intros j wj exj mij boj Hj. cbn [set_ttmp ttmp] in Hj. unfold upd_t in Hj. destruct (Nat.eqb j i) eqn:J.
      * apply Nat.eqb_eq in J. subst j. injection Hj as <- <- <- _. split; [exact Hi|]. split; [rewrite Hw; exact Hd|].
        intros v0 Hv0. rewrite Htv in Hv0. injection Hv0 as <-.
        destruct v as [n u|z]; unfold agree in A.
        -- destruct A as (_ & Hwn & _). cbn [value_int]. split; [lia|]. split; [|apply PM.gss].
           apply orb_prop in Hkind as [Hk|Hk]; apply andb_prop in Hk as [Hk1 Hk2]; [exact Hk1|].
           destruct (defint_sound E st e Hk1 _ Hev) as [z Hz]. discriminate Hz.
        -- destruct A as (Hmi & _). cbn [value_int]. split; [|apply PM.gss].
           apply orb_prop in Hkind as [Hk|Hk]; apply andb_prop in Hk as [Hk1 Hk2]; [|exact Hk2].
           rewrite Hmi in Hk2. discriminate.
      * apply Nat.eqb_neq in J. destruct (inv_tmp _ _ _ I j wj exj mij boj Hj) as (Hjn & Hdj & Hvj).
        split; [exact Hjn|]. split; [exact Hdj|]. intros v0 Hv0. rewrite (Htoth j J) in Hv0. specialize (Hvj v0 Hv0).
        assert (PM.find (n_tmp nm j) (PM.add (n_tmp nm i) (Z'.VZ (value_int v)) en) = PM.find (n_tmp nm j) en) as ->
          by (apply PM.gso; intros Heq; apply J; exact (tmp_inj j i Hjn Hi Heq)).
        exact Hvj.
    + intros j v0 Hv0. cbn [set_ttmp ttmp]. unfold upd_t. destruct (Nat.eqb j i) eqn:J; [discriminate|].
      apply Nat.eqb_neq in J. rewrite (Htoth j J) in Hv0. exact (inv_typed _ _ _ I j v0 Hv0).
    + cbn [set_ttmp tloop]. apply (inv_loop _ _ _ I).
    + pose proof (inv_pend _ _ _ I) as Hp. unfold pend_rel in Hp |- *. cbn [X.x_pend X.x_env]. destruct ff; [|exact Hp].
      destruct Hp as [Hshape Hrel]. split; [exact Hshape|]. intros s f0 L0. destruct (Hrel s f0 L0) as (U & Hf & Hu).
      exists U. split.
      * rewrite <- Hf. apply (commit_agree (n_tmp nm i) _ _ _ (pending_not_tmp _ i Hi Hshape)).
        -- intros y Hy. apply PM.gso. exact Hy.
        -- exact (sid_tmp s f0 i L0 Hi).
      * unfold final_sig in *. rewrite Hsig, Hnxt. exact Hu.
    + apply (inv_okf _ _ _ I).
Qed.

(* ---- statements, sequences, if / elif / else ---- *)
Definition stmt_prop (s : stmt) : Prop := forall E, cstmt_ok te nm ntmp ff E s = true -> tmps_ok E ->
  (ext E (env_after E s) /\ tmps_ok (env_after E s)) /\
  forall st x st', inv E st x -> exec G s st = Ok st' -> inv (env_after E s) st' (X.exec te (tr_stmt nm E s) x).
Definition stmts_prop (l : list stmt) : Prop := forall E, cstmts_ok te nm ntmp ff E l = true -> tmps_ok E ->
  (ext E (env_after_list E l) /\ tmps_ok (env_after_list E l)) /\
  forall st x st', inv E st x -> exec_list (exec G) l st = Ok st' ->
    inv (env_after_list E l) st' (X.exec_list te (tr_stmts nm E l) x).

Lemma stmts_of l : Forall stmt_prop l -> stmts_prop l.
Proof.
  induction 1 as [|s r Hs _ IH]; intros E Hok T.
  - split; [split; [apply ext_refl|exact T]|]. intros st x st' I Hex. injection Hex as <-. exact I.
  - cbn [cstmts_ok] in Hok. apply andb_prop in Hok as [Hoks Hokr].
    destruct (Hs E Hoks T) as [[X1 T1] D1]. destruct (IH _ Hokr T1) as [[X2 T2] D2].
    change (env_after_list E (s :: r)) with (env_after_list (env_after E s) r).
    split; [split; [exact (ext_trans _ _ _ X1 X2)|exact T2]|]. intros st x st' I Hex.
    change (exec_list (exec G) (s :: r) st) with (bind (exec G s st) (exec_list (exec G) r)) in Hex.
    destruct (exec G s st) as [st1|] eqn:E1; [|discriminate]. cbn [bind] in Hex.
    change (X.exec_list te (tr_stmts nm E (s :: r)) x) with
      (X.exec_list te (tr_stmts nm (env_after E s) r) (X.exec te (tr_stmt nm E s) x)).
    apply (D2 st1 _ st' (D1 st x st1 I E1) Hex).
Qed.

Lemma stmt_prop_all : forall s, stmt_prop s.
Proof.
  induction s using stmt_ind'.
  - (* assignment *) intros E Hok T. split; [exact (assign_static E lbl l e b Hok T)|].
    intros st x st' I Hex. exact (assign_inv E st st' x lbl l e b Hok I Hex).
  - (* if *) intros E Hok T. pose proof (stmts_of t H) as Pt. pose proof (stmts_of f H0) as Pf.
    cbn [cstmt_ok] in Hok. rewrite !go_cstmts_eq in Hok.
    apply andb_prop in Hok as [Hok Hokf]. apply andb_prop in Hok as [Hok Hokt]. apply andb_prop in Hok as [Hokc Hty].
    rewrite (env_after_if E lbl c t f Hty).
    destruct (Pt E Hokt T) as [[X1 T1] D1]. destruct (Pf _ Hokf T1) as [[X2 T2] D2].
    split; [split; [exact (ext_trans _ _ _ X1 X2)|exact T2]|]. intros st x st' I Hex.
    pose proof (inv_G _ _ _ I) as HG. rewrite <- HG in Hex.
    assert (exists v, eval (tsig E) st c = Ok v) as [v Hev] by (cbn [exec] in Hex; destruct (eval (tsig E) st c); [eauto|discriminate]).
    destruct (tr_if_sound nm E te st x lbl c t f v (inv_corr _ _ _ I) Hokc Hev) as [Hsv Hrt].
    rewrite Hsv. rewrite Hrt in Hex. rewrite HG in Hex.
    set (st0 := add_evs st _) in Hex. assert (inv E st0 x) as I0 by (apply inv_evs; exact I).
    destruct (truthy v).
    + apply (inv_ext _ _ _ _ (D1 st0 x st' I0 Hex) X2 T2).
    + apply (D2 st0 x st' (inv_ext _ _ _ _ I0 X1 T1) Hex).
  - (* for *) intros E Hok. discriminate Hok.
Qed.

(* the block theorem: a block accepted by cstmts_ok (comb_ok / ff_ok), run once by the simulator semantics from st and - as
   the emitted always body - by SvEval from a related state x, ends in related states *)
Theorem tr_block_sound_gen b st st' x : cstmts_ok te nm ntmp ff (init_tenv G) b = true ->
  inv (init_tenv G) st x -> exec_block G b st = Ok st' ->
  inv (env_after_list (init_tenv G) b) st' (X.exec_list te (tr_block nm G b) x).
Proof.
  intros Hok I Hex.
  assert (tmps_ok (init_tenv G)) as T0 by (intros i w ex mi bo H; discriminate H).
  assert (Forall stmt_prop b) as Hall by (apply Forall_forall; intros s _; apply stmt_prop_all).
  destruct (stmts_of b Hall (init_tenv G) Hok T0) as [_ D].
  exact (D st x st' I Hex).
Qed.

(* a way into the relation: the state in which an always block starts *)
Lemma inv_init st en : (forall i, tmpv st i = None) -> (ff = true -> forall s, nxtv st s = None) ->
  (forall s f0, lookup_sig G s [] = Some f0 -> PM.find (sid nm s) en = Some (Z'.VZ (sigv st s))) ->
  (forall i w, (i < ntmp)%nat -> tmp_decl te nm i = Some w -> exists U, PM.find (n_tmp nm i) en = Some (Z'.VZ U) /\ 0 <= U < 2 ^ w) ->
  inv (init_tenv G) st (X.mkx en [] true).
Proof.
  intros Ht Hn Hs Hd. constructor; cbn [X.x_env X.x_pend X.x_ok]; try reflexivity.
  - intros s f0 L0. exists (sigv st s). split; [exact (Hs s f0 L0)|reflexivity].
  - exact Hd.
  - intros i w ex mi bo H. discriminate H.
  - intros i v Hv. rewrite Ht in Hv. discriminate.
  - unfold pend_rel. cbn [X.x_env X.x_pend]. destruct ff; [|reflexivity]. split; [constructor|].
    intros s f0 L0. exists (sigv st s). split; [exact (Hs s f0 L0)|]. unfold final_sig. rewrite (Hn eq_refl s). reflexivity.
Qed.

(* what the relation says about the SvEval environment: current values ... *)
Lemma inv_reads E st x : inv E st x ->
  X.x_ok x = true /\
  (forall s p f, lookup_sig G s p = Some f ->
     Z'.read_bits (X.x_env x) (Z'.resolve te (X.x_env x) (tr_sig nm s p)) = (sigv st s / 2 ^ flo f) mod 2 ^ fw f) /\
  (forall i v, tmpv st i = Some v -> Z'.lookup (X.x_env x) (n_tmp nm i) = Z'.VZ (value_int v)).
Proof.
  intros I. split; [exact (inv_okf _ _ _ I)|]. split.
  - intros s p f L. destruct (inv_corr _ _ _ I) as (HS & _ & _). rewrite <- (inv_G _ _ _ I) in L.
    destruct (HS s p f L) as (rr & u & Hres & Hd & _ & Hpw & _ & _ & _ & Hget & Hval).
    rewrite Hres. cbn [Z'.read_bits]. rewrite Hd, Hget, Hpw. exact Hval.
  - intros i v Hv. destruct (ttmp E i) as [[[[w ex] mi] bo]|] eqn:Ht; [|exfalso; exact (inv_typed _ _ _ I i v Hv Ht)].
    destruct (inv_tmp _ _ _ I i w ex mi bo Ht) as (_ & _ & Hval). specialize (Hval v Hv). unfold Z'.lookup.
    destruct v as [n u|z]; [destruct Hval as (_ & _ & ->)|destruct Hval as (_ & ->)]; reflexivity.
Qed.
(* ... and, for an always_ff block, the values after the commit at the clock edge *)
Lemma inv_reads_ff E st x : ff = true -> inv E st x ->
  forall s p f, lookup_sig G s p = Some f ->
    let enc := X.commit (X.x_pend x) (X.x_env x) in
    Z'.read_bits enc (Z'.resolve te enc (tr_sig nm s p)) = (final_sig st s / 2 ^ flo f) mod 2 ^ fw f.
Proof.
  intros Hff I s p f L enc. pose proof (inv_pend _ _ _ I) as Hp. unfold pend_rel in Hp. rewrite Hff in Hp. destruct Hp as [_ Hrel].
  destruct (plain_place s p f L) as (ty & f0 & Hres & _ & Hpw & Hfw & Hflo & _ & L0 & Hf0 & Hin).
  destruct (Hrel s f0 L0) as (U & Hfind & HU). fold enc in Hfind.
  rewrite Hres. cbn [Z'.read_bits Z'.r_dims Z'.r_var Z'.r_idx Z'.r_lo Z'.r_ty Z'.vget]. unfold Z'.lookup. rewrite Hfind, Hpw.
  apply (field_of_mod U (final_sig st s) (fw f0)); [exact HU|lia|lia|lia].
Qed.
Lemma inv_pend_comb E st x : ff = false -> inv E st x -> X.x_pend x = [].
Proof. intros Hff I. pose proof (inv_pend _ _ _ I) as Hp. unfold pend_rel in Hp. rewrite Hff in Hp. exact Hp. Qed.
End Block.

(* the statements of Props/C03_tr.v *)
Theorem tr_comb_block_sound te nm G ntmp b st st' x :
  plain_ok te nm G ntmp = true -> comb_ok te nm ntmp G b = true ->
  inv te nm G ntmp false (init_tenv G) st x -> exec_block G b st = Ok st' ->
  let x' := X.exec_list te (tr_block nm G b) x in
  X.x_pend x' = [] /\ X.x_ok x' = true /\
  (forall s p f, lookup_sig G s p = Some f ->
     Z'.read_bits (X.x_env x') (Z'.resolve te (X.x_env x') (tr_sig nm s p)) = (sigv st' s / 2 ^ flo f) mod 2 ^ fw f) /\
  (forall i v, tmpv st' i = Some v -> Z'.lookup (X.x_env x') (n_tmp nm i) = Z'.VZ (value_int v)).
Proof.
  intros HP Hok I Hex. cbv zeta.
  pose proof (tr_block_sound_gen te nm G ntmp false HP b st st' x Hok I Hex) as I'.
  split; [exact (inv_pend_comb _ _ _ _ _ _ _ _ eq_refl I')|]. exact (inv_reads te nm G ntmp false HP _ _ _ I').
Qed.

Theorem tr_ff_block_sound te nm G ntmp b st st' x :
  plain_ok te nm G ntmp = true -> ff_ok te nm ntmp G b = true ->
  inv te nm G ntmp true (init_tenv G) st x -> exec_block G b st = Ok st' ->
  let x' := X.exec_list te (tr_block nm G b) x in
  let enc := X.commit (X.x_pend x') (X.x_env x') in
  X.x_ok x' = true /\
  (forall s p f, lookup_sig G s p = Some f ->
     Z'.read_bits enc (Z'.resolve te enc (tr_sig nm s p)) = (final_sig st' s / 2 ^ flo f) mod 2 ^ fw f) /\
  (forall s p f, lookup_sig G s p = Some f ->
     Z'.read_bits (X.x_env x') (Z'.resolve te (X.x_env x') (tr_sig nm s p)) = (sigv st' s / 2 ^ flo f) mod 2 ^ fw f) /\
  (forall i v, tmpv st' i = Some v -> Z'.lookup (X.x_env x') (n_tmp nm i) = Z'.VZ (value_int v)).
Proof.
  intros HP Hok I Hex. cbv zeta.
  pose proof (tr_block_sound_gen te nm G ntmp true HP b st st' x Hok I Hex) as I'.
  destruct (inv_reads te nm G ntmp true HP _ _ _ I') as (H1 & H2 & H3).
  split; [exact H1|]. split; [exact (inv_reads_ff te nm G ntmp true HP _ _ _ eq_refl I')|]. split; assumption.
Qed.

(* NOT PROVED: for loops (cstmt_ok refuses SFor), and designs that are not plain (lists of signals).  They stay under
   tr_block_sound_partial above, which harness/c03_tr.py samples.  Missing lemma for SFor: the iteration correspondence - by
   induction on loop_count lo hi step, the k-th iteration of Eval.exec's loop (loop variable lo + k*step) and the k-th
   unfolding of SvEval.exec's fuel loop (loop_cond  v < HI  evaluated at max(32, width of the literal), loop_incr at 32 bits)
   start in related states with the counter holding lo + k*step < 2^32, the fuel lo + hi + 1 is never exhausted (x_ok stays
   true) and loop_cond is false after the last iteration; it needs [inv] extended by the loop_corr clause for bound
   counters (inv_loop says "none" today), for_ok, and the frame fact that the body never writes the counter. *)

(* ------------------------------------------------------------------ a concrete plain design with a temporary (non-vacuity)
     s.a = InPort(8)  s.o = OutPort(8)  s.b = InPort(4)
     @update
     def blk():
       t = zext( s.b[0:2], 4 ) + 1
       s.o @= 0
       if s.a[0]:
         s.o[4:8] @= t
       else:
         s.o[1] @= s.a[7]                                                                                           *)
Module TrExample2.
Import TrExample.
Definition t_id := 5%positive.
Definition nm2 : names :=
  names_of 99%positive [(0%nat, (a_id, [])); (1%nat, (o_id, [])); (2%nat, (b_id, []))] [] [] [(0%nat, t_id)] [].
Definition blk2 : list stmt :=
  [ SAssign 0 (LTmp 0) (EBin Add (EZext 4 (ESlice (ESig 2 []) (ELit 0) (ELit 2))) (ELit 1)) true;
    SAssign 1 (LSig 1 []) (ELit 0) true;
    SIf 2 (EIdx (ESig 0 []) (ELit 0))
      [ SAssign 3 (LSlice 1 [] (ELit 4) (ELit 8)) (ETmp 0) true ]
      [ SAssign 4 (LIndex 1 [] (ELit 1)) (EIdx (ESig 0 []) (ELit 7)) true ] ].
Definition m2 : S.module :=
  S.mkmod 50%positive [(S.DIn, decl a_id 8); (S.DOut, decl o_id 8); (S.DIn, decl b_id 4)] [] [decl t_id 4] [].
Definition te2 : Z'.tenv := X.mod_tenv m2.
Definition st2 (a b : Z) : state := init_state [a; 0; b].
Definition en2 (a b : Z) : Z'.env :=
  PositiveMap.add t_id (Z'.VZ 0) (PositiveMap.add b_id (Z'.VZ b) (PositiveMap.add o_id (Z'.VZ 0)
    (PositiveMap.add a_id (Z'.VZ a) (PositiveMap.empty Z'.value)))).

Lemma plain2 : plain_ok te2 nm2 G 1 = true.
Proof. vm_compute. reflexivity. Qed.
Lemma comb2 : comb_ok te2 nm2 1 G blk2 = true.
Proof. vm_compute. reflexivity. Qed.

Lemma inv2 a b : inv te2 nm2 G 1 false (init_tenv G) (st2 a b) (X.mkx (en2 a b) [] true).
Proof.
  apply inv_init.
  - intros i. reflexivity.
  - discriminate.
  - intros s f0 L. cbn in L. destruct s as [|[|[|s]]]; cbn in L; try discriminate; reflexivity.
  - intros i w Hi Hd. assert (i = 0%nat) by lia. subst i. vm_compute in Hd. injection Hd as <-.
    exists 0. split; [reflexivity|cbn; lia].
Qed.
End TrExample2.

(* ... and an always_ff block of the same design:
     @update_ff
     def reg():
       t = s.b + 1
       if s.a[0]:  s.o <<= zext( t, 8 )
       else:       s.o <<= s.a                                                                                      *)
Module TrExample3.
Import TrExample TrExample2.
Definition blk3 : list stmt :=
  [ SAssign 0 (LTmp 0) (EBin Add (ESig 2 []) (ELit 1)) true;
    SIf 1 (EIdx (ESig 0 []) (ELit 0))
      [ SAssign 2 (LSig 1 []) (EZext 8 (ETmp 0)) false ]
      [ SAssign 3 (LSig 1 []) (ESig 0 []) false ] ].
Lemma ff3 : ff_ok te2 nm2 1 G blk3 = true.
Proof. vm_compute. reflexivity. Qed.
Lemma inv3 a b : inv te2 nm2 G 1 true (init_tenv G) (st2 a b) (X.mkx (en2 a b) [] true).
Proof.
  apply inv_init.
  - intros i. reflexivity.
  - intros _ s. reflexivity.
  - intros s f0 L. cbn in L. destruct s as [|[|[|s]]]; cbn in L; try discriminate; reflexivity.
  - intros i w Hi Hd. assert (i = 0%nat) by lia. subst i. vm_compute in Hd. injection Hd as <-.
    exists 0. split; [reflexivity|cbn; lia].
Qed.
End TrExample3.
