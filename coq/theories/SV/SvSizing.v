(* SV/SvSizing.v — expression sizing and two-state unsigned evaluation (IEEE 1800-2017 §11.6, §11.8, §6.24.1)
   as WE formalise it for the emitted subset.  Definitions only.

   selfw te e            self-determined width L(e)                                   (Table 11-21)
   eval te en W e        value of e as a W-bit unsigned number when e sits in a context whose width,
                         already maxed with L(e), is W.  Context-determined operands receive W;
                         self-determined operands (shift amounts, concatenation / replication members,
                         reduction operands, ?: conditions, indices) are evaluated at their own L;
                         comparison operands at max(L(a), L(b)); the operand of a size cast N'(a) at
                         max(N, L(a)) ("as if assigned to an N-bit variable") and then truncated to N.
   eval_ctx te en w e    = eval te en (max w L(e)) e
   eval_sd te en e       the naive bottom-up reading in which EVERY operator works at its own L and nothing
                         is propagated (what a width-strict language such as PyMTL computes);
                         SvProofs.sv_selfdet_eq_ctx relates the two.
   Two-state: division / modulo by zero and out-of-range reads give 0 (X -> 0); out-of-range writes are ignored.
   Every value is unsigned (the emitted text contains no signed operand except loop counters, which the
   generated loops keep non-negative; see harness/svparse.py).                                          *)
From Coq Require Import FMapPositive.
From PV Require Import Base.Prelude Bits.BitsSpec SV.SvSyntax.
Open Scope Z_scope.

Module PM := PositiveMap.

(* ---- values: a packed value is its unsigned integer; unpacked arrays are lists, element 0 first ---- *)
Inductive value : Type := VZ (u : Z) | VA (vs : list value).

Definition tenv := PM.t vtype.
Definition env  := PM.t value.

Fixpoint vget (v : value) (idx : list Z) : value :=
  match idx with
  | [] => v
  | i :: r => match v with VA vs => vget (nth (Z.to_nat i) vs (VZ 0)) r | VZ _ => VZ 0 end
  end.
Fixpoint list_upd {A} (l : list A) (n : nat) (f : A -> A) : list A :=
  match l, n with
  | [], _ => []
  | a :: r, O => f a :: r
  | a :: r, S n' => a :: list_upd r n' f
  end.
Fixpoint vset (v : value) (idx : list Z) (f : value -> value) : value :=
  match idx with
  | [] => f v
  | i :: r => match v with VA vs => VA (list_upd vs (Z.to_nat i) (fun x => vset x r f)) | VZ _ => v end
  end.

(* ---- references: what a select chain x.f[i][hi:lo] denotes ---- *)
Record rref : Type := mkref {
  r_var : ident; r_idx : list Z;     (* variable and the unpacked indices applied so far *)
  r_dims : list Z;                   (* unpacked dimensions still to be indexed *)
  r_lo : Z; r_ty : ptype }.          (* offset and type of the selected packed sub-object (when r_dims = []) *)
Definition ref := option rref.

Definition inb (i n : Z) : bool := (0 <=? i) && (i <? n).

Definition ref_id (te : tenv) (x : ident) : ref :=
  match PM.find x te with Some (t, ds) => Some (mkref x [] ds 0 t) | None => None end.
Definition ref_member (r : ref) (f : ident) : ref :=
  match r with
  | Some (mkref x ix [] lo (PStruct fs)) =>
      match pfield fs f with Some (off, t) => Some (mkref x ix [] (lo + off) t) | None => None end
  | _ => None
  end.
Definition ref_index (r : ref) (i : Z) : ref :=
  match r with
  | Some (mkref x ix (d :: ds) lo t) => if inb i d then Some (mkref x (ix ++ [i]) ds lo t) else None
  | Some (mkref x ix [] lo (PArr n t)) => if inb i n then Some (mkref x ix [] (lo + i * pwidth t) t) else None
  | Some (mkref x ix [] lo t) => if inb i (pwidth t) then Some (mkref x ix [] (lo + i) (PBits 1)) else None
  | None => None
  end.
Definition ref_range (r : ref) (hi lo : Z) : ref :=
  match r with
  | Some (mkref x ix [] l t) =>
      if (0 <=? lo) && (lo <=? hi) && (hi <? pwidth t) then Some (mkref x ix [] (l + lo) (PBits (hi - lo + 1))) else None
  | _ => None
  end.
Definition ref_plus (r : ref) (b w : Z) : ref :=
  match r with
  | Some (mkref x ix [] l t) =>
      if (0 <=? b) && (0 <? w) && (b + w <=? pwidth t) then Some (mkref x ix [] (l + b) (PBits w)) else None
  | _ => None
  end.

Definition lookup (en : env) (x : ident) : value := match PM.find x en with Some v => v | None => VZ 0 end.

Definition read_val (en : env) (r : ref) : value :=
  match r with Some rr => vget (lookup en (r_var rr)) (r_idx rr) | None => VZ 0 end.
Definition read_bits (en : env) (r : ref) : Z :=
  match r with
  | Some rr =>
      match r_dims rr, vget (lookup en (r_var rr)) (r_idx rr) with
      | [], VZ u => (u / 2 ^ (r_lo rr)) mod 2 ^ (pwidth (r_ty rr))
      | _, _ => 0
      end
  | None => 0
  end.

(* store v at r: packed targets splice the low pwidth bits of v into the element, array targets are replaced *)
Definition store (rr : rref) (v : value) (old : value) : value :=
  match r_dims rr, old, v with
  | [], VZ u, VZ n => let w := pwidth (r_ty rr) in VZ (splice u (r_lo rr) (r_lo rr + w) (n mod 2 ^ w))
  | _ :: _, _, VA _ => v
  | _, _, _ => old
  end.
Definition write_ref (r : ref) (v : value) (en : env) : env :=
  match r with
  | None => en
  | Some rr =>
      match PM.find (r_var rr) en with
      | Some cur => PM.add (r_var rr) (vset cur (r_idx rr) (store rr v)) en
      | None => en
      end
  end.

(* ---- static types of select chains, self-determined widths ---- *)
Fixpoint type_of (te : tenv) (e : expr) : option vtype :=
  match e with
  | EId x => PM.find x te
  | EMember a f =>
      match type_of te a with
      | Some (PStruct fs, []) => match pfield fs f with Some (_, t) => Some (t, []) | None => None end
      | _ => None
      end
  | EIndex a _ =>
      match a with EConcat _ => Some (PBits 1, []) | _ =>      (* { ... }[i] : bit select of a concatenation *)
      match type_of te a with
      | Some (t, _ :: ds) => Some (t, ds)
      | Some (PArr _ t, []) => Some (t, [])
      | Some (_, []) => Some (PBits 1, [])
      | None => None
      end end
  | ERange a hi lo => match type_of te a with Some (_, []) => Some (PBits (hi - lo + 1), []) | _ => None end
  | EPlusRange a _ w => match type_of te a with Some (_, []) => Some (PBits w, []) | _ => None end
  | _ => None
  end.

Definition is_arith (o : binop) : bool :=
  match o with BAdd | BSub | BMul | BDiv | BMod | BAnd | BOr | BXor => true | _ => false end.
Definition is_shift (o : binop) : bool := match o with BShl | BShr => true | _ => false end.
Definition is_cmp (o : binop) : bool := match o with BEq | BNe | BLt | BLe | BGt | BGe => true | _ => false end.

Fixpoint selfw (te : tenv) (e : expr) : Z :=
  match e with
  | ELit w _ => w
  | ENum _ => 32
  | EId _ | EMember _ _ | EIndex _ _ => match type_of te e with Some (t, []) => pwidth t | _ => 0 end
  | ERange _ hi lo => hi - lo + 1
  | EPlusRange _ _ w => w
  | EConcat es => (fix go (l : list expr) : Z := match l with [] => 0 | x :: r => selfw te x + go r end) es
  | ERepl n a => n * selfw te a
  | EUn o a => match o with UNot | UNeg | UPlus => selfw te a | _ => 1 end
  | EBin o a b => if is_arith o then Z.max (selfw te a) (selfw te b) else if is_shift o then selfw te a else 1
  | ECond _ a b => Z.max (selfw te a) (selfw te b)
  | ECast w _ => w
  end.
Definition sumw (te : tenv) (l : list expr) : Z := fold_right (fun x acc => selfw te x + acc) 0 l.

(* ---- arithmetic ---- *)
Definition tr (W x : Z) : Z := x mod 2 ^ W.

Definition bin_arith (o : binop) (a b : Z) : Z :=
  match o with
  | BAdd => a + b | BSub => a - b | BMul => a * b
  | BDiv => if b =? 0 then 0 else a / b
  | BMod => if b =? 0 then 0 else a mod b
  | BAnd => Z.land a b | BOr => Z.lor a b | BXor => Z.lxor a b
  | _ => 0
  end.
Definition bin_cmp (o : binop) (a b : Z) : bool :=
  match o with
  | BEq => a =? b | BNe => negb (a =? b) | BLt => a <? b | BLe => a <=? b | BGt => b <? a | BGe => b <=? a
  | _ => false
  end.
Definition shl (W a s : Z) : Z := if W <=? s then 0 else a * 2 ^ s.    (* guarded: never builds 2^huge *)
Definition shr (W a s : Z) : Z := if W <=? s then 0 else a / 2 ^ s.
Fixpoint ppar (p : positive) : bool := match p with xH => true | xO q => ppar q | xI q => negb (ppar q) end.
Definition parity (u : Z) : Z := match u with Zpos p => b2z (ppar p) | _ => 0 end.
Fixpoint replz (n : nat) (w v : Z) : Z := match n with O => 0 | S k => v + 2 ^ w * replz k w v end.
Definition truthy (v : Z) : bool := negb (v =? 0).

Definition un_self (o : unop) (w v : Z) : Z :=     (* operators whose operand is self-determined; w = L(operand) *)
  match o with
  | URedAnd => b2z (v =? 2 ^ w - 1)
  | URedOr  => b2z (truthy v)
  | URedXor => parity v
  | ULogNot => b2z (v =? 0)
  | _ => 0
  end.
Definition un_ctx (o : unop) (W v : Z) : Z :=      (* operators whose operand is context-determined *)
  match o with
  | UNot => 2 ^ W - 1 - v
  | UNeg => - v
  | _ => v
  end.
Definition is_un_ctx (o : unop) : bool := match o with UNot | UNeg | UPlus => true | _ => false end.

(* ---- context-determined evaluation ---- *)
Fixpoint eval (te : tenv) (en : env) (W : Z) (e : expr) {struct e} : Z :=
  match e with
  | ELit w v => tr W (tr w v)
  | ENum v => tr W (tr 32 v)
  | EId x => tr W (read_bits en (ref_id te x))
  | EMember a f => tr W (read_bits en (ref_member (resolve te en a) f))
  | EIndex a i =>
      match a with
      | EConcat _ => tr W (shr (selfw te a) (eval te en (selfw te a) a) (eval te en (selfw te i) i) mod 2)
      | _ => tr W (read_bits en (ref_index (resolve te en a) (eval te en (selfw te i) i)))
      end
  | ERange a hi lo => tr W (read_bits en (ref_range (resolve te en a) hi lo))
  | EPlusRange a b w => tr W (read_bits en (ref_plus (resolve te en a) (eval te en (selfw te b) b) w))
  | EConcat es =>
      tr W ((fix cat (l : list expr) : Z :=
               match l with [] => 0 | x :: r => eval te en (selfw te x) x * 2 ^ (sumw te r) + cat r end) es)
  | ERepl n a => tr W (replz (Z.to_nat n) (selfw te a) (eval te en (selfw te a) a))
  | EUn o a =>
      if is_un_ctx o then tr W (un_ctx o W (eval te en W a))
      else tr W (un_self o (selfw te a) (eval te en (selfw te a) a))
  | EBin o a b =>
      if is_arith o then tr W (bin_arith o (eval te en W a) (eval te en W b))
      else if is_shift o then
        let s := eval te en (selfw te b) b in
        tr W (match o with BShl => shl W (eval te en W a) s | _ => shr W (eval te en W a) s end)
      else if is_cmp o then
        let m := Z.max (selfw te a) (selfw te b) in
        tr W (b2z (bin_cmp o (eval te en m a) (eval te en m b)))
      else
        let x := truthy (eval te en (selfw te a) a) in
        let y := truthy (eval te en (selfw te b) b) in
        tr W (b2z (match o with BLAnd => x && y | _ => x || y end))
  | ECond c a b => if truthy (eval te en (selfw te c) c) then eval te en W a else eval te en W b
  | ECast w a => tr W (tr w (eval te en (Z.max w (selfw te a)) a))
  end
with resolve (te : tenv) (en : env) (e : expr) {struct e} : ref :=
  match e with
  | EId x => ref_id te x
  | EMember a f => ref_member (resolve te en a) f
  | EIndex a i => ref_index (resolve te en a) (eval te en (selfw te i) i)
  | ERange a hi lo => ref_range (resolve te en a) hi lo
  | EPlusRange a b w => ref_plus (resolve te en a) (eval te en (selfw te b) b) w
  | _ => None
  end.

Definition eval_self (te : tenv) (en : env) (e : expr) : Z := eval te en (selfw te e) e.
Definition eval_ctx (te : tenv) (en : env) (w : Z) (e : expr) : Z := eval te en (Z.max w (selfw te e)) e.

(* ---- naive self-determined evaluation: every operator at its own width ---- *)
Fixpoint eval_sd (te : tenv) (en : env) (e : expr) {struct e} : Z :=
  let W := selfw te e in
  match e with
  | ELit w v => tr W (tr w v)
  | ENum v => tr W (tr 32 v)
  | EId x => tr W (read_bits en (ref_id te x))
  | EMember a f => tr W (read_bits en (ref_member (resolve_sd te en a) f))
  | EIndex a i =>
      match a with
      | EConcat _ => tr W (shr (selfw te a) (eval_sd te en a) (eval_sd te en i) mod 2)
      | _ => tr W (read_bits en (ref_index (resolve_sd te en a) (eval_sd te en i)))
      end
  | ERange a hi lo => tr W (read_bits en (ref_range (resolve_sd te en a) hi lo))
  | EPlusRange a b w => tr W (read_bits en (ref_plus (resolve_sd te en a) (eval_sd te en b) w))
  | EConcat es =>
      tr W ((fix cat (l : list expr) : Z :=
               match l with [] => 0 | x :: r => eval_sd te en x * 2 ^ (sumw te r) + cat r end) es)
  | ERepl n a => tr W (replz (Z.to_nat n) (selfw te a) (eval_sd te en a))
  | EUn o a =>
      if is_un_ctx o then tr W (un_ctx o W (eval_sd te en a))
      else tr W (un_self o (selfw te a) (eval_sd te en a))
  | EBin o a b =>
      if is_arith o then tr W (bin_arith o (eval_sd te en a) (eval_sd te en b))
      else if is_shift o then
        let s := eval_sd te en b in
        tr W (match o with BShl => shl W (eval_sd te en a) s | _ => shr W (eval_sd te en a) s end)
      else if is_cmp o then tr W (b2z (bin_cmp o (eval_sd te en a) (eval_sd te en b)))
      else
        let x := truthy (eval_sd te en a) in
        let y := truthy (eval_sd te en b) in
        tr W (b2z (match o with BLAnd => x && y | _ => x || y end))
  | ECond c a b => if truthy (eval_sd te en c) then eval_sd te en a else eval_sd te en b
  | ECast w a => tr W (tr w (eval_sd te en a))
  end
with resolve_sd (te : tenv) (en : env) (e : expr) {struct e} : ref :=
  match e with
  | EId x => ref_id te x
  | EMember a f => ref_member (resolve_sd te en a) f
  | EIndex a i => ref_index (resolve_sd te en a) (eval_sd te en i)
  | ERange a hi lo => ref_range (resolve_sd te en a) hi lo
  | EPlusRange a b w => ref_plus (resolve_sd te en a) (eval_sd te en b) w
  | _ => None
  end.

(* ---- "the type checker forces equal widths": every context-sensitive operator has operands of equal L ---- *)
Definition is_id (e : expr) : bool := match e with EId _ => true | _ => false end.
Fixpoint uniform (te : tenv) (e : expr) {struct e} : bool :=
  match e with
  | ELit w _ => 0 <=? w
  | ENum _ | EId _ => true
  | EMember a _ => uniform te a
  | EIndex a i => uniform te a && uniform te i
  | ERange a _ _ => uniform te a
  | EPlusRange a b _ => uniform te a && uniform te b
  | EConcat es => (fix all (l : list expr) : bool := match l with [] => true | x :: r => uniform te x && all r end) es
  | ERepl _ a => uniform te a
  | EUn _ a => uniform te a
  | EBin o a b =>
      uniform te a && uniform te b &&
      (if is_arith o || is_cmp o then selfw te a =? selfw te b else true)
  | ECond c a b => uniform te c && uniform te a && uniform te b && (selfw te a =? selfw te b)
  | ECast w a => uniform te a && ((w <=? selfw te a) || is_id a)
  end.

(* every sized literal fits its width (N'dV with V < 2^N); a literal that does not is silently truncated by
   SystemVerilog — the shape of candidate defect F4 *)
Fixpoint lits_fit (e : expr) {struct e} : bool :=
  match e with
  | ELit w v => (0 <=? v) && (v <? 2 ^ w)
  | ENum _ | EId _ => true
  | EMember a _ | ERange a _ _ | ERepl _ a | EUn _ a | ECast _ a => lits_fit a
  | EIndex a b | EPlusRange a b _ | EBin _ a b => lits_fit a && lits_fit b
  | EConcat es => (fix all (l : list expr) : bool := match l with [] => true | x :: r => lits_fit x && all r end) es
  | ECond c a b => lits_fit c && lits_fit a && lits_fit b
  end.
