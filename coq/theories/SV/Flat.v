(* SV/Flat.v — the flat port map of the Yosys backend (property C12), over ARBITRARY struct shapes.  No axioms.

   A port of bitstruct type T is emitted as one port per leaf (names mangled port__field__index...).  The layout is
   Struct.Layout.leaf_ranges: the FIRST field is the MOST significant, element 0 of a list field the LEAST significant
   (this is also what to_bits() does: Struct.LayoutProofs, property C06).  harness/c12.py compares its own ranges with
   leaf_ranges inside Coq on every run, drives each flattened input with `flat_value`, and compares each flattened
   output with `flat_value` of the packed value pymtl3 produced.

   flat_port_carries_slice   leaf l of a value v holds exactly bits [lo l, hi l) of pack T v
   unflatten_flatten         reassembling the leaves the way the emitted `assign x[hi-1:lo] = x__leaf;` do gives the
                             packed value back
   flatten_unflatten         and flattening a reassembled value gives the leaves back
   flat_ranges_partition     the leaf ranges are disjoint and cover [0, width T)                                  *)
From PV Require Import Base.Prelude Bits.BitsSpec Bits.BitsLemmas Struct.Shape Struct.Layout Struct.LayoutProofs.
Open Scope Z_scope.

Definition flat_value (b : Z) (r : rng) : Z := slice b (rlo r) (rhi r).
Definition flatten (T : shape) (b : Z) : list Z := map (flat_value b) (leaf_ranges T).
(* the packed internal form built by one `assign x[hi-1:lo] = leaf;` per leaf: leaf values placed at their offsets *)
Fixpoint unflatten (rs : list rng) (vs : list Z) : Z :=
  match rs, vs with
  | r :: rs', v :: vs' => v * 2 ^ (rlo r) + unflatten rs' vs'
  | _, _ => 0
  end.

Theorem flat_port_carries_slice T v r : wf T = true -> typed T v = true -> In r (leaf_ranges T) ->
  shape_at T (rpath r) = Some (SBits (rhi r - rlo r)) /\
  leaf_at v (rpath r) = Some (flat_value (pack T v) r).
Proof. exact (pack_places_leaf T v r). Qed.

Theorem flat_port_bits T v r : wf T = true -> typed T v = true -> In r (leaf_ranges T) ->
  exists u, leaf_at v (rpath r) = Some u /\ 0 <= u < 2 ^ (rhi r - rlo r) /\
            forall i, rlo r <= i < rhi r -> Z.testbit (pack T v) i = Z.testbit u (i - rlo r).
Proof. exact (pack_testbit T v r). Qed.

Lemma slice_split b lo mid hi : 0 <= lo <= mid -> mid <= hi ->
  slice b mid hi * 2 ^ mid + slice b lo mid * 2 ^ lo = slice b lo hi * 2 ^ lo.
Proof.
  intros H1 H2. unfold slice.
  pose proof (pow2_gt0 lo ltac:(lia)) as P1. pose proof (pow2_gt0 (mid - lo) ltac:(lia)) as P2.
  pose proof (pow2_gt0 (hi - mid) ltac:(lia)) as P3.
  replace (2 ^ mid) with (2 ^ (mid - lo) * 2 ^ lo) by (rewrite <- Z.pow_add_r by lia; f_equal; lia).
  replace (hi - lo) with ((mid - lo) + (hi - mid)) by lia. rewrite Z.pow_add_r by lia.
  rewrite Z.rem_mul_r by lia.
  replace (b / (2 ^ (mid - lo) * 2 ^ lo)) with (b / 2 ^ lo / 2 ^ (mid - lo))
    by (rewrite Z.div_div by lia; f_equal; lia).
  lia.
Qed.

Lemma unflatten_chain b l : forall top bot, chain top l bot -> 0 <= bot ->
  unflatten l (map (flat_value b) l) = slice b bot top * 2 ^ bot.
Proof.
  induction l as [|r l IH]; cbn [chain map unflatten]; intros top bot H Hb.
  - subst. unfold slice. rewrite Z.sub_diag, Z.pow_0_r, Z.mod_1_r. lia.
  - destruct H as (Ha & Hlt & Hc). pose proof (chain_le _ _ _ Hc) as Hle.
    rewrite (IH (rlo r) bot Hc Hb). unfold flat_value. rewrite Ha. apply slice_split; lia.
Qed.

Theorem unflatten_flatten T b : wf T = true -> 0 <= b < 2 ^ (width T) ->
  unflatten (leaf_ranges T) (flatten T b) = b.
Proof.
  intros Hwf Hb. unfold flatten. rewrite (unflatten_chain b _ (width T) 0 (leaf_ranges_chain T Hwf)) by lia.
  unfold slice. rewrite Z.pow_0_r, Z.div_1_r, Z.mul_1_r, Z.sub_0_r. apply Z.mod_small. exact Hb.
Qed.

(* the packed form assembled from the flattened ports of a value IS its to_bits() *)
Corollary unflatten_leaves_is_pack T v : wf T = true -> typed T v = true ->
  unflatten (leaf_ranges T) (flatten T (pack T v)) = pack T v.
Proof. intros Hwf Hty. apply unflatten_flatten; [exact Hwf|apply pack_range; assumption]. Qed.

Lemma flat_value_of_leaves T v : wf T = true -> typed T v = true ->
  Forall (fun r => leaf_at v (rpath r) = Some (flat_value (pack T v) r)) (leaf_ranges T).
Proof. intros Hwf Hty. apply Forall_forall. intros r Hin. apply (pack_places_leaf T v r Hwf Hty Hin). Qed.

(* flattening what was reassembled gives every leaf back: leaf values in range, laid out on a chain *)
Definition in_leaf (r : rng) (v : Z) : Prop := 0 <= v < 2 ^ (rhi r - rlo r).

Lemma unflatten_bound l : forall vs top bot, chain top l bot -> 0 <= bot -> Forall2 in_leaf l vs ->
  0 <= unflatten l vs < 2 ^ top.
Proof.
  induction l as [|r l IH]; intros vs top bot H Hb HF; inversion HF; subst; cbn [chain unflatten] in *.
  - subst. split; [lia|apply Z.pow_pos_nonneg; lia].
  - destruct H as (Ha & Hlt & Hc). pose proof (chain_le _ _ _ Hc) as Hle.
    pose proof (IH _ (rlo r) bot Hc Hb H4) as R. unfold in_leaf in H2.
    pose proof (pow2_gt0 (rlo r) ltac:(lia)) as P1.
    rewrite <- Ha. replace (rhi r) with ((rhi r - rlo r) + rlo r) by lia. rewrite Z.pow_add_r by lia. nia.
Qed.

Lemma flat_of_unflatten l : forall vs top bot a, chain top l bot -> 0 <= bot -> Forall2 in_leaf l vs ->
  Forall2 (fun r v => flat_value (a * 2 ^ top + unflatten l vs) r = v) l vs.
Proof.
  induction l as [|r l IH]; intros vs top bot a H Hb HF; inversion HF; subst; cbn [chain unflatten] in *; [constructor|].
  destruct H as (Ha & Hlt & Hc). pose proof (chain_le _ _ _ Hc) as Hle.
  pose proof (unflatten_bound _ _ (rlo r) bot Hc Hb H4) as R. unfold in_leaf in H2.
  pose proof (pow2_gt0 (rlo r) ltac:(lia)) as P1. pose proof (pow2_gt0 (rhi r - rlo r) ltac:(lia)) as P2.
  assert (a * 2 ^ top + (y * 2 ^ rlo r + unflatten l l') = (a * 2 ^ (rhi r - rlo r) + y) * 2 ^ rlo r + unflatten l l') as E.
  { rewrite <- Ha. replace (rhi r) with ((rhi r - rlo r) + rlo r) at 1 by lia. rewrite Z.pow_add_r by lia. ring. }
  constructor.
  - unfold flat_value, slice. rewrite E. rewrite Z.div_add_l by lia. rewrite (Z.div_small (unflatten l l')) by lia.
    rewrite Z.add_0_r. rewrite Z.add_comm, Z.mod_add by lia. apply Z.mod_small. lia.
  - rewrite E. apply (IH l' (rlo r) bot (a * 2 ^ (rhi r - rlo r) + y) Hc Hb H4).
Qed.

Theorem flatten_unflatten T vs : wf T = true -> Forall2 in_leaf (leaf_ranges T) vs ->
  flatten T (unflatten (leaf_ranges T) vs) = vs.
Proof.
  intros Hwf HF. unfold flatten.
  pose proof (flat_of_unflatten _ vs (width T) 0 0 (leaf_ranges_chain T Hwf) ltac:(lia) HF) as F.
  rewrite Z.mul_0_l, Z.add_0_l in F. clear HF. generalize dependent (unflatten (leaf_ranges T) vs). intros b F.
  induction F as [|r v l vs' E _ IH]; [reflexivity|].
  cbn [map]. rewrite E, IH. reflexivity.
Qed.

(* disjoint, contiguous, covering *)
Theorem flat_ranges_cover T i : wf T = true -> 0 <= i < width T -> exists r, In r (leaf_ranges T) /\ rlo r <= i < rhi r.
Proof. intros Hwf Hi. exact (leaf_ranges_cover T i Hwf Hi). Qed.
Theorem flat_ranges_disjoint T r1 r2 i : wf T = true -> In r1 (leaf_ranges T) -> In r2 (leaf_ranges T) ->
  rlo r1 <= i < rhi r1 -> rlo r2 <= i < rhi r2 -> r1 = r2.
Proof. intros Hwf. exact (leaf_ranges_disjoint T r1 r2 i Hwf). Qed.
Theorem flat_ranges_bounds T r : wf T = true -> In r (leaf_ranges T) -> 0 <= rlo r /\ rlo r < rhi r /\ rhi r <= width T.
Proof. intros Hwf Hr. exact (leaf_ranges_bounds T r Hwf Hr). Qed.
