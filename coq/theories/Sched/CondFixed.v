(* Sched/CondFixed.v — the fixed-point theorem of Sched/Confluence.v (topo_fixed_point) in a CONDITIONAL form, for blocks
   whose strong dependence only holds on the environments on which they complete (a block that raises leaves the
   environment alone, so it is not `sdep`), and whose DECLARED write set may be larger than what they really write:

     ok i e     block i completes on e (does not raise)        — must be decided by the declared reads (ok_ext)
     aw i       the bits block i ACTUALLY writes, aw i ⊆ wr (B i) — frame and strong dependence are stated for aw
     sdep_on    on two environments where block i completes and that agree on rd (B i), it writes the same values

   cond_fixed_point: if no block raises along an evaluation pass in a legal order, every block is at its fixed point
   afterwards, and running the whole pass again changes nothing.   No axioms. *)
From Coq Require Import List Bool Arith Lia Permutation.
Import ListNotations.
From PV Require Import Sched.Block Sched.Confluence.

Section CondFixed.
Context {var val : Type}.
Variable B : nat -> blk var val.
Variable ids : list nat.
Variable ok : nat -> env var val -> Prop.
Variable aw : nat -> var -> bool.

Definition sdep_on (i : nat) : Prop :=
  forall e1 e2, ok i e1 -> ok i e2 -> (forall v, rd (B i) v = true -> e1 v = e2 v) ->
  forall v, aw i v = true -> run (B i) e1 v = run (B i) e2 v.
Definition ok_ext (i : nat) : Prop :=
  forall e1 e2, (forall v, rd (B i) v = true -> e1 v = e2 v) -> ok i e1 -> ok i e2.

Hypothesis Haw     : forall i v, In i ids -> aw i v = true -> wr (B i) v = true.
Hypothesis Hframe  : forall i, In i ids -> forall e v, aw i v = false -> run (B i) e v = e v.
Hypothesis Hdep    : forall i, In i ids -> dep (B i).
Hypothesis Hsw     : single_writer B ids.
Hypothesis Hsdep   : forall i, In i ids -> sdep_on i.
Hypothesis Hokext  : forall i, In i ids -> ok_ext i.
Hypothesis Hnsl    : forall i, In i ids -> nsl (B i).
Variable E : nat -> nat -> bool.
Hypothesis Hnoinv  : forall i j, In i ids -> In j ids -> i <> j -> feeds B i j -> E i j = true.

Notation runl := (run_list B).

Lemma frame_wr i : In i ids -> frame (B i).
Proof.
  intros Hi e v W. apply (Hframe i Hi). destruct (aw i v) eqn:A; [|reflexivity].
  rewrite (Haw i v Hi A) in W. discriminate.
Qed.

(* no block raises while the pass s runs on e *)
Definition no_raise (s : list nat) (e : env var val) : Prop :=
  forall s1 i s2, s = s1 ++ i :: s2 -> ok i (runl s1 e).

Theorem cond_fixed_point s : NoDup s -> incl s ids -> lin_ext E s ->
  forall e, no_raise s e -> forall i, In i s -> fixed_under B i (runl s e).
Proof.
  intros Hnd Hin Hs e Hok i Hi.
  destruct (in_split i s Hi) as [s1 [s2 ->]].
  pose proof (Hok s1 i s2 eq_refl) as Ok1.
  rewrite run_list_app. cbn [run_list]. set (e1 := runl s1 e) in *. set (e2 := run (B i) e1).
  assert (Hiids : In i ids) by (apply Hin; exact Hi).
  assert (Hs2 : incl s2 ids) by (intros x Hx; apply Hin; apply in_or_app; right; right; exact Hx).
  destruct (lin_ext_app E s1 (i :: s2) Hs) as [_ [[Hafter _] _]].
  assert (Hne : forall j, In j s2 -> j <> i).
  { intros j Hj ->. apply NoDup_remove_2 in Hnd. apply Hnd. apply in_or_app; right; exact Hj. }
  assert (Hkeep : forall v, rd (B i) v = true \/ wr (B i) v = true -> runl s2 e2 v = e2 v).
  { intros v Hv. apply (run_list_frame B ids frame_wr); [exact Hs2|]. intros j Hj.
    destruct (wr (B j) v) eqn:Wj; [|reflexivity]. exfalso.
    destruct Hv as [Rv|Wv].
    - assert (E j i = true) by (apply Hnoinv; [apply Hs2; exact Hj|exact Hiids|apply Hne; exact Hj|exists v; split; assumption]).
      rewrite (Hafter j Hj) in H. discriminate.
    - pose proof (Hsw j i v (Hs2 j Hj) Hiids (Hne j Hj) Wj). congruence. }
  (* the block completes on e2 and on the final environment too: they agree with e1 on what it reads *)
  assert (R12 : forall u, rd (B i) u = true -> e1 u = e2 u).
  { intros u Ru. unfold e2. symmetry. apply (frame_wr i Hiids). apply (Hnsl i Hiids u Ru). }
  assert (Ok2 : ok i e2) by (apply (Hokext i Hiids e1 e2 R12 Ok1)).
  assert (Ok3 : ok i (runl s2 e2)).
  { apply (Hokext i Hiids e2); [|exact Ok2]. intros u Ru. symmetry. apply Hkeep. left; exact Ru. }
  intro v. destruct (aw i v) eqn:A.
  - rewrite (Hkeep v (or_intror (Haw i v Hiids A))).
    transitivity (run (B i) e2 v).
    + apply (Hsdep i Hiids); [exact Ok3|exact Ok2| |exact A]. intros u Ru. apply Hkeep. left; exact Ru.
    + apply (Hsdep i Hiids); [exact Ok2|exact Ok1| |exact A]. intros u Ru. symmetry. apply R12. exact Ru.
  - apply (Hframe i Hiids). exact A.
Qed.

(* an environment at which every block of l is at its fixed point is left unchanged by the whole list *)
Lemma fixed_list l : incl l ids -> forall e, (forall i, In i l -> fixed_under B i e) -> eqe (runl l e) e.
Proof.
  induction l as [|a l IH]; intros Hl e H; cbn [run_list]; [intro; reflexivity|].
  assert (Hl' : incl l ids) by (intros x Hx; apply Hl; right; exact Hx).
  intro v. transitivity (runl l e v).
  - apply (run_list_ext B ids frame_wr Hdep l Hl'). apply H. left; reflexivity.
  - apply IH; [exact Hl'|]. intros i Hi. apply H. right; exact Hi.
Qed.

Theorem cond_pass_idempotent s : NoDup s -> incl s ids -> lin_ext E s ->
  forall e, no_raise s e -> eqe (runl s (runl s e)) (runl s e).
Proof.
  intros Hnd Hin Hs e Hok. apply (fixed_list s Hin). intros i Hi. apply cond_fixed_point; assumption.
Qed.

End CondFixed.
