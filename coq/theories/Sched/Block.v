(* Sched/Block.v — update blocks as state transformers with read/write footprints (model M3).
   A variable is whatever granularity the footprints are given at (the harness instantiates it with
   single bits of signals: (root signal, bit index)).  Definitions only. *)
From Coq Require Import List Bool Arith Lia Permutation.
Import ListNotations.

Section Blocks.
Context {var val : Type}.

Definition env := var -> val.
Definition eqe (e1 e2 : env) : Prop := forall v, e1 v = e2 v.

Record blk := mkBlk { rd : var -> bool; wr : var -> bool; run : env -> env }.

(* a block changes only what it declares as written *)
Definition frame (b : blk) : Prop := forall e v, wr b v = false -> run b e v = e v.
(* what it writes depends only on what it declares as read, and on the previous value of what it writes
   (a conditional write keeps the old value) *)
Definition dep (b : blk) : Prop :=
  forall e1 e2, (forall v, rd b v = true \/ wr b v = true -> e1 v = e2 v) ->
                forall v, wr b v = true -> run b e1 v = run b e2 v.
(* strong form: written values depend on the declared reads only (no latch) *)
Definition sdep (b : blk) : Prop :=
  forall e1 e2, (forall v, rd b v = true -> e1 v = e2 v) ->
                forall v, wr b v = true -> run b e1 v = run b e2 v.
(* no combinational self loop *)
Definition nsl (b : blk) : Prop := forall v, rd b v = true -> wr b v = false.

Variable B : nat -> blk.          (* the design: block ids are naturals *)

Fixpoint run_list (l : list nat) (e : env) : env :=
  match l with [] => e | i :: r => run_list r (run (B i) e) end.

Definition single_writer (ids : list nat) : Prop :=
  forall i j v, In i ids -> In j ids -> i <> j -> wr (B i) v = true -> wr (B j) v = false.

(* i writes something j reads *)
Definition feeds (i j : nat) : Prop := exists v, wr (B i) v = true /\ rd (B j) v = true.

(* order is a linear extension of E: no edge goes backwards *)
Fixpoint lin_ext (E : nat -> nat -> bool) (l : list nat) : Prop :=
  match l with
  | [] => True
  | a :: r => (forall x, In x r -> E x a = false) /\ lin_ext E r
  end.

Definition fixed_under (i : nat) (e : env) : Prop := eqe (run (B i) e) e.

End Blocks.
Arguments blk : clear implicits.
Arguments env : clear implicits.
