(* Sched/GroupSched.v — schedules made of groups: singleton blocks and cyclic groups (SCCs) that are iterated
   until stable (DynamicSchedulePass, Mamba2020Pass).  C11: whatever such a schedule returns is a state in which
   no block of the design, if run again, changes anything; exhausting the bound is an error.  No axioms. *)
From Coq Require Import List Bool Arith Lia Permutation.
Import ListNotations.
From PV Require Import Sched.Block Sched.Confluence Sched.SccIter.

Section Groups.
Context {var val : Type}.
Variable B : nat -> blk var val.
Variable watched : list nat -> var -> bool.     (* watched variables of each cyclic group *)
Variable stable : list nat -> env var val -> env var val -> bool.
Hypothesis stable_sound : forall g e e', stable g e e' = true -> forall v, watched g v = true -> e v = e' v.
Variable fuel : nat.

Definition is_single (g : list nat) : bool := match g with [_] => true | _ => false end.

Definition run_group (g : list nat) (e : env var val) : option (env var val) :=
  if is_single g then Some (run_list B g e) else scc_iter B g (stable g) fuel e.

Fixpoint run_groups (gs : list (list nat)) (e : env var val) : option (env var val) :=
  match gs with
  | [] => Some e
  | g :: r => match run_group g e with Some e' => run_groups r e' | None => None end
  end.

Variable gs : list (list nat).
Notation ids := (concat gs).

Hypothesis Hnd    : NoDup ids.
Hypothesis Hframe : forall i, In i ids -> frame (B i).
Hypothesis Hsdep  : forall i, In i ids -> sdep (B i).
Hypothesis Hnsl   : forall i, In i ids -> nsl (B i).
Hypothesis Hsw    : single_writer B ids.
(* nothing in a later group feeds a block of an earlier group (all cross-group edges go forward) *)
Hypothesis Hfwd : forall g1 g2 pre mid post, gs = pre ++ g1 :: mid ++ g2 :: post ->
  forall i j v, In i g1 -> In j g2 -> wr (B j) v = true -> rd (B i) v = false.
(* each cyclic group's watched list covers its internal communication *)
Hypothesis Hcover : forall g, In g gs -> is_single g = false ->
  forall i j v, In i g -> In j g -> i <> j -> wr (B i) v = true -> rd (B j) v = true -> watched g v = true.

Lemma in_group_in_ids g i : In g gs -> In i g -> In i ids.
Proof. intros Hg Hi. apply in_concat. exists g. split; assumption. Qed.

Lemma run_list_frame' l : (forall i, In i l -> frame (B i)) -> forall e v,
  (forall j, In j l -> wr (B j) v = false) -> run_list B l e v = e v.
Proof.
  induction l as [|a l IH]; intros Hf e v H; cbn [run_list]; [reflexivity|].
  rewrite IH; [|intros x Hx; apply Hf; right; exact Hx|intros j Hj; apply H; right; exact Hj].
  apply (Hf a (or_introl eq_refl)). apply H. left; reflexivity.
Qed.

Lemma scc_iter_frame g st f : (forall i, In i g -> frame (B i)) -> forall e r,
  scc_iter B g st f e = Some r -> forall v, (forall j, In j g -> wr (B j) v = false) -> r v = e v.
Proof.
  intros Hf. induction f as [|f IH]; intros e r; cbn [scc_iter]; [discriminate|].
  destruct (st e (run_list B g e)).
  - intros [= <-] v H. apply run_list_frame'; assumption.
  - intros Hr v H. rewrite (IH _ _ Hr v H). apply run_list_frame'; assumption.
Qed.

Lemma run_group_frame g : In g gs -> forall e r, run_group g e = Some r ->
  forall v, (forall j, In j g -> wr (B j) v = false) -> r v = e v.
Proof.
  intros Hg e r. unfold run_group.
  assert (Hf : forall i, In i g -> frame (B i)) by (intros i Hi; apply Hframe; apply (in_group_in_ids g i Hg Hi)).
  destruct (is_single g).
  - intros [= <-] v H. apply run_list_frame'; assumption.
  - intros Hr v H. apply (scc_iter_frame g (stable g) fuel Hf e r Hr v H).
Qed.

Lemma fixed_preserved i e r : In i ids -> fixed_under B i e ->
  (forall v, rd (B i) v = true \/ wr (B i) v = true -> r v = e v) -> fixed_under B i r.
Proof.
  intros Hi Hfix Hag v. destruct (wr (B i) v) eqn:W.
  - rewrite (Hag v (or_intror W)). rewrite <- (Hfix v).
    apply (Hsdep i Hi); [|exact W]. intros u Ru. apply Hag. left; exact Ru.
  - apply (Hframe i Hi). exact W.
Qed.

Lemma NoDup_concat_group (pre : list (list nat)) (g : list nat) (post : list (list nat)) : NoDup (concat (pre ++ g :: post)) -> NoDup g.
Proof.
  rewrite concat_app. cbn [concat]. intros H. apply nodup_app_r in H. apply nodup_app_l in H. exact H.
Qed.

Lemma group_fixed g : In g gs -> forall e r, run_group g e = Some r -> forall i, In i g -> fixed_under B i r.
Proof.
  intros Hg e r Hr i Hi. unfold run_group in Hr.
  destruct (in_split g gs Hg) as [pre [post Hgs]].
  assert (Hndg : NoDup g) by (apply (NoDup_concat_group pre g post); rewrite <- Hgs; exact Hnd).
  assert (Hin : forall k, In k g -> In k ids) by (intros k Hk; apply (in_group_in_ids g k Hg Hk)).
  destruct (is_single g) eqn:S.
  - destruct g as [|a [|b g']]; try discriminate. injection Hr as <-. destruct Hi as [<-|[]].
    cbn [run_list]. intro v. destruct (wr (B a) v) eqn:W.
    + apply (Hsdep a (Hin a (or_introl eq_refl))); [|exact W]. intros u Ru.
      apply (Hframe a (Hin a (or_introl eq_refl))). apply (Hnsl a (Hin a (or_introl eq_refl)) u Ru).
    + apply (Hframe a (Hin a (or_introl eq_refl))). exact W.
  - apply (scc_fixed_point B g (watched g) (stable g) (stable_sound g) Hndg) with (fuel := fuel) (e := e); try assumption.
    + intros k Hk; apply Hframe, Hin, Hk.
    + intros k Hk; apply Hsdep, Hin, Hk.
    + intros k Hk; apply Hnsl, Hin, Hk.
    + intros a b v Ha Hb Hne W. apply (Hsw a b v (Hin a Ha) (Hin b Hb) Hne W).
    + intros a b v Ha Hb Hne W Rv. apply (Hcover g Hg S a b v Ha Hb Hne W Rv).
Qed.

(* C11 / C01 for grouped schedules: on return, every block of the design is at its fixed point *)
Theorem grouped_fixed_point e r : run_groups gs e = Some r -> forall i, In i ids -> fixed_under B i r.
Proof.
  assert (G : forall done todo, gs = done ++ todo -> forall e r, run_groups todo e = Some r ->
            (forall i, In i (concat done) -> fixed_under B i e) -> forall i, In i ids -> fixed_under B i r).
  { intros done todo. revert done. induction todo as [|g todo IH]; intros done Hgs e0 r0 Hr Hdone i Hi.
    - cbn in Hr. injection Hr as <-. rewrite Hgs, app_nil_r in Hi. apply Hdone; exact Hi.
    - cbn [run_groups] in Hr. destruct (run_group g e0) as [e1|] eqn:Rg; [|discriminate].
      assert (Hg : In g gs) by (rewrite Hgs; apply in_or_app; right; left; reflexivity).
      apply (IH (done ++ [g])) with (e := e1); [rewrite <- app_assoc; exact Hgs|exact Hr| |exact Hi].
      intros k Hk. rewrite concat_app in Hk. cbn [concat] in Hk. rewrite app_nil_r in Hk.
      apply in_app_or in Hk. destruct Hk as [Hk|Hk].
      + (* a block of an earlier group: g does not write what it reads or writes *)
        apply in_concat in Hk. destruct Hk as [g0 [Hg0 Hk]].
        assert (Hkids : In k ids) by (rewrite Hgs; apply in_concat; exists g0; split; [apply in_or_app; left; exact Hg0|exact Hk]).
        apply (fixed_preserved k e0 e1 Hkids (Hdone k (proj2 (in_concat done k) (ex_intro _ g0 (conj Hg0 Hk))))).
        intros v Hv. apply (run_group_frame g Hg e0 e1 Rg). intros j Hj.
        destruct (wr (B j) v) eqn:Wj; [|reflexivity]. exfalso.
        destruct (in_split g0 done Hg0) as [pre [mid Hdone_eq]].
        destruct Hv as [Rv|Wv].
        * assert (rd (B k) v = false); [|congruence].
          apply (Hfwd g0 g pre mid todo) with (j := j); [rewrite Hgs, Hdone_eq, <- app_assoc; reflexivity|exact Hk|exact Hj|exact Wj].
        * assert (j <> k).
          { intros ->. rewrite Hgs, Hdone_eq in Hnd. rewrite <- app_assoc in Hnd. cbn [app] in Hnd.
            rewrite concat_app in Hnd. cbn [concat] in Hnd. apply nodup_app_r in Hnd.
            rewrite concat_app in Hnd. cbn [concat] in Hnd.
            apply (NoDup_app_disjoint g0 (concat mid ++ g ++ concat todo) k Hnd Hk).
            apply in_or_app; right. apply in_or_app; left. exact Hj. }
          pose proof (Hsw j k v (in_group_in_ids g j Hg Hj) Hkids H Wj). congruence.
      + apply (group_fixed g Hg e0 e1 Rg k Hk). }
  intros Hr. apply (G [] gs eq_refl e r Hr). intros i [].
Qed.

(* exhausting the bound in any cyclic group makes the whole evaluation an error: never an unstable state *)
Theorem grouped_error_propagates pre g post e e' :
  run_groups pre e = Some e' -> run_group g e' = None -> run_groups (pre ++ g :: post) e = None.
Proof.
  revert e. induction pre as [|p pre IH]; intros e; cbn [run_groups app].
  - intros [= <-] H. rewrite H. reflexivity.
  - destruct (run_group p e) as [e1|]; [|discriminate]. apply IH.
Qed.

End Groups.
