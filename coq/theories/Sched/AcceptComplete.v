(* Sched/AcceptComplete.v — completeness of the schedule acceptor of Sched/Accept.v (C02): a pass that satisfies the
   property's ordering conditions is accepted, so the acceptor raises no alarm on a schedule where the property holds.
   No axioms.  Used by Props/C02.v only. *)
From Coq Require Import ZArith List Bool Arith Lia Permutation.
Import ListNotations.
From PV Require Import Sched.Block Sched.Accept.

Lemma nodup_b_complete l : NoDup l -> nodup_b l = true.
Proof.
  induction 1 as [|a r Hn _ IH]; cbn [nodup_b]; [reflexivity|]. rewrite IH, andb_true_r.
  destruct (existsb (Nat.eqb a) r) eqn:E; [|reflexivity].
  apply existsb_exists in E. destruct E as [x [Hx Hax]]. apply Nat.eqb_eq in Hax. subst x. contradiction.
Qed.

Lemma perm_b_complete d order : NoDup order -> Permutation order (ids d) -> perm_b d order = true.
Proof.
  intros Hnd Hp. unfold perm_b. rewrite (nodup_b_complete order Hnd). cbn [andb].
  assert (Hlen : length order = nblk d).
  { rewrite (Permutation_length Hp). unfold ids. apply seq_length. }
  rewrite Hlen, Nat.eqb_refl. cbn [andb]. apply forallb_forall. intros x Hx.
  apply Nat.ltb_lt. apply (Permutation_in _ Hp) in Hx. unfold ids in Hx. apply in_seq in Hx. lia.
Qed.

Lemma pos_lin_ext_b E l : NoDup l ->
  (forall x y, In x l -> In y l -> E x y = true -> (pos l x < pos l y)%nat) -> lin_ext_b E l = true.
Proof.
  induction l as [|a r IH]; intros Hnd H; cbn [lin_ext_b]; [reflexivity|].
  inversion Hnd as [|? ? Hn Hnd']; subst. apply andb_true_intro. split.
  - apply forallb_forall. intros x Hx. destruct (E x a) eqn:Exa; [|reflexivity].
    specialize (H x a (or_intror Hx) (or_introl eq_refl) Exa). cbn [pos] in H. rewrite Nat.eqb_refl in H. lia.
  - apply IH; [exact Hnd'|]. intros x y Hx Hy Exy.
    specialize (H x y (or_intror Hx) (or_intror Hy) Exy). cbn [pos] in H.
    destruct (Nat.eqb_spec a x) as [->|_]; [contradiction|].
    destruct (Nat.eqb_spec a y) as [->|_]; [contradiction|]. lia.
Qed.

Theorem sched_ok_complete d order : wf_design d = true ->
  NoDup order -> Permutation order (ids d) ->
  (forall a b v, In a (ids d) -> In b (ids d) -> a <> b -> writes_bit d a v -> reads_bit d b v ->
                 pair_in (expl d) b a = false -> (pos order a < pos order b)%nat) ->
  (forall x y, pair_in (expl d) x y = true -> (pos order x < pos order y)%nat) ->
  sched_ok d order = true.
Proof.
  intros Hwf Hnd Hp H1 H2. unfold sched_ok. rewrite Hwf, (perm_b_complete d order Hnd Hp). cbn [andb].
  apply (pos_lin_ext_b (Eb d) order Hnd). intros x y Hx Hy E.
  unfold Eb in E. apply orb_prop in E. destruct E as [E|E]; [|apply H2; exact E].
  apply andb_prop in E. destruct E as [E Hne]. apply andb_prop in E. destruct E as [Hov Hinv].
  apply negb_true_iff in Hne. apply Nat.eqb_neq in Hne. apply negb_true_iff in Hinv.
  assert (Ix : In x (ids d)) by (apply (Permutation_in _ Hp); exact Hx).
  assert (Iy : In y (ids d)) by (apply (Permutation_in _ Hp); exact Hy).
  unfold wf_design in Hwf. apply andb_prop in Hwf. destruct Hwf as [Hwf _]. rewrite forallb_forall in Hwf.
  pose proof (Hwf x Ix) as Wx. pose proof (Hwf y Iy) as Wy.
  apply andb_prop in Wx. apply andb_prop in Wy. destruct Wx as [_ Wx]. destruct Wy as [Wy _].
  apply (fp_overlap_spec _ _ Wx Wy) in Hov. destruct Hov as [v [Hv1 Hv2]].
  apply (H1 x y v Ix Iy Hne Hv1 Hv2 Hinv).
Qed.

(* with soundness: the acceptor decides the property's ordering conditions exactly *)
Theorem sched_ok_iff d order : wf_design d = true ->
  (sched_ok d order = true <->
   NoDup order /\ Permutation order (ids d) /\
   (forall a b v, In a (ids d) -> In b (ids d) -> a <> b -> writes_bit d a v -> reads_bit d b v ->
                  pair_in (expl d) b a = false -> (pos order a < pos order b)%nat) /\
   (forall x y, pair_in (expl d) x y = true -> (pos order x < pos order y)%nat)).
Proof.
  intros Hwf. split; [apply sched_ok_sound|].
  intros [Hnd [Hp [H1 H2]]]. apply sched_ok_complete; assumption.
Qed.
