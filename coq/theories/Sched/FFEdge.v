(* Sched/FFEdge.v — the clock edge as a function of the pre-edge state (C07): hold, edge function, determinacy.
   Arbitrary designs (any number of update_ff blocks, any variable/value types).  No axioms.  Used by Props/C07.v only. *)
From Coq Require Import List Bool Arith Lia Permutation.
Import ListNotations.
From PV Require Import Sched.Block Sched.Confluence.

Section FFEdge.
Context {var val : Type}.
Variable B : nat -> blk var val.
Variable ffs : list nat.
Hypothesis Hframe : forall i, In i ffs -> frame (B i).
Hypothesis Hdep   : forall i, In i ffs -> dep (B i).
Hypothesis Hsw    : single_writer B ffs.
(* an update_ff block only writes next-values, which no update_ff block reads *)
Hypothesis Hff : forall i j v, In i ffs -> In j ffs -> i <> j -> wr (B i) v = true -> rd (B j) v = false.

(* hold: a next-value no block of the edge writes keeps its pre-edge content *)
Theorem ff_hold s : incl s ffs ->
  forall e v, (forall i, In i s -> wr (B i) v = false) -> run_list B s e v = e v.
Proof. intros Hin e v H. apply (run_list_frame B ffs Hframe s Hin e v H). Qed.

(* the whole edge is a function of the PRE-edge state alone: every variable is either the value its one writer
   computes from the pre-edge state, or — when nothing writes it — its pre-edge value *)
Theorem ff_edge_function s : NoDup s -> incl s ffs ->
  forall e v,
    (exists i, In i s /\ wr (B i) v = true /\ run_list B s e v = run (B i) e v) \/
    ((forall i, In i s -> wr (B i) v = false) /\ run_list B s e v = e v).
Proof.
  intros Hnd Hin e v. destruct (existsb (fun i => wr (B i) v) s) eqn:Ex.
  - left. apply existsb_exists in Ex. destruct Ex as [i [Hi W]].
    exists i. split; [exact Hi|]. split; [exact W|]. apply (ff_observes_preedge B ffs Hframe Hdep Hsw Hff s Hnd Hin e i v Hi W).
  - right. assert (H : forall i, In i s -> wr (B i) v = false).
    { intros i Hi. destruct (wr (B i) v) eqn:W; [|reflexivity].
      assert (existsb (fun i => wr (B i) v) s = true) by (apply existsb_exists; exists i; split; assumption).
      congruence. }
    split; [exact H|apply (ff_hold s Hin e v H)].
Qed.

(* hence two pre-edge states that agree on what the blocks read and write give post-edge states that agree on
   everything written, whatever the two orders are *)
Theorem ff_edge_determined s t e1 e2 : NoDup s -> Permutation s t -> incl s ffs ->
  (forall i v, In i s -> rd (B i) v = true \/ wr (B i) v = true -> e1 v = e2 v) ->
  forall i v, In i s -> wr (B i) v = true -> run_list B s e1 v = run_list B t e2 v.
Proof.
  intros Hnd Hp Hin Hag i v Hi W.
  rewrite <- (ff_perm_indep B ffs Hframe Hdep Hsw Hff s t Hnd Hp Hin e2 v).
  rewrite (ff_observes_preedge B ffs Hframe Hdep Hsw Hff s Hnd Hin e1 i v Hi W), (ff_observes_preedge B ffs Hframe Hdep Hsw Hff s Hnd Hin e2 i v Hi W).
  apply (Hdep i (Hin i Hi)); [|exact W]. intros u Hu. apply (Hag i u Hi Hu).
Qed.

(* any number of edges, each run in its own order of the blocks: the orders never matter *)
Theorem ff_many_edges os1 os2 :
  Forall2 (fun s t => NoDup s /\ Permutation s t /\ incl s ffs) os1 os2 ->
  forall e1 e2, eqe e1 e2 ->
  eqe (fold_left (fun e s => run_list B s e) os1 e1) (fold_left (fun e s => run_list B s e) os2 e2).
Proof.
  induction 1 as [|s t os1 os2 [Hnd [Hp Hin]] _ IH]; intros e1 e2 He; cbn [fold_left]; [exact He|].
  apply IH. intros v.
  rewrite (ff_perm_indep B ffs Hframe Hdep Hsw Hff s t Hnd Hp Hin e1 v).
  assert (Ht : incl t ffs) by (intros x Hx; apply Hin; apply (Permutation_in x (Permutation_sym Hp) Hx)).
  apply (run_list_ext B ffs Hframe Hdep t Ht e1 e2 He v).
Qed.
End FFEdge.

(* non-vacuity of the section hypotheses: the register swap  a <<= b ; b <<= a  as two update_ff blocks.
   variables: 0 = a, 1 = b, 2 = next(a), 3 = next(b), 4 = an unrelated register's next-value *)
Definition swapB (i : nat) : blk nat nat :=
  match i with
  | 0 => mkBlk (fun v => v =? 1) (fun v => v =? 2) (fun e v => if v =? 2 then e 1 else e v)
  | 1 => mkBlk (fun v => v =? 0) (fun v => v =? 3) (fun e v => if v =? 3 then e 0 else e v)
  | _ => mkBlk (fun _ => false) (fun _ => false) (fun e => e)
  end.

Lemma swap_in i : In i [0; 1] -> i = 0 \/ i = 1.
Proof. cbn. intros [H|[H|[]]]; auto. Qed.

Lemma swap_nonvacuous :
  (forall i, In i [0; 1] -> frame (swapB i)) /\
  (forall i, In i [0; 1] -> dep (swapB i)) /\
  single_writer swapB [0; 1] /\
  (forall i j v, In i [0; 1] -> In j [0; 1] -> i <> j -> wr (swapB i) v = true -> rd (swapB j) v = false) /\
  forall e, run_list swapB [0; 1] e 2 = e 1 /\ run_list swapB [0; 1] e 3 = e 0 /\
            run_list swapB [1; 0] e 2 = e 1 /\ run_list swapB [1; 0] e 3 = e 0 /\
            run_list swapB [1; 0] e 4 = e 4.
Proof.
  split; [|split; [|split; [|split]]].
  - intros i Hi e v. destruct (swap_in i Hi) as [-> | ->]; cbn; intros W; rewrite W; reflexivity.
  - intros i Hi e1 e2 H v. destruct (swap_in i Hi) as [-> | ->]; cbn; intros W; rewrite W.
    + apply H. left. reflexivity.
    + apply H. left. reflexivity.
  - intros i j v Hi Hj Hne. destruct (swap_in i Hi) as [-> | ->], (swap_in j Hj) as [-> | ->]; cbn; try congruence;
      intros W; apply Nat.eqb_eq in W; subst v; reflexivity.
  - intros i j v Hi Hj Hne. destruct (swap_in i Hi) as [-> | ->], (swap_in j Hj) as [-> | ->]; cbn; try congruence;
      intros W; apply Nat.eqb_eq in W; subst v; reflexivity.
  - intros e. cbn. repeat split.
Qed.
