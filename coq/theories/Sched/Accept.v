(* Sched/Accept.v — certified acceptors: boolean checkers run (inside Coq) on what the implementation actually
   did — the observed execution order of one evaluation pass, the blocks' bit-level footprints, the explicit
   constraints — with theorems  checker = true -> property.   (C02, and the end-to-end forms of C01.)  No axioms. *)
From Coq Require Import ZArith List Bool Arith Lia Permutation.
Import ListNotations.
From PV Require Import Sched.Block Sched.Confluence.

(* ---- bit intervals:  (root signal id, lo, hi)  = bits lo..hi-1 of the packed root signal ---- *)
Definition ivl := (nat * Z * Z)%type.
Definition iroot (a : ivl) : nat := fst (fst a).
Definition ilo (a : ivl) : Z := snd (fst a).
Definition ihi (a : ivl) : Z := snd a.
Definition bit := (nat * Z)%type.

Definition in_ivl (v : bit) (a : ivl) : bool :=
  (Nat.eqb (fst v) (iroot a)) && (ilo a <=? snd v)%Z && (snd v <? ihi a)%Z.
Definition ivl_overlap (a b : ivl) : bool :=
  (Nat.eqb (iroot a) (iroot b)) && (ilo a <? ihi b)%Z && (ilo b <? ihi a)%Z.
Definition wf_ivl (a : ivl) : bool := (ilo a <? ihi a)%Z.

Lemma ivl_overlap_spec a b : wf_ivl a = true -> wf_ivl b = true ->
  (ivl_overlap a b = true <-> exists v, in_ivl v a = true /\ in_ivl v b = true).
Proof.
  unfold wf_ivl, ivl_overlap, in_ivl. intros Wa Wb. split.
  - intros H. apply andb_prop in H. destruct H as [H H3]. apply andb_prop in H. destruct H as [H1 H2].
    apply Nat.eqb_eq in H1. exists (iroot a, Z.max (ilo a) (ilo b)). cbn [fst snd].
    rewrite <- H1, Nat.eqb_refl. cbn [andb]. split; apply andb_true_intro; split; lia.
  - intros [[r k] [H1 H2]]. cbn [fst snd] in *.
    apply andb_prop in H1. destruct H1 as [H1 H1c]. apply andb_prop in H1. destruct H1 as [H1a H1b].
    apply andb_prop in H2. destruct H2 as [H2 H2c]. apply andb_prop in H2. destruct H2 as [H2a H2b].
    apply Nat.eqb_eq in H1a, H2a. rewrite <- H1a, <- H2a, Nat.eqb_refl. cbn [andb].
    apply andb_true_intro; split; lia.
Qed.

Definition fp := list ivl.
Definition mem_fp (f : fp) (v : bit) : bool := existsb (in_ivl v) f.
Definition fp_overlap (f g : fp) : bool := existsb (fun a => existsb (ivl_overlap a) g) f.
Definition wf_fp (f : fp) : bool := forallb wf_ivl f.

Lemma fp_overlap_spec f g : wf_fp f = true -> wf_fp g = true ->
  (fp_overlap f g = true <-> exists v, mem_fp f v = true /\ mem_fp g v = true).
Proof.
  unfold wf_fp, fp_overlap, mem_fp. intros Wf Wg. rewrite forallb_forall in Wf, Wg. split.
  - intros H. apply existsb_exists in H. destruct H as [a [Ha H]].
    apply existsb_exists in H. destruct H as [b [Hb H]].
    apply (ivl_overlap_spec a b (Wf a Ha) (Wg b Hb)) in H. destruct H as [v [H1 H2]].
    exists v. split; apply existsb_exists; eauto.
  - intros [v [H1 H2]]. apply existsb_exists in H1, H2. destruct H1 as [a [Ha H1]]. destruct H2 as [b [Hb H2]].
    apply existsb_exists. exists a. split; [exact Ha|]. apply existsb_exists. exists b. split; [exact Hb|].
    apply (ivl_overlap_spec a b (Wf a Ha) (Wg b Hb)). exists v. split; assumption.
Qed.

(* ---- an observed design: per block id its read and write footprints ---- *)
Record design := mkDesign { nblk : nat; rds : nat -> fp; wrs : nat -> fp; expl : list (nat * nat) }.

Definition ids (d : design) : list nat := seq 0 (nblk d).
Definition pair_in (l : list (nat * nat)) (x y : nat) : bool :=
  existsb (fun p => Nat.eqb (fst p) x && Nat.eqb (snd p) y) l.

(* the constraint relation the schedule has to respect *)
Definition Eb (d : design) (i j : nat) : bool :=
  (fp_overlap (wrs d i) (rds d j) && negb (pair_in (expl d) j i) && negb (Nat.eqb i j)) || pair_in (expl d) i j.

Fixpoint lin_ext_b (E : nat -> nat -> bool) (l : list nat) : bool :=
  match l with [] => true | a :: r => forallb (fun x => negb (E x a)) r && lin_ext_b E r end.

Lemma lin_ext_b_spec E l : lin_ext_b E l = true <-> lin_ext E l.
Proof.
  induction l as [|a r IH]; cbn [lin_ext_b lin_ext]; [tauto|].
  rewrite andb_true_iff, forallb_forall, IH. split; intros [H1 H2]; split; try exact H2; intros x Hx.
  - specialize (H1 x Hx). destruct (E x a); [discriminate|reflexivity].
  - rewrite (H1 x Hx). reflexivity.
Qed.

Fixpoint nodup_b (l : list nat) : bool :=
  match l with [] => true | a :: r => negb (existsb (Nat.eqb a) r) && nodup_b r end.

Lemma nodup_b_spec l : nodup_b l = true -> NoDup l.
Proof.
  induction l as [|a r IH]; cbn [nodup_b]; intros H; [constructor|].
  apply andb_prop in H. destruct H as [H1 H2]. constructor; [|apply IH; exact H2].
  intros Hin. assert (existsb (Nat.eqb a) r = true) by (apply existsb_exists; exists a; split; [exact Hin|apply Nat.eqb_refl]).
  rewrite H in H1. discriminate.
Qed.

(* order is a permutation of all block ids *)
Definition perm_b (d : design) (order : list nat) : bool :=
  nodup_b order && Nat.eqb (length order) (nblk d) && forallb (fun i => Nat.ltb i (nblk d)) order.

Lemma perm_b_spec d order : perm_b d order = true -> NoDup order /\ Permutation order (ids d).
Proof.
  unfold perm_b. intros H. apply andb_prop in H. destruct H as [H H3]. apply andb_prop in H. destruct H as [H1 H2].
  apply nodup_b_spec in H1. apply Nat.eqb_eq in H2. rewrite forallb_forall in H3.
  split; [exact H1|]. apply NoDup_Permutation_bis; [exact H1|unfold ids; rewrite seq_length; lia|].
  intros x Hx. apply in_seq. specialize (H3 x Hx). apply Nat.ltb_lt in H3. lia.
Qed.

(* position of a block in the observed order *)
Fixpoint pos (l : list nat) (x : nat) : nat :=
  match l with [] => O | a :: r => if Nat.eqb a x then O else S (pos r x) end.

Lemma lin_ext_pos E l : lin_ext E l -> NoDup l -> forall x y, In x l -> In y l -> x <> y -> E x y = true ->
  (pos l x < pos l y)%nat.
Proof.
  induction l as [|a r IH]; intros H Hnd x y Hx Hy Hne Exy; [destruct Hx|].
  destruct H as [Ha Hr]. inversion Hnd as [|? ? Hn Hnd']; subst. cbn [pos].
  destruct (Nat.eqb_spec a x) as [<-|Nx]; destruct (Nat.eqb_spec a y) as [<-|Ny].
  - congruence.
  - lia.
  - destruct Hx as [Hx|Hx]; [congruence|]. rewrite (Ha x Hx) in Exy. discriminate.
  - destruct Hx as [Hx|Hx]; [congruence|]. destruct Hy as [Hy|Hy]; [congruence|].
    apply -> Nat.succ_lt_mono. apply IH; assumption.
Qed.

(* ---- the schedule acceptor ---- *)
Definition wf_design (d : design) : bool :=
  forallb (fun i => wf_fp (rds d i) && wf_fp (wrs d i)) (ids d) &&
  forallb (fun p => Nat.ltb (fst p) (nblk d) && Nat.ltb (snd p) (nblk d) && negb (Nat.eqb (fst p) (snd p))) (expl d).

Definition sched_ok (d : design) (order : list nat) : bool :=
  wf_design d && perm_b d order && lin_ext_b (Eb d) order.

Definition writes_bit (d : design) (i : nat) (v : bit) : Prop := mem_fp (wrs d i) v = true.
Definition reads_bit  (d : design) (i : nat) (v : bit) : Prop := mem_fp (rds d i) v = true.

(* C02: in an accepted evaluation pass every block runs exactly once, a block that writes a bit runs before
   every other block that reads that bit unless an explicit constraint inverts the pair, and every explicit
   constraint is honoured *)
Theorem sched_ok_sound d order : sched_ok d order = true ->
  NoDup order /\ Permutation order (ids d) /\
  (forall a b v, In a (ids d) -> In b (ids d) -> a <> b -> writes_bit d a v -> reads_bit d b v ->
                 pair_in (expl d) b a = false -> (pos order a < pos order b)%nat) /\
  (forall x y, pair_in (expl d) x y = true -> (pos order x < pos order y)%nat).
Proof.
  unfold sched_ok. intros H. apply andb_prop in H. destruct H as [H H3]. apply andb_prop in H. destruct H as [Hwf H2].
  apply perm_b_spec in H2. destruct H2 as [Hnd Hp]. apply lin_ext_b_spec in H3.
  unfold wf_design in Hwf. apply andb_prop in Hwf. destruct Hwf as [Hwf1 Hwf2].
  rewrite forallb_forall in Hwf1, Hwf2.
  split; [exact Hnd|]. split; [exact Hp|]. split.
  - intros a b v Ha Hb Hne Wa Rb Hinv.
    apply (lin_ext_pos (Eb d) order H3 Hnd);
      [apply (Permutation_in a (Permutation_sym Hp) Ha)|apply (Permutation_in b (Permutation_sym Hp) Hb)|exact Hne|].
    unfold Eb. apply orb_true_intro. left.
    specialize (Hwf1 a Ha) as Wfa. specialize (Hwf1 b Hb) as Wfb.
    apply andb_prop in Wfa, Wfb. destruct Wfa as [_ Wfa]. destruct Wfb as [Wfb _].
    assert (fp_overlap (wrs d a) (rds d b) = true) as -> by (apply fp_overlap_spec; [assumption|assumption|exists v; split; assumption]).
    rewrite Hinv. destruct (Nat.eqb_spec a b); [contradiction|reflexivity].
  - intros x y Hxy.
    unfold pair_in in Hxy. apply existsb_exists in Hxy. destruct Hxy as [[p q] [Hin Hpq]]. cbn [fst snd] in Hpq.
    apply andb_prop in Hpq. destruct Hpq as [Hp1 Hp2]. apply Nat.eqb_eq in Hp1, Hp2. subst p q.
    specialize (Hwf2 (x, y) Hin). cbn [fst snd] in Hwf2.
    apply andb_prop in Hwf2. destruct Hwf2 as [Hwf2 Hne]. apply andb_prop in Hwf2. destruct Hwf2 as [Hx Hy].
    apply Nat.ltb_lt in Hx, Hy.
    apply (lin_ext_pos (Eb d) order H3 Hnd).
    + apply (Permutation_in x (Permutation_sym Hp)). apply in_seq. lia.
    + apply (Permutation_in y (Permutation_sym Hp)). apply in_seq. lia.
    + destruct (Nat.eqb_spec x y); [discriminate|assumption].
    + unfold Eb. apply orb_true_intro. right. apply existsb_exists. exists (x, y). split; [exact Hin|].
      cbn [fst snd]. rewrite !Nat.eqb_refl. reflexivity.
Qed.

(* ---- single writer / no self loop / no inversion acceptors ---- *)
Definition sw_ok (d : design) : bool :=
  forallb (fun i => forallb (fun j => Nat.eqb i j || negb (fp_overlap (wrs d i) (wrs d j))) (ids d)) (ids d).
Definition nsl_ok (d : design) : bool := forallb (fun i => negb (fp_overlap (rds d i) (wrs d i))) (ids d).
Definition noinv_ok (d : design) : bool :=
  forallb (fun p => negb (fp_overlap (wrs d (snd p)) (rds d (fst p)))) (expl d).

(* ---- end-to-end (C01): any block semantics that respects the observed footprints ---- *)
Section EndToEnd.
Context {val : Type}.
Variable d : design.
Variable R : nat -> env bit val -> env bit val.
Definition Bd (i : nat) : blk bit val := @mkBlk bit val (mem_fp (rds d i)) (mem_fp (wrs d i)) (R i).

Hypothesis Hwf : wf_design d = true.
Hypothesis Hsw : sw_ok d = true.
Hypothesis Hframe : forall i, In i (ids d) -> frame (Bd i).
Hypothesis Hdep : forall i, In i (ids d) -> dep (Bd i).

Lemma wf_rds i : In i (ids d) -> wf_fp (rds d i) = true /\ wf_fp (wrs d i) = true.
Proof.
  intros Hi. unfold wf_design in Hwf. apply andb_prop in Hwf. destruct Hwf as [H _].
  rewrite forallb_forall in H. specialize (H i Hi). apply andb_prop in H. exact H.
Qed.

Lemma sw_sound : single_writer Bd (ids d).
Proof.
  intros i j v Hi Hj Hne W. cbn in *. unfold sw_ok in Hsw. rewrite forallb_forall in Hsw.
  specialize (Hsw i Hi). rewrite forallb_forall in Hsw. specialize (Hsw j Hj).
  destruct (Nat.eqb_spec i j); [contradiction|]. cbn [orb] in Hsw.
  destruct (mem_fp (wrs d j) v) eqn:Wj; [|reflexivity]. exfalso.
  assert (fp_overlap (wrs d i) (wrs d j) = true).
  { apply fp_overlap_spec; [apply wf_rds; exact Hi|apply wf_rds; exact Hj|exists v; split; assumption]. }
  rewrite H in Hsw. discriminate.
Qed.

Lemma conf_sound : forall i j, In i (ids d) -> In j (ids d) -> i <> j -> feeds Bd i j -> Eb d i j = true \/ Eb d j i = true.
Proof.
  intros i j Hi Hj Hne [v [W Rv]]. cbn in W, Rv.
  assert (O : fp_overlap (wrs d i) (rds d j) = true).
  { apply fp_overlap_spec; [apply wf_rds; exact Hi|apply wf_rds; exact Hj|exists v; split; assumption]. }
  unfold Eb. rewrite O. destruct (pair_in (expl d) j i) eqn:P.
  - right. apply orb_true_intro. right. reflexivity.
  - left. destruct (Nat.eqb_spec i j); [contradiction|reflexivity].
Qed.

(* two evaluation passes that the acceptor accepted compute the same state, whatever the blocks do *)
Theorem accepted_schedules_agree o1 o2 : sched_ok d o1 = true -> sched_ok d o2 = true ->
  forall e, eqe (run_list Bd o1 e) (run_list Bd o2 e).
Proof.
  intros H1 H2 e.
  pose proof (sched_ok_sound d o1 H1) as [Hnd1 [Hp1 _]]. pose proof (sched_ok_sound d o2 H2) as [_ [Hp2 _]].
  unfold sched_ok in H1, H2. apply andb_prop in H1, H2. destruct H1 as [_ L1]. destruct H2 as [_ L2].
  apply lin_ext_b_spec in L1, L2.
  apply (topo_confluent Bd (ids d) Hframe Hdep sw_sound (Eb d) conf_sound o1 o2).
  - exact Hnd1.
  - apply (Permutation_trans Hp1 (Permutation_sym Hp2)).
  - intros x Hx. apply (Permutation_in x Hp1 Hx).
  - exact L1.
  - exact L2.
Qed.

Hypothesis Hsdep : forall i, In i (ids d) -> sdep (Bd i).
Hypothesis Hnsl : nsl_ok d = true.
Hypothesis Hnoinv : noinv_ok d = true.

Lemma nsl_sound i : In i (ids d) -> nsl (Bd i).
Proof.
  intros Hi v Rv. cbn in *. destruct (mem_fp (wrs d i) v) eqn:W; [|reflexivity]. exfalso.
  unfold nsl_ok in Hnsl. rewrite forallb_forall in Hnsl. specialize (Hnsl i Hi).
  assert (fp_overlap (rds d i) (wrs d i) = true).
  { apply fp_overlap_spec; [apply wf_rds; exact Hi|apply wf_rds; exact Hi|exists v; split; assumption]. }
  rewrite H in Hnsl. discriminate.
Qed.

Lemma noinv_sound : forall i j, In i (ids d) -> In j (ids d) -> i <> j -> feeds Bd i j -> Eb d i j = true.
Proof.
  intros i j Hi Hj Hne [v [W Rv]]. cbn in W, Rv.
  assert (O : fp_overlap (wrs d i) (rds d j) = true).
  { apply fp_overlap_spec; [apply wf_rds; exact Hi|apply wf_rds; exact Hj|exists v; split; assumption]. }
  unfold Eb. rewrite O. destruct (pair_in (expl d) j i) eqn:P.
  - exfalso. unfold pair_in in P. apply existsb_exists in P. destruct P as [[p q] [Hin Hpq]]. cbn [fst snd] in Hpq.
    apply andb_prop in Hpq. destruct Hpq as [Hp1 Hp2]. apply Nat.eqb_eq in Hp1, Hp2. subst p q.
    unfold noinv_ok in Hnoinv. rewrite forallb_forall in Hnoinv. specialize (Hnoinv (j, i) Hin). cbn [fst snd] in Hnoinv.
    rewrite O in Hnoinv. discriminate.
  - destruct (Nat.eqb_spec i j); [contradiction|reflexivity].
Qed.

(* after an accepted pass (no inverted pairs, no self loops) every block is at its fixed point *)
Theorem accepted_schedule_fixed_point o : sched_ok d o = true ->
  forall e i, In i (ids d) -> fixed_under Bd i (run_list Bd o e).
Proof.
  intros H e i Hi.
  pose proof (sched_ok_sound d o H) as [Hnd [Hp _]].
  unfold sched_ok in H. apply andb_prop in H. destruct H as [_ L]. apply lin_ext_b_spec in L.
  apply (topo_fixed_point Bd (ids d) Hframe sw_sound (Eb d) Hsdep nsl_sound noinv_sound o Hnd).
  - intros x Hx. apply (Permutation_in x Hp Hx).
  - exact L.
  - apply (Permutation_in i (Permutation_sym Hp) Hi).
Qed.

End EndToEnd.
