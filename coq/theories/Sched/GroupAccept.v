(* Sched/GroupAccept.v — certified acceptor for grouped schedules with iterated cyclic groups (C11).
   Fed with: bit-level footprints of every block, the groups in execution order, and the watched objects
   (as bit intervals) of each iterated group, all taken from the real scheduler's output.  No axioms. *)
From Coq Require Import ZArith List Bool Arith Lia Permutation.
Import ListNotations.
From PV Require Import Sched.Block Sched.Confluence Sched.SccIter Sched.GroupSched Sched.Accept.

Definition ivl_inter (a b : ivl) : ivl := (iroot a, Z.max (ilo a) (ilo b), Z.min (ihi a) (ihi b)).
Definition ivl_sub (a w : ivl) : bool := Nat.eqb (iroot a) (iroot w) && (ilo w <=? ilo a)%Z && (ihi a <=? ihi w)%Z.

Lemma in_inter v a b : in_ivl v a = true -> in_ivl v b = true -> in_ivl v (ivl_inter a b) = true.
Proof.
  unfold in_ivl, ivl_inter, iroot, ilo, ihi. cbn [fst snd]. intros H1 H2.
  apply andb_prop in H1. destruct H1 as [H1 H1c]. apply andb_prop in H1. destruct H1 as [H1a H1b].
  apply andb_prop in H2. destruct H2 as [H2 H2c]. apply andb_prop in H2. destruct H2 as [H2a H2b].
  rewrite H1a. cbn [andb]. apply andb_true_intro; split; lia.
Qed.
Lemma in_sub v a w : ivl_sub a w = true -> in_ivl v a = true -> in_ivl v w = true.
Proof.
  unfold in_ivl, ivl_sub. intros H1 H2.
  apply andb_prop in H1. destruct H1 as [H1 H1c]. apply andb_prop in H1. destruct H1 as [H1a H1b].
  apply andb_prop in H2. destruct H2 as [H2 H2c]. apply andb_prop in H2. destruct H2 as [H2a H2b].
  apply Nat.eqb_eq in H1a, H2a. rewrite H2a, H1a, Nat.eqb_refl. cbn [andb]. apply andb_true_intro; split; lia.
Qed.

(* the watched intervals of group g cover every bit through which one block of g feeds another *)
Definition cover_ok (d : design) (g : list nat) (w : fp) : bool :=
  forallb (fun i => forallb (fun j => Nat.eqb i j ||
    forallb (fun a => forallb (fun b => negb (ivl_overlap a b) || existsb (ivl_sub (ivl_inter a b)) w) (rds d j)) (wrs d i)) g) g.

Lemma cover_sound d g w : cover_ok d g w = true -> forall i j v, In i g -> In j g -> i <> j ->
  mem_fp (wrs d i) v = true -> mem_fp (rds d j) v = true -> mem_fp w v = true.
Proof.
  unfold cover_ok, mem_fp. intros H i j v Hi Hj Hne Wv Rv.
  rewrite forallb_forall in H. specialize (H i Hi). rewrite forallb_forall in H. specialize (H j Hj).
  destruct (Nat.eqb_spec i j); [contradiction|]. cbn [orb] in H. rewrite forallb_forall in H.
  apply existsb_exists in Wv, Rv. destruct Wv as [a [Ha Va]]. destruct Rv as [b [Hb Vb]].
  specialize (H a Ha). rewrite forallb_forall in H. specialize (H b Hb).
  assert (O : ivl_overlap a b = true).
  { unfold ivl_overlap, in_ivl in *.
    apply andb_prop in Va. destruct Va as [Va Vac]. apply andb_prop in Va. destruct Va as [Vaa Vab].
    apply andb_prop in Vb. destruct Vb as [Vb Vbc]. apply andb_prop in Vb. destruct Vb as [Vba Vbb].
    apply Nat.eqb_eq in Vaa, Vba. rewrite <- Vaa, <- Vba, Nat.eqb_refl. cbn [andb]. apply andb_true_intro; split; lia. }
  rewrite O in H. cbn [negb orb] in H. apply existsb_exists in H. destruct H as [x [Hx Sx]].
  apply existsb_exists. exists x. split; [exact Hx|]. apply (in_sub v _ x Sx). apply in_inter; assumption.
Qed.

(* all cross-group edges go forward *)
Fixpoint fwd_ok (d : design) (gs : list (list nat)) : bool :=
  match gs with
  | [] => true
  | g :: r => forallb (fun i => forallb (fun j => negb (fp_overlap (wrs d j) (rds d i))) (concat r)) g && fwd_ok d r
  end.

Lemma fwd_sound d gs : fwd_ok d gs = true -> forall g1 g2 pre mid post, gs = pre ++ g1 :: mid ++ g2 :: post ->
  forall i j, In i g1 -> In j g2 -> fp_overlap (wrs d j) (rds d i) = false.
Proof.
  intros H g1 g2 pre. revert gs H. induction pre as [|p pre IH]; intros gs H mid post -> i j Hi Hj.
  - cbn [app fwd_ok] in H. apply andb_prop in H. destruct H as [H _].
    rewrite forallb_forall in H. specialize (H i Hi). rewrite forallb_forall in H.
    assert (In j (concat (mid ++ g2 :: post))).
    { apply in_concat. exists g2. split; [apply in_or_app; right; left; reflexivity|exact Hj]. }
    specialize (H j H0). destruct (fp_overlap (wrs d j) (rds d i)); [discriminate|reflexivity].
  - cbn [app fwd_ok] in H. apply andb_prop in H. destruct H as [_ H].
    apply (IH _ H mid post eq_refl i j Hi Hj).
Qed.

Definition groups_ok (d : design) (gs : list (list nat)) (wfp : list nat -> fp) : bool :=
  wf_design d && perm_b d (concat gs) && sw_ok d && nsl_ok d && fwd_ok d gs &&
  forallb (fun g => is_single g || cover_ok d g (wfp g)) gs.

Section GroupEndToEnd.
Context {val : Type}.
Variable d : design.
Variable R : nat -> env bit val -> env bit val.
Variable gs : list (list nat).
Variable wfp : list nat -> fp.
Variable stable : list nat -> env bit val -> env bit val -> bool.
Variable fuel : nat.
Hypothesis stable_sound : forall g e e', stable g e e' = true -> forall v, mem_fp (wfp g) v = true -> e v = e' v.
Hypothesis Hframe : forall i, In i (ids d) -> frame (Bd d R i).
Hypothesis Hsdep  : forall i, In i (ids d) -> sdep (Bd d R i).
Hypothesis Hok : groups_ok d gs wfp = true.

(* C11: an accepted grouped schedule (cyclic groups iterated until the watched objects are stable, with any
   iteration bound) returns only states in which no block of the design, if run again, changes anything *)
Theorem accepted_groups_fixed_point e r :
  run_groups (Bd d R) stable fuel gs e = Some r ->
  forall i, In i (ids d) -> fixed_under (Bd d R) i r.
Proof.
  unfold groups_ok in Hok.
  apply andb_prop in Hok. destruct Hok as [H Hcov]. apply andb_prop in H. destruct H as [H Hfwd].
  apply andb_prop in H. destruct H as [H Hnsl]. apply andb_prop in H. destruct H as [H Hsw].
  apply andb_prop in H. destruct H as [Hwf Hperm].
  apply perm_b_spec in Hperm. destruct Hperm as [Hnd Hp].
  assert (Hin : forall k, In k (concat gs) -> In k (ids d)) by (intros k Hk; apply (Permutation_in k Hp Hk)).
  intros Hr i Hi.
  apply (grouped_fixed_point (Bd d R) (fun g => mem_fp (wfp g)) stable stable_sound fuel gs Hnd) with (e := e).
  - intros k Hk. apply Hframe, Hin, Hk.
  - intros k Hk. apply Hsdep, Hin, Hk.
  - intros k Hk. apply (nsl_sound d R Hwf Hnsl k (Hin k Hk)).
  - intros a b v Ha Hb Hne W. apply (sw_sound d R Hwf Hsw a b v (Hin a Ha) (Hin b Hb) Hne W).
  - intros g1 g2 pre mid post Hgs a b v Ha Hb W. cbn in *.
    destruct (mem_fp (rds d a) v) eqn:Rv; [|reflexivity]. exfalso.
    pose proof (fwd_sound d gs Hfwd g1 g2 pre mid post Hgs a b Ha Hb) as F.
    assert (Ia : In a (ids d)).
    { apply Hin. rewrite Hgs. apply in_concat. exists g1. split; [apply in_or_app; right; left; reflexivity|exact Ha]. }
    assert (Ib : In b (ids d)).
    { apply Hin. rewrite Hgs. apply in_concat. exists g2. split; [|exact Hb].
      apply in_or_app; right; right. apply in_or_app; right; left; reflexivity. }
    assert (fp_overlap (wrs d b) (rds d a) = true).
    { apply fp_overlap_spec; [apply (wf_rds d Hwf b Ib)|apply (wf_rds d Hwf a Ia)|exists v; split; assumption]. }
    congruence.
  - intros g Hg Sg a b v Ha Hb Hne W Rv. cbn in *.
    rewrite forallb_forall in Hcov. specialize (Hcov g Hg). rewrite Sg in Hcov. cbn [orb] in Hcov.
    apply (cover_sound d g (wfp g) Hcov a b v Ha Hb Hne W Rv).
  - exact Hr.
  - apply (Permutation_in i (Permutation_sym Hp) Hi).
Qed.

End GroupEndToEnd.
