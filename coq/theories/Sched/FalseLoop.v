(* Sched/FalseLoop.v — C11, false loops: a cyclic group whose bit-level dependency relation is in fact acyclic
   (some order s of the same blocks is a linear extension of it) settles, whenever the iteration returns, on exactly
   the state one pass of the acyclic reference order computes.  Arbitrary designs.  No axioms.  Used by Props/C11.v only. *)
From Coq Require Import ZArith List Bool Arith Lia Permutation.
Import ListNotations.
From PV Require Import Sched.Block Sched.Confluence Sched.SccIter.

Section FalseLoop.
Context {var val : Type}.
Variable B : nat -> blk var val.
Variable group : list nat.
Variable watched : var -> bool.
Variable stable : env var val -> env var val -> bool.
Hypothesis stable_sound : forall e e', stable e e' = true -> forall v, watched v = true -> e v = e' v.
Hypothesis Hnd    : NoDup group.
Hypothesis Hframe : forall i, In i group -> frame (B i).
Hypothesis Hsdep  : forall i, In i group -> sdep (B i).
Hypothesis Hnsl   : forall i, In i group -> nsl (B i).
Hypothesis Hsw    : single_writer B group.
Hypothesis Hcover : forall i j v, In i group -> In j group -> i <> j ->
  wr (B i) v = true -> rd (B j) v = true -> watched v = true.

(* the iteration never touches a variable no block of the group writes *)
Lemma scc_iter_frame fuel : forall e r, scc_iter B group stable fuel e = Some r ->
  forall v, (forall i, In i group -> wr (B i) v = false) -> r v = e v.
Proof.
  induction fuel as [|f IH]; intros e r; cbn [scc_iter]; [discriminate|].
  assert (Hone : forall e0 v, (forall i, In i group -> wr (B i) v = false) -> run_list B group e0 v = e0 v).
  { intros e0 v Hv. apply (run_list_frame B group Hframe group (incl_refl group) e0 v Hv). }
  destruct (stable e (run_list B group e)).
  - intros [= <-] v Hv. apply Hone; exact Hv.
  - intros H v Hv. rewrite (IH _ r H v Hv). apply Hone; exact Hv.
Qed.

(* the acyclic reference: E orders every feeding pair, and s is an order of the same blocks respecting E *)
Variable E : nat -> nat -> bool.
Hypothesis Hnoinv : forall i j, In i group -> In j group -> i <> j -> feeds B i j -> E i j = true.

Theorem false_loop_equals_acyclic_reference s fuel e r :
  Permutation group s -> lin_ext E s ->
  scc_iter B group stable fuel e = Some r -> eqe r (run_list B s e).
Proof.
  intros Hp Hs Hr.
  assert (Hnds : NoDup s) by (apply (Permutation_NoDup Hp Hnd)).
  assert (Hin : incl s group) by (intros x Hx; apply (Permutation_in x (Permutation_sym Hp) Hx)).
  assert (Hall : incl group s) by (intros x Hx; apply (Permutation_in x Hp Hx)).
  apply (fixed_point_unique B group E Hsdep Hnsl Hnoinv s r (run_list B s e) Hnds Hin Hall Hs).
  - intros v Hv. rewrite (scc_iter_frame fuel e r Hr v Hv).
    symmetry. apply (run_list_frame B group Hframe s Hin e v). intros j Hj. apply Hv. apply Hin. exact Hj.
  - intros i Hi. apply (scc_fixed_point B group watched stable stable_sound Hnd Hframe Hsdep Hnsl Hsw Hcover fuel e r Hr i Hi).
  - intros i Hi. apply (topo_fixed_point B group Hframe Hsw E Hsdep Hnsl Hnoinv s Hnds Hin Hs e i (Hall i Hi)).
Qed.

End FalseLoop.

(* non-vacuity: block 0 computes x1 := x0 + 1, block 1 computes x2 := x1 * 2; the group is run in the WRONG order [1;0]
   (as a cyclic-capable scheduler may do inside an SCC) and iterated; the acyclic reference order is [0;1] *)
Definition flB (i : nat) : blk nat nat :=
  match i with
  | 0 => mkBlk (fun v => v =? 0) (fun v => v =? 1) (fun e v => if v =? 1 then e 0 + 1 else e v)
  | 1 => mkBlk (fun v => v =? 1) (fun v => v =? 2) (fun e v => if v =? 2 then e 1 * 2 else e v)
  | _ => mkBlk (fun _ => false) (fun _ => false) (fun e => e)
  end.
Definition flE (i j : nat) : bool := (i =? 0) && (j =? 1).
Definition flStable (e e' : env nat nat) : bool := e 1 =? e' 1.

Lemma fl_in i : In i [1; 0] -> i = 0 \/ i = 1.
Proof. cbn. intros [H|[H|[]]]; auto. Qed.

Lemma false_loop_nonvacuous :
  (forall e e', flStable e e' = true -> forall v, (v =? 1) = true -> e v = e' v) /\
  NoDup [1; 0] /\
  (forall i, In i [1; 0] -> frame (flB i)) /\ (forall i, In i [1; 0] -> sdep (flB i)) /\
  (forall i, In i [1; 0] -> nsl (flB i)) /\ single_writer flB [1; 0] /\
  (forall i j v, In i [1; 0] -> In j [1; 0] -> i <> j -> wr (flB i) v = true -> rd (flB j) v = true -> (v =? 1) = true) /\
  (forall i j, In i [1; 0] -> In j [1; 0] -> i <> j -> feeds flB i j -> flE i j = true) /\
  Permutation [1; 0] [0; 1] /\ lin_ext flE [0; 1] /\
  exists r, scc_iter flB [1; 0] flStable 3 (fun _ => 0) = Some r /\ r 1 = 1 /\ r 2 = 2 /\
            run_list flB [0; 1] (fun _ => 0) 1 = 1 /\ run_list flB [0; 1] (fun _ => 0) 2 = 2 /\
            scc_iter flB [1; 0] flStable 1 (fun _ => 0) = None.
Proof.
  split; [|split; [|split; [|split; [|split; [|split; [|split; [|split; [|split; [|split]]]]]]]]].
  - intros e e' H v Hv. apply Nat.eqb_eq in Hv. subst v. apply Nat.eqb_eq. exact H.
  - repeat constructor; cbn; intuition congruence.
  - intros i Hi e v. destruct (fl_in i Hi) as [-> | ->]; cbn; intros W; rewrite W; reflexivity.
  - intros i Hi e1 e2 H v. destruct (fl_in i Hi) as [-> | ->]; cbn; intros W; rewrite W.
    + rewrite (H 0 eq_refl). reflexivity.
    + rewrite (H 1 eq_refl). reflexivity.
  - intros i Hi v. destruct (fl_in i Hi) as [-> | ->]; cbn; intros R; apply Nat.eqb_eq in R; subst v; reflexivity.
  - intros i j v Hi Hj Hne. destruct (fl_in i Hi) as [-> | ->], (fl_in j Hj) as [-> | ->]; cbn; try congruence;
      intros W; apply Nat.eqb_eq in W; subst v; reflexivity.
  - intros i j v Hi Hj Hne. destruct (fl_in i Hi) as [-> | ->], (fl_in j Hj) as [-> | ->]; cbn; try congruence;
      intros W R; apply Nat.eqb_eq in W; subst v; try reflexivity; discriminate.
  - intros i j Hi Hj Hne [v [W R]]. destruct (fl_in i Hi) as [-> | ->], (fl_in j Hj) as [-> | ->]; cbn in *; try congruence.
    apply Nat.eqb_eq in W. subst v. discriminate.
  - apply perm_swap.
  - cbn. split; [|split; [|exact I]].
    + intros x [<-|[]]. reflexivity.
    + intros x [].
  - eexists. split; [vm_compute; reflexivity|]. vm_compute. repeat split.
Qed.
