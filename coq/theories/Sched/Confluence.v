(* Sched/Confluence.v — schedule independence, fixed point, uniqueness (C01); ff permutation independence (C07).
   All theorems are for arbitrary designs (any number of blocks, any variable/value types). No axioms. *)
From Coq Require Import List Bool Arith Lia Permutation.
Import ListNotations.
From PV Require Import Sched.Block.

Section Confluence.
Context {var val : Type}.
Variable B : nat -> blk var val.
Variable ids : list nat.

Hypothesis Hframe : forall i, In i ids -> frame (B i).
Hypothesis Hdep   : forall i, In i ids -> dep (B i).
Hypothesis Hsw    : single_writer B ids.

Notation runl := (run_list B).

Lemma eqe_refl (e : env var val) : eqe e e.
Proof. intro; reflexivity. Qed.
Lemma eqe_sym (e1 e2 : env var val) : eqe e1 e2 -> eqe e2 e1.
Proof. intros H v; symmetry; apply H. Qed.
Lemma eqe_trans (e1 e2 e3 : env var val) : eqe e1 e2 -> eqe e2 e3 -> eqe e1 e3.
Proof. intros H1 H2 v; rewrite H1; apply H2. Qed.

Lemma run_ext i : In i ids -> forall e1 e2, eqe e1 e2 -> eqe (run (B i) e1) (run (B i) e2).
Proof.
  intros Hi e1 e2 He v. destruct (wr (B i) v) eqn:W.
  - apply (Hdep i Hi); [intros u _; apply He|exact W].
  - rewrite !(Hframe i Hi) by exact W. apply He.
Qed.

Lemma run_list_ext l : incl l ids -> forall e1 e2, eqe e1 e2 -> eqe (runl l e1) (runl l e2).
Proof.
  induction l as [|a l IH]; intros Hl e1 e2 He; cbn [run_list]; [exact He|].
  apply IH; [intros x Hx; apply Hl; right; exact Hx|].
  apply run_ext; [apply Hl; left; reflexivity|exact He].
Qed.

Lemma run_list_app l1 l2 e : runl (l1 ++ l2) e = runl l2 (runl l1 e).
Proof. revert e; induction l1 as [|a l1 IH]; intros e; cbn [run_list app]; [reflexivity|apply IH]. Qed.

(* two blocks that neither feed each other nor write the same variable *)
Definition indep (i j : nat) : Prop :=
  forall v, (wr (B i) v = true -> rd (B j) v = false /\ wr (B j) v = false) /\
            (wr (B j) v = true -> rd (B i) v = false /\ wr (B i) v = false).

Lemma indep_sym i j : indep i j -> indep j i.
Proof. intros H v; destruct (H v); split; assumption. Qed.

Lemma half_commute i j : In i ids -> In j ids -> indep i j ->
  forall e v, wr (B i) v = true -> run (B i) (run (B j) e) v = run (B j) (run (B i) e) v.
Proof.
  intros Hi Hj Hind e v Wi.
  destruct (Hind v) as [H1 _]. destruct (H1 Wi) as [_ Wj].
  rewrite (Hframe j Hj (run (B i) e) v Wj).
  apply (Hdep i Hi); [|exact Wi].
  intros u Hu. apply (Hframe j Hj).
  destruct (wr (B j) u) eqn:Wju; [|reflexivity].
  destruct (Hind u) as [_ H2]. destruct (H2 Wju) as [R W]. destruct Hu as [Hu|Hu]; congruence.
Qed.

Lemma commute i j : In i ids -> In j ids -> indep i j ->
  forall e, eqe (run (B i) (run (B j) e)) (run (B j) (run (B i) e)).
Proof.
  intros Hi Hj Hind e v.
  destruct (wr (B i) v) eqn:Wi.
  - apply half_commute; assumption.
  - destruct (wr (B j) v) eqn:Wj.
    + symmetry. apply half_commute; [assumption|assumption|apply indep_sym; exact Hind|exact Wj].
    + rewrite (Hframe i Hi _ v Wi), (Hframe j Hj _ v Wj), (Hframe j Hj _ v Wj), (Hframe i Hi _ v Wi). reflexivity.
Qed.

Lemma bubble a l1 : In a ids -> incl l1 ids -> (forall x, In x l1 -> indep x a) ->
  forall l2 e, incl l2 ids -> eqe (runl (l1 ++ a :: l2) e) (runl (a :: l1 ++ l2) e).
Proof.
  intros Ha. induction l1 as [|x l1 IH]; intros Hl1 Hind l2 e Hl2; [apply eqe_refl|].
  cbn [app run_list].
  assert (Hx : In x ids) by (apply Hl1; left; reflexivity).
  assert (Hl1' : incl l1 ids) by (intros y Hy; apply Hl1; right; exact Hy).
  eapply eqe_trans.
  - apply IH; [exact Hl1'|intros y Hy; apply Hind; right; exact Hy|exact Hl2].
  - cbn [run_list]. apply run_list_ext.
    + intros y Hy. apply in_app_or in Hy. destruct Hy; [apply Hl1'|apply Hl2]; assumption.
    + apply commute; [exact Ha|exact Hx|]. apply indep_sym. apply Hind. left; reflexivity.
Qed.

(* ---- linear extensions ---- *)
Variable E : nat -> nat -> bool.

Lemma lin_ext_app l1 l2 : lin_ext E (l1 ++ l2) ->
  lin_ext E l1 /\ lin_ext E l2 /\ forall x y, In x l1 -> In y l2 -> E y x = false.
Proof.
  induction l1 as [|a l1 IH]; cbn [app lin_ext]; intros H.
  - split; [exact I|]. split; [exact H|]. intros x y [].
  - destruct H as [Ha Hr]. destruct (IH Hr) as [H1 [H2 H3]]. split; [|split].
    + split; [intros x Hx; apply Ha; apply in_or_app; left; exact Hx|exact H1].
    + exact H2.
    + intros x y [<-|Hx] Hy; [apply Ha; apply in_or_app; right; exact Hy|apply H3; assumption].
Qed.

Lemma lin_ext_remove l1 a l2 : lin_ext E (l1 ++ a :: l2) -> lin_ext E (l1 ++ l2).
Proof.
  induction l1 as [|b l1 IH]; cbn [app lin_ext]; intros H.
  - apply H.
  - destruct H as [Hb Hr]. split; [|apply IH; exact Hr].
    intros x Hx. apply Hb. apply in_app_or in Hx. apply in_or_app. destruct Hx; [left|right; right]; assumption.
Qed.

(* every pair of blocks in which one feeds the other is ordered by E, one way or the other *)
Hypothesis Hconf : forall i j, In i ids -> In j ids -> i <> j -> feeds B i j -> E i j = true \/ E j i = true.

Lemma unordered_indep i j : In i ids -> In j ids -> i <> j -> E i j = false -> E j i = false -> indep i j.
Proof.
  intros Hi Hj Hne E1 E2 v. split; intros W; split.
  - destruct (rd (B j) v) eqn:R; [|reflexivity]. exfalso.
    destruct (Hconf i j Hi Hj Hne) as [H|H]; [exists v; split; assumption|congruence|congruence].
  - apply (Hsw i j v Hi Hj Hne W).
  - destruct (rd (B i) v) eqn:R; [|reflexivity]. exfalso.
    destruct (Hconf j i Hj Hi (not_eq_sym Hne)) as [H|H]; [exists v; split; assumption|congruence|congruence].
  - apply (Hsw j i v Hj Hi (not_eq_sym Hne) W).
Qed.

(* C01 (1): any two linear extensions of the constraint relation compute the same state *)
Theorem topo_confluent : forall s t, NoDup s -> Permutation s t -> incl s ids ->
  lin_ext E s -> lin_ext E t -> forall e, eqe (runl s e) (runl t e).
Proof.
  induction s as [|a s IH]; intros t Hnd Hp Hin Hs Ht e.
  - apply Permutation_nil in Hp. subst t. apply eqe_refl.
  - assert (Hat : In a t) by (apply (Permutation_in a Hp); left; reflexivity).
    destruct (in_split a t Hat) as [t1 [t2 ->]].
    assert (Hp' : Permutation s (t1 ++ t2)) by (apply Permutation_cons_app_inv with a; exact Hp).
    assert (Hndt : NoDup (t1 ++ a :: t2)) by (apply (Permutation_NoDup Hp Hnd)).
    assert (Ha : In a ids) by (apply Hin; left; reflexivity).
    assert (Hs' : incl s ids) by (intros x Hx; apply Hin; right; exact Hx).
    assert (Ht1 : incl t1 ids).
    { intros x Hx. apply Hs'. apply (Permutation_in x (Permutation_sym Hp')). apply in_or_app; left; exact Hx. }
    assert (Ht2 : incl t2 ids).
    { intros x Hx. apply Hs'. apply (Permutation_in x (Permutation_sym Hp')). apply in_or_app; right; exact Hx. }
    destruct Hs as [Hsa Hsr]. inversion Hnd as [|? ? Hnin Hnd']; subst.
    destruct (lin_ext_app t1 (a :: t2) Ht) as [_ [_ H3]].
    eapply eqe_trans; [|apply eqe_sym; apply bubble; [exact Ha|exact Ht1| |exact Ht2]].
    + cbn [run_list]. apply IH; [exact Hnd'|exact Hp'|exact Hs'|exact Hsr|apply lin_ext_remove with a; exact Ht].
    + intros x Hx.
      assert (Hxs : In x s) by (apply (Permutation_in x (Permutation_sym Hp')); apply in_or_app; left; exact Hx).
      assert (Hne : x <> a) by (intros ->; apply Hnin; exact Hxs).
      apply unordered_indep; [apply Ht1; exact Hx|exact Ha|exact Hne|apply Hsa; exact Hxs|].
      apply H3; [exact Hx|left; reflexivity].
Qed.

(* ---- fixed point ---- *)
Hypothesis Hsdep : forall i, In i ids -> sdep (B i).
Hypothesis Hnsl  : forall i, In i ids -> nsl (B i).
(* no inverted pair: a block that feeds another is ordered before it *)
Hypothesis Hnoinv : forall i j, In i ids -> In j ids -> i <> j -> feeds B i j -> E i j = true.

Lemma idem i : In i ids -> forall e, eqe (run (B i) (run (B i) e)) (run (B i) e).
Proof.
  intros Hi e v. destruct (wr (B i) v) eqn:W.
  - apply (Hsdep i Hi); [|exact W]. intros u Ru. apply (Hframe i Hi). apply (Hnsl i Hi u Ru).
  - apply (Hframe i Hi). exact W.
Qed.

Lemma run_list_frame l : incl l ids -> forall e v, (forall j, In j l -> wr (B j) v = false) -> runl l e v = e v.
Proof.
  induction l as [|a l IH]; intros Hl e v H; cbn [run_list]; [reflexivity|].
  rewrite IH; [|intros x Hx; apply Hl; right; exact Hx|intros j Hj; apply H; right; exact Hj].
  apply (Hframe a); [apply Hl; left; reflexivity|apply H; left; reflexivity].
Qed.

(* C01 (2): after a pass in any legal order, re-running any block changes nothing *)
Theorem topo_fixed_point s : NoDup s -> incl s ids -> lin_ext E s ->
  forall e i, In i s -> fixed_under B i (runl s e).
Proof.
  intros Hnd Hin Hs e i Hi.
  destruct (in_split i s Hi) as [s1 [s2 ->]].
  rewrite run_list_app. cbn [run_list]. set (e1 := runl s1 e). set (e2 := run (B i) e1).
  assert (Hiids : In i ids) by (apply Hin; exact Hi).
  assert (Hs2 : incl s2 ids) by (intros x Hx; apply Hin; apply in_or_app; right; right; exact Hx).
  destruct (lin_ext_app s1 (i :: s2) Hs) as [_ [[Hafter _] _]].
  assert (Hne : forall j, In j s2 -> j <> i).
  { intros j Hj ->. apply NoDup_remove_2 in Hnd. apply Hnd. apply in_or_app; right; exact Hj. }
  assert (Hkeep : forall v, rd (B i) v = true \/ wr (B i) v = true -> runl s2 e2 v = e2 v).
  { intros v Hv. apply run_list_frame; [exact Hs2|]. intros j Hj.
    destruct (wr (B j) v) eqn:Wj; [|reflexivity]. exfalso.
    destruct Hv as [Rv|Wv].
    - assert (E j i = true) by (apply Hnoinv; [apply Hs2; exact Hj|exact Hiids|apply Hne; exact Hj|exists v; split; assumption]).
      rewrite (Hafter j Hj) in H. discriminate.
    - pose proof (Hsw j i v (Hs2 j Hj) Hiids (Hne j Hj) Wj). congruence. }
  intro v. destruct (wr (B i) v) eqn:W.
  - rewrite (Hkeep v (or_intror W)).
    transitivity (run (B i) e2 v).
    + apply (Hsdep i Hiids); [|exact W]. intros u Ru. apply Hkeep. left; exact Ru.
    + apply idem. exact Hiids.
  - apply (Hframe i Hiids). exact W.
Qed.

(* C01 (3): the fixed point is unique — it is THE solution of the dataflow equations *)
Theorem fixed_point_unique s e1 e2 : NoDup s -> incl s ids -> incl ids s -> lin_ext E s ->
  (forall v, (forall i, In i ids -> wr (B i) v = false) -> e1 v = e2 v) ->
  (forall i, In i ids -> fixed_under B i e1) -> (forall i, In i ids -> fixed_under B i e2) ->
  eqe e1 e2.
Proof.
  intros Hnd Hin Hall Hs Hunw F1 F2.
  assert (Hpre : forall p q, s = p ++ q -> forall j, In j p -> forall v, wr (B j) v = true -> e1 v = e2 v).
  { induction p as [|i p IH] using rev_ind; intros q Heq j Hj v W; [destruct Hj|].
    rewrite <- app_assoc in Heq. cbn [app] in Heq.
    apply in_app_or in Hj. destruct Hj as [Hj|[<-|[]]]; [apply (IH (i :: q) Heq j Hj v W)|].
    assert (Hi : In i ids) by (apply Hin; rewrite Heq; apply in_or_app; right; left; reflexivity).
    rewrite <- (F1 i Hi v), <- (F2 i Hi v).
    apply (Hsdep i Hi); [|exact W]. intros u Ru.
    destruct (existsb (fun k => wr (B k) u) ids) eqn:Ex.
    - apply existsb_exists in Ex. destruct Ex as [k [Hk Wk]].
      assert (Hki : k <> i) by (intros ->; rewrite (Hnsl i Hi u Ru) in Wk; discriminate).
      assert (Eki : E k i = true) by (apply Hnoinv; [exact Hk|exact Hi|exact Hki|exists u; split; assumption]).
      assert (Hks : In k s) by (apply Hall; exact Hk).
      rewrite Heq in Hks, Hs. apply in_app_or in Hks. destruct Hks as [Hkp|[->|Hkq]].
      + apply (IH (i :: q) Heq k Hkp u Wk).
      + congruence.
      + destruct (lin_ext_app p (i :: q) Hs) as [_ [[Hafter _] _]]. rewrite (Hafter k Hkq) in Eki. discriminate.
    - apply Hunw. intros k Hk. destruct (wr (B k) u) eqn:Wk; [|reflexivity].
      assert (existsb (fun k => wr (B k) u) ids = true) by (apply existsb_exists; exists k; split; assumption). congruence. }
  intro v. destruct (existsb (fun k => wr (B k) v) ids) eqn:Ex.
  - apply existsb_exists in Ex. destruct Ex as [k [Hk Wk]].
    apply (Hpre s [] (eq_sym (app_nil_r s)) k (Hall k Hk) v Wk).
  - apply Hunw. intros k Hk. destruct (wr (B k) v) eqn:Wk; [|reflexivity].
    assert (existsb (fun k => wr (B k) v) ids = true) by (apply existsb_exists; exists k; split; assumption). congruence.
Qed.

End Confluence.

(* ---- C07: flip-flop blocks ---- *)
Section FF.
Context {var val : Type}.
Variable B : nat -> blk var val.
Variable ffs : list nat.
Hypothesis Hframe : forall i, In i ffs -> frame (B i).
Hypothesis Hdep   : forall i, In i ffs -> dep (B i).
Hypothesis Hsw    : single_writer B ffs.
(* an update_ff block only writes next-values, which no update_ff block reads *)
Hypothesis Hff : forall i j v, In i ffs -> In j ffs -> i <> j -> wr (B i) v = true -> rd (B j) v = false.

(* every order of the flip-flop blocks gives the same state *)
Theorem ff_perm_indep s t : NoDup s -> Permutation s t -> incl s ffs ->
  forall e, eqe (run_list B s e) (run_list B t e).
Proof.
  intros Hnd Hp Hin e.
  apply (topo_confluent B ffs Hframe Hdep Hsw (fun _ _ => false)); try assumption.
  - intros i j Hi Hj Hne [v [W R]]. rewrite (Hff i j v Hi Hj Hne W) in R. discriminate.
  - clear. induction s; cbn; [exact I|split; [reflexivity|assumption]].
  - clear. induction t; cbn; [exact I|split; [reflexivity|assumption]].
Qed.

(* edge atomicity: what block i commits is what it computes from the PRE-edge state, wherever it sits in the order *)
Theorem ff_observes_preedge s : NoDup s -> incl s ffs ->
  forall e i v, In i s -> wr (B i) v = true -> run_list B s e v = run (B i) e v.
Proof.
  intros Hnd Hin e i v Hi W.
  destruct (in_split i s Hi) as [s1 [s2 ->]].
  assert (Hp : Permutation (s1 ++ i :: s2) (i :: s1 ++ s2)) by (apply Permutation_sym, Permutation_middle).
  rewrite (ff_perm_indep _ _ Hnd Hp Hin e v). cbn [run_list].
  assert (Hnd' : NoDup (i :: s1 ++ s2)) by (apply (Permutation_NoDup Hp Hnd)).
  inversion Hnd' as [|? ? Hnin _]; subst.
  assert (Hl : incl (s1 ++ s2) ffs).
  { intros x Hx. apply Hin. apply in_app_or in Hx. apply in_or_app. destruct Hx; [left|right; right]; assumption. }
  revert Hl Hnin. generalize (s1 ++ s2) (run (B i) e). clear - Hframe Hsw Hin Hi W.
  induction l as [|a l IH]; intros e0 Hl Hnin; cbn [run_list]; [reflexivity|].
  rewrite IH; [|intros x Hx; apply Hl; right; exact Hx|intros H; apply Hnin; right; exact H].
  apply (Hframe a); [apply Hl; left; reflexivity|].
  assert (a <> i) by (intros ->; apply Hnin; left; reflexivity).
  destruct (wr (B a) v) eqn:Wa; [|reflexivity].
  pose proof (Hsw a i v (Hl a (or_introl eq_refl)) (Hin i Hi) H Wa). congruence.
Qed.

End FF.
