(* Sched/DagAccept.v — certified acceptor for the CONSTRAINT GRAPH itself (not for one observed schedule).

   pymtl3's static schedulers (SimpleSchedulePass with its random tie-break, DynamicSchedulePass without SCCs, the
   mamba passes) return SOME topological order of the constraint set G = top._dag.all_constraints.  If the graph
   orders every pair the footprints require (Accept.Eb), then EVERY linear extension of G — every schedule any
   tie-break could produce — is accepted by Accept.sched_ok, so the theorems about accepted schedules
   (agreement, fixed point, readers after writers) hold for all of them at once.

   The harness supplies, for every required pair, a path of G as a certificate; the acceptor only checks paths
   (consecutive pairs are edges of G, all nodes are block ids) — no reachability computation inside Coq. *)
From Coq Require Import List Arith Bool Lia Permutation ZArith.
Import ListNotations.
From PV Require Import Base.Prelude Sched.Block Sched.Confluence Sched.Accept.

Definition Gb (G : list (nat * nat)) (i j : nat) : bool := pair_in G i j.

Fixpoint path_ok (G : list (nat * nat)) (p : list nat) : bool :=
  match p with
  | a :: r => match r with
              | b :: _ => pair_in G a b && negb (Nat.eqb a b) && path_ok G r
              | [] => true
              end
  | [] => true
  end.

Definition path_from_to (p : list nat) (i j : nat) : bool :=
  match p with
  | a :: _ :: _ => Nat.eqb a i && Nat.eqb (last p O) j
  | _ => false
  end.

(* (written with `if` rather than && / implb: vm_compute is call-by-value, and the path checks are only worth doing for
   the pairs that need them) *)
Definition covered (G : list (nat * nat)) (paths : list (list nat)) (n i j : nat) : bool :=
  existsb (fun p => if path_from_to p i j then (if path_ok G p then forallb (fun x => Nat.ltb x n) p else false) else false) paths.

Definition dag_ok (d : design) (G : list (nat * nat)) (paths : list (list nat)) : bool :=
  wf_design d &&
  forallb (fun i => forallb (fun j => if Eb d i j then covered G paths (nblk d) i j else true) (ids d)) (ids d).

(* position facts *)
Lemma pos_cons_neq a r x : a <> x -> pos (a :: r) x = S (pos r x).
Proof. intros H. cbn [pos]. destruct (Nat.eqb_spec a x); [contradiction|reflexivity]. Qed.

Lemma pos_lin_ext (E : nat -> nat -> bool) o : NoDup o ->
  (forall x y, In x o -> In y o -> E x y = true -> (pos o x < pos o y)%nat) -> lin_ext E o.
Proof.
  induction o as [|a r IH]; intros Hnd H; cbn [lin_ext]; [exact I|].
  inversion Hnd as [|? ? Hn Hnd']; subst. split.
  - intros x Hx. destruct (E x a) eqn:Exa; [|reflexivity]. exfalso.
    specialize (H x a (or_intror Hx) (or_introl eq_refl) Exa).
    cbn [pos] in H. rewrite Nat.eqb_refl in H. lia.
  - apply IH; [exact Hnd'|]. intros x y Hx Hy Exy.
    specialize (H x y (or_intror Hx) (or_intror Hy) Exy).
    assert (a <> x) by (intros ->; contradiction). assert (a <> y) by (intros ->; contradiction).
    rewrite !pos_cons_neq in H by assumption. lia.
Qed.

(* along a path of G the position in any linear extension of G strictly increases *)
Lemma path_pos G o : lin_ext (Gb G) o -> NoDup o -> forall p, path_ok G p = true -> (forall x, In x p -> In x o) ->
  match p with
  | a :: _ :: _ => (pos o a < pos o (last p O))%nat
  | _ => True
  end.
Proof.
  intros L Hnd p. induction p as [|a r IH]; intros Hp Hin; [exact I|].
  destruct r as [|b r']; [exact I|].
  cbn [path_ok] in Hp. apply andb_prop in Hp. destruct Hp as [Hp Hr]. apply andb_prop in Hp. destruct Hp as [Hab Hne].
  assert (Hlt : (pos o a < pos o b)%nat).
  { apply (lin_ext_pos (Gb G) o L Hnd).
    - apply Hin. left. reflexivity.
    - apply Hin. right. left. reflexivity.
    - destruct (Nat.eqb_spec a b); [discriminate|assumption].
    - exact Hab. }
  specialize (IH Hr (fun x Hx => Hin x (or_intror Hx))).
  destruct r' as [|c r''].
  - cbn [last]. exact Hlt.
  - change (last (a :: b :: c :: r'') O) with (last (b :: c :: r'') O). lia.
Qed.

Lemma covered_pos d G paths o i j : perm_b d o = true -> lin_ext_b (Gb G) o = true ->
  covered G paths (nblk d) i j = true -> (pos o i < pos o j)%nat.
Proof.
  intros Hp L C. apply perm_b_spec in Hp. destruct Hp as [Hnd Hp]. apply lin_ext_b_spec in L.
  unfold covered in C. apply existsb_exists in C. destruct C as [p [_ C]].
  destruct (path_from_to p i j) eqn:Hft; [|discriminate]. destruct (path_ok G p) eqn:Hok; [|discriminate].
  rename C into Hlt. rewrite forallb_forall in Hlt.
  assert (Hin : forall x, In x p -> In x o).
  { intros x Hx. apply (Permutation_in x (Permutation_sym Hp)). apply in_seq. specialize (Hlt x Hx). apply Nat.ltb_lt in Hlt. lia. }
  pose proof (path_pos G o L Hnd p Hok Hin) as H.
  unfold path_from_to in Hft. destruct p as [|a [|b r]]; try discriminate.
  apply andb_prop in Hft. destruct Hft as [Ha Hl]. apply Nat.eqb_eq in Ha, Hl. subst a. rewrite Hl in H. exact H.
Qed.

(* the graph acceptor: every linear extension of the accepted graph is an accepted schedule *)
Theorem dag_ok_sound d G paths : dag_ok d G paths = true ->
  forall o, perm_b d o = true -> lin_ext_b (Gb G) o = true -> sched_ok d o = true.
Proof.
  unfold dag_ok. intros H o Hp L. apply andb_prop in H. destruct H as [Hwf H].
  unfold sched_ok. rewrite Hwf, Hp. cbn [andb]. apply lin_ext_b_spec.
  pose proof (perm_b_spec d o Hp) as [Hnd Hpm].
  apply pos_lin_ext; [exact Hnd|]. intros x y Hx Hy Exy.
  rewrite forallb_forall in H.
  assert (Ix : In x (ids d)) by (apply (Permutation_in x Hpm Hx)).
  assert (Iy : In y (ids d)) by (apply (Permutation_in y Hpm Hy)).
  specialize (H x Ix). rewrite forallb_forall in H. specialize (H y Iy). rewrite Exy in H.
  apply (covered_pos d G paths o x y Hp L H).
Qed.

(* end-to-end: all schedules the constraint graph allows compute the same values (C01), for any block semantics
   that respects the footprints *)
Section AllSchedules.
Context {val : Type}.
Variable d : design.
Variable R : nat -> env bit val -> env bit val.
Hypothesis Hsw : sw_ok d = true.
Hypothesis Hframe : forall i, In i (ids d) -> frame (Bd d R i).
Hypothesis Hdep : forall i, In i (ids d) -> dep (Bd d R i).

Theorem dag_all_schedules_agree G paths : dag_ok d G paths = true ->
  forall o1 o2, perm_b d o1 = true -> lin_ext_b (Gb G) o1 = true -> perm_b d o2 = true -> lin_ext_b (Gb G) o2 = true ->
  forall e, eqe (run_list (Bd d R) o1 e) (run_list (Bd d R) o2 e).
Proof.
  intros H o1 o2 P1 L1 P2 L2 e.
  assert (Hwf : wf_design d = true) by (unfold dag_ok in H; apply andb_prop in H; exact (proj1 H)).
  apply (accepted_schedules_agree d R Hwf Hsw Hframe Hdep o1 o2).
  - apply (dag_ok_sound d G paths H o1 P1 L1).
  - apply (dag_ok_sound d G paths H o2 P2 L2).
Qed.
End AllSchedules.

(* readers after writers in EVERY schedule the graph allows (C02) *)
Theorem dag_orders_readers_after_writers d G paths : dag_ok d G paths = true ->
  forall o, perm_b d o = true -> lin_ext_b (Gb G) o = true ->
  (forall a b v, In a (ids d) -> In b (ids d) -> a <> b -> writes_bit d a v -> reads_bit d b v ->
                 pair_in (expl d) b a = false -> (pos o a < pos o b)%nat) /\
  (forall x y, pair_in (expl d) x y = true -> (pos o x < pos o y)%nat).
Proof.
  intros H o P L. pose proof (sched_ok_sound d o (dag_ok_sound d G paths H o P L)) as [_ [_ HH]]. exact HH.
Qed.

(* non-vacuity: three blocks, b0 writes what b2 reads, the graph orders them only through b1 *)
Definition exD3 : design :=
  mkDesign 3 (fun i => match i with 2%nat => [(0%nat, 0%Z, 4%Z)] | _ => [] end)
             (fun i => match i with 0%nat => [(0%nat, 2%Z, 6%Z)] | _ => [] end) [].
Example dag_ok_example :
  dag_ok exD3 [(0, 1); (1, 2)]%nat [[0; 1; 2]%nat] = true /\
  dag_ok exD3 [(0, 1)]%nat [[0; 1; 2]%nat] = false /\
  perm_b exD3 [0; 1; 2]%nat = true /\ lin_ext_b (Gb [(0, 1); (1, 2)]%nat) [0; 1; 2]%nat = true.
Proof. vm_compute. repeat split; reflexivity. Qed.
