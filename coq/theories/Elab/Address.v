(* Elab/Address.v — signal objects as addresses (model M5): a packed top-level signal, a chain of struct-field steps and
   at most one final slice step, every step given by its absolute bit range inside the packed root.
   `walk_rel` is the structural relation pymtl3's checks walk over (same object / ancestor chain / overlapping sibling
   slice, using Connectable._overlap); `ivl_rel` is "the two objects share a bit".  Definitions only.  No axioms. *)
From Coq Require Import ZArith List Bool Arith.
Import ListNotations.
From PV Require Import Sched.Accept.
Open Scope Z_scope.

Inductive step := Fld (lo hi : Z) | Slc (lo hi : Z).
Definition slo (s : step) : Z := match s with Fld l _ | Slc l _ => l end.
Definition shi (s : step) : Z := match s with Fld _ h | Slc _ h => h end.
Definition is_slc (s : step) : bool := match s with Slc _ _ => true | Fld _ _ => false end.
Definition step_eqb (s t : step) : bool :=
  Bool.eqb (is_slc s) (is_slc t) && (slo s =? slo t) && (shi s =? shi t).

Record addr := mkAddr { a_root : nat; a_width : Z; a_chain : list step }.

(* bit range of the object reached by chain c inside the enclosing range [plo, phi) *)
Fixpoint rng_in (plo phi : Z) (c : list step) : Z * Z :=
  match c with [] => (plo, phi) | s :: c' => rng_in (slo s) (shi s) c' end.
Definition ivl_of (a : addr) : ivl :=
  let r := rng_in 0 (a_width a) (a_chain a) in (a_root a, fst r, snd r).
Definition is_top_level (a : addr) : bool := match a_chain a with [] => true | _ => false end.

(* c is a prefix of d: the object c is d itself or one of d's ancestors *)
Fixpoint prefix_b (c d : list step) : bool :=
  match c, d with
  | [], _ => true
  | s :: c', t :: d' => step_eqb s t && prefix_b c' d'
  | _ :: _, [] => false
  end.

(* Connectable._overlap on two slices *)
Definition overlap_py (l1 h1 l2 h2 : Z) : bool := if l1 <=? l2 then l2 <? h1 else l1 <? h2.

(* sibling slices (same parent object, both final steps are slices) that _overlap *)
Fixpoint sib_overlap (c d : list step) : bool :=
  match c, d with
  | s :: c', t :: d' =>
      match c', d', s, t with
      | [], [], Slc l1 h1, Slc l2 h2 => overlap_py l1 h1 l2 h2
      | _, _, _, _ => step_eqb s t && sib_overlap c' d'
      end
  | _, _ => false
  end.

(* the walk of _check_upblk_writes / _resolve_value_connections: same object, ancestor chain (either way), overlapping sibling slice *)
Definition walk_chain (c d : list step) : bool := prefix_b c d || prefix_b d c || sib_overlap c d.
Definition walk_rel (a b : addr) : bool := Nat.eqb (a_root a) (a_root b) && walk_chain (a_chain a) (a_chain b).
(* the two objects denote a common bit *)
Definition ivl_rel (a b : addr) : bool := ivl_overlap (ivl_of a) (ivl_of b).

(* distinct sibling slices that overlap (the one case _check_upblk_writes rejects even inside a single block) *)
Definition same_obj (a b : addr) : bool :=
  Nat.eqb (a_root a) (a_root b) && prefix_b (a_chain a) (a_chain b) && prefix_b (a_chain b) (a_chain a).
Definition sib_slices_rel (a b : addr) : bool :=
  Nat.eqb (a_root a) (a_root b) && sib_overlap (a_chain a) (a_chain b) && negb (same_obj a b).

(* ---- well-formedness (checked by computation on every concrete design) ---- *)
(* every step is a non-empty range inside its parent's range; a slice step is the last one *)
Fixpoint nested (plo phi : Z) (c : list step) : bool :=
  match c with
  | [] => plo <? phi
  | s :: c' => (plo <=? slo s) && (slo s <? shi s) && (shi s <=? phi) &&
               (negb (is_slc s) || match c' with [] => true | _ => false end) && nested (slo s) (shi s) c'
  end.
Definition wf_addr (a : addr) : bool := nested 0 (a_width a) (a_chain a).

(* where two chains diverge under a common parent: two slices may overlap, anything else (two different fields of a
   struct) occupies disjoint ranges *)
Definition disjoint_steps (s t : step) : bool := (shi s <=? slo t) || (shi t <=? slo s).
Fixpoint div_ok (c d : list step) : bool :=
  match c, d with
  | s :: c', t :: d' => if step_eqb s t then div_ok c' d' else (is_slc s && is_slc t) || disjoint_steps s t
  | _, _ => true
  end.
Definition compat (a b : addr) : bool :=
  negb (Nat.eqb (a_root a) (a_root b)) || ((a_width a =? a_width b) && div_ok (a_chain a) (a_chain b)).
Definition wf_universe (U : list addr) : bool :=
  forallb wf_addr U && forallb (fun a => forallb (compat a) U) U.
