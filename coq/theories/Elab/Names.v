(* Elab/Names.v — model of pymtl3's hierarchical naming (property C14).  Definitions only; proofs in NamesProofs.v.

   A design hierarchy is a [node] tree.  Objects are addressed structurally by a [path] (child POSITIONS, list
   element positions, one normalised slice at the end); their printed name is a list of [token]s (".id", "[i]",
   "[lo:hi]"), printed to characters after the root name "s".  [resolve] is the analogue of Python's
   eval(repr(o), {'s': top}): it follows a token list through attribute lookup, list indexing, lazily created
   struct-field signals and (normalising) slicing of Bits signals.

   pymtl3 code modelled:
     NamedObject.__setattr_for_elaborate__   names of attribute children and of elements of (nested) lists
     Signal.__getattr__                      lazily created field signals of a bitstruct-typed signal (incl. list fields)
     Signal.__getitem__                      slice signals x[lo:hi], x[i] == x[i:i+1], slice of slice re-based on the parent
     get_parent_object / get_host_component / get_component_level / get_top_level_signal *)
From Coq Require Import List Bool Arith Ascii String Lia.
From Coq Require Import Decimal DecimalNat.
From PV Require Import Base.Prelude.
Import ListNotations.
Local Open Scope nat_scope.
Local Open Scope list_scope.

(* ------------------------------------------------------------------ hierarchy *)
Inductive node : Type :=
| NComp   (cs : list (string * node))   (* component: attribute name -> child *)
| NIfc    (cs : list (string * node))   (* interface *)
| NMeth                                 (* method port (CallerPort / CalleePort) *)
| NBits   (n : nat)                     (* signal (or field signal) of type Bits n *)
| NStruct (fs : list (string * node))   (* signal (or field signal) of bitstruct type: field name -> NBits | NStruct | NList *)
| NList   (es : list node)              (* Python list of children (may nest); not an object itself *)
| NSlice  (lo hi : nat).                (* slice signal [lo:hi) of a Bits signal; only ever produced by stepping *)

Inductive pstep : Type :=
| PChild (k : nat)        (* k-th attribute child / k-th struct field *)
| PElem  (i : nat)        (* i-th list element *)
| PSlice (lo hi : nat).   (* normalised slice of the Bits signal reached so far *)
Definition path := list pstep.

Inductive token : Type :=
| TDot   (id : string)
| TIdx   (i : nat)
| TSlice (lo hi : nat).

Inductive kind := KComp | KIfc | KMeth | KSig | KList.
Definition kind_of (t : node) : kind :=
  match t with NComp _ => KComp | NIfc _ => KIfc | NMeth => KMeth | NList _ => KList | _ => KSig end.
Definition is_list (t : node) : bool := match t with NList _ => true | _ => false end.
Definition is_comp (t : node) : bool := match t with NComp _ => true | _ => false end.
Definition is_sig  (t : node) : bool := match t with NBits _ | NStruct _ | NSlice _ _ => true | _ => false end.

Definition children (t : node) : option (list (string * node)) :=
  match t with NComp cs | NIfc cs | NStruct cs => Some cs | _ => None end.

(* one structural step: the token it prints and the node it reaches *)
Definition step (t : node) (s : pstep) : option (token * node) :=
  match s with
  | PChild k => match children t with
                | Some cs => match nth_error cs k with Some (id, c) => Some (TDot id, c) | None => None end
                | None => None end
  | PElem i  => match t with
                | NList es => match nth_error es i with Some e => Some (TIdx i, e) | None => None end
                | _ => None end
  | PSlice lo hi => match t with
                | NBits n => if (lo <? hi) && (hi <=? n) then Some (TSlice lo hi, NSlice lo hi) else None
                | _ => None end
  end.

Fixpoint walk (t : node) (p : path) : option (list token * node) :=
  match p with
  | [] => Some ([], t)
  | s :: p' => match step t s with
               | Some (tk, c) => match walk c p' with Some (ts, n) => Some (tk :: ts, n) | None => None end
               | None => None end
  end.

Definition name_of (t : node) (p : path) : list token := match walk t p with Some (ts, _) => ts | None => [] end.
Definition node_at (t : node) (p : path) : option node := match walk t p with Some (_, n) => Some n | None => None end.
(* p addresses an object of t: a component, interface, method port or signal (declared, field, list element or slice) *)
Definition is_object (t : node) (p : path) : bool :=
  match node_at t p with Some n => negb (is_list n) | None => false end.

(* ------------------------------------------------------------------ enumeration of all objects *)
Fixpoint seq_slices_hi (lo hi : nat) : list path :=     (* [lo:lo+1] .. [lo:lo+hi] *)
  match hi with 0 => [] | S h => seq_slices_hi lo h ++ [[PSlice lo (lo + S h)]] end.
Fixpoint slices_from (n lo : nat) : list path :=        (* lo counts down *)
  match lo with 0 => [] | S l => slices_from n l ++ seq_slices_hi l (n - l) end.
Definition slices (n : nat) : list path := slices_from n n.

Fixpoint objects (t : node) : list path :=
  match t with
  | NComp cs | NIfc cs | NStruct cs =>
      [] :: (fix go (k : nat) (l : list (string * node)) : list path :=
               match l with [] => [] | (_, c) :: l' => map (cons (PChild k)) (objects c) ++ go (S k) l' end) 0 cs
  | NList es =>
      (fix go (i : nat) (l : list node) : list path :=
         match l with [] => [] | e :: l' => map (cons (PElem i)) (objects e) ++ go (S i) l' end) 0 es
  | NBits n => [] :: slices n
  | NMeth | NSlice _ _ => [[]]
  end.

(* objects that exist right after construction (before any field / slice is touched) *)
Fixpoint eager (t : node) : list path :=
  match t with
  | NComp cs | NIfc cs =>
      [] :: (fix go (k : nat) (l : list (string * node)) : list path :=
               match l with [] => [] | (_, c) :: l' => map (cons (PChild k)) (eager c) ++ go (S k) l' end) 0 cs
  | NList es =>
      (fix go (i : nat) (l : list node) : list path :=
         match l with [] => [] | e :: l' => map (cons (PElem i)) (eager e) ++ go (S i) l' end) 0 es
  | _ => [[]]
  end.

(* ------------------------------------------------------------------ well-formedness *)
Definition is_ident_char (c : ascii) : bool :=
  let n := nat_of_ascii c in
  ((48 <=? n) && (n <=? 57)) || ((65 <=? n) && (n <=? 90)) || ((97 <=? n) && (n <=? 122)) || (n =? 95).
Definition ident_ok (s : string) : bool :=
  match list_ascii_of_string s with [] => false | cs => forallb is_ident_char cs end.

Fixpoint mem_str (x : string) (l : list string) : bool :=
  match l with [] => false | y :: l' => String.eqb x y || mem_str x l' end.
Fixpoint nodupb (l : list string) : bool :=
  match l with [] => true | x :: l' => negb (mem_str x l') && nodupb l' end.

Fixpoint wf (t : node) : bool :=
  match t with
  | NComp cs | NIfc cs | NStruct cs =>
      nodupb (map fst cs) && forallb ident_ok (map fst cs) &&
      (fix all (l : list (string * node)) : bool := match l with [] => true | (_, c) :: l' => wf c && all l' end) cs
  | NList es => (fix all (l : list node) : bool := match l with [] => true | e :: l' => wf e && all l' end) es
  | NSlice _ _ => false        (* slice nodes are never declared; they only arise from slicing a Bits signal *)
  | _ => true
  end.

(* ------------------------------------------------------------------ resolve = eval of a name *)
Fixpoint find_idx (id : string) (k : nat) (cs : list (string * node)) : option (nat * node) :=
  match cs with
  | [] => None
  | (x, c) :: cs' => if String.eqb id x then Some (k, c) else find_idx id (S k) cs'
  end.

Definition rstep (t : node) (tk : token) : option (pstep * node) :=
  match tk with
  | TDot id => match children t with
               | Some cs => match find_idx id 0 cs with Some (k, c) => Some (PChild k, c) | None => None end
               | None => None end
  | TIdx i => match t with
              | NList es => match nth_error es i with Some e => Some (PElem i, e) | None => None end
              | NBits n => if i <? n then Some (PSlice i (S i), NSlice i (S i)) else None
              | _ => None end
  | TSlice lo hi => match t with
              | NBits n => if (lo <? hi) && (hi <=? n) then Some (PSlice lo hi, NSlice lo hi) else None
              | _ => None end
  end.

(* rp: the path so far, reversed.  Slicing a slice re-bases on the sliced signal and REPLACES the last step. *)
Definition tstep (t : node) (rp : list pstep) (tk : token) : option (node * list pstep) :=
  match t, tk with
  | NSlice a b, TSlice c d =>
      if (c <? d) && (d <=? b - a) then Some (NSlice (a + c) (a + d), PSlice (a + c) (a + d) :: tl rp) else None
  | NSlice a b, TIdx i =>
      if i <? b - a then Some (NSlice (a + i) (S (a + i)), PSlice (a + i) (S (a + i)) :: tl rp) else None
  | _, _ => match rstep t tk with Some (s, c) => Some (c, s :: rp) | None => None end
  end.
Fixpoint run (t : node) (rp : list pstep) (ts : list token) : option (node * list pstep) :=
  match ts with
  | [] => Some (t, rp)
  | tk :: ts' => match tstep t rp tk with Some (c, rp') => run c rp' ts' | None => None end
  end.
(* evaluating to a Python list is not an object *)
Definition resolve_from (t : node) (rp : list pstep) (ts : list token) : option path :=
  match run t rp ts with
  | Some (n, rp') => if is_list n then None else Some (rev rp')
  | None => None
  end.
Definition resolve (t : node) (ts : list token) : option path := resolve_from t [] ts.

(* ------------------------------------------------------------------ printing and tokenising *)
Fixpoint chars_of_uint (d : Decimal.uint) : list ascii :=
  match d with
  | Nil => []
  | D0 d => "0"%char :: chars_of_uint d | D1 d => "1"%char :: chars_of_uint d | D2 d => "2"%char :: chars_of_uint d
  | D3 d => "3"%char :: chars_of_uint d | D4 d => "4"%char :: chars_of_uint d | D5 d => "5"%char :: chars_of_uint d
  | D6 d => "6"%char :: chars_of_uint d | D7 d => "7"%char :: chars_of_uint d | D8 d => "8"%char :: chars_of_uint d
  | D9 d => "9"%char :: chars_of_uint d
  end.
Definition digits (n : nat) : list ascii := chars_of_uint (Nat.to_uint n).

Definition print_token (tk : token) : list ascii :=
  match tk with
  | TDot id => "."%char :: list_ascii_of_string id
  | TIdx i => "["%char :: digits i ++ ["]"%char]
  | TSlice lo hi => "["%char :: digits lo ++ ":"%char :: digits hi ++ ["]"%char]
  end.
Fixpoint print_tokens (ts : list token) : list ascii :=
  match ts with [] => [] | tk :: ts' => print_token tk ++ print_tokens ts' end.
(* repr(o) of the object at path p of the design rooted at t *)
Definition full_name (t : node) (p : path) : string := string_of_list_ascii ("s"%char :: print_tokens (name_of t p)).

Definition digit_of (c : ascii) : option nat :=
  let n := nat_of_ascii c in if (48 <=? n) && (n <=? 57) then Some (n - 48) else None.
Definition dig_step (k acc : nat) : nat := Nat.iter k S (Nat.tail_mul 10 acc).

Inductive tstate :=
| TS0                               (* between tokens *)
| TSId (acc : list ascii)           (* in an identifier; acc reversed *)
| TSLo (nd : bool) (lo : nat)       (* after "[", nd = a digit was seen *)
| TSHi (lo : nat) (nd : bool) (hi : nat).

Definition mk_dot (acc : list ascii) : token := TDot (string_of_list_ascii (rev acc)).
Definition is_nil {A} (l : list A) : bool := match l with [] => true | _ => false end.
Definition ocons (tk : token) (r : option (list token)) : option (list token) :=
  match r with Some l => Some (tk :: l) | None => None end.

Fixpoint tok (st : tstate) (cs : list ascii) : option (list token) :=
  match cs with
  | [] => match st with
          | TS0 => Some []
          | TSId acc => if is_nil acc then None else Some [mk_dot acc]
          | _ => None end
  | c :: cs' =>
      match st with
      | TS0 => if Ascii.eqb c "."%char then tok (TSId []) cs'
               else if Ascii.eqb c "["%char then tok (TSLo false 0) cs' else None
      | TSId acc =>
          if is_ident_char c then tok (TSId (c :: acc)) cs'
          else if is_nil acc then None
          else if Ascii.eqb c "."%char then ocons (mk_dot acc) (tok (TSId []) cs')
          else if Ascii.eqb c "["%char then ocons (mk_dot acc) (tok (TSLo false 0) cs')
          else None
      | TSLo nd lo =>
          match digit_of c with
          | Some d => tok (TSLo true (dig_step d lo)) cs'
          | None => if negb nd then None
                    else if Ascii.eqb c "]"%char then ocons (TIdx lo) (tok TS0 cs')
                    else if Ascii.eqb c ":"%char then tok (TSHi lo false 0) cs'
                    else None
          end
      | TSHi lo nd hi =>
          match digit_of c with
          | Some d => tok (TSHi lo true (dig_step d hi)) cs'
          | None => if nd && Ascii.eqb c "]"%char then ocons (TSlice lo hi) (tok TS0 cs') else None
          end
      end
  end.
Definition tokenize (cs : list ascii) : option (list token) := tok TS0 cs.
(* parse a full repr: the root name "s" followed by tokens *)
Definition parse_name (s : string) : option (list token) :=
  match list_ascii_of_string s with
  | c :: cs => if Ascii.eqb c "s"%char then tokenize cs else None
  | [] => None
  end.

(* ------------------------------------------------------------------ metadata derived from the path *)
Definition is_elem (s : pstep) : bool := match s with PElem _ => true | _ => false end.
Fixpoint drop_elems (r : list pstep) : list pstep :=
  match r with s :: r' => if is_elem s then drop_elems r' else r | [] => [] end.
(* get_parent_object: the enclosing OBJECT (lists are skipped) *)
Definition parent (p : path) : path :=
  match rev p with
  | [] => []
  | PElem _ :: r => rev (tl (drop_elems r))
  | _ :: r => rev r
  end.
(* _dsl.level: number of attribute hops from the top *)
Fixpoint level (p : path) : nat :=
  match p with [] => 0 | PChild _ :: p' => S (level p') | _ :: p' => level p' end.
Fixpoint count_dots (ts : list token) : nat :=
  match ts with [] => 0 | TDot _ :: ts' => S (count_dots ts') | _ :: ts' => count_dots ts' end.

Definition is_comp_at (t : node) (p : path) : bool := match node_at t p with Some n => is_comp n | None => false end.
Definition is_sig_at (t : node) (p : path) : bool := match node_at t p with Some n => is_sig n | None => false end.
(* get_host_component: follow get_parent_object until a component is reached *)
Fixpoint host_fuel (t : node) (fuel : nat) (p : path) : path :=
  match fuel with
  | 0 => p
  | S f => if is_comp_at t p then p else host_fuel t f (parent p)
  end.
Definition host (t : node) (p : path) : path := host_fuel t (S (length p)) p.
(* get_top_level_signal: the declared signal a field / slice signal belongs to = the outermost signal on the path *)
Fixpoint tls_from (t : node) (rpre : list pstep) (p : path) : option path :=
  if is_sig t then Some (rev rpre)
  else match p with
       | [] => None
       | s :: p' => match step t s with Some (_, c) => tls_from c (s :: rpre) p' | None => None end
       end.
Definition top_level_signal (t : node) (p : path) : option path := tls_from t [] p.

(* ------------------------------------------------------------------ checking an observation (used by harness/c14.py) *)
Definition token_eqb (a b : token) : bool :=
  match a, b with
  | TDot x, TDot y => String.eqb x y
  | TIdx i, TIdx j => i =? j
  | TSlice a1 b1, TSlice a2 b2 => (a1 =? a2) && (b1 =? b2)
  | _, _ => false
  end.
Fixpoint tokens_eqb (a b : list token) : bool :=
  match a, b with
  | [], [] => true
  | x :: a', y :: b' => token_eqb x y && tokens_eqb a' b'
  | _, _ => false
  end.
Definition kind_code (k : kind) : nat := match k with KComp => 0 | KIfc => 1 | KMeth => 2 | KSig => 3 | KList => 4 end.

(* what the harness saw for one object *)
Record obs := mkObs {
  o_name   : string;            (* repr(o) *)
  o_kind   : nat;               (* 0 component 1 interface 2 method port 3 signal *)
  o_parent : option string;     (* repr(o.get_parent_object()); None for the top *)
  o_level  : option nat;        (* o._dsl.level when the attribute exists *)
  o_host   : option string;     (* repr(o.get_host_component()) for connectables *)
  o_tls    : option string      (* repr(o.get_top_level_signal()) for signals *)
}.

Definition opt_name_is (t : node) (o : option string) (q : path) : bool :=
  match o with
  | None => true
  | Some s => match parse_name s with Some ts => tokens_eqb ts (name_of t q) | None => false end
  end.

Definition obs_ok (t : node) (o : obs) : bool :=
  match parse_name (o_name o) with
  | None => false
  | Some ts =>
    match resolve t ts with
    | None => false
    | Some p =>
      is_object t p && tokens_eqb (name_of t p) ts && String.eqb (full_name t p) (o_name o) &&
      (match node_at t p with Some n => kind_code (kind_of n) =? o_kind o | None => false end) &&
      (match o_parent o with None => is_nil p | Some _ => negb (is_nil p) && opt_name_is t (o_parent o) (parent p) end) &&
      (match o_level o with None => true | Some l => (l =? level p) && (l =? count_dots ts) end) &&
      (match o_host o with None => true | Some _ => opt_name_is t (o_host o) (host t p) && is_comp_at t (host t p) end) &&
      (match o_tls o with None => true
       | Some _ => match top_level_signal t p with Some q => opt_name_is t (o_tls o) q | None => false end end)
    end
  end.

(* every object that must exist after construction was reported *)
Definition eager_seen (t : node) (os : list obs) : bool :=
  forallb (fun p => existsb (fun o => String.eqb (o_name o) (full_name t p)) os) (eager t).
Definition names_distinct (os : list obs) : bool := nodupb (map o_name os).

Definition design_ok (c : node * list obs) : bool :=
  let '(t, os) := c in
  is_comp t && wf t && forallb (obs_ok t) os && eager_seen t os && names_distinct os.
