(* Elab/DefectsProofs.v — (a) walk_iff_perbit: the structural walk of the implementation flags a pair of signal objects iff
   their bit intervals intersect; (b) defect_order_indep: the decision (bit-level and faithful alike) does not depend on the
   order of the update-block facts, on the order of the connect statements, or on which side of a connect statement a
   signal is written; (c) elab_complete_refuted: witness for the over-rejection of the faithful model.  No axioms. *)
From Coq Require Import ZArith List Bool Arith Lia Permutation.
Import ListNotations.
From PV Require Import Sched.Accept Elab.Nets Elab.NetsProofs Elab.Address Elab.AddressProofs Elab.Defects.

(* ------------------------------------------------------------------ (a) *)
Theorem walk_iff_perbit a b : wf_addr a = true -> wf_addr b = true -> compat a b = true ->
  (walk_rel a b = true <-> exists v, in_ivl v (ivl_of a) = true /\ in_ivl v (ivl_of b) = true).
Proof. exact (walk_iff_shared_bit a b). Qed.

(* for every two objects of a design whose address universe is well-formed *)
Theorem walk_iff_perbit_design D n m : wf_design_addrs D = true ->
  walk_rel (adr D n) (adr D m) = ivl_rel (adr D n) (adr D m).
Proof.
  unfold wf_design_addrs. intros W.
  assert (G : forall k, In (adr D k) (s_addr dflt_sig :: map s_addr (d_sigs D))).
  { intros k. unfold adr, sig. destruct (nth_in_or_default k (d_sigs D) dflt_sig) as [Hin|Hd].
    - right. apply in_map. exact Hin.
    - left. rewrite Hd. reflexivity. }
  apply (walk_iff_overlap_universe _ _ _ W); apply G.
Qed.

(* ------------------------------------------------------------------ generic list facts *)
Definition leq {A} (l l' : list A) : Prop := forall x, In x l <-> In x l'.

Lemma existsb_cong {A} (f g : A -> bool) l l' :
  leq l l' -> (forall x, In x l -> f x = g x) -> existsb f l = existsb g l'.
Proof.
  intros Hl Hf. apply eq_true_iff_eq. rewrite !existsb_exists. split.
  - intros [x [Hx H]]. exists x. split; [apply Hl; exact Hx|]. rewrite <- (Hf x Hx). exact H.
  - intros [x [Hx H]]. apply Hl in Hx. exists x. split; [exact Hx|]. rewrite (Hf x Hx). exact H.
Qed.

Lemma existsb_parts (f g : list node -> bool) p q :
  parts_equiv p q -> (forall c c', set_eq c c' -> f c = g c') -> existsb f p = existsb g q.
Proof.
  intros [H1 H2] Hf. apply eq_true_iff_eq. rewrite !existsb_exists. split.
  - intros [c [Hc H]]. destruct (H1 c Hc) as [c' [Hc' Hs]]. exists c'. split; [exact Hc'|]. rewrite <- (Hf c c' Hs). exact H.
  - intros [c [Hc H]]. destruct (H2 c Hc) as [c' [Hc' Hs]]. exists c'. split; [exact Hc'|].
    rewrite (Hf c' c); [exact H|]. intros x. specialize (Hs x). tauto.
Qed.

Lemma memn_set_eq x c c' : set_eq c c' -> memn x c = memn x c'.
Proof. intros H. apply eq_true_iff_eq. rewrite !memn_In. apply H. Qed.

Lemma leq_refl {A} (l : list A) : leq l l.
Proof. intros x. tauto. Qed.

Lemma leq_app {A} (a a' b b' : list A) : leq a a' -> leq b b' -> leq (a ++ b) (a' ++ b').
Proof. intros H1 H2 x. rewrite !in_app_iff. specialize (H1 x). specialize (H2 x). tauto. Qed.

Lemma leq_nil {A} (l : list A) : leq [] l -> l = [].
Proof. intros H. destruct l as [|x l]; [reflexivity|]. exfalso. apply (proj2 (H x)). left. reflexivity. Qed.

(* ------------------------------------------------------------------ the two descriptions agree on the tables *)
Section Equiv.
Variables (O : opts) (D D' : design).
Hypothesis HE : design_equiv D D'.

Let Hp : d_par D = d_par D' := proj1 HE.
Let Hs : d_sigs D = d_sigs D' := proj1 (proj2 HE).
Let Hw : leq (d_wr D) (d_wr D') := proj1 (proj2 (proj2 HE)).
Let Hr : leq (d_rd D) (d_rd D') := proj1 (proj2 (proj2 (proj2 HE))).
Let Hc : conn_equiv (d_conn D) (d_conn D') := proj2 (proj2 (proj2 (proj2 HE))).

Lemma kind_eq n : kind D n = kind D' n. Proof. unfold kind, sig. rewrite Hs. reflexivity. Qed.
Lemma host_eq n : host D n = host D' n. Proof. unfold host, sig. rewrite Hs. reflexivity. Qed.
Lemma adr_eq n : adr D n = adr D' n. Proof. unfold adr, sig. rewrite Hs. reflexivity. Qed.
Lemma parent_eq c : parent D c = parent D' c. Proof. unfold parent. rewrite Hp. reflexivity. Qed.
Lemma all_nodes_eq : all_nodes D = all_nodes D'. Proof. unfold all_nodes. rewrite Hs. reflexivity. Qed.

(* ---- 1. operators *)
Lemma op_defect_eq : op_defect D = op_defect D'.
Proof.
  unfold op_defect.
  rewrite (existsb_cong (fun w => w_ff w && negb (is_shl (w_op w))) (fun w => w_ff w && negb (is_shl (w_op w))) _ _ Hw) by reflexivity.
  rewrite (existsb_cong (fun w => w_ff w && negb (is_top_level (adr D (w_node w))))
                        (fun w => w_ff w && negb (is_top_level (adr D' (w_node w)))) _ _ Hw)
    by (intros w _; rewrite adr_eq; reflexivity).
  rewrite (existsb_cong (fun w => negb (w_ff w) && negb (is_at (w_op w))) (fun w => negb (w_ff w) && negb (is_at (w_op w))) _ _ Hw) by reflexivity.
  reflexivity.
Qed.

(* ---- 2. the connection graph *)
Lemma in_edges C a b : In (a, b) (map (fun c => (c_a c, c_b c)) C) <-> exists h, In (mkC a b h) C.
Proof.
  rewrite in_map_iff. split.
  - intros [[x y h] [He Hin]]. cbn in He. inversion He; subst. exists h. exact Hin.
  - intros [h Hin]. exists (mkC a b h). split; [reflexivity|exact Hin].
Qed.

Lemma edges_eqv : edges_equiv (edges D) (edges D').
Proof.
  assert (G : forall C C', conn_equiv C C' -> forall a b, In (a, b) (map (fun c => (c_a c, c_b c)) C) ->
             In (a, b) (map (fun c => (c_a c, c_b c)) C') \/ In (b, a) (map (fun c => (c_a c, c_b c)) C')).
  { intros C C' Q a b H. apply in_edges in H. destruct H as [h H].
    destruct (proj1 (Q a b h) (or_introl H)) as [H'|H']; [left|right]; apply in_edges; exists h; exact H'. }
  assert (Hc' : conn_equiv (d_conn D') (d_conn D)) by (intros a b h; specialize (Hc a b h); tauto).
  unfold edges. intros a b. split; intros [H|H].
  - exact (G _ _ Hc a b H).
  - destruct (G _ _ Hc b a H); auto.
  - exact (G _ _ Hc' a b H).
  - destruct (G _ _ Hc' b a H); auto.
Qed.

Lemma nets_eqv : parts_equiv (components (edges D)) (components (edges D')).
Proof. apply components_equiv. exact edges_eqv. Qed.

Lemma same_b_sym p x y : same_b p x y = same_b p y x.
Proof. unfold same_b. apply existsb_cong; [apply leq_refl|]. intros c _. apply andb_comm. Qed.

Lemma remove_und_sym a b E : remove_und a b E = remove_und b a E.
Proof.
  unfold remove_und. apply filter_ext. intros e. f_equal. unfold is_und. apply orb_comm.
Qed.

Definition loop_at (E : list edge) (e : edge) : bool :=
  negb (Nat.eqb (fst e) (snd e)) && same_b (components (remove_und (fst e) (snd e) E)) (fst e) (snd e).

Lemma loop_at_swap E a b : loop_at E (a, b) = loop_at E (b, a).
Proof. unfold loop_at. cbn [fst snd]. rewrite (Nat.eqb_sym a b), (remove_und_sym a b E), same_b_sym. reflexivity. Qed.

Lemma loop_at_eqv E E' e : edges_equiv E E' -> loop_at E e = loop_at E' e.
Proof.
  intros Q. unfold loop_at. f_equal. apply same_b_equiv. apply remove_und_equiv. exact Q.
Qed.

Lemma conn_loop_eqv E E' : edges_equiv E E' -> conn_loop E = conn_loop E'.
Proof.
  intros Q. change (existsb (loop_at E) E = existsb (loop_at E') E').
  assert (G : forall F F', edges_equiv F F' -> existsb (loop_at F) F = true -> existsb (loop_at F') F' = true).
  { intros F F' QF H. apply existsb_exists in H. destruct H as [[a b] [Hin Ht]]. apply existsb_exists.
    rewrite (loop_at_eqv F F' (a, b) QF) in Ht.
    destruct (proj1 (QF a b) (or_introl Hin)) as [H|H].
    - exists (a, b). split; assumption.
    - exists (b, a). split; [exact H|]. rewrite <- loop_at_swap. exact Ht. }
  apply eq_true_iff_eq. split; apply G; [exact Q|apply edges_equiv_sym; exact Q].
Qed.

(* ---- 3. nets and their drivers *)
Lemma base_eqv : leq (base D) (base D').
Proof.
  unfold base. apply leq_app.
  - intros x. rewrite !in_map_iff. split; intros [w [E H]]; exists w; (split; [exact E|apply Hw; exact H]).
  - rewrite all_nodes_eq. intros x. rewrite !filter_In, kind_eq, host_eq. tauto.
Qed.

Lemma cand_cong R R' net net' m : leq R R' -> set_eq net net' -> cand O D R net m = cand O D' R' net' m.
Proof.
  intros HR Hn. unfold cand. rewrite kind_eq. f_equal; [f_equal|].
  - apply existsb_cong; [exact base_eqv|]. intros d _. rewrite !adr_eq. reflexivity.
  - apply existsb_cong; [exact HR|]. intros r _. rewrite !adr_eq, (memn_set_eq r net net' Hn). reflexivity.
Qed.

Lemma has_cand_cong R R' net net' : leq R R' -> set_eq net net' ->
  existsb (cand O D R net) net = existsb (cand O D' R' net') net'.
Proof. intros HR Hn. apply existsb_cong; [exact Hn|]. intros m _. apply cand_cong; assumption. Qed.

Lemma fresh_eqv N N' R R' : parts_equiv N N' -> leq R R' -> leq (fresh O D N R) (fresh O D' N' R').
Proof.
  assert (G : forall (A B : design) (P P' : list (list node)) (S S' : list node),
            (forall net net' m, set_eq net net' -> cand O A S net m = cand O B S' net' m) ->
            (forall net net', set_eq net net' -> existsb (cand O A S net) net = existsb (cand O B S' net') net') ->
            leq S S' ->
            (forall c, In c P -> exists c', In c' P' /\ set_eq c c') ->
            forall x, In x (fresh O A P S) -> In x (fresh O B P' S')).
  { intros A B P P' S S' Hcand Hhas HS HP x Hx. unfold fresh in *. apply in_flat_map in Hx. destruct Hx as [net [Hnet Hx]].
    destruct (HP net Hnet) as [net' [Hnet' Hse]]. apply in_flat_map. exists net'. split; [exact Hnet'|].
    rewrite <- (Hhas net net' Hse). destruct (existsb (cand O A S net) net); [|destruct Hx].
    apply filter_In in Hx. destruct Hx as [Hin Hp2]. apply filter_In. split; [apply Hse; exact Hin|].
    rewrite <- (Hcand net net' x Hse).
    assert (memn x S = memn x S') as <- by (apply eq_true_iff_eq; rewrite !memn_In; apply HS). exact Hp2. }
  intros [P1 P2] HR x. split.
  - apply G; [intros; apply cand_cong; assumption|intros; apply has_cand_cong; assumption|exact HR|exact P1].
  - apply G; [| |intros y; specialize (HR y); tauto|exact P2].
    + intros net net' m Hse. symmetry. apply cand_cong; [exact HR|intros y; specialize (Hse y); tauto].
    + intros net net' Hse. symmetry. apply has_cand_cong; [exact HR|intros y; specialize (Hse y); tauto].
Qed.

Lemma iter_eqv N N' : parts_equiv N N' -> forall n R R', leq R R' -> leq (iter O D N n R) (iter O D' N' n R').
Proof.
  intros HN. induction n as [|k IH]; intros R R' HR; cbn [iter]; [exact HR|].
  pose proof (fresh_eqv N N' R R' HN HR) as HF.
  destruct (fresh O D N R) as [|f F] eqn:E1; destruct (fresh O D' N' R') as [|f' F'] eqn:E2.
  - exact HR.
  - apply leq_nil in HF. discriminate.
  - assert (HF' : leq [] (f :: F)) by (intros y; specialize (HF y); tauto). apply leq_nil in HF'. discriminate.
  - apply IH. apply leq_app; assumption.
Qed.

Lemma driven_final_eqv N N' : parts_equiv N N' -> leq (driven_final O D N) (driven_final O D' N').
Proof. intros HN. unfold driven_final. rewrite Hs. apply iter_eqv; [exact HN|apply leq_refl]. Qed.

Lemma two_cands_cong R R' net net' : leq R R' -> set_eq net net' -> two_cands O D R net = two_cands O D' R' net'.
Proof.
  intros HR Hn. unfold two_cands. apply existsb_cong; [exact Hn|]. intros m1 _.
  rewrite (cand_cong R R' net net' m1 HR Hn). f_equal.
  apply existsb_cong; [exact Hn|]. intros m2 _. rewrite (cand_cong R R' net net' m2 HR Hn). reflexivity.
Qed.

Lemma net_multi_eqv N N' R R' : parts_equiv N N' -> leq R R' -> net_multi O D N R = net_multi O D' N' R'.
Proof. intros HN HR. unfold net_multi. apply existsb_parts; [exact HN|]. intros c c' Hse. apply two_cands_cong; assumption. Qed.

Lemma net_none_eqv N N' R R' : parts_equiv N N' -> leq R R' -> net_none O D N R = net_none O D' N' R'.
Proof.
  intros HN HR. unfold net_none. apply existsb_parts; [exact HN|]. intros c c' Hse. f_equal. apply has_cand_cong; assumption.
Qed.

(* ---- 4./5. update blocks *)
Lemma blk_multi_eq : blk_multi O D = blk_multi O D'.
Proof.
  unfold blk_multi. apply existsb_cong; [exact Hw|]. intros w1 _. apply existsb_cong; [exact Hw|]. intros w2 _.
  rewrite !adr_eq. reflexivity.
Qed.

Lemma port_upblk_eq : port_upblk D = port_upblk D'.
Proof.
  unfold port_upblk. f_equal.
  - apply existsb_cong; [exact Hr|]. intros r _. rewrite kind_eq, host_eq. reflexivity.
  - apply existsb_cong; [exact Hw|]. intros w _. rewrite kind_eq, !host_eq, parent_eq. reflexivity.
Qed.

(* ---- 6. port rules along the nets *)
Lemma edge_defect_eq u v h : edge_defect D u v h = edge_defect D' u v h.
Proof. unfold edge_defect. rewrite !kind_eq, !host_eq, !parent_eq. reflexivity. Qed.

Lemma in_class_of N a x : In x (class_of N a) <-> same N a x.
Proof.
  unfold class_of, same. rewrite in_concat. split.
  - intros [c [Hcf Hx]]. apply filter_In in Hcf. destruct Hcf as [Hcin Ha]. apply memn_In in Ha. exists c. auto.
  - intros [c [Hcin [Ha Hx]]]. exists c. split; [|exact Hx]. apply filter_In. split; [exact Hcin|apply memn_In; exact Ha].
Qed.

(* the classes of the components of an edge list are disjoint, so "same" is transitive on them *)
Lemma class_of_comp_eqv E E' a b : edges_equiv E E' -> same (components E) a b ->
  set_eq (class_of (components E) a) (class_of (components E') b).
Proof.
  intros Q Hab x. rewrite !in_class_of, <- (same_parts_equiv _ _ b x (components_equiv E E' Q)). split.
  - intros Hax. apply same_trans_comp with a; [apply same_sym; exact Hab|exact Hax].
  - intros Hbx. apply same_trans_comp with b; assumption.
Qed.

Lemma on_side_cong E E' R R' C1 C2 a b x :
  edges_equiv E E' -> leq R R' -> same (components E) a b -> (forall w, same_b C1 w x = same_b C2 w x) ->
  on_side O D (components E) R C1 a x = on_side O D' (components E') R' C2 b x.
Proof.
  intros Q HR Hab HC. unfold on_side. pose proof (class_of_comp_eqv E E' a b Q Hab) as Hcl.
  apply existsb_cong; [exact Hcl|]. intros w _. rewrite (cand_cong R R' _ _ w HR Hcl), HC. reflexivity.
Qed.

Lemma conn_viol_cong R R' k a b h : leq R R' -> In (mkC a b h) (d_conn D) ->
  conn_viol O D (components (edges D)) R k (mkC a b h) = conn_viol O D' (components (edges D')) R' k (mkC a b h) /\
  conn_viol O D (components (edges D)) R k (mkC a b h) = conn_viol O D' (components (edges D')) R' k (mkC b a h).
Proof.
  intros HR Hin.
  assert (Hab : same (components (edges D)) a b).
  { apply components_edge. unfold edges. apply in_edges. exists h. exact Hin. }
  assert (Haa : same (components (edges D)) a a).
  { destruct Hab as [c [H1 [H2 _]]]. exists c. auto. }
  pose proof edges_eqv as Q.
  assert (HC : forall w x, same_b (components (remove_und a b (edges D))) w x = same_b (components (remove_und a b (edges D'))) w x).
  { intros w x. apply same_b_equiv. apply remove_und_equiv. exact Q. }
  unfold conn_viol. cbn [c_a c_b c_host]. split.
  - rewrite (on_side_cong _ _ R R' _ _ a a a Q HR Haa (fun w => HC w a)).
    rewrite (on_side_cong _ _ R R' _ _ a a b Q HR Haa (fun w => HC w b)).
    rewrite !edge_defect_eq. reflexivity.
  - rewrite (remove_und_sym b a (edges D')).
    rewrite (on_side_cong _ _ R R' _ _ a b a Q HR Hab (fun w => HC w a)).
    rewrite (on_side_cong _ _ R R' _ _ a b b Q HR Hab (fun w => HC w b)).
    rewrite !edge_defect_eq. apply orb_comm.
Qed.

End Equiv.

Lemma design_equiv_sym D D' : design_equiv D D' -> design_equiv D' D.
Proof.
  intros [H1 [H2 [H3 [H4 H5]]]]. unfold design_equiv.
  split; [symmetry; exact H1|]. split; [symmetry; exact H2|].
  split; [intros w; symmetry; apply H3|]. split; [intros r; symmetry; apply H4|].
  intros a b h. symmetry. apply H5.
Qed.

Lemma leq_sym {A} (l l' : list A) : leq l l' -> leq l' l.
Proof. intros H x. specialize (H x). tauto. Qed.

Lemma conn_viol_exists_eqv O D D' R R' k : design_equiv D D' -> leq R R' ->
  existsb (conn_viol O D (components (edges D)) R k) (d_conn D) =
  existsb (conn_viol O D' (components (edges D')) R' k) (d_conn D').
Proof.
  assert (G : forall A B S S', design_equiv A B -> leq S S' ->
            existsb (conn_viol O A (components (edges A)) S k) (d_conn A) = true ->
            existsb (conn_viol O B (components (edges B)) S' k) (d_conn B) = true).
  { intros A B S S' HE HS H. apply existsb_exists in H. destruct H as [[a b h] [Hin Ht]].
    destruct (conn_viol_cong O A B HE S S' k a b h HS Hin) as [E1 E2].
    destruct HE as [_ [_ [_ [_ Hc]]]]. apply existsb_exists.
    destruct (proj1 (Hc a b h) (or_introl Hin)) as [H|H].
    - exists (mkC a b h). split; [exact H|]. rewrite <- E1. exact Ht.
    - exists (mkC b a h). split; [exact H|]. rewrite <- E2. exact Ht. }
  intros HE HR. apply eq_true_iff_eq. split; apply G; try assumption.
  - apply design_equiv_sym. exact HE.
  - apply leq_sym. exact HR.
Qed.

(* ------------------------------------------------------------------ (b) the decision does not depend on statement order *)
Theorem defect_equiv_indep O D D' : design_equiv D D' -> defect_with O D = defect_with O D'.
Proof.
  intros HE. unfold defect_with.
  rewrite (op_defect_eq D D' HE). destruct (op_defect D'); [reflexivity|].
  rewrite (conn_loop_eqv _ _ (edges_eqv D D' HE)). destruct (conn_loop (edges D')); [reflexivity|].
  pose proof (nets_eqv D D' HE) as HN.
  pose proof (driven_final_eqv O D D' HE _ _ HN) as HR.
  cbv zeta.
  rewrite (net_multi_eqv O D D' HE _ _ _ _ HN HR), (blk_multi_eq O D D' HE), (port_upblk_eq D D' HE),
          (net_none_eqv O D D' HE _ _ _ _ HN HR),
          (conn_viol_exists_eqv O D D' _ _ is_portrule HE HR), (conn_viol_exists_eqv O D D' _ _ is_invalidconn HE HR).
  reflexivity.
Qed.

(* ---- the admissible alternatives: empty exactly when the decision accepts, and they contain the decision *)
Theorem defect_alts_spec O D :
  (defect_with O D = None <-> defect_alts O D = []) /\ (forall d, defect_with O D = Some d -> In d (defect_alts O D)).
Proof.
  unfold defect_with, defect_alts, op_defect, op_alts, flag.
  destruct (existsb (fun w => w_ff w && negb (is_shl (w_op w))) (d_wr D));
  destruct (existsb (fun w => w_ff w && negb (is_top_level (adr D (w_node w)))) (d_wr D));
  destruct (existsb (fun w => negb (w_ff w) && negb (is_at (w_op w))) (d_wr D)); cbn [app];
  try (split; [split; discriminate|intros d H; inversion H; cbn; auto]).
  destruct (conn_loop (edges D)); [split; [split; discriminate|intros d H; inversion H; cbn; auto]|].
  cbv zeta.
  repeat match goal with |- context [if ?b then _ else _] => destruct b end; cbn [app];
    (split; [split; (discriminate || reflexivity)|intros d H; inversion H; cbn; auto]).
Qed.

Lemma op_alts_eq D D' : design_equiv D D' -> op_alts D = op_alts D'.
Proof.
  intros HE. pose proof (proj1 (proj2 (proj2 HE))) as Hw. unfold op_alts.
  rewrite (existsb_cong (fun w => w_ff w && negb (is_shl (w_op w))) (fun w => w_ff w && negb (is_shl (w_op w))) _ _ Hw) by reflexivity.
  rewrite (existsb_cong (fun w => w_ff w && negb (is_top_level (adr D (w_node w))))
                        (fun w => w_ff w && negb (is_top_level (adr D' (w_node w)))) _ _ Hw)
    by (intros w _; rewrite (adr_eq D D' HE); reflexivity).
  rewrite (existsb_cong (fun w => negb (w_ff w) && negb (is_at (w_op w))) (fun w => negb (w_ff w) && negb (is_at (w_op w))) _ _ Hw) by reflexivity.
  reflexivity.
Qed.

Theorem defect_alts_equiv_indep O D D' : design_equiv D D' -> defect_alts O D = defect_alts O D'.
Proof.
  intros HE. unfold defect_alts.
  rewrite (op_alts_eq D D' HE). destruct (op_alts D'); [|reflexivity].
  rewrite (conn_loop_eqv _ _ (edges_eqv D D' HE)). destruct (conn_loop (edges D')); [reflexivity|].
  pose proof (nets_eqv D D' HE) as HN.
  pose proof (driven_final_eqv O D D' HE _ _ HN) as HR.
  cbv zeta.
  rewrite (net_multi_eqv O D D' HE _ _ _ _ HN HR), (blk_multi_eq O D D' HE), (port_upblk_eq D D' HE),
          (net_none_eqv O D D' HE _ _ _ _ HN HR),
          (conn_viol_exists_eqv O D D' _ _ is_portrule HE HR), (conn_viol_exists_eqv O D D' _ _ is_invalidconn HE HR).
  reflexivity.
Qed.

(* permutations and side swaps are instances *)
Lemma cflip_conn_equiv : forall C bs, conn_equiv C (cflip_some bs C).
Proof.
  induction C as [|[x y g] r IH]; intros bs a b h; cbn [cflip_some]; [tauto|].
  specialize (IH (tl bs) a b h).
  assert (Hh : (mkC x y g = mkC a b h <-> cswap (mkC x y g) = mkC b a h) /\ (mkC x y g = mkC b a h <-> cswap (mkC x y g) = mkC a b h)).
  { unfold cswap. cbn [c_a c_b c_host]. split; split; intros H; inversion H; reflexivity. }
  destruct Hh as [Hh1 Hh2].
  destruct bs as [|[|] bs']; cbn [tl In] in *; tauto.
Qed.

Lemma perm_leq {A} (l l' : list A) : Permutation l l' -> leq l l'.
Proof. intros P x. split; [apply Permutation_in; exact P|apply Permutation_in; apply Permutation_sym; exact P]. Qed.

Theorem defect_order_indep O par sigs wr wr' rd rd' cn cn' bs :
  Permutation wr' wr -> Permutation rd' rd -> Permutation cn' (cflip_some bs cn) ->
  defect_with O (mkD par sigs wr rd cn) = defect_with O (mkD par sigs wr' rd' cn').
Proof.
  intros Pw Pr Pc. apply defect_equiv_indep. unfold design_equiv. cbn [d_par d_sigs d_wr d_rd d_conn].
  split; [reflexivity|]. split; [reflexivity|].
  split; [apply leq_sym; apply perm_leq; exact Pw|]. split; [apply leq_sym; apply perm_leq; exact Pr|].
  intros a b h. rewrite (cflip_conn_equiv cn bs a b h).
  pose proof (perm_leq _ _ Pc) as L. rewrite (L (mkC a b h)), (L (mkC b a h)). tauto.
Qed.

Corollary bit_level_defect_order_indep par sigs wr wr' rd rd' cn cn' bs :
  Permutation wr' wr -> Permutation rd' rd -> Permutation cn' (cflip_some bs cn) ->
  bit_level_defect (mkD par sigs wr rd cn) = bit_level_defect (mkD par sigs wr' rd' cn').
Proof. apply defect_order_indep. Qed.

(* ------------------------------------------------------------------ (c) the implementation's check over-rejects *)
(* one update block (id 0, host 0) writes s.x[0:5] and s.x[3:8] of an 8-bit wire: every bit has one driver (that block),
   the bit-level decision accepts, the faithful model of _check_upblk_writes reports MultiWriter *)
Definition f6_design : design :=
  mkD [None]
      [mkSig PWire 0%nat (mkAddr 1%nat 8%Z [Slc 0%Z 5%Z]); mkSig PWire 0%nat (mkAddr 1%nat 8%Z [Slc 3%Z 8%Z])]
      [mkW 0%nat 0%nat false 0%nat OpAt; mkW 0%nat 0%nat false 1%nat OpAt] [] [].

Theorem elab_complete_refuted :
  wf_design_addrs f6_design = true /\ bit_level_defect f6_design = None /\ elab_model f6_design = Some MultiWriter.
Proof. vm_compute. repeat split. Qed.

(* ------------------------------------------------------------------ (d) the faithful model of the implementation's checks
   coincides with the bit-level decision on every well-formed design that avoids its two deviations:
   no update block writes two overlapping sibling slices, and no net has two distinct overlapping members *)
Section Opts.
Variable D : design.
Hypothesis W : wf_design_addrs D = true.

Definition good (net : list node) : Prop :=
  forall m r, In m net -> In r net -> r <> m -> ivl_rel (adr D m) (adr D r) = false.

Lemma cand_opts R net m : good net -> In m net -> cand faithful D R net m = cand bitlevel D R net m.
Proof.
  intros G Hm. unfold cand. cbn [o_rel o_samenet_overlap faithful bitlevel].
  f_equal; [f_equal|].
  - apply existsb_cong; [apply leq_refl|]. intros d _. apply walk_iff_perbit_design. exact W.
  - apply existsb_cong; [apply leq_refl|]. intros r _. rewrite (walk_iff_perbit_design D m r W).
    destruct (memn r net) eqn:Mr.
    + apply memn_In in Mr. destruct (Nat.eqb_spec r m) as [->|Hne].
      * cbn [negb]. rewrite !andb_false_r. reflexivity.
      * rewrite (G m r Hm Mr Hne). reflexivity.
    + assert (r <> m) by (intros ->; apply memn_In in Hm; congruence).
      destruct (Nat.eqb_spec r m); [contradiction|]. reflexivity.
Qed.

Lemma has_cand_opts R net : good net -> existsb (cand faithful D R net) net = existsb (cand bitlevel D R net) net.
Proof. intros G. apply existsb_cong; [apply leq_refl|]. intros m Hm. apply cand_opts; assumption. Qed.

Lemma fresh_opts N R : (forall net, In net N -> good net) -> fresh faithful D N R = fresh bitlevel D N R.
Proof.
  unfold fresh. induction N as [|net N IH]; intros HG; cbn [flat_map]; [reflexivity|].
  rewrite IH by (intros n Hn; apply HG; right; exact Hn).
  rewrite (has_cand_opts R net (HG net (or_introl eq_refl))). f_equal.
  destruct (existsb (cand bitlevel D R net) net); [|reflexivity].
  apply filter_ext_in. intros m Hm. rewrite (cand_opts R net m (HG net (or_introl eq_refl)) Hm). reflexivity.
Qed.

Lemma iter_opts N : (forall net, In net N -> good net) -> forall n R, iter faithful D N n R = iter bitlevel D N n R.
Proof.
  intros HG. induction n as [|k IH]; intros R; cbn [iter]; [reflexivity|].
  rewrite (fresh_opts N R HG). destruct (fresh bitlevel D N R); [reflexivity|apply IH].
Qed.

Lemma two_cands_opts R net : good net -> two_cands faithful D R net = two_cands bitlevel D R net.
Proof.
  intros G. unfold two_cands. apply existsb_cong; [apply leq_refl|]. intros m1 H1.
  rewrite (cand_opts R net m1 G H1). f_equal. apply existsb_cong; [apply leq_refl|]. intros m2 H2.
  rewrite (cand_opts R net m2 G H2). reflexivity.
Qed.

Lemma good_class_of E a : (forall net, In net (components E) -> good net) -> good (class_of (components E) a).
Proof.
  intros HG m r Hm Hr Hne. apply in_class_of in Hm, Hr.
  destruct (same_trans_comp E m a r (same_sym _ _ _ Hm) Hr) as [c [Hc [Hmc Hrc]]].
  exact (HG c Hc m r Hmc Hrc Hne).
Qed.

Lemma conn_viol_opts R k c : (forall net, In net (components (edges D)) -> good net) ->
  conn_viol faithful D (components (edges D)) R k c = conn_viol bitlevel D (components (edges D)) R k c.
Proof.
  intros HG. unfold conn_viol, on_side. cbv zeta.
  pose proof (good_class_of (edges D) (c_a c) HG) as Gc.
  assert (E : forall x C', existsb (fun w => cand faithful D R (class_of (components (edges D)) (c_a c)) w && (Nat.eqb w x || same_b C' w x))
                                   (class_of (components (edges D)) (c_a c)) =
                           existsb (fun w => cand bitlevel D R (class_of (components (edges D)) (c_a c)) w && (Nat.eqb w x || same_b C' w x))
                                   (class_of (components (edges D)) (c_a c))).
  { intros x C'. apply existsb_cong; [apply leq_refl|]. intros w Hw. rewrite (cand_opts R _ w Gc Hw). reflexivity. }
  rewrite !E. reflexivity.
Qed.

Theorem elab_iff_partial :
  no_sameblk_sib_overlap D = true -> no_samenet_overlap D = true -> elab_model D = bit_level_defect D.
Proof.
  intros HB HN. unfold elab_model, bit_level_defect, defect_with.
  destruct (op_defect D); [reflexivity|]. destruct (conn_loop (edges D)); [reflexivity|]. cbv zeta.
  assert (HG : forall net, In net (components (edges D)) -> good net).
  { intros net Hnet m r Hm Hr Hne. unfold no_samenet_overlap in HN. rewrite forallb_forall in HN.
    specialize (HN net Hnet). rewrite forallb_forall in HN. specialize (HN m Hm). rewrite forallb_forall in HN.
    specialize (HN r Hr). destruct (Nat.eqb_spec r m); [contradiction|]. cbn [orb] in HN.
    apply negb_true_iff in HN. exact HN. }
  unfold driven_final. rewrite (iter_opts _ HG).
  set (R := iter bitlevel D (components (edges D)) (length (d_sigs D)) []).
  assert (E1 : net_multi faithful D (components (edges D)) R = net_multi bitlevel D (components (edges D)) R).
  { unfold net_multi. apply existsb_cong; [apply leq_refl|]. intros net Hnet. apply two_cands_opts. apply HG. exact Hnet. }
  assert (E2 : blk_multi faithful D = blk_multi bitlevel D).
  { unfold blk_multi. cbn [o_rel o_sameblk_slices faithful bitlevel].
    apply existsb_cong; [apply leq_refl|]. intros w1 H1. apply existsb_cong; [apply leq_refl|]. intros w2 H2.
    rewrite (walk_iff_perbit_design D _ _ W). unfold no_sameblk_sib_overlap in HB. rewrite forallb_forall in HB.
    specialize (HB w1 H1). rewrite forallb_forall in HB. specialize (HB w2 H2). apply negb_true_iff in HB.
    cbn [andb]. rewrite HB. reflexivity. }
  assert (E3 : net_none faithful D (components (edges D)) R = net_none bitlevel D (components (edges D)) R).
  { unfold net_none. apply existsb_cong; [apply leq_refl|]. intros net Hnet. f_equal. apply has_cand_opts. apply HG. exact Hnet. }
  assert (E4 : forall k, existsb (conn_viol faithful D (components (edges D)) R k) (d_conn D) =
                         existsb (conn_viol bitlevel D (components (edges D)) R k) (d_conn D)).
  { intros k. apply existsb_cong; [apply leq_refl|]. intros c _. apply conn_viol_opts. exact HG. }
  rewrite E1, E2, E3, !E4. reflexivity.
Qed.

End Opts.
