(* Elab/Replace.v — design metadata as a name-keyed function of the hierarchy, and component replacement (property C15).
   Definitions only; proofs in ReplaceProofs.v.

   A design is a finite map  component name -> local contribution  (the hierarchy is the prefix order on component
   names; a child slot such as "inner[2]" is one segment).  The whole-design metadata that pymtl3 keeps at the top
   component (all_components, all_signals, all_upblks / update_ff / update_once, all_upblk_reads/writes/calls,
   all_U_U / RD_U / WR_U / M constraints, all_adjacency) is the DISJOINT UNION of the local contributions, every entry
   keyed by names.  replace_component = delete the sub-hierarchy under a name (everything owned there, plus — saved by
   name — the outside entries that refer into it), then add the new sub-hierarchy and re-evaluate the saved names.

   pymtl3 code modelled: Component._delete_component / _add_component / replace_component(_with_obj),
   ComponentLevel1-4._collect_vars / _uncollect_vars, add_connections. *)
From Coq Require Import List Bool Arith Ascii String Lia.
From PV Require Import Base.Prelude.
Import ListNotations.
Local Open Scope nat_scope.
Local Open Scope list_scope.

Definition seg := string.
Definition name := list seg.        (* absolute: from the top component, the root "s" omitted; relative: from a component *)

(* ------------------------------------------------------------------ local contribution of one component *)
Inductive endpoint : Type :=
| ESig (x : name)                   (* a signal / method port, relative to the component executing the connect *)
| EConst (v : string).              (* a constant, printed *)

Inductive mref : Type :=
| MMeth (x : name)                  (* M(s.method_port) *)
| MBlk (b : string).                (* U(blk) *)

Inductive fact : Type :=
| FComp                                             (* the component itself *)
| FSig   (x : name)                                 (* a declared signal (port, wire, incl. those inside its interfaces / lists) *)
| FMeth  (x : name)                                 (* a declared method port *)
| FTouch (x : name)                                 (* a field / list-element signal created as a side effect of referring to a sibling or descendant (x relative to the owner) *)
| FBlk   (b : string) (kind : string)               (* update block; kind "up" | "ff" | "once" *)
| FRead  (b : string) (x : name)
| FWrite (b : string) (x : name)
| FCall  (b : string) (x : name)
| FUU    (b1 b2 : string)                           (* U(b1) < U(b2) *)
| FRDU   (x : name) (sign : string) (b : string)    (* RD(x) < U(b) ("<")  /  U(b) < RD(x) (">") *)
| FWRU   (x : name) (sign : string) (b : string)
| FUUc   (x : name) (b1 : string) (y : name) (b2 : string)   (* U(s.x.get_update_block(b1)) < U(s.y.get_update_block(b2)): declared here over blocks of descendants x, y *)
| FRDUc  (v : name) (sign : string) (h : name) (b : string)    (* RD(v) <> U(block b of descendant h) *)
| FWRUc  (v : name) (sign : string) (h : name) (b : string)
| FM     (m1 m2 : mref) (eq : string)
| FEdge  (x y : endpoint)                           (* connect( x, y ) of value signals / constants *)
| FMEdge (x y : name).                              (* connect( x, y ) of two method ports *)

(* the names a fact refers to (relative to its owner) *)
Definition ep_refs (e : endpoint) : list name := match e with ESig x => [x] | EConst _ => [] end.
Definition mref_refs (m : mref) : list name := match m with MMeth x => [x] | MBlk _ => [] end.
Definition refs (f : fact) : list name :=
  match f with
  | FComp | FBlk _ _ | FUU _ _ => []
  | FSig x | FMeth x | FTouch x | FRead _ x | FWrite _ x | FCall _ x | FRDU x _ _ | FWRU x _ _ => [x]
  | FUUc x _ y _ => [x; y]
  | FRDUc v _ h _ | FWRUc v _ h _ => [v; h]
  | FM m1 m2 _ => mref_refs m1 ++ mref_refs m2
  | FEdge x y => ep_refs x ++ ep_refs y
  | FMEdge x y => [x; y]
  end.

(* a fact together with the component that owns it *)
Definition gfact := (name * fact)%type.
Definition owner (g : gfact) : name := fst g.
Definition abs_refs (g : gfact) : list name := map (app (fst g)) (refs (snd g)).

(* ------------------------------------------------------------------ hierarchy and its metadata *)
Definition hier := list (name * list fact).       (* component name -> local facts; names prefix-closed in a real design *)

Definition meta (H : hier) : list gfact := flat_map (fun cl => map (pair (fst cl)) (snd cl)) H.

Fixpoint seg_list_eqb (a b : name) : bool :=
  match a, b with
  | [], [] => true
  | x :: a', y :: b' => String.eqb x y && seg_list_eqb a' b'
  | _, _ => false
  end.
(* c is a prefix of n: n names c itself or something below it *)
Fixpoint under (c n : name) : bool :=
  match c, n with
  | [], _ => true
  | x :: c', y :: n' => String.eqb x y && under c' n'
  | _ :: _, [] => false
  end.

(* H[c := H']: drop every component under c, graft the replacement (given relative to its own root) at c *)
Definition rebase (c : name) (H' : hier) : hier := map (fun cl => (c ++ fst cl, snd cl)) H'.
Definition subst (H : hier) (c : name) (H' : hier) : hier :=
  filter (fun cl => negb (under c (fst cl))) H ++ rebase c H'.

(* ------------------------------------------------------------------ the replacement algebra on metadata *)
Definition refers_into (c : name) (g : gfact) : bool := existsb (under c) (abs_refs g).
(* what _delete_component + _uncollect_vars must remove: everything owned by the subtree and every entry referring into it *)
Definition delete (M : list gfact) (c : name) : list gfact :=
  filter (fun g => negb (under c (owner g)) && negb (refers_into c g)) M.
(* ... of which the entries owned OUTSIDE are saved by name (connections, parent's block read/write/call sets) *)
Definition saved (M : list gfact) (c : name) : list gfact :=
  filter (fun g => negb (under c (owner g)) && refers_into c g) M.
(* _add_component: collect the new subtree, re-evaluate the saved names *)
Definition add (M : list gfact) (c : name) (H' : hier) (sv : list gfact) : list gfact :=
  M ++ meta (rebase c H') ++ sv.
Definition replace (M : list gfact) (c : name) (H' : hier) : list gfact :=
  add (delete M c) c H' (saved M c).

Definition replace_seq_meta (M : list gfact) (rs : list (name * hier)) : list gfact :=
  fold_left (fun M r => replace M (fst r) (snd r)) rs M.
Definition replace_seq_hier (H : hier) (rs : list (name * hier)) : hier :=
  fold_left (fun H r => subst H (fst r) (snd r)) rs H.

(* the objects a sub-hierarchy declares (what a saved name may be re-evaluated to) *)
Definition declared (M : list gfact) : list name :=
  flat_map (fun g => match snd g with FSig x | FMeth x => [fst g ++ x] | _ => [] end) M.
Definition is_sub_seg (s : seg) : bool :=      (* "[lo:hi]" : a lazily created part of a declared signal *)
  match s with String c _ => Ascii.eqb c "["%char | EmptyString => false end.
Fixpoint mem_name (x : name) (l : list name) : bool :=
  match l with [] => false | y :: l' => seg_list_eqb x y || mem_name x l' end.
Definition resolves (decl : list name) (r : name) : bool :=
  mem_name r decl ||
  match rev r with s :: q => is_sub_seg s && mem_name (rev q) decl | [] => false end.
(* "the replacement exposes the same interface names": every saved reference into the slot exists in the new subtree *)
Definition exposes (c : name) (H' : hier) (sv : list gfact) : bool :=
  forallb (fun g => forallb (fun r => negb (under c r) || resolves (declared (meta (rebase c H'))) r) (abs_refs g)) sv.
(* eval() of a saved name raises when the name does not exist in the new component *)
Definition replace_checked (M : list gfact) (c : name) (H' : hier) : option (list gfact) :=
  if exposes c H' (saved M c) then Some (replace M c H') else None.

Definition set_eq {A} (a b : list A) : Prop := forall x, In x a <-> In x b.

(* ------------------------------------------------------------------ views compared with pymtl3's queryable metadata *)
Definition render_seg (s : seg) : string := if is_sub_seg s then s else String "."%char s.
Definition render (n : name) : string := String "s"%char (String.concat EmptyString (map render_seg n)).
Definition render_ep (o : name) (e : endpoint) : string := match e with ESig x => render (o ++ x) | EConst v => v end.
Definition render_m (o : name) (m : mref) : string := match m with MMeth x => render (o ++ x) | MBlk b => (render o ++ ":" ++ b)%string end.

Definition row := list string.
Definition rows_of (g : gfact) : list row :=
  let o := fst g in
  match snd g with
  | FComp => [["comp"%string; render o]]
  | FSig x => [["sig"%string; render (o ++ x)]]
  | FMeth x => [["meth"%string; render (o ++ x)]]
  | FTouch x => [["sig"%string; render (o ++ x)]]
  | FBlk b k => [["blk"%string; render o; b; k]]
  | FRead b x  => [["rd"%string; render o; b; render (o ++ x)]; ["sig"%string; render (o ++ x)]]
  | FWrite b x => [["wr"%string; render o; b; render (o ++ x)]; ["sig"%string; render (o ++ x)]]
  | FCall b x  => [["call"%string; render o; b; render (o ++ x)]]
  | FUU b1 b2 => [["UU"%string; render o; b1; b2]]
  | FRDU x sg b => [["RDU"%string; render (o ++ x); sg; render o; b]]
  | FWRU x sg b => [["WRU"%string; render (o ++ x); sg; render o; b]]
  | FUUc x b1 y b2 => [["UU"%string; render (o ++ x); b1; b2]]
  | FRDUc v sg h b => [["RDU"%string; render (o ++ v); sg; render (o ++ h); b]]
  | FWRUc v sg h b => [["WRU"%string; render (o ++ v); sg; render (o ++ h); b]]
  | FM m1 m2 e => [["M"%string; render_m o m1; render_m o m2; e]]
  | FMEdge x y => [["adj"%string; render (o ++ x); render (o ++ y)]; ["adj"%string; render (o ++ y); render (o ++ x)]]
  | FEdge x y => [["adj"%string; render_ep o x; render_ep o y]; ["adj"%string; render_ep o y; render_ep o x]] ++
                 map (fun r => ["sig"%string; render (o ++ r)]) (ep_refs x ++ ep_refs y)
  end.
Definition views (M : list gfact) : list row := flat_map rows_of M.

Fixpoint row_eqb (a b : row) : bool :=
  match a, b with
  | [], [] => true
  | x :: a', y :: b' => String.eqb x y && row_eqb a' b'
  | _, _ => false
  end.
Definition row_mem (r : row) (l : list row) : bool := existsb (row_eqb r) l.
Definition rows_subset (a b : list row) : bool := forallb (fun r => row_mem r b) a.
Definition rows_eq (a b : list row) : bool := rows_subset a b && rows_subset b a.
Definition rows_diff (a b : list row) : list row := filter (fun r => negb (row_mem r b)) a.

(* the same comparison bucketed by the leading tag of a row (quadratic only within one kind of row) *)
Definition tags : list string :=
  ["comp"; "sig"; "meth"; "blk"; "rd"; "wr"; "call"; "UU"; "RDU"; "WRU"; "M"; "adj"]%string.
Definition tag_of (r : row) : string := match r with t :: _ => t | [] => EmptyString end.
Definition bucket (t : string) (l : list row) : list row := filter (fun r => String.eqb (tag_of r) t) l.
Definition rows_subset_fast (a b : list row) : bool :=
  forallb (fun r => existsb (String.eqb (tag_of r)) tags) a &&
  forallb (fun t => let bb := bucket t b in forallb (fun r => row_mem r bb) (bucket t a)) tags.
(* names of one design share long prefixes and differ near the end: compare the strings reversed (the tag stays in front) *)
Definition srev (s : string) : string := string_of_list_ascii (rev (list_ascii_of_string s)).
Definition rrow (r : row) : row := match r with t :: rest => t :: map srev rest | [] => [] end.
Definition rows_eq_fast (a b : list row) : bool :=
  let a' := map rrow a in let b' := map rrow b in rows_subset_fast a' b' && rows_subset_fast b' a'.

(* one correspondence case: initial hierarchy, replacement sequence, rows observed on the implementation.
   both = also evaluate the metadata-level algebra (replace_seq_meta), not only meta of the substituted hierarchy *)
Definition case_ok (c : hier * list (name * hier) * list row * bool) : bool :=
  let '(H, rs, obs, both) := c in
  rows_eq_fast (views (meta (replace_seq_hier H rs))) obs &&
  (negb both || rows_eq_fast (views (replace_seq_meta (meta H) rs)) obs).
