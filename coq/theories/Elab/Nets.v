(* Elab/Nets.v — value nets as connected components of the connection graph (model for C08/C09).
   Nodes are nat ids of signal objects (whole signals, slices, struct fields, constants).
   Definitions only (executable); proofs live in NetsProofs.v.  No axioms. *)
From Coq Require Import List Bool Arith.
Import ListNotations.

Definition node := nat.
Definition edge := (node * node)%type.

Definition memn (x : node) (l : list node) : bool := existsb (Nat.eqb x) l.

(* ---- executable: union by merging over the edge list ---- *)
Definition touches (a b : node) (c : list node) : bool := memn a c || memn b c.

(* merge the classes that contain an end point of e into one class *)
Definition merge (p : list (list node)) (e : edge) : list (list node) :=
  concat (filter (touches (fst e) (snd e)) p)
  :: filter (fun c => negb (touches (fst e) (snd e) c)) p.

Definition ends (E : list edge) : list node := flat_map (fun e => [fst e; snd e]) E.
Definition nodes (E : list edge) : list node := nodup Nat.eq_dec (ends E).
Definition singletons (l : list node) : list (list node) := map (fun x => [x]) l.

Definition components (E : list edge) : list (list node) :=
  fold_left merge E (singletons (nodes E)).

(* ---- specification: reflexive-symmetric-transitive closure of the edge list ---- *)
Inductive conn (E : list edge) : node -> node -> Prop :=
| conn_refl  x     : conn E x x
| conn_edge  a b   : In (a, b) E -> conn E a b
| conn_sym   x y   : conn E x y -> conn E y x
| conn_trans x y z : conn E x y -> conn E y z -> conn E x z.

(* x and y lie in a common class of the partition p *)
Definition same (p : list (list node)) (x y : node) : Prop :=
  exists c, In c p /\ In x c /\ In y c.
Definition same_b (p : list (list node)) (x y : node) : bool :=
  existsb (fun c => memn x c && memn y c) p.

(* two edge lists describe the same undirected graph (covers permutation, side swaps, repeated statements) *)
Definition edges_equiv (E E' : list edge) : Prop :=
  forall a b, (In (a, b) E \/ In (b, a) E) <-> (In (a, b) E' \/ In (b, a) E').

Definition swap (e : edge) : edge := (snd e, fst e).
(* swap the sides of the statements selected by the boolean mask *)
Fixpoint flip_some (bs : list bool) (E : list edge) : list edge :=
  match E with
  | [] => []
  | e :: r => (match bs with true :: _ => swap e | _ => e end) :: flip_some (tl bs) r
  end.

(* two partitions are equal as sets of sets *)
Definition set_eq (c c' : list node) : Prop := forall x, In x c <-> In x c'.
Definition parts_equiv (p q : list (list node)) : Prop :=
  (forall c, In c p -> exists c', In c' q /\ set_eq c c') /\
  (forall c, In c q -> exists c', In c' p /\ set_eq c c').

(* ---- certified acceptor: the nets an implementation produced are exactly the components ---- *)
Definition subset_b (a b : list node) : bool := forallb (fun x => memn x b) a.
Definition set_eqb (a b : list node) : bool := subset_b a b && subset_b b a.

Definition nets_ok (E : list edge) (obs : list (list node)) : bool :=
  let cs := components E in
  Nat.eqb (length obs) (length cs) &&
  forallb (fun o => existsb (set_eqb o) cs) obs &&
  forallb (fun c => existsb (set_eqb c) obs) cs.

(* remove every copy of the undirected edge {a,b} *)
Definition is_und (a b : node) (e : edge) : bool :=
  (Nat.eqb (fst e) a && Nat.eqb (snd e) b) || (Nat.eqb (fst e) b && Nat.eqb (snd e) a).
Definition remove_und (a b : node) (E : list edge) : list edge := filter (fun e => negb (is_und a b e)) E.
