(* Elab/NamesProofs.v — theorems about the naming model of Elab/Names.v (property C14).  Unbounded: induction over
   paths / token lists / trees.  No axioms. *)
From Coq Require Import List Bool Arith Ascii String Lia.
From Coq Require Import Decimal DecimalNat DecimalFacts.
From PV Require Import Base.Prelude Elab.Names.
Import ListNotations.
Local Open Scope nat_scope.
Local Open Scope list_scope.

(* ------------------------------------------------------------------ small facts *)
Lemma mem_str_In x l : mem_str x l = true <-> In x l.
Proof.
  induction l as [|y l IH]; cbn; [split; [discriminate|tauto]|].
  rewrite orb_true_iff, IH, String.eqb_eq. split; intros [H|H]; auto.
Qed.
Lemma nodupb_NoDup l : nodupb l = true <-> NoDup l.
Proof.
  induction l as [|x l IH]; cbn; [split; [constructor|auto]|].
  rewrite andb_true_iff, negb_true_iff, IH. split.
  - intros [H1 H2]. constructor; auto. rewrite <- mem_str_In. congruence.
  - intros H; inversion H; subst. split; auto. destruct (mem_str x l) eqn:E; auto. apply mem_str_In in E. tauto.
Qed.

Definition kids_wf (cs : list (string * node)) : bool := forallb (fun ic => wf (snd ic)) cs.
Lemma wf_kids_unfold cs :
  (fix all (l : list (string * node)) : bool := match l with [] => true | (_, c) :: l' => wf c && all l' end) cs = kids_wf cs.
Proof. induction cs as [|[i c] cs IH]; cbn; [reflexivity|]. now rewrite IH. Qed.
Lemma wf_elems_unfold es :
  (fix all (l : list node) : bool := match l with [] => true | e :: l' => wf e && all l' end) es = forallb wf es.
Proof. induction es as [|e es IH]; cbn; [reflexivity|]. now rewrite IH. Qed.

Lemma wf_children t cs : wf t = true -> children t = Some cs ->
  NoDup (map fst cs) /\ forallb ident_ok (map fst cs) = true /\ kids_wf cs = true.
Proof.
  destruct t; cbn; try discriminate; intros H E; inversion E; subst;
    rewrite wf_kids_unfold in H; apply andb_true_iff in H as [H H3]; apply andb_true_iff in H as [H1 H2];
    apply nodupb_NoDup in H1; auto.
Qed.
Lemma wf_list es : wf (NList es) = true -> forallb wf es = true.
Proof. cbn. now rewrite wf_elems_unfold. Qed.

Lemma kids_wf_nth cs k id c : kids_wf cs = true -> nth_error cs k = Some (id, c) -> wf c = true.
Proof.
  unfold kids_wf. rewrite forallb_forall. intros H E. apply nth_error_In in E. apply (H _ E).
Qed.
Lemma forallb_nth {A} (f : A -> bool) l k x : forallb f l = true -> nth_error l k = Some x -> f x = true.
Proof. rewrite forallb_forall. intros H E. apply nth_error_In in E. auto. Qed.

Lemma find_idx_nth cs : forall k j id c, NoDup (map fst cs) -> nth_error cs k = Some (id, c) ->
  find_idx id j cs = Some (j + k, c).
Proof.
  induction cs as [|[x d] cs IH]; intros k j id c ND E; [destruct k; discriminate|].
  cbn in ND. inversion ND as [|? ? Hx ND']; subst. destruct k as [|k]; cbn in *.
  - inversion E; subst. rewrite String.eqb_refl. now rewrite Nat.add_0_r.
  - destruct (String.eqb id x) eqn:Ex.
    + apply String.eqb_eq in Ex; subst. exfalso. apply Hx. apply nth_error_In in E. now apply (in_map fst) in E.
    + rewrite (IH k (S j) id c ND' E). f_equal. f_equal. lia.
Qed.
Lemma find_idx_sound cs : forall j id k c, find_idx id j cs = Some (k, c) ->
  j <= k /\ nth_error cs (k - j) = Some (id, c).
Proof.
  induction cs as [|[x d] cs IH]; intros j id k c E; [discriminate|]. cbn in E.
  destruct (String.eqb id x) eqn:Ex.
  - inversion E; subst. apply String.eqb_eq in Ex; subst. rewrite Nat.sub_diag. now split.
  - apply IH in E as [L E]. split; [lia|]. replace (k - j) with (S (k - S j)) by lia. exact E.
Qed.

(* ------------------------------------------------------------------ step / walk *)
Lemma step_wf t s tk c : wf t = true -> step t s = Some (tk, c) ->
  (wf c = true /\ is_elem s = negb (negb (is_list t)) /\ (forall lo hi, s <> PSlice lo hi)) \/
  (exists n lo hi, t = NBits n /\ s = PSlice lo hi /\ tk = TSlice lo hi /\ c = NSlice lo hi /\ lo < hi <= n).
Proof.
  intros W E. destruct s as [k|i|lo hi]; unfold step in E.
  - destruct (children t) as [cs|] eqn:Ec; [|discriminate].
    destruct (nth_error cs k) as [[id d]|] eqn:En; [|discriminate]. inversion E; subst.
    left. destruct (wf_children _ _ W Ec) as (_ & _ & K). split; [eapply kids_wf_nth; eauto|].
    split; [|intros ? ? Hc; discriminate Hc]. destruct t; cbn in Ec; try discriminate; reflexivity.
  - destruct t; try discriminate. destruct (nth_error es i) eqn:En; [|discriminate]. inversion E; subst.
    left. split; [eapply forallb_nth; [apply wf_list; eauto|eauto]|]. split; [reflexivity|intros ? ? Hc; discriminate Hc].
  - destruct t; try discriminate. destruct (lo <? hi) eqn:B1, (hi <=? n) eqn:B2; cbn [andb] in E; try discriminate.
    inversion E; subst. apply Nat.ltb_lt in B1. apply Nat.leb_le in B2.
    right. exists n, lo, hi. repeat split; auto.
Qed.

Lemma step_slice_none lo hi s : step (NSlice lo hi) s = None.
Proof. destruct s; reflexivity. Qed.

Lemma walk_app t p q : walk t (p ++ q) =
  match walk t p with
  | Some (ts, n) => match walk n q with Some (ts', m) => Some (ts ++ ts', m) | None => None end
  | None => None end.
Proof.
  revert t; induction p as [|s p IH]; intros t; cbn.
  - destruct (walk t q) as [[? ?]|]; reflexivity.
  - destruct (step t s) as [[tk c]|]; [|reflexivity]. rewrite IH.
    destruct (walk c p) as [[ts n]|]; [|reflexivity]. destruct (walk n q) as [[ts' m]|]; reflexivity.
Qed.

Lemma node_at_app t p q : node_at t (p ++ q) = match node_at t p with Some n => node_at n q | None => None end.
Proof.
  unfold node_at. rewrite walk_app. destruct (walk t p) as [[ts n]|]; [|reflexivity].
  destruct (walk n q) as [[? ?]|]; reflexivity.
Qed.
Lemma name_of_app t p q n : node_at t p = Some n -> (exists m, node_at n q = Some m) ->
  name_of t (p ++ q) = name_of t p ++ name_of n q.
Proof.
  unfold node_at, name_of. rewrite walk_app. destruct (walk t p) as [[ts n']|]; [|discriminate].
  intros E [m Hm]. inversion E; subst. destruct (walk n q) as [[ts' m']|]; [reflexivity|discriminate].
Qed.

(* ------------------------------------------------------------------ resolve (name_of p) = p *)
Lemma rstep_of_step t s tk c : wf t = true -> step t s = Some (tk, c) -> rstep t tk = Some (s, c).
Proof.
  intros W E. destruct s as [k|i|lo hi]; unfold step in E.
  - destruct (children t) as [cs|] eqn:Ec; [|discriminate].
    destruct (nth_error cs k) as [[id d]|] eqn:En; [|discriminate]. inversion E; subst. cbn. rewrite Ec.
    destruct (wf_children _ _ W Ec) as (ND & _ & _). now rewrite (find_idx_nth cs k 0 id c ND En).
  - destruct t; try discriminate. destruct (nth_error es i) eqn:En; [|discriminate]. inversion E; subst.
    cbn. now rewrite En.
  - destruct t; try discriminate. destruct (lo <? hi) eqn:B1, (hi <=? n) eqn:B2; cbn [andb] in E; try discriminate.
    inversion E; subst. unfold rstep. now rewrite B1, B2.
Qed.

Lemma tstep_of_step t rp s tk c : wf t = true -> step t s = Some (tk, c) -> tstep t rp tk = Some (c, s :: rp).
Proof.
  intros W E. pose proof (rstep_of_step _ _ _ _ W E) as R.
  unfold tstep. destruct t; try (rewrite R; reflexivity). discriminate.
Qed.

Lemma run_walk : forall p t rp ts n, wf t = true -> walk t p = Some (ts, n) -> run t rp ts = Some (n, rev p ++ rp).
Proof.
  induction p as [|s p IH]; intros t rp ts n W E; cbn in E.
  - inversion E; subst. reflexivity.
  - destruct (step t s) as [[tk c]|] eqn:Es; [|discriminate].
    destruct (walk c p) as [[ts' n']|] eqn:Ew; [|discriminate]. inversion E; subst.
    cbn [run]. rewrite (tstep_of_step _ rp _ _ _ W Es).
    destruct (step_wf _ _ _ _ W Es) as [(Wc & _)|(m & lo & hi & -> & -> & -> & -> & _)].
    + rewrite (IH _ (s :: rp) _ _ Wc Ew). cbn. now rewrite <- app_assoc.
    + destruct p as [|s' p]; cbn in Ew.
      * inversion Ew; subst. reflexivity.
      * rewrite step_slice_none in Ew. discriminate.
Qed.

(* eval(repr(o)) is o *)
Theorem resolve_name t p : wf t = true -> is_object t p = true -> resolve t (name_of t p) = Some p.
Proof.
  unfold is_object, node_at, name_of, resolve, resolve_from. intros W O.
  destruct (walk t p) as [[ts n]|] eqn:E; [|discriminate].
  rewrite (run_walk p t [] ts n W E). apply negb_true_iff in O. rewrite O, app_nil_r. now rewrite rev_involutive.
Qed.

(* distinct objects have distinct names *)
Theorem name_inj t p q : wf t = true -> is_object t p = true -> is_object t q = true ->
  name_of t p = name_of t q -> p = q.
Proof.
  intros W Op Oq E. pose proof (resolve_name t p W Op) as Rp. pose proof (resolve_name t q W Oq) as Rq.
  rewrite E in Rp. congruence.
Qed.

(* ------------------------------------------------------------------ every name that evaluates, evaluates to an object *)
Definition inv (T t : node) (rp : list pstep) : Prop :=
  node_at T (rev rp) = Some t /\
  (wf t = true \/ exists a b n rp', t = NSlice a b /\ rp = PSlice a b :: rp' /\
                                   node_at T (rev rp') = Some (NBits n) /\ a < b <= n).

Lemma node_at_one t s : node_at t [s] = match step t s with Some (_, c) => Some c | None => None end.
Proof. unfold node_at; cbn. destruct (step t s) as [[? ?]|]; reflexivity. Qed.

Lemma rstep_step t tk s c : rstep t tk = Some (s, c) -> exists tk', step t s = Some (tk', c).
Proof.
  destruct tk as [id|i|lo hi]; unfold rstep; intros E.
  - destruct (children t) as [cs|] eqn:Ec; [|discriminate].
    destruct (find_idx id 0 cs) as [[k d]|] eqn:Ef; [|discriminate]. inversion E; subst.
    apply find_idx_sound in Ef as [_ En]. rewrite Nat.sub_0_r in En. exists (TDot id). unfold step. now rewrite Ec, En.
  - destruct t; try discriminate.
    + destruct (i <? n) eqn:B; [|discriminate]. inversion E; subst. exists (TSlice i (S i)). unfold step.
      apply Nat.ltb_lt in B. replace (i <? S i) with true by (symmetry; apply Nat.ltb_lt; lia).
      replace (S i <=? n) with true by (symmetry; apply Nat.leb_le; lia). reflexivity.
    + destruct (nth_error es i) eqn:En; [|discriminate]. inversion E; subst. exists (TIdx i). unfold step. now rewrite En.
  - destruct t; try discriminate. destruct ((lo <? hi) && (hi <=? n)) eqn:B; [|discriminate]. inversion E; subst.
    exists (TSlice lo hi). unfold step. now rewrite B.
Qed.

Lemma slice_step_ok n lo hi : lo < hi <= n -> step (NBits n) (PSlice lo hi) = Some (TSlice lo hi, NSlice lo hi).
Proof.
  intros [H1 H2]. unfold step. replace (lo <? hi) with true by (symmetry; apply Nat.ltb_lt; lia).
  replace (hi <=? n) with true by (symmetry; apply Nat.leb_le; lia). reflexivity.
Qed.

Lemma tstep_inv T t rp tk c rp' : inv T t rp -> tstep t rp tk = Some (c, rp') -> inv T c rp'.
Proof.
  intros [N [W|(a & b & n & rq & -> & -> & Nq & Hab)]] E.
  - assert (R : exists s, rstep t tk = Some (s, c) /\ rp' = s :: rp).
    { unfold tstep in E. destruct t; try (destruct (rstep _ tk) as [[s d]|]; [inversion E; subst; eauto|discriminate]).
      discriminate. }
    destruct R as (s & R & ->). destruct (rstep_step _ _ _ _ R) as [tk' S].
    assert (N' : node_at T (rev (s :: rp)) = Some c).
    { cbn [rev]. rewrite node_at_app, N, node_at_one, S. reflexivity. }
    split; [exact N'|]. destruct (step_wf _ _ _ _ W S) as [(Wc & _)|(n & lo & hi & -> & -> & -> & -> & B)]; [now left|].
    right. exists lo, hi, n, rp. repeat split; auto; lia.
  - unfold tstep in E. destruct tk as [id|i|c0 d0]; [cbn in E; discriminate| |].
    + destruct (i <? b - a) eqn:B; [|discriminate]. inversion E; subst. apply Nat.ltb_lt in B. cbn [tl].
      assert (Hb : a + i < S (a + i) <= n) by lia.
      split; [cbn [rev]; rewrite node_at_app, Nq, node_at_one, (slice_step_ok _ _ _ Hb); reflexivity|].
      right. exists (a + i), (S (a + i)), n, rq. repeat split; auto; lia.
    + destruct ((c0 <? d0) && (d0 <=? b - a)) eqn:B; [|discriminate]. inversion E; subst.
      apply andb_true_iff in B as [B1 B2]. apply Nat.ltb_lt in B1. apply Nat.leb_le in B2. cbn [tl].
      assert (Hb : a + c0 < a + d0 <= n) by lia.
      split; [cbn [rev]; rewrite node_at_app, Nq, node_at_one, (slice_step_ok _ _ _ Hb); reflexivity|].
      right. exists (a + c0), (a + d0), n, rq. repeat split; auto; lia.
Qed.

Lemma run_inv T : forall ts t rp n rp', inv T t rp -> run t rp ts = Some (n, rp') -> inv T n rp'.
Proof.
  induction ts as [|tk ts IH]; intros t rp n rp' I E; cbn in E.
  - inversion E; subst; exact I.
  - destruct (tstep t rp tk) as [[c rq]|] eqn:Et; [|discriminate]. eapply IH; [eapply tstep_inv; eauto|exact E].
Qed.

Theorem resolve_sound t ts p : wf t = true -> resolve t ts = Some p -> is_object t p = true.
Proof.
  unfold resolve, resolve_from. intros W E. destruct (run t [] ts) as [[n rp]|] eqn:R; [|discriminate].
  destruct (is_list n) eqn:L; [discriminate|]. inversion E; subst.
  assert (I0 : inv t t []) by (split; [reflexivity|now left]).
  destruct (run_inv t ts t [] n rp I0 R) as [N _]. unfold is_object. now rewrite N, L.
Qed.

(* evaluating any spelling of a name and printing the result gives the canonical spelling, which evaluates to the same object *)
Corollary resolve_canonical t ts p : wf t = true -> resolve t ts = Some p -> resolve t (name_of t p) = Some p.
Proof. intros W E. apply resolve_name; [exact W|eapply resolve_sound; eauto]. Qed.

(* ------------------------------------------------------------------ slices of slices *)
Lemma run_app : forall a t rp b, run t rp (a ++ b) =
  match run t rp a with Some (n, rp') => run n rp' b | None => None end.
Proof.
  induction a as [|tk a IH]; intros t rp b; cbn; [reflexivity|].
  destruct (tstep t rp tk) as [[c rq]|]; [apply IH|reflexivity].
Qed.

(* x[a:b][c:d] is the object x[a+c:a+d]  (x a Bits signal of width n, a<b<=n, c<d<=b-a) *)
Lemma slice_of_slice_run n rp a b c d : a < b <= n -> c < d <= b - a ->
  run (NBits n) rp [TSlice a b; TSlice c d] = run (NBits n) rp [TSlice (a + c) (a + d)].
Proof.
  intros H1 H2. cbn [run]. unfold tstep at 1 3. unfold rstep.
  replace ((a <? b) && (b <=? n)) with true
    by (symmetry; apply andb_true_iff; split; [apply Nat.ltb_lt|apply Nat.leb_le]; lia).
  replace ((a + c <? a + d) && (a + d <=? n)) with true
    by (symmetry; apply andb_true_iff; split; [apply Nat.ltb_lt|apply Nat.leb_le]; lia).
  unfold tstep.
  replace ((c <? d) && (d <=? b - a)) with true
    by (symmetry; apply andb_true_iff; split; [apply Nat.ltb_lt|apply Nat.leb_le]; lia).
  reflexivity.
Qed.

Theorem slice_of_slice_norm t ts rest n rp a b c d :
  run t [] ts = Some (NBits n, rp) -> a < b <= n -> c < d <= b - a ->
  resolve t (ts ++ TSlice a b :: TSlice c d :: rest) = resolve t (ts ++ TSlice (a + c) (a + d) :: rest).
Proof.
  intros R H1 H2. unfold resolve, resolve_from.
  replace (TSlice a b :: TSlice c d :: rest) with ([TSlice a b; TSlice c d] ++ rest) by reflexivity.
  replace (TSlice (a + c) (a + d) :: rest) with ([TSlice (a + c) (a + d)] ++ rest) by reflexivity.
  rewrite !(run_app ts), R. cbv beta iota. rewrite (run_app [TSlice a b; TSlice c d]), (run_app [TSlice (a + c) (a + d)]).
  rewrite (slice_of_slice_run n rp a b c d H1 H2). reflexivity.
Qed.

(* x[i] is the object x[i:i+1] *)
Theorem index_is_unit_slice t ts rest n rp i :
  run t [] ts = Some (NBits n, rp) ->
  resolve t (ts ++ TIdx i :: rest) = resolve t (ts ++ TSlice i (S i) :: rest).
Proof.
  intros R. unfold resolve, resolve_from.
  replace (TIdx i :: rest) with ([TIdx i] ++ rest) by reflexivity.
  replace (TSlice i (S i) :: rest) with ([TSlice i (S i)] ++ rest) by reflexivity.
  rewrite !(run_app ts), R. cbv beta iota. rewrite (run_app [TIdx i]), (run_app [TSlice i (S i)]). cbn [run]. unfold tstep, rstep.
  destruct (i <? n) eqn:B.
  - apply Nat.ltb_lt in B. replace ((i <? S i) && (S i <=? n)) with true
      by (symmetry; apply andb_true_iff; split; [apply Nat.ltb_lt|apply Nat.leb_le]; lia). reflexivity.
  - apply Nat.ltb_ge in B. replace ((i <? S i) && (S i <=? n)) with false
      by (symmetry; apply andb_false_iff; right; apply Nat.leb_gt; lia). reflexivity.
Qed.

(* the name of a slice of a slice: resolving x[a:b][c:d] and printing gives x[a+c:a+d] *)
Theorem slice_of_slice_name t p n a b c d : wf t = true -> node_at t p = Some (NBits n) -> a < b <= n -> c < d <= b - a ->
  resolve t (name_of t p ++ [TSlice a b; TSlice c d]) = Some (p ++ [PSlice (a + c) (a + d)]) /\
  name_of t (p ++ [PSlice (a + c) (a + d)]) = name_of t p ++ [TSlice (a + c) (a + d)].
Proof.
  intros W N H1 H2. assert (Hb : a + c < a + d <= n) by lia.
  assert (Nq : name_of t (p ++ [PSlice (a + c) (a + d)]) = name_of t p ++ [TSlice (a + c) (a + d)]).
  { rewrite (name_of_app t p _ _ N).
    - unfold name_of. cbn [walk]. now rewrite (slice_step_ok _ _ _ Hb).
    - rewrite node_at_one, (slice_step_ok _ _ _ Hb). eauto. }
  split; [|exact Nq].
  assert (R : run t [] (name_of t p) = Some (NBits n, rev p)).
  { unfold node_at in N. unfold name_of. destruct (walk t p) as [[ts m]|] eqn:E; [|discriminate]. inversion N; subst.
    rewrite (run_walk p t [] ts _ W E). now rewrite app_nil_r. }
  rewrite (slice_of_slice_norm t (name_of t p) [] n (rev p) a b c d R H1 H2), <- Nq.
  apply resolve_name; [exact W|]. unfold is_object. rewrite node_at_app, N, node_at_one, (slice_step_ok _ _ _ Hb). reflexivity.
Qed.

(* ------------------------------------------------------------------ printing and re-tokenising *)
Definition uint_nil (d : Decimal.uint) : bool := match d with Nil => true | _ => false end.

Lemma tok_id : forall cs acc rest, forallb is_ident_char cs = true ->
  tok (TSId acc) (cs ++ rest) = tok (TSId (rev cs ++ acc)) rest.
Proof.
  induction cs as [|c cs IH]; intros acc rest H; [reflexivity|].
  cbn in H. apply andb_true_iff in H as [Hc H]. cbn [app tok]. rewrite Hc, (IH (c :: acc) rest H).
  cbn [rev]. now rewrite <- app_assoc.
Qed.

Lemma tok_lo_digits : forall d nd lo rest,
  tok (TSLo nd lo) (chars_of_uint d ++ rest) = tok (TSLo (nd || negb (uint_nil d)) (Nat.of_uint_acc d lo)) rest.
Proof.
  induction d; intros nd lo rest; cbn [chars_of_uint app];
    try (cbn [tok]; match goal with |- context [digit_of ?c] => change (digit_of c) with (Some (nat_of_ascii c - 48)) end;
         cbv beta iota; rewrite IHd; cbn [Nat.of_uint_acc uint_nil negb]; rewrite !orb_true_r; reflexivity).
  cbn. now rewrite orb_false_r.
Qed.
Lemma tok_hi_digits : forall d l nd hi rest,
  tok (TSHi l nd hi) (chars_of_uint d ++ rest) = tok (TSHi l (nd || negb (uint_nil d)) (Nat.of_uint_acc d hi)) rest.
Proof.
  induction d; intros l nd hi rest; cbn [chars_of_uint app];
    try (cbn [tok]; match goal with |- context [digit_of ?c] => change (digit_of c) with (Some (nat_of_ascii c - 48)) end;
         cbv beta iota; rewrite IHd; cbn [Nat.of_uint_acc uint_nil negb]; rewrite !orb_true_r; reflexivity).
  cbn. now rewrite orb_false_r.
Qed.

Lemma to_uint_nonnil n : uint_nil (Nat.to_uint n) = false.
Proof.
  pose proof (Unsigned.to_of (Nat.to_uint n)) as H. rewrite Unsigned.of_to in H.
  destruct (Nat.to_uint n) eqn:E; try reflexivity. exfalso. symmetry in H. revert H. apply unorm_nonnil.
Qed.

Lemma tok_lo_num n rest : tok (TSLo false 0) (digits n ++ rest) = tok (TSLo true n) rest.
Proof.
  unfold digits. rewrite tok_lo_digits, to_uint_nonnil. cbn [orb negb].
  change (Nat.of_uint_acc (Nat.to_uint n) 0) with (Nat.of_uint (Nat.to_uint n)). now rewrite Unsigned.of_to.
Qed.
Lemma tok_hi_num l n rest : tok (TSHi l false 0) (digits n ++ rest) = tok (TSHi l true n) rest.
Proof.
  unfold digits. rewrite tok_hi_digits, to_uint_nonnil. cbn [orb negb].
  change (Nat.of_uint_acc (Nat.to_uint n) 0) with (Nat.of_uint (Nat.to_uint n)). now rewrite Unsigned.of_to.
Qed.

Definition tok_ok (tk : token) : bool := match tk with TDot id => ident_ok id | _ => true end.

(* after an identifier, the rest of a printed name continues with a fresh token *)
Lemma tok_id_end acc ts : acc <> [] -> tok (TSId acc) (print_tokens ts) = ocons (mk_dot acc) (tok TS0 (print_tokens ts)).
Proof.
  intros NE. assert (Hn : is_nil acc = false) by (destruct acc; [congruence|reflexivity]).
  destruct ts as [|[id|i|lo hi] ts]; cbn [print_tokens print_token app tok].
  - now rewrite Hn.
  - change (is_ident_char "."%char) with false. cbv iota. rewrite Hn. reflexivity.
  - change (is_ident_char "["%char) with false. cbv iota. rewrite Hn. reflexivity.
  - change (is_ident_char "["%char) with false. cbv iota. rewrite Hn. reflexivity.
Qed.

Theorem print_tokenize ts : forallb tok_ok ts = true -> tokenize (print_tokens ts) = Some ts.
Proof.
  unfold tokenize. induction ts as [|tk ts IH]; intros H; [reflexivity|].
  cbn in H. apply andb_true_iff in H as [Hk H]. specialize (IH H).
  destruct tk as [id|i|lo hi]; cbn [print_tokens print_token app].
  - cbn [tok]. change (Ascii.eqb "."%char "."%char) with true. cbv iota.
    unfold tok_ok, ident_ok in Hk. destruct (list_ascii_of_string id) as [|c cs] eqn:Ei; [discriminate|].
    rewrite (tok_id (c :: cs) [] (print_tokens ts) Hk), app_nil_r.
    rewrite tok_id_end by (intros Hc; apply (f_equal (@List.length _)) in Hc; rewrite rev_length in Hc; discriminate).
    rewrite IH. cbn [ocons]. unfold mk_dot. rewrite rev_involutive, <- Ei, string_of_list_ascii_of_string. reflexivity.
  - cbn [tok]. change (Ascii.eqb "["%char "."%char) with false. change (Ascii.eqb "["%char "["%char) with true. cbv iota.
    rewrite <- app_assoc, tok_lo_num. cbn [app tok].
    change (digit_of "]"%char) with (@None nat). cbv iota. cbn [negb].
    change (Ascii.eqb "]"%char "]"%char) with true. cbv iota. now rewrite IH.
  - cbn [tok]. change (Ascii.eqb "["%char "."%char) with false. change (Ascii.eqb "["%char "["%char) with true. cbv iota.
    rewrite <- app_assoc, tok_lo_num. cbn [app tok].
    change (digit_of ":"%char) with (@None nat). cbv iota. cbn [negb].
    change (Ascii.eqb ":"%char "]"%char) with false. change (Ascii.eqb ":"%char ":"%char) with true. cbv iota.
    rewrite <- app_assoc, tok_hi_num. cbn [app tok].
    change (digit_of "]"%char) with (@None nat). cbv iota. cbn [andb].
    change (Ascii.eqb "]"%char "]"%char) with true. cbv iota. now rewrite IH.
Qed.

(* names of objects of a well-formed tree only use well-formed identifiers *)
Lemma walk_tok_ok : forall p t ts n, wf t = true -> walk t p = Some (ts, n) -> forallb tok_ok ts = true.
Proof.
  induction p as [|s p IH]; intros t ts n W E; cbn in E.
  - inversion E; reflexivity.
  - destruct (step t s) as [[tk c]|] eqn:Es; [|discriminate].
    destruct (walk c p) as [[ts' n']|] eqn:Ew; [|discriminate]. inversion E; subst. cbn.
    destruct (step_wf _ _ _ _ W Es) as [(Wc & _)|(m & lo & hi & -> & -> & -> & -> & _)].
    + rewrite (IH _ _ _ Wc Ew), andb_true_r. destruct s as [k|i|lo hi]; unfold step in Es.
      * destruct (children t) as [cs|] eqn:Ec; [|discriminate].
        destruct (nth_error cs k) as [[id d]|] eqn:En; [|discriminate]. inversion Es; subst. cbn.
        destruct (wf_children _ _ W Ec) as (_ & I & _). eapply forallb_nth; [exact I|]. rewrite nth_error_map, En. reflexivity.
      * destruct t; try discriminate. destruct (nth_error es i); [|discriminate]. inversion Es; subst. reflexivity.
      * destruct t; try discriminate. destruct ((lo <? hi) && (hi <=? n0)); [|discriminate]. inversion Es; subst. reflexivity.
    + destruct p; cbn in Ew; [inversion Ew; reflexivity|]. rewrite step_slice_none in Ew. discriminate.
Qed.

(* repr(o) parses back to the object's token list, and evaluating it yields o *)
Theorem full_name_roundtrip t p : wf t = true -> is_object t p = true ->
  parse_name (full_name t p) = Some (name_of t p) /\ resolve t (name_of t p) = Some p.
Proof.
  intros W O. split; [|now apply resolve_name].
  unfold parse_name, full_name. rewrite list_ascii_of_string_of_list_ascii.
  change (Ascii.eqb "s"%char "s"%char) with true. cbv iota. apply print_tokenize.
  unfold is_object, node_at in O. unfold name_of. destruct (walk t p) as [[ts n]|] eqn:E; [|discriminate].
  eapply walk_tok_ok; eauto.
Qed.

(* distinct objects print to distinct strings *)
Theorem full_name_inj t p q : wf t = true -> is_object t p = true -> is_object t q = true ->
  full_name t p = full_name t q -> p = q.
Proof.
  intros W Op Oq E. destruct (full_name_roundtrip t p W Op) as [Pp _]. destruct (full_name_roundtrip t q W Oq) as [Pq _].
  rewrite E in Pp. rewrite Pq in Pp. inversion Pp. eapply name_inj; eauto.
Qed.

(* ------------------------------------------------------------------ parent = prefix *)
Lemma drop_elems_split r : exists e, r = e ++ drop_elems r /\ forallb is_elem e = true /\
  match drop_elems r with [] => True | s :: _ => is_elem s = false end.
Proof.
  induction r as [|s r (e & E1 & E2 & E3)]; [exists []; cbn; auto|]. cbn [drop_elems].
  destruct (is_elem s) eqn:Hs.
  - exists (s :: e). cbn. rewrite Hs, E2. split; [now rewrite <- E1|auto].
  - exists []. cbn. rewrite Hs. auto.
Qed.

(* the parent's path is a proper prefix; the remainder is ".id[i]..[j]" or "[lo:hi]" *)
Theorem parent_prefix p : p <> [] -> exists suffix, p = parent p ++ suffix /\ suffix <> [].
Proof.
  intros NE. unfold parent. destruct (rev p) as [|s r] eqn:E.
  - apply (f_equal (@rev _)) in E. rewrite rev_involutive in E. contradiction.
  - apply (f_equal (@rev _)) in E. rewrite rev_involutive in E. cbn [rev] in E.
    destruct s as [k|i|lo hi]; try (exists [PChild k] + exists [PSlice lo hi]; split; [exact E|discriminate]).
    destruct (drop_elems_split r) as (e & E1 & _ & _).
    exists (rev (e ++ firstn 1 (drop_elems r)) ++ [PElem i]). split; [|intros H; apply app_eq_nil in H as [_ H]; discriminate].
    rewrite E. rewrite app_assoc. f_equal. rewrite E1 at 1. rewrite rev_app_distr, rev_app_distr.
    rewrite app_assoc. f_equal. destruct (drop_elems r) as [|x d]; cbn; reflexivity.
Qed.

Lemma node_at_snoc t q s m : node_at t (q ++ [s]) = Some m ->
  exists n tk, node_at t q = Some n /\ step n s = Some (tk, m).
Proof.
  rewrite node_at_app. destruct (node_at t q) as [n|]; [|discriminate]. rewrite node_at_one.
  destruct (step n s) as [[tk c]|] eqn:Es; [|discriminate]. intros H; inversion H; subst. eauto.
Qed.
Lemma step_src_not_list n s tk m : step n s = Some (tk, m) -> is_elem s = false -> is_list n = false.
Proof. destruct s; [| discriminate |]; destruct n; cbn; try discriminate; reflexivity. Qed.
Lemma step_src_list n s tk m : step n s = Some (tk, m) -> is_elem s = true -> is_list n = true.
Proof. destruct s; try discriminate. destruct n; cbn; try discriminate; reflexivity. Qed.
Lemma step_dst_of_child n k tk m : wf n = true -> step n (PChild k) = Some (tk, m) -> wf m = true.
Proof. intros W E. destruct (step_wf _ _ _ _ W E) as [(Wc & _)|(? & ? & ? & _ & H & _)]; [exact Wc|discriminate]. Qed.

(* walking a block of list-element steps backwards: the source of each is a list *)
Lemma elems_source t : forall e q m, forallb is_elem e = true -> e <> [] -> node_at t (q ++ rev e) = Some m ->
  exists n, node_at t q = Some n /\ is_list n = true.
Proof.
  induction e as [|s e IH]; intros q m He NE N; [contradiction|].
  cbn in He. apply andb_true_iff in He as [Hs He]. cbn [rev] in N. rewrite app_assoc in N.
  apply node_at_snoc in N as (n & tk & N & St). pose proof (step_src_list _ _ _ _ St Hs) as L.
  destruct e as [|s' e']; [rewrite app_nil_r in N; eauto|]. eapply IH; eauto. discriminate.
Qed.

Theorem parent_is_object t p : is_list t = false -> is_object t p = true -> is_object t (parent p) = true.
Proof.
  intros Lt O. unfold parent. destruct (rev p) as [|s r] eqn:E; [unfold is_object, node_at; cbn; now rewrite Lt|].
  apply (f_equal (@rev _)) in E. rewrite rev_involutive in E. cbn [rev] in E. subst p.
  unfold is_object in O. destruct (node_at t (rev r ++ [s])) as [m|] eqn:N; [|discriminate].
  apply node_at_snoc in N as (n & tk & N & St).
  assert (Simple : is_elem s = false -> is_object t (rev r) = true).
  { intros Hs. unfold is_object. rewrite N. now rewrite (step_src_not_list _ _ _ _ St Hs). }
  destruct s as [k|i|lo hi]; try (apply Simple; reflexivity).
  pose proof (step_src_list _ _ _ _ St eq_refl) as Ln.
  destruct (drop_elems_split r) as (e & E1 & E2 & E3).
  destruct (drop_elems r) as [|x d] eqn:Ed.
  - (* the whole path consists of element steps: the root would be a list *)
    exfalso. rewrite app_nil_r in E1. subst e. destruct r as [|s0 r0].
    + cbn in N. unfold node_at in N; cbn in N. inversion N; subst. congruence.
    + replace (rev (s0 :: r0)) with ([] ++ rev (s0 :: r0)) in N by reflexivity.
      destruct (elems_source t (s0 :: r0) [] n E2 ltac:(discriminate) N) as (n0 & N0 & L0).
      unfold node_at in N0; cbn in N0. inversion N0; subst. congruence.
  - cbn [tl]. rewrite E1, rev_app_distr in N. change (rev (x :: d)) with (rev d ++ [x]) in N.
    (* the node reached after x is a list (source of an element step) *)
    assert (Lx : exists nx, node_at t (rev d ++ [x]) = Some nx /\ is_list nx = true).
    { destruct e as [|s0 e0]; [cbn [rev] in N; rewrite app_nil_r in N; eauto|].
      eapply elems_source; eauto. discriminate. }
    destruct Lx as (nx & Nx & Lnx). apply node_at_snoc in Nx as (n1 & tk1 & N1 & S1).
    unfold is_object. rewrite N1. now rewrite (step_src_not_list _ _ _ _ S1 E3).
Qed.

Corollary parent_name_prefix t p : is_list t = false -> is_object t p = true ->
  exists rest, name_of t p = name_of t (parent p) ++ rest.
Proof.
  intros Lt O. destruct p as [|s p']; [exists []; reflexivity|].
  destruct (parent_prefix (s :: p') ltac:(discriminate)) as (suf & E & _).
  pose proof (parent_is_object t _ Lt O) as Op. unfold is_object in Op, O.
  destruct (node_at t (parent (s :: p'))) as [n|] eqn:N; [|discriminate].
  exists (name_of n suf). rewrite E at 1. apply name_of_app; [exact N|].
  rewrite E, node_at_app, N in O. destruct (node_at n suf); [eauto|discriminate].
Qed.

(* ------------------------------------------------------------------ level *)
Theorem level_dots : forall p t ts n, walk t p = Some (ts, n) -> count_dots ts = level p.
Proof.
  induction p as [|s p IH]; intros t ts n E; cbn in E; [inversion E; reflexivity|].
  destruct (step t s) as [[tk c]|] eqn:Es; [|discriminate].
  destruct (walk c p) as [[ts' n']|] eqn:Ew; [|discriminate]. inversion E; subst.
  specialize (IH _ _ _ Ew). destruct s as [k|i|lo hi]; unfold step in Es.
  - destruct (children t) as [cs|]; [|discriminate]. destruct (nth_error cs k) as [[id d]|]; [|discriminate].
    inversion Es; subst. cbn. now rewrite IH.
  - destruct t; try discriminate. destruct (nth_error es i); [|discriminate]. inversion Es; subst. cbn. exact IH.
  - destruct t; try discriminate. destruct ((lo <? hi) && (hi <=? n0)); [|discriminate]. inversion Es; subst. cbn. exact IH.
Qed.

Lemma level_app p q : level (p ++ q) = level p + level q.
Proof. induction p as [|[k|i|lo hi] p IH]; cbn; auto. Qed.
Lemma level_elems e : forallb is_elem e = true -> level e = 0.
Proof. induction e as [|[k|i|lo hi] e IH]; cbn; auto; discriminate. Qed.
Lemma level_rev p : level (rev p) = level p.
Proof. induction p as [|s p IH]; [reflexivity|]. cbn [rev]. rewrite level_app, IH. destruct s; cbn; lia. Qed.

(* a declared object (reached without slicing) is one attribute hop below its parent object *)
Theorem level_parent t p : is_list t = false -> is_object t p = true -> p <> [] ->
  (forall lo hi, last p (PChild 0) <> PSlice lo hi) -> level p = S (level (parent p)).
Proof.
  intros Lt O NE NS. unfold parent. destruct (rev p) as [|s r] eqn:E.
  - apply (f_equal (@rev _)) in E. rewrite rev_involutive in E. contradiction.
  - apply (f_equal (@rev _)) in E. rewrite rev_involutive in E. cbn [rev] in E. subst p.
    rewrite last_last in NS. rewrite level_app, level_rev.
    destruct s as [k|i|lo hi]; [rewrite level_rev; cbn; lia| |exfalso; eapply NS; reflexivity].
    (* element step: exactly one attribute hop (the list attribute) is stripped together with the element steps *)
    pose proof (parent_is_object t _ Lt O) as Op. unfold parent in Op. rewrite rev_app_distr in Op. cbn [rev app] in Op.
    rewrite rev_involutive in Op.
    destruct (drop_elems_split r) as (e & E1 & E2 & E3). rewrite level_rev. cbn [level]. rewrite Nat.add_0_r.
    destruct (drop_elems r) as [|x d] eqn:Ed.
    + exfalso. rewrite app_nil_r in E1. subst e. unfold is_object in O.
      destruct (node_at t (rev r ++ [PElem i])) as [m|] eqn:N; [|discriminate].
      apply node_at_snoc in N as (n & tk & N & St). pose proof (step_src_list _ _ _ _ St eq_refl) as Ln.
      destruct r as [|s0 r0].
      * unfold node_at in N; cbn in N. inversion N; subst. congruence.
      * replace (rev (s0 :: r0)) with ([] ++ rev (s0 :: r0)) in N by reflexivity.
        destruct (elems_source t (s0 :: r0) [] n E2 ltac:(discriminate) N) as (n0 & N0 & L0).
        unfold node_at in N0; cbn in N0. inversion N0; subst. congruence.
    + cbn [tl]. rewrite E1 at 1. rewrite level_app, (level_elems e E2). cbn [plus].
      (* x is an attribute step: it is not an element step, and a slice has no successor *)
      destruct x as [k|j|lo hi]; [cbn; lia|discriminate|].
      exfalso. unfold is_object in O. destruct (node_at t (rev r ++ [PElem i])) as [m|] eqn:N; [|discriminate].
      rewrite E1, rev_app_distr in N. apply node_at_snoc in N as (n & tk & N & St).
      change (rev (PSlice lo hi :: d)) with (rev d ++ [PSlice lo hi]) in N.
      assert (Lx : exists nx, node_at t (rev d ++ [PSlice lo hi]) = Some nx /\ is_list nx = true).
      { destruct e as [|s0 e0].
        - cbn [rev] in N. rewrite app_nil_r in N. exists n. split; [exact N|]. eapply step_src_list; eauto.
        - eapply elems_source; eauto. discriminate. }
      destruct Lx as (nx & Nx & Lnx). apply node_at_snoc in Nx as (n1 & tk1 & N1 & S1).
      unfold step in S1. destruct n1 as [| | |w| | |]; try discriminate. destruct ((lo <? hi) && (hi <=? w)); [|discriminate].
      inversion S1; subst. discriminate.
Qed.

(* ------------------------------------------------------------------ host component *)
Lemma parent_nil : parent [] = [].
Proof. reflexivity. Qed.
Lemma parent_shorter p : p <> [] -> length (parent p) < length p.
Proof.
  intros NE. destruct (parent_prefix p NE) as (suf & E & NS). rewrite E at 2. rewrite app_length.
  destruct suf; [contradiction|cbn; lia].
Qed.
Lemma parent_is_prefix p : exists suf, p = parent p ++ suf.
Proof. destruct p as [|s p]; [exists []; reflexivity|]. destruct (parent_prefix (s :: p)) as (suf & E & _); [discriminate|eauto]. Qed.

Lemma host_fuel_prefix t : forall fuel p, exists suf, p = host_fuel t fuel p ++ suf.
Proof.
  induction fuel as [|f IH]; intros p; cbn; [exists []; now rewrite app_nil_r|].
  destruct (is_comp_at t p); [exists []; now rewrite app_nil_r|].
  destruct (IH (parent p)) as (s1 & E1). destruct (parent_is_prefix p) as (s2 & E2).
  exists (s1 ++ s2). rewrite app_assoc, <- E1. exact E2.
Qed.
Lemma host_fuel_comp t : is_comp t = true -> forall fuel p, length p < fuel -> is_comp_at t (host_fuel t fuel p) = true.
Proof.
  intros C. induction fuel as [|f IH]; intros p L; [lia|]. cbn.
  destruct (is_comp_at t p) eqn:Cp; [exact Cp|]. apply IH.
  destruct p as [|s p]; [unfold is_comp_at, node_at in Cp; cbn in Cp; congruence|].
  pose proof (parent_shorter (s :: p) ltac:(discriminate)). lia.
Qed.
Lemma host_fuel_stable t : is_comp t = true -> forall f1 f2 p, length p < f1 -> length p < f2 ->
  host_fuel t f1 p = host_fuel t f2 p.
Proof.
  intros C. induction f1 as [|f1 IH]; intros f2 p L1 L2; [lia|]. destruct f2 as [|f2]; [lia|]. cbn.
  destruct (is_comp_at t p) eqn:Cp; [reflexivity|].
  destruct p as [|s p]; [unfold is_comp_at, node_at in Cp; cbn in Cp; congruence|].
  pose proof (parent_shorter (s :: p) ltac:(discriminate)). apply IH; lia.
Qed.

(* the host is reached by following parents, it is a component, and its name is a prefix *)
Theorem host_spec t p : is_comp t = true ->
  (exists suf, p = host t p ++ suf) /\ is_comp_at t (host t p) = true /\
  (is_comp_at t p = true -> host t p = p) /\ (is_comp_at t p = false -> host t p = host t (parent p)).
Proof.
  intros C. unfold host. split; [apply host_fuel_prefix|]. split; [apply host_fuel_comp; [exact C|lia]|].
  split; intros Cp; [cbn [host_fuel]; rewrite Cp; reflexivity|].
  change (host_fuel t (S (length p)) p) with (if is_comp_at t p then p else host_fuel t (length p) (parent p)). rewrite Cp.
  destruct p as [|s p]; [unfold is_comp_at, node_at in Cp; cbn in Cp; congruence|].
  pose proof (parent_shorter (s :: p) ltac:(discriminate)). apply host_fuel_stable; [exact C| |]; cbn in *; lia.
Qed.

(* ------------------------------------------------------------------ top-level signal *)
Lemma node_at_cons t s a tk c : step t s = Some (tk, c) -> node_at t (s :: a) = node_at c a.
Proof. intros E. unfold node_at. cbn [walk]. rewrite E. destruct (walk c a) as [[? ?]|]; reflexivity. Qed.

Lemma tls_from_spec : forall p t rpre q, tls_from t rpre p = Some q ->
  exists a r, p = a ++ r /\ q = rev rpre ++ a /\ is_sig_at t a = true /\
              (forall a1 a2, a = a1 ++ a2 -> a2 <> [] -> is_sig_at t a1 = false).
Proof.
  assert (Base : forall t rpre p q, is_sig t = true -> Some (rev rpre) = Some q ->
    exists a r, p = a ++ r /\ q = rev rpre ++ a /\ is_sig_at t a = true /\
                (forall a1 a2, a = a1 ++ a2 -> a2 <> [] -> is_sig_at t a1 = false)).
  { intros t rpre p q S E. inversion E; subst. exists [], p. rewrite app_nil_r. repeat split; auto.
    intros a1 a2 H NE. symmetry in H. apply app_eq_nil in H as [_ H]. contradiction. }
  induction p as [|s p IH]; intros t rpre q E; cbn [tls_from] in E; destruct (is_sig t) eqn:S; eauto; [discriminate|].
  destruct (step t s) as [[tk c]|] eqn:Es; [|discriminate].
  destruct (IH _ _ _ E) as (a & r & -> & -> & Sa & Min). exists (s :: a), r. cbn [rev]. rewrite <- app_assoc.
  repeat split; auto.
  - unfold is_sig_at. rewrite (node_at_cons _ _ _ _ _ Es). exact Sa.
  - intros a1 a2 H NE. destruct a1 as [|s1 a1]; [unfold is_sig_at, node_at; cbn; exact S|].
    cbn in H. inversion H; subst. unfold is_sig_at. rewrite (node_at_cons _ _ _ _ _ Es). eapply Min; eauto.
Qed.

(* the top-level signal of a (field / slice / declared) signal is the OUTERMOST signal on its path: a declared signal *)
Theorem tls_spec t p q : top_level_signal t p = Some q ->
  (exists r, p = q ++ r) /\ is_sig_at t q = true /\ (forall q1 q2, q = q1 ++ q2 -> q2 <> [] -> is_sig_at t q1 = false).
Proof.
  intros E. destruct (tls_from_spec p t [] q E) as (a & r & -> & -> & S & Min). cbn. repeat split; eauto.
Qed.

Lemma tls_from_exists : forall p t rpre n, node_at t p = Some n -> is_sig n = true -> exists q, tls_from t rpre p = Some q.
Proof.
  induction p as [|s p IH]; intros t rpre n N S; cbn [tls_from].
  - unfold node_at in N; cbn in N. inversion N; subst. rewrite S. eauto.
  - destruct (is_sig t); [eauto|]. unfold node_at in N. cbn [walk] in N.
    destruct (step t s) as [[tk c]|] eqn:Es; [|discriminate]. eapply (IH c (s :: rpre) n); [|exact S].
    unfold node_at. destruct (walk c p) as [[? ?]|]; [inversion N; reflexivity|discriminate].
Qed.
Theorem tls_exists t p : is_sig_at t p = true -> exists q, top_level_signal t p = Some q.
Proof.
  unfold is_sig_at. destruct (node_at t p) as [n|] eqn:N; [|discriminate]. intros S. eapply tls_from_exists; eauto.
Qed.

(* ------------------------------------------------------------------ the enumeration [objects] is exactly [is_object] *)
Fixpoint node_ind' (P : node -> Prop)
  (HC : forall cs, Forall (fun ic => P (snd ic)) cs -> P (NComp cs))
  (HI : forall cs, Forall (fun ic => P (snd ic)) cs -> P (NIfc cs))
  (HM : P NMeth) (HB : forall n, P (NBits n))
  (HS : forall fs, Forall (fun ic => P (snd ic)) fs -> P (NStruct fs))
  (HL : forall es, Forall P es -> P (NList es))
  (HSl : forall lo hi, P (NSlice lo hi)) (t : node) {struct t} : P t :=
  let rec := node_ind' P HC HI HM HB HS HL HSl in
  let kids := fix f (l : list (string * node)) : Forall (fun ic => P (snd ic)) l :=
                match l with [] => Forall_nil _ | (i, c) :: l' => Forall_cons (i, c) (rec c) (f l') end in
  match t with
  | NComp cs => HC cs (kids cs)
  | NIfc cs => HI cs (kids cs)
  | NMeth => HM
  | NBits n => HB n
  | NStruct fs => HS fs (kids fs)
  | NList es => HL es ((fix f (l : list node) : Forall P l :=
                          match l with [] => Forall_nil _ | e :: l' => Forall_cons e (rec e) (f l') end) es)
  | NSlice lo hi => HSl lo hi
  end.

Definition objs_kids (f : node -> list path) : nat -> list (string * node) -> list path :=
  fix go (k : nat) (l : list (string * node)) : list path :=
    match l with [] => [] | (_, c) :: l' => map (cons (PChild k)) (f c) ++ go (S k) l' end.
Definition objs_elems (f : node -> list path) : nat -> list node -> list path :=
  fix go (i : nat) (l : list node) : list path :=
    match l with [] => [] | e :: l' => map (cons (PElem i)) (f e) ++ go (S i) l' end.
Lemma objs_kids_cons f k id c l : objs_kids f k ((id, c) :: l) = map (cons (PChild k)) (f c) ++ objs_kids f (S k) l.
Proof. reflexivity. Qed.
Lemma objs_elems_cons f k e l : objs_elems f k (e :: l) = map (cons (PElem k)) (f e) ++ objs_elems f (S k) l.
Proof. reflexivity. Qed.

Lemma objs_kids_In f : forall l k p, In p (objs_kids f k l) <->
  exists j id c p', p = PChild (k + j) :: p' /\ nth_error l j = Some (id, c) /\ In p' (f c).
Proof.
  induction l as [|[id c] l IH]; intros k p.
  - split; [contradiction|]. intros (j & ? & ? & ? & _ & E & _). destruct j; discriminate.
  - rewrite objs_kids_cons, in_app_iff, in_map_iff, IH. split.
    + intros [(p' & <- & Hp)|(j & id' & c' & p' & -> & En & Hp)].
      * exists 0, id, c, p'. rewrite Nat.add_0_r. auto.
      * exists (S j), id', c', p'. replace (k + S j) with (S k + j) by lia. auto.
    + intros (j & id' & c' & p' & -> & En & Hp). destruct j as [|j]; cbn in En.
      * inversion En; subst. left. exists p'. now rewrite Nat.add_0_r.
      * right. exists j, id', c', p'. replace (S k + j) with (k + S j) by lia. auto.
Qed.
Lemma objs_elems_In f : forall l k p, In p (objs_elems f k l) <->
  exists j e p', p = PElem (k + j) :: p' /\ nth_error l j = Some e /\ In p' (f e).
Proof.
  induction l as [|c l IH]; intros k p.
  - split; [contradiction|]. intros (j & ? & ? & _ & E & _). destruct j; discriminate.
  - rewrite objs_elems_cons, in_app_iff, in_map_iff, IH. split.
    + intros [(p' & <- & Hp)|(j & c' & p' & -> & En & Hp)].
      * exists 0, c, p'. rewrite Nat.add_0_r. auto.
      * exists (S j), c', p'. replace (k + S j) with (S k + j) by lia. auto.
    + intros (j & c' & p' & -> & En & Hp). destruct j as [|j]; cbn in En.
      * inversion En; subst. left. exists p'. now rewrite Nat.add_0_r.
      * right. exists j, c', p'. replace (S k + j) with (k + S j) by lia. auto.
Qed.

Lemma seq_slices_hi_In lo : forall h p, In p (seq_slices_hi lo h) <-> exists j, 1 <= j <= h /\ p = [PSlice lo (lo + j)].
Proof.
  induction h as [|h IH]; intros p; cbn [seq_slices_hi].
  - split; [contradiction|]. intros (j & H & _). lia.
  - rewrite in_app_iff, IH. cbn [In]. split.
    + intros [(j & H & ->)|[<-|[]]]; [exists j; split; [lia|reflexivity]|exists (S h); split; [lia|reflexivity]].
    + intros (j & H & ->). destruct (Nat.eq_dec j (S h)) as [->|NE]; [right; left; reflexivity|left; exists j; split; [lia|reflexivity]].
Qed.
Lemma slices_from_In n : forall m p, In p (slices_from n m) <-> exists l, l < m /\ In p (seq_slices_hi l (n - l)).
Proof.
  induction m as [|m IH]; intros p; cbn [slices_from].
  - split; [contradiction|]. intros (l & H & _). lia.
  - rewrite in_app_iff, IH. split.
    + intros [(l & H & Hp)|Hp]; [exists l; split; [lia|exact Hp]|exists m; split; [lia|exact Hp]].
    + intros (l & H & Hp). destruct (Nat.eq_dec l m) as [->|NE]; [right; exact Hp|left; exists l; split; [lia|exact Hp]].
Qed.
Lemma slices_In n p : In p (slices n) <-> exists lo hi, lo < hi <= n /\ p = [PSlice lo hi].
Proof.
  unfold slices. rewrite slices_from_In. split.
  - intros (l & H & Hp). apply seq_slices_hi_In in Hp as (j & Hj & ->). exists l, (l + j). split; [lia|reflexivity].
  - intros (lo & hi & H & ->). exists lo. split; [lia|]. apply seq_slices_hi_In. exists (hi - lo). split; [lia|].
    replace (lo + (hi - lo)) with hi by lia. reflexivity.
Qed.

Lemma is_object_child t cs k p' : children t = Some cs ->
  is_object t (PChild k :: p') = match nth_error cs k with Some (_, c) => is_object c p' | None => false end.
Proof.
  intros Ec. unfold is_object, node_at. cbn [walk step]. rewrite Ec.
  destruct (nth_error cs k) as [[id c]|]; [|reflexivity]. destruct (walk c p') as [[? ?]|]; reflexivity.
Qed.
Lemma is_object_nochild t s p' : children t = None -> is_elem s = false -> (forall lo hi, s <> PSlice lo hi) ->
  is_object t (s :: p') = false.
Proof.
  intros Ec Hs NS. destruct s as [k|i|lo hi]; [|discriminate|exfalso; eapply NS; reflexivity].
  unfold is_object, node_at. cbn [walk step]. now rewrite Ec.
Qed.

Lemma objects_kids_spec t cs : children t = Some cs -> is_list t = false ->
  Forall (fun ic => forall p, In p (objects (snd ic)) <-> is_object (snd ic) p = true) cs ->
  forall p, In p ([] :: objs_kids objects 0 cs) <-> is_object t p = true.
Proof.
  intros Ec Lt IH p. cbn [In]. rewrite objs_kids_In. split.
  - intros [<-|(j & id & c & p' & -> & En & Hp)].
    + unfold is_object, node_at. cbn. now rewrite Lt.
    + cbn [plus]. rewrite (is_object_child t cs j p' Ec), En. rewrite Forall_forall in IH.
      apply (IH (id, c)); [eapply nth_error_In; eauto|exact Hp].
  - intros O. destruct p as [|s p']; [now left|right].
    destruct s as [k|i|lo hi].
    + rewrite (is_object_child t cs k p' Ec) in O. destruct (nth_error cs k) as [[id c]|] eqn:En; [|discriminate].
      exists k, id, c, p'. repeat split; auto. rewrite Forall_forall in IH.
      apply (IH (id, c)); [eapply nth_error_In; eauto|exact O].
    + exfalso. unfold is_object, node_at in O. cbn [walk step] in O. destruct t; cbn in Lt, Ec; try discriminate.
    + exfalso. unfold is_object, node_at in O. cbn [walk step] in O. destruct t; cbn in Ec; try discriminate.
Qed.

Theorem objects_spec t : forall p, In p (objects t) <-> is_object t p = true.
Proof.
  induction t using node_ind'; intros p.
  - change (objects (NComp cs)) with ([] :: objs_kids objects 0 cs). now apply objects_kids_spec.
  - change (objects (NIfc cs)) with ([] :: objs_kids objects 0 cs). now apply objects_kids_spec.
  - cbn. split; [intros [<-|[]]; reflexivity|]. destruct p as [|s p]; [now left|]. destruct s; discriminate.
  - cbn [objects In]. rewrite slices_In. split.
    + intros [<-|(lo & hi & H & ->)]; [reflexivity|]. unfold is_object, node_at. cbn [walk]. now rewrite slice_step_ok.
    + intros O. destruct p as [|s p]; [now left|right]. unfold is_object, node_at in O. cbn [walk] in O.
      destruct (step (NBits n) s) as [[tk c]|] eqn:Es; [|discriminate].
      destruct (step_wf (NBits n) s tk c eq_refl Es) as [(_ & He & NS)|(m & lo & hi & Em & -> & -> & -> & B)].
      * destruct s; cbn in Es; try discriminate. exfalso; eapply NS; reflexivity.
      * inversion Em; subst. destruct p as [|s' p]; [eauto|]. cbn [walk] in O. rewrite step_slice_none in O. discriminate.
  - change (objects (NStruct fs)) with ([] :: objs_kids objects 0 fs). now apply objects_kids_spec.
  - change (objects (NList es)) with (objs_elems objects 0 es). rewrite objs_elems_In. split.
    + intros (j & e & p' & -> & En & Hp). cbn [plus]. unfold is_object, node_at. cbn [walk step]. rewrite En.
      rewrite Forall_forall in H. apply (H e (nth_error_In _ _ En)) in Hp. unfold is_object, node_at in Hp.
      destruct (walk e p') as [[? ?]|]; [exact Hp|discriminate].
    + intros O. destruct p as [|s p']; [discriminate|]. unfold is_object, node_at in O. cbn [walk] in O.
      destruct s as [k|i|lo hi]; try discriminate. cbn [step] in O.
      destruct (nth_error es i) as [e|] eqn:En; [|discriminate]. exists i, e, p'. repeat split; auto.
      rewrite Forall_forall in H. apply (H e (nth_error_In _ _ En)). unfold is_object, node_at.
      destruct (walk e p') as [[? ?]|]; [exact O|discriminate].
  - cbn. split; [intros [<-|[]]; reflexivity|]. destruct p as [|s p]; [now left|]. destruct s; discriminate.
Qed.

(* all enumerated objects have pairwise distinct names and printed names *)
Corollary objects_names_distinct t p q : wf t = true -> In p (objects t) -> In q (objects t) ->
  full_name t p = full_name t q -> p = q.
Proof. intros W Hp Hq. apply full_name_inj; auto; now apply objects_spec. Qed.

(* elaborating the same construction again gives the same name set: names are a function of the tree *)
Definition names (t : node) : list string := map (full_name t) (objects t).

(* objects existing right after construction are objects *)
Theorem eager_is_object t : forall p, In p (eager t) -> is_object t p = true.
Proof.
  assert (Kids : forall t0 cs, children t0 = Some cs -> is_list t0 = false ->
            Forall (fun ic => forall p, In p (eager (snd ic)) -> is_object (snd ic) p = true) cs ->
            forall p, In p ([] :: objs_kids eager 0 cs) -> is_object t0 p = true).
  { clear t. intros t cs Ec Lt IH p. cbn [In]. rewrite objs_kids_In. intros [<-|(j & id & c & p' & -> & En & Hp)].
    - unfold is_object, node_at. cbn. now rewrite Lt.
    - cbn [plus]. rewrite (is_object_child t cs j p' Ec), En. rewrite Forall_forall in IH.
      apply (IH (id, c)); [eapply nth_error_In; eauto|exact Hp]. }
  induction t using node_ind'; intros p.
  - change (eager (NComp cs)) with ([] :: objs_kids eager 0 cs). now apply Kids.
  - change (eager (NIfc cs)) with ([] :: objs_kids eager 0 cs). now apply Kids.
  - cbn. intros [<-|[]]; reflexivity.
  - cbn. intros [<-|[]]; reflexivity.
  - cbn. intros [<-|[]]; reflexivity.
  - change (eager (NList es)) with (objs_elems eager 0 es). rewrite objs_elems_In.
    intros (j & e & p' & -> & En & Hp). cbn [plus]. unfold is_object, node_at. cbn [walk step]. rewrite En.
    rewrite Forall_forall in H. apply (H e (nth_error_In _ _ En)) in Hp. unfold is_object, node_at in Hp.
    destruct (walk e p') as [[? ?]|]; [exact Hp|discriminate].
  - cbn. intros [<-|[]]; reflexivity.
Qed.

(* ------------------------------------------------------------------ the checker used by the harness is sound *)
Lemma tokens_eqb_eq a : forall b, tokens_eqb a b = true -> a = b.
Proof.
  induction a as [|x a IH]; intros [|y b] H; cbn in H; try discriminate; [reflexivity|].
  apply andb_true_iff in H as [H1 H2]. rewrite (IH _ H2). f_equal.
  destruct x, y; cbn in H1; try discriminate.
  - apply String.eqb_eq in H1. now subst.
  - apply Nat.eqb_eq in H1. now subst.
  - apply andb_true_iff in H1 as [A B]. apply Nat.eqb_eq in A. apply Nat.eqb_eq in B. now subst.
Qed.

(* an accepted observation names an object of the model whose printed model name is exactly the observed repr *)
Theorem obs_ok_sound t o : wf t = true -> obs_ok t o = true ->
  exists p, is_object t p = true /\ full_name t p = o_name o /\
            parse_name (o_name o) = Some (name_of t p) /\ resolve t (name_of t p) = Some p.
Proof.
  intros W H. unfold obs_ok in H. destruct (parse_name (o_name o)) as [ts|] eqn:Ep; [|discriminate].
  destruct (resolve t ts) as [p|] eqn:Er; [|discriminate].
  apply andb_true_iff in H as [H _]. apply andb_true_iff in H as [H _]. apply andb_true_iff in H as [H _].
  apply andb_true_iff in H as [H _]. apply andb_true_iff in H as [H _]. apply andb_true_iff in H as [H Hn].
  apply andb_true_iff in H as [Ho Ht]. exists p. apply tokens_eqb_eq in Ht. apply String.eqb_eq in Hn.
  repeat split; auto; [now rewrite Ht|]. apply resolve_name; auto.
Qed.
