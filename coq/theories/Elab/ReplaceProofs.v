(* Elab/ReplaceProofs.v — theorems about the replacement algebra of Elab/Replace.v (property C15).
   Unbounded: arbitrary hierarchies, arbitrary slots (any depth / list position = any name), arbitrary sequences. *)
From Coq Require Import List Bool Arith Ascii String Lia.
From PV Require Import Base.Prelude Elab.Replace.
Import ListNotations.
Local Open Scope nat_scope.
Local Open Scope list_scope.

(* ------------------------------------------------------------------ set equality *)
Lemma set_eq_refl {A} (a : list A) : set_eq a a.
Proof. intros x; tauto. Qed.
Lemma set_eq_sym {A} (a b : list A) : set_eq a b -> set_eq b a.
Proof. intros H x; symmetry; apply H. Qed.
Lemma set_eq_trans {A} (a b c : list A) : set_eq a b -> set_eq b c -> set_eq a c.
Proof. intros H1 H2 x; rewrite (H1 x); apply H2. Qed.
Lemma set_eq_app {A} (a a' b b' : list A) : set_eq a a' -> set_eq b b' -> set_eq (a ++ b) (a' ++ b').
Proof. intros H1 H2 x. rewrite !in_app_iff, (H1 x), (H2 x). tauto. Qed.
Lemma set_eq_filter {A} (f : A -> bool) (a b : list A) : set_eq a b -> set_eq (filter f a) (filter f b).
Proof. intros H x. rewrite !filter_In, (H x). tauto. Qed.
Lemma set_eq_flat_map {A B} (f : A -> list B) (a b : list A) : set_eq a b -> set_eq (flat_map f a) (flat_map f b).
Proof. intros H y. rewrite !in_flat_map. split; intros (x & Hx & Hy); exists x; split; auto; apply H; auto. Qed.

(* ------------------------------------------------------------------ prefix order *)
Lemma under_app c n : under c (c ++ n) = true.
Proof. induction c as [|x c IH]; cbn; [reflexivity|]. now rewrite String.eqb_refl. Qed.
Lemma under_spec c n : under c n = true <-> exists r, n = c ++ r.
Proof.
  split.
  - revert n; induction c as [|x c IH]; intros n H; [exists n; reflexivity|].
    destruct n as [|y n]; cbn in H; [discriminate|]. apply andb_true_iff in H as [E H]. apply String.eqb_eq in E; subst.
    destruct (IH n H) as [r ->]. exists r; reflexivity.
  - intros [r ->]. apply under_app.
Qed.
Lemma under_trans a b n : under a b = true -> under b n = true -> under a n = true.
Proof.
  rewrite !under_spec. intros [r ->] [r' ->]. exists (r ++ r'). now rewrite app_assoc.
Qed.

(* ------------------------------------------------------------------ metadata is the disjoint union of local contributions *)
Lemma meta_app H1 H2 : meta (H1 ++ H2) = meta H1 ++ meta H2.
Proof. unfold meta. apply flat_map_app. Qed.
Lemma meta_In H g : In g (meta H) <-> exists loc, In (fst g, loc) H /\ In (snd g) loc.
Proof.
  unfold meta. rewrite in_flat_map. split.
  - intros ([c loc] & Hc & Hg). cbn in Hg. apply in_map_iff in Hg as (f & <- & Hf). exists loc. cbn. auto.
  - intros (loc & Hc & Hf). exists (fst g, loc). split; [exact Hc|]. cbn. apply in_map_iff. exists (snd g). destruct g; auto.
Qed.
(* every entry is owned by exactly the component that contributed it *)
Lemma filter_owner_map (p : name -> bool) c (loc : list fact) :
  filter (fun g => p (owner g)) (map (pair c) loc) = if p c then map (pair c) loc else [].
Proof.
  induction loc as [|f loc IH]; [destruct (p c); reflexivity|]. cbn [map filter]. unfold owner at 1. cbn [fst].
  rewrite IH. destruct (p c); reflexivity.
Qed.
Lemma flat_map_filter_gen {A B} (F : A -> list B) (q : A -> bool) (r : B -> bool)
  (Hq : forall a, filter r (F a) = if q a then F a else []) l : flat_map F (filter q l) = filter r (flat_map F l).
Proof.
  induction l as [|a l IH]; [reflexivity|]. cbn [filter flat_map]. rewrite filter_app, Hq, <- IH.
  destruct (q a); reflexivity.
Qed.
Lemma meta_filter_owner (p : name -> bool) H :
  meta (filter (fun cl => p (fst cl)) H) = filter (fun g => p (owner g)) (meta H).
Proof. unfold meta. apply flat_map_filter_gen. intros [c loc]. apply filter_owner_map. Qed.
Lemma meta_rebase_owner c H' g : In g (meta (rebase c H')) -> under c (owner g) = true.
Proof.
  intros Hg. apply meta_In in Hg as (loc & Hc & _). unfold rebase in Hc. apply in_map_iff in Hc as ([c' l'] & E & _).
  cbn in E. inversion E. unfold owner. rewrite <- H0. apply under_app.
Qed.

(* ------------------------------------------------------------------ delete / saved / add *)
Lemma delete_saved_partition M c :
  set_eq (delete M c ++ saved M c) (filter (fun g => negb (under c (owner g))) M).
Proof.
  intros g. unfold delete, saved. rewrite in_app_iff, !filter_In. destruct (refers_into c g); destruct (under c (owner g)); cbn; tauto.
Qed.

(* replacing a sub-hierarchy by delete + add gives exactly the metadata of the design built with the replacement in place *)
Theorem delete_add_eq_build H c H' :
  set_eq (replace (meta H) c H') (meta (subst H c H')).
Proof.
  unfold replace, add, subst. rewrite meta_app.
  rewrite (meta_filter_owner (fun n => negb (under c n)) H).
  intros g. rewrite !in_app_iff. pose proof (delete_saved_partition (meta H) c g) as P. rewrite in_app_iff in P. tauto.
Qed.

(* same statement with the implementation's failure mode: re-evaluating a saved name raises unless the new
   component exposes it *)
Theorem delete_add_eq_build_checked H c H' : exposes c H' (saved (meta H) c) = true ->
  exists M', replace_checked (meta H) c H' = Some M' /\ set_eq M' (meta (subst H c H')).
Proof.
  intros E. unfold replace_checked. rewrite E. eexists; split; [reflexivity|apply delete_add_eq_build].
Qed.

(* the algebra respects set equality (pymtl3 keeps sets; the order of collection is irrelevant) *)
Lemma replace_set_eq M1 M2 c H' : set_eq M1 M2 -> set_eq (replace M1 c H') (replace M2 c H').
Proof.
  intros E. unfold replace, add, delete, saved.
  apply set_eq_app; [apply set_eq_filter, E|]. apply set_eq_app; [apply set_eq_refl|apply set_eq_filter, E].
Qed.

(* any sequence of replacements, at any depth / list position, also repeatedly on the same slot *)
Theorem replace_seq rs : forall H M, set_eq M (meta H) ->
  set_eq (replace_seq_meta M rs) (meta (replace_seq_hier H rs)).
Proof.
  induction rs as [|[c H'] rs IH]; intros H M E; [exact E|].
  cbn [replace_seq_meta replace_seq_hier fold_left fst snd]. apply IH.
  eapply set_eq_trans; [apply replace_set_eq, E|apply delete_add_eq_build].
Qed.
Corollary replace_seq_from_build H rs : set_eq (replace_seq_meta (meta H) rs) (meta (replace_seq_hier H rs)).
Proof. apply replace_seq, set_eq_refl. Qed.

(* ------------------------------------------------------------------ nothing of the removed subtree remains *)
Lemma existsb_false_forall {A} (f : A -> bool) l : existsb f l = false <-> forall x, In x l -> f x = false.
Proof.
  induction l as [|y l IH]; cbn; [split; [intros _ x []|reflexivity]|].
  rewrite orb_false_iff, IH. split; [intros [H1 H2] x [<-|Hx]; auto|intros H; split; [apply H; now left|intros x Hx; apply H; now right]].
Qed.

Theorem no_residue_after_delete M c g : In g (delete M c) ->
  under c (owner g) = false /\ forall r, In r (abs_refs g) -> under c r = false.
Proof.
  unfold delete. rewrite filter_In. intros [_ H]. apply andb_true_iff in H as [H1 H2].
  apply negb_true_iff in H1. apply negb_true_iff in H2. split; [exact H1|]. now apply existsb_false_forall.
Qed.

(* after the replacement: whatever is owned under the slot is NEW; whatever refers into the slot is new or is a saved
   outside entry whose name was re-evaluated against the new subtree *)
Theorem no_residue M c H' g : In g (replace M c H') ->
  (under c (owner g) = true -> In g (meta (rebase c H'))) /\
  (forall r, In r (abs_refs g) -> under c r = true -> In g (meta (rebase c H')) \/ In g (saved M c)).
Proof.
  unfold replace, add. rewrite !in_app_iff. intros [Hd|[Hn|Hs]].
  - destruct (no_residue_after_delete M c g Hd) as [H1 H2]. split; [congruence|]. intros r Hr U. rewrite (H2 r Hr) in U. discriminate.
  - split; auto.
  - split; [|auto]. unfold saved in Hs. apply filter_In in Hs as [_ H]. apply andb_true_iff in H as [H _].
    apply negb_true_iff in H. congruence.
Qed.

(* when the replacement exposes the saved names, every reference into the slot names an object of the NEW subtree *)
Theorem saved_refs_resolve M c H' g r : exposes c H' (saved M c) = true -> In g (saved M c) -> In r (abs_refs g) ->
  under c r = true -> resolves (declared (meta (rebase c H'))) r = true.
Proof.
  unfold exposes. rewrite forallb_forall. intros E Hg Hr U. specialize (E g Hg). rewrite forallb_forall in E.
  specialize (E r Hr). rewrite U in E. exact E.
Qed.

(* components outside the slot keep exactly their contributions *)
Theorem outside_untouched H c H' g : under c (owner g) = false ->
  (In g (meta (subst H c H')) <-> In g (meta H)).
Proof.
  intros U. unfold subst. rewrite meta_app, in_app_iff, (meta_filter_owner (fun n => negb (under c n)) H), filter_In.
  split.
  - intros [[Hg _]|Hn]; [exact Hg|]. apply meta_rebase_owner in Hn. congruence.
  - intros Hg. left. split; [exact Hg|]. now rewrite U.
Qed.

(* replacing a component by an identical one is the identity on metadata; replacing twice = replacing once by the last *)
Theorem replace_twice H c H1 H2 : set_eq (meta (subst (subst H c H1) c H2)) (meta (subst H c H2)).
Proof.
  intros g. destruct (under c (owner g)) eqn:U.
  - unfold subst. rewrite !meta_app, !in_app_iff, !(meta_filter_owner (fun n => negb (under c n))), !filter_In. rewrite U. cbn.
    split; [intros [[_ F]|Hn]; [discriminate|now right]|intros [[_ F]|Hn]; [discriminate|now right]].
  - rewrite !(outside_untouched _ c _ g U). tauto.
Qed.

(* ------------------------------------------------------------------ the comparison used by the harness *)
Lemma row_eqb_eq a : forall b, row_eqb a b = true <-> a = b.
Proof.
  induction a as [|x a IH]; intros [|y b]; cbn; try (split; [discriminate|congruence]); [tauto|].
  rewrite andb_true_iff, String.eqb_eq, IH. split; [intros [-> ->]; reflexivity|intros E; inversion E; auto].
Qed.
Lemma row_mem_In r l : row_mem r l = true <-> In r l.
Proof.
  unfold row_mem. rewrite existsb_exists. split; [intros (x & Hx & E); apply row_eqb_eq in E; now subst|].
  intros H; exists r; split; [exact H|now apply row_eqb_eq].
Qed.
Lemma rows_eq_spec a b : rows_eq a b = true <-> set_eq a b.
Proof.
  unfold rows_eq, rows_subset. rewrite andb_true_iff, !forallb_forall. split.
  - intros [H1 H2] x. split; intros Hx; [apply row_mem_In, H1, Hx|apply row_mem_In, H2, Hx].
  - intros H. split; intros x Hx; apply row_mem_In, H, Hx.
Qed.
Lemma views_set_eq M1 M2 : set_eq M1 M2 -> set_eq (views M1) (views M2).
Proof. apply set_eq_flat_map. Qed.

(* the two ways the harness computes the expected rows agree (so one accepted comparison implies the other) *)
Theorem views_replace_seq H rs : set_eq (views (replace_seq_meta (meta H) rs)) (views (meta (replace_seq_hier H rs))).
Proof. apply views_set_eq, replace_seq_from_build. Qed.

(* an accepted case: the rows pymtl3 reports after the replacement sequence are exactly the rows of the design built
   from scratch with the replacements in place *)
Lemma rows_subset_fast_sound a b : rows_subset_fast a b = true -> forall r, In r a -> In r b.
Proof.
  unfold rows_subset_fast. rewrite andb_true_iff, !forallb_forall. intros [T B] r Hr.
  specialize (T r Hr). apply existsb_exists in T as (t & Ht & Et). apply String.eqb_eq in Et.
  specialize (B t Ht). cbv zeta in B. rewrite forallb_forall in B.
  assert (Hb : In r (bucket t a)) by (unfold bucket; apply filter_In; split; [exact Hr|now apply String.eqb_eq]).
  specialize (B r Hb). apply row_mem_In in B. unfold bucket in B. apply filter_In in B. tauto.
Qed.
Lemma srev_involutive s : srev (srev s) = s.
Proof.
  unfold srev. now rewrite list_ascii_of_string_of_list_ascii, rev_involutive, string_of_list_ascii_of_string.
Qed.
Lemma rrow_involutive r : rrow (rrow r) = r.
Proof.
  destruct r as [|t rest]; [reflexivity|]. cbn. f_equal. rewrite map_map. rewrite <- (map_id rest) at 2.
  apply map_ext. intros x. apply srev_involutive.
Qed.
Lemma In_map_rrow r l : In (rrow r) (map rrow l) -> In r l.
Proof.
  intros H. apply in_map_iff in H as (r' & E & Hr). apply (f_equal rrow) in E. rewrite !rrow_involutive in E. now subst.
Qed.
Lemma rows_eq_fast_sound a b : rows_eq_fast a b = true -> set_eq a b.
Proof.
  unfold rows_eq_fast. cbv zeta. rewrite andb_true_iff. intros [H1 H2] r. split; intros Hr.
  - apply In_map_rrow. apply (rows_subset_fast_sound _ _ H1). now apply in_map.
  - apply In_map_rrow. apply (rows_subset_fast_sound _ _ H2). now apply in_map.
Qed.
Theorem case_ok_sound H rs obs both : case_ok (H, rs, obs, both) = true -> set_eq obs (views (meta (replace_seq_hier H rs))).
Proof.
  unfold case_ok. intros E. apply andb_true_iff in E as [E _]. apply rows_eq_fast_sound in E. now apply set_eq_sym.
Qed.
