(* Elab/AddressProofs.v — the structural walk pymtl3 uses (same object / ancestor chain / overlapping sibling slice)
   relates two well-formed signal objects iff their bit intervals inside the packed root intersect.  No axioms. *)
From PV Require Import Base.Prelude.
From Coq Require Import Arith.
From PV Require Import Sched.Accept Elab.Address.
Open Scope Z_scope.

Definition ov (a b : Z * Z) : bool := (fst a <? snd b) && (fst b <? snd a).

Lemma step_eqb_sym s t : step_eqb s t = step_eqb t s.
Proof. unfold step_eqb. destruct s, t; cbn; lia. Qed.

Lemma step_eqb_true s t : step_eqb s t = true -> slo s = slo t /\ shi s = shi t /\ is_slc s = is_slc t.
Proof. unfold step_eqb. destruct s, t; cbn; lia. Qed.

Lemma nested_cons plo phi s c : nested plo phi (s :: c) = true ->
  plo <= slo s /\ slo s < shi s /\ shi s <= phi /\ (is_slc s = true -> c = []) /\ nested (slo s) (shi s) c = true.
Proof.
  cbn [nested]. intros H. repeat (apply andb_prop in H; destruct H as [H ?]).
  repeat split; try lia; try assumption.
  intros Hs. rewrite Hs in *. destruct c; [reflexivity|discriminate].
Qed.

Lemma nested_rng : forall c plo phi, nested plo phi c = true ->
  plo <= fst (rng_in plo phi c) /\ fst (rng_in plo phi c) < snd (rng_in plo phi c) /\ snd (rng_in plo phi c) <= phi.
Proof.
  induction c as [|s c IH]; intros plo phi H.
  - cbn in *. lia.
  - apply nested_cons in H. destruct H as [H1 [H2 [H3 [_ H5]]]]. specialize (IH _ _ H5). cbn [rng_in]. lia.
Qed.

Lemma walk_chain_nil_l d : walk_chain [] d = true.
Proof. reflexivity. Qed.
Lemma walk_chain_nil_r c : walk_chain c [] = true.
Proof. unfold walk_chain. destruct c; cbn; [reflexivity|]. reflexivity. Qed.

(* equal first steps: descend *)
Lemma walk_chain_eq_step s t c d : step_eqb s t = true -> slo s < shi s ->
  walk_chain (s :: c) (t :: d) = walk_chain c d.
Proof.
  intros He Hne. unfold walk_chain. cbn [prefix_b]. rewrite (step_eqb_sym t s), He. cbn [andb].
  destruct (step_eqb_true s t He) as [E1 [E2 E3]].
  destruct c as [|s2 c2], d as [|t2 d2].
  - cbn. reflexivity.
  - cbn [prefix_b sib_overlap]. destruct s, t; cbn [orb andb]; rewrite ?He; cbn; reflexivity.
  - cbn [prefix_b sib_overlap]. destruct s, t; cbn [orb andb]; rewrite ?He; cbn; reflexivity.
  - cbn [sib_overlap]. rewrite He. cbn [andb]. reflexivity.
Qed.

(* different first steps: only two sibling slices can be related *)
Lemma walk_chain_neq_step s t c d : step_eqb s t = false ->
  walk_chain (s :: c) (t :: d) =
  match c, d, s, t with [], [], Slc l1 h1, Slc l2 h2 => overlap_py l1 h1 l2 h2 | _, _, _, _ => false end.
Proof.
  intros Hn. unfold walk_chain. cbn [prefix_b]. rewrite (step_eqb_sym t s), Hn. cbn [andb orb].
  destruct c, d, s, t; cbn [sib_overlap]; rewrite ?Hn; reflexivity.
Qed.

Lemma walk_chain_rng : forall c d plo phi,
  nested plo phi c = true -> nested plo phi d = true -> div_ok c d = true ->
  walk_chain c d = ov (rng_in plo phi c) (rng_in plo phi d).
Proof.
  induction c as [|s c IH]; intros d plo phi Hc Hd Hdiv.
  - rewrite walk_chain_nil_l. pose proof (nested_rng [] plo phi Hc). pose proof (nested_rng d plo phi Hd).
    unfold ov. cbn [rng_in fst snd] in *. lia.
  - destruct d as [|t d].
    + rewrite walk_chain_nil_r. pose proof (nested_rng (s :: c) plo phi Hc). pose proof (nested_rng [] plo phi Hd).
      unfold ov. cbn [rng_in fst snd] in *. lia.
    + pose proof (nested_cons _ _ _ _ Hc) as [C1 [C2 [C3 [C4 C5]]]].
      pose proof (nested_cons _ _ _ _ Hd) as [D1 [D2 [D3 [D4 D5]]]].
      cbn [div_ok] in Hdiv. cbn [rng_in]. destruct (step_eqb s t) eqn:He.
      * rewrite (walk_chain_eq_step s t c d He C2).
        destruct (step_eqb_true s t He) as [E1 [E2 _]]. rewrite E1, E2 in C5 |- *.
        apply IH; assumption.
      * rewrite (walk_chain_neq_step s t c d He).
        pose proof (nested_rng c _ _ C5) as RC. pose proof (nested_rng d _ _ D5) as RD.
        apply orb_prop in Hdiv. destruct Hdiv as [Hs|Hdis].
        -- apply andb_prop in Hs. destruct Hs as [Hs Ht]. rewrite (C4 Hs), (D4 Ht).
           destruct s, t; try discriminate. cbn [rng_in slo shi fst snd] in *. unfold ov, overlap_py. cbn [fst snd]. destruct (lo <=? lo0) eqn:E; lia.
        -- assert (ov (rng_in (slo s) (shi s) c) (rng_in (slo t) (shi t) d) = false) as ->.
           { unfold ov, disjoint_steps in *. lia. }
           destruct c, d, s, t; try reflexivity.
           unfold overlap_py, disjoint_steps in *. cbn [slo shi] in *. destruct (lo <=? lo0) eqn:E; lia.
Qed.

(* the theorem: on well-formed, compatible addresses the structural walk = "share a bit" *)
Theorem walk_iff_overlap a b : wf_addr a = true -> wf_addr b = true -> compat a b = true ->
  walk_rel a b = ivl_rel a b.
Proof.
  unfold wf_addr, compat, walk_rel, ivl_rel, ivl_overlap, ivl_of, iroot, ilo, ihi. cbn [fst snd].
  intros Wa Wb Hc. destruct (Nat.eqb (a_root a) (a_root b)) eqn:R; cbn [andb negb orb] in *; [|reflexivity].
  apply andb_prop in Hc. destruct Hc as [Hw Hd]. apply Z.eqb_eq in Hw. rewrite <- Hw in Wb |- *.
  rewrite (walk_chain_rng _ _ 0 (a_width a) Wa Wb Hd). unfold ov. reflexivity.
Qed.

Theorem walk_iff_shared_bit a b : wf_addr a = true -> wf_addr b = true -> compat a b = true ->
  (walk_rel a b = true <-> exists v, in_ivl v (ivl_of a) = true /\ in_ivl v (ivl_of b) = true).
Proof.
  intros Wa Wb Hc. rewrite (walk_iff_overlap a b Wa Wb Hc). unfold ivl_rel.
  apply ivl_overlap_spec; unfold wf_ivl, ivl_of, ilo, ihi; cbn [fst snd].
  - pose proof (nested_rng _ _ _ Wa). lia.
  - pose proof (nested_rng _ _ _ Wb). lia.
Qed.

(* in a well-formed universe this holds for every pair *)
Theorem walk_iff_overlap_universe U a b : wf_universe U = true -> In a U -> In b U -> walk_rel a b = ivl_rel a b.
Proof.
  unfold wf_universe. intros H Ha Hb. apply andb_prop in H. destruct H as [H1 H2]. rewrite forallb_forall in H1, H2.
  apply walk_iff_overlap; [apply H1; exact Ha|apply H1; exact Hb|].
  specialize (H2 a Ha). rewrite forallb_forall in H2. apply H2. exact Hb.
Qed.
