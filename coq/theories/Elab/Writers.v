(* Elab/Writers.v — who drives a value net (model for C08).  Definitions only; proofs in WritersProofs.v.
   Every member of a net is described by two facts: is it a constant, and which bits of which packed top-level
   signal it denotes (a bit interval as in Sched/Accept.v).  Everything that drives bits from outside a net
   (update-block writes, top-level input ports, the reader side of other nets) is a list of bit intervals.
   A member is a legitimate driver of its net iff it is a constant or shares a bit with a driven interval: that covers
   "written by an update block", "is (part of) a top-level input", "has a driven strict ancestor" (its bits are inside
   the ancestor's) and "has a driven bit-overlapping sibling / descendant".  No axioms. *)
From Coq Require Import ZArith List Bool Arith.
Import ListNotations.
From PV Require Import Sched.Accept Elab.Nets.

Record ninfo := mkN { n_const : bool; n_ivl : ivl }.
Definition info_of (tbl : list ninfo) (n : node) : ninfo := nth n tbl (mkN false (0%nat, 0%Z, 0%Z)).
Definition ivl_n (tbl : list ninfo) (n : node) : ivl := n_ivl (info_of tbl n).
Definition const_n (tbl : list ninfo) (n : node) : bool := n_const (info_of tbl n).

(* m is driven from the interval list D *)
Definition legit (tbl : list ninfo) (D : fp) (m : node) : bool :=
  const_n tbl m || existsb (ivl_overlap (ivl_n tbl m)) D.

(* the drivers of a net: a function of the members only *)
Definition drivers (tbl : list ninfo) (D : fp) (net : list node) : list node := filter (legit tbl D) net.

Definition readers (w : node) (net : list node) : list node := filter (fun m => negb (Nat.eqb m w)) net.
Definition reader_ivls (tbl : list ninfo) (wn : node * list node) : fp :=
  map (ivl_n tbl) (readers (fst wn) (snd wn)).

(* ---- acceptor, part 1: in the order in which the nets were resolved, every named writer is a member of its net and
   is driven by the base drivers D or by the reader side of a net resolved earlier (well-founded justification) ---- *)
Fixpoint wr_chain (tbl : list ninfo) (D : fp) (obs : list (node * list node)) : bool :=
  match obs with
  | [] => true
  | wn :: rest => memn (fst wn) (snd wn) && legit tbl D (fst wn) && wr_chain tbl (D ++ reader_ivls tbl wn) rest
  end.

(* ---- acceptor, part 2: no second independent driver: seen from net i, everything driven elsewhere is the base drivers
   plus the reader sides of all OTHER nets; no member except the writer may be a constant or touch any of it ---- *)
Definition others {A} (i : nat) (l : list A) : list A := firstn i l ++ skipn (S i) l.
Definition ext_drive (tbl : list ninfo) (D0 : fp) (obs : list (node * list node)) (i : nat) : fp :=
  D0 ++ flat_map (reader_ivls tbl) (others i obs).

Definition excl_at (tbl : list ninfo) (D0 : fp) (obs : list (node * list node)) (i : nat) : bool :=
  let wn := nth i obs (0%nat, []) in
  forallb (fun m => Nat.eqb m (fst wn) || negb (legit tbl (ext_drive tbl D0 obs i) m)) (snd wn).

Definition excl_ok (tbl : list ninfo) (D0 : fp) (obs : list (node * list node)) : bool :=
  forallb (excl_at tbl D0 obs) (seq 0 (length obs)).

Definition wf_members (tbl : list ninfo) (obs : list (node * list node)) : bool :=
  forallb (fun wn => forallb (fun m => const_n tbl m || wf_ivl (ivl_n tbl m)) (snd wn)) obs.

Definition writer_ok (tbl : list ninfo) (D0 : fp) (obs : list (node * list node)) : bool :=
  wf_fp D0 && wf_members tbl obs && wr_chain tbl D0 obs && excl_ok tbl D0 obs.

(* ---- acceptor, part 3 (separate, so that its failures are reported separately): inside one net the non-writer
   members denote pairwise disjoint bits, i.e. the net drives no bit twice ---- *)
Fixpoint pairwise_disjoint (l : fp) : bool :=
  match l with [] => true | a :: r => forallb (fun b => negb (ivl_overlap a b)) r && pairwise_disjoint r end.
(* two readers that denote exactly the same bits (x and its full-width slice x[0:n]) receive the same writer bits: they
   count once; readers with different, overlapping ranges would receive different writer bits on a shared bit *)
Definition ivl_eqb (a b : ivl) : bool := Nat.eqb (iroot a) (iroot b) && (ilo a =? ilo b)%Z && (ihi a =? ihi b)%Z.
Fixpoint dedup_ivl (l : fp) : fp :=
  match l with [] => [] | a :: r => if existsb (ivl_eqb a) r then dedup_ivl r else a :: dedup_ivl r end.
Definition net_readers (tbl : list ninfo) (wn : node * list node) : fp := dedup_ivl (reader_ivls tbl wn).
Definition net_shape_ok (tbl : list ninfo) (wn : node * list node) : bool :=
  pairwise_disjoint (net_readers tbl wn) &&
  (const_n tbl (fst wn) ||
   forallb (fun r => negb (ivl_overlap (ivl_n tbl (fst wn)) r) &&
                     (ihi r - ilo r <=? ihi (ivl_n tbl (fst wn)) - ilo (ivl_n tbl (fst wn)))%Z) (net_readers tbl wn)).
Definition net_disjoint_ok (tbl : list ninfo) (obs : list (node * list node)) : bool := forallb (net_shape_ok tbl) obs.

(* ---- the least-fixed-point reading of "legitimately driven" ---- *)
Inductive driven (tbl : list ninfo) (D0 : fp) (obs : list (node * list node)) : ivl -> Prop :=
| dr_base d : In d D0 -> driven tbl D0 obs d
| dr_const w net r : In (w, net) obs -> In r net -> r <> w -> const_n tbl w = true -> driven tbl D0 obs (ivl_n tbl r)
| dr_prop w net r d : In (w, net) obs -> In r net -> r <> w ->
    driven tbl D0 obs d -> ivl_overlap (ivl_n tbl w) d = true -> driven tbl D0 obs (ivl_n tbl r).

Definition justified (tbl : list ninfo) (D0 : fp) (obs : list (node * list node)) (w : node) : Prop :=
  const_n tbl w = true \/ exists d, driven tbl D0 obs d /\ ivl_overlap (ivl_n tbl w) d = true.

(* ---- what a net does in simulation: the net block copies the writer's bits onto every reader, one reader after the
   other (bit environment as in Sched: a bit is (root signal, index)) ---- *)
Definition benv := bit -> bool.
Definition copy_ivl (w r : ivl) (e : benv) : benv :=
  fun v => if in_ivl v r then e (iroot w, (ilo w + (snd v - ilo r))%Z) else e v.
Definition run_net (w : ivl) (rs : list ivl) (e : benv) : benv := fold_left (fun e r => copy_ivl w r e) rs e.
(* reader r holds the writer's value *)
Definition carries (w r : ivl) (e : benv) : Prop :=
  forall k, (0 <= k < ihi r - ilo r)%Z -> e (iroot r, (ilo r + k)%Z) = e (iroot w, (ilo w + k)%Z).
