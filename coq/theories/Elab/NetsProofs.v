(* Elab/NetsProofs.v — `components` computes exactly the equivalence classes of the reflexive-symmetric-transitive
   closure of the edge list; the classes are pairwise disjoint, non-empty and cover the nodes; the result is
   invariant (as a set of sets) under permutation of the edge list, swapping the sides of any edge and repeating
   edges; soundness of the acceptor nets_ok.  All statements are for arbitrary (unbounded) edge lists.  No axioms. *)
From Coq Require Import List Bool Arith Lia Permutation.
Import ListNotations.
From PV Require Import Elab.Nets.

(* ------------------------------------------------------------------ small facts *)
Lemma memn_In x l : memn x l = true <-> In x l.
Proof.
  unfold memn. rewrite existsb_exists. split.
  - intros [y [Hy He]]. apply Nat.eqb_eq in He. subst. exact Hy.
  - intros H. exists x. split; [exact H|apply Nat.eqb_refl].
Qed.

Lemma memn_false x l : memn x l = false <-> ~ In x l.
Proof.
  split.
  - intros H Hin. apply memn_In in Hin. congruence.
  - intros H. destruct (memn x l) eqn:M; [|reflexivity]. apply memn_In in M. contradiction.
Qed.

Lemma concat_singletons l : concat (singletons l) = l.
Proof. induction l as [|x l IH]; cbn; [reflexivity|]. f_equal. exact IH. Qed.

Lemma concat_filter_perm (f : list node -> bool) p :
  Permutation (concat (filter f p) ++ concat (filter (fun c => negb (f c)) p)) (concat p).
Proof.
  induction p as [|c p IH]; cbn; [constructor|].
  destruct (f c); cbn.
  - rewrite <- app_assoc. apply Permutation_app_head. exact IH.
  - eapply Permutation_trans; [apply Permutation_app_swap_app|]. apply Permutation_app_head. exact IH.
Qed.

Lemma merge_concat_perm p e : Permutation (concat (merge p e)) (concat p).
Proof. unfold merge. cbn [concat]. apply concat_filter_perm. Qed.

Lemma merge_concat_in p e x : In x (concat (merge p e)) <-> In x (concat p).
Proof.
  split; intros H.
  - exact (Permutation_in x (merge_concat_perm p e) H).
  - exact (Permutation_in x (Permutation_sym (merge_concat_perm p e)) H).
Qed.

Lemma in_ends E x : In x (ends E) <-> exists e, In e E /\ (x = fst e \/ x = snd e).
Proof.
  unfold ends. rewrite in_flat_map. split.
  - intros [e [He Hx]]. exists e. split; [exact He|]. cbn in Hx. destruct Hx as [Hx|[Hx|[]]]; auto.
  - intros [e [He Hx]]. exists e. split; [exact He|]. cbn. destruct Hx as [Hx|Hx]; auto.
Qed.

Lemma in_nodes E x : In x (nodes E) <-> exists e, In e E /\ (x = fst e \/ x = snd e).
Proof. unfold nodes. rewrite nodup_In. apply in_ends. Qed.

Lemma edge_in_nodes E a b : In (a, b) E -> In a (nodes E) /\ In b (nodes E).
Proof. intros H. split; apply in_nodes; exists (a, b); (split; [exact H|]); cbn; auto. Qed.

Lemma nodup_app_inv (l l' : list node) : NoDup (l ++ l') -> NoDup l' /\ forall y, In y l -> ~ In y l'.
Proof.
  induction l as [|z l IH]; cbn; intros H; [split; [exact H|intros y []]|].
  inversion H as [|? ? Hn Hnd]; subst. destruct (IH Hnd) as [H1 H2]. split; [exact H1|].
  intros y [<-|Hy]; [|apply H2; exact Hy]. intros Hin. apply Hn. apply in_or_app. right. exact Hin.
Qed.

(* a class list with pairwise distinct elements overall has disjoint classes *)
Lemma nodup_concat_class (p : list (list node)) c d x :
  NoDup (concat p) -> In c p -> In d p -> In x c -> In x d -> c = d.
Proof.
  induction p as [|h p IH]; intros Hnd Hc Hd Hxc Hxd; [destruct Hc|].
  cbn in Hnd. destruct (nodup_app_inv h (concat p) Hnd) as [Hnd' Hdis].
  destruct Hc as [<-|Hc]; destruct Hd as [<-|Hd].
  - reflexivity.
  - exfalso. apply (Hdis x Hxc). apply in_concat. exists d. split; assumption.
  - exfalso. apply (Hdis x Hxd). apply in_concat. exists c. split; assumption.
  - apply IH; assumption.
Qed.

(* ------------------------------------------------------------------ the invariant of the fold *)
Record inv (E : list edge) (V : list node) (p : list (list node)) : Prop := mkInv {
  inv_nodup : NoDup (concat p);
  inv_ne    : forall c, In c p -> c <> [];
  inv_cover : forall x, In x (concat p) <-> In x V;
  inv_sound : forall c x y, In c p -> In x c -> In y c -> conn E x y }.

Lemma inv_init E V : NoDup V -> inv E V (singletons V).
Proof.
  intros Hnd. constructor.
  - rewrite concat_singletons. exact Hnd.
  - intros c Hc. unfold singletons in Hc. apply in_map_iff in Hc. destruct Hc as [x [<- _]]. discriminate.
  - intros x. rewrite concat_singletons. tauto.
  - intros c x y Hc Hx Hy. unfold singletons in Hc. apply in_map_iff in Hc. destruct Hc as [z [<- _]].
    destruct Hx as [<-|[]]. destruct Hy as [<-|[]]. apply conn_refl.
Qed.

Lemma touched_conn E V p a b c x :
  inv E V p -> In (a, b) E -> In c (filter (touches a b) p) -> In x c -> conn E x a.
Proof.
  intros I Hab Hc Hx. apply filter_In in Hc. destruct Hc as [Hc Ht].
  unfold touches in Ht. apply orb_prop in Ht. destruct Ht as [Ht|Ht]; apply memn_In in Ht.
  - exact (inv_sound _ _ _ I c x a Hc Hx Ht).
  - apply conn_trans with b; [exact (inv_sound _ _ _ I c x b Hc Hx Ht)|]. apply conn_sym. apply conn_edge. exact Hab.
Qed.

Lemma in_touched p a b x c : In c p -> In x c -> (x = a \/ x = b) -> In x (concat (filter (touches a b) p)).
Proof.
  intros Hc Hx Hab. apply in_concat. exists c. split; [|exact Hx]. apply filter_In. split; [exact Hc|].
  unfold touches. apply orb_true_intro. destruct Hab as [<-|<-]; [left|right]; apply memn_In; exact Hx.
Qed.

Lemma merge_inv E V p a b :
  inv E V p -> In (a, b) E -> In a V -> inv E V (merge p (a, b)).
Proof.
  intros I Hab Ha. constructor.
  - apply (Permutation_NoDup (Permutation_sym (merge_concat_perm p (a, b)))). exact (inv_nodup _ _ _ I).
  - intros c Hc. unfold merge in Hc. cbn [fst snd] in Hc. destruct Hc as [<-|Hc].
    + apply (inv_cover _ _ _ I) in Ha. apply in_concat in Ha. destruct Ha as [ca [Hca Haca]].
      intros Hnil. pose proof (in_touched p a b a ca Hca Haca (or_introl eq_refl)) as H. rewrite Hnil in H. destruct H.
    + apply filter_In in Hc. destruct Hc as [Hc _]. exact (inv_ne _ _ _ I c Hc).
  - intros x. rewrite merge_concat_in. exact (inv_cover _ _ _ I x).
  - intros c x y Hc Hx Hy. unfold merge in Hc. cbn [fst snd] in Hc. destruct Hc as [<-|Hc].
    + apply in_concat in Hx, Hy. destruct Hx as [c1 [Hc1 Hx]]. destruct Hy as [c2 [Hc2 Hy]].
      apply conn_trans with a.
      * exact (touched_conn E V p a b c1 x I Hab Hc1 Hx).
      * apply conn_sym. exact (touched_conn E V p a b c2 y I Hab Hc2 Hy).
    + apply filter_In in Hc. destruct Hc as [Hc _]. exact (inv_sound _ _ _ I c x y Hc Hx Hy).
Qed.

Lemma fold_inv E V : forall E' p, (forall e, In e E' -> In e E) -> (forall e, In e E' -> In (fst e) V) ->
  inv E V p -> inv E V (fold_left merge E' p).
Proof.
  induction E' as [|[a b] r IH]; intros p Hsub HV I; cbn [fold_left]; [exact I|].
  apply IH.
  - intros e He. apply Hsub. right. exact He.
  - intros e He. apply HV. right. exact He.
  - apply merge_inv; [exact I|apply Hsub; left; reflexivity|apply (HV (a, b)); left; reflexivity].
Qed.

(* ------------------------------------------------------------------ completeness of the fold *)
Lemma same_sym p x y : same p x y -> same p y x.
Proof. intros [c [Hc [Hx Hy]]]. exists c. auto. Qed.

Lemma merge_mono p e x y : same p x y -> same (merge p e) x y.
Proof.
  intros [c [Hc [Hx Hy]]]. unfold merge. destruct (touches (fst e) (snd e) c) eqn:T.
  - exists (concat (filter (touches (fst e) (snd e)) p)). split; [left; reflexivity|].
    split; apply in_concat; exists c; (split; [apply filter_In; split; assumption|assumption]).
  - exists c. split; [right; apply filter_In; split; [exact Hc|rewrite T; reflexivity]|]. split; assumption.
Qed.

Lemma fold_mono : forall E' p x y, same p x y -> same (fold_left merge E' p) x y.
Proof.
  induction E' as [|e r IH]; intros p x y H; cbn [fold_left]; [exact H|]. apply IH. apply merge_mono. exact H.
Qed.

Lemma merge_joins p a b : In a (concat p) -> In b (concat p) -> same (merge p (a, b)) a b.
Proof.
  intros Ha Hb. apply in_concat in Ha, Hb. destruct Ha as [ca [Hca Ha]]. destruct Hb as [cb [Hcb Hb]].
  exists (concat (filter (touches a b) p)). split; [left; reflexivity|]. split.
  - exact (in_touched p a b a ca Hca Ha (or_introl eq_refl)).
  - exact (in_touched p a b b cb Hcb Hb (or_intror eq_refl)).
Qed.

Lemma fold_complete : forall E' p,
  (forall e, In e E' -> In (fst e) (concat p) /\ In (snd e) (concat p)) ->
  forall a b, In (a, b) E' -> same (fold_left merge E' p) a b.
Proof.
  induction E' as [|[a0 b0] r IH]; intros p Hin a b Hab; [destruct Hab|].
  cbn [fold_left]. destruct Hab as [Heq|Hab].
  - inversion Heq; subst. apply fold_mono. apply merge_joins; apply (Hin (a, b)); left; reflexivity.
  - apply IH; [|exact Hab]. intros e He. rewrite !merge_concat_in. apply Hin. right. exact He.
Qed.

(* ------------------------------------------------------------------ components: the main facts *)
Lemma components_inv E : inv E (nodes E) (components E).
Proof.
  unfold components. apply fold_inv.
  - auto.
  - intros [a b] He. apply (edge_in_nodes E a b He).
  - apply inv_init. apply NoDup_nodup.
Qed.

Lemma components_edge E a b : In (a, b) E -> same (components E) a b.
Proof.
  intros H. unfold components. apply fold_complete; [|exact H].
  intros [x y] He. rewrite concat_singletons. exact (edge_in_nodes E x y He).
Qed.

(* classes are non-empty, pairwise disjoint (all listed elements are distinct), and cover exactly the nodes *)
Theorem components_nonempty E c : In c (components E) -> c <> [].
Proof. exact (inv_ne _ _ _ (components_inv E) c). Qed.

Theorem components_nodup E : NoDup (concat (components E)).
Proof. exact (inv_nodup _ _ _ (components_inv E)). Qed.

Theorem components_disjoint E c d x :
  In c (components E) -> In d (components E) -> In x c -> In x d -> c = d.
Proof. apply nodup_concat_class. apply components_nodup. Qed.

Theorem components_cover E x : In x (nodes E) <-> exists c, In c (components E) /\ In x c.
Proof. rewrite <- (inv_cover _ _ _ (components_inv E) x). apply in_concat. Qed.

Lemma same_trans_comp E x y z : same (components E) x y -> same (components E) y z -> same (components E) x z.
Proof.
  intros [c [Hc [Hx Hy]]] [d [Hd [Hy' Hz]]].
  assert (c = d) by (apply (components_disjoint E c d y); assumption). subst d.
  exists c. auto.
Qed.

Lemma conn_nodes E x y : conn E x y -> (In x (nodes E) <-> In y (nodes E)).
Proof.
  induction 1 as [x|a b Hab|x y _ IH|x y z _ IH1 _ IH2]; try tauto.
  destruct (edge_in_nodes E a b Hab). tauto.
Qed.

(* soundness: members of one class are related by the closure *)
Theorem components_sound E x y : same (components E) x y -> conn E x y.
Proof. intros [c [Hc [Hx Hy]]]. exact (inv_sound _ _ _ (components_inv E) c x y Hc Hx Hy). Qed.

(* completeness: related nodes lie in one class *)
Theorem components_complete E x y : conn E x y -> In x (nodes E) -> In y (nodes E) -> same (components E) x y.
Proof.
  induction 1 as [x|a b Hab|x y H IH|x y z H1 IH1 H2 IH2]; intros Hx Hy.
  - apply components_cover in Hx. destruct Hx as [c [Hc Hx]]. exists c. auto.
  - apply components_edge. exact Hab.
  - apply same_sym. apply IH; assumption.
  - assert (Hm : In y (nodes E)) by (apply (conn_nodes E x y H1); exact Hx).
    apply same_trans_comp with y; [apply IH1|apply IH2]; assumption.
Qed.

Theorem components_spec E x y : In x (nodes E) -> In y (nodes E) ->
  (same (components E) x y <-> conn E x y).
Proof. intros Hx Hy. split; [apply components_sound|intros H; apply components_complete; assumption]. Qed.

(* every class is exactly one equivalence class of the closure *)
Theorem components_class E c x : In c (components E) -> In x c -> forall y, In y c <-> conn E x y.
Proof.
  intros Hc Hx y. split.
  - intros Hy. apply components_sound. exists c. auto.
  - intros H. assert (Hxn : In x (nodes E)) by (apply components_cover; exists c; auto).
    assert (Hyn : In y (nodes E)) by (apply (conn_nodes E x y H); exact Hxn).
    destruct (components_complete E x y H Hxn Hyn) as [d [Hd [Hxd Hyd]]].
    assert (c = d) by (apply (components_disjoint E c d x); assumption). subst d. exact Hyd.
Qed.

(* ------------------------------------------------------------------ order / orientation independence *)
Lemma edges_equiv_refl E : edges_equiv E E.
Proof. intros a b. tauto. Qed.
Lemma edges_equiv_sym E E' : edges_equiv E E' -> edges_equiv E' E.
Proof. intros H a b. specialize (H a b). tauto. Qed.
Lemma edges_equiv_trans E1 E2 E3 : edges_equiv E1 E2 -> edges_equiv E2 E3 -> edges_equiv E1 E3.
Proof. intros H1 H2 a b. specialize (H1 a b). specialize (H2 a b). tauto. Qed.

Lemma perm_edges_equiv E E' : Permutation E E' -> edges_equiv E E'.
Proof.
  intros P a b. split; (intros [H|H]; [left|right]);
    first [exact (Permutation_in _ P H) | exact (Permutation_in _ (Permutation_sym P) H)].
Qed.

Lemma flip_edges_equiv : forall E bs, edges_equiv E (flip_some bs E).
Proof.
  induction E as [|[x y] r IH]; intros bs a b; cbn [flip_some]; [tauto|].
  specialize (IH (tl bs) a b).
  assert (Hh : ((x, y) = (a, b) <-> swap (x, y) = (b, a)) /\ ((x, y) = (b, a) <-> swap (x, y) = (a, b))).
  { unfold swap. cbn [fst snd]. split; split; intros H; inversion H; reflexivity. }
  destruct Hh as [Hh1 Hh2].
  destruct bs as [|[|] bs']; cbn [tl In] in *; tauto.
Qed.

Lemma conn_equiv E E' x y : edges_equiv E E' -> conn E x y -> conn E' x y.
Proof.
  intros Q. induction 1 as [x|a b Hab|x y _ IH|x y z _ IH1 _ IH2].
  - apply conn_refl.
  - destruct (proj1 (Q a b) (or_introl Hab)) as [H|H]; [apply conn_edge; exact H|apply conn_sym; apply conn_edge; exact H].
  - apply conn_sym. exact IH.
  - apply conn_trans with y; assumption.
Qed.

Lemma nodes_equiv E E' x : edges_equiv E E' -> In x (nodes E) -> In x (nodes E').
Proof.
  intros Q H. apply in_nodes in H. destruct H as [[a b] [He Hx]]. cbn [fst snd] in Hx.
  destruct (proj1 (Q a b) (or_introl He)) as [H|H].
  - apply in_nodes. exists (a, b). split; [exact H|exact Hx].
  - apply in_nodes. exists (b, a). split; [exact H|]. cbn [fst snd]. tauto.
Qed.

Lemma components_equiv_half E E' : edges_equiv E E' ->
  forall c, In c (components E) -> exists c', In c' (components E') /\ set_eq c c'.
Proof.
  intros Q c Hc. destruct c as [|x0 c0] eqn:Ec; [exfalso; exact (components_nonempty E [] Hc eq_refl)|]. rewrite <- Ec in *.
  assert (Hx0 : In x0 c) by (rewrite Ec; left; reflexivity).
  assert (Hn : In x0 (nodes E')).
  { apply (nodes_equiv E E' x0 Q). apply components_cover. exists c. auto. }
  apply components_cover in Hn. destruct Hn as [c' [Hc' Hx0']]. exists c'. split; [exact Hc'|].
  intros y. rewrite (components_class E c x0 Hc Hx0 y), (components_class E' c' x0 Hc' Hx0' y).
  split; apply conn_equiv; [exact Q|apply edges_equiv_sym; exact Q].
Qed.

(* the components do not depend on the order of the statements, on which side of a statement a signal is written,
   or on repeated statements *)
Theorem components_equiv E E' : edges_equiv E E' -> parts_equiv (components E) (components E').
Proof.
  intros Q. split.
  - apply components_equiv_half. exact Q.
  - intros c Hc. destruct (components_equiv_half E' E (edges_equiv_sym _ _ Q) c Hc) as [c' [H1 H2]].
    exists c'. split; [exact H1|exact H2].
Qed.

Theorem components_perm E E' : Permutation E E' -> parts_equiv (components E) (components E').
Proof. intros P. apply components_equiv. apply perm_edges_equiv. exact P. Qed.

Theorem components_flip E bs : parts_equiv (components E) (components (flip_some bs E)).
Proof. apply components_equiv. apply flip_edges_equiv. Qed.

Theorem components_perm_flip E E' bs : Permutation E' (flip_some bs E) ->
  parts_equiv (components E) (components E').
Proof.
  intros P. apply components_equiv. apply edges_equiv_trans with (flip_some bs E).
  - apply flip_edges_equiv.
  - apply perm_edges_equiv. apply Permutation_sym. exact P.
Qed.

(* ------------------------------------------------------------------ boolean helpers and the acceptor *)
Lemma subset_b_spec a b : subset_b a b = true <-> (forall x, In x a -> In x b).
Proof.
  unfold subset_b. rewrite forallb_forall. split; intros H x Hx.
  - apply memn_In. apply H. exact Hx.
  - apply memn_In. apply H. exact Hx.
Qed.

Lemma set_eqb_spec a b : set_eqb a b = true <-> set_eq a b.
Proof.
  unfold set_eqb, set_eq. rewrite andb_true_iff, !subset_b_spec. split.
  - intros [H1 H2] x. split; auto.
  - intros H. split; intros x Hx; apply H; exact Hx.
Qed.

Lemma same_b_spec p x y : same_b p x y = true <-> same p x y.
Proof.
  unfold same_b, same. rewrite existsb_exists. split.
  - intros [c [Hc H]]. apply andb_prop in H. destruct H as [H1 H2]. apply memn_In in H1, H2. exists c. auto.
  - intros [c [Hc [H1 H2]]]. exists c. split; [exact Hc|]. apply andb_true_intro. split; apply memn_In; assumption.
Qed.

Lemma same_parts_equiv p q x y : parts_equiv p q -> (same p x y <-> same q x y).
Proof.
  intros [H1 H2]. split.
  - intros [c [Hc [Hx Hy]]]. destruct (H1 c Hc) as [c' [Hc' Hs]]. exists c'. split; [exact Hc'|]. split; apply Hs; assumption.
  - intros [c [Hc [Hx Hy]]]. destruct (H2 c Hc) as [c' [Hc' Hs]]. exists c'. split; [exact Hc'|]. split; apply Hs; assumption.
Qed.

Lemma same_b_equiv E E' x y : edges_equiv E E' -> same_b (components E) x y = same_b (components E') x y.
Proof.
  intros Q. apply eq_true_iff_eq. rewrite !same_b_spec. apply same_parts_equiv. apply components_equiv. exact Q.
Qed.

Lemma is_und_spec a b e : is_und a b e = true <-> (e = (a, b) \/ e = (b, a)).
Proof.
  unfold is_und. destruct e as [x y]. cbn [fst snd]. rewrite orb_true_iff, !andb_true_iff, !Nat.eqb_eq. split.
  - intros [[-> ->]|[-> ->]]; auto.
  - intros [H|H]; inversion H; auto.
Qed.

Lemma remove_und_equiv E E' a b : edges_equiv E E' -> edges_equiv (remove_und a b E) (remove_und a b E').
Proof.
  assert (G : forall E E', edges_equiv E E' -> forall x y, In (x, y) (remove_und a b E) ->
              In (x, y) (remove_und a b E') \/ In (y, x) (remove_und a b E')).
  { intros F F' Q x y H. unfold remove_und in *. apply filter_In in H. destruct H as [H N].
    apply negb_true_iff in N.
    assert (N2 : is_und a b (y, x) = false).
    { destruct (is_und a b (y, x)) eqn:U; [|reflexivity]. apply is_und_spec in U.
      assert (is_und a b (x, y) = true) by (apply is_und_spec; destruct U as [U|U]; inversion U; auto). congruence. }
    destruct (proj1 (Q x y) (or_introl H)) as [H'|H']; [left|right]; apply filter_In; (split; [exact H'|]);
      apply negb_true_iff; assumption. }
  intros Q x y. split; intros [H|H].
  - exact (G E E' Q x y H).
  - destruct (G E E' Q y x H); auto.
  - exact (G E' E (edges_equiv_sym _ _ Q) x y H).
  - destruct (G E' E (edges_equiv_sym _ _ Q) y x H); auto.
Qed.

(* what acceptance of the observed nets means *)
Theorem nets_ok_sound E obs : nets_ok E obs = true ->
  length obs = length (components E) /\
  parts_equiv obs (components E) /\
  (forall o x, In o obs -> In x o -> forall y, In y o <-> conn E x y) /\
  (forall x, In x (nodes E) <-> exists o, In o obs /\ In x o).
Proof.
  unfold nets_ok. intros H. apply andb_prop in H. destruct H as [H H3]. apply andb_prop in H. destruct H as [H1 H2].
  apply Nat.eqb_eq in H1. rewrite forallb_forall in H2, H3.
  assert (P : parts_equiv obs (components E)).
  { split.
    - intros o Ho. specialize (H2 o Ho). apply existsb_exists in H2. destruct H2 as [c [Hc Hs]]. exists c.
      split; [exact Hc|apply set_eqb_spec; exact Hs].
    - intros c Hc. specialize (H3 c Hc). apply existsb_exists in H3. destruct H3 as [o [Ho Hs]]. exists o.
      split; [exact Ho|apply set_eqb_spec; exact Hs]. }
  split; [exact H1|]. split; [exact P|]. split.
  - intros o x Ho Hx y. destruct (proj1 P o Ho) as [c [Hc Hs]].
    rewrite (Hs y). apply components_class; [exact Hc|apply Hs; exact Hx].
  - intros x. rewrite components_cover. split.
    + intros [c [Hc Hx]]. destruct (proj2 P c Hc) as [o [Ho Hs]]. exists o. split; [exact Ho|apply Hs; exact Hx].
    + intros [o [Ho Hx]]. destruct (proj1 P o Ho) as [c [Hc Hs]]. exists c. split; [exact Hc|apply Hs; exact Hx].
Qed.
